(* ComposeForgets.v — C10 for the raw and the compression layer readers, and for the whole
   stack compression∘encryption∘raw∘source, at the level of the STREAM operations.

   HistProofs.SeekForgets ("an absolute seek gives the same result from ANY two states, and
   on success the same state") is
     * FALSE for the raw layer over arbitrary states: the result depends on offset_pos
       (`raw_strict_refuted`); true for two states with the same offset_pos;
     * FALSE for the compression layer over arbitrary states: from the Empty state a seek is
       refused (`comp_strict_refuted`), the answer depends on sizes_info, and a seek to the very
       end of the stream keeps the inner layer where it was (state Ready(inner)), so the two
       resulting states are not equal — only indistinguishable.
   Hence the generalisation, in this file and not in HistProofs.v:
     SeekForgetsP S P      — as SeekForgets, for pairs of states related by P;
     SeekForgetsE S P E    — ... and on success the two states are related by E, a relation
                             under which every read and every seek gives equal results and
                             related states (a bisimulation).
   `stream_history_independent`: for such a stream, after an absolute seek from two P-related
   states every sequence of reads and seeks (any whence, any argument, failing ones included)
   gives the same results.  Instances: cursor, raw, encryption (P-version of
   HistProofs.seekforgets_enc), compression; `stack_history_independent` for the stack.

   NOT done (hence C10_stack_history_independent is stated for stream operations, and the
   reader-level statement over hist_op stays limited to {cursor, encryption over cursor}):
   lifting to `Run.hist_op` needs every operation of Reader.v to respect E and preserve P;
   Reader.v is being changed concurrently and was not touched. *)
From MLA Require Import Limit.
From MLA Require Import Base Stream EncLayer CompLayer RawLayer LayerStack.
From Coq Require Import ZifyBool ZifyNat ZifyN.
Open Scope N_scope.

(* ---------- the notions ---------- *)
Definition SeekForgetsP (S : Stream) (P : st S -> st S -> Prop) : Prop :=
  forall s1 s2 p, P s1 s2 ->
    snd (sk S s1 (FromStart p)) = snd (sk S s2 (FromStart p)) /\
    (is_ok (snd (sk S s1 (FromStart p))) = true ->
     fst (sk S s1 (FromStart p)) = fst (sk S s2 (FromStart p))).

Inductive sop := SRead (n : N) | SSeek (w : whence).
Definition run_sop (S : Stream) (s : st S) (o : sop) : st S * (res bytes + res N) :=
  match o with
  | SRead n => let '(s', r) := rd S s n in (s', inl r)
  | SSeek w => let '(s', r) := sk S s w in (s', inr r)
  end.
Fixpoint run_sops (S : Stream) (s : st S) (ops : list sop) : list (res bytes + res N) :=
  match ops with
  | [] => []
  | o :: t => let '(s', r) := run_sop S s o in r :: run_sops S s' t
  end.

Definition Bisim (S : Stream) (E : st S -> st S -> Prop) : Prop :=
  forall s1 s2 o, E s1 s2 ->
    snd (run_sop S s1 o) = snd (run_sop S s2 o) /\ E (fst (run_sop S s1 o)) (fst (run_sop S s2 o)).

Definition SeekForgetsE (S : Stream) (P E : st S -> st S -> Prop) : Prop :=
  (forall s1 s2 p, P s1 s2 ->
     snd (sk S s1 (FromStart p)) = snd (sk S s2 (FromStart p)) /\
     (is_ok (snd (sk S s1 (FromStart p))) = true ->
      E (fst (sk S s1 (FromStart p))) (fst (sk S s2 (FromStart p))))) /\
  Bisim S E.

Lemma bisim_runs S E : Bisim S E -> forall ops s1 s2, E s1 s2 -> run_sops S s1 ops = run_sops S s2 ops.
Proof.
  intros HB. induction ops as [|o t IH]; intros s1 s2 HE; cbn [run_sops]; [reflexivity|].
  destruct (HB s1 s2 o HE) as [Hr He].
  destruct (run_sop S s1 o) as [a r1]. destruct (run_sop S s2 o) as [b r2]. cbn [fst snd] in *.
  subst r2. f_equal. apply IH, He.
Qed.

(* THE stream-level theorem *)
Theorem stream_history_independent S P E : SeekForgetsE S P E ->
  forall s1 s2 p ops, P s1 s2 ->
    snd (sk S s1 (FromStart p)) = snd (sk S s2 (FromStart p)) /\
    (is_ok (snd (sk S s1 (FromStart p))) = true ->
     run_sops S s1 (SSeek (FromStart p) :: ops) = run_sops S s2 (SSeek (FromStart p) :: ops)).
Proof.
  intros [HF HB] s1 s2 p ops HP. destruct (HF s1 s2 p HP) as [Hr He]. split; [exact Hr|].
  intros Hok. specialize (He Hok). cbn [run_sops run_sop].
  destruct (sk S s1 (FromStart p)) as [a r1]. destruct (sk S s2 (FromStart p)) as [b r2]. cbn [fst snd] in *.
  subst r2. f_equal. exact (bisim_runs S E HB ops a b He).
Qed.

Lemma bisim_eq S : Bisim S eq.
Proof. intros s1 s2 o ->. split; reflexivity. Qed.
Lemma forgetsP_E S P : SeekForgetsP S P -> SeekForgetsE S P eq.
Proof. intros H. split; [exact H | apply bisim_eq]. Qed.

(* ---------- cursor, raw, encryption ---------- *)
Lemma forgetsP_cursor b : SeekForgetsP (Cursor b) (fun _ _ => True).
Proof. intros s1 s2 p _. cbn. split; [reflexivity | intros _; reflexivity]. Qed.
Lemma forgetsP_throttled b : SeekForgetsP (Throttled b) (fun a c => snd a = snd c).
Proof. intros [p1 sc1] [p2 sc2] p Hs. cbn [snd] in Hs. subst sc2. cbn. split; [reflexivity | intros _; reflexivity]. Qed.

Section RawForgets.
  Context {LIM : Limit}.
  Variable S : Stream.
  Variable P : st S -> st S -> Prop.
  Hypothesis HS : SeekForgetsP S P.
  Definition Praw (a b : st (RawReader S)) : Prop := r_off a = r_off b /\ P (r_in a) (r_in b).
  Lemma forgetsP_raw : SeekForgetsP (RawReader S) Praw.
  Proof.
    intros [i1 o1] [i2 o2] p [Ho HP]. cbn [r_off r_in] in Ho, HP. subst o2.
    cbn [RawReader sk rseek r_off r_in].
    destruct (2 ^ 64 <=? o1 + p); [split; [reflexivity | discriminate]|].
    destruct (HS i1 i2 (o1 + p) HP) as [Hr Hst].
    destruct (sk S i1 _) as [a r1]. destruct (sk S i2 _) as [b r2]. cbn [fst snd] in *. subst r2.
    destruct r1 as [v|e|c]; cbn [fst snd is_ok]; split; try reflexivity; try discriminate.
    intros _. rewrite (Hst eq_refl). reflexivity.
  Qed.
End RawForgets.

(* two raw readers with different offset_pos answer differently *)
Lemma raw_strict_refuted :
  exists s1 s2 : st (RawReader (Cursor [1; 2; 3])),
    snd (sk (RawReader (Cursor [1; 2; 3])) s1 (FromStart (2 ^ 64 - 1))) <>
    snd (sk (RawReader (Cursor [1; 2; 3])) s2 (FromStart (2 ^ 64 - 1))).
Proof. exists (@mkR (Cursor [1; 2; 3]) 0 0), (@mkR (Cursor [1; 2; 3]) 0 1). vm_compute. discriminate. Qed.

Section EncForgetsP.
  Context {LIM : Limit}.
  Variables CHUNK TAG : N.
  Variable ks : N -> N -> N.
  Variable tagc : N -> bytes -> bytes.
  Variable S : Stream.
  Variable P : st S -> st S -> Prop.
  Hypothesis HS : SeekForgetsP S P.
  Definition Penc (a b : st (EncReader CHUNK TAG ks tagc S)) : Prop := P (e_in a) (e_in b).
  Lemma forgetsP_enc : SeekForgetsP (EncReader CHUNK TAG ks tagc S) Penc.
  Proof.
    intros s1 s2 p HP. cbn [EncReader sk]. unfold eseek, eseek_start.
    destruct (_ <? p / CHUNK); cbn [snd fst is_ok]; [split; [reflexivity | discriminate]|].
    destruct (HS (e_in s1) (e_in s2) (notag2tag CHUNK TAG p / CTS CHUNK TAG * CTS CHUNK TAG) HP) as [Hr Hst].
    destruct (sk S (e_in s1) _) as [i1 r1]. destruct (sk S (e_in s2) _) as [i2 r2].
    cbn [fst snd] in Hr, Hst. subst r2.
    destruct r1 as [v|e|c]; cbn [snd fst is_ok]; try (split; [reflexivity | discriminate]).
    specialize (Hst eq_refl). subst i2.
    destruct (2 ^ 32 <=? _); cbn [snd fst is_ok]; [split; [reflexivity | discriminate]|].
    unfold eload. cbn [e_in e_chunk].
    destruct (read_full S _ i1 _) as [i' [d|e|c]]; cbn [snd fst]; try (split; [reflexivity | discriminate]).
    repeat match goal with |- context [if ?c then _ else _] => destruct c end;
      cbn [snd fst e_in e_cache e_chunk]; split; try reflexivity; try discriminate.
  Qed.
End EncForgetsP.

(* ---------- compression ---------- *)
Section CompForgets.
  Context {LIM : Limit}.
  Variable BLOCK : N.
  Variable dec : bytes -> bytes.
  Variable S : Stream.
  Variable P : st S -> st S -> Prop.
  Hypothesis HS : SeekForgetsP S P.
  Notation CR := (CompReader BLOCK dec S).
  Notation creader := (creader S).

  (* two readers that have not failed, with the same sizes_info, over P-related inner layers *)
  Definition Pcomp (c1 c2 : creader) : Prop :=
    c_si c1 = c_si c2 /\
    exists i1 i2, into_inner S (c_state c1) = Ok i1 /\ into_inner S (c_state c2) = Ok i2 /\ P i1 i2.
  (* indistinguishable: equal, or both Ready at the same position over P-related inner layers
     (the next read or seek starts with an absolute seek of the inner layer) *)
  Definition Ecomp (c1 c2 : creader) : Prop :=
    c1 = c2 \/
    exists i1 i2 si pos, c1 = mkC (CReady i1) si pos /\ c2 = mkC (CReady i2) si pos /\ P i1 i2.

  Lemma sync_forgets si i1 i2 p : P i1 i2 ->
    snd (sync_inner BLOCK S si i1 p) = snd (sync_inner BLOCK S si i2 p) /\
    (is_ok (snd (sync_inner BLOCK S si i1 p)) = true ->
     fst (sync_inner BLOCK S si i1 p) = fst (sync_inner BLOCK S si i2 p)).
  Proof.
    intros HP. unfold sync_inner. destruct (block_start_check BLOCK si p); try (split; [reflexivity | discriminate]).
    destruct si as [s|]; [|split; [reflexivity | discriminate]].
    destruct (HS i1 i2 (sum_firstN (si_sizes s) (p / BLOCK)) HP) as [Hr Hst].
    destruct (sk S i1 _) as [x1 r1]. destruct (sk S i2 _) as [x2 r2]. cbn [fst snd] in *. subst r2.
    destruct r1; cbn [fst snd is_ok]; split; try reflexivity; try discriminate. intros _. exact (Hst eq_refl).
  Qed.

  (* the core: cseek_start_go from two states with the same sizes_info and position whose inner
     layers are P-related *)
  Lemma go_forgets st1 st2 si0 pos0 i1 i2 si pos :
    into_inner S st1 = Ok i1 -> into_inner S st2 = Ok i2 -> P i1 i2 ->
    forall pos2,
    let r1 := cseek_start_go BLOCK dec S (mkC st1 si0 pos0) si pos in
    let r2 := cseek_start_go BLOCK dec S (mkC st2 si0 pos2) si pos in
    snd r1 = snd r2 /\ (is_ok (snd r1) = true -> Ecomp (fst r1) (fst r2)) /\
    (pos0 = pos2 -> Ecomp (mkC st1 si0 pos0) (mkC st2 si0 pos2) -> Ecomp (fst r1) (fst r2)).
  Proof.
    intros H1 H2 HP pos2. unfold cseek_start_go. cbn [c_si c_state c_pos set_state]. rewrite H1, H2.
    destruct (negb (pos_in_stream _ si0 (pos - pos mod BLOCK))).
    - destruct (negb (pos =? _)); cbn [fst snd is_ok].
      + split; [reflexivity|]. split; [discriminate|]. auto.
      + split; [reflexivity|]. split; intros; right; exists i1, i2, si0, pos; auto.
    - destruct (sync_forgets si0 i1 i2 (pos - pos mod BLOCK) HP) as [Hr Hst].
      destruct (sync_inner BLOCK S si0 i1 _) as [a r1]. destruct (sync_inner BLOCK S si0 i2 _) as [b r2].
      cbn [fst snd] in Hr, Hst. subst r2.
      destruct r1 as [v|e|c]; cbn [fst snd is_ok].
      2,3: split; [reflexivity|]; split; [discriminate|]; intros ->; left; reflexivity.
      rewrite <- (Hst eq_refl).
      destruct (new_decompressor_at BLOCK dec S si0 a _) as [d|e|c]; cbn [fst snd is_ok].
      2,3: split; [reflexivity|]; split; [discriminate|]; intros ->; left; reflexivity.
      destruct (ubs_at BLOCK si0 _) as [u|e|c]; cbn [fst snd is_ok].
      2,3: split; [reflexivity|]; split; [discriminate|]; intros ->; left; reflexivity.
      destruct (dec_read S d (pos mod BLOCK)) as [d' x].
      destruct (2 ^ 32 <=? pos mod BLOCK); cbn [fst snd is_ok].
      + split; [reflexivity|]; split; [discriminate|]; intros ->; left; reflexivity.
      + split; [reflexivity|]. split; intros; left; reflexivity.
  Qed.

  Lemma start_forgets c1 c2 pos : Pcomp c1 c2 ->
    snd (cseek_start BLOCK dec S c1 pos) = snd (cseek_start BLOCK dec S c2 pos) /\
    (is_ok (snd (cseek_start BLOCK dec S c1 pos)) = true ->
     Ecomp (fst (cseek_start BLOCK dec S c1 pos)) (fst (cseek_start BLOCK dec S c2 pos))).
  Proof.
    destruct c1 as [st1 si1 p1], c2 as [st2 si2 p2]. intros [Hsi (i1 & i2 & H1 & H2 & HP)].
    cbn [c_si c_state] in *. subst si2. unfold cseek_start. cbn [c_si c_state].
    destruct si1 as [si|]; [|split; [reflexivity | discriminate]].
    destruct (go_forgets st1 st2 (Some si) p1 i1 i2 si pos H1 H2 HP p2) as (Hr & He & _).
    destruct st1 as [a|r u d|]; [| |discriminate]; (destruct st2 as [b|r' u' d'|]; [| |discriminate]);
      split; assumption.
  Qed.

  (* an Ecomp pair under seek(Start) *)
  Lemma start_bisim c1 c2 pos : Ecomp c1 c2 ->
    snd (cseek_start BLOCK dec S c1 pos) = snd (cseek_start BLOCK dec S c2 pos) /\
    Ecomp (fst (cseek_start BLOCK dec S c1 pos)) (fst (cseek_start BLOCK dec S c2 pos)).
  Proof.
    intros [->|(i1 & i2 & si0 & p0 & -> & -> & HP)]; [split; [reflexivity | left; reflexivity]|].
    unfold cseek_start. cbn [c_si c_state].
    destruct si0 as [si|]; [|split; [reflexivity | right; exists i1, i2, None, p0; auto]].
    destruct (go_forgets (CReady i1) (CReady i2) (Some si) p0 i1 i2 si pos eq_refl eq_refl HP p0) as (Hr & _ & He).
    split; [exact Hr|]. apply He; [reflexivity|]. right. exists i1, i2, (Some si), p0. auto.
  Qed.

  Lemma seek_bisim c1 c2 w : Ecomp c1 c2 ->
    snd (cseek BLOCK dec S c1 w) = snd (cseek BLOCK dec S c2 w) /\
    Ecomp (fst (cseek BLOCK dec S c1 w)) (fst (cseek BLOCK dec S c2 w)).
  Proof.
    intros HE. assert (Hsame : c_si c1 = c_si c2 /\ c_pos c1 = c_pos c2).
    { destruct HE as [->|(i1 & i2 & si0 & p0 & -> & -> & HP)]; split; reflexivity. }
    destruct Hsame as [Hsi Hpos]. unfold cseek. rewrite <- Hsi, <- Hpos.
    destruct (c_si c1) as [si|]; [|split; [reflexivity | exact HE]].
    destruct w as [p|d|d].
    - apply start_bisim, HE.
    - destruct (d =? 0)%Z; [split; [reflexivity | exact HE]|].
      destruct (c_pos c1 <? 2 ^ 63); [|split; [reflexivity | exact HE]].
      destruct (2 ^ 63 <=? d + Z.of_N (c_pos c1))%Z; [split; [reflexivity | exact HE]|].
      destruct (0 <=? d + Z.of_N (c_pos c1))%Z; [apply start_bisim, HE | split; [reflexivity | exact HE]].
    - destruct (0 <? d)%Z; [split; [reflexivity | exact HE]|].
      destruct (d =? - 2 ^ 63)%Z; [split; [reflexivity | exact HE]|].
      destruct (end_target _ (Z.to_N (- d))); [apply start_bisim, HE | split; [reflexivity | exact HE]..].
  Qed.

  Lemma read_bisim c1 c2 n : Ecomp c1 c2 ->
    snd (cread BLOCK dec S c1 n) = snd (cread BLOCK dec S c2 n) /\
    Ecomp (fst (cread BLOCK dec S c1 n)) (fst (cread BLOCK dec S c2 n)).
  Proof.
    intros [->|(i1 & i2 & si0 & p0 & -> & -> & HP)]; [split; [reflexivity | left; reflexivity]|].
    unfold cread. cbn [cread_aux c_si c_pos c_state set_state].
    destruct (negb (pos_in_stream _ si0 p0)); [split; [reflexivity | right; exists i1, i2, si0, p0; auto]|].
    destruct (sync_forgets si0 i1 i2 p0 HP) as [Hr Hst].
    destruct (sync_inner BLOCK S si0 i1 p0) as [a r1]. destruct (sync_inner BLOCK S si0 i2 p0) as [b r2].
    cbn [fst snd] in Hr, Hst. subst r2.
    destruct r1 as [v|e|c]; cbn [fst snd is_ok]; try (split; [reflexivity | left; reflexivity]).
    rewrite <- (Hst eq_refl). split; [reflexivity | left; reflexivity].
  Qed.

  Theorem forgetsE_comp : SeekForgetsE CR Pcomp Ecomp.
  Proof.
    split.
    - intros c1 c2 p HP. cbn [CompReader sk]. unfold cseek.
      destruct HP as [Hsi HP']. rewrite <- Hsi.
      destruct (c_si c1) as [si|] eqn:E1; [|split; [reflexivity | discriminate]].
      apply start_forgets. split; [congruence | exact HP'].
    - intros c1 c2 [n|w] HE; cbn [run_sop CompReader rd sk].
      + destruct (read_bisim c1 c2 n HE) as [Hr He].
        destruct (cread BLOCK dec S c1 n) as [a r1]. destruct (cread BLOCK dec S c2 n) as [b r2].
        cbn [fst snd] in *. subst r2. auto.
      + destruct (seek_bisim c1 c2 w HE) as [Hr He].
        destruct (cseek BLOCK dec S c1 w) as [a r1]. destruct (cseek BLOCK dec S c2 w) as [b r2].
        cbn [fst snd] in *. subst r2. auto.
  Qed.
End CompForgets.

(* after a failed read the compression reader is Empty and refuses what a healthy one accepts *)
Lemma comp_strict_refuted :
  let S := Cursor [0; 0; 0; 0] in
  let si := Some (mkSI [4] 4) in
  exists c1 c2 : st (CompReader 4 (fun x => x) S),
    c_si c1 = c_si c2 /\
    snd (sk (CompReader 4 (fun x => x) S) c1 (FromStart 0)) <> snd (sk (CompReader 4 (fun x => x) S) c2 (FromStart 0)).
Proof.
  intros S si. exists (mkC (CReady (0 : st S)) si 0), (mkC (@CEmpty S) si 0). split; [reflexivity|].
  vm_compute. discriminate.
Qed.

(* ---------- the stack of ArchiveReader::from_config ---------- *)
Section StackForgets.
  Context {LIM : Limit}.
  Variables CHUNK TAG BLOCK : N.
  Variable ks : N -> N -> N.
  Variable tagc : N -> bytes -> bytes.
  Variable dec : bytes -> bytes.
  Variable S : Stream.
  Variable P : st S -> st S -> Prop.
  Hypothesis HS : SeekForgetsP S P.

  Notation Stack := (CompS CHUNK TAG BLOCK ks tagc dec S).
  (* two states of the stack: neither has failed (compression state not Empty), same
     sizes_info, same offset_pos of the raw layer, P-related sources *)
  Definition Pstack : st Stack -> st Stack -> Prop :=
    Pcomp (EncS CHUNK TAG ks tagc S) (Penc CHUNK TAG ks tagc (RawS S) (Praw S P)).
  Definition Estack : st Stack -> st Stack -> Prop :=
    Ecomp (EncS CHUNK TAG ks tagc S) (Penc CHUNK TAG ks tagc (RawS S) (Praw S P)).

  Theorem forgetsE_stack : SeekForgetsE Stack Pstack Estack.
  Proof.
    apply (forgetsE_comp BLOCK dec (EncS CHUNK TAG ks tagc S)).
    apply (forgetsP_enc CHUNK TAG ks tagc (RawS S)). apply forgetsP_raw. exact HS.
  Qed.

  Theorem stack_history_independent c1 c2 p ops : Pstack c1 c2 ->
    snd (sk Stack c1 (FromStart p)) = snd (sk Stack c2 (FromStart p)) /\
    (is_ok (snd (sk Stack c1 (FromStart p))) = true ->
     run_sops Stack c1 (SSeek (FromStart p) :: ops) = run_sops Stack c2 (SSeek (FromStart p) :: ops)).
  Proof. apply (stream_history_independent Stack Pstack Estack forgetsE_stack). Qed.
End StackForgets.
