(* RunFsComp.v — Tie B entry point for the fail-safe decompression reader (CompFailSafe.v).

   The decoder instance is a GREEDY table-driven dstep.  The harness supplies, for every
   compressed block of the stream, [c; p; cnt]: the compressed bytes, the plaintext (both
   obtained with the brotli crate directly, never through mla) and, for EVERY prefix length
   L in 0..|c|, cnt[L] = number of plaintext bytes brotli::BrotliDecompressStream (driven
   directly by the harness, unlimited output room) has produced once c[..L] was fed.  So
   D(prefix of c) = takeN cnt[L] p is tabulated, not re-implemented.  For the bytes that
   follow the last block (the SizesInfo footer, not a brotli stream) the harness supplies
   [tail; [fail_at]]: the real decoder, fresh, reports ResultFailure once tail[..fail_at]
   was fed (|tail|+1: never within the tail) and produces nothing before.

   The greedy step consumes everything offered up to the end of the current block's
   compressed bytes and emits as much of D(consumed) as the room allows.  The real decoder's
   emission schedule differs; by fs_comp_sched_indep (CompFailSafeProofs) the TOTAL output
   does not depend on it, so total outputs are what Tie B compares. *)
From MLA Require Import Base Stream Inst CompFailSafe.
Open Scope N_scope.

(* x and c agree on their common length *)
Definition compat (x c : bytes) : bool :=
  let m := N.min (len x) (len c) in bytes_eqb (takeN m x) (takeN m c).

Definition ent_c (e : list bytes) : bytes := nth 0 e [].
Definition ent_p (e : list bytes) : bytes := nth 1 e [].
Definition ent_cnt (e : list bytes) : list N := nth 2 e [].

Section Greedy.
  Variable tab : list (list bytes).
  Variable tail : list bytes.       (* [tail bytes; [fail_at]] *)

  (* bytes consumed since the start of the stream, number of bytes emitted *)
  Definition gstate : Type := bytes * N.
  Definition ginit : gstate := ([], 0).

  Definition gstep (ds : gstate) (inp : bytes) (room : N) : dresult * N * bytes * gstate :=
    let '(cin, co) := ds in
    let x := cin ++ inp in
    match find (fun e => compat x (ent_c e)) tab with
    | Some e =>
      let c := ent_c e in
      let whole := len c <=? len x in
      let cons := if whole then c else x in
      let avail := takeN (nth (N.to_nat (len cons)) (ent_cnt e) 0) (ent_p e) in
      let out := takeN room (dropN co avail) in
      let r := if co + len out <? len avail then DNeedsMoreOutput
               else if whole then DSuccess else DNeedsMoreInput in
      (r, len cons - len cin, out, (cons, co + len out))
    | None =>
      if compat x (nth 0 tail []) && (len x <? nth 0 (nth 1 tail []) 0)
      then (DNeedsMoreInput, len inp, [], (x, co))
      else (DFailure, 0, [], ds)
    end.
End Greedy.

Definition fs_status (r : res unit) : N :=
  match r with
  | Ok _ => 0
  | Err EUnexpectedEof => 1
  | Err EInval => 2
  | Err EFuel => 8
  | Err _ => 3
  | Crash _ => 9
  end.

(* rs = [read size; inner quota]: every read of the client has a buffer of `read size`
   bytes; the inner source is a cursor over w (quota 0) or returns at most `quota` bytes per
   read.  Rows: [[status]; total output]. *)
Definition fscomp_read_all (k : consts) (tab : list (list bytes)) (tail : list bytes)
    (w : bytes) (rs : list N) : list (list N) :=
  let n := nth 0 rs 1 in
  let q := nth 1 rs 0 in
  let total := fold_right (fun e a => len (ent_p e) + a) 0 tab in
  let rfuel := Datatypes.S (N.to_nat total) in
  let pfuel := N.to_nat (2 * len w + 3) in
  let '(out, r) :=
    if q =? 0 then
      fs_read_all (cBLOCK k) (cFSBUF k) gstate ginit (gstep tab tail) (Cursor w) rfuel pfuel 0 (fun _ => n)
    else
      fs_read_all (cBLOCK k) (cFSBUF k) gstate ginit (gstep tab tail) (Throttled w) rfuel pfuel (0, [q]) (fun _ => n)
  in [[fs_status r]; out].
