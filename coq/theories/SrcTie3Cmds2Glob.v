(* SrcTie3Cmds2Glob.v — Tie A level 1 for `mlar cat --glob` (work package cmdsT2): the whole command as translated by
   tools/src2v3_cmds.py (gen/Src3m.v) IS Cli.cmd_cat of the names the patterns select among the sorted names of the archive
   (SrcTie3Cmds2Cat.cat_glob_names: pattern by pattern, a pattern that does not parse is skipped with a message), for any pattern
   type, parser and matcher that do not panic.  (Cli.v does not model the glob forms; this states them through the plain form.) *)
From MLA Require Import Limit.
From MLA Require Import Base Stream Blocks Writer Reader Format Ecies Archive Path Tar Cli Keys.
From MLA Require Import SrcTie3Cmds2Open SrcTie3Cmds2Inst SrcTie3Cmds2Cat.
From MLAGen Require Src3m.
From Coq Require Import Lia ZifyBool ZifyNat ZifyN.
Open Scope N_scope.

Section FromBytes.
  Variables CHUNK TAG BLOCK LIMIT FNMAX : N.
  Local Hint Extern 0 Limit => exact LIMIT : typeclass_instances.
  Variables TS TC TA TE : N.
  Variable dh : bytes -> bytes -> bytes.
  Variable kdf : bytes -> bytes.
  Variables wdec wtag : bytes -> bytes -> bytes.
  Variable ksf : bytes -> bytes -> N -> N -> N.
  Variable tagf : bytes -> bytes -> N -> bytes -> bytes.
  Variable dec : bytes -> bytes.
  Variables zf fuel : nat.
  Variable a : bytes.
  Variable KPath : Type.
  Variable fs_open_key : KPath -> Src3m.World -> res bytes.
  Variable parse_privkey : bytes -> res bytes.
  Variables site site_cat : N -> N.
  Variable arg_keys : option (list KPath).
  Variable Pat : Type.
  Variable glob_new : bytes -> res Pat.
  Variable glob_matches : Pat -> bytes -> bool.

  Notation stack_of := (Archive.stack_of CHUNK TAG BLOCK ksf tagf dec).
  Notation cli_open := (cli_open CHUNK TAG BLOCK LIMIT dh kdf wdec wtag ksf tagf dec).
  Notation cmd_cat := (cmd_cat CHUNK TAG BLOCK LIMIT FNMAX TS TC TA TE dh kdf wdec wtag ksf tagf dec).
  Notation ckeys := (cli_keys KPath fs_open_key parse_privkey site arg_keys).
  Notation open_src := (open_mla_file_src CHUNK TAG BLOCK LIMIT dh kdf wdec wtag ksf tagf dec a KPath fs_open_key parse_privkey site arg_keys).
  Notation cat_t := (cat_t CHUNK TAG BLOCK LIMIT FNMAX TS TC TA TE dh kdf wdec wtag ksf tagf dec zf fuel a KPath fs_open_key parse_privkey
                       site site_cat arg_keys Pat glob_new glob_matches).

  (* the names `cat --glob pats` delivers, in order *)
  Definition glob_selection (privs pats : list bytes) : list bytes :=
    match cli_open a privs with
    | Ok (existT _ p r) => cat_glob_names Pat glob_new glob_matches (sort_names (list_files (stack_of a p) r)) pats
    | _ => []
    end.

  Theorem cat_glob_src to_file pats privs :
    arg_keys <> Some [] -> ckeys (fst (Src3m.destination_from_output_argument (negb to_file) Src3m.arg_output world0)) = Ok privs ->
    glob_ok Pat glob_new pats ->
    cres_of (cat_t to_file true (Some pats) world0) = cmd_cat to_file zf fuel a privs (glob_selection privs pats).
  Proof.
    intros Hne Hk Hg. unfold SrcTie3Cmds2Cat.cat_t, Src3m.cat, glob_selection.
    destruct (Src3m.destination_from_output_argument (negb to_file) Src3m.arg_output world0) as [w2 rd] eqn:Ed.
    assert (Hd : (w2, rd) = if to_file then (Src3m.mkW (OWritten []) OUntouched [], Ok (Src3m.OFile Src3m.PMain))
                            else (world0, Ok Src3m.Stdout)).
    { rewrite <- Ed. destruct to_file; reflexivity. }
    cbn [fst] in Hk. pose proof (open_src w2 Hne) as Ho. unfold open_t in Ho.
    assert (Hrun : forall (d : Src3m.OutputTypes) (w : Src3m.World) p (r : rstate (stack_of a p)), Src3m.dest_write d [] w = w ->
      let names := cat_glob_names Pat glob_new glob_matches (sort_names (list_files (stack_of a p) r)) pats in
      let g := Src3m.cat_for1 (ARm oparams (stack_of a)) (AFm oparams (stack_of a)) Pat (get_file_m FNMAX TS TC TA TE oparams (stack_of a))
                 (af_release_m oparams (stack_of a)) (io_copy_m FNMAX TS TC TA TE oparams (stack_of a) zf fuel) glob_new glob_matches
                 d (existT _ p r) (sort_names (list_files (stack_of a p) r)) w pats in
      fst (fst (fst g)) = Src3m.dest_write d (fst (cat_loop FNMAX TS TC TA TE (stack_of a p) zf fuel r names [])) w /\
      is_ok (snd g) = snd (cat_loop FNMAX TS TC TA TE (stack_of a p) zf fuel r names [])).
    { intros d w p r Hw. cbv zeta.
      pose proof (cat_for1_src FNMAX TS TC TA TE oparams (stack_of a) zf fuel Pat glob_new glob_matches d
                    (sort_names (list_files (stack_of a p) r)) pats (existT _ p r) w Hg) as H1. cbv zeta in H1.
      pose proof (cat_for3_sim FNMAX TS TC TA TE oparams (stack_of a) zf fuel d
                    (cat_glob_names Pat glob_new glob_matches (sort_names (list_files (stack_of a p) r)) pats) p r [] w) as H3.
      cbv zeta in H3. rewrite Hw in H3. destruct H1 as (E1 & _ & E3). rewrite E1, E3. exact H3. }
    destruct to_file; injection Hd as -> ->; rewrite Ho, Hk; unfold Cli.cmd_cat;
      (destruct (cli_open a privs) as [[p r]|e|c]; [|reflexivity|reflexivity]); cbn [list_files_m projT1 projT2].
    - pose proof (Hrun (Src3m.OFile Src3m.PMain) (Src3m.mkW (OWritten []) OUntouched []) p r eq_refl) as Hl. cbv zeta in Hl.
      destruct (Src3m.cat_for1 _ _ _ _ _ _ _ _ _ _ _ _ _) as [[[w21 m22] af23] x]. cbn [fst snd] in Hl. destruct Hl as [-> Hs].
      destruct (cat_loop FNMAX TS TC TA TE (stack_of a p) zf fuel r _ []) as [dd ok]. cbn [fst snd] in *.
      destruct x; unfold cres_of; cbn [fst snd is_ok] in *; subst ok; reflexivity.
    - pose proof (Hrun Src3m.Stdout world0 p r eq_refl) as Hl. cbv zeta in Hl.
      destruct (Src3m.cat_for1 _ _ _ _ _ _ _ _ _ _ _ _ _) as [[[w21 m22] af23] x]. cbn [fst snd] in Hl. destruct Hl as [-> Hs].
      destruct (cat_loop FNMAX TS TC TA TE (stack_of a p) zf fuel r _ []) as [dd ok]. cbn [fst snd] in *.
      destruct x; unfold cres_of; cbn [fst snd is_ok] in *; subst ok; reflexivity.
  Qed.
End FromBytes.
