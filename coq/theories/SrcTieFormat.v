(* SrcTieFormat.v — Tie A for property C06: what tools/src2v.py re-translates from /repo on
   every run (gen/Src.v) equals what FORMAT.md fixes, i.e. what Format.v uses.  A source edit
   to one of these (counter endianness or start, HKDF info / hash, ECIES nonce, layer order,
   chunk / block size, tag length, a struct's field order, the bincode integer encoding)
   breaks one of these lemmas at `make` time. *)
From MLA Require Import Base Format InstGcm.
From MLAGen Require Src.
From Coq Require Import String.
Open Scope N_scope.

(* ---- sizes ---- *)
Lemma c06_chunk_size : Src.CHUNK_SIZE_prod = CHUNK_v1. Proof. reflexivity. Qed.
Lemma c06_block_size : Src.UNCOMPRESSED_DATA_SIZE_prod = BLOCK_v1. Proof. reflexivity. Qed.
Lemma c06_tag_length : Src.TAG_LENGTH_prod = TAGLEN /\ Src.TAG_LENGTH_verif = TAGLEN. Proof. split; reflexivity. Qed.
Lemma c06_key_size : Src.KEY_SIZE_prod = KEYLEN. Proof. reflexivity. Qed.
Lemma c06_nonce_sizes :
  Src.NONCE_SIZE_prod = NONCELEN /\ Src.NONCE_AES_SIZE_prod = NONCELEN + 4 /\ Src.NONCE_AES_SIZE_prod = len WRAP_NONCE.
Proof. repeat split; reflexivity. Qed.
Lemma c06_chunk_tag_size : Src.CHUNK_TAG_SIZE_prod = CHUNK_v1 + TAGLEN. Proof. reflexivity. Qed.

(* ---- header ---- *)
Lemma c06_magic : Src.MLA_MAGIC = MAGIC. Proof. reflexivity. Qed.
Lemma c06_version : Src.MLA_FORMAT_VERSION_prod = VERSION /\ Src.MLA_FORMAT_VERSION_verif = VERSION. Proof. split; reflexivity. Qed.
Lemma c06_version_endian : Src.VERSION_ENDIAN = ["LittleEndian"; "LittleEndian"]%string. Proof. reflexivity. Qed.
Lemma c06_layer_bits : Src.LAYER_ENCRYPT = L_ENCRYPT /\ Src.LAYER_COMPRESS = L_COMPRESS. Proof. split; reflexivity. Qed.
(* bincode: fixed-width integers everywhere (header, archive footer x2, SizesInfo x2), declaration order of the fields *)
Lemma c06_bincode_fixint :
  Src.BINCODE_FIXINT_SITES = 4 /\ Src.BINCODE_FIXINT_SITES_COMPRESS = 2 /\ Src.BINCODE_VARINT_SITES = 0.
Proof. repeat split; reflexivity. Qed.
Lemma c06_layouts :
  Src.STRUCT_ArchivePersistentConfig = [("layers_enabled", "Layers"); ("encrypt", "Option<EncryptionPersistentConfig>")]%string /\
  Src.STRUCT_EncryptionPersistentConfig = [("multi_recipient", "MultiRecipientPersistent"); ("nonce", "[u8; NONCE_SIZE]")]%string /\
  Src.STRUCT_MultiRecipientPersistent = [("public", "[u8; 32]"); ("encrypted_keys", "Vec<KeyAndTag>")]%string /\
  Src.STRUCT_KeyAndTag = [("key", "[u8; KEY_SIZE]"); ("tag", "[u8; TAG_LENGTH]")]%string /\
  Src.STRUCT_SizesInfo = [("compressed_sizes", "Vec<u32>"); ("last_block_size", "u32")]%string /\
  Src.STRUCT_FileInfo = [("offsets", "Vec<u64>"); ("size", "u64"); ("eof_offset", "u64")]%string.
Proof. repeat split; reflexivity. Qed.

(* ---- block stream ---- *)
Lemma c06_block_tags :
  Src.BT_FileStart = BT_START /\ Src.BT_FileContent = BT_CONTENT /\
  Src.BT_EndOfArchiveData = BT_END /\ Src.BT_EndOfFile = BT_EOF.
Proof. repeat split; reflexivity. Qed.

(* ---- key wrapping (ECIES) ---- *)
Lemma c06_kdf_info : Src.DERIVE_KEY_INFO = KDF_INFO. Proof. reflexivity. Qed.
Lemma c06_wrap_nonce : Src.ECIES_NONCE = WRAP_NONCE. Proof. reflexivity. Qed.
(* derive_key = HKDF<sha2::Sha256>(salt None, D-H(private, public)).expand(DERIVE_KEY_INFO) to KEY_SIZE bytes:
   the shape of Format.dhkey_x25519 *)
Lemma c06_derive_key :
  Src.DERIVE_KEY = ["private_key"; "public_key"; "sha2::Sha256"; "None"; "DERIVE_KEY_INFO"; "KEY_SIZE"]%string.
Proof. reflexivity. Qed.
(* both directions of the key wrap use (dhkey, ECIES_NONCE, no associated data) *)
Lemma c06_wrap_cipher :
  Src.ECC_AESGCM_NEW = [("&dh_key", "ECIES_NONCE", "EMPTY"); ("&key", "ECIES_NONCE", "EMPTY")]%string.
Proof. reflexivity. Qed.

(* ---- per-chunk cipher: nonce = archive nonce . u32 big endian (counter), counter from 0 by 1, no associated data ---- *)
Lemma c06_build_nonce nonce8 i : Src.build_nonce nonce8 i = data_nonce nonce8 i.
Proof. reflexivity. Qed.
Lemma c06_build_nonce_model nonce8 i : Src.build_nonce nonce8 i = chunk_nonce nonce8 i.
Proof. reflexivity. Qed.
Lemma c06_chunk_ciphers :
  Src.ENC_AESGCM_NEW =
  [("&config.key", "&build_nonce(config.nonce, 0)", "EMPTY");
   ("&self.key", "&build_nonce(self.nonce_prefix, self.current_ctr)", "EMPTY");
   ("&key", "&build_nonce(nonce, 0)", "EMPTY");
   ("&self.key", "&build_nonce(self.nonce, self.current_chunk_number)", "EMPTY");
   ("&self.key", "&build_nonce(self.nonce, self.current_chunk_number)", "EMPTY")]%string.
Proof. reflexivity. Qed.
Lemma c06_counters :
  Src.ENC_CTR_INITS = [("current_ctr", 0); ("current_chunk_number", 0)]%string /\
  Src.ENC_CTR_STEPS = [("current_ctr", "+=", 1); ("current_chunk_number", "+=", 1); ("current_chunk_number", "+=", 1)]%string.
Proof. split; reflexivity. Qed.

(* ---- layer order: encryption next to the raw file, compression above it, in the writer and in both
   readers = the order in which Format.decode removes the layers ---- *)
Lemma c06_layer_order :
  Src.WRITER_LAYER_ORDER = layer_order /\ Src.READER_LAYER_ORDER = layer_order /\ Src.FAILSAFE_LAYER_ORDER = layer_order.
Proof. repeat split; reflexivity. Qed.
Lemma c06_layer_types :
  Src.WRITER_LAYER_TYPES = ["EncryptionLayerWriter"; "CompressionLayerWriter"]%string /\
  Src.READER_LAYER_TYPES = ["EncryptionLayerReader"; "CompressionLayerReader"]%string /\
  Src.FAILSAFE_LAYER_TYPES = ["EncryptionLayerFailSafeReader"; "CompressionLayerFailSafeReader"]%string.
Proof. repeat split; reflexivity. Qed.
