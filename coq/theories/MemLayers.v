(* MemLayers.v — C15, the layer WRITERS: what the encryption writer and the compression writer
   hold, in every state reachable by ANY sequence of Write::write calls (any buffers, empty
   ones included; write_all is such a sequence).
     - encryption writer: the current-chunk device is at most CHUNK bytes; one write encrypts
       at most min(CIPHERBUF, CHUNK) bytes (the temporary Vec of encrypt.rs:283);
     - compression writer: the block in progress is at most BLOCK bytes; the table of
       compressed sizes has between T/BLOCK - 1 and T/BLOCK entries after T bytes (one more
       after finalize): THIS table grows with the data, 4 bytes per BLOCK. *)
From MLA Require Import Limit.
From MLA Require Import Base Stream EncLayer EncWriter EncWriterProofs CompLayer CompLayerProofs CompWriterProofs MemSize.
From Coq Require Import ZifyBool ZifyNat ZifyN.
Open Scope N_scope.

(* ---------- encryption writer ---------- *)
Section EncW.
  Context {LIM : Limit}.
  Variables CHUNK CIPHERBUF : N.
  Variable ks : N -> N -> N.
  Variable tagc : N -> bytes -> bytes.
  Notation ew_write := (ew_write CHUNK CIPHERBUF ks tagc).
  Notation ew_write_all := (ew_write_all CHUNK CIPHERBUF ks tagc).
  Notation ew_writes := (ew_writes CHUNK CIPHERBUF ks tagc).

  Definition EwB (s : ewstate) : Prop := ew_off s <= CHUNK /\ ew_held s = ew_off s.

  Lemma EwB_init : EwB ew_init.
  Proof. unfold EwB, ew_held. cbn [ew_init ew_off ew_cur]. split; [lia|reflexivity]. Qed.

  Lemma ew_renew_bounded s s' : ew_renew tagc s = Ok s' -> EwB s'.
  Proof.
    unfold ew_renew. destruct (2 ^ 32 <=? ew_ctr s + 1); [discriminate|].
    intros [= <-]. unfold EwB, ew_held. cbn [ew_off ew_cur]. split; [lia|reflexivity].
  Qed.

  (* one Write::write: the invariant, and the piece encrypted (the temporary buffer) is at
     most min(CIPHERBUF, CHUNK) bytes *)
  Lemma ew_write_bounded s buf s' n : EwB s -> ew_write s buf = Ok (s', n) ->
    EwB s' /\ n <= N.min CIPHERBUF CHUNK /\ n <= len buf.
  Proof.
    intros [Ho Hc]. unfold EncLayer.ew_write.
    destruct (CHUNK <? ew_off s); [discriminate|].
    assert (G : forall s1, EwB s1 ->
      Ok (mkEW (ew_out s1 ++ xor_from ks (ew_ctr s1) (ew_off s1)
                 (takeN (N.min (N.min CIPHERBUF (len buf)) (CHUNK - ew_off s1)) buf)) (ew_ctr s1)
               (ew_off s1 + N.min (N.min CIPHERBUF (len buf)) (CHUNK - ew_off s1))
               (ew_cur s1 ++ xor_from ks (ew_ctr s1) (ew_off s1)
                 (takeN (N.min (N.min CIPHERBUF (len buf)) (CHUNK - ew_off s1)) buf)),
          N.min (N.min CIPHERBUF (len buf)) (CHUNK - ew_off s1)) = Ok (s', n) ->
      EwB s' /\ n <= N.min CIPHERBUF CHUNK /\ n <= len buf).
    { intros s1 [Ho1 Hc1] [= <- <-]. unfold EwB, ew_held in *. cbn [ew_off ew_cur].
      rewrite len_app, len_xor, len_takeN. repeat split; lia. }
    destruct (ew_off s =? CHUNK).
    - destruct (ew_renew tagc s) as [s1|e|c] eqn:Er; cbn [bind]; try discriminate.
      apply G. exact (ew_renew_bounded s s1 Er).
    - cbn [bind]. apply G. split; assumption.
  Qed.

  Theorem ew_writes_bounded bufs : forall s, EwB s -> EwB (ew_writes s bufs).
  Proof.
    induction bufs as [|b r IH]; intros s Hs; cbn [MemSize.ew_writes]; [exact Hs|].
    destruct (ew_write s b) as [[s' n]|e|c] eqn:E; [|apply IH; exact Hs ..].
    apply IH. exact (proj1 (ew_write_bounded s b s' n Hs E)).
  Qed.

  Lemma ew_write_all_bounded fuel : forall s buf s', EwB s -> ew_write_all fuel s buf = Ok s' -> EwB s'.
  Proof.
    induction fuel as [|fuel IH]; intros s buf s' Hs; destruct buf as [|b0 buf']; cbn [EncLayer.ew_write_all].
    - intros [= <-]. exact Hs.
    - discriminate.
    - intros [= <-]. exact Hs.
    - destruct (ew_write s (b0 :: buf')) as [[s1 n]|e|c] eqn:E; cbn [bind]; try discriminate.
      destruct (n =? 0); [discriminate|].
      apply IH. exact (proj1 (ew_write_bounded s _ s1 n Hs E)).
  Qed.

  (* every state reachable from the initial one by any writes: at most CHUNK bytes held *)
  Theorem enc_writer_bounded bufs : ew_held (ew_writes ew_init bufs) <= CHUNK.
  Proof. destruct (ew_writes_bounded bufs ew_init EwB_init) as [Ho Hc]. lia. Qed.
End EncW.

(* ---------- compression writer ---------- *)
Section CompW.
  Context {LIM : Limit}.
  Variable BLOCK : N.
  Variable comp : bytes -> bytes.
  Notation cw_write_aux := (cw_write_aux BLOCK comp).
  Notation cw_write := (cw_write BLOCK comp).
  Notation cw_writes := (cw_writes BLOCK comp).

  (* w has accepted `total` bytes *)
  Definition CwB (w : cwriter) (total : N) : Prop :=
    match cw_st w with
    | WInData written cur =>
      written = len cur /\ written <= BLOCK /\ len (cw_sizes w) * BLOCK + len cur = total
    | WReady => len (cw_sizes w) * BLOCK = total
    | WEmpty => len (cw_sizes w) * BLOCK <= total
    end.

  Lemma CwB_init : CwB cw_init 0.
  Proof. unfold CwB. cbn [cw_init cw_st cw_sizes]. change (len (@nil N)) with 0. lia. Qed.

  Lemma cw_write_aux_bounded fuel : forall w total buf, CwB w total ->
    match cw_write_aux fuel w buf with
    | (w', Ok n) => CwB w' (total + n) /\ n <= len buf
    | (w', _) => CwB w' total
    end.
  Proof.
    induction fuel as [|fuel IH]; intros w total buf Hw; cbn [CompLayer.cw_write_aux]; [exact Hw|].
    unfold CwB in Hw. destruct (cw_st w) as [|written cur|] eqn:Est.
    - destruct (2 ^ 32 <=? N.min BLOCK (len buf)).
      + unfold CwB. cbn [cw_st cw_sizes]. lia.
      + unfold CwB. cbn [cw_st cw_sizes]. rewrite len_takeN. repeat split; lia.
    - destruct Hw as (Hwl & Hwb & Ht).
      destruct (BLOCK <? written); [unfold CwB; cbn [cw_st cw_sizes]; lia|].
      destruct (N.eqb_spec written BLOCK) as [Hfull|Hne].
      + apply IH. unfold CwB. cbn [cw_st cw_sizes]. rewrite len_app.
        change (len [len (comp cur)]) with 1. lia.
      + unfold CwB. cbn [cw_st cw_sizes]. rewrite len_app, len_takeN. repeat split; lia.
    - unfold CwB. cbn [cw_st cw_sizes]. exact Hw.
  Qed.

  Theorem cw_writes_bounded bufs : forall w total, CwB w total ->
    CwB (fst (cw_writes w total bufs)) (snd (cw_writes w total bufs)).
  Proof.
    induction bufs as [|b r IH]; intros w total Hw; cbn [MemSize.cw_writes]; [exact Hw|].
    pose proof (cw_write_aux_bounded 2 w total b Hw) as Hs. unfold CompLayer.cw_write.
    destruct (cw_write_aux 2 w b) as [w' [n|e|c]]; apply IH; [exact (proj1 Hs) | exact Hs | exact Hs].
  Qed.

  (* what the invariant says of the measure *)
  Lemma CwB_dims w total : 0 < BLOCK -> CwB w total ->
    cw_buffered w <= BLOCK /\
    len (cw_sizes w) <= total / BLOCK /\
    (cw_st w <> WEmpty -> total / BLOCK <= len (cw_sizes w) + 1 /\
                          len (cw_sizes w) * BLOCK + cw_buffered w = total).
  Proof.
    intros HB Hw. unfold CwB in Hw. unfold cw_buffered.
    destruct (cw_st w) as [|written cur|]; [| destruct Hw as (Hwl & Hwb & Ht) |].
    - split; [lia|]. split; [apply N.div_le_lower_bound; lia|]. intros _.
      split; [|lia]. rewrite <- Hw, N.div_mul by lia. lia.
    - split; [lia|]. split; [apply N.div_le_lower_bound; lia|]. intros _. split; [|lia].
      assert (total / BLOCK < len (cw_sizes w) + 2); [|lia].
      apply N.div_lt_upper_bound; lia.
    - split; [lia|]. split; [apply N.div_le_lower_bound; lia|]. intros Hne. exfalso. apply Hne. reflexivity.
  Qed.

  (* at the real constants (BLOCK fits a u32) the error state is never entered *)
  Lemma cw_write_aux_live fuel : BLOCK < 2 ^ 32 -> forall w total buf, CwB w total -> cw_st w <> WEmpty ->
    (fuel = 0%nat \/ cw_st (fst (cw_write_aux fuel w buf)) <> WEmpty).
  Proof.
    intros HB32. induction fuel as [|fuel IH]; intros w total buf Hw Hne; [left; reflexivity|right].
    cbn [CompLayer.cw_write_aux]. unfold CwB in Hw. destruct (cw_st w) as [|written cur|] eqn:Est.
    - destruct (N.leb_spec (2 ^ 32) (N.min BLOCK (len buf))); [lia|]. cbn [fst cw_st]. discriminate.
    - destruct Hw as (Hwl & Hwb & Ht).
      destruct (N.ltb_spec BLOCK written); [lia|].
      destruct (N.eqb_spec written BLOCK) as [Hfull|Hne2]; [|cbn [fst cw_st]; discriminate].
      destruct fuel as [|fuel]; [cbn [CompLayer.cw_write_aux fst cw_st]; discriminate|].
      cbn [CompLayer.cw_write_aux cw_st cw_out cw_sizes].
      destruct (N.leb_spec (2 ^ 32) (N.min BLOCK (len buf))); [lia|]. cbn [fst cw_st]. discriminate.
    - exfalso. apply Hne. reflexivity.
  Qed.

  Lemma cw_writes_live (HB32 : BLOCK < 2 ^ 32) bufs : forall w total, CwB w total -> cw_st w <> WEmpty ->
    cw_st (fst (cw_writes w total bufs)) <> WEmpty.
  Proof.
    induction bufs as [|b r IH]; intros w total Hw Hne; cbn [MemSize.cw_writes]; [exact Hne|].
    pose proof (cw_write_aux_bounded 2 w total b Hw) as Hs.
    destruct (cw_write_aux_live 2 HB32 w total b Hw Hne) as [X|Hl]; [discriminate X|].
    unfold CompLayer.cw_write.
    destruct (cw_write_aux 2 w b) as [w' [n|e|c]]; cbn [fst] in Hl; apply IH; try exact Hl;
      [exact (proj1 Hs) | exact Hs | exact Hs].
  Qed.

  (* THE statement for the compression writer.  After ANY sequence of writes that accepted T
     bytes altogether: the block in progress is at most BLOCK bytes, and the table of compressed
     sizes has T/BLOCK - 1 <= entries <= T/BLOCK.  The measure therefore DOES grow with the
     data: 4 bytes per BLOCK bytes streamed (1e-6 of the data at BLOCK = 4 MiB), exactly. *)
  Theorem comp_sizes_table_growth bufs :
    0 < BLOCK -> BLOCK < 2 ^ 32 ->
    let w := fst (cw_writes cw_init 0 bufs) in
    let T := snd (cw_writes cw_init 0 bufs) in
    cw_buffered w <= BLOCK /\
    T / BLOCK <= len (cw_sizes w) + 1 /\ len (cw_sizes w) <= T / BLOCK /\
    len (cw_sizes w) * BLOCK + cw_buffered w = T /\
    cwmem w <= COMP_FIXED + BLOCK + 4 * (T / BLOCK) /\
    COMP_FIXED + 4 * (T / BLOCK) <= cwmem w + 4.
  Proof.
    intros HB HB32. cbv zeta.
    pose proof (cw_writes_bounded bufs cw_init 0 CwB_init) as Hw.
    assert (Hlive : cw_st (fst (cw_writes cw_init 0 bufs)) <> WEmpty).
    { apply (cw_writes_live HB32 bufs cw_init 0 CwB_init). cbn. discriminate. }
    destruct (CwB_dims _ _ HB Hw) as (Hb & Hs & Hx). destruct (Hx Hlive) as [Hl He].
    unfold cwmem. repeat split; lia.
  Qed.

  (* finalize adds the block in progress to the table: one more entry at most *)
  Lemma cw_finalize_table w w' : cw_finalize comp w = (w', Ok tt) ->
    len (cw_sizes w') = len (cw_sizes w) + (match cw_st w with WInData _ _ => 1 | _ => 0 end) /\
    cw_buffered w' = 0.
  Proof.
    unfold cw_finalize. destruct (cw_st w) as [|written cur|] eqn:Est.
    - destruct (lim <? len (footer_of (cw_sizes w) 0)); [discriminate|].
      destruct (2 ^ 32 <=? len (footer_of (cw_sizes w) 0)); intros [= <-]. cbn [cw_sizes]. unfold cw_buffered. cbn. lia.
    - destruct (lim <? len (footer_of (cw_sizes w ++ [len (comp cur)]) written)); [discriminate|].
      destruct (2 ^ 32 <=? len (footer_of (cw_sizes w ++ [len (comp cur)]) written)); intros [= <-].
      cbn [cw_sizes]. unfold cw_buffered. cbn [cw_st]. rewrite len_app. change (len [len (comp cur)]) with 1. lia.
    - discriminate.
  Qed.

  (* the canonical writer (pieces through write_all): exactly (L-1)/BLOCK entries before
     finalize for L > 0 bytes *)
  Theorem comp_sizes_table_exact pieces w :
    0 < BLOCK -> BLOCK < 2 ^ 32 -> concat pieces <> [] ->
    cw_write_pieces BLOCK comp cw_init pieces = (w, Ok tt) ->
    len (cw_sizes w) = (len (concat pieces) - 1) / BLOCK /\
    cw_buffered w = len (concat pieces) - (len (concat pieces) - 1) / BLOCK * BLOCK.
  Proof.
    intros HB HB32 Hne E.
    destruct (cw_write_pieces_spec BLOCK HB HB32 comp pieces [] cw_init) as (w' & E' & HW).
    { left. split; reflexivity. }
    rewrite E in E'. injection E' as <-. cbn [app] in HW.
    destruct HW as [[Habs _]|(_ & Hst & _ & Hsz)]; [contradiction|]. cbv zeta in Hst.
    split.
    - rewrite Hsz. unfold cdone. unfold len. rewrite !map_length. unfold blocks_n. rewrite map_length, seq_length. lia.
    - unfold cw_buffered. rewrite Hst. rewrite len_dropN. reflexivity.
  Qed.
End CompW.
