(* SrcTie3CliDiff.v — a DIFFERENCE between the source and CliExtract.cmd_extract_linear_pool, found by the
   work package linearT while proving extract_linear_sim: `extract` hands linear_extract an `export` that holds
   only the names create_file ACCEPTED; the model runs the walk with ALL the sorted names and drops the pieces
   of skipped names afterwards.  The two agree unless an archive re-uses an id: FileStart(id 0, "b"),
   FileStart(id 0, "../x"), FileContent(id 0, "DATA").  Source (and its translation): "../x" is not a key of
   `export`, so id 0 stays bound to "b" and DATA lands in out/b.  Model: the second FileStart re-binds id 0 to
   "../x", the piece is attributed to "../x" and dropped: out/b stays empty.  Hostile archives only (the
   writer never re-uses an id); confinement (C16) is not affected — extract_linear_sim ties the source to
   extract_linear_pool on the pieces of the walk over the ACCEPTED names, which is what C16 quantifies over. *)
From MLA Require Import Limit.
From MLA Require Import Base Stream Blocks Reader Path Pool Cli CliExtract SrcTie3Reader.
From MLAGen Require Src3d Src3l Src3x.
Import Coq.Strings.String.StringSyntax.
Open Scope N_scope.

Definition dd_body : bytes :=
  concat (map (ser_block 0 1 254 255)
    [BStart 0 (s2b "b"); BStart 0 (s2b "../x"); BContent 0 (s2b "DATA"); BEof 0 (repeat 0 32); BEnd]).
Definition dd_S : Stream := Cursor dd_body.
Definition dd_r : rstate dd_S := @mkR dd_S 0 [(s2b "b", mkFI [0] 4 0); (s2b "../x", mkFI [0] 4 0)].
Definition dd_out : path := [s2b "out"].
Definition dd_fs : fs := [([s2b "out"], Dir)].

Definition dd_source : fs * res unit :=
  Src3x.extract_body dd_S 48 0 1 254 255 7 8 unit (fun _ _ => false) sort_names whole_cut 100 (fun b => (b, [], Ok tt))
    (rep_r dd_S dd_r) dd_out (Src3x.Anything unit) false dd_fs.
Definition dd_model : fs * bool :=
  let names := sort_names (list_files dd_S dd_r) in
  let dl := linear_extract_d 48 0 1 254 255 dd_S 100 dd_r names in
  let '(f', b) := extract_linear_pool RAppend 1000 whole_cut dd_out names (fst dl) dd_fs in (f', b && is_ok (snd dl)).

Theorem extract_linear_reused_id_differs :
  snd dd_source = Ok tt /\ read_file (fst dd_source) (dd_out ++ [s2b "b"]) = Some (s2b "DATA") /\
  snd dd_model = true /\ read_file (fst dd_model) (dd_out ++ [s2b "b"]) = Some [].
Proof. vm_compute. repeat split. Qed.
