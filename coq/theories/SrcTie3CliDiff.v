(* SrcTie3CliDiff.v — REGRESSION example for a difference between the source and the model that the work
   package linearT found while proving extract_linear_sim and the work package fixcli repaired IN THE MODEL:
   `extract` hands linear_extract an `export` that holds only the names create_file ACCEPTED; the model used to
   run the walk with ALL the sorted names and to drop the pieces of skipped names afterwards.  The two agree
   unless an archive re-uses an id: FileStart(id 0, "b"), FileStart(id 0, "../x"), FileContent(id 0, "DATA").
   Source (and its translation): "../x" is not a key of `export`, so id 0 stays bound to "b" and DATA lands in
   out/b.  Old model (kept below as dd_model_old): the second FileStart re-binds id 0 to "../x", the piece is
   attributed to "../x" and dropped: out/b stays empty.  The model of CliExtract.v (extract_linear_body, export =
   Cli.accepted_names) now gives the source's result: same file system, same status — here by computation, for
   every archive by SrcTie3Cli.extract_linear_sim.  Hostile archives only (the writer never re-uses an id).
   Tie B: job c16, cases `reuse-id-*` (the real `mlar extract` on these bytes behind a header and a footer). *)
From MLA Require Import Limit.
From MLA Require Import Base Stream Blocks Reader Path Pool Cli CliExtract SrcTie3Reader.
From MLAGen Require Src3d Src3l Src3x.
Import Coq.Strings.String.StringSyntax.
Open Scope N_scope.

Definition dd_body : bytes :=
  concat (map (ser_block 0 1 254 255)
    [BStart 0 (s2b "b"); BStart 0 (s2b "../x"); BContent 0 (s2b "DATA"); BEof 0 (repeat 0 32); BEnd]).
Definition dd_S : Stream := Cursor dd_body.
Definition dd_r : rstate dd_S := @mkR dd_S 0 [(s2b "b", mkFI [0] 4 0); (s2b "../x", mkFI [0] 4 0)].
Definition dd_out : path := [s2b "out"].
Definition dd_fs : fs := [([s2b "out"], Dir)].

Definition dd_source : fs * res unit :=
  Src3x.extract_body dd_S 48 0 1 254 255 7 8 unit (fun _ _ => false) sort_names whole_cut 100 (fun b => (b, [], Ok tt))
    (rep_r dd_S dd_r) dd_out (Src3x.Anything unit) false dd_fs.
(* the model: the body of CliExtract.cmd_extract_linear_pool *)
Definition dd_model : fs * bool := extract_linear_body 48 0 1 254 255 dd_S 1000 whole_cut 100 dd_r dd_out dd_fs.
(* what the model was before the repair: export = all the sorted names *)
Definition dd_model_old : fs * bool :=
  let names := sort_names (list_files dd_S dd_r) in
  let dl := linear_extract_d 48 0 1 254 255 dd_S 100 dd_r names in
  let '(f', b) := extract_linear_pool RAppend 1000 whole_cut dd_out names (fst dl) dd_fs in (f', b && is_ok (snd dl)).

(* model = source on the re-used-id archive: the whole file system and the status *)
Theorem extract_linear_reused_id_agrees :
  dd_model = (fst dd_source, is_ok (snd dd_source)) /\
  snd dd_model = true /\ read_file (fst dd_model) (dd_out ++ [s2b "b"]) = Some (s2b "DATA") /\
  accepted_names dd_out (sort_names (list_files dd_S dd_r)) dd_fs = [s2b "b"].
Proof. vm_compute. repeat split. Qed.

(* the old model is refuted by the same archive (the check would flag a model that went back to it) *)
Theorem extract_linear_reused_id_old_model_refuted :
  read_file (fst dd_model_old) (dd_out ++ [s2b "b"]) = Some [] /\ fst dd_model_old <> fst dd_source.
Proof. split; [vm_compute; reflexivity|]. vm_compute. discriminate. Qed.

(* ---------- second regression (fixcli b): a panic below get_file ---------- *)
(* a layer that panics in `seek` (the only way get_file can panic: Reader.get_file has no panic site of its
   own).  Source: the panic unwinds through `extract`, exit 101, nothing touched, the NEXT name is not looked
   at.  The model used to go on to the next name (and would have created out/b here); it now ends there. *)
From MLA Require Import SrcTie3CliCopy.
Definition pk_S : Stream := {| st := bool; rd := fun s _ => (s, Ok []); sk := fun s _ => (true, if s then Ok 0 else Crash 77) |}.
(* state false: the first seek panics (and flips the state: a later get_file would succeed in seeking) *)
Definition pk_r : rstate pk_S := @mkR pk_S false [(s2b "a", mkFI [0] 0 0); (s2b "b", mkFI [0] 0 0)].
Definition pk_source : (Src3d.ArchiveReader pk_S * fs) * res unit :=
  Src3x.extract_for2 pk_S 48 0 1 254 255 7 unit (fun _ _ => false) (g_copy pk_S 48 0 1 254 255 7 2 10)
    dd_out (Src3x.Files unit []) false (rep_r pk_S pk_r) dd_fs [s2b "a"; s2b "b"].
Definition pk_model : fs * bool := extract_listed_loop 48 0 1 254 255 pk_S 2 10 pk_r [s2b "a"; s2b "b"] dd_out dd_fs.
Theorem extract_selected_panic_unwinds :
  snd pk_source = Crash 77 /\ pk_model = (snd (fst pk_source), is_ok (snd pk_source)) /\ pk_model = (dd_fs, false) /\
  copies_fuelled 48 0 1 254 255 pk_S 2 10 pk_r [s2b "a"; s2b "b"] dd_out dd_fs = true.
Proof. vm_compute. repeat split. Qed.
