(* RepairProofs4.v — the invariant of the 'read_block loop of convert_to_archive on a (cut)
   well-formed block stream, and the loop itself: it gets exactly through `cutb` of the
   block list, never fails, and stops with UnexpectedEOFOnNextBlock or
   EndOfOriginalArchiveData. *)
From MLA Require Import Limit.
From MLA Require Import Base Stream Blocks Writer Repair RepairSpec RepairPure
  RepairProofs1 RepairProofs2 RepairProofs3.
From Coq Require Import ZifyBool ZifyNat ZifyN.
Open Scope N_scope.

Lemma cutb_lt b r m : m < bmin b -> cutb (b :: r) m = ([], false).
Proof.
  destruct b as [i n|i d|i h|]; cbn [cutb bmin blen]; intros Hm.
  - destruct (N.ltb_spec m (17 + len n)); [reflexivity | lia].
  - destruct (N.ltb_spec m 17); [reflexivity | lia].
  - destruct (N.ltb_spec m (9 + len h)); [reflexivity | lia].
  - destruct (N.leb_spec 1 m); [lia | reflexivity].
Qed.
Lemma cutb_whole b r m : b <> BEnd -> blen b <= m ->
  cutb (b :: r) m = (b :: fst (cutb r (m - blen b)), snd (cutb r (m - blen b))).
Proof.
  intros Hb Hm. destruct (cutb_cases b r m) as [[-> _]|[(_ & Hlt & _)|[(i & d & -> & _ & Hlt & _)|(_ & _ & Hc)]]].
  - contradiction.
  - pose proof (bmin_le_blen b). lia.
  - cbn [blen] in Hm. lia.
  - exact Hc.
Qed.
Lemma cutb_nil_0 r : cutb r 0 = ([], false).
Proof. destruct r as [|b r]; [reflexivity|]. apply cutb_lt. destruct b; cbn [bmin blen]; lia. Qed.

Section Loop.
  Context {LIM : Limit}.
  Variable S : Stream.
  Variable w : bytes.
  Variable R : st S -> N -> Prop.
  Hypothesis HR : Refines S w R.
  Variable FNMAX CACHE : N.
  Hypothesis HFN : FNMAX < 2 ^ 64.
  Hypothesis HCACHE : 0 < CACHE.
  Variables T_START T_CONTENT T_EOA T_EOF : N.
  Hypothesis Htags : T_START <> T_CONTENT /\ T_START <> T_EOA /\ T_START <> T_EOF /\
                     T_CONTENT <> T_EOA /\ T_CONTENT <> T_EOF /\ T_EOA <> T_EOF.
  Variable H : bytes -> bytes.
  Hypothesis H_len : forall x, len (H x) = 32.

  Notation At := (At S w R).
  Notation Wrep := (Wrep FNMAX T_START T_CONTENT T_EOA T_EOF H).
  Notation body := (body T_START T_CONTENT T_EOA T_EOF).
  Notation hdr := (hdr T_START T_CONTENT T_EOA T_EOF).
  Notation ser_block := (ser_block T_START T_CONTENT T_EOA T_EOF).
  Notation parse_block := (parse_block FNMAX T_START T_CONTENT T_EOA T_EOF S).
  Notation block_loop := (block_loop FNMAX CACHE T_START T_CONTENT T_EOA T_EOF H S).
  Notation content_loop := (content_loop CACHE T_CONTENT S).
  Notation w_start := (w_start FNMAX T_START T_CONTENT T_EOA T_EOF).
  Notation w_end := (w_end T_START T_CONTENT T_EOA T_EOF H).
  Notation wf_step := (wf_step FNMAX H).
  Notation wf_from := (wf_from FNMAX H).
  Notation mkRP := (mkRP S).

  Record Inv (out : wstate) (ids : list (N * N)) (names : list (N * bytes)) (done : list N)
             (hash : list (N * bytes)) (fs : list frec) (obl : list block) : Prop := {
    iv_w : Wrep out obl;
    iv_sim : Forall2 sim fs (files_of obl);
    iv_ids : ids = pairs fs (files_of obl);
    iv_names : forall id, assoc names id = option_map f_name (find_id fs id);
    iv_done : forall id, mem done id = match find_id fs id with Some f => f_ended f | None => false end;
    iv_hash : forall id f, find_id fs id = Some f -> f_ended f = false -> assoc hash id = Some (f_data f);
    iv_nd : ids_nodup fs;
  }.

  Lemma Inv_init : Inv w_init [] [] [] [] [] [].
  Proof.
    constructor; try reflexivity; try (now constructor).
    - apply Wrep_init.
    - intros id f Hf. discriminate.
  Qed.

  (* ---------- FileStart ---------- *)
  Lemma Inv_start out ids names done hash fs obl id name :
    Inv out ids names done hash fs obl -> wf_step fs (BStart id name) ->
    exists out1, w_start out name = (out1, Ok (w_next out)) /\
      existsb (fun e => fst e =? id) ids = false /\ mem done id = false /\
      Inv out1 (ids ++ [(id, w_next out)]) (assoc_set names id name) done (assoc_set hash id [])
          (fstep fs (BStart id name)) (obl ++ [BStart (w_next out) name]).
  Proof.
    intros I (Hid & Hnm & Hl & Hu).
    pose proof (iv_sim _ _ _ _ _ _ _ I) as Hsim.
    destruct (Wrep_start FNMAX T_START T_CONTENT T_EOA T_EOF H out obl name (iv_w _ _ _ _ _ _ _ I)
                (sim_find_name_none _ _ _ Hsim Hnm) Hl Hu) as (out1 & Hw & W1 & Hn1).
    exists out1. split; [exact Hw|]. split; [|split].
    - rewrite existsb_assoc, (iv_ids _ _ _ _ _ _ _ I), (pairs_none _ _ _ Hsim Hid). reflexivity.
    - rewrite (iv_done _ _ _ _ _ _ _ I), Hid. reflexivity.
    - constructor; rewrite ?files_of_snoc; cbn [fstep].
      + exact W1.
      + apply Forall2_app; [exact Hsim|]. constructor; [|constructor]. repeat split.
      + rewrite (iv_ids _ _ _ _ _ _ _ I), (pairs_snoc _ _ _ _ Hsim). reflexivity.
      + intros id'. rewrite assoc_set_spec, find_id_app, (iv_names _ _ _ _ _ _ _ I).
        rewrite find_id_cons. cbn [f_id find_id find].
        destruct (N.eqb_spec id id') as [E|E].
        * subst id'. rewrite Hid. reflexivity.
        * destruct (find_id fs id'); reflexivity.
      + intros id'. rewrite (iv_done _ _ _ _ _ _ _ I), find_id_app, find_id_cons. cbn [f_id find_id find].
        destruct (find_id fs id'); [reflexivity|]. destruct (id =? id'); reflexivity.
      + intros id' f. rewrite assoc_set_spec, find_id_app, find_id_cons. cbn [f_id find_id find].
        destruct (N.eqb_spec id id') as [E|E].
        * subst id'. rewrite Hid. intros [= <-] _. reflexivity.
        * destruct (find_id fs id') eqn:Ef; [|discriminate].
          intros [= <-] He. exact (iv_hash _ _ _ _ _ _ _ I id' f0 Ef He).
      + apply (fstep_nodup FNMAX H fs (BStart id name) (iv_nd _ _ _ _ _ _ _ I)). repeat split; assumption.
  Qed.

  (* ---------- an open file and its partner ---------- *)
  Lemma Inv_lookup out ids names done hash fs obl id f :
    Inv out ids names done hash fs obl -> find_id fs id = Some f -> f_ended f = false ->
    exists g, assoc ids id = Some (f_id g) /\ mem done id = false /\
      assoc names id = Some (f_name f) /\ assoc hash id = Some (f_data f) /\
      find_id (files_of obl) (f_id g) = Some g /\ f_ended g = false /\ f_data g = f_data f.
  Proof.
    intros I Hf He.
    destruct (split_pair _ _ _ _ (iv_sim _ _ _ _ _ _ _ I) (iv_nd _ _ _ _ _ _ _ I)
                (Wrep_nodup _ _ _ _ _ _ _ _ (iv_w _ _ _ _ _ _ _ I)) Hf)
      as (fs1 & fs2 & g & ofs1 & ofs2 & _ & _ & _ & (Sn & Sd & Se) & _ & _ & _ & _ & _ & _ & Ea & Eg).
    exists g. rewrite (iv_ids _ _ _ _ _ _ _ I), (iv_done _ _ _ _ _ _ _ I), (iv_names _ _ _ _ _ _ _ I), Hf.
    rewrite (iv_hash _ _ _ _ _ _ _ I id f Hf He). cbn [option_map].
    repeat split; auto; congruence.
  Qed.

  Lemma sim_upd (u v : frec -> frec) fs ofs id f gid :
    Forall2 sim fs ofs -> ids_nodup fs -> ids_nodup ofs -> find_id fs id = Some f ->
    assoc (pairs fs ofs) id = Some gid ->
    (forall x, f_id x <> id -> u x = x) -> (forall y, f_id y <> gid -> v y = y) ->
    (forall x y, f_id x = id -> f_id y = gid -> sim x y -> sim (u x) (v y)) ->
    (forall x, f_id (u x) = f_id x) -> (forall y, f_id (v y) = f_id y) ->
    Forall2 sim (map u fs) (map v ofs) /\ pairs (map u fs) (map v ofs) = pairs fs ofs.
  Proof.
    intros Hsim N1 N2 Hf Ha Hu Hv Huv Hui Hvi. split.
    - destruct (split_pair _ _ _ _ Hsim N1 N2 Hf)
        as (fs1 & fs2 & g & ofs1 & ofs2 & -> & -> & S1 & Sg & S2 & M1 & M2 & M3 & M4 & Ef & Ea & _).
      rewrite Ea in Ha. injection Ha as <-.
      rewrite (map_upd_split u id), (map_upd_split v (f_id g)) by assumption.
      apply Forall2_app; [exact S1|]. constructor; [apply Huv; [exact Ef | reflexivity | exact Sg] | exact S2].
    - unfold pairs. rewrite !map_map. f_equal; apply map_ext; assumption.
  Qed.

  (* ---------- FileContent ---------- *)
  Lemma Inv_content out ids names done hash fs obl id f gid got out' obl' :
    Inv out ids names done hash fs obl -> find_id fs id = Some f -> f_ended f = false ->
    assoc ids id = Some gid -> Wrep out' obl' ->
    files_of obl' = fstep (files_of obl) (BContent gid got) ->
    Inv out' ids names done (assoc_set hash id (f_data f ++ got)) (fstep fs (BContent id got)) obl'.
  Proof.
    intros I Hf He Ha W' Hfo. rewrite (iv_ids _ _ _ _ _ _ _ I) in Ha.
    destruct (sim_upd (upd_data id got) (upd_data gid got) fs (files_of obl) id f gid
                (iv_sim _ _ _ _ _ _ _ I) (iv_nd _ _ _ _ _ _ _ I)
                (Wrep_nodup _ _ _ _ _ _ _ _ (iv_w _ _ _ _ _ _ _ I)) Hf Ha) as [Hs Hp].
    { intros x. apply upd_data_other. }
    { intros x. apply upd_data_other. }
    { intros x y Ex Ey (Sn & Sd & Se). unfold upd_data. rewrite Ex, Ey, !N.eqb_refl.
      repeat split; cbn [f_name f_data f_ended]; congruence. }
    { intros x. apply upd_data_id. }
    { intros x. apply upd_data_id. }
    cbn [fstep] in *. constructor; rewrite ?Hfo.
    - exact W'.
    - exact Hs.
    - rewrite Hp. exact (iv_ids _ _ _ _ _ _ _ I).
    - intros id'. rewrite (iv_names _ _ _ _ _ _ _ I), find_id_map_upd_data.
      destruct (find_id fs id'); cbn [option_map]; [now rewrite upd_data_name | reflexivity].
    - intros id'. rewrite (iv_done _ _ _ _ _ _ _ I), find_id_map_upd_data.
      destruct (find_id fs id') as [x|]; cbn [option_map]; [|reflexivity].
      unfold upd_data. destruct (f_id x =? id); reflexivity.
    - intros id' f'. rewrite find_id_map_upd_data, assoc_set_spec.
      destruct (find_id fs id') as [x|] eqn:Ex; cbn [option_map]; [|discriminate].
      intros [= <-] He'.
      destruct (find_id_some _ _ _ Ex) as [_ Hidx].
      unfold upd_data in *. destruct (N.eqb_spec (f_id x) id) as [E|E]; cbn [f_data f_ended] in *.
      + assert (Hii : id' = id) by congruence. rewrite Hii in Ex |- *. rewrite N.eqb_refl.
        rewrite Hf in Ex. injection Ex as <-. reflexivity.
      + destruct (N.eqb_spec id id'); [congruence|].
        exact (iv_hash _ _ _ _ _ _ _ I id' x Ex He').
    - unfold ids_nodup. rewrite map_map. erewrite map_ext; [exact (iv_nd _ _ _ _ _ _ _ I)|].
      intros x. apply upd_data_id.
  Qed.

  (* ---------- EndOfFile ---------- *)
  Lemma Inv_eof out ids names done hash fs obl id f gid h h' out' obl' :
    Inv out ids names done hash fs obl -> find_id fs id = Some f -> f_ended f = false ->
    assoc ids id = Some gid -> Wrep out' obl' ->
    files_of obl' = fstep (files_of obl) (BEof gid h) ->
    Inv out' ids names (done ++ [id]) (assoc_del hash id) (fstep fs (BEof id h')) obl'.
  Proof.
    intros I Hf He Ha W' Hfo. rewrite (iv_ids _ _ _ _ _ _ _ I) in Ha.
    destruct (sim_upd (upd_end id) (upd_end gid) fs (files_of obl) id f gid
                (iv_sim _ _ _ _ _ _ _ I) (iv_nd _ _ _ _ _ _ _ I)
                (Wrep_nodup _ _ _ _ _ _ _ _ (iv_w _ _ _ _ _ _ _ I)) Hf Ha) as [Hs Hp].
    { intros x. apply upd_end_other. }
    { intros x. apply upd_end_other. }
    { intros x y Ex Ey (Sn & Sd & Se). unfold upd_end. rewrite Ex, Ey, !N.eqb_refl.
      repeat split; cbn [f_name f_data f_ended]; congruence. }
    { intros x. apply upd_end_id. }
    { intros x. apply upd_end_id. }
    cbn [fstep] in *. constructor; rewrite ?Hfo.
    - exact W'.
    - exact Hs.
    - rewrite Hp. exact (iv_ids _ _ _ _ _ _ _ I).
    - intros id'. rewrite (iv_names _ _ _ _ _ _ _ I), find_id_map_upd_end.
      destruct (find_id fs id'); cbn [option_map]; [now rewrite upd_end_name | reflexivity].
    - intros id'. rewrite mem_snoc, (iv_done _ _ _ _ _ _ _ I), find_id_map_upd_end.
      destruct (find_id fs id') as [x|] eqn:Ex; cbn [option_map].
      + destruct (find_id_some _ _ _ Ex) as [_ Hidx]. unfold upd_end. rewrite Hidx.
        destruct (N.eqb_spec id' id); cbn [f_ended]; [apply orb_true_r | apply orb_false_r].
      + destruct (N.eqb_spec id' id) as [E|E]; [|reflexivity]. subst id'. congruence.
    - intros id' f'. rewrite find_id_map_upd_end, assoc_del_spec.
      destruct (find_id fs id') as [x|] eqn:Ex; cbn [option_map]; [|discriminate].
      intros [= <-] He'.
      destruct (find_id_some _ _ _ Ex) as [_ Hidx].
      unfold upd_end in *. destruct (N.eqb_spec (f_id x) id) as [E|E]; cbn [f_data f_ended] in *; [discriminate|].
      destruct (N.eqb_spec id id'); [congruence|].
      exact (iv_hash _ _ _ _ _ _ _ I id' x Ex He').
    - unfold ids_nodup. rewrite map_map. erewrite map_ext; [exact (iv_nd _ _ _ _ _ _ _ I)|].
      intros x. apply upd_end_id.
  Qed.

  (* ---------- the loop ---------- *)
  Lemma parse_eof s : At s [] -> exists s', parse_block s = (s', Err EUnexpectedEof).
  Proof.
    intros HA.
    destruct (parse_block_at S w R HR FNMAX T_START T_CONTENT T_EOA T_EOF HFN Htags s [] BEnd [] HA)
      as (s' & [(a' & Ha & _)|[_ Hp]]).
    - exists [T_EOA]. reflexivity.
    - exact I.
    - cbn in Ha. discriminate.
    - exists s'. exact Hp.
  Qed.

  Lemma block_loop_eof fuel s out ids names done hash : At s [] -> (0 < fuel)%nat ->
    exists s', block_loop fuel (mkRP s out ids names done hash) =
               (mkRP s' out ids names done hash, Ok FEofNextBlock).
  Proof.
    intros HA Hf. destruct fuel as [|fuel]; [lia|].
    destruct (parse_eof s HA) as (s' & Hp). exists s'.
    cbn [Repair.block_loop rp_src rp_out rp_ids rp_names rp_done rp_hash]. rewrite Hp. reflexivity.
  Qed.

  Lemma blk_ok_of fs b : wf_step fs b -> num_ok b -> blk_ok FNMAX b.
  Proof.
    destruct b as [i n|i d|i h|]; cbn [RepairSpec.wf_step num_ok blk_ok].
    - intros (_ & _ & Hl & Hu) Hi. auto.
    - intros _ Hn. exact Hn.
    - intros (f & _ & _ & ->) Hi. split; [exact Hi | apply H_len].
    - auto.
  Qed.

  Lemma len_hdr_bmin b : len (hdr b) = bmin b.
  Proof.
    pose proof (len_hdr T_START T_CONTENT T_EOA T_EOF b) as Hl.
    destruct b; cbn [bmin bpay blen] in *; rewrite ?len_nil in Hl; lia.
  Qed.

  Theorem block_loop_spec trailer : forall rest fuel s out ids names done hash fs obl a,
    Inv out ids names done hash fs obl -> At s a -> prefix a (body rest ++ trailer) ->
    (In BEnd rest \/ trailer = []) -> wf_from fs rest -> Forall num_ok rest ->
    (N.to_nat (len a) < fuel)%nat ->
    exists s' out' ids' names' done' hash' obl',
      block_loop fuel (mkRP s out ids names done hash) =
        (mkRP s' out' ids' names' done' hash',
         Ok (if snd (cutb rest (len a)) then FEndOfData else FEofNextBlock)) /\
      Inv out' ids' names' done' hash' (frun fs (fst (cutb rest (len a)))) obl'.
  Proof.
    induction rest as [|b r IH]; intros fuel s out ids names done hash fs obl a I HA Hp Ht Hwf Hnum Hfuel.
    - (* nothing more was written *)
      assert (a = []).
      { destruct Ht as [[]| ->]. cbn in Hp. now apply prefix_nil_r. }
      subst a. destruct (block_loop_eof fuel s out ids names done hash HA) as (s' & Heq); [lia|].
      exists s', out, ids, names, done, hash, obl. split; [exact Heq | exact I].
    - destruct Hwf as (Hstep & Hlast & Hwf). inversion Hnum as [|? ? Hnb Hnr]; subst.
      destruct fuel as [|fuel]; [lia|].
      pose proof (blk_ok_of fs b Hstep Hnb) as Hok.
      assert (Hp' : prefix a (hdr b ++ (bpay b ++ body r ++ trailer))).
      { unfold RepairProofs2.body in *. cbn [map concat] in Hp.
        rewrite (ser_block_hdr T_START T_CONTENT T_EOA T_EOF b), <- !app_assoc in Hp. exact Hp. }
      destruct (parse_block_at S w R HR FNMAX T_START T_CONTENT T_EOA T_EOF HFN Htags s a b _ HA Hp' Hok)
        as (s1 & [(a' & -> & Hp1 & HA1 & Hparse)|[Hlt Hparse]]).
      2: { (* cut inside what the block parser reads *)
        rewrite len_hdr_bmin in Hlt. rewrite (cutb_lt b r _ Hlt). cbn [fst snd frun fold_left].
        exists s1, out, ids, names, done, hash, obl. split; [|exact I].
        cbn [Repair.block_loop rp_src rp_out rp_ids rp_names rp_done rp_hash]. rewrite Hparse. reflexivity. }
      assert (Hla : len (hdr b ++ a') = bmin b + len a') by (rewrite len_app, len_hdr_bmin; reflexivity).
      rewrite Hla in *.
      destruct b as [id name|id d|id h|].
      + (* FileStart *)
        destruct (Inv_start _ _ _ _ _ _ _ id name I Hstep) as (out1 & Hw & Hex & Hmem & I1).
        cbn [bpay app] in Hp1.
        destruct (IH fuel s1 out1 _ _ _ _ _ _ a' I1 HA1 Hp1) as (s' & out' & ids' & names' & done' & hash' & obl' & Heq & I').
        { destruct Ht as [[?|?]|?]; [discriminate | left; assumption | right; assumption]. }
        { exact Hwf. } { exact Hnr. } { cbn [bmin blen] in Hfuel. lia. }
        exists s', out', ids', names', done', hash', obl'.
        rewrite cutb_whole by (first [discriminate | cbn [bmin blen]; lia]).
        cbn [bmin blen fst snd]. replace (17 + len name + len a' - (17 + len name)) with (len a') by lia.
        split; [|exact I'].
        cbn [Repair.block_loop rp_src rp_out rp_ids rp_names rp_done rp_hash]. rewrite Hparse.
        cbn [pb_of]. rewrite Hex, Hmem, Hw. exact Heq.
      + (* FileContent *)
        destruct Hstep as (f & Hf & He).
        destruct (Inv_lookup _ _ _ _ _ _ _ id f I Hf He) as (g & Ea & Em & En & Eh & Eg & Ege & Egd).
        cbn [bpay] in Hp1.
        destruct (content_loop_spec S w R HR FNMAX CACHE HCACHE T_START T_CONTENT T_EOA T_EOF H (f_id g)
                    (Datatypes.S fuel) s1 a' out obl (len d) [] g HA1 (iv_w _ _ _ _ _ _ _ I) Eg Ege)
          as (s2 & out2 & obl2 & Hcl & HA2 & W2 & Hfo & Hn2).
        { cbn [bmin] in Hfuel. lia. }
        cbn [app] in Hcl.
        pose proof (Inv_content _ _ _ _ _ _ _ id f (f_id g) (takeN (len d) a') out2 obl2 I Hf He Ea W2 Hfo) as I2.
        assert (Hloop : block_loop (Datatypes.S fuel) (mkRP s out ids names done hash) =
                        block_loop fuel (mkRP s2 out2 ids names done (assoc_set hash id (f_data f ++ takeN (len d) a')))).
        { cbn [Repair.block_loop rp_src rp_out rp_ids rp_names rp_done rp_hash]. rewrite Hparse.
          cbn [pb_of]. rewrite Ea, Em, En, Eh, Hcl. reflexivity. }
        rewrite Hloop. cbn [bmin].
        destruct (prefix_app_split _ _ _ Hp1) as [[Hle (a2 & -> & Hp2)]|Hlt].
        * (* the whole content is there *)
          rewrite takeN_len_app in *. rewrite dropN_len_app in HA2.
          destruct (IH fuel s2 out2 _ _ _ _ _ _ a2 I2 HA2 Hp2) as (s' & out' & ids' & names' & done' & hash' & obl' & Heq & I').
          { destruct Ht as [[?|?]|?]; [discriminate | left; assumption | right; assumption]. }
          { exact Hwf. } { exact Hnr. } { cbn [bmin] in Hfuel. rewrite len_app in Hfuel. lia. }
          exists s', out', ids', names', done', hash', obl'.
          rewrite cutb_whole by (first [discriminate | cbn [blen]; rewrite len_app; lia]).
          cbn [blen fst snd]. rewrite len_app.
          replace (17 + (len d + len a2) - (17 + len d)) with (len a2) by lia.
          split; [exact Heq | exact I'].
        * (* cut inside the content *)
          assert (Ha' : a' = takeN (len a') d).
          { pose proof (prefix_is_takeN _ _ Hp1) as Hx. rewrite takeN_app_le in Hx by lia. exact Hx. }
          rewrite (takeN_all (len d) a') in * by lia. rewrite (dropN_all (len d) a') in HA2 by lia.
          destruct (block_loop_eof fuel s2 out2 ids names done (assoc_set hash id (f_data f ++ a')) HA2) as (s' & Heq).
          { cbn [bmin] in Hfuel. lia. }
          exists s', out2, ids, names, done, (assoc_set hash id (f_data f ++ a')), obl2.
          assert (Hc : cutb (BContent id d :: r) (17 + len a') = ([BContent id a'], false)).
          { cbn [cutb]. destruct (N.ltb_spec (17 + len a') 17); [lia|].
            destruct (N.ltb_spec (17 + len a') (17 + len d)); [|lia].
            replace (17 + len a' - 17) with (len a') by lia. now rewrite <- Ha'. }
          rewrite Hc. cbn [fst snd frun fold_left]. split; [exact Heq | exact I2].
      + (* EndOfFile *)
        destruct Hstep as (f & Hf & He & Hh).
        destruct (Inv_lookup _ _ _ _ _ _ _ id f I Hf He) as (g & Ea & Em & En & Eh & Eg & Ege & Egd).
        cbn [bpay app] in Hp1.
        destruct (Wrep_end FNMAX T_START T_CONTENT T_EOA T_EOF H out obl (f_id g) g (iv_w _ _ _ _ _ _ _ I) Eg Ege)
          as (out1 & Hw & W1 & Hn1).
        pose proof (Inv_eof _ _ _ _ _ _ _ id f (f_id g) (H (f_data g)) h out1 _ I Hf He Ea W1
                      (files_of_snoc _ _)) as I1.
        destruct (IH fuel s1 out1 _ _ _ _ _ _ a' I1 HA1 Hp1) as (s' & out' & ids' & names' & done' & hash' & obl' & Heq & I').
        { destruct Ht as [[?|?]|?]; [discriminate | left; assumption | right; assumption]. }
        { exact Hwf. } { exact Hnr. } { cbn [bmin blen] in Hfuel. lia. }
        exists s', out', ids', names', done', hash', obl'.
        rewrite cutb_whole by (first [discriminate | cbn [bmin blen]; lia]).
        cbn [bmin blen fst snd]. replace (9 + len h + len a' - (9 + len h)) with (len a') by lia.
        split; [|exact I'].
        cbn [Repair.block_loop rp_src rp_out rp_ids rp_names rp_done rp_hash]. rewrite Hparse.
        cbn [pb_of]. rewrite Ea, Em, Eh, Hh, bytes_eqb_refl. cbn [negb]. rewrite Hw. exact Heq.
      + (* EndOfArchiveData *)
        exists s1, out, ids, names, done, hash, obl.
        cbn [cutb bmin blen fst snd frun fold_left].
        destruct (N.leb_spec 1 (1 + len a')); [|lia].
        split; [|exact I].
        cbn [Repair.block_loop rp_src rp_out rp_ids rp_names rp_done rp_hash]. rewrite Hparse. reflexivity.
  Qed.
End Loop.
