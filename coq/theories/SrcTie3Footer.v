(* SrcTie3Footer.v — ArchiveFooter::serialize_into: the `WrongWriterState` arm ("Unable to find the
   ID": a name of files_info whose id has no FileInfo) is UNREACHABLE, and on the states of the writer
   invariant the translated function IS what Writer.w_finalize_with does after the EndOfArchiveData
   block — all three outcomes (bincode limit, u32 length, success), no premise on the size.
   The invariant is RoundTripWriter.WInv (every state reached from ArchiveWriter::from_config by
   accepted calls satisfies it: RoundTripRun.wrun_inv; the translated writer's states abstract to
   such states: CarryWriter.src_wrun_sim).  The model's w_footer drops an entry without FileInfo
   silently; footer_join_writer shows that no entry is ever dropped. *)
From MLA Require Import Base Stream Blocks Writer RoundTripBlocks RoundTripWriter SrcTie3Reader.
From MLAGen Require Src3d.
From Coq Require Import ZifyBool ZifyNat ZifyN.
Open Scope N_scope.

Lemma find_fst_alookup {A} (l : list (N * A)) i :
  match find (fun e => fst e =? i) l with
  | Some (_, v) => alookup l i = Some v
  | None => alookup l i = None
  end.
Proof.
  induction l as [|[k v] l IH]; cbn [find alookup fst]; [reflexivity|].
  destruct (k =? i); [reflexivity | exact IH].
Qed.

Lemma footer_join_flat {A} files (ids : list (N * A)) :
  (forall n i, In (n, i) files -> alookup ids i <> None) ->
  Src3d.footer_join files ids =
  Ok (flat_map (fun e => match alookup ids (snd e) with Some fi => [(fst e, fi)] | None => [] end) files).
Proof.
  induction files as [|[k i] r IH]; intros Hall; cbn [Src3d.footer_join flat_map fst snd]; [reflexivity|].
  pose proof (find_fst_alookup ids i) as Hf. pose proof (Hall k i (or_introl eq_refl)) as Hi.
  destruct (find (fun e => fst e =? i) ids) as [[k' v]|]; [|contradiction].
  rewrite Hf, IH; [reflexivity|]. intros n j Hin. apply (Hall n j). right. exact Hin.
Qed.

Section Tie.
  Variable FNMAX : N.
  Variables T_START T_CONTENT T_EOA T_EOF : N.
  Variable H : bytes -> bytes.
  Notation WInv := (WInv FNMAX T_START T_CONTENT T_EOA T_EOF H).

  (* every name of files_info has its FileInfo *)
  Lemma winv_ids_known s bl : WInv s bl -> forall n i, In (n, i) (w_files s) -> alookup (w_ids s) i <> None.
  Proof.
    intros HI n i Hin. pose proof (wi_fids _ _ _ _ _ _ _ _ HI n i Hin) as Hlt.
    pose proof (wi_file _ _ _ _ _ _ _ _ HI i) as Hf. unfold FileSt in Hf.
    destruct (N.ltb_spec i (w_next s)); [|lia]. destruct Hf as (nm & fi & -> & _). discriminate.
  Qed.

  (* (d): the join of serialize_into never fails and is the model's footer *)
  Theorem footer_join_writer s bl : WInv s bl -> Src3d.footer_join (w_files s) (w_ids s) = Ok (w_footer s).
  Proof. intros HI. unfold w_footer. apply footer_join_flat. exact (winv_ids_known s bl HI). Qed.

  (* the translated serialize_into, called by finalize after the end marker, against the model *)
  Theorem footer_serialize_into_model (order : footer -> footer) s bl : WInv s bl -> w_open s = [] ->
    Src3d.footer_serialize_into ser_footer_map order
      (w_out s ++ ser_block T_START T_CONTENT T_EOA T_EOF BEnd) (w_files s) (w_ids s) =
    let '(s', r) := w_finalize_with (LIM := Src3d.BINCODE_MAX_DESERIALIZE) T_START T_CONTENT T_EOA T_EOF order s in
    (w_out s', match r with Ok _ => Ok tt | Err e => Err e | Crash c => Crash c end).
  Proof.
    intros HI Ho. rewrite (footer_serialize_into_src order _ _ _ _ (footer_join_writer s bl HI)).
    unfold w_finalize_with. rewrite (wi_final _ _ _ _ _ _ _ _ HI), Ho. cbv zeta. unfold lim.
    destruct (Src3d.BINCODE_MAX_DESERIALIZE <? len (ser_footer_map (order (w_footer s)))); [reflexivity|].
    destruct (2 ^ 32 <=? len (ser_footer_map (order (w_footer s)))); cbn [w_finalized w_out]; rewrite <- ?app_assoc; reflexivity.
  Qed.
End Tie.

(* non-vacuity: two files, the join through the translated function = the model's footer *)
Example footer_join_nonvacuous :
  let s := fst (wrun (LIM := 1000) 48 0 1 254 255 (fun _ => repeat 7 32) (fun f => f) w_init [OAdd [97] 1 [1]; OAdd [98] 1 [2]]) in
  Src3d.footer_join (w_files s) (w_ids s) = Ok (w_footer s) /\ length (w_footer s) = 2%nat.
Proof. vm_compute. split; reflexivity. Qed.
