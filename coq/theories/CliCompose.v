(* CliCompose.v — compositions of CliArchive.v with C16 (PathBenign) and with itself:
     both forms of `extract` of a created archive leave, for benign names, the same files with the
     bytes given; `convert` to another configuration followed by list / cat on the new archive. *)
From MLA Require Import Limit.
From MLA Require Import Base Stream Blocks Writer Reader RoundTripBlocks RoundTripWriter RoundTripReader RoundTrip
  CompLayer EncLayer Format Ecies Archive ArchiveProofs LinearRoundTripDefs LinearProofs LinearRoundTrip
  Path PathProofs PathBenign Tar TarProofs Cli CliProofs CliArchive.
From Coq Require Import ZifyBool ZifyNat ZifyN Permutation.
Open Scope N_scope.

(* ---------- sorted_files is idempotent on what matters ---------- *)
Lemma sorted_files_names files : map fst (sorted_files files) = sort_names (map fst files).
Proof. unfold sorted_files. rewrite map_map. cbn [fst]. apply map_id. Qed.

Lemma sort_names_idem l : sort_names (sort_names l) = sort_names l.
Proof. apply sort_names_perm_eq. apply sort_names_perm. Qed.

Lemma sorted_files_nodup files : NoDup (map fst files) -> NoDup (map fst (sorted_files files)).
Proof.
  intros Hnd. rewrite sorted_files_names. eapply Permutation_NoDup; [symmetry; apply sort_names_perm|exact Hnd].
Qed.

Lemma lookup_sorted_files files n : NoDup (map fst files) -> lookup_file (sorted_files files) n = lookup_file files n.
Proof.
  intros Hnd. destruct (in_dec (list_eq_dec N.eq_dec) n (map fst files)) as [Hin|Hni].
  - apply lookup_file_in; [exact (sorted_files_nodup files Hnd)|].
    unfold sorted_files. apply in_map_iff. exists n. split; [reflexivity|].
    eapply Permutation_in; [symmetry; apply sort_names_perm|exact Hin].
  - rewrite (lookup_file_notin files n Hni). apply lookup_file_notin. rewrite sorted_files_names.
    intros Hin. apply Hni. eapply Permutation_in; [apply sort_names_perm|exact Hin].
Qed.

Lemma in_sorted_files files n d : NoDup (map fst files) -> In (n, d) files -> In (n, d) (sorted_files files).
Proof. intros Hnd Hin. eapply Permutation_in; [symmetry; apply sorted_files_perm; exact Hnd|exact Hin]. Qed.

Section Compose.
  Variables CHUNK TAG CIPHERBUF BLOCK LIMIT FNMAX : N.
  Local Hint Extern 0 Limit => exact LIMIT : typeclass_instances.
  Variables TS TC TA TE : N.
  Variable H : bytes -> bytes.
  Variable order : footer -> footer.
  Variable pubk : bytes -> bytes.
  Variable dh : bytes -> bytes -> bytes.
  Variable kdf : bytes -> bytes.
  Variables wenc wdec wtag : bytes -> bytes -> bytes.
  Variable ksf : bytes -> bytes -> N -> N -> N.
  Variable tagf : bytes -> bytes -> N -> bytes -> bytes.
  Variable dec : bytes -> bytes.

  Hypothesis HCHUNK : 0 < CHUNK.
  Hypothesis HTAG : 0 < TAG.
  Hypothesis HCB : 0 < CIPHERBUF.
  Hypothesis HB : 0 < BLOCK.
  Hypothesis HB32 : BLOCK < 2 ^ 32.
  Hypothesis Htags : tags_distinct TS TC TA TE.
  Hypothesis HHlen : forall x, len (H x) = 32.
  Hypothesis Horder : forall f, Permutation (order f) f.
  Hypothesis wdec_wenc : forall k m, len m = 32 -> wdec k (wenc k m) = m.
  Hypothesis Hpubk : forall e, len (pubk e) = 32.
  Hypothesis Hwenc : forall k m, len m = 32 -> len (wenc k m) = 32.
  Hypothesis Hwtag : forall k c, len (wtag k c) = 16.

  Notation archive_write := (archive_write CHUNK CIPHERBUF BLOCK LIMIT FNMAX TS TC TA TE H order pubk dh kdf wenc wtag ksf tagf).
  Notation made_by_create := (made_by_create CHUNK TAG BLOCK LIMIT FNMAX TS TC TA TE H order pubk dh kdf wenc wtag ksf tagf dec).
  Notation cmd_create := (cmd_create CHUNK CIPHERBUF BLOCK LIMIT FNMAX TS TC TA TE H order pubk dh kdf wenc wtag ksf tagf).
  Notation cmd_list_a := (cmd_list_a CHUNK TAG BLOCK LIMIT dh kdf wdec wtag ksf tagf dec).
  Notation cmd_cat := (cmd_cat CHUNK TAG BLOCK LIMIT FNMAX TS TC TA TE dh kdf wdec wtag ksf tagf dec).
  Notation cmd_to_tar := (cmd_to_tar CHUNK TAG BLOCK LIMIT FNMAX TS TC TA TE dh kdf wdec wtag ksf tagf dec).
  Notation cmd_convert := (cmd_convert CHUNK TAG CIPHERBUF BLOCK LIMIT FNMAX TS TC TA TE H order pubk dh kdf wenc wdec wtag ksf tagf dec).
  Notation cmd_extract_linear := (cmd_extract_linear CHUNK TAG BLOCK LIMIT FNMAX TS TC TA TE dh kdf wdec wtag ksf tagf dec).
  Notation cmd_extract_listed := (cmd_extract_listed CHUNK TAG BLOCK LIMIT FNMAX TS TC TA TE dh kdf wdec wtag ksf tagf dec).
  Notation TCol cfg privs := (TagCollision pubk dh kdf wenc wtag (wc_eph cfg) (wc_key cfg) (wc_recipients cfg) privs).

  Notation opens_as := (opens_as CHUNK TAG BLOCK LIMIT order dh kdf wdec wtag ksf tagf dec).

  (* ---------- extract: both forms ---------- *)
  Theorem extract_both_forms_agree cfg ct cm files sf rs privs s zf fuel lfuel wanted out f :
    made_by_create cfg files sf rs privs s ->
    (forall n d, In (n, d) files -> (length d < fuel)%nat) -> (N.to_nat (len (w_out sf)) < lfuel)%nat ->
    (forall n, In n (map fst files) -> name_in wanted n = true) ->
    let ns := sort_names (map fst files) in
    real_dir f out -> Forall (fun n => benign out (n, [])) ns -> pairwise unrelated (map norm ns) ->
    Forall (fun n => clear_path out f (norm n)) ns ->
    exists a, cmd_create cfg ct cm files = mkCR true (OWritten a) [] /\
      (TCol cfg privs \/
       exists f1 f2, cmd_extract_listed zf fuel a privs wanted out f = (f1, true) /\
                     cmd_extract_linear lfuel a privs out f = (f2, true) /\
         forall n d, In (n, d) files ->
           read_file f1 (out ++ norm n) = Some d /\ read_file f2 (out ++ norm n) = Some d).
  Proof.
    intros Hm Hfuel Hlf Hall ns Hreal Hben Hpw Hclear.
    destruct (created_archive CHUNK TAG CIPHERBUF BLOCK LIMIT FNMAX TS TC TA TE H order pubk dh kdf wenc wdec wtag
                ksf tagf dec HCHUNK HTAG HCB HB HB32 HHlen Horder wdec_wenc Hpubk Hwenc Hwtag
                cfg ct cm files sf rs privs s Hm) as (a & Hc & _ & Ho).
    exists a. split; [exact Hc|]. destruct Ho as [Ht|Ho]; [left; exact Ht|right].
    pose proof (names_nodup_at CHUNK TAG BLOCK LIMIT FNMAX TS TC TA TE H order pubk dh kdf wenc wdec wtag ksf tagf dec
                  HHlen Horder cfg files sf rs privs s Hm a Ho) as Hnd.
    pose proof (extract_listed_at CHUNK TAG BLOCK LIMIT FNMAX TS TC TA TE H order pubk dh kdf wenc wdec wtag ksf tagf dec
                  Htags HHlen Horder cfg files sf rs privs s Hm zf fuel Hfuel a Ho wanted out f Hall) as H1.
    destruct (extract_linear_at CHUNK TAG BLOCK LIMIT FNMAX TS TC TA TE H order pubk dh kdf wenc wdec wtag ksf tagf dec
                  Htags HHlen Horder cfg files sf rs privs s Hm a Ho lfuel out f Hlf) as (blocks & H2 & Hdel).
    (* per-name form: C16_benign_extracted *)
    destruct (benign_extracted_any_fs out (sorted_files files) f Hreal) as (f1 & He1 & Hr1 & _).
    { unfold sorted_files. apply Forall_map. eapply Forall_impl; [|exact Hben]. intros n Hb. exact Hb. }
    { unfold sorted_files. rewrite map_map. cbn [fst]. exact Hpw. }
    { unfold sorted_files. apply Forall_map. eapply Forall_impl; [|exact Hclear]. intros n Hcl. exact Hcl. }
    (* whole-archive form: C16_benign_extracted_linear *)
    destruct (benign_extracted_linear_any_fs out ns blocks f Hreal Hben Hpw Hclear) as (f2 & He2 & Hr2 & _).
    (* benign names with a clear way: the pre-pass accepts every name, so `export` holds them all *)
    assert (Hacc : accepted_names out ns f = ns).
    { destruct (create_all_clear out ns f Hreal Hben Hpw Hclear) as (f' & Hca & _).
      unfold accepted_names. rewrite Hca. cbn [fst snd]. rewrite map_map. cbn [fst]. apply map_id. }
    exists f1, f2. rewrite H1, H2. split; [exact He1|]. split; [exact He2|].
    intros n d Hin.
    assert (Hn : In n ns).
    { unfold ns. eapply Permutation_in; [symmetry; apply sort_names_perm|]. change n with (fst (n, d)). apply in_map. exact Hin. }
    split.
    - destruct (Hr1 n d (in_sorted_files files n d Hnd Hin)) as (_ & _ & Hrf). exact Hrf.
    - rewrite (Hr2 n).
      + f_equal.
        assert (Hni : name_in ns n = true).
        { unfold name_in. apply existsb_exists. exists n. split; [exact Hn|apply bytes_eqb_refl]. }
        transitivity (if name_in (accepted_names out ns f) n then d else []); [exact (Hdel n d Hin)|].
        rewrite Hacc, Hni. reflexivity.
      + unfold ns. eapply Permutation_in; [symmetry; apply sort_names_perm|]. change n with (fst (n, d)). apply in_map. exact Hin.
  Qed.

  (* ---------- to-tar, read back: ALL names ---------- *)
  (* whatever the names (`..` components, NUL bytes, anything the tar crate refuses): the tarball
     holds exactly the members whose path is accepted, each under its own tar name with its own
     bytes; a refused member leaves nothing and no member carries another member's bytes *)
  Theorem to_tar_reads_back cfg ct cm files sf rs privs s zf fuel :
    made_by_create cfg files sf rs privs s ->
    (forall n d, In (n, d) files -> (length d < fuel)%nat) -> Forall sizes_ok files ->
    exists a, cmd_create cfg ct cm files = mkCR true (OWritten a) [] /\
      (TCol cfg privs \/
       exists t, cmd_to_tar zf fuel a privs = mkCR true (OWritten t) [] /\
         forall rfuel, (2 * length files < rfuel)%nat ->
         tar_read rfuel t None =
           Some (map (fun m => (tar_name (fst m), snd m)) (filter (fun m => path_accepted (fst m)) (sorted_files files)))).
  Proof.
    intros Hm Hfuel Hsz.
    destruct (created_archive CHUNK TAG CIPHERBUF BLOCK LIMIT FNMAX TS TC TA TE H order pubk dh kdf wenc wdec wtag
                ksf tagf dec HCHUNK HTAG HCB HB HB32 HHlen Horder wdec_wenc Hpubk Hwenc Hwtag
                cfg ct cm files sf rs privs s Hm) as (a & Hc & _ & Ho).
    exists a. split; [exact Hc|]. destruct Ho as [Ht|Ho]; [left; exact Ht|right].
    pose proof (names_nodup_at CHUNK TAG BLOCK LIMIT FNMAX TS TC TA TE H order pubk dh kdf wenc wdec wtag ksf tagf dec
                  HHlen Horder cfg files sf rs privs s Hm a Ho) as Hnd.
    exists (tar_of (sorted_files files)). split.
    - exact (to_tar_at CHUNK TAG BLOCK LIMIT FNMAX TS TC TA TE H order pubk dh kdf wenc wdec wtag ksf tagf dec
               Htags HHlen Horder cfg files sf rs privs s Hm zf fuel Hfuel a Ho).
    - intros rfuel Hrf. apply tar_read_tar_of_all.
      + eapply Permutation_Forall; [symmetry; apply sorted_files_perm; exact Hnd | exact Hsz].
      + rewrite (Permutation_length (sorted_files_perm files Hnd)). exact Hrf.
  Qed.

  (* ---------- convert, then the new archive ---------- *)
  (* any source configuration -> any target configuration (other layers, other recipients): the
     converted archive, opened with a candidate list holding a TARGET recipient's key, lists the
     same names and cat returns the same bytes.  Premises on the target side are those of C01 for
     the calls convert makes (made_by_create for the name-sorted files). *)
  Theorem convert_preserves_files cfg ct cm files sf rs privs s cfg' ct' cm' sf' rs' privs' s' zf fuel :
    made_by_create cfg files sf rs privs s ->
    made_by_create cfg' (sorted_files files) sf' rs' privs' s' ->
    (forall n d, In (n, d) files -> (length d < fuel)%nat) ->
    exists a, cmd_create cfg ct cm files = mkCR true (OWritten a) [] /\
      (TCol cfg privs \/
       exists b, cmd_convert zf fuel a privs cfg' ct' cm' = mkCR true (OWritten b) [] /\
         (TCol cfg' privs' \/
          (cmd_list_a b privs' = mkCR true OUntouched (flat_map (fun n => n ++ [NL]) (sort_names (map fst files))) /\
           forall names, cmd_cat false zf fuel b privs' names =
                         mkCR true OUntouched (concat (map (lookup_file files) names))))).
  Proof.
    intros Hm Hm' Hfuel.
    destruct (created_archive CHUNK TAG CIPHERBUF BLOCK LIMIT FNMAX TS TC TA TE H order pubk dh kdf wenc wdec wtag
                ksf tagf dec HCHUNK HTAG HCB HB HB32 HHlen Horder wdec_wenc Hpubk Hwenc Hwtag
                cfg ct cm files sf rs privs s Hm) as (a & Hc & _ & Ho).
    exists a. split; [exact Hc|]. destruct Ho as [Ht|Ho]; [left; exact Ht|right].
    pose proof (names_nodup_at CHUNK TAG BLOCK LIMIT FNMAX TS TC TA TE H order pubk dh kdf wenc wdec wtag ksf tagf dec
                  HHlen Horder cfg files sf rs privs s Hm a Ho) as Hnd.
    destruct (created_archive CHUNK TAG CIPHERBUF BLOCK LIMIT FNMAX TS TC TA TE H order pubk dh kdf wenc wdec wtag
                ksf tagf dec HCHUNK HTAG HCB HB HB32 HHlen Horder wdec_wenc Hpubk Hwenc Hwtag
                cfg' ct' cm' (sorted_files files) sf' rs' privs' s' Hm') as (b & Hcb & _ & Hob).
    exists b. split.
    { rewrite (convert_at CHUNK TAG CIPHERBUF BLOCK LIMIT FNMAX TS TC TA TE H order pubk dh kdf wenc wdec wtag ksf tagf dec
                 Htags HHlen Horder cfg files sf rs privs s Hm zf fuel Hfuel a Ho cfg' ct' cm'). exact Hcb. }
    destruct Hob as [Ht|Hob]; [left; exact Ht|right].
    assert (Hfuel' : forall n d, In (n, d) (sorted_files files) -> (length d < fuel)%nat).
    { intros n d Hin. apply (Hfuel n). eapply Permutation_in; [apply sorted_files_perm; exact Hnd|exact Hin]. }
    split.
    - rewrite (list_at CHUNK TAG BLOCK LIMIT FNMAX TS TC TA TE H order pubk dh kdf wenc wdec wtag ksf tagf dec
                 HHlen Horder cfg' (sorted_files files) sf' rs' privs' s' Hm' b Hob).
      rewrite sorted_files_names, sort_names_idem. reflexivity.
    - intros names.
      rewrite (cat_at CHUNK TAG BLOCK LIMIT FNMAX TS TC TA TE H order pubk dh kdf wenc wdec wtag ksf tagf dec
                 Htags HHlen Horder cfg' (sorted_files files) sf' rs' privs' s' Hm' zf fuel Hfuel' b Hob false names).
      cbv zeta. f_equal. f_equal. apply map_ext. intros n. apply lookup_sorted_files. exact Hnd.
  Qed.
End Compose.
