(* RoundTripRun.v — C01, writer side: the invariant WInv along any run of successful calls,
   the ghost block list against the specification functions started / pieces, and the
   shape of the finalized output. *)
From MLA Require Import Limit.
From MLA Require Import Base Stream Blocks Writer WriterProofs RoundTripBlocks RoundTripWriter.
From Coq Require Import ZifyBool ZifyNat ZifyN.
Open Scope N_scope.

Lemma started_cons next o r :
  started next (o :: r) = started next [o] ++ started (next + len (started next [o])) r.
Proof.
  destruct o; cbn [started app]; rewrite ?len_cons, ?len_nil, ?N.add_0_r, ?N.add_0_l; reflexivity.
Qed.
Lemma pieces_cons next id o r :
  pieces next id (o :: r) = pieces next id [o] ++ pieces (next + len (started next [o])) id r.
Proof.
  destruct o; cbn [pieces started app]; rewrite ?len_cons, ?len_nil, ?N.add_0_r, ?N.add_0_l, ?app_nil_r; reflexivity.
Qed.
Lemma started_app next a b :
  started next (a ++ b) = started next a ++ started (next + len (started next a)) b.
Proof.
  revert next; induction a as [|o a IH]; intros next; cbn [app].
  - cbn [started app]. rewrite len_nil, N.add_0_r. reflexivity.
  - rewrite started_cons, IH, (started_cons next o a), <- app_assoc. do 2 f_equal.
    rewrite len_app. f_equal. lia.
Qed.
Lemma pieces_app next id a b :
  pieces next id (a ++ b) = pieces next id a ++ pieces (next + len (started next a)) id b.
Proof.
  revert next; induction a as [|o a IH]; intros next; cbn [app].
  - cbn [pieces started app]. rewrite len_nil, N.add_0_r. reflexivity.
  - rewrite pieces_cons, IH, (pieces_cons next id o a), (started_cons next o a), <- app_assoc. do 2 f_equal.
    rewrite len_app. f_equal. lia.
Qed.

Lemma datas_single id x :
  datas id [x] = match x with BContent i d => if i =? id then [d] else [] | _ => [] end.
Proof.
  unfold datas. cbn [proj filter]. unfold has_id.
  destruct x as [i n|i d|i h|]; cbn [block_id]; try destruct (i =? id); reflexivity.
Qed.

Section RTRun.
  Context {LIM : Limit}.
  Variable FNMAX : N.
  Variables T_START T_CONTENT T_EOA T_EOF : N.
  Variable H : bytes -> bytes.
  Variable order : footer -> footer.
  Hypothesis HHlen : forall x, len (H x) = 32.

  Notation ser_blocks := (ser_blocks T_START T_CONTENT T_EOA T_EOF).
  Notation wstep := (wstep FNMAX T_START T_CONTENT T_EOA T_EOF H order).
  Notation wrun := (wrun FNMAX T_START T_CONTENT T_EOA T_EOF H order).
  Notation w_start := (w_start FNMAX T_START T_CONTENT T_EOA T_EOF).
  Notation w_append := (w_append T_CONTENT).
  Notation w_end := (w_end T_START T_CONTENT T_EOA T_EOF H).
  Notation w_finalize_with := (w_finalize_with T_START T_CONTENT T_EOA T_EOF).
  Notation WInv := (WInv FNMAX T_START T_CONTENT T_EOA T_EOF H).

  Lemma wrun_app s a b :
    wrun s (a ++ b) =
    let '(s1, r1) := wrun s a in let '(s2, r2) := wrun s1 b in (s2, r1 ++ r2).
  Proof.
    revert s; induction a as [|o a IH]; intros s; cbn [app Writer.wrun].
    - destruct (wrun s b); reflexivity.
    - destruct (wstep s o) as [s1 x]. rewrite IH. destruct (wrun s1 a) as [s2 r1].
      destruct (wrun s2 b) as [s3 r2]. reflexivity.
  Qed.

  Lemma final_sticky s o s' r : w_final s = true -> wstep s o = (s', r) -> w_final s' = true.
  Proof.
    intros Hf Hs. destruct o; try (rewrite (finalized_refuses FNMAX T_START T_CONTENT T_EOA T_EOF H order s _ Hf) in Hs by discriminate;
                                    injection Hs as <- _; exact Hf).
    cbn [Writer.wstep] in Hs. injection Hs as <- _. exact Hf.
  Qed.
  Lemma final_sticky_run ops : forall s s' rs, w_final s = true -> wrun s ops = (s', rs) -> w_final s' = true.
  Proof.
    induction ops as [|o ops IH]; intros s s' rs Hf; cbn [Writer.wrun].
    - intros [= <- _]. exact Hf.
    - destruct (wstep s o) as [s1 x] eqn:E1. destruct (wrun s1 ops) as [s2 xs] eqn:E2.
      intros [= <- _]. exact (IH _ _ _ (final_sticky _ _ _ _ Hf E1) E2).
  Qed.

  (* one successful call other than finalize *)
  Lemma wstep_inv s bl o s1 v :
    WInv s bl -> op_utf8 o = true -> wstep s o = (s1, Ok v) -> o <> OFinalize ->
    exists bl1, WInv s1 (bl ++ bl1) /\ names_of bl1 = started (w_next s) [o] /\
      w_next s1 = w_next s + len (started (w_next s) [o]) /\
      forall id, concat (datas id bl1) = pieces (w_next s) id [o].
  Proof.
    intros HI Hu Hs Hnf. destruct o as [name|i size src|i|name size src| |]; cbn [Writer.wstep op_utf8] in *.
    - destruct (w_start_inv _ _ _ _ _ _ HHlen _ _ _ _ _ HI Hu Hs) as (-> & Hn & HI1).
      exists [BStart (w_next s) name]. split; [exact HI1|]. cbn [names_of flat_map started app pieces].
      rewrite len_cons, len_nil. split; [reflexivity|]. split; [rewrite Hn; lia|].
      intros id. rewrite datas_single. reflexivity.
    - destruct (w_append_inv _ _ _ _ _ _ HHlen _ _ _ _ _ _ _ HI Hs) as [[-> ->]|(Hsz & Hsrc & Hn & HI1)].
      + exists []. rewrite app_nil_r. split; [exact HI|]. cbn [names_of flat_map started pieces].
        rewrite len_nil, N.add_0_r. repeat split; auto.
        intros id. rewrite takeN_0. destruct (i =? id); reflexivity.
      + exists [BContent i (takeN size src)]. split; [exact HI1|]. cbn [names_of flat_map started app pieces].
        rewrite len_nil, N.add_0_r. repeat split; auto.
        intros id. rewrite datas_single. destruct (i =? id); cbn [concat]; rewrite ?app_nil_r; reflexivity.
    - destruct (w_end_inv _ _ _ _ _ _ HHlen _ _ _ _ _ HI Hs) as (Hn & HI1).
      eexists [_]. split; [exact HI1|]. cbn [names_of flat_map started app pieces].
      rewrite len_nil, N.add_0_r. repeat split; auto.
      intros id. rewrite datas_single. reflexivity.
    - destruct (w_start s name) as [s2 [i|e|c]] eqn:E1; try discriminate.
      destruct (w_start_inv _ _ _ _ _ _ HHlen _ _ _ _ _ HI Hu E1) as (-> & Hn1 & HI1).
      destruct (w_append s2 (w_next s) size src) as [s3 [v3|e|c]] eqn:E2; try discriminate.
      cbn [names_of flat_map started app pieces]. rewrite len_cons, len_nil.
      destruct (w_append_inv _ _ _ _ _ _ HHlen _ _ _ _ _ _ _ HI1 E2) as [[-> ->]|(Hsz & Hsrc & Hn2 & HI2)].
      + destruct (w_end_inv _ _ _ _ _ _ HHlen _ _ _ _ _ HI1 Hs) as (Hn3 & HI3).
        eexists [_; _]. split; [rewrite <- app_assoc in HI3; exact HI3|].
        cbn [names_of flat_map app]. split; [reflexivity|]. split; [lia|].
        intros id. rewrite takeN_0.
        match goal with |- concat (datas id [?a; ?b]) = _ => change [a; b] with ([a] ++ [b]) end.
        rewrite datas_app, !datas_single. destruct (w_next s =? id); reflexivity.
      + destruct (w_end_inv _ _ _ _ _ _ HHlen _ _ _ _ _ HI2 Hs) as (Hn3 & HI3).
        eexists [_; _; _]. split; [rewrite <- !app_assoc in HI3; exact HI3|].
        cbn [names_of flat_map app]. split; [reflexivity|]. split; [lia|].
        intros id.
        match goal with |- concat (datas id [?a; ?b; ?c]) = _ => change [a; b; c] with ([a] ++ [b] ++ [c]) end.
        rewrite !datas_app, !datas_single. destruct (w_next s =? id); cbn [app concat]; rewrite ?app_nil_r; reflexivity.
    - injection Hs as <- _. exists []. rewrite app_nil_r. split; [exact HI|].
      cbn [names_of flat_map started pieces]. rewrite len_nil, N.add_0_r. repeat split; auto.
    - congruence.
  Qed.

  Lemma wrun_inv ops : forall s bl s' rs,
    WInv s bl -> wrun s ops = (s', rs) -> Forall (fun r => is_ok r = true) rs ->
    forallb op_utf8 ops = true -> w_final s' = false ->
    exists bl', WInv s' (bl ++ bl') /\ names_of bl' = started (w_next s) ops /\
      forall id, concat (datas id bl') = pieces (w_next s) id ops.
  Proof.
    induction ops as [|o ops IH]; intros s bl s' rs HI; cbn [Writer.wrun forallb].
    - intros [= <- _] _ _ _. exists []. rewrite app_nil_r. auto.
    - destruct (wstep s o) as [s1 x] eqn:E1. destruct (wrun s1 ops) as [s2 xs] eqn:E2.
      intros [= <- <-] Hok Hu Hfin. apply andb_true_iff in Hu. destruct Hu as [Hu1 Hu2].
      inversion Hok as [|? ? Hx Hxs]; subst. destruct x as [v|e|c]; try discriminate.
      assert (Hnf : o <> OFinalize).
      { intros ->. cbn [Writer.wstep] in E1. unfold Writer.w_finalize_with in E1.
        rewrite (wi_final _ _ _ _ _ _ _ _ HI) in E1. destruct (w_open s); [|discriminate].
        cbv zeta in E1. destruct (lim <? _); [discriminate|]. destruct (2 ^ 32 <=? _); [discriminate|].
        injection E1 as <- _.
        assert (Hst : w_final s2 = true) by (refine (final_sticky_run ops _ _ _ _ E2); reflexivity).
        congruence. }
      destruct (wstep_inv _ _ _ _ _ HI Hu1 E1 Hnf) as (bl1 & HI1 & Hn1 & Hnx & Hd1).
      destruct (IH _ _ _ _ HI1 E2 Hxs Hu2 Hfin) as (bl2 & HI2 & Hn2 & Hd2).
      exists (bl1 ++ bl2). split; [rewrite app_assoc; exact HI2|].
      split.
      + rewrite names_of_app, started_cons, Hn1, Hn2, Hnx. reflexivity.
      + intros id. rewrite datas_app, concat_app, pieces_cons, Hd1, Hd2, Hnx. reflexivity.
  Qed.

  (* the finalized output of ops ++ [finalize], all calls successful *)
  Theorem writer_final ops sf rs :
    wrun w_init (ops ++ [OFinalize]) = (sf, rs) -> Forall (fun r => is_ok r = true) rs ->
    forallb op_utf8 ops = true ->
    exists s bl, WInv s bl /\ w_open s = [] /\
      w_out sf = ser_blocks bl ++ [T_EOA] ++ ser_footer (order (w_footer s)) /\
      w_footer sf = w_footer s /\
      names_of bl = started 0 ops /\ forall id, concat (datas id bl) = pieces 0 id ops.
  Proof.
    intros Hrun Hok Hu. revert Hrun Hok Hu.
    rewrite wrun_app. destruct (wrun w_init ops) as [s r1] eqn:E1. cbn [Writer.wrun Writer.wstep].
    destruct (w_finalize_with order s) as [s2 x] eqn:E2. intros [= <- <-] Hok Hu.
    apply Forall_app in Hok. destruct Hok as [Hok1 Hok2]. inversion Hok2 as [|? ? Hx _]; subst.
    unfold Writer.w_finalize_with in E2.
    destruct (w_final s) eqn:Hf; [injection E2 as <- <-; discriminate|].
    destruct (w_open s) eqn:Ho; [|injection E2 as <- <-; discriminate].
    cbv zeta in E2.
    destruct (lim <? _); [injection E2 as <- <-; discriminate|].
    destruct (2 ^ 32 <=? _); [injection E2 as <- <-; discriminate|].
    injection E2 as <- _.
    destruct (wrun_inv ops _ _ _ _ (winv_init FNMAX T_START T_CONTENT T_EOA T_EOF H) E1 Hok1 Hu Hf) as (bl & HI & Hn & Hd).
    exists s, bl. cbn [app] in HI. split; [exact HI|]. split; [exact Ho|]. cbn [w_out].
    rewrite (wi_out _ _ _ _ _ _ _ _ HI). auto.
  Qed.

  (* ... and a successful finalize means the footer passed the two checks of
     ArchiveFooter::serialize_into: the bincode limit and the u32 length field *)
  Theorem writer_final_limits ops sf rs :
    wrun w_init (ops ++ [OFinalize]) = (sf, rs) -> Forall (fun r => is_ok r = true) rs ->
    len (ser_footer_map (order (w_footer sf))) <= lim /\ len (ser_footer_map (order (w_footer sf))) < 2 ^ 32.
  Proof.
    rewrite wrun_app. destruct (wrun w_init ops) as [s r1] eqn:E1. cbn [Writer.wrun Writer.wstep].
    destruct (w_finalize_with order s) as [s2 x] eqn:E2. intros [= <- <-] Hok.
    apply Forall_app in Hok. destruct Hok as [Hok1 Hok2]. inversion Hok2 as [|? ? Hx _]; subst.
    unfold Writer.w_finalize_with in E2.
    destruct (w_final s) eqn:Hf; [injection E2 as <- <-; discriminate|].
    destruct (w_open s) eqn:Ho; [|injection E2 as <- <-; discriminate].
    cbv zeta in E2.
    destruct (N.ltb_spec lim (len (ser_footer_map (order (w_footer s))))) as [?|Hl]; [injection E2 as <- <-; discriminate|].
    destruct (N.leb_spec (2 ^ 32) (len (ser_footer_map (order (w_footer s))))) as [?|H32]; [injection E2 as <- <-; discriminate|].
    injection E2 as <- _. unfold w_footer in *. cbn [w_files w_ids]. split; assumption.
  Qed.
End RTRun.
