(* TotalRun.v — C08, part 6: "usable after error".  Any history of operations (list, hash,
   open + reads with any buffer sizes, read to end, linear extraction — Run.v `hist_op`), in
   any order and whatever failed before, on a reader opened over ANY byte string: no row of
   the run is a Crash row.  Proved once for any tame stream, then instantiated with the cursor
   (hist_plain) and with the encryption layer over a cursor (hist_enc, TotalEnc.v). *)
From MLA Require Import Limit.
From MLA Require Import Base Stream Blocks Reader EncLayer Inst Run Total TotalFooter TotalReader TotalEnc.
From Coq Require Import ZifyBool ZifyNat ZifyN.
Open Scope N_scope.

(* rows whose first element is the status class 2 = Crash *)
Definition crash_row (r : list N) : Prop := hd 0 r = 2.
Definition no_crash_rows (rows : list (list N)) : Prop := Forall (fun r => ~ crash_row r) rows.

Lemma ncr_nil : no_crash_rows []. Proof. constructor. Qed.
Lemma ncr_cons r rows : hd 0 r <> 2 -> no_crash_rows rows -> no_crash_rows (r :: rows).
Proof. intros H1 H2. constructor; assumption. Qed.
Lemma ncr_app a b : no_crash_rows a -> no_crash_rows b -> no_crash_rows (a ++ b).
Proof. intros H1 H2. apply Forall_app; split; assumption. Qed.
Lemma ncr_map {A} (f : A -> list N) l : (forall x, hd 0 (f x) <> 2) -> no_crash_rows (map f l).
Proof. intros H. induction l as [|x l IH]; cbn [map]; [constructor|]. apply ncr_cons; [apply H|exact IH]. Qed.

Lemma err_row_total {A} (x : res A) : total x -> hd 0 (err_row x) <> 2.
Proof. destruct x as [a|e|c]; cbn; [lia|lia|tauto]. Qed.

Section RunTotal.
  Context {LIM : Limit}.
  Variable k : consts.
  Variable S : Stream.
  Variable I : st S -> Prop.
  Variable pos : st S -> N.
  Variable M : N.
  Hypothesis HT : Tame S I pos M.

  Notation TS := Src.BT_FileStart. Notation TC := Src.BT_FileContent.
  Notation TA := Src.BT_EndOfArchiveData. Notation TE := Src.BT_EndOfFile.

  Lemma do_reads_safe zf fuel : (N.to_nat M < zf)%nat ->
    forall b sizes to_end, I (b_src b) -> b_offs b <> [] ->
    let '(b', rows) := do_reads k S zf fuel b sizes to_end in
    I (b_src b') /\ no_crash_rows rows.
  Proof.
    intros Hzf. induction fuel as [|fuel IH]; intros b sizes to_end Hb Hne; cbn [do_reads].
    - split; [exact Hb|]. apply ncr_cons; [cbn; lia|apply ncr_nil].
    - destruct sizes as [|n rest]; [split; [exact Hb|apply ncr_nil]|].
      pose proof (bread_tame (cFNMAX k) TS TC TA TE S I pos M HT zf b n Hb Hne Hzf) as H.
      unfold bread_post in H.
      destruct (bread (cFNMAX k) TS TC TA TE S zf b n) as [b1 [d|e|c]];
        destruct H as (Hb1 & Ho & _ & Ht & _).
      + match goal with |- context [if ?c then _ else _] => destruct c end.
        * specialize (IH b1 (match rest with [] => [n] | _ :: _ => rest end) to_end Hb1 ltac:(congruence)).
          destruct (do_reads k S zf fuel b1 (match rest with [] => [n] | _ :: _ => rest end) to_end) as [b2 rows].
          destruct IH as [Hb2 Hr]. split; [exact Hb2|]. apply ncr_cons; [cbn; lia|exact Hr].
        * split; [exact Hb1|]. apply ncr_cons; [cbn; lia|apply ncr_nil].
      + split; [exact Hb1|]. apply ncr_cons; [cbn; lia|apply ncr_nil].
      + contradiction.
  Qed.

  (* case analysis of hist_op without unfolding its pattern matching at every use *)
  Lemma hist_op_cases (P : rstate S * list (list N) -> Prop) fuel names r :
    let name_at i := nth (N.to_nat i) names [] in
    P (r, map (fun n => 5 :: n) (sort_names (list_files S r))) ->
    (forall i, P (match get_hash (cFNMAX k) TS TC TA TE S r (name_at i) with
                  | (r1, Ok (Some h)) => (r1, [0 :: h])
                  | (r1, Ok None) => (r1, [[4]])
                  | (r1, x) => (r1, [err_row x])
                  end)) ->
    (forall i sizes to_end, P (match get_file (cFNMAX k) TS TC TA TE S r (name_at i) with
                  | (r1, Ok (Some (b, size))) =>
                    let '(b1, rows) := do_reads k S fuel fuel b sizes to_end in
                    (mkR (b_src b1) (r_meta r1), [7; size] :: rows)
                  | (r1, Ok None) => (r1, [[4]])
                  | (r1, x) => (r1, [err_row x])
                  end)) ->
    (forall chosen, P (match linear_extract (cFNMAX k) TS TC TA TE S fuel r (map name_at chosen) with
                  | Ok ps => (r, [0] :: map (fun n => 6 :: pieces_for n ps) (map name_at chosen))
                  | x => (r, [err_row x])
                  end)) ->
    P (r, [[9; 9]]) ->
    forall op, P (hist_op k S fuel names r op).
  Proof.
    intros name_at H0 H1 H2 H4 H9 op. subst name_at. cbv beta in *. unfold hist_op.
    repeat (match goal with
            | |- context [match ?x with _ => _ end] => is_var x; destruct x
            end); first [exact H0 | exact H9 | apply H1 | apply H2 | apply H4].
  Qed.

  Lemma hist_op_safe fuel names r op : I (r_src r) -> (N.to_nat M < fuel)%nat ->
    let '(r1, rows) := hist_op k S fuel names r op in
    I (r_src r1) /\ no_crash_rows rows.
  Proof.
    intros Hr Hf. apply hist_op_cases; cbv beta iota.
    - split; [exact Hr|]. apply ncr_map. intros x; cbn; lia.
    - intros i.
      match goal with |- context [match ?t with (_, _) => _ end] =>
        assert (H : let '(r', x) := t in I (r_src r') /\ r_meta r' = r_meta r /\ total x)
          by (apply (get_hash_tame _ _ _ _ _ S I pos M HT); exact Hr);
        destruct t as [r1 x] end.
      destruct H as (Hr1 & _ & Ht).
      destruct x as [[h|]|e|c]; cbv beta iota; try (exfalso; exact Ht);
        (split; [exact Hr1|]); apply ncr_cons; try apply ncr_nil; cbn; lia.
    - intros i sizes to_end.
      match goal with |- context [match ?t with (_, _) => _ end] =>
        assert (H : let '(r', x) := t in I (r_src r') /\ r_meta r' = r_meta r /\ total x /\
                    (forall b size, x = Ok (Some (b, size)) -> I (b_src b) /\ b_src b = r_src r' /\ b_offs b <> []))
          by (apply (get_file_tame _ _ _ _ _ S I pos M HT); exact Hr);
        destruct t as [r1 x] end.
      destruct H as (Hr1 & _ & Ht & Hb).
      destruct x as [[[b size]|]|e|c]; cbv beta iota.
      + destruct (Hb b size eq_refl) as (Hb1 & _ & Hne).
        match goal with |- context [match ?t with (_, _) => _ end] =>
          assert (Hd : let '(b', rows) := t in I (b_src b') /\ no_crash_rows rows)
            by (apply do_reads_safe; assumption);
          destruct t as [b1 rows] end.
        destruct Hd as [Hb2 Hrows].
        cbv beta iota. cbn [r_src]. split; [exact Hb2|]. apply ncr_cons; [cbn; lia|exact Hrows].
      + split; [exact Hr1|]. apply ncr_cons; [cbn; lia|apply ncr_nil].
      + split; [exact Hr1|]. apply ncr_cons; [cbn; lia|apply ncr_nil].
      + exfalso; exact Ht.
    - intros chosen.
      match goal with |- context [match ?t with Ok _ => _ | _ => _ end] =>
        assert (H : total t) by (apply (linear_extract_tame _ _ _ _ _ S I pos M HT); [exact Hr|exact Hf]);
        destruct t as [ps|e|c] end; cbv beta iota.
      + split; [exact Hr|]. apply ncr_cons; [cbn; lia|]. apply ncr_map. intros x; cbn; lia.
      + split; [exact Hr|]. apply ncr_cons; [cbn; lia|apply ncr_nil].
      + exfalso; exact H.
    - split; [exact Hr|]. apply ncr_cons; [cbn; lia|apply ncr_nil].
  Qed.

  Lemma hist_ops_safe fuel names : forall ops r, I (r_src r) -> (N.to_nat M < fuel)%nat ->
    no_crash_rows (hist_ops k S fuel names r ops).
  Proof.
    induction ops as [|op rest IH]; intros r Hr Hf; cbn [hist_ops]; [apply ncr_nil|].
    pose proof (hist_op_safe fuel names r op Hr Hf) as H.
    destruct (hist_op k S fuel names r op) as [r1 rows]. destruct H as [Hr1 Hrows].
    apply ncr_app; [exact Hrows|]. apply ncr_cons; [cbn; lia|]. apply IH; assumption.
  Qed.

  (* C08 item 6: open, then any history: no Crash row, whatever the bytes and the history *)
  Theorem hist_run_no_crash fuel s0 names ops : I s0 -> (N.to_nat M < fuel)%nat ->
    no_crash_rows (hist_run k S fuel s0 names ops).
  Proof.
    intros Hs Hf. unfold hist_run.
    (* Run.hist_run opens with the production limit (Run.RUN_LIMIT) *)
    pose proof (ropen_tame (LIM := RUN_LIMIT) S I pos M HT s0 Hs) as H.
    destruct (ropen (LIM := RUN_LIMIT) S s0) as [r|e|c].
    - apply ncr_cons; [cbn; lia|]. apply hist_ops_safe; [exact (proj1 H)|exact Hf].
    - apply ncr_cons; [cbn; lia|apply ncr_nil].
    - contradiction.
  Qed.
End RunTotal.

(* layer-less archives: ANY body, any names, any history *)
Theorem hist_plain_no_crash (k : consts) (body : bytes) names ops :
  no_crash_rows (hist_plain k body names ops).
Proof.
  unfold hist_plain.
  apply (hist_run_no_crash k (Cursor body) (fun _ => True) (fun s => s) (len body) (cursor_tame body));
    [exact Logic.I|lia].
Qed.

(* encrypted archives: ANY key, nonce and body with fewer than 2^32 chunks, any history *)
Theorem hist_enc_no_crash (k : consts) (key nonce8 body : bytes) names ops :
  0 < cCHUNK k -> len body < 2 ^ 32 * cCHUNK k -> cCHUNK k <= 2 ^ 31 ->
  no_crash_rows (hist_enc k key nonce8 body names ops).
Proof.
  intros HC HM HC31. unfold hist_enc. cbv zeta.
  match goal with |- context [enc_open ?ch ?tg ?ks ?tagc (Cursor body) 0] =>
    pose proof (enc_open_tame ch tg ks tagc (Cursor body) (fun _ => True) (fun s => s) (len body)
                  (cursor_tame_inner body) HC HM 0 Logic.I) as H;
    pose proof (enc_reader_tame ch tg ks tagc (Cursor body) (fun _ => True) (fun s => s) (len body)
                  (cursor_tame_inner body) HC HM HC31) as HT;
    destruct (enc_open ch tg ks tagc (Cursor body) 0) as [s [q|e|c]]
  end.
  - eapply hist_run_no_crash; [exact HT|exact H|lia].
  - apply ncr_cons; [cbn; lia|apply ncr_nil].
  - contradiction.
Qed.

(* the fail-safe encryption reader (both modes) as a stream is tame: the block parser and
   every read of repair over it are total *)
Theorem fsenc_tame (CH TG : N) ks tagc (unauth : bool) (w : bytes) :
  0 < CH -> len w < 2 ^ 32 * CH ->
  Tame (FsEnc CH TG ks tagc unauth (Cursor w))
       (Ienc CH (Cursor w) (fun _ => True) (fun s => s) (len w))
       (pos_enc CH (Cursor w)) (len w).
Proof.
  intros HC HM. constructor.
  - intros s n Hs. cbn [FsEnc rd st].
    exact (fs_read_tame CH TG ks tagc (Cursor w) (fun _ => True) (fun s => s) (len w)
             (cursor_tame_inner w) HC HM unauth s n Hs).
  - intros s wh Hs. cbn [FsEnc sk st]. split; [exact Hs|discriminate].
Qed.
