(* TotalRepair.v — C08, part 7: repair (convert_to_archive, Repair.v) over ANY tame source.
   From any state of the invariant, with fuel > the bytes that can still be delivered
   (remaining <= M), and 0 < CACHE:
   - buf_fill / content_loop / block_loop never run out of fuel (each continuing iteration
     consumes at least one byte), no read error is the model's EFuel, the writer calls return
     Ok or WrongWriterState only (append_file_content's short-source error cannot occur: the
     buffer handed over has exactly the announced length);
   - the two expect() sites (Crash 1431 in the FileContent arm, Crash 1556 in the clean-up)
     are unreachable: every id of rp_ids has a name, and a hash entry until it is in rp_done;
   - the per-file tables hold at most one entry per FileStart (17 bytes at least) / EndOfFile
     (41 bytes) block parsed, the names at most the bytes of the FileStart blocks: everything
     is bounded by the bytes delivered, hence by M; the cache buffer by CACHE.
   rp_hash stands for the Sha256 states (constant size each): the model keeps the bytes
   absorbed so far as a modelling device; only the NUMBER of its entries is part of the
   footprint claim. *)
From MLA Require Import Limit.
From MLA Require Import Base Stream Blocks Writer Repair Total.
From Coq Require Import ZifyBool ZifyNat ZifyN.
Open Scope N_scope.

(* ---------- association lists of Repair.v ---------- *)

Definition HasKey {A} (l : list (N * A)) (k : N) : Prop := exists v, assoc l k = Some v.
Definition nbytes (l : list (N * bytes)) : N := fold_right (fun e a => len (snd e) + a) 0 l.

Section Assoc.
  Context {LIM : Limit}.
  Context {A : Type}.
  Implicit Types l : list (N * A).

  Lemma assoc_cons k0 (v0 : A) r k : assoc ((k0, v0) :: r) k = if k0 =? k then Some v0 else assoc r k.
  Proof. reflexivity. Qed.

  Lemma assoc_existsb l k :
    existsb (fun e => fst e =? k) l = match assoc l k with Some _ => true | None => false end.
  Proof.
    induction l as [|[k0 v0] r IH]; [reflexivity|].
    rewrite assoc_cons. cbn [existsb fst]. destruct (k0 =? k); [reflexivity|exact IH].
  Qed.

  Lemma assoc_app1 l k (v : A) k' :
    assoc (l ++ [(k, v)]) k' =
    match assoc l k' with Some x => Some x | None => if k =? k' then Some v else None end.
  Proof.
    induction l as [|[k0 v0] r IH]; cbn [app]; rewrite ?assoc_cons; [reflexivity|].
    destruct (k0 =? k'); [reflexivity|exact IH].
  Qed.

  Lemma assoc_map_set l k (v : A) k' :
    assoc (map (fun e => if fst e =? k then (k, v) else e) l) k' =
    match assoc l k' with Some x => Some (if k' =? k then v else x) | None => None end.
  Proof.
    induction l as [|[k0 v0] r IH]; [reflexivity|].
    cbn [map fst]. destruct (N.eqb_spec k0 k) as [->|Hk]; rewrite !assoc_cons.
    - destruct (N.eqb_spec k k') as [->|Hk']; [rewrite N.eqb_refl; reflexivity|exact IH].
    - destruct (N.eqb_spec k0 k') as [->|Hk'].
      + destruct (N.eqb_spec k' k); [congruence|reflexivity].
      + exact IH.
  Qed.

  Lemma HasKey_set_same l k (v : A) : HasKey (assoc_set l k v) k.
  Proof.
    unfold HasKey, assoc_set. rewrite assoc_existsb.
    destruct (assoc l k) as [x|] eqn:E.
    - rewrite assoc_map_set, E. eexists; reflexivity.
    - rewrite assoc_app1, E, N.eqb_refl. eexists; reflexivity.
  Qed.

  Lemma HasKey_set_mono l k (v : A) k' : HasKey l k' -> HasKey (assoc_set l k v) k'.
  Proof.
    intros [x Hx]. unfold HasKey, assoc_set.
    destruct (existsb _ l).
    - rewrite assoc_map_set, Hx. eexists; reflexivity.
    - rewrite assoc_app1, Hx. eexists; reflexivity.
  Qed.

  Lemma HasKey_app1_inv l k (v : A) k' : HasKey (l ++ [(k, v)]) k' -> HasKey l k' \/ k' = k.
  Proof.
    intros [x Hx]. rewrite assoc_app1 in Hx. destruct (assoc l k') as [y|] eqn:E.
    - left. exists y. exact E.
    - right. destruct (N.eqb_spec k k'); congruence.
  Qed.

  Lemma HasKey_del_other l k k' : k' <> k -> HasKey l k' -> HasKey (assoc_del l k) k'.
  Proof.
    intros Hne [x Hx]. unfold HasKey, assoc_del.
    induction l as [|[k0 v0] r IH]; [discriminate|].
    rewrite assoc_cons in Hx. cbn [filter fst].
    destruct (N.eqb_spec k0 k') as [->|Hk].
    - destruct (N.eqb_spec k' k); [congruence|]. cbn [negb]. rewrite assoc_cons, N.eqb_refl. eexists; reflexivity.
    - destruct (negb (k0 =? k)); [rewrite assoc_cons; destruct (N.eqb_spec k0 k'); [congruence|]|]; apply IH; exact Hx.
  Qed.

  Lemma In_HasKey l k (v : A) : In (k, v) l -> HasKey l k.
  Proof.
    induction l as [|[k0 v0] r IH]; intros Hin; [contradiction|].
    unfold HasKey. rewrite assoc_cons. destruct (N.eqb_spec k0 k) as [->|Hk]; [eexists; reflexivity|].
    destruct Hin as [E|Hin]; [congruence|]. apply IH; exact Hin.
  Qed.

  Lemma len_assoc_set l k (v : A) : len (assoc_set l k v) <= len l + 1.
  Proof.
    unfold assoc_set. destruct (existsb _ l).
    - unfold len. rewrite map_length. lia.
    - rewrite len_app. change (len [(k, v)]) with 1. lia.
  Qed.

  Lemma len_assoc_del l k : len (assoc_del l k) <= len l.
  Proof.
    unfold assoc_del. induction l as [|e r IH]; [cbn; lia|].
    cbn [filter]. destruct (negb (fst e =? k)); rewrite ?len_cons; lia.
  Qed.

  Lemma keys_assoc_set l k (v : A) :
    map fst (assoc_set l k v) = if existsb (fun e => fst e =? k) l then map fst l else map fst l ++ [k].
  Proof.
    unfold assoc_set. destruct (existsb _ l).
    - rewrite map_map. apply map_ext. intros [k0 v0]. cbn [fst].
      destruct (N.eqb_spec k0 k) as [->|]; reflexivity.
    - rewrite map_app. reflexivity.
  Qed.

  Lemma assoc_None_notin l k : assoc l k = None -> ~ In k (map fst l).
  Proof.
    induction l as [|[k0 v0] r IH]; intros E; [intros []|].
    rewrite assoc_cons in E. destruct (N.eqb_spec k0 k) as [->|Hk]; [discriminate|].
    cbn [map fst]. intros [E2|Hin]; [congruence|]. exact (IH E Hin).
  Qed.

  Lemma NoDup_keys_set l k (v : A) : NoDup (map fst l) -> NoDup (map fst (assoc_set l k v)).
  Proof.
    intros Hnd. rewrite keys_assoc_set, assoc_existsb.
    destruct (assoc l k) as [x|] eqn:E; [exact Hnd|].
    apply NoDup_rev in Hnd. rewrite <- (rev_involutive (map fst l ++ [k])).
    apply NoDup_rev. rewrite rev_app_distr. cbn [rev app].
    constructor; [|exact Hnd]. rewrite <- in_rev. apply assoc_None_notin; exact E.
  Qed.
End Assoc.

Lemma nbytes_cons e r : nbytes (e :: r) = len (snd e) + nbytes r.
Proof. reflexivity. Qed.
Lemma nbytes_app l1 l2 : nbytes (l1 ++ l2) = nbytes l1 + nbytes l2.
Proof. induction l1 as [|e r IH]; cbn [app]; rewrite ?nbytes_cons; [reflexivity|]. rewrite IH. lia. Qed.

Lemma nbytes_map_set l k v : NoDup (map fst l) ->
  nbytes (map (fun e => if fst e =? k then (k, v) else e) l) <= nbytes l + len v.
Proof.
  induction l as [|[k0 v0] r IH]; intros Hnd; [cbn; lia|].
  cbn [map fst] in *. inversion Hnd as [|? ? Hnotin Hnd']; subst.
  rewrite !nbytes_cons.
  destruct (N.eqb_spec k0 k) as [->|Hk]; cbn [snd].
  - (* the tail has no entry with this key: it is unchanged *)
    assert (Hid : map (fun e : N * bytes => if fst e =? k then (k, v) else e) r = r).
    { clear IH Hnd Hnd'. induction r as [|[k1 v1] r IHr]; [reflexivity|].
      cbn [map fst] in *. destruct (N.eqb_spec k1 k) as [->|]; [exfalso; apply Hnotin; left; reflexivity|].
      f_equal. apply IHr. intros Hin; apply Hnotin; right; exact Hin. }
    rewrite Hid. lia.
  - specialize (IH Hnd'). lia.
Qed.

Lemma nbytes_assoc_set l k v : NoDup (map fst l) -> nbytes (assoc_set l k v) <= nbytes l + len v.
Proof.
  intros Hnd. unfold assoc_set. destruct (existsb _ l).
  - apply nbytes_map_set; exact Hnd.
  - rewrite nbytes_app, nbytes_cons. cbn [snd nbytes fold_right]. lia.
Qed.

Lemma mem_app1 l x k : mem (l ++ [x]) k = mem l k || (k =? x).
Proof. unfold mem. rewrite existsb_app. cbn [existsb]. rewrite orb_false_r. reflexivity. Qed.

(* ---------- the writer calls of repair: Ok or WrongWriterState (and the documented
   start_file errors); no Crash arm, no short source ---------- *)
Section WriterCalls.
  Context {LIM : Limit}.
  Variable FNMAX : N.
  Variables T_START T_CONTENT T_EOA T_EOF : N.
  Variable H : bytes -> bytes.

  (* start_file with a name the block parser accepted: FilenameTooLong cannot occur *)
  Lemma w_start_cases s name : len name <= FNMAX ->
    match w_start FNMAX T_START T_CONTENT T_EOA T_EOF s name with
    | (_, Ok _) => True
    | (_, Err e) => e = EState \/ e = EDup
    | (_, Crash _) => False
    end.
  Proof using Type.
    clear H. intros Hn. unfold w_start. destruct (w_final s); [auto|].
    destruct (N.ltb_spec FNMAX (len name)); [lia|]. destruct (name_used (w_files s) name); auto.
  Qed.

  (* append_file_content(id, buf.len(), &buf[..]) *)
  Lemma w_append_exact s id buf :
    match w_append T_CONTENT s id (len buf) buf with
    | (_, Ok _) => True
    | (_, Err e) => e = EState
    | (_, Crash _) => False
    end.
  Proof.
    unfold w_append. destruct (w_final s); [reflexivity|].
    destruct (alookup (w_open s) id); [|reflexivity].
    destruct (len buf =? 0); [exact Logic.I|].
    rewrite N.ltb_irrefl. exact Logic.I.
  Qed.

  Lemma w_end_cases s id :
    match w_end T_START T_CONTENT T_EOA T_EOF H s id with
    | (_, Ok _) => True
    | (_, Err e) => e = EState
    | (_, Crash _) => False
    end.
  Proof.
    unfold w_end. destruct (w_final s); [reflexivity|].
    destruct (alookup (w_open s) id); [exact Logic.I|reflexivity].
  Qed.

  Lemma w_finalize_cases order s :
    match w_finalize_with T_START T_CONTENT T_EOA T_EOF order s with
    | (_, Ok _) => True
    | (_, Err e) => e = EState \/ e = EDeser     (* EDeser: SerializationError, bincode limit / u32 length *)
    | (_, Crash _) => False
    end.
  Proof.
    unfold w_finalize_with. destruct (w_final s); [left; reflexivity|].
    destruct (w_open s); [|left; reflexivity]. cbv zeta.
    destruct (lim <? _); [right; reflexivity|]. destruct (2 ^ 32 <=? _); [right; reflexivity|exact Logic.I].
  Qed.
End WriterCalls.

(* ---------- repair over a tame source ---------- *)
#[local] Arguments rp_src {S} _.
#[local] Arguments rp_out {S} _.
#[local] Arguments rp_ids {S} _.
#[local] Arguments rp_names {S} _.
#[local] Arguments rp_done {S} _.
#[local] Arguments rp_hash {S} _.
Section RepairTotal.
  Context {LIM : Limit}.
  Variable FNMAX CACHE : N.
  Variables T_START T_CONTENT T_EOA T_EOF : N.
  Variable H : bytes -> bytes.
  Variable S : Stream.
  Variable I : st S -> Prop.
  Variable pos : st S -> N.
  Variable M : N.
  Hypothesis HT : Tame S I pos M.
  Hypothesis HCACHE : 0 < CACHE.

  Notation rem := (remaining S pos M).
  Notation parse_block := (parse_block FNMAX T_START T_CONTENT T_EOA T_EOF S).
  Notation buf_fill := (buf_fill CACHE S).
  Notation content_loop := (content_loop CACHE T_CONTENT S).
  Notation block_loop := (block_loop FNMAX CACHE T_START T_CONTENT T_EOA T_EOF H S).
  Notation cleanup := (cleanup T_START T_CONTENT T_EOA T_EOF H S).
  Notation repair := (repair FNMAX CACHE T_START T_CONTENT T_EOA T_EOF H S).

  (* size of a parsed block on the stream *)
  Definition psize (pb : pblock) : N :=
    match pb with PStart _ name => 17 + len name | PContent _ _ => 17 | PEof _ _ => 41 | PEnd => 1 end.

  (* parse_block_tame with the exact number of bytes consumed *)
  Lemma parse_block_pos s : I s ->
    match parse_block s with
    | (s', Ok pb) => I s' /\ pos s' = pos s + psize pb /\ pos s' <= M /\
                     match pb with PStart _ name => len name <= FNMAX | _ => True end
    | (s', Err e) => I s' /\ e <> EFuel
    | (_, Crash _) => False
    end.
  Proof.
    intros Hs. unfold Blocks.parse_block.
    pose proof (rexact_tame S I pos M HT s 1 Hs) as H1.
    destruct (rexact S s 1) as [s1 [d|e|c]]; try exact H1.
    destruct H1 as (Hs1 & Hl & Hp1 & HM1). specialize (HM1 ltac:(lia)).
    destruct d as [|t [|t2 d]];
      [ rewrite len_nil in Hl; lia | | rewrite !len_cons in Hl; lia ].
    destruct (t =? T_START).
    { pose proof (read_u64_tame S I pos M HT s1 Hs1) as H2.
      destruct (read_u64 S s1) as [s2 [id|e|c]]; try exact H2.
      destruct H2 as (Hs2 & Hp2 & HM2).
      pose proof (read_u64_tame S I pos M HT s2 Hs2) as H3.
      destruct (read_u64 S s2) as [s3 [l|e|c]]; try exact H3.
      destruct H3 as (Hs3 & Hp3 & HM3).
      destruct (N.ltb_spec FNMAX l) as [Hbig|Hsmall]; [split; [exact Hs3|discriminate]|].
      pose proof (rexact_tame S I pos M HT s3 l Hs3) as H4.
      destruct (rexact S s3 l) as [s4 [name|e|c]]; try exact H4.
      destruct H4 as (Hs4 & Hl4 & Hp4 & HM4).
      destruct (utf8_valid name); [|split; [exact Hs4|discriminate]].
      split; [exact Hs4|]. cbn [psize]. split; [lia|]. split; [|lia].
      destruct (N.eq_dec l 0) as [->|Hl0]; [lia | apply HM4; exact Hl0]. }
    destruct (t =? T_CONTENT).
    { pose proof (read_u64_tame S I pos M HT s1 Hs1) as H2.
      destruct (read_u64 S s1) as [s2 [id|e|c]]; try exact H2.
      destruct H2 as (Hs2 & Hp2 & HM2).
      pose proof (read_u64_tame S I pos M HT s2 Hs2) as H3.
      destruct (read_u64 S s2) as [s3 [l|e|c]]; try exact H3.
      destruct H3 as (Hs3 & Hp3 & HM3). cbn [psize]. repeat split; auto; lia. }
    destruct (t =? T_EOF).
    { pose proof (read_u64_tame S I pos M HT s1 Hs1) as H2.
      destruct (read_u64 S s1) as [s2 [id|e|c]]; try exact H2.
      destruct H2 as (Hs2 & Hp2 & HM2).
      pose proof (rexact_tame S I pos M HT s2 32 Hs2) as H3.
      destruct (rexact S s2 32) as [s3 [h|e|c]]; try exact H3.
      destruct H3 as (Hs3 & Hl3 & Hp3 & HM3). cbn [psize]. repeat split; auto; lia. }
    destruct (t =? T_EOA).
    { cbn [psize]. repeat split; auto; lia. }
    split; [exact Hs1|discriminate].
  Qed.

  (* 'buf_fill: no out-of-fuel, no EFuel error, the cache never exceeds CACHE, the position
     advances by what was buffered *)
  Lemma buf_fill_tame fuel : forall s r acc, I s -> (N.to_nat (rem s) < fuel)%nat ->
    match buf_fill fuel s r acc with
    | (s', r', buf, e) =>
      I s' /\ (len acc <= CACHE -> len buf <= CACHE) /\
      (exists d, buf = acc ++ d /\
         (e = None -> pos s' = pos s + len d /\ (len d <> 0 -> pos s' <= M))) /\
      match e with None => True | Some x => x <> EFuel end
    end.
  Proof using HT.
    clear H HCACHE. induction fuel as [|fuel IH]; intros s r acc Hs Hf; [lia|].
    cbn [Repair.buf_fill].
    destruct (N.eqb_spec (N.min r (CACHE - len acc)) 0) as [Hw|Hw].
    { split; [exact Hs|]. split; [auto|]. split; [|exact Logic.I].
      exists []. rewrite app_nil_r, len_nil. split; [reflexivity|]. intros _. split; lia. }
    pose proof (tame_rd S I pos M HT s (N.min r (CACHE - len acc)) Hs) as Hrd.
    destruct (rd S s (N.min r (CACHE - len acc))) as [s1 [d|e|c]]; [| |contradiction].
    - destruct Hrd as (Hs1 & Hle & Hpos & HMx).
      destruct (N.eqb_spec (len d) 0) as [Hz|Hz].
      { split; [exact Hs1|]. split; [auto|]. split; [|exact Logic.I].
        exists []. rewrite app_nil_r, len_nil. split; [reflexivity|]. intros _. split; lia. }
      specialize (HMx Hz).
      destruct (N.leb_spec CACHE (len (acc ++ d))) as [Hfull|Hnot].
      { split; [exact Hs1|]. split; [rewrite len_app; lia|]. split; [|exact Logic.I].
        exists d. split; [reflexivity|]. intros _. split; [exact Hpos|auto]. }
      specialize (IH s1 (r - len d) (acc ++ d) Hs1).
      assert (Hf1 : (N.to_nat (rem s1) < fuel)%nat) by (unfold remaining in *; lia).
      specialize (IH Hf1).
      destruct (Repair.buf_fill CACHE S fuel s1 (r - len d) (acc ++ d)) as [[[s2 r2] buf] e2].
      destruct IH as (Hs2 & Hlen & (d2 & -> & Hp2) & He2).
      split; [exact Hs2|]. split; [intros; apply Hlen; rewrite len_app; lia|]. split; [|exact He2].
      exists (d ++ d2). rewrite app_assoc. split; [reflexivity|].
      intros E. destruct (Hp2 E) as [Hq1 Hq2]. rewrite len_app. split; [lia|]. intros _.
      destruct (N.eq_dec (len d2) 0) as [Hz2|Hz2]; [lia|auto].
    - destruct Hrd as [Hs1 He]. split; [exact Hs1|]. split; [auto|]. split; [|exact He].
      exists []. rewrite app_nil_r. split; [reflexivity|]. discriminate.
  Qed.

  (* 'content: no out-of-fuel; read error <> EFuel; writer error is WrongWriterState *)
  Lemma content_loop_tame fuel : forall s out id r got, I s -> (N.to_nat (rem s) < fuel)%nat ->
    match content_loop fuel s out id r got with
    | (s', out', got', rerr, werr) =>
      I s' /\
      (rerr = None -> werr = None -> pos s <= pos s' /\ (pos s' <= M \/ pos s' = pos s)) /\
      match rerr with None => True | Some x => x <> EFuel end /\
      match werr with None => True | Some x => x = EState end
    end.
  Proof using HT HCACHE.
    clear H. induction fuel as [|fuel IH]; intros s out id r got Hs Hf; [lia|].
    cbn [Repair.content_loop].
    pose proof (buf_fill_tame (Datatypes.S fuel) s r [] Hs Hf) as Hb.
    destruct (Repair.buf_fill CACHE S (Datatypes.S fuel) s r []) as [[[s1 r1] buf] rerr].
    destruct Hb as (Hs1 & Hlen & (d & Hd & Hp) & He). cbn [app] in Hd. subst d.
    pose proof (w_append_exact T_CONTENT out id buf) as Hw.
    destruct (w_append T_CONTENT out id (len buf) buf) as [out1 [x|e|c]]; [| |contradiction].
    - destruct rerr as [e|].
      + split; [exact Hs1|]. split; [discriminate|]. split; [exact He|exact Logic.I].
      + destruct (Hp eq_refl) as [Hq1 Hq2].
        destruct (N.ltb_spec (len buf) CACHE) as [Hlt|Hge].
        * split; [exact Hs1|]. split; [|split; exact Logic.I]. intros _ _.
          destruct (N.eq_dec (len buf) 0); [lia|]. split; [lia|]. left; auto.
        * assert (Hne : len buf <> 0) by lia. specialize (Hq2 Hne).
          assert (Hf1 : (N.to_nat (rem s1) < fuel)%nat) by (unfold remaining in *; lia).
          specialize (IH s1 out1 id r1 (got ++ buf) Hs1 Hf1).
          destruct (Repair.content_loop CACHE T_CONTENT S fuel s1 out1 id r1 (got ++ buf))
            as [[[[s2 out2] got2] rerr2] werr2].
          destruct IH as (Hs2 & Hpp & Hr2 & Hw2).
          split; [exact Hs2|]. split; [|split; assumption].
          intros E1 E2. destruct (Hpp E1 E2) as [Ha Hb]. split; [lia|]. left. lia.
    - subst e. split; [exact Hs1|]. split; [discriminate|]. split; [exact Logic.I|reflexivity].
  Qed.

  (* more fuel does not change a run that did not run out of it *)
  Lemma buf_fill_mono fuel : forall fuel' s r acc, (fuel <= fuel')%nat ->
    snd (buf_fill fuel s r acc) <> Some EFuel -> buf_fill fuel' s r acc = buf_fill fuel s r acc.
  Proof.
    induction fuel as [|fuel IH]; intros fuel' s r acc Hle Hne.
    - exfalso. apply Hne. reflexivity.
    - destruct fuel' as [|fuel']; [lia|]. cbn [Repair.buf_fill] in *.
      destruct (N.min r (CACHE - len acc) =? 0); [reflexivity|].
      destruct (rd S s (N.min r (CACHE - len acc))) as [s1 [d|e|c]]; try reflexivity.
      destruct (len d =? 0); [reflexivity|].
      destruct (CACHE <=? len (acc ++ d)); [reflexivity|].
      apply IH; [lia|exact Hne].
  Qed.

  Lemma buf_fill_stable fuel fuel' s r acc : I s -> (N.to_nat (rem s) < fuel)%nat -> (fuel <= fuel')%nat ->
    buf_fill fuel' s r acc = buf_fill fuel s r acc.
  Proof.
    intros Hs Hf Hle. apply buf_fill_mono; [exact Hle|].
    pose proof (buf_fill_tame fuel s r acc Hs Hf) as Hb.
    destruct (Repair.buf_fill CACHE S fuel s r acc) as [[[s' r'] buf] e]. cbn [snd].
    destruct Hb as (_ & _ & _ & He). destruct e as [x|]; [|discriminate].
    intros E. injection E as ->. apply He; reflexivity.
  Qed.

  Lemma content_loop_stable fuel : forall fuel' s out id r got,
    I s -> (N.to_nat (rem s) < fuel)%nat -> (fuel <= fuel')%nat ->
    content_loop fuel' s out id r got = content_loop fuel s out id r got.
  Proof.
    induction fuel as [|fuel IH]; intros fuel' s out id r got Hs Hf Hle; [lia|].
    destruct fuel' as [|fuel']; [lia|]. cbn [Repair.content_loop].
    rewrite (buf_fill_stable (Datatypes.S fuel) (Datatypes.S fuel') s r [] Hs Hf Hle).
    pose proof (buf_fill_tame (Datatypes.S fuel) s r [] Hs Hf) as Hb.
    destruct (Repair.buf_fill CACHE S (Datatypes.S fuel) s r []) as [[[s1 r1] buf] rerr].
    destruct Hb as (Hs1 & Hlen & (d & Hd & Hp) & He). cbn [app] in Hd. subst d.
    destruct (w_append T_CONTENT out id (len buf) buf) as [out1 [x|e|c]]; try reflexivity.
    destruct rerr as [e|]; [reflexivity|].
    destruct (Hp eq_refl) as [Hq1 Hq2].
    destruct (N.ltb_spec (len buf) CACHE) as [Hlt|Hge]; [reflexivity|].
    assert (Hne : len buf <> 0) by lia. specialize (Hq2 Hne).
    apply IH; [exact Hs1|unfold remaining in *; lia|lia].
  Qed.

  (* ----- the invariant of the 'read_block loop ----- *)
  Variable p0 : N.      (* position of the source when repair started *)

  (* id_failsafe2id_output ⊆ id_failsafe2filename *)
  Definition KA (ids : list (N * N)) (names : list (N * bytes)) : Prop :=
    forall k, HasKey ids k -> HasKey names k.
  (* an id not yet done has a hash state *)
  Definition KB (ids : list (N * N)) (done : list N) (hash : list (N * bytes)) : Prop :=
    forall k, HasKey ids k -> mem done k = true \/ HasKey hash k.
  (* the tables are paid for by the bytes consumed up to position p *)
  Definition TB (p : N) (ids : list (N * N)) (names : list (N * bytes)) (done : list N)
             (hash : list (N * bytes)) : Prop :=
    17 * len names + nbytes names + p0 <= p /\ 17 * len ids + p0 <= p /\
    17 * len hash + p0 <= p /\ 41 * len done + p0 <= p.
  Definition TInv (p : N) ids names done hash : Prop :=
    KA ids names /\ NoDup (map fst names) /\ TB p ids names done hash /\ (p <= M \/ p = p0).

  Definition RInv (st : rpstate S) : Prop :=
    I (rp_src st) /\ KB (rp_ids st) (rp_done st) (rp_hash st) /\
    TInv (pos (rp_src st)) (rp_ids st) (rp_names st) (rp_done st) (rp_hash st).
  Definition RFin (st : rpstate S) : Prop :=
    I (rp_src st) /\ exists p, TInv p (rp_ids st) (rp_names st) (rp_done st) (rp_hash st).

  Lemma TB_mono p p' ids names done hash : p <= p' -> TB p ids names done hash -> TB p' ids names done hash.
  Proof. unfold TB. lia. Qed.

  Lemma RFin_intro s out ids names done hash p :
    I s -> TInv p ids names done hash -> RFin (mkRP S s out ids names done hash).
  Proof. intros Hs Ht. split; [exact Hs|]. exists p. exact Ht. Qed.

  Definition bl_post (out : rpstate S * res fstatus) : Prop :=
    match out with
    | (st', Ok _) => RFin st'
    | (st', Err e) => RFin st' /\ e = EState
    | (_, Crash _) => False
    end.

  (* the loop is total, keeps the tables bounded, and more fuel does not change its result *)
  Lemma block_loop_tame2 fuel : forall fuel' st,
    RInv st -> (N.to_nat (rem (rp_src st)) < fuel)%nat -> (fuel <= fuel')%nat ->
    bl_post (block_loop fuel st) /\ block_loop fuel' st = block_loop fuel st.
  Proof.
    induction fuel as [|fuel IH]; intros fuel' st Hinv Hf Hle; [lia|].
    destruct fuel' as [|fuel']; [lia|].
    cbn [Repair.block_loop].
    destruct Hinv as (HI & HKB & HTI).
    pose proof HTI as (HKA & HND & HTB & HP).
    pose proof (parse_block_pos (rp_src st) HI) as Hpb.
    destruct (parse_block (rp_src st)) as [s1 [pb|e|c]]; [| |contradiction].
    2:{ destruct Hpb as [HI1 He]. destruct e; (split; [|reflexivity]); eapply RFin_intro; eauto. }
    destruct Hpb as (HI1 & Hpos & HM1 & Hname).
    assert (HTI1 : TInv (pos s1) (rp_ids st) (rp_names st) (rp_done st) (rp_hash st)).
    { split; [exact HKA|]. split; [exact HND|]. split; [|left; exact HM1].
      eapply TB_mono; [|exact HTB]. lia. }
    assert (Hstop : RFin (mkRP S s1 (rp_out st) (rp_ids st) (rp_names st) (rp_done st) (rp_hash st)))
      by (eapply RFin_intro; eauto).
    assert (Hf1 : (N.to_nat (rem s1) < fuel)%nat)
      by (unfold remaining in *; destruct pb; cbn [psize] in Hpos; lia).
    assert (Hle1 : (fuel <= fuel')%nat) by lia.
    destruct pb as [id name|id l|id h|].
    - (* FileStart *)
      cbn [psize] in Hpos.
      destruct (existsb (fun e => fst e =? id) (rp_ids st)) eqn:Eids; [split; [exact Hstop|reflexivity]|].
      destruct (mem (rp_done st) id) eqn:Edone; [split; [exact Hstop|reflexivity]|].
      assert (HTB' : forall ido, TB (pos s1) (rp_ids st ++ [(id, ido)]) (assoc_set (rp_names st) id name)
                                    (rp_done st) (assoc_set (rp_hash st) id [])).
      { intros ido. unfold TB in *. rewrite len_app. change (len [(id, ido)]) with 1.
        pose proof (len_assoc_set (rp_names st) id name).
        pose proof (len_assoc_set (rp_hash st) id []).
        pose proof (nbytes_assoc_set (rp_names st) id name HND). lia. }
      pose proof (w_start_cases FNMAX T_START T_CONTENT T_EOA T_EOF (rp_out st) name Hname) as Hw.
      destruct (w_start FNMAX T_START T_CONTENT T_EOA T_EOF (rp_out st) name) as [out1 [ido|e|c]];
        [| |contradiction].
      + apply IH; [|exact Hf1|exact Hle1]. unfold RInv. cbn [rp_src rp_ids rp_names rp_done rp_hash].
        split; [exact HI1|]. split.
        * intros k Hk. destruct (HasKey_app1_inv _ _ _ _ Hk) as [Hk'| ->].
          -- destruct (HKB k Hk') as [Hd|Hh]; [left; exact Hd|right; apply HasKey_set_mono; exact Hh].
          -- right. apply HasKey_set_same.
        * split; [|split; [apply NoDup_keys_set; exact HND|split; [apply HTB'|left; exact HM1]]].
          intros k Hk. destruct (HasKey_app1_inv _ _ _ _ Hk) as [Hk'| ->].
          -- apply HasKey_set_mono, HKA, Hk'.
          -- apply HasKey_set_same.
      + destruct Hw as [->| ->]; (split; [|reflexivity]).
        * split; [exact Hstop|reflexivity].
        * (* FilenameReuse: the name table was updated, the id table was not *)
          eapply RFin_intro; [exact HI1|].
          split; [intros k Hk; apply HasKey_set_mono, HKA, Hk|].
          split; [apply NoDup_keys_set; exact HND|]. split; [|left; exact HM1].
          specialize (HTB' 0). unfold TB in *. rewrite len_app in HTB'. change (len [(id, 0)]) with 1 in HTB'.
          lia.
    - (* FileContent *)
      cbn [psize] in Hpos.
      destruct (assoc (rp_ids st) id) as [ido|] eqn:Eid; [|split; [exact Hstop|reflexivity]].
      destruct (mem (rp_done st) id) eqn:Edone; [split; [exact Hstop|reflexivity]|].
      destruct (HKA id (ex_intro _ ido Eid)) as [nm Hnm]. rewrite Hnm.
      destruct (HKB id (ex_intro _ ido Eid)) as [Hd|[hs Hhs]]; [congruence|]. rewrite Hhs.
      rewrite (content_loop_stable (Datatypes.S fuel) (Datatypes.S fuel') s1 (rp_out st) ido l [] HI1
                 ltac:(lia) Hle).
      pose proof (content_loop_tame (Datatypes.S fuel) s1 (rp_out st) ido l [] HI1 ltac:(lia)) as Hc.
      destruct (Repair.content_loop CACHE T_CONTENT S (Datatypes.S fuel) s1 (rp_out st) ido l [])
        as [[[[s2 out2] got] rerr] werr].
      destruct Hc as (HI2 & Hpp & Hre & Hwe).
      assert (HTBh : forall v, TB (pos s1) (rp_ids st) (rp_names st) (rp_done st) (assoc_set (rp_hash st) id v)).
      { intros v. unfold TB in *. pose proof (len_assoc_set (rp_hash st) id v). lia. }
      destruct rerr as [re|]; destruct werr as [we|].
      + subst we. split; [|reflexivity]. split; [|reflexivity]. eapply RFin_intro; eauto.
      + split; [|reflexivity].
        eapply RFin_intro; [exact HI2|]. split; [exact HKA|]. split; [exact HND|]. split; [apply HTBh|left; exact HM1].
      + subst we. split; [|reflexivity]. split; [|reflexivity]. eapply RFin_intro; eauto.
      + destruct (Hpp eq_refl eq_refl) as [Hge Hor].
        apply IH; [|cbn [rp_src]; unfold remaining in *; lia|exact Hle1].
        unfold RInv. cbn [rp_src rp_ids rp_names rp_done rp_hash].
        split; [exact HI2|]. split.
        * intros k Hk. destruct (HKB k Hk) as [Hd|Hh]; [left; exact Hd|right; apply HasKey_set_mono; exact Hh].
        * split; [exact HKA|]. split; [exact HND|]. split; [|left; lia].
          eapply TB_mono; [|apply HTBh]. exact Hge.
    - (* EndOfFile *)
      cbn [psize] in Hpos.
      destruct (assoc (rp_ids st) id) as [ido|] eqn:Eid; [|split; [exact Hstop|reflexivity]].
      destruct (mem (rp_done st) id) eqn:Edone; [split; [exact Hstop|reflexivity]|].
      destruct (assoc (rp_hash st) id) as [hs|] eqn:Ehs; [|split; [exact Hstop|reflexivity]].
      assert (HTBd : TB (pos s1) (rp_ids st) (rp_names st) (rp_done st ++ [id]) (assoc_del (rp_hash st) id)).
      { unfold TB in *. rewrite len_app. change (len [id]) with 1.
        pose proof (len_assoc_del (rp_hash st) id). lia. }
      assert (Hstop2 : RFin (mkRP S s1 (rp_out st) (rp_ids st) (rp_names st) (rp_done st) (assoc_del (rp_hash st) id))).
      { eapply RFin_intro; [exact HI1|]. split; [exact HKA|]. split; [exact HND|]. split; [|left; exact HM1].
        unfold TB in *. rewrite len_app in HTBd. lia. }
      destruct (negb (bytes_eqb (H hs) h)); [split; [exact Hstop2|reflexivity]|].
      pose proof (w_end_cases T_START T_CONTENT T_EOA T_EOF H (rp_out st) ido) as Hw.
      destruct (w_end T_START T_CONTENT T_EOA T_EOF H (rp_out st) ido) as [out1 [x|e|c]]; [| |contradiction].
      + apply IH; [|exact Hf1|exact Hle1]. unfold RInv. cbn [rp_src rp_ids rp_names rp_done rp_hash].
        split; [exact HI1|]. split.
        * intros k Hk. rewrite mem_app1. destruct (N.eqb_spec k id) as [->|Hne].
          -- left. apply orb_true_r.
          -- destruct (HKB k Hk) as [Hd|Hh]; [left; rewrite Hd; reflexivity|right].
             apply HasKey_del_other; assumption.
        * split; [exact HKA|]. split; [exact HND|]. split; [exact HTBd|left; exact HM1].
      + subst e. split; [|reflexivity]. split; [exact Hstop2|reflexivity].
    - split; [exact Hstop|reflexivity].
  Qed.

  Lemma block_loop_tame fuel st : RInv st -> (N.to_nat (rem (rp_src st)) < fuel)%nat ->
    bl_post (block_loop fuel st).
  Proof. intros Hinv Hf. exact (proj1 (block_loop_tame2 fuel fuel st Hinv Hf (le_n _))). Qed.

  Lemma block_loop_stable fuel fuel' st : RInv st ->
    (N.to_nat (rem (rp_src st)) < fuel)%nat -> (N.to_nat (rem (rp_src st)) < fuel')%nat ->
    block_loop fuel st = block_loop fuel' st.
  Proof.
    intros Hinv Hf Hf'.
    destruct (Nat.le_ge_cases fuel fuel') as [Hle|Hle].
    - symmetry. exact (proj2 (block_loop_tame2 fuel fuel' st Hinv Hf Hle)).
    - exact (proj2 (block_loop_tame2 fuel' fuel st Hinv Hf' Hle)).
  Qed.

  (* the clean-up of the files left open: Crash 1556 is unreachable *)
  Lemma cleanup_total st : forall ids out unf,
    (forall k v, In (k, v) ids -> HasKey (rp_names st) k) ->
    match cleanup ids st out unf with
    | Ok _ => True | Err e => e = EState | Crash _ => False
    end.
  Proof.
    induction ids as [|[idf ido] r IH]; intros out unf Hk; cbn [Repair.cleanup]; [exact Logic.I|].
    assert (Hr : forall k v, In (k, v) r -> HasKey (rp_names st) k)
      by (intros k v Hin; apply (Hk k v); right; exact Hin).
    destruct (mem (rp_done st) idf); [apply IH; exact Hr|].
    destruct (Hk idf ido (or_introl eq_refl)) as [nm Hnm]. rewrite Hnm.
    pose proof (w_end_cases T_START T_CONTENT T_EOA T_EOF H out ido) as Hw.
    destruct (w_end T_START T_CONTENT T_EOA T_EOF H out ido) as [out1 [x|e|c]];
      [apply IH; exact Hr|exact Hw|exact Hw].
  Qed.
End RepairTotal.

(* ---------- the theorems ---------- *)
Section RepairMain.
  Context {LIM : Limit}.
  Variable FNMAX CACHE : N.
  Variables T_START T_CONTENT T_EOA T_EOF : N.
  Variable H : bytes -> bytes.
  Variable S : Stream.
  Variable I : st S -> Prop.
  Variable pos : st S -> N.
  Variable M : N.
  Hypothesis HT : Tame S I pos M.
  Hypothesis HCACHE : 0 < CACHE.

  Notation block_loop := (block_loop FNMAX CACHE T_START T_CONTENT T_EOA T_EOF H S).
  Notation repair := (repair FNMAX CACHE T_START T_CONTENT T_EOA T_EOF H S).

  Lemma RInv_init s0 out0 : I s0 -> RInv S I pos M (pos s0) (mkRP S s0 out0 [] [] [] []).
  Proof.
    intros Hs. unfold RInv, TInv, KA, KB, TB. cbn [rp_src rp_ids rp_names rp_done rp_hash map].
    split; [exact Hs|]. split; [intros k [v Hv]; discriminate|].
    split; [intros k [v Hv]; discriminate|]. split; [constructor|].
    change (len (@nil (N * N))) with 0. change (len (@nil (N * bytes))) with 0.
    change (len (@nil N)) with 0. change (nbytes []) with 0. split; [lia|]. right; reflexivity.
  Qed.

  (* C08 item 7: repair returns a report, WrongWriterState (only when the caller's writer
     refuses the calls: finalized already, or files left open) or SerializationError (EDeser:
     the footer of the output exceeds BINCODE_MAX_DESERIALIZE), never reaches the expect()
     sites or any other Crash site, never runs out of fuel when fuel > remaining bytes *)
  Theorem repair_total_strong fuel s0 out0 : I s0 -> (N.to_nat (remaining S pos M s0) < fuel)%nat ->
    match repair fuel s0 out0 with
    | Ok _ => True
    | Err e => e = EState \/ e = EDeser
    | Crash _ => False
    end.
  Proof.
    intros Hs Hf. unfold Repair.repair.
    pose proof (block_loop_tame FNMAX CACHE T_START T_CONTENT T_EOA T_EOF H S I pos M HT HCACHE (pos s0)
                  fuel (mkRP S s0 out0 [] [] [] []) (RInv_init s0 out0 Hs) Hf) as Hb.
    destruct (block_loop fuel (mkRP S s0 out0 [] [] [] [])) as [st [status|e|c]]; [|left; exact (proj2 Hb)|exact Hb].
    destruct Hb as (_ & p & HKA & _).
    pose proof (cleanup_total T_START T_CONTENT T_EOA T_EOF H S st (rp_ids st) (rp_out st) []) as Hc.
    destruct (cleanup T_START T_CONTENT T_EOA T_EOF H S (rp_ids st) st (rp_out st) []) as [[out1 unf]|e|c].
    - pose proof (w_finalize_cases T_START T_CONTENT T_EOA T_EOF (fun f => f) out1) as Hw.
      destruct (w_finalize_with T_START T_CONTENT T_EOA T_EOF (fun f => f) out1) as [out2 [x|e|c]];
        [exact Logic.I|exact Hw|exact Hw].
    - left. apply Hc. intros k v Hin. apply HKA. eapply In_HasKey; exact Hin.
    - apply Hc. intros k v Hin. apply HKA. eapply In_HasKey; exact Hin.
  Qed.

  Theorem repair_total fuel s0 out0 : I s0 -> (N.to_nat M < fuel)%nat -> total (repair fuel s0 out0).
  Proof.
    intros Hs Hf.
    pose proof (repair_total_strong fuel s0 out0 Hs ltac:(unfold remaining; lia)) as Hr.
    destruct (repair fuel s0 out0) as [x|e|c]; [exact Logic.I| |exact Hr]. destruct Hr; subst e; exact Logic.I.
  Qed.

  (* allocation: whatever the loop returns (report or error), the four per-file tables are
     paid for by the bytes of the FileStart / FileContent / EndOfFile blocks parsed: at most
     (M - start)/17 ids, names, hash states, (M - start)/41 finished ids, and the names hold
     at most M - start bytes in total *)
  Theorem repair_tables_bounded fuel s0 out0 : I s0 -> (N.to_nat M < fuel)%nat ->
    match block_loop fuel (mkRP S s0 out0 [] [] [] []) with
    | (_, Crash _) => False
    | (st, _) =>
      17 * len (rp_names st) + nbytes (rp_names st) <= M - pos s0 /\
      17 * len (rp_ids st) <= M - pos s0 /\
      17 * len (rp_hash st) <= M - pos s0 /\
      41 * len (rp_done st) <= M - pos s0
    end.
  Proof.
    intros Hs Hf.
    pose proof (block_loop_tame FNMAX CACHE T_START T_CONTENT T_EOA T_EOF H S I pos M HT HCACHE (pos s0)
                  fuel (mkRP S s0 out0 [] [] [] []) (RInv_init s0 out0 Hs) ltac:(unfold remaining; lia)) as Hb.
    destruct (block_loop fuel (mkRP S s0 out0 [] [] [] [])) as [st [status|e|c]]; [| |exact Hb].
    - destruct Hb as (_ & p & _ & _ & HTB & Hp). unfold TB in HTB. lia.
    - destruct Hb as ((_ & p & _ & _ & HTB & Hp) & _). unfold TB in HTB. lia.
  Qed.

  (* the fuel is only a proof device: any two amounts above the remaining bytes give the
     same result, so no report of repair hides an exhausted loop *)
  Theorem repair_fuel_irrelevant fuel fuel' s0 out0 : I s0 ->
    (N.to_nat (remaining S pos M s0) < fuel)%nat -> (N.to_nat (remaining S pos M s0) < fuel')%nat ->
    repair fuel s0 out0 = repair fuel' s0 out0.
  Proof.
    intros Hs Hf Hf'. unfold Repair.repair.
    rewrite (block_loop_stable FNMAX CACHE T_START T_CONTENT T_EOA T_EOF H S I pos M HT HCACHE (pos s0)
               fuel fuel' (mkRP S s0 out0 [] [] [] []) (RInv_init s0 out0 Hs) Hf Hf').
    reflexivity.
  Qed.
End RepairMain.
