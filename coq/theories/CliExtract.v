(* CliExtract.v — `mlar extract` from archive BYTES to the file system, as the code runs it:

   whole-archive form   open_mla_file; list_files, sort; pre-pass create_file for every name;
                        helpers::linear_extract into FileWriters that share the LRU pool (Pool.v).
                        When the block walk fails half-way (hostile / truncated archive: `?`, or a
                        panic) the pieces ALREADY delivered — the part of the failing block that
                        io::copy had copied included — have been appended: `linear_extract_d`
                        returns them together with how the walk ended.
   selected-files form  per sorted name the matcher selects: get_file (error / None: next name; a panic
                        below it unwinds and ends the command),
                        create_file (`?` on error; None: next name, the ArchiveFile is dropped
                        unread), io::copy into the handle create_file returned (`?` on error, what
                        was copied before stays).  `sel` stands for the matcher: a list of names
                        (`name_in wanted`) or ANY other predicate (the glob form).

   Cli.cmd_extract_linear / cmd_extract_listed are the same commands with the archive read
   first and no pool; they say nothing about the file system when the reading fails half-way.
   Definitions only; proofs in CliExtractProofs.v. *)
From MLA Require Import Limit.
From MLA Require Import Base Stream Blocks Writer Reader RoundTripWriter RoundTripReader CompLayer EncLayer Format Ecies Archive Path Tar Cli Pool.
Open Scope N_scope.

Section Delivered.
  Context {LIM : Limit}.
  Variable FNMAX : N.
  Variables TS TC TA TE : N.
  Variable S : Stream.
  Notation parse_block := (parse_block FNMAX TS TC TA TE S).
  Notation get_file := (get_file FNMAX TS TC TA TE S).
  Notation io_copy := (io_copy FNMAX TS TC TA TE S).

  (* Reader.copy_take, also handing back what had been copied when it ends *)
  Fixpoint copy_take_d (fuel : nat) (s : st S) (l : N) (acc : bytes) : st S * bytes * res unit :=
    if l =? 0 then (s, acc, Ok tt) else
    match fuel with
    | O => (s, acc, Err EFuel)
    | Datatypes.S fuel' =>
      match rd S s (N.min l 8192) with
      | (s1, Ok d) =>
        if len d =? 0 then (s1, acc, Ok tt)
        else if l <? len d then (s1, acc, Crash 901)
        else copy_take_d fuel' s1 (l - len d) (acc ++ d)
      | (s1, Err e) => (s1, acc, Err e)
      | (s1, Crash c) => (s1, acc, Crash c)
      end
    end.

  (* Reader.lx_loop with the pieces delivered so far kept on every exit *)
  Fixpoint lx_loop_d (fuel : nat) (s : st S) (export : list bytes) (ids : list (N * bytes))
           (acc : list (bytes * bytes)) : list (bytes * bytes) * res unit :=
    match fuel with
    | O => (acc, Err EFuel)
    | Datatypes.S fuel' =>
      match parse_block s with
      | (s1, Ok (PStart id name)) =>
        lx_loop_d fuel' s1 export (if name_in export name then id_insert ids id name else ids) acc
      | (s1, Ok (PEof id _)) => lx_loop_d fuel' s1 export (id_remove ids id) acc
      | (s1, Ok (PContent id l)) =>
        let with_piece d := match id_lookup ids id with Some name => acc ++ [(name, d)] | None => acc end in
        match copy_take_d fuel s1 l [] with
        | (s2, d, Ok _) => lx_loop_d fuel' s2 export ids (with_piece d)
        | (_, d, Err e) => (with_piece d, Err e)
        | (_, d, Crash c) => (with_piece d, Crash c)
        end
      | (s1, Ok PEnd) => (acc, Ok tt)
      | (_, Err e) => (acc, Err e)
      | (_, Crash c) => (acc, Crash c)
      end
    end.

  Definition linear_extract_d (fuel : nat) (r : rstate S) (export : list bytes)
    : list (bytes * bytes) * res unit :=
    match sk S (r_src r) (FromStart 0) with
    | (s1, Ok _) => lx_loop_d fuel s1 export [] []
    | (_, Err e) => ([], Err e)
    | (_, Crash c) => ([], Crash c)
    end.

  (* what a res-with-pieces says in the vocabulary of Reader.linear_extract *)
  Definition undeliver (x : list (bytes * bytes) * res unit) : res (list (bytes * bytes)) :=
    match snd x with Ok _ => Ok (fst x) | Err e => Err e | Crash c => Crash c end.

  (* the per-file loop of `extract`, in the order of the code *)
  Fixpoint extract_listed_loop (zf fuel : nat) (r : rstate S) (names : list bytes) (out : path) (f : fs)
    : fs * bool :=
    match names with
    | [] => (f, true)
    | n :: rest =>
      match get_file r n with
      | (r1, Ok (Some (bs, _))) =>
        match create_file out n f with
        | (f1, Created _ cp) =>
          match io_copy zf fuel bs [] with
          | (bs', d, Ok _) => extract_listed_loop zf fuel (after_copy r1 bs') rest out (write_at f1 cp d)
          | (_, d, _) => (write_at f1 cp d, false)          (* `?` / panic: what was copied stays *)
          end
        | (f1, Skipped) => extract_listed_loop zf fuel r1 rest out f1
        | (f1, Failed) => (f1, false)
        end
      | (_, Crash _) => (f, false)                          (* a panic below get_file unwinds: exit 101 *)
      | (r1, _) => extract_listed_loop zf fuel r1 rest out f   (* Err / Ok(None): message, `continue` *)
      end
    end.

  (* "no copy the model makes along that loop ends with out-of-fuel" (EFuel: the copy loop's `fuel` turns, or
     `zf` of a read's skipping of empty blocks, were too few for the file — the source has no such bound).
     The premise under which Tie A (SrcTie3Cli.extract_selected_sim) states model = source for this loop;
     follows extract_listed_loop step by step. *)
  Fixpoint copies_fuelled (zf fuel : nat) (r : rstate S) (names : list bytes) (out : path) (f : fs) : bool :=
    match names with
    | [] => true
    | n :: rest =>
      match get_file r n with
      | (r1, Ok (Some (bs, _))) =>
        match create_file out n f with
        | (f1, Created _ cp) =>
          match io_copy zf fuel bs [] with
          | (bs', d, Ok _) => copies_fuelled zf fuel (after_copy r1 bs') rest out (write_at f1 cp d)
          | (_, _, Err EFuel) => false
          | _ => true
          end
        | (f1, Skipped) => copies_fuelled zf fuel r1 rest out f1
        | (f1, Failed) => true
        end
      | (_, Crash _) => true
      | (r1, _) => copies_fuelled zf fuel r1 rest out f
      end
    end.

  (* the whole-archive form on an opened reader: the pre-pass (create_file for every sorted name) decides the
     keys of `export` — Cli.accepted_names: a name create_file skipped has no FileWriter, so a FileStart that
     carries it does not bind its id — then linear_extract walks the archive with THOSE keys and the pieces go
     through the pool.  Exit status 0 iff the pre-pass, every re-open and the walk succeeded.  (When the
     pre-pass fails the walk is not run at all; extract_linear_pool then ignores the pieces and `b` is false.) *)
  Definition extract_linear_body (cap : nat) (cut : bytes -> list bytes) (lfuel : nat)
             (r : rstate S) (out : path) (f : fs) : fs * bool :=
    let names := sort_names (list_files S r) in
    let dl := linear_extract_d lfuel r (accepted_names out names f) in
    let '(f', b) := extract_linear_pool RAppend cap cut out names (fst dl) f in
    (f', b && is_ok (snd dl)).
End Delivered.

Section CliExtract.
  Variables CHUNK TAG BLOCK LIMIT FNMAX : N.
  Local Hint Extern 0 Limit => exact LIMIT : typeclass_instances.
  Variables TS TC TA TE : N.
  Variable dh : bytes -> bytes -> bytes.
  Variable kdf : bytes -> bytes.
  Variables wdec wtag : bytes -> bytes -> bytes.
  Variable ksf : bytes -> bytes -> N -> N -> N.
  Variable tagf : bytes -> bytes -> N -> bytes -> bytes.
  Variable dec : bytes -> bytes.

  Notation stack_of := (stack_of CHUNK TAG BLOCK ksf tagf dec).
  Notation cli_open := (cli_open CHUNK TAG BLOCK LIMIT dh kdf wdec wtag ksf tagf dec).

  (* whole-archive form: bytes -> file system, through the pool (capacity cap, any cut of the
     blocks into write buffers).  Exit status 0 iff the pre-pass, every re-open and the walk
     succeeded. *)
  Definition cmd_extract_linear_pool (cap : nat) (cut : bytes -> list bytes) (lfuel : nat)
             (a : bytes) (privs : list bytes) (out : path) (f : fs) : fs * bool :=
    match cli_open a privs with
    | Ok (existT _ p r) => extract_linear_body FNMAX TS TC TA TE (stack_of a p) cap cut lfuel r out f
    | _ => (f, false)
    end.

  (* selected-files form: bytes -> file system *)
  Definition cmd_extract_selected (sel : bytes -> bool) (zf fuel : nat)
             (a : bytes) (privs : list bytes) (out : path) (f : fs) : fs * bool :=
    match cli_open a privs with
    | Ok (existT _ p r) =>
      extract_listed_loop FNMAX TS TC TA TE (stack_of a p) zf fuel r
        (filter sel (sort_names (list_files (stack_of a p) r))) out f
    | _ => (f, false)
    end.
End CliExtract.
