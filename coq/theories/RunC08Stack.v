(* RunC08Stack.v — Tie B entry point of job c08-stack: the stack
     CompressionLayerReader ∘ EncryptionLayerReader ∘ RawLayerReader ∘ Cursor
   over an encrypted stream in which the tag of some chunks does not verify, with the
   STREAMING model of the decompressor (CompLayerS.v).

   Brotli enters as in RunFsComp: per compressed block [c; p; cnt], cnt[L] = number of
   plaintext bytes the real decoder has produced once c[..L] was fed (driven directly by the
   harness), and the greedy table-driven step RunFsComp.gstep.  Under the DecoderLaws the
   sequence of inner reads of the decompressor and the bytes each read returns are determined
   by that table alone (CompLayerSProofs.v: sd_read_pending, sd_read_starved); the buffer policy (refill sizes, copy_to_front)
   is the model's.

   The cipher is the toy one, as in RunC11.c11_stack (positions, bytes and which chunks verify
   do not depend on it): the model encrypts the compression layer's bytes itself and alters
   the same offsets of the encrypted stream as the harness did (last byte of a tag, xor 1).

   The inner layer handed to the compression reader is wrapped in `Logged`: every read and
   seek the compression reader issues on it is recorded — [0; asked; delivered] for a read,
   [1; target; result] for a seek — and printed after the row of each operation that
   returned Ok (after an Err the reader has dropped its inner layer, log included; the harness
   drops the log of such operations too).  The harness records the same through an
   instrumented LayerReader placed between the two real layers.

   Rows: [0; compressed sizes...] (or [1] / [2] when the stack does not open), then per
   operation [status; value; position_after+1 (0 = error); bytes...] as RunC11.gen_ops and,
   when status = 0, [77; log entries flattened]. *)
From MLA Require Import Limit.
From MLAGen Require Src.
(* executable entry points: the production value of BINCODE_MAX_DESERIALIZE (the same in both flavours), file-local *)
#[local] Instance RUN_LIMIT : Limit := MLAGen.Src.BINCODE_MAX_DESERIALIZE_prod.
From MLA Require Import Base Stream EncLayer CompLayer RawLayer CompFailSafe CompLayerS Inst Run RunC11 RunFsComp.
Open Scope N_scope.

Section Logged.
  Variable T : Stream.
  Definition wtarget (w : whence) : N :=
    match w with FromStart p => p | FromCur d => Z.abs_N d | FromEnd d => Z.abs_N d end.
  Definition Logged : Stream :=
    {| st := st T * list (list N);
       rd := fun s n =>
         let '(t, lg) := s in
         match rd T t n with
         | (t', Ok d) => ((t', lg ++ [[0; n; len d]]), Ok d)
         | (t', Err e) => ((t', lg ++ [[2; n; 0]]), Err e)
         | (t', Crash x) => ((t', lg), Crash x)
         end;
       sk := fun s w =>
         let '(t, lg) := s in
         match sk T t w with
         | (t', Ok p) => ((t', lg ++ [[1; wtarget w; p]]), Ok p)
         | (t', Err e) => ((t', lg ++ [[3; wtarget w; 0]]), Err e)
         | (t', Crash x) => ((t', lg), Crash x)
         end |}.
End Logged.

Definition flip_at (b : bytes) (o : N) : bytes :=
  match nthN b o with
  | Some x => takeN o b ++ (if x mod 2 =? 0 then x + 1 else x - 1) :: dropN (o + 1) b
  | None => b
  end.

Section C08Stack.
  Variable k : consts.
  Let BL := cBLOCK k. Let CH := cCHUNK k. Let TG := cTAG k.
  Variable tab : list (list bytes).
  Variable tail : list bytes.

  Section Ops.
    Variable E : Stream.
    Let LE := Logged E.
    Let T := CompReaderS BL gstate ginit (gstep tab tail) LE.

    (* take the log out of the reader (and empty it) *)
    Definition LSt : Type := (st E * list (list N))%type.
    Definition take_log (c : sreader gstate LE) : sreader gstate LE * list (list N) :=
      match s_state c with
      | SReady il =>
        (@mkS gstate LE (@SReady gstate LE ((fst (il : LSt), []) : LSt)) (s_si c) (s_pos c), snd (il : LSt))
      | SInData r u d =>
        let il : LSt := sd_in d in
        (@mkS gstate LE (@SInData gstate LE r u
            (@mkSD gstate LE ((fst il, []) : LSt) (sd_lim d) (sd_bsz d) (sd_buf d) (sd_off d) (sd_ds d) (sd_done d) (sd_eiid d)))
             (s_si c) (s_pos c), snd il)
      | SEmpty => (c, [])
      end.
    Definition log_row (lg : list (list N)) : list N := 77 :: concat lg.

    Fixpoint sops (s : st T) (ops : list (list N)) : list (list N) :=
      match ops with
      | [] => []
      | op :: rest =>
        match op with
        | 0 :: n :: _ =>
          match read_full T (Datatypes.S (N.to_nat n)) s n with
          | (s', Ok d) =>
            let '(s1, lg) := take_log s' in
            let '(s2, pc) := pos_code T s1 in ([0; len d; pc] ++ d) :: log_row lg :: sops s2 rest
          | (s', Err _) =>
            let '(s1, _) := take_log s' in
            let '(s2, pc) := pos_code T s1 in [1; 0; pc] :: sops s2 rest
          | (s', Crash _) => [[2]]
          end
        | _ =>
          match sk T s (op_whence op) with
          | (s', Ok p) =>
            let '(s1, lg) := take_log s' in
            let '(s2, pc) := pos_code T s1 in [0; p; pc] :: log_row lg :: sops s2 rest
          | (s', Err _) =>
            let '(s1, _) := take_log s' in
            let '(s2, pc) := pos_code T s1 in [1; 0; pc] :: sops s2 rest
          | (s', Crash _) => [[2]]
          end
        end
      end.
  End Ops.

  Definition c08_stack_gen (header encw : bytes) (ops : list (list N)) : list (list N) :=
    let arch := header ++ encw in
    let C := Cursor arch in
    let R := RawReader C in
    let E := EncReader CH TG toy_ks (toy_tag TG) R in
    let LE := Logged E in
    let enc_init (e : st LE) : st LE * res unit :=
      let '(e0, lg) := e in
      match eseek_start CH TG toy_ks (toy_tag TG) R e0 0 with
      | (e', Ok _) => ((e', lg), Ok tt) | (e', Err x) => ((e', lg), Err x) | (e', Crash x) => ((e', lg), Crash x)
      end in
    match read_exact R (Datatypes.S (N.to_nat (len header))) (raw_new C 0) (len header) with
    | (r1, Ok _) =>
      match raw_reset C r1 with
      | (r2, Ok _) =>
        match scomp_open gstate LE LIMITC enc_init ((@mkE R r2 [] 0 0, []) : st LE) with
        | (c, Ok _) =>
          let '(c1, _) := take_log E c in
          ([0] ++ match s_si c1 with Some si => si_sizes si | None => [] end) :: sops E c1 ops
        | (_, Err _) => [[1]]
        | (_, Crash _) => [[2]]
        end
      | (_, Err _) => [[1]]
      | (_, Crash _) => [[2]]
      end
    | (_, Err _) => [[1]]
    | (_, Crash _) => [[2]]
    end.
End C08Stack.

(* offs: offsets (in the encrypted stream, header excluded) of the bytes altered *)
Definition c08_stack (k : consts) (header compwire : bytes) (offs : list N)
    (tab : list (list bytes)) (tail : list bytes) (ops : list (list N)) : list (list N) :=
  let encw := fold_left flip_at offs (enc_format (cCHUNK k) toy_ks (toy_tag (cTAG k)) compwire) in
  c08_stack_gen k tab tail header encw ops.
