(* CompLayerSToy.v — non-vacuity: the toy codec of CompFailSafeToy.v (which satisfies the
   DecoderLaws) also satisfies the two extra premises used for the streaming compression
   reader — NoNmiAtEnd (refinement, empty-buffer reads) and DstepBounded (totality) — and a
   concrete wire (BLOCK = 8, three blocks) on which the hypotheses of the refinement theorem
   hold and the reader runs. *)
From MLA Require Import Limit.
From MLA Require Import Base Stream CompLayer CompLayerProofs CompFailSafe CompFailSafeProofs CompFailSafeStep
  CompFailSafeToy CompLayerS CompLayerSProofs CompLayerSRefine CompLayerSTotal.
From Coq Require Import ZifyBool ZifyNat ZifyN.
Open Scope N_scope.

Lemma toy_bounded : DstepBounded tstep.
Proof.
  intros [cin co] inp room. unfold tstep.
  destruct (tbad (cin ++ inp)); [change (len (@nil N)) with 0; lia|].
  split; [lia|]. rewrite len_takeN. lia.
Qed.

Lemma toy_no_nmi_at_end : NoNmiAtEnd tinit tstep tfin.
Proof.
  intros ds cin cout inp room k out ds' c Hr Hs Hfc Hpc.
  destruct (treach_J _ _ _ Hr) as (-> & Hc & Hn & Hb).
  destruct (tfin_len c Hfc) as (Hlc & Hne & Hbc).
  destruct (prefix_nonnil_head c (cin ++ inp) Hpc Hne) as [Hnx Hbx].
  destruct (tstep_facts _ _ _ _ _ _ _ _ Hc Hn Hs)
    as [(? & _)|(Eb & Hk & Hle & -> & Hcat & Hcn & Hf & Hr')]; [discriminate|].
  assert (Hfin : tfin (cin ++ takeN k inp) = true).
  { destruct (N.lt_ge_cases k (len inp)) as [Hlt|Hge]; [exact (Hf Hlt)|].
    assert (Ht : takeN k inp = inp) by (apply takeN_all; lia). rewrite Ht.
    assert (Hx : c = cin ++ inp).
    { apply prefix_len_eq; [exact Hpc|]. rewrite len_app. lia. }
    rewrite <- Hx. exact Hfc. }
  rewrite Hfin in Hr'. destruct (len (cout ++ out) <? len (tD (cin ++ takeN k inp))); discriminate.
Qed.

(* the example stream: 20 bytes in blocks of 8 *)
Definition sx_plain : bytes := fsx_p0 ++ fsx_p1 ++ fsx_p2.
Definition sx_cbs : list bytes := [tcomp fsx_p0; tcomp fsx_p1; tcomp fsx_p2].
Definition sx_wire : bytes := comp_wire sx_cbs 4.

Lemma sx_blocks : forall j cb, nthN sx_cbs j = Some cb -> tfin cb = true /\ tD cb = block_at 8 sx_plain j.
Proof.
  intros j cb H. pose proof (nthN_Some_lt _ _ _ H) as Hj. change (len sx_cbs) with 3 in Hj.
  assert (Hc : j = 0 \/ j = 1 \/ j = 2) by lia.
  destruct Hc as [->|[->| ->]]; vm_compute in H; injection H as <-; split; reflexivity.
Qed.

(* the refinement theorem applies to it, over a cursor on the wire *)
Example comp_stream_refines_toy :
  Refines (CompReaderS 8 tstate tinit tstep (Cursor sx_wire)) sx_plain
          (RcompS 8 tstate tinit tstep tfin (Cursor sx_wire) sx_plain sx_cbs (fun s p => s = p /\ p <= len sx_wire)).
Proof.
  apply (comp_stream_reader_refines_gen 8 1000 ltac:(lia) ltac:(vm_compute; reflexivity) tstate tinit tstep tD tfin
           toy_laws toy_no_nmi_at_end (Cursor sx_wire) sx_plain sx_cbs).
  - vm_compute. split; discriminate.
  - exact sx_blocks.
  - vm_compute. split; [discriminate | reflexivity].
  - vm_compute. reflexivity.
  - exact (cursor_refines sx_wire).
Qed.

(* and it runs: seek into the second block, read across the block edge *)
Example comp_stream_runs_toy :
  let T := CompReaderS 8 tstate tinit tstep (Cursor sx_wire) in
  match scomp_open tstate (Cursor sx_wire) 1000 (fun i => (i, Ok tt)) 0 with
  | (c, Ok _) =>
    match sk T c (FromStart 6) with
    | (c1, Ok 6) => snd (read_full T 20 c1 9) = Ok [7; 8; 9; 10; 11; 12; 13; 14; 15]
    | _ => False
    end
  | _ => False
  end.
Proof. vm_compute. reflexivity. Qed.

(* an inner stream whose reads fail from a position on: the error surfaces at the read that
   needs the bytes, not at the seek that creates the decompressor, and the reader stays usable *)
Definition FailFrom (w : bytes) (bad : N) : Stream :=
  {| st := N;
     rd := fun p n => if bad <? p + n then (p, Err EWrongTag) else cursor_rd w p n;
     sk := cursor_sk w |}.
Example comp_stream_error_timing_toy :
  let S := FailFrom sx_wire 12 in
  let T := CompReaderS 8 tstate tinit tstep S in
  let c0 := mkS (SReady (0 : st S)) (Some (mkSI [9; 9; 5] 4)) 0 in
  match sk T c0 (FromStart 8) with          (* second block: the seek creates the decompressor *)
  | (c1, Ok 8) =>
    match rd T c1 4 with                     (* the first read needs the block's bytes 9..17 *)
    | (c2, Err EWrongTag) =>
      s_state c2 = SEmpty /\ fst (rd T c2 4) = c2 /\ snd (rd T c2 4) = Err EState /\
      snd (sk T c2 (FromStart 0)) = Err EState
    | _ => False
    end
  | _ => False
  end.
Proof. vm_compute. repeat split; reflexivity. Qed.
