(* Builders.v — small model definitions for items that had no model: the layer-set builders of
   ArchiveWriterConfig (config.rs), ArchiveWriterConfig::check / to_persistent decisions,
   PositionLayerWriter::write/position/reset_position, HashWrapperReader::read and
   helpers::StreamWriter::write.  Definitions and their elementary properties; the Tie A
   lemmas binding them to the source are in SrcTie2b.v. *)
From MLA Require Import Base.
Open Scope N_scope.

(* Layers is a bit set (bitflags over u8) *)
Definition enable_layer (enabled layer : N) : N := N.lor enabled layer.
Definition disable_layer (enabled layer : N) : N := N.ldiff enabled layer.
Definition set_layers (enabled layers : N) : N := layers.
Definition is_layers_enabled (enabled layer : N) : bool := N.land enabled layer =? layer.

Lemma enable_then_enabled e l : is_layers_enabled (enable_layer e l) l = true.
Proof.
  unfold is_layers_enabled, enable_layer. apply N.eqb_eq. apply N.bits_inj; intros n.
  rewrite N.land_spec, N.lor_spec. destruct (N.testbit e n), (N.testbit l n); reflexivity.
Qed.
Lemma enable_keeps e l x : is_layers_enabled e x = true -> is_layers_enabled (enable_layer e l) x = true.
Proof.
  unfold is_layers_enabled, enable_layer. rewrite !N.eqb_eq. intros Hx. apply N.bits_inj; intros n.
  apply (f_equal (fun v => N.testbit v n)) in Hx. rewrite N.land_spec in *. rewrite N.lor_spec.
  destruct (N.testbit e n), (N.testbit l n), (N.testbit x n); cbn in *; congruence.
Qed.
Lemma disable_then_disabled e l : l <> 0 -> is_layers_enabled (disable_layer e l) l = false.
Proof.
  intros Hl. unfold is_layers_enabled, disable_layer. apply N.eqb_neq. intros Heq. apply Hl.
  apply N.bits_inj; intros n. apply (f_equal (fun v => N.testbit v n)) in Heq.
  rewrite N.land_spec, N.ldiff_spec in Heq. rewrite N.bits_0.
  destruct (N.testbit e n), (N.testbit l n); cbn in *; congruence.
Qed.
Lemma set_then_exact e ls : set_layers e ls = ls.
Proof. reflexivity. Qed.

(* ArchiveWriterConfig::check: only an enabled encryption layer needs a recipient *)
Definition config_check (encrypt_enabled : bool) (recipients : N) : res unit :=
  if encrypt_enabled && (recipients =? 0) then Err EKey else Ok tt.
(* to_persistent: the header carries the encryption part exactly when the layer is enabled *)
Definition config_to_persistent {E} (enabled : N) (encrypt_enabled : bool) (enc : res E) : res (N * option E) :=
  if encrypt_enabled then match enc with Ok e => Ok (enabled, Some e) | Err x => Err x | Crash c => Crash c end
  else Ok (enabled, None).

(* PositionLayerWriter: the position advances by what the inner writer ACCEPTED *)
Definition position_write (pos : N) (inner : res N) : res (N * N) :=
  match inner with Ok n => Ok (pos + n, n) | Err e => Err e | Crash c => Crash c end.
Lemma position_write_counts pos n : position_write pos (Ok n) = Ok (pos + n, n).
Proof. reflexivity. Qed.
Lemma position_write_error_keeps pos e : position_write pos (Err e) = Err e.
Proof. reflexivity. Qed.

(* HashWrapperReader::read: the hash absorbs exactly the bytes handed to the caller *)
Definition hash_read (absorbed : bytes) (inner : res bytes) : res (bytes * bytes) :=
  match inner with Ok d => Ok (absorbed ++ d, d) | Err e => Err e | Crash c => Crash c end.
Lemma hash_read_absorbs_returned a d : hash_read a (Ok d) = Ok (a ++ d, d).
Proof. reflexivity. Qed.

(* helpers::StreamWriter::write: one append of the whole buffer; accepted = its length *)
Definition stream_write {St} (append : N -> N -> bytes -> St * res unit) (id : N) (buf : bytes) : St * res N :=
  match append id (len buf) buf with
  | (s, Ok _) => (s, Ok (len buf)) | (s, Err e) => (s, Err e) | (s, Crash c) => (s, Crash c)
  end.
