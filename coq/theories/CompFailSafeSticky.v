(* CompFailSafeSticky.v — CompFailSafeStep.pass_spec / fs_read_spec once more, with two facts
   the composition with the repair loop needs and the original statements do not record:
     * a pass / read that delivers bytes delivers at most the n asked for;
     * a pass / read that ends the stream with Ok(0) leaves the reader in a state that still
       satisfies the invariant (so the NEXT read ends the stream again: the repair loop does
       read again after an Ok(0) met inside a content block); the error endings
       (UnexpectedEof inside a brotli stream, InvalidData on the footer bytes) are kept apart.
   The proof is the one of CompFailSafeStep.pass_spec, case by case; nothing is assumed
   beyond the same DecoderLaws. *)
From MLA Require Import Base Stream CompFailSafe CompFailSafeProofs CompFailSafeStep.
From Coq Require Import ZifyBool ZifyNat ZifyN.
Open Scope N_scope.

Section Sticky.
  Variables BLOCK FSBUF : N.
  Hypothesis HFSBUF : 0 < FSBUF.
  Hypothesis HBLOCK32 : BLOCK < 2 ^ 32.
  Variable dstate : Type.
  Variable dinit : dstate.
  Variable dstep : dstate -> bytes -> N -> dresult * N * bytes * dstate.
  Variable D : bytes -> bytes.
  Variable fin : bytes -> bool.
  Hypothesis L : DecoderLaws dinit dstep D fin.
  Variable tail : bytes.
  Hypothesis Htail : dead D fin tail.
  Variable S : Stream.
  Variable w : bytes.
  Variable R : st S -> N -> Prop.
  Hypothesis HS : SrcRefines S w R.

  Notation good := (good_block BLOCK D fin).
  Notation wire_of := (wire_of tail).
  Notation fs_spec := (fs_spec D).
  Let Dm := D_mono_prefix _ dinit dstep D fin L.
  Let fin_nil := dl_fin_nil _ _ _ _ _ L.
  Notation Inv := (Inv BLOCK FSBUF dstate dinit dstep S w R).
  Notation todo := (todo D w).
  Notation mu := (mu w).
  Notation refill_spec := (refill_spec BLOCK FSBUF HFSBUF HBLOCK32 dstate dinit dstep D fin L S w R HS).
  Notation spec_lower := (spec_lower BLOCK dstate dinit dstep D fin L tail).
  Notation spec_at_end := (spec_at_end BLOCK FSBUF HFSBUF HBLOCK32 dstate dinit dstep D fin L tail Htail).

  Inductive pass_out2 (bs : list (bytes * bytes)) (cin cout : bytes) (q n : N)
      (f' : fstate dstate S) (r : res (option bytes)) : Prop :=
  | po2_data out d' bs' cin' cout' q' :
      r = Ok (Some out) -> out <> [] -> f' = FInData d' -> Forall good bs' ->
      Inv d' cin' cout' q' -> prefix (cin' ++ dropN q' w) (wire_of bs') ->
      todo bs cin cout q = out ++ todo bs' cin' cout' q' -> len out <= n -> pass_out2 bs cin cout q n f' r
  | po2_more d' bs' cin' cout' q' :
      r = Ok None -> f' = FInData d' -> Forall good bs' ->
      Inv d' cin' cout' q' -> prefix (cin' ++ dropN q' w) (wire_of bs') ->
      todo bs cin cout q = todo bs' cin' cout' q' -> mu cin' q' < mu cin q ->
      pass_out2 bs cin cout q n f' r
  | po2_stop_ok d' bs' cin' cout' q' :
      r = Ok (Some []) -> f' = FInData d' -> Forall good bs' ->
      Inv d' cin' cout' q' -> prefix (cin' ++ dropN q' w) (wire_of bs') ->
      todo bs cin cout q = [] -> todo bs' cin' cout' q' = [] -> pass_out2 bs cin cout q n f' r
  | po2_stop_err :
      r = Err EUnexpectedEof \/ r = Err EInval ->
      todo bs cin cout q = [] -> pass_out2 bs cin cout q n f' r.

  Lemma pass_spec2 d bs cin cout q n :
    Forall good bs -> Inv d cin cout q -> prefix (cin ++ dropN q w) (wire_of bs) -> 0 < n ->
    exists f' r, pass_indata BLOCK FSBUF dstate dinit dstep S d n = (f', r) /\
                 pass_out2 bs cin cout q n f' r.
  Proof.
    intros Hbs [Hreach Hur Hurle Hro Hcache (pos & HRp & Hsrc)] HX Hn.
    unfold pass_indata.
    destruct (N.ltb_spec BLOCK (fs_ur d)) as [?|_]; [lia|].
    destruct (refill_spec _ _ _ _ _ Hro Hcache HRp Hsrc)
      as (cache' & ro' & i' & pos' & eof & -> & Hro' & Hcache' & HRp' & Hsrc' & Heof1 & Heof0).
    destruct (N.ltb_spec (len cache') ro') as [?|_]; [lia|].
    destruct (N.ltb_spec FSBUF (len cache')) as [?|_]; [lia|].
    set (inp := dropN ro' cache') in *.
    set (room := N.min n (BLOCK - fs_ur d)).
    assert (Hrn : room <= n) by (unfold room; lia).
    destruct (dstep (fs_ds d) inp room) as [[[r k] out] ds'] eqn:Hstep.
    destruct (dl_bounds _ _ _ _ _ L _ _ _ _ _ _ _ _ _ Hreach Hstep) as [Hk Hout].
    destruct (split_input w inp (dropN pos' w) q k Hsrc' Hk) as [Hsp1 Hsp2].
    set (cin' := cin ++ takeN k inp).
    assert (HXeq : cin ++ dropN q w = cin' ++ dropN (q + k) w)
      by (unfold cin'; rewrite <- app_assoc, Hsp1; reflexivity).
    assert (Hoff : prefix (cin ++ inp) (cin ++ dropN q w))
      by (apply prefix_app_app; rewrite <- Hsrc'; apply prefix_app).
    assert (Hcin'X : prefix cin' (cin ++ dropN q w)) by (rewrite HXeq; apply prefix_app).
    assert (Hlenq : len inp <= len w - q).
    { rewrite <- (len_dropN q w), <- Hsrc', len_app. lia. }
    assert (Hinplen : len inp = len cache' - ro') by (unfold inp; apply len_dropN).
    assert (Hlencin' : len cin' = len cin + k) by (unfold cin'; rewrite len_app, len_takeN; lia).
    (* consequences of the laws that depend on where we are in the wire *)
    assert (Hfacts : cin_ok bs cin' /\ len (D cin') <= BLOCK /\ (bs <> [] -> okin fin (cin ++ inp))).
    { destruct Hbs as [|[c p] r0 (Hf & HD & Hl) Hr0].
      - split; [exact I|]. split; [|congruence].
        rewrite (proj1 (Htail cin' (prefix_trans _ _ _ Hcin'X HX))). rewrite len_nil. lia.
      - cbn [fst snd] in *. rewrite wire_of_cons in HX.
        assert (Hcmp : prefix (cin ++ inp) c \/ prefix c (cin ++ inp)).
        { apply prefix_comparable with (c ++ wire_of r0); [|apply prefix_app].
          apply prefix_trans with (cin ++ dropN q w); assumption. }
        assert (Hle : len cin' <= len c).
        { destruct Hcmp as [Hc|Hc].
          - apply prefix_len in Hc. rewrite len_app in Hc. lia.
          - pose proof (dl_stop _ _ _ _ _ L _ _ _ _ _ _ _ _ _ c Hreach Hstep Hf Hc). lia. }
        split; [exact Hle|]. split.
        + assert (Hp : prefix cin' c).
          { apply (prefix_app_le cin' c (wire_of r0)); [|exact Hle].
            apply prefix_trans with (cin ++ dropN q w); assumption. }
          apply Dm in Hp. rewrite HD in Hp. apply prefix_len in Hp. lia.
        + intros _. exists c. split; [exact Hf | exact Hcmp]. }
    destruct Hfacts as (Hok' & HDb & Hokin).
    (* the state after a pass that stays in the stream *)
    assert (Hsrc2 : dropN (ro' + k) cache' ++ dropN pos' w = dropN (q + k) w).
    { rewrite <- Hsp2. unfold inp. rewrite dropN_dropN. reflexivity. }
    assert (Hroom : room <= BLOCK - fs_ur d) by (unfold room; lia).
    assert (Hfull : room = 0 -> prefix cout (D cin') -> cout = D cin').
    { intros Hr0 Hp. apply prefix_len_eq; [exact Hp|]. unfold room in Hr0. lia. }
    assert (Hadd : add_ur (fs_ur d) out = Ok (fs_ur d + len out)).
    { unfold add_ur. destruct (N.leb_spec (2 ^ 32) (len out)); [lia|].
      destruct (N.leb_spec (2 ^ 32) (fs_ur d + len out)); [lia | reflexivity]. }
    assert (Hstay : r = DNeedsMoreInput \/ r = DNeedsMoreOutput ->
                    Inv (mkFs cache' (ro' + k) ds' (fs_ur d + len out) i') cin' (cout ++ out) (q + k) /\
                    todo bs cin cout q = out ++ todo bs cin' (cout ++ out) (q + k)).
    { intros Hr.
      assert (Hsound : prefix (cout ++ out) (D cin')).
      { apply (dl_sound _ _ _ _ _ L _ _ _ _ _ _ _ _ _ Hreach Hstep). destruct Hr; congruence. }
      split.
      - constructor; cbn [fs_ds fs_ur fs_ro fs_cache fs_in].
        + eapply dreach_step; eassumption.
        + rewrite len_app. lia.
        + lia.
        + lia.
        + exact Hcache'.
        + exists pos'. split; [exact HRp' | exact Hsrc2].
      - unfold CompFailSafeStep.todo. rewrite <- HXeq. apply dropN_prefix_app.
        apply prefix_trans with (D cin'); [exact Hsound|].
        apply spec_lower; assumption. }
    assert (HX2 : prefix (cin' ++ dropN (q + k) w) (wire_of bs)) by (rewrite <- HXeq; exact HX).
    destruct r.
    - (* ResultSuccess *)
      destruct (dl_success _ _ _ _ _ L _ _ _ _ _ _ _ _ Hreach Hstep) as [Hfin HDeq].
      fold cin' in Hfin, HDeq.
      destruct Hbs as [|[c p] bs0 (Hf & HD & Hl) Hbs0].
      { exfalso. rewrite (proj2 (Htail cin' (prefix_trans _ _ _ Hcin'X HX))) in Hfin. discriminate. }
      cbn [fst snd cin_ok] in *. rewrite wire_of_cons in HX.
      assert (Hc : cin' = c).
      { assert (Hp : prefix cin' c).
        { apply (prefix_app_le cin' c (wire_of bs0)); [|exact Hok'].
          apply prefix_trans with (cin ++ dropN q w); assumption. }
        destruct Hp as [b Hb]. rewrite Hb in Hf.
        rewrite (dl_fin_pfree _ _ _ _ _ L _ _ Hfin Hf) in Hb. rewrite app_nil_r in Hb. auto. }
      assert (Hp : p = cout ++ out) by (rewrite HDeq, Hc; auto).
      set (d' := mkFs cache' (ro' + k) dinit 0 i').
      assert (HI' : Inv d' [] [] (q + k)).
      { constructor; cbn [d' fs_ds fs_ur fs_ro fs_cache fs_in]; try rewrite len_nil; try lia.
        - constructor.
        - reflexivity.
        - exists pos'. split; [exact HRp' | exact Hsrc2]. }
      assert (HX' : prefix ([] ++ dropN (q + k) w) (wire_of bs0)).
      { cbn [app]. apply (prefix_app_inv c). rewrite HXeq, Hc in HX. exact HX. }
      assert (Htodo : todo ((c, p) :: bs0) cin cout q = out ++ todo bs0 [] [] (q + k)).
      { unfold CompFailSafeStep.todo. rewrite HXeq, Hc. cbn [CompFailSafeProofs.fs_spec app].
        destruct (N.leb_spec (len c) (len (c ++ dropN (q + k) w))) as [_|H]; [|rewrite len_app in H; lia].
        rewrite dropN_len_app, len_nil, dropN_0. rewrite Hp, <- app_assoc. apply dropN_len_app. }
      exists (FInData d').
      unfold finish. cbn [fs_ur d'].
      destruct (N.eqb_spec (len out) 0) as [Ho|Ho].
      + apply len_0_nil in Ho. subst out. cbn [andb].
        destruct eof.
        * destruct (N.ltb_spec 0 0) as [?|_]; [lia|].
          assert (Hnew : todo bs0 [] [] (q + k) = []).
          { unfold CompFailSafeStep.todo. rewrite len_nil, dropN_0. cbn [app].
            destruct (Heof1 eq_refl) as [Hq0 _].
            rewrite <- dropN_dropN, Hq0, dropN_nil.
            apply (fs_spec_nil BLOCK D fin fin_nil Dm tail Htail bs0 Hbs0). }
          eexists; split; [reflexivity|].
          eapply po2_stop_ok; try eassumption; try reflexivity.
          rewrite Htodo, Hnew. reflexivity.
        * destruct (N.eqb_spec n 0) as [?|_]; [lia|]. cbn [negb].
          eexists; split; [reflexivity|].
          eapply po2_more; try eassumption; try reflexivity.
          unfold CompFailSafeStep.mu. change (len (@nil N) =? 0) with true. cbv iota.
          destruct (N.eqb_spec (len cin) 0) as [Hc0|Hc0]; [|lia].
          assert (0 < len c).
          { destruct c; [rewrite fin_nil in Hf; discriminate | rewrite len_cons; lia]. }
          rewrite <- Hc in H. lia.
      + cbn [andb]. eexists; split; [reflexivity|].
        eapply po2_data; try eassumption; try reflexivity; [|lia].
        intros ->. rewrite len_nil in Ho. lia.
    - (* NeedsMoreInput *)
      destruct (dl_nmi _ _ _ _ _ L _ _ _ _ _ _ _ _ Hreach Hstep) as [Hkall Hpend].
      destruct (Hstay (or_introl eq_refl)) as [HI' Htodo].
      rewrite Hadd.
      set (d' := mkFs cache' (ro' + k) ds' (fs_ur d + len out) i') in *.
      exists (FInData d').
      unfold finish.
      destruct (N.eqb_spec (len out) 0) as [Ho|Ho].
      + apply len_0_nil in Ho. subst out. cbn [andb].
        destruct eof.
        * (* end of the input: everything decodable has been delivered *)
          destruct (Heof1 eq_refl) as [Hq0 Hi0].
          assert (Hk0 : k = 0) by (rewrite Hi0, len_nil in Hk; lia).
          assert (Hcc : cin' = cin) by (unfold cin'; rewrite Hk0, takeN_0; apply app_nil_r).
          assert (HcD : cout = D cin).
          { assert (Hs : prefix cout (D cin')).
            { pose proof (dl_sound _ _ _ _ _ L _ _ _ _ _ _ _ _ _ Hreach Hstep) as Hs.
              rewrite app_nil_r in Hs. apply Hs. discriminate. }
            rewrite Hcc in *. destruct Hpend as [Hr|He].
            - apply Hfull; [rewrite len_nil in Hr; auto | exact Hs].
            - rewrite Hi0, !app_nil_r in He. exact He. }
          assert (Hstop : todo bs cin cout q = []).
          { unfold CompFailSafeStep.todo. rewrite Hq0, app_nil_r.
            rewrite spec_at_end; [rewrite <- HcD; apply dropN_len_self | exact Hbs | | rewrite <- Hcc; exact Hok'].
            rewrite Hq0, app_nil_r in HX. exact HX. }
          destruct (0 <? fs_ur d'); (eexists; split; [reflexivity|]).
          -- apply po2_stop_err; auto.
          -- eapply po2_stop_ok; try eassumption; try reflexivity.
             rewrite Hstop in Htodo. cbn [app] in Htodo. symmetry; exact Htodo.
        * destruct (N.eqb_spec n 0) as [?|_]; [lia|]. cbn [negb].
          eexists; split; [reflexivity|].
          cbn [app] in Htodo.
          eapply po2_more; try eassumption; try reflexivity.
          pose proof (nonnil_len_pos _ (Heof0 eq_refl)) as Hi.
          unfold CompFailSafeStep.mu. destruct (len cin' =? 0); destruct (len cin =? 0); lia.
      + cbn [andb]. eexists; split; [reflexivity|].
        eapply po2_data; try eassumption; try reflexivity; [|lia].
        intros ->. rewrite len_nil in Ho. lia.
    - (* NeedsMoreOutput *)
      destruct (dl_nmo _ _ _ _ _ L _ _ _ _ _ _ _ _ Hreach Hstep) as [Hrm Hne].
      fold cin' in Hne.
      destruct (Hstay (or_intror eq_refl)) as [HI' Htodo].
      rewrite Hadd.
      set (d' := mkFs cache' (ro' + k) ds' (fs_ur d + len out) i') in *.
      exists (FInData d').
      destruct (N.eqb_spec (len out) 0) as [Ho|Ho].
      + exfalso. apply len_0_nil in Ho. subst out. rewrite app_nil_r in Hne. apply Hne.
        apply Hfull; [rewrite len_nil in Hrm; auto|].
        pose proof (dl_sound _ _ _ _ _ L _ _ _ _ _ _ _ _ _ Hreach Hstep) as Hs.
        rewrite app_nil_r in Hs. apply Hs. discriminate.
      + unfold finish. destruct (N.eqb_spec (len out) 0) as [?|_]; [lia|]. cbn [andb].
        eexists; split; [reflexivity|].
        eapply po2_data; try eassumption; try reflexivity; [|lia].
        intros ->. rewrite len_nil in Ho. lia.
    - (* ResultFailure *)
      destruct Hbs as [|cp bs0 Hcp Hbs0].
      + eexists; eexists; split; [reflexivity|]. apply po2_stop_err; [auto|].
        unfold CompFailSafeStep.todo. cbn [CompFailSafeProofs.fs_spec].
        rewrite (proj1 (Htail _ HX)). apply dropN_nil.
      + exfalso. apply (dl_nofail _ _ _ _ _ L _ _ _ _ _ _ _ _ Hreach Hstep).
        apply Hokin. discriminate.
  Qed.


  (* ---------- one read ---------- *)
  Inductive read_out2 (bs : list (bytes * bytes)) (cin cout : bytes) (q n : N)
      (f' : fstate dstate S) (r : res bytes) : Prop :=
  | ro2_data out d' bs' cin' cout' q' :
      r = Ok out -> out <> [] -> f' = FInData d' -> Forall good bs' ->
      Inv d' cin' cout' q' -> prefix (cin' ++ dropN q' w) (wire_of bs') ->
      todo bs cin cout q = out ++ todo bs' cin' cout' q' -> len out <= n -> read_out2 bs cin cout q n f' r
  | ro2_stop_ok d' bs' cin' cout' q' :
      r = Ok [] -> f' = FInData d' -> Forall good bs' ->
      Inv d' cin' cout' q' -> prefix (cin' ++ dropN q' w) (wire_of bs') ->
      todo bs cin cout q = [] -> todo bs' cin' cout' q' = [] -> read_out2 bs cin cout q n f' r
  | ro2_stop_err :
      r = Err EUnexpectedEof \/ r = Err EInval ->
      todo bs cin cout q = [] -> read_out2 bs cin cout q n f' r.

  Notation fs_read := (fs_read BLOCK FSBUF dstate dinit dstep S).

  Lemma fs_read_spec2 pfuel : forall d bs cin cout q n,
    Forall good bs -> Inv d cin cout q -> prefix (cin ++ dropN q w) (wire_of bs) -> 0 < n ->
    (N.to_nat (mu cin q) < pfuel)%nat ->
    exists f' r, fs_read pfuel (FInData d) n = (f', r) /\ read_out2 bs cin cout q n f' r.
  Proof.
    induction pfuel as [|pfuel IH]; intros d bs cin cout q n Hbs HI HX Hn Hfuel; [lia|].
    cbn [CompFailSafe.fs_read fs_pass].
    destruct (pass_spec2 d bs cin cout q n Hbs HI HX Hn) as (f' & r & -> & Hout).
    destruct Hout as [out d' bs' cin' cout' q' -> Hne -> Hbs' HI' HX' Htodo Hlen
                     | d' bs' cin' cout' q' -> -> Hbs' HI' HX' Htodo Hmu
                     | d' bs' cin' cout' q' -> -> Hbs' HI' HX' Htodo Htodo'
                     | Hr Htodo].
    - eexists; eexists; split; [reflexivity|]. eapply ro2_data; eauto.
    - destruct (IH d' bs' cin' cout' q' n Hbs' HI' HX' Hn) as (f'' & r'' & -> & Hout'); [lia|].
      eexists; eexists; split; [reflexivity|].
      destruct Hout' as [out d2 bs2 cin2 cout2 q2 -> Hne -> Hbs2 HI2 HX2 Htodo2 Hlen2
                        | d2 bs2 cin2 cout2 q2 -> -> Hbs2 HI2 HX2 Htodo2 Htodo2'
                        | Hr Htodo2].
      + eapply ro2_data; eauto. rewrite Htodo. exact Htodo2.
      + eapply ro2_stop_ok; eauto. rewrite Htodo. exact Htodo2.
      + apply ro2_stop_err; [exact Hr|]. rewrite Htodo. exact Htodo2.
    - eexists; eexists; split; [reflexivity|]. eapply ro2_stop_ok; eauto.
    - destruct Hr as [-> | ->]; (eexists; eexists; split; [reflexivity|]); apply ro2_stop_err; auto.
  Qed.
End Sticky.
