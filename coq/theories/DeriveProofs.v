(* DeriveProofs.v — C19: proofs about Derive.v (seeded key generation, key derivation). *)
From MLA Require Import Base Keys KeysProofs Derive.
From MLA.Concrete Require Import HexS Sha512 Hmac Hkdf ChaCha20 X25519.
From Coq Require Import ZifyBool ZifyNat ZifyN.
Open Scope N_scope.

(* ------------------------------------------------------------------ *)
(* 1. clamping                                                         *)
(* ------------------------------------------------------------------ *)

Lemma upd_nth_ext n (f g : N -> N) l : (forall x, f x = g x) -> upd_nth n f l = upd_nth n g l.
Proof.
  intros Hfg. revert n; induction l as [|x r IH]; intros [|n]; cbn [upd_nth]; try reflexivity.
  - now rewrite Hfg.
  - now rewrite IH.
Qed.

Lemma upd_nth_twice n (f g : N -> N) l :
  upd_nth n f (upd_nth n g l) = upd_nth n (fun x => f (g x)) l.
Proof.
  revert n; induction l as [|x r IH]; intros [|n]; cbn [upd_nth]; try reflexivity.
  now rewrite IH.
Qed.

Lemma upd_nth_comm_0_S n (f g : N -> N) l :
  upd_nth 0 g (upd_nth (S n) f l) = upd_nth (S n) f (upd_nth 0 g l).
Proof. destruct l as [|x r]; reflexivity. Qed.

Lemma clamp_lo_idem x : N.land (N.land x 248) 248 = N.land x 248.
Proof. rewrite <- N.land_assoc. reflexivity. Qed.

Lemma clamp_hi_idem x :
  N.lor (N.land (N.lor (N.land x 127) 64) 127) 64 = N.lor (N.land x 127) 64.
Proof.
  rewrite N.land_lor_distr_l, <- N.land_assoc, <- N.lor_assoc. reflexivity.
Qed.

Theorem clamp_idem k : clamp (clamp k) = clamp k.
Proof.
  unfold clamp. rewrite upd_nth_comm_0_S, upd_nth_twice, upd_nth_twice.
  rewrite (upd_nth_ext 0 _ (fun x => N.land x 248)) by apply clamp_lo_idem.
  apply upd_nth_ext, clamp_hi_idem.
Qed.

Lemma clamped_clamp k : clamped (clamp k).
Proof. apply clamp_idem. Qed.

Lemma clampedb_spec k : clampedb k = true <-> clamped k.
Proof. apply bytes_eqb_eq. Qed.

(* X25519 uses the scalar only through its clamped value *)
Lemma decode_scalar_clamp k : length k = 32%nat -> decode_scalar (clamp k) = decode_scalar k.
Proof.
  intros H. unfold decode_scalar.
  rewrite (fit32_id (clamp k)) by (rewrite length_clamp; exact H).
  rewrite (fit32_id k) by exact H. now rewrite clamp_idem.
Qed.

Theorem x25519_base_clamp k : length k = 32%nat -> X25519.x25519_base (clamp k) = X25519.x25519_base k.
Proof.
  intros H. unfold X25519.x25519_base, x25519. now rewrite decode_scalar_clamp.
Qed.

(* ------------------------------------------------------------------ *)
(* 2. generic statements                                               *)
(* ------------------------------------------------------------------ *)

Lemma Ok_inj {A} (a b : A) : Ok a = Ok b -> a = b.
Proof. intros H. injection H. auto. Qed.

Section Gen.
  Variable sha512 : bytes -> bytes.
  Variable hkdf512 : option bytes -> bytes -> bytes -> N -> bytes.
  Variable rng_fill : bytes -> N -> bytes.
  Variable x25519_base : bytes -> bytes.
  Variable ed_to_mont : bytes -> option bytes.
  Variable okm_len : N.

  Hypothesis Hsha_len : forall b, length (sha512 b) = 64%nat.
  Hypothesis Hhkdf_len : forall s k p, length (hkdf512 s k p 32) = 32%nat.
  Hypothesis Hrng_len : forall s, length s = 32%nat -> length (rng_fill s 32) = 32%nat.
  Hypothesis Hrng_wf : forall s n, wf_bytes (rng_fill s n).
  Hypothesis Hx_len : forall k, length (x25519_base k) = 32%nat.
  Hypothesis Hx_wf : forall k, wf_bytes (x25519_base k).

  Notation step := (derive_step_code hkdf512 rng_fill).
  Notation dcode := (derive_code hkdf512 rng_fill).
  Notation ddoc := (derive_doc hkdf512 rng_fill okm_len).
  Notation sdoc := (derive_step_doc hkdf512 rng_fill okm_len).
  Notation loop := (derive_loop sha512 hkdf512 rng_fill).
  Notation kfiles := (keyderive_files sha512 hkdf512 rng_fill x25519_base).
  Notation gfiles := (keygen_seed_files sha512 rng_fill x25519_base).
  Notation fop := (files_of_private x25519_base).
  Notation ppriv := (parse_openssl_25519_privkey sha512).
  Notation ppriv_der := (parse_openssl_25519_privkey_der sha512).
  Notation ppub := (parse_openssl_25519_pubkey ed_to_mont).

  Lemma length_step k p : length (step k p) = 32%nat.
  Proof. unfold derive_step_code, apply_derive, PRIVATE_LEN, DERIVE_SEED_LEN. apply Hrng_len, Hhkdf_len. Qed.
  Lemma wf_step k p : wf_bytes (step k p).
  Proof. apply Hrng_wf. Qed.

  (* ---- composition on stored octets: a fold, for ALL path lists ---- *)
  Theorem derive_code_app k p1 p2 : dcode k (p1 ++ p2) = dcode (dcode k p1) p2.
  Proof. apply fold_left_app. Qed.
  Theorem derive_code_nil k : dcode k [] = k.
  Proof. reflexivity. Qed.

  Lemma derive_doc_clamped k ps : clamped (ddoc k ps).
  Proof.
    unfold derive_doc, secret_doc.
    assert (forall ps a, clamped a -> clamped (fold_left sdoc ps a)) as H.
    { induction ps0 as [|p r IH]; intros a Ha; [exact Ha|]. cbn [fold_left]. apply IH, clamped_clamp. }
    apply H, clamped_clamp.
  Qed.
  Theorem derive_doc_app k p1 p2 : ddoc k (p1 ++ p2) = ddoc (ddoc k p1) p2.
  Proof.
    unfold derive_doc at 1 2. rewrite fold_left_app. fold (ddoc k p1).
    unfold secret_doc at 1. now rewrite (derive_doc_clamped k p1).
  Qed.

  (* ---- code = README when every parent is stored clamped (D18 is exactly the rest) ---- *)
  Hypothesis Hprefix : forall s k p, takeN 32 (hkdf512 s k p okm_len) = hkdf512 s k p 32.

  Lemma step_doc_of_code k p : sdoc k p = clamp (step k p).
  Proof.
    unfold derive_step_doc, derive_step_code, apply_derive, PRIVATE_LEN, DERIVE_SEED_LEN.
    now rewrite Hprefix.
  Qed.

  Theorem derive_code_eq_doc : forall ps k,
    parents_clamped hkdf512 rng_fill k ps -> clamp (dcode k ps) = ddoc k ps.
  Proof.
    induction ps as [|p r IH]; intros k H; [reflexivity|].
    cbn [parents_clamped] in H. destruct H as [Hk Hr].
    unfold derive_code, derive_doc. cbn [fold_left].
    unfold secret_doc. rewrite Hk, step_doc_of_code.
    exact (IH _ Hr).
  Qed.

  Corollary derive_code_eq_doc_single k p :
    clamped k -> clamp (dcode k [p]) = ddoc k [p].
  Proof. intros H. apply derive_code_eq_doc. cbn. auto. Qed.

  (* for any parent, the code's result is the README's result for the parent's stored
     octets taken AS IF they were the clamped key: the code omits exactly the clamping of
     the HKDF input *)
  Lemma keygen_prng_seed_ok seed : keygen_prng_seed sha512 seed = Ok (takeN 32 (sha512 seed)).
  Proof.
    unfold keygen_prng_seed, slice, PRNG_SEED_LEN, len. rewrite Hsha_len. reflexivity.
  Qed.

  Theorem keygen_files_eq seed :
    gfiles seed = Ok (fop (rng_fill (takeN 32 (sha512 seed)) 32)).
  Proof. unfold keygen_seed_files. rewrite keygen_prng_seed_ok. reflexivity. Qed.

  Theorem keygen_code_eq_doc seed :
    clamp (rng_fill (takeN 32 (sha512 seed)) 32) = keygen_doc sha512 rng_fill seed.
  Proof. reflexivity. Qed.

  Lemma length_keygen_private seed : length (rng_fill (takeN 32 (sha512 seed)) 32) = 32%nat.
  Proof. apply Hrng_len. unfold takeN. rewrite firstn_length, Hsha_len. reflexivity. Qed.

  (* ---- the files of a key pair: public matches private ---- *)
  Theorem files_of_private_match priv : length priv = 32%nat -> wf_bytes priv ->
    ppriv_der (fst (fop priv)) = Ok priv /\
    ppub (snd (fop priv)) = Ok (x25519_base priv) /\
    (is_ok (pem_parse (export_priv_der priv)) = false -> ppriv (fst (fop priv)) = Ok priv).
  Proof.
    intros Hl Hwf.
    destruct (generated_keypair_parses_back sha512 ed_to_mont x25519_base priv Hl Hwf (Hx_len _) (Hx_wf _))
      as (A & _ & _ & D).
    unfold files_of_private, key_files. cbn [fst snd]. repeat split.
    - exact A.
    - exact D.
    - intros Hnp. unfold generate_keypair_from_seed. cbn [fst].
      unfold parse_openssl_25519_privkey. rewrite pem_first_not_pem by exact Hnp.
      apply privkey_der_export, Hl.
  Qed.

  Theorem keygen_pub_matches_priv seed f g : gfiles seed = Ok (f, g) ->
    exists priv, length priv = 32%nat /\
      f = export_priv_der priv /\
      ppriv_der f = Ok priv /\ ppub g = Ok (x25519_base priv) /\
      clamp priv = keygen_doc sha512 rng_fill seed.
  Proof.
    rewrite keygen_files_eq. intros H. apply Ok_inj in H.
    exists (rng_fill (takeN 32 (sha512 seed)) 32).
    pose proof (length_keygen_private seed) as Hl.
    destruct (files_of_private_match _ Hl (Hrng_wf _ _)) as (A & B & _).
    rewrite H in A, B. cbn [fst snd] in A, B. repeat split; auto.
    apply (f_equal fst) in H. cbn [fst] in H. rewrite <- H. reflexivity.
  Qed.

  (* ---- the derivation loop ---- *)
  Lemma reparse_step k p : is_ok (pem_parse (export_priv_der (step k p))) = false ->
    ppriv (export_priv_der (step k p)) = Ok (step k p).
  Proof.
    intros Hnp. unfold parse_openssl_25519_privkey. rewrite pem_first_not_pem by exact Hnp.
    apply privkey_der_export, length_step.
  Qed.

  Lemma derive_loop_ok : forall ps k last, reparse_ok hkdf512 rng_fill k ps ->
    loop k last ps = Ok (match ps with [] => last | _ => Some (dcode k ps) end).
  Proof.
    induction ps as [|p r IH]; intros k last H; [reflexivity|].
    cbn [reparse_ok] in H. destruct H as [H1 H2].
    cbn [derive_loop]. rewrite reparse_step by exact H1.
    rewrite (IH _ _ H2). unfold derive_code. cbn [fold_left].
    destruct r; reflexivity.
  Qed.

  (* the file-level function is the fold on stored octets, as long as no intermediate
     private DER frames as a PEM block *)
  Theorem keyderive_files_ok input k ps :
    ppriv input = Ok k -> ps <> [] -> reparse_ok hkdf512 rng_fill k ps ->
    kfiles input ps = Ok (fop (dcode k ps)).
  Proof.
    intros Hp Hne Hr. unfold keyderive_files. rewrite Hp.
    destruct ps as [|p r]; [contradiction|].
    rewrite (derive_loop_ok _ _ _ Hr). reflexivity.
  Qed.

  (* whatever the loop returns is a generator output *)
  Lemma derive_loop_some : forall ps k last priv, loop k last ps = Ok (Some priv) ->
    last = Some priv \/ exists k' p, priv = step k' p.
  Proof.
    induction ps as [|p r IH]; intros k last priv H.
    - cbn in H. injection H as ->. now left.
    - cbn [derive_loop] in H.
      destruct (ppriv (export_priv_der (step k p))) as [s|e|c]; try discriminate H.
      destruct (IH _ _ _ H) as [E|E]; [|right; exact E].
      injection E as <-. right. eauto.
  Qed.

  Theorem keyderive_pub_matches_priv input ps f g : kfiles input ps = Ok (f, g) ->
    exists priv, length priv = 32%nat /\
      f = export_priv_der priv /\
      ppriv_der f = Ok priv /\ ppub g = Ok (x25519_base priv).
  Proof.
    unfold keyderive_files. destruct (ppriv input) as [k|e|c]; try discriminate.
    destruct ps as [|p r]; [discriminate|].
    destruct (loop k None (p :: r)) as [[priv|]|e|c] eqn:E; cbn [bind]; try discriminate.
    intros H. apply Ok_inj in H.
    destruct (derive_loop_some _ _ _ _ E) as [E'|(k' & p' & ->)]; [discriminate E'|].
    exists (step k' p').
    destruct (files_of_private_match _ (length_step k' p') (wf_step k' p')) as (A & B & _).
    unfold files_of_private in A, B. rewrite H in A, B. cbn [fst snd] in A, B.
    repeat split; auto using length_step.
    apply (f_equal fst) in H. cbn [fst] in H. rewrite <- H. reflexivity.
  Qed.

  (* ---- composition at file level, UNCONDITIONAL: deriving along p1 ++ p2 is deriving along
     p1, then along p2 from the private file just written (same outcome, crashes included) ---- *)
  Lemma derive_loop_last_irrelevant k l1 l2 ps : ps <> [] -> loop k l1 ps = loop k l2 ps.
  Proof. destruct ps as [|p r]; [contradiction|reflexivity]. Qed.

  Lemma derive_loop_app p2 : forall p1 k last, p1 <> [] ->
    loop k last (p1 ++ p2) =
    match loop k last p1 with
    | Ok (Some priv1) =>
      match ppriv (export_priv_der priv1) with
      | Ok s1 => loop s1 (Some priv1) p2
      | Err _ => Crash SITE_MAIN_880
      | Crash c => Crash c
      end
    | Ok None => Crash SITE_MAIN_884
    | Err e => Err e
    | Crash c => Crash c
    end.
  Proof.
    induction p1 as [|p r IH]; intros k last Hne; [contradiction|].
    cbn [app derive_loop].
    destruct (ppriv (export_priv_der (step k p))) as [s|e|c] eqn:E; try reflexivity.
    destruct r as [|p' r'].
    - cbn [app derive_loop]. rewrite E. reflexivity.
    - apply IH. discriminate.
  Qed.

  Lemma derive_loop_reparsed : forall ps k last priv, loop k last ps = Ok (Some priv) ->
    (ps = [] /\ last = Some priv) \/ (exists s, ppriv (export_priv_der priv) = Ok s).
  Proof.
    induction ps as [|p r IH]; intros k last priv H.
    - cbn in H. injection H as ->. left. split; reflexivity.
    - cbn [derive_loop] in H.
      destruct (ppriv (export_priv_der (step k p))) as [s|e|c] eqn:E; try discriminate H.
      right. destruct (IH _ _ _ H) as [[_ E']|E']; [|exact E'].
      injection E' as <-. eauto.
  Qed.

  Theorem keyderive_files_compose input p1 p2 : p1 <> [] -> p2 <> [] ->
    kfiles input (p1 ++ p2) = do kp <- kfiles input p1; kfiles (fst kp) p2.
  Proof.
    intros H1 H2. unfold keyderive_files at 1 2.
    destruct (ppriv input) as [k|e|c]; try reflexivity.
    destruct p1 as [|a p1']; [contradiction|]. cbn [app].
    change (a :: p1' ++ p2) with ((a :: p1') ++ p2).
    rewrite derive_loop_app by discriminate.
    destruct (loop k None (a :: p1')) as [[priv1|]|e|c] eqn:E; cbn [bind]; try reflexivity.
    unfold keyderive_files, key_files, generate_keypair_from_seed. cbn [fst].
    destruct (derive_loop_reparsed _ _ _ _ E) as [[E' _]|[s1 Es]]; [discriminate E'|].
    rewrite Es.
    destruct p2 as [|b p2']; [contradiction|].
    rewrite (derive_loop_last_irrelevant s1 (Some priv1) None) by discriminate. reflexivity.
  Qed.

  (* the outcome depends on the input file only through the parsed secret: PEM or DER,
     X25519 or Ed25519 container, any two files holding the same secret give the same files.
     (The model has no other input: no generator state, clock or environment.) *)
  Theorem keyderive_depends_on_secret_only i1 i2 ps :
    ppriv i1 = ppriv i2 -> kfiles i1 ps = kfiles i2 ps.
  Proof. intros H. unfold keyderive_files. now rewrite H. Qed.
End Gen.
