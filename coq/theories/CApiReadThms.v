(* CApiReadThms.v — proofs about CApiRead.v, part 2: the header read through a stream, the
   layer stack over any source, and the end-to-end statements of C20 for the reading side
   (extract_delivers, extract failure clauses, info_reports_header).  C01's and C12's
   theorems (RoundTrip.rt_open / rt_list, LinearRoundTrip.linear_roundtrip,
   ArchiveProofs.lower_write_ok, load_config_enc, load_config_plain) are USED, not re-proved. *)
From MLA Require Import Limit.
From MLA Require Import Base Stream EncLayer EncLayerProofs CompLayer CompLayerProofs RawLayer RawLayerProofs
  CompWriterProofs LayerStack Blocks Writer WriterProofs Reader EncWriter EncWriterProofs Format FormatProofs Ecies
  RoundTripBlocks RoundTripWriter RoundTripReader RoundTripRun RoundTrip Archive ArchiveProofs
  LinearRoundTripDefs LinearRoundTrip CApi CApiProofs CApiRead CApiReadProofs.
From Coq Require Import ZifyBool ZifyNat ZifyN Permutation Sorted.
Open Scope N_scope.

(* ------------------------------------------------------------------ the header through a stream *)
Section HeaderS.
  Variable LIMIT : N.
  Local Hint Extern 0 Limit => exact LIMIT : typeclass_instances.
  Variable S : Stream.
  Variable a : bytes.
  Variable R : st S -> N -> Prop.
  Hypothesis HR : Refines S a R.

  Lemma rx_at x y z s : a = x ++ y ++ z -> R s (len x) ->
    exists s', rx S s (len y) = (s', Ok y) /\ R s' (len (x ++ y)).
  Proof.
    intros Ha HRs. unfold rx.
    destruct (read_exact_spec S a R HR (Datatypes.S (N.to_nat (len y))) s (len x) (len y) HRs ltac:(lia))
      as (s' & HR' & Heq).
    assert (Hle : len x + len y <= len a) by (rewrite Ha, !len_app; lia).
    exists s'. rewrite Heq. destruct (N.leb_spec (len x + len y) (len a)) as [_|?]; [|lia].
    split; [f_equal; f_equal; rewrite Ha; apply sliceN_app_mid|].
    rewrite len_app. replace (len x + N.min (len y) (len a - len x)) with (len x + len y) in HR' by lia. exact HR'.
  Qed.

  (* over ANY bytes the header reads never reach a crash site *)
  Lemma rx_total s p n : R s p ->
    exists s', R s' (p + N.min n (len a - p)) /\
      rx S s n = (s', if p + n <=? len a then Ok (sliceN p n a) else Err EUnexpectedEof).
  Proof. intros HRs. unfold rx. apply (read_exact_spec S a R HR); [exact HRs|lia]. Qed.

  Lemma hdr_pure_no_crash hb : is_crash (hdr_pure LIMIT hb) = false.
  Proof.
    unfold hdr_pure. destruct (Archive.read_header LIMIT hb) as [[h r]|e|c] eqn:E; try reflexivity.
    exfalso. unfold Archive.read_header in E.
    destruct (take 3 hb) as [[m r0]|]; [|discriminate].
    destruct (negb (bytes_eqb m MAGIC)); [discriminate|].
    destruct (take_le 4 r0) as [[v r1]|]; [|discriminate].
    destruct (negb (v =? VERSION)); [discriminate|].
    destruct r1 as [|layers [|opt r2]]; try discriminate.
    destruct (opt =? 0); [destruct (LIMIT <? 2); discriminate|].
    destruct (opt =? 1); [|discriminate].
    destruct (parse_enc_header r2) as [[eh r3]|]; [|discriminate].
    destruct (LIMIT <? config_size (mkH layers (Some eh))); discriminate.
  Qed.

  Theorem read_header_S_total s p : R s p -> is_crash (snd (read_header_S LIMIT S s)) = false.
  Proof.
    intros H0. unfold read_header_S.
    destruct (rx_total s p 3 H0) as (s1 & H1 & ->).
    destruct (p + 3 <=? len a); [|reflexivity].
    destruct (negb (bytes_eqb _ MAGIC)); [reflexivity|].
    destruct (rx_total s1 _ 4 H1) as (s2 & H2 & ->).
    match goal with |- context [if ?c then Ok _ else Err _] => destruct c; [|reflexivity] end.
    match goal with |- context [if negb ?c then _ else _] => destruct (negb c); [reflexivity|] end.
    destruct (rx_total s2 _ 2 H2) as (s3 & H3 & ->).
    match goal with |- context [if ?c then Ok _ else Err _] => destruct c; [|reflexivity] end.
    match goal with |- context [if ?c =? 1 then _ else _] => destruct (c =? 1) end; [|apply hdr_pure_no_crash].
    destruct (rx_total s3 _ 40 H3) as (s4 & H4 & ->).
    match goal with |- context [if ?c then Ok _ else Err _] => destruct c; [|reflexivity] end.
    match goal with |- context [if LIMIT <? ?c then _ else _] => destruct (LIMIT <? c); [reflexivity|] end.
    match goal with |- context [rx S s4 ?n] => destruct (rx_total s4 _ n H4) as (s5 & H5 & ->) end.
    match goal with |- context [if ?c then Ok _ else Err _] => destruct c; [|reflexivity] end.
    apply hdr_pure_no_crash.
  Qed.

  (* the header the writer model serialises is read back, and the source then stands right
     behind it *)
  Theorem read_header_S_written h data s : a = ser_header h ++ data ->
    wf_enc_opt h -> config_size h <= LIMIT -> R s 0 ->
    exists s', read_header_S LIMIT S s = (s', Ok h) /\ R s' (len (ser_header h)).
  Proof.
    intros Ha Hwf Hlim H0.
    set (m := MAGIC). set (v := le32 VERSION).
    assert (Hv : le_val v = VERSION) by (unfold v; apply le_val_le32; cbv; reflexivity).
    assert (Hpure : hdr_pure LIMIT (ser_header h) = Ok h).
    { unfold hdr_pure. rewrite <- (app_nil_r (ser_header h)). now rewrite (read_header_ser LIMIT h [] Hwf Hlim). }
    unfold read_header_S.
    destruct h as [layers [eh|]]; unfold wf_enc_opt in Hwf; cbn [h_enc] in Hwf.
    - (* encrypted: magic, version, [layers; 1], public ++ count, keys ++ nonce *)
      destruct Hwf as (Hp & Hn & Hk & Hkt).
      set (lo := [layers; 1]).
      set (pk := eh_public eh ++ le64 (len (eh_keys eh))).
      set (rest := concat (map (fun kt : bytes * bytes => fst kt ++ snd kt) (eh_keys eh)) ++ eh_nonce eh).
      assert (Hser : ser_header (mkH layers (Some eh)) = m ++ v ++ lo ++ pk ++ rest).
      { unfold ser_header, ser_enc_header, m, v, lo, pk, rest. cbn [h_layers h_enc]. rewrite <- !app_assoc. reflexivity. }
      assert (Hlpk : len pk = 40) by (unfold pk; rewrite len_app, Hp, len_le64; reflexivity).
      assert (Hcnt : le_val (dropN 32 pk) = len (eh_keys eh)).
      { unfold pk. rewrite <- Hp, dropN_len_app. apply le_val_le64. exact Hk. }
      assert (Hlrest : len rest = 48 * len (eh_keys eh) + 8).
      { assert (Hc : len (concat (map (fun kt : bytes * bytes => fst kt ++ snd kt) (eh_keys eh))) = 48 * len (eh_keys eh)).
        { apply len_concat_const. intros [k0 t0] Hin. rewrite Forall_forall in Hkt. destruct (Hkt _ Hin) as [H1 H2].
          cbn [fst snd] in *. rewrite len_app, H1, H2. reflexivity. }
        unfold rest. rewrite len_app, Hc, Hn. reflexivity. }
      rewrite Hser in Ha.
      destruct (rx_at [] m (v ++ lo ++ pk ++ rest ++ data) s) as (s1 & E1 & R1);
        [rewrite Ha; cbn [app]; rewrite <- !app_assoc; reflexivity | exact H0 |].
      change (len m) with 3 in E1. rewrite E1. unfold m at 1. rewrite bytes_eqb_refl. cbn [negb].
      destruct (rx_at ([] ++ m) v (lo ++ pk ++ rest ++ data) s1) as (s2 & E2 & R2);
        [rewrite Ha; cbn [app]; rewrite <- !app_assoc; reflexivity | exact R1 |].
      replace (len v) with 4 in E2 by (unfold v; now rewrite len_le32). rewrite E2, Hv, N.eqb_refl. cbn [negb].
      destruct (rx_at (([] ++ m) ++ v) lo (pk ++ rest ++ data) s2) as (s3 & E3 & R3);
        [rewrite Ha; cbn [app]; rewrite <- !app_assoc; reflexivity | exact R2 |].
      change (len lo) with 2 in E3. rewrite E3. unfold lo at 1. cbn [nth]. change (1 =? 1) with true. cbv iota.
      destruct (rx_at ((([] ++ m) ++ v) ++ lo) pk (rest ++ data) s3) as (s4 & E4 & R4);
        [rewrite Ha; cbn [app]; rewrite <- !app_assoc; reflexivity | exact R3 |].
      rewrite Hlpk in E4. rewrite E4, Hcnt.
      assert (Hcs : config_size (mkH layers (Some eh)) = 50 + 48 * len (eh_keys eh)) by (unfold config_size; cbn [h_enc]; lia).
      destruct (N.ltb_spec LIMIT (50 + 48 * len (eh_keys eh))) as [?|_]; [lia|].
      destruct (rx_at (((([] ++ m) ++ v) ++ lo) ++ pk) rest data s4) as (s5 & E5 & R5);
        [rewrite Ha; cbn [app]; rewrite <- !app_assoc; reflexivity | exact R4 |].
      rewrite Hlrest in E5. rewrite E5.
      exists s5. split.
      + rewrite <- Hser. now rewrite Hpure.
      + rewrite Hser. cbn [app] in R5. rewrite <- !app_assoc in R5. exact R5.
    - set (lo := [layers; 0]).
      assert (Hser : ser_header (mkH layers None) = m ++ v ++ lo).
      { unfold ser_header, m, v, lo. cbn [h_layers h_enc]. reflexivity. }
      rewrite Hser in Ha.
      destruct (rx_at [] m (v ++ lo ++ data) s) as (s1 & E1 & R1);
        [rewrite Ha; cbn [app]; rewrite <- !app_assoc; reflexivity | exact H0 |].
      change (len m) with 3 in E1. rewrite E1. unfold m at 1. rewrite bytes_eqb_refl. cbn [negb].
      destruct (rx_at ([] ++ m) v (lo ++ data) s1) as (s2 & E2 & R2);
        [rewrite Ha; cbn [app]; rewrite <- !app_assoc; reflexivity | exact R1 |].
      replace (len v) with 4 in E2 by (unfold v; now rewrite len_le32). rewrite E2, Hv, N.eqb_refl. cbn [negb].
      destruct (rx_at (([] ++ m) ++ v) lo data s2) as (s3 & E3 & R3);
        [rewrite Ha; cbn [app]; rewrite <- !app_assoc; reflexivity | exact R2 |].
      change (len lo) with 2 in E3. rewrite E3. unfold lo at 1. cbn [nth]. change (0 =? 1) with false. cbv iota.
      exists s3. split.
      + rewrite <- Hser. now rewrite Hpure.
      + rewrite Hser. cbn [app] in R3. rewrite <- !app_assoc in R3. exact R3.
  Qed.
End HeaderS.

(* ------------------------------------------------------------------ the layer stack over any source *)
Section StackG.
  Variables CHUNK TAG CIPHERBUF BLOCK LIMIT FNMAX : N.
  Local Hint Extern 0 Limit => exact LIMIT : typeclass_instances.
  Variables TS TC TA TE : N.
  Variable H : bytes -> bytes.
  Variable order : footer -> footer.
  Variable pubk : bytes -> bytes.
  Variable dh : bytes -> bytes -> bytes.
  Variable kdf : bytes -> bytes.
  Variables wenc wdec wtag : bytes -> bytes -> bytes.
  Variable ksf : bytes -> bytes -> N -> N -> N.
  Variable tagf : bytes -> bytes -> N -> bytes -> bytes.
  Variable dec : bytes -> bytes.

  Hypothesis HCHUNK : 0 < CHUNK.
  Hypothesis HTAG : 0 < TAG.
  Hypothesis HCB : 0 < CIPHERBUF.
  Hypothesis HB : 0 < BLOCK.
  Hypothesis HB32 : BLOCK < 2 ^ 32.
  Hypothesis Htags : tags_distinct TS TC TA TE.
  Hypothesis HHlen : forall x, len (H x) = 32.
  Hypothesis Horder : forall f, Permutation (order f) f.
  Hypothesis wdec_wenc : forall k m, len m = 32 -> wdec k (wenc k m) = m.
  Hypothesis Hpubk : forall e, len (pubk e) = 32.
  Hypothesis Hwenc : forall k m, len m = 32 -> len (wenc k m) = 32.
  Hypothesis Hwtag : forall k c, len (wtag k c) = 16.

  Notation StackG := (StackG CHUNK TAG BLOCK ksf tagf dec).
  Notation open_stack_G := (open_stack_G CHUNK TAG BLOCK LIMIT ksf tagf dec).
  Notation wire_of := (wire_of CHUNK BLOCK ksf tagf).
  Notation mid_of := (mid_of BLOCK).

  (* ArchiveProofs.stack_opens with the cursor replaced by any source refining the archive bytes *)
  Lemma stack_opens_G (S : Stream) (Rin : st S -> N -> Prop) cfg hdr blocks i0 :
    let a := hdr ++ wire_of cfg blocks in
    let k := wc_key cfg in let n := wc_nonce cfg in
    Refines S a Rin -> Rin i0 (len hdr) ->
    len a < 2 ^ 64 ->
    (wc_compress cfg = true ->
       (forall x, dec (wc_comp cfg x) = x) /\
       (forall j, j < nblocks BLOCK (len blocks) -> len (wc_comp cfg (block_at BLOCK blocks j)) < 2 ^ 32) /\
       12 + 4 * nblocks BLOCK (len blocks) <= LIMIT /\ 12 + 4 * nblocks BLOCK (len blocks) < 2 ^ 32 /\
       len blocks < 2 ^ 63) ->
    (wc_encrypt cfg = true ->
       (forall i c, len (tagf k n i c) = TAG) /\ (nfull CHUNK (len (mid_of cfg blocks)) + 2 < 2 ^ 32 /\ CHUNK + TAG <= 2 ^ 31)) ->
    exists R, Refines (StackG S (wc_encrypt cfg) (wc_compress cfg) k n) blocks R /\
      exists s, open_stack_G S (wc_encrypt cfg) (wc_compress cfg) k n i0 = Ok s /\ R s 0.
  Proof.
    intros a k n. subst a k n. cbv beta. intros HC HR0 Hlen Hc He. unfold Archive.wire_of, Archive.mid_of in *.
    set (k := wc_key cfg) in *. set (n := wc_nonce cfg) in *.
    set (ks := ksf k n) in *. set (tagc := tagf k n) in *.
    destruct (wc_encrypt cfg) eqn:Ee, (wc_compress cfg) eqn:Ec; cbv iota in *.
    - destruct (Hc eq_refl) as (Hdec & Hcs & Hl1 & Hl2 & HL). destruct (He eq_refl) as [Htagc He'].
      clear He. rename He' into He.
      set (comp := wc_comp cfg) in *.
      pose proof (nblocks_ok BLOCK (len blocks) HB) as Hnb.
      exists (Rcomp0 CHUNK TAG BLOCK ks tagc comp hdr blocks (nblocks BLOCK (len blocks)) S Rin).
      split.
      + exact (stack_refines CHUNK TAG BLOCK LIMIT HCHUNK HTAG (proj2 He) HB HB32 ks tagc Htagc comp dec Hdec hdr blocks _
                 Hnb (conj Hl1 Hl2) HL (proj1 He) Hlen S _ HC).
      + destruct (stack_open CHUNK TAG BLOCK LIMIT HCHUNK HTAG (proj2 He) HB HB32 ks tagc Htagc comp dec Hdec hdr blocks _
                    Hnb Hcs (conj Hl1 Hl2) HL (proj1 He) Hlen S _ HC i0 HR0)
          as (r & c & Hro & Hco & HRc).
        exists c. split; [|exact HRc].
        unfold CApiRead.open_stack_G. rewrite Hro. cbn [lift bind].
        exact (f_equal (@lift _ _) Hco).
    - destruct (He eq_refl) as [Htagc He']. clear He. rename He' into He.
      pose proof (raw_reader_refines S hdr _ _ HC Hlen) as HRaw.
      destruct (raw_open_spec S hdr _ _ HC Hlen i0 HR0) as (r & Hro & HRr).
      destruct (ranges_of_sizes CHUNK TAG (len blocks) HCHUNK (proj2 He) (proj1 He)) as [Hu64 Hi64].
      destruct (enc_open_spec CHUNK TAG HCHUNK HTAG ks tagc Htagc _ blocks _ HRaw (proj1 He) Hu64 Hi64 r 0 HRr) as (e1 & Heo & HRe).
      eexists. split.
      + exact (enc_reader_refines CHUNK TAG HCHUNK HTAG ks tagc Htagc _ blocks _ HRaw (proj1 He) Hu64 Hi64).
      + exists e1. split; [|exact HRe].
        unfold CApiRead.open_stack_G. rewrite Hro. cbn [lift bind].
        exact (f_equal (@lift _ _) Heo).
    - destruct (Hc eq_refl) as (Hdec & Hcs & Hl1 & Hl2 & HL).
      set (comp := wc_comp cfg) in *.
      pose proof (raw_reader_refines S hdr _ _ HC Hlen) as HRaw.
      destruct (raw_open_spec S hdr _ _ HC Hlen i0 HR0) as (r & Hro & HRr).
      destruct (ref_sk _ _ _ HRaw r 0 (FromCur 0) 0 HRr) as (r1 & Hsk & HRr1).
      { unfold target. cbn. destruct (0 <=? Z.of_N (len (comp_format BLOCK comp blocks)))%Z eqn:E; [reflexivity | lia]. }
      destruct (comp_open_spec BLOCK LIMIT HB HB32 comp dec Hdec _ blocks Hcs (conj Hl1 Hl2) HL _ HRaw
                  (raw_initialize S) r r1 r1 Hsk eq_refl (ex_intro _ 0 HRr1)) as (c & Hco & HRc).
      eexists. split.
      + exact (comp_reader_refines BLOCK LIMIT HB HB32 comp dec Hdec _ blocks (conj Hl1 Hl2) HL _ HRaw).
      + exists c. split; [|exact HRc].
        unfold CApiRead.open_stack_G. rewrite Hro. cbn [lift bind].
        exact (f_equal (@lift _ _) Hco).
    - pose proof (raw_reader_refines S hdr _ _ HC Hlen) as HRaw.
      destruct (raw_open_spec S hdr _ _ HC Hlen i0 HR0) as (r & Hro & HRr).
      eexists. split; [exact HRaw|]. exists r. split; [|exact HRr].
      unfold CApiRead.open_stack_G. rewrite Hro. reflexivity.
  Qed.
End StackG.

(* ------------------------------------------------------------------ export map, by name *)
Section ByName.
  Context {LIM : Limit}.
  Variable d : bytes -> fdecision.
  Let dec' : nat -> bytes -> fdecision := fun _ nm => d nm.
  Definition acc_name (nm : bytes) : bool := accepts dec' 0 nm.
  Definition sched_name (nm : bytes) : list cbev := sched_at dec' 0 nm.
  Definition exp_of (i : nat) (names : list bytes) : list (bytes * list cbev) :=
    map (fun p => (snd p, sched_at dec' (fst p) (snd p)))
        (filter (fun p => accepts dec' (fst p) (snd p)) (indexed i names)).

  Lemma exp_of_cons i nm r :
    exp_of i (nm :: r) = if acc_name nm then (nm, sched_name nm) :: exp_of (S i) r else exp_of (S i) r.
  Proof.
    unfold exp_of. cbn [indexed filter fst snd]. change (accepts dec' i nm) with (acc_name nm).
    destruct (acc_name nm); reflexivity.
  Qed.

  Lemma exp_of_fst names : forall i, map fst (exp_of i names) = filter acc_name names.
  Proof.
    induction names as [|nm r IH]; intros i; [reflexivity|].
    rewrite exp_of_cons. cbn [filter]. destruct (acc_name nm); cbn [map fst]; rewrite IH; reflexivity.
  Qed.

  Lemma sk_of_exp names nm : forall i,
    sk_of (exp_of i names) nm = if name_in names nm && acc_name nm then Some (sched_name nm, []) else None.
  Proof.
    induction names as [|n0 r IH]; intros i; [reflexivity|].
    rewrite exp_of_cons. unfold name_in in *. cbn [existsb].
    destruct (bytes_eqb nm n0) eqn:E.
    - apply bytes_eqb_eq in E. subst n0. cbn [orb andb].
      destruct (acc_name nm) eqn:Ea.
      + unfold sk_of. cbn [find fst]. rewrite bytes_eqb_refl. reflexivity.
      + rewrite (IH (S i)). rewrite andb_false_r. reflexivity.
    - cbn [orb]. destruct (acc_name n0).
      + assert (E2 : bytes_eqb n0 nm = false).
        { destruct (bytes_eqb n0 nm) eqn:E2; [|reflexivity]. apply bytes_eqb_eq in E2. subst n0. now rewrite bytes_eqb_refl in E. }
        specialize (IH (S i)). unfold sk_of in *. cbn [find fst]. rewrite E2. exact IH.
      + apply IH.
  Qed.

  Lemma name_in_filter (f : bytes -> bool) names nm : name_in (filter f names) nm = name_in names nm && f nm.
  Proof.
    unfold name_in. induction names as [|n0 r IH]; [reflexivity|]. cbn [filter existsb].
    destruct (f n0) eqn:Ef; cbn [existsb]; rewrite IH.
    - destruct (bytes_eqb nm n0) eqn:E; [|reflexivity]. apply bytes_eqb_eq in E. subst n0. now rewrite Ef.
    - destruct (bytes_eqb nm n0) eqn:E; [|reflexivity]. apply bytes_eqb_eq in E. subst n0. rewrite Ef, andb_false_r.
      cbn [orb]. now rewrite andb_false_r.
  Qed.
End ByName.

Lemma name_in_perm l1 l2 nm : Permutation l1 l2 -> name_in l1 nm = name_in l2 nm.
Proof.
  intros HP. unfold name_in. destruct (existsb (bytes_eqb nm) l1) eqn:E1.
  - symmetry. apply existsb_exists in E1. destruct E1 as (x & Hin & Hx). apply existsb_exists. exists x. split; [eapply Permutation_in; eauto|exact Hx].
  - symmetry. destruct (existsb (bytes_eqb nm) l2) eqn:E2; [|reflexivity].
    apply existsb_exists in E2. destruct E2 as (x & Hin & Hx).
    assert (existsb (bytes_eqb nm) l1 = true); [|congruence].
    apply existsb_exists. exists x. split; [eapply Permutation_in; [symmetry|]; eauto|exact Hx].
Qed.
Lemma name_in_In l nm : In nm l -> name_in l nm = true.
Proof. intros H. unfold name_in. apply existsb_exists. exists nm. split; [exact H|apply bytes_eqb_refl]. Qed.

(* ------------------------------------------------------------------ C20, reading side, end to end *)
Section Main.
  Variables CHUNK TAG CIPHERBUF BLOCK LIMIT FNMAX : N.
  Local Hint Extern 0 Limit => exact LIMIT : typeclass_instances.
  Variables TS TC TA TE : N.
  Variable H : bytes -> bytes.
  Variable order : footer -> footer.
  Variable pubk : bytes -> bytes.
  Variable dh : bytes -> bytes -> bytes.
  Variable kdf : bytes -> bytes.
  Variables wenc wdec wtag : bytes -> bytes -> bytes.
  Variable ksf : bytes -> bytes -> N -> N -> N.
  Variable tagf : bytes -> bytes -> N -> bytes -> bytes.
  Variable dec : bytes -> bytes.

  Hypothesis HCHUNK : 0 < CHUNK.
  Hypothesis HTAG : 0 < TAG.
  Hypothesis HCB : 0 < CIPHERBUF.
  Hypothesis HB : 0 < BLOCK.
  Hypothesis HB32 : BLOCK < 2 ^ 32.
  Hypothesis Htags : tags_distinct TS TC TA TE.
  Hypothesis HHlen : forall x, len (H x) = 32.
  Hypothesis Horder : forall f, Permutation (order f) f.
  Hypothesis wdec_wenc : forall k m, len m = 32 -> wdec k (wenc k m) = m.
  Hypothesis Hpubk : forall e, len (pubk e) = 32.
  Hypothesis Hwenc : forall k m, len m = 32 -> len (wenc k m) = 32.
  Hypothesis Hwtag : forall k c, len (wtag k c) = 16.

  Notation wrun := (wrun FNMAX TS TC TA TE H order).
  Notation to_persistent := (to_persistent pubk dh kdf wenc wtag).
  Notation archive_write := (archive_write CHUNK CIPHERBUF BLOCK LIMIT FNMAX TS TC TA TE H order pubk dh kdf wenc wtag ksf tagf).
  Notation wire_of := (wire_of CHUNK BLOCK ksf tagf).
  Notation mid_of := (mid_of BLOCK).
  Notation roarchive_extract := (roarchive_extract CHUNK TAG BLOCK LIMIT FNMAX TS TC TA TE dh kdf wdec wtag ksf tagf dec).

  (* For every archive the writer model produces (premises of C01_archive_roundtrip, with 2^63
     for the file size: the seek callback takes an i64), read and seek callbacks that implement
     a cursor over its bytes with ANY read sizes, a reader configuration holding the private
     key of one recipient anywhere among its keys, ANY decision of the file callback per name
     (no NULL callback inside an accepted FileWriter), write callbacks that accept any
     non-empty part of what they are shown (or report EINTR): Success, the handle cleared, the
     file callback asked exactly once per archive name in sorted order, every accepted name's
     writer received exactly that file's bytes, a declined name has no writer. *)
  Theorem extract_delivers cfg cut_top cut_mid ops sf rs privs s :
    let blocks := w_out sf in
    let nb := nblocks BLOCK (len blocks) in
    let a := ser_header (to_persistent cfg) ++ wire_of cfg blocks in
    wrun w_init (ops ++ [OFinalize]) = (sf, rs) ->
    Forall (fun r => is_ok r = true) rs -> forallb op_utf8 ops = true ->
    len blocks < 2 ^ 64 -> len (ser_footer_map (order (w_footer sf))) < 2 ^ 32 ->
    (wc_compress cfg = true ->
       (forall x, dec (wc_comp cfg x) = x) /\
       (forall j, j < nb -> len (wc_comp cfg (block_at BLOCK blocks j)) < 2 ^ 32) /\
       12 + 4 * nb <= LIMIT /\ 12 + 4 * nb < 2 ^ 32 /\ len blocks < 2 ^ 63) ->
    (wc_encrypt cfg = true ->
       len (wc_key cfg) = 32 /\ len (wc_nonce cfg) = 8 /\
       (forall i c, len (tagf (wc_key cfg) (wc_nonce cfg) i c) = TAG) /\
       (nfull CHUNK (len (mid_of cfg blocks)) + 2 < 2 ^ 32 /\ CHUNK + TAG <= 2 ^ 31) /\
       dh s (pubk (wc_eph cfg)) = dh (wc_eph cfg) (pubk s) /\
       In (pubk s) (wc_recipients cfg) /\ In s privs) ->
    config_size (to_persistent cfg) <= LIMIT ->
    len a < 2 ^ 63 ->
    archive_write cfg cut_top cut_mid ops = Ok a /\
    (TagCollision pubk dh kdf wenc wtag (wc_eph cfg) (wc_key cfg) (wc_recipients cfg) privs \/
     forall (C : cbsrc) (Rcb : cb_st C -> N -> Prop) (c0 : cb_st C) (p0 : N),
       CbCursor C a Rcb -> Rcb c0 p0 ->
     forall (d : bytes -> fdecision),
       (forall nm, null_inside (fun _ => d) 0 nm = false) ->
       (forall nm, forallb benign (sched_name d nm) = true) ->
     forall fuel, (N.to_nat (len blocks) < fuel)%nat ->
       let x := roarchive_extract true (Some privs) true true true C c0 (fun _ => d) fuel in
       x_res x = Ret Success /\ x_cfg x = None /\
       Permutation (x_asked x) (map fst (started 0 ops)) /\ NoDup (x_asked x) /\
       LocallySorted bytes_le (x_asked x) /\
       (forall name id, In (name, id) (started 0 ops) ->
          if acc_name d name then exists s', x_sinks x name = Some (s', pieces 0 id ops)
          else x_sinks x name = None)).
  Proof.
    intros blocks nb a Hrun Hok Hutf Hlen64 Hfoot32 Hc He Hlim Hlen.
    set (hp := to_persistent cfg) in *.
    assert (Hne : wc_encrypt cfg && match wc_recipients cfg with [] => true | _ => false end = false).
    { destruct (wc_encrypt cfg); [|reflexivity]. destruct (He eq_refl) as (_ & _ & _ & _ & _ & Hin & _).
      destruct (wc_recipients cfg); [destruct Hin | reflexivity]. }
    assert (Hwf : wf_enc_opt hp).
    { apply (persistent_wf pubk dh kdf wenc wtag Hpubk Hwenc Hwtag). intros Ee.
      destruct (He Ee) as (Hk & Hn & _). split; [exact Hk|]. split; [exact Hn|].
      assert (Hkeys : len (wc_recipients cfg) < 2 ^ 64 \/ 2 ^ 64 <= len (wc_recipients cfg)) by lia.
      destruct Hkeys as [Hs|Hbig]; [exact Hs|exfalso].
      assert (Hl : 48 * len (wc_recipients cfg) <= len (ser_header hp)).
      { unfold hp, Archive.to_persistent, ser_header, ser_enc_header. rewrite Ee. cbn [h_enc h_layers eh_keys eh_public eh_nonce].
        unfold store_key. cbn [m_keys m_public]. rewrite !len_app, (len_cons 1), !len_app.
        match goal with |- context [len (concat (map ?f ?l))] =>
          assert (Hcc : len (concat (map f l)) = 48 * len l) end.
        { apply len_concat_const. intros kt Hin. apply in_map_iff in Hin. destruct Hin as (r & <- & _).
          unfold wrap_for. cbn [fst snd]. rewrite len_app, Hwenc, Hwtag by exact Hk. reflexivity. }
        rewrite Hcc, len_map. lia. }
      unfold a in Hlen. rewrite len_app in Hlen. lia. }
    split.
    - unfold Archive.archive_write. rewrite Hne. unfold dump_header. fold hp.
      destruct (N.ltb_spec LIMIT (config_size hp)) as [?|_]; [lia|]. cbn [bind].
      rewrite Hrun. rewrite (first_bad_ok rs Hok). cbn [bind].
      rewrite (lower_write_ok CHUNK TAG CIPHERBUF BLOCK LIMIT FNMAX H pubk dh kdf wenc wdec wtag ksf tagf dec
                 HCHUNK HTAG HCB HB HB32 HHlen wdec_wenc Hpubk Hwenc Hwtag).
      + reflexivity.
      + intros Ec. destruct (Hc Ec) as (_ & _ & _ & H32 & _). exact H32.
      + intros Ee. destruct (He Ee) as (_ & _ & _ & Hch & _). exact (proj1 Hch).
      + intros Ec. destruct (Hc Ec) as (_ & _ & Hlm & _). exact Hlm.
    - assert (Hcfg : (TagCollision pubk dh kdf wenc wtag (wc_eph cfg) (wc_key cfg) (wc_recipients cfg) privs) \/
                     exists k n, load_config dh kdf wdec wtag hp privs = Ok (wc_encrypt cfg, wc_compress cfg, k, n) /\
                                 (wc_encrypt cfg = true -> k = wc_key cfg /\ n = wc_nonce cfg)).
      { destruct (wc_encrypt cfg) eqn:Ee.
        - destruct (He eq_refl) as (Hk & _ & _ & _ & Hdh & Hrec & Hin).
          destruct (load_config_enc pubk dh kdf wenc wdec wtag wdec_wenc cfg privs s Ee Hk Hdh Hrec Hin) as [Hl|Ht]; [right | left; exact Ht].
          exists (wc_key cfg), (wc_nonce cfg). split; [exact Hl | auto].
        - right. exists [], []. split; [exact (load_config_plain pubk dh kdf wenc wdec wtag cfg privs Ee) | discriminate]. }
      destruct Hcfg as [Ht|(k & n & Hl & Hkn)]; [left; exact Ht | right].
      intros C Rcb c0 p0 HCb Hc0 d Hnull Hben fuel Hfuel.
      pose proof (cbin_refines C a Rcb HCb Hlen) as HRef.
      set (S := CbIn C true) in *.
      (* rewind *)
      destruct (ref_sk _ _ _ HRef c0 p0 (FromStart 0) 0 Hc0) as (c1 & Hsk & Hc1).
      { unfold target. cbn. destruct (0 <=? Z.of_N (len a))%Z eqn:E; [reflexivity|lia]. }
      (* header *)
      destruct (read_header_S_written LIMIT S a Rcb HRef hp (wire_of cfg blocks) c1 eq_refl Hwf Hlim Hc1)
        as (c2 & Hhd & Hc2).
      (* stack *)
      assert (Hlen64a : len a < 2 ^ 64) by lia.
      destruct (stack_opens_G CHUNK TAG CIPHERBUF BLOCK LIMIT FNMAX H pubk dh kdf wenc wdec wtag ksf tagf dec
                  HCHUNK HTAG HCB HB HB32 HHlen wdec_wenc Hpubk Hwenc Hwtag S Rcb cfg (ser_header hp) blocks c2
                  HRef Hc2 Hlen64a Hc) as (R & HR & s0 & Hos & HR0).
      { intros Ee. destruct (He Ee) as (_ & _ & Htg & Hch & _). split; [exact Htg | exact Hch]. }
      assert (Hst : exists (R' : st (StackG CHUNK TAG BLOCK ksf tagf dec S (wc_encrypt cfg) (wc_compress cfg) k n) -> N -> Prop) s1,
                Refines (StackG CHUNK TAG BLOCK ksf tagf dec S (wc_encrypt cfg) (wc_compress cfg) k n) blocks R' /\
                open_stack_G CHUNK TAG BLOCK LIMIT ksf tagf dec S (wc_encrypt cfg) (wc_compress cfg) k n c2 = Ok s1 /\ R' s1 0).
      { destruct (wc_encrypt cfg) eqn:Ee.
        - destruct (Hkn eq_refl) as [-> ->]. exists R, s0. auto.
        - exists R, s0. auto. }
      destruct Hst as (R' & s1 & HR' & Hos' & HR0').
      destruct (rt_open FNMAX TS TC TA TE H order HHlen Horder ops sf rs Hrun Hok Hutf Hlen64 Hfoot32 _ R' HR' s1 0 HR0')
        as (r & Hop & HRS).
      destruct (rt_list FNMAX TS TC TA TE H order HHlen Horder ops sf rs Hrun Hok Hutf Hlen64 Hfoot32 _ R' r HRS)
        as [Hperm Hnd].
      set (ST := StackG CHUNK TAG BLOCK ksf tagf dec S (wc_encrypt cfg) (wc_compress cfg) k n) in *.
      set (names := sort_bytes (list_files ST r)).
      assert (Hpn : Permutation names (map fst (started 0 ops))).
      { unfold names. rewrite sort_bytes_perm. exact Hperm. }
      set (exp := exp_of d 0 names).
      destruct (linear_roundtrip FNMAX TS TC TA TE H order Htags HHlen ops sf rs Hrun Hok Hutf Hlen64 Hfoot32
                  ST R' HR' r (map fst exp) fuel HRS Hfuel) as (out & Hlx & _ & Hdel & _).
      destruct (deliver_benign out (sk_of exp)) as (m' & Hdv & Hnone & Hsome).
      { intros nm sc g Hs. unfold exp in Hs. rewrite sk_of_exp in Hs.
        destruct (name_in names nm && acc_name d nm); [|discriminate]. injection Hs as <- _. apply Hben. }
      (* the call *)
      assert (Hx : roarchive_extract true (Some privs) true true true C c0 (fun _ => d) fuel =
                   mkX None (Ret Success) names (map fst exp) m').
      { unfold CApiRead.roarchive_extract. cbn [negb]. unfold extract_internal, from_config_G.
        fold S. rewrite Hsk, Hhd, Hl. fold ST. rewrite Hos'. rewrite Hop.
        cbv beta iota. unfold stack_ofG. cbn [op_enc op_comp op_key op_nonce]. fold ST. fold names.
        assert (Hask : ask (fun _ => d) 0 names [] [] = (names, Some exp)).
        { rewrite (ask_all (fun _ => d) names 0 [] []) by (intros j nm _; apply Hnull). reflexivity. }
        rewrite Hask. cbv beta iota.
        rewrite Hlx, Hdv. reflexivity. }
      cbv zeta. rewrite Hx. cbn [x_res x_cfg x_asked x_sinks].
      split; [reflexivity|]. split; [reflexivity|]. split; [exact Hpn|].
      split; [eapply Permutation_NoDup; [symmetry; apply sort_bytes_perm|exact Hnd]|].
      split; [apply sort_bytes_sorted|].
      intros name id Hin.
      assert (Hnin : name_in names name = true).
      { rewrite (name_in_perm _ _ name Hpn). apply name_in_In. apply in_map_iff. exists (name, id). auto. }
      pose proof (sk_of_exp d names name 0) as Hsk0. fold exp in Hsk0. rewrite Hnin in Hsk0. cbn [andb] in Hsk0.
      destruct (acc_name d name) eqn:Ea.
      + destruct (Hsome _ _ _ Hsk0) as (s' & Hm & _). exists s'. rewrite Hm. cbn [app].
        rewrite (Hdel name id Hin). unfold exp. rewrite exp_of_fst, name_in_filter, Hnin, Ea. reflexivity.
      + apply Hnone. exact Hsk0.
  Qed.
End Main.

(* ------------------------------------------------------------------ mla_roarchive_info *)
(* the info path never calls seek: with or without seek callback the header read is the same
   function of the read callback (so `seek_callback.unwrap()` on None is not reached) *)
Lemma info_never_seeks LIMIT (C : cbsrc) (c0 : cb_st C) :
  read_header_S LIMIT (CbIn C false) c0 = read_header_S LIMIT (CbIn C true) c0.
Proof. reflexivity. Qed.

Theorem info_reports_header LIMIT (C : cbsrc) (a : bytes) R c0 h data :
  CbCursor C a R -> len a < 2 ^ 63 -> a = ser_header h ++ data ->
  wf_enc_opt h -> config_size h <= LIMIT -> R c0 0 ->
  roarchive_info LIMIT true true C c0 = (Ret Success, Some (VERSION, h_layers h)).
Proof.
  intros HC HL Ha Hwf Hlim H0. unfold roarchive_info. cbn [negb]. rewrite info_never_seeks.
  destruct (read_header_S_written LIMIT (CbIn C true) a R (cbin_refines C a R HC HL) h data c0 Ha Hwf Hlim H0)
    as (s' & -> & _). reflexivity.
Qed.

(* any bytes behind honest callbacks (short, garbage): a status, never a crash *)
Theorem info_total LIMIT (C : cbsrc) (a : bytes) R c0 p rcb io :
  CbCursor C a R -> len a < 2 ^ 63 -> R c0 p ->
  exists st o, roarchive_info LIMIT rcb io C c0 = (Ret st, o).
Proof.
  intros HC HL H0. unfold roarchive_info.
  destruct (negb io); [eauto|]. destruct (negb rcb); [eauto|]. rewrite info_never_seeks.
  pose proof (read_header_S_total LIMIT (CbIn C true) a R (cbin_refines C a R HC HL) c0 p H0) as Ht.
  destruct (read_header_S LIMIT (CbIn C true) c0) as [s' [h|e|c]]; cbn [snd is_crash] in Ht; [eauto|eauto|discriminate].
Qed.
