(* RunC20Read.v — Tie B entry points for the READING side of the C interface (C20):
   CApiRead.roarchive_extract / roarchive_info evaluated over the callback family
   CApiRead.CurCb (a cursor over the archive bytes handing out at most `rmode` bytes per
   invocation, whose rfail-th read / sfail-th seek invocation returns 5), compared with
   libmla.so driven by harness/src/capiread.rs (same callbacks in C ABI).

   Concrete primitives as in RunC01.v / Run.hist_enc: HKDF-SHA256, AES-256-GCM key unwrap,
   AES-256-GCM chunks; ORACLE MODE for X25519 (candidates = the shared secrets the harness
   computed with x25519-dalek; dh := fun p _ => p).  Speed: the chunk keystream table is
   computed ONCE per case from the key/nonce found by a pure pre-parse of the header and
   handed to the model as `ksf` guarded by equality with that key and nonce (the model still
   derives key and nonce itself, through the callbacks; if it ever derived other ones the
   guard yields a zero keystream and the rows differ).  brotli is not modelled: archives with
   the COMPRESS layer are not compared by the harness (dec := identity here). *)
From MLA Require Import Limit.
From MLAGen Require Src.
(* executable entry points: the production value of BINCODE_MAX_DESERIALIZE (the same in both flavours), file-local *)
#[local] Instance RUN_LIMIT : Limit := MLAGen.Src.BINCODE_MAX_DESERIALIZE_prod.
From MLA Require Import Base Stream Inst InstGcm Format Ecies Archive ArchiveInst RunC01 Reader CApi CApiRead.
From MLA.Concrete Require Aes.
From MLAGen Require Src.
Open Scope N_scope.

Section RunC20Read.
  Variable k : consts.
  Notation TS := Src.BT_FileStart. Notation TC := Src.BT_FileContent.
  Notation TA := Src.BT_EndOfArchiveData. Notation TE := Src.BT_EndOfFile.

  Definition c20r_dh (p _ : bytes) : bytes := p.

  (* key, nonce, header length by the pure header model (only to size / share the key stream table) *)
  Definition pre_params (archive : bytes) (cands : list bytes) : bytes * bytes * N :=
    match Archive.read_header c01_LIMIT archive with
    | Ok (h, rest) =>
      match load_config c20r_dh hkdf_info c01_wdec c01_wtag h cands with
      | Ok (true, _, key, nonce) => (key, nonce, len archive - len rest)
      | _ => ([], [], 0)
      end
    | _ => ([], [], 0)
    end.

  (* [d; wnull; fnull; wmode; wfail] -> what the file callback does for the i-th name asked *)
  Definition sched_of (big : nat) (wmode wfail : N) : list cbev :=
    let ev := Accept (if wmode =? 0 then 4294967296 else wmode) in
    if wfail =? 0 then (if wmode =? 0 then [] else repeat ev big)
    else repeat ev (N.to_nat (wfail - 1)) ++ [FailCb 5] ++ repeat ev big.
  Definition decide_of (big : nat) (dec : list (list N)) (i : nat) (_ : bytes) : fdecision :=
    match nth_error dec i with
    | Some [d; wnull; fnull; wmode; wfail] =>
      if d =? 0 then FAccept (wnull =? 0) (fnull =? 0) (sched_of big wmode wfail) else FDecline
    | _ => FAccept true true []
    end.

  Definition cres_row (r : cres) : list N :=
    match r with Ret st => [status_code st] | CCrash site => [4000000000 + site] end.

  (* rows: [status]; 5 :: name for every name the file callback was asked about, in order;
     on Success 6 :: bytes received, for every registered writer in the order asked *)
  Definition c20r_extract (archive : bytes) (cands : list bytes) (cfg : list N) (dec : list (list N))
    : list (list N) :=
    let rmode := nth 0 cfg 0 in let rfail := nth 1 cfg 0 in let sfail := nth 2 cfg 0 in
    let '(key0, nonce0, hl) := pre_params archive cands in
    let CH := cCHUNK k in
    let blen := len archive - hl in
    let ks0 := match key0 with
               | [] => fun _ _ => 0
               | _ => gcm_ks (gcm_tab (Aes.aes256_expand key0) nonce0 (N.min CH blen)
                                      (N.to_nat (blen / (CH + cTAG k) + 2)))
               end in
    let tg0 := match key0 with
               | [] => fun _ _ => []
               | _ => gcm_tagc (Aes.aes256_expand key0) nonce0
               end in
    let ksf := fun key nonce => if bytes_eqb key key0 && bytes_eqb nonce nonce0 then ks0 else fun _ _ => 0 in
    let tagf := fun key nonce => if bytes_eqb key key0 && bytes_eqb nonce nonce0 then tg0 else fun _ _ => [] in
    let big := N.to_nat (len archive) in
    let x := roarchive_extract CH (cTAG k) (cBLOCK k) c01_LIMIT (cFNMAX k) TS TC TA TE
               c20r_dh hkdf_info c01_wdec c01_wtag ksf tagf (fun b => b)
               true (Some cands) true true true
               (CurCb archive rmode rfail sfail) cur0 (decide_of big dec) (big + 16)%nat in
    cres_row (x_res x)
      :: map (fun nm => 5 :: nm) (x_asked x)
      ++ match x_res x with
         | Ret Success =>
           map (fun nm => 6 :: match x_sinks x nm with Some (_, got) => got | None => [57005] end) (x_accepted x)
         | _ => []
         end.

End RunC20Read.

(* rows: [status]; on Success [version; layers] *)
Definition c20r_info (_ : consts) (archive : bytes) (cfg : list N) : list (list N) :=
  let rmode := nth 0 cfg 0 in let rfail := nth 1 cfg 0 in
  match roarchive_info c01_LIMIT true true (CurCb archive rmode rfail 0) cur0 with
  | (r, Some (v, l)) => [cres_row r; [v; l]]
  | (r, None) => [cres_row r]
  end.
