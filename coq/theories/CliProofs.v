(* CliProofs.v — proofs about the command model of Cli.v.
   Part 1: the per-file loops of cat / list -vv / to-tar / convert / extract over ANY stream refining
           a cursor over a block stream the writer produced (the reader is carried on from where each
           copy stopped: ReaderPos.v).
   Part 2 (CliArchive.v): the commands on archive bytes, through Archive.archive_write / archive_open. *)
From MLA Require Import Limit.
From MLA Require Import Base Stream Blocks Writer Reader RoundTripBlocks RoundTripFooter RoundTripReader
  RoundTripWriter RoundTripRun RoundTripGlue RoundTrip ReaderPos Path Tar TarProofs Cli.
From Coq Require Import ZifyBool ZifyNat ZifyN Permutation Sorted.
Open Scope N_scope.

(* ---------- sorting ---------- *)
Lemma bytes_leb_refl a : bytes_leb a a = true.
Proof. induction a as [|x a IH]; cbn [bytes_leb]; [reflexivity|]. rewrite N.ltb_irrefl. exact IH. Qed.

Lemma bytes_leb_total a : forall b, bytes_leb a b = true \/ bytes_leb b a = true.
Proof.
  induction a as [|x a IH]; intros [|y b]; cbn [bytes_leb]; auto.
  destruct (N.ltb_spec x y), (N.ltb_spec y x); auto; lia.
Qed.

Lemma bytes_leb_antisym a : forall b, bytes_leb a b = true -> bytes_leb b a = true -> a = b.
Proof.
  induction a as [|x a IH]; intros [|y b]; cbn [bytes_leb]; try discriminate; auto.
  destruct (N.ltb_spec x y), (N.ltb_spec y x); try discriminate; try lia.
  intros Hab Hba. assert (x = y) by lia. subst. f_equal. auto.
Qed.

Lemma bytes_leb_trans a : forall b c, bytes_leb a b = true -> bytes_leb b c = true -> bytes_leb a c = true.
Proof.
  induction a as [|x a IH]; intros [|y b] [|z c]; cbn [bytes_leb]; try discriminate; auto.
  destruct (N.ltb_spec x y), (N.ltb_spec y x), (N.ltb_spec y z), (N.ltb_spec z y), (N.ltb_spec x z), (N.ltb_spec z x);
    try discriminate; try lia; auto.
  intros Hab Hbc. eauto.
Qed.

Definition leb_rel (a b : bytes) : Prop := bytes_leb a b = true.

Lemma ins_name_perm x l : Permutation (ins_name x l) (x :: l).
Proof.
  induction l as [|h t IH]; cbn [ins_name]; [reflexivity|].
  destruct (bytes_leb x h); [reflexivity|]. rewrite IH. apply perm_swap.
Qed.

Lemma sort_names_perm l : Permutation (sort_names l) l.
Proof.
  induction l as [|x l IH]; cbn [sort_names fold_right]; [reflexivity|].
  fold (sort_names l). rewrite ins_name_perm. constructor. exact IH.
Qed.

Lemma ins_name_sorted x l : StronglySorted leb_rel l -> StronglySorted leb_rel (ins_name x l).
Proof.
  induction 1 as [|h t Hs IH Hall]; cbn [ins_name].
  - constructor; constructor.
  - destruct (bytes_leb x h) eqn:E.
    + constructor; [constructor; assumption|]. constructor; [exact E|].
      eapply Forall_impl; [|exact Hall]. intros c Hc. exact (bytes_leb_trans _ _ _ E Hc).
    + constructor; [exact IH|].
      assert (Hhx : leb_rel h x) by (destruct (bytes_leb_total x h) as [H1|H1]; [congruence|exact H1]).
      eapply Permutation_Forall; [symmetry; apply ins_name_perm|]. constructor; assumption.
Qed.

Lemma sort_names_sorted l : StronglySorted leb_rel (sort_names l).
Proof.
  induction l as [|x l IH]; cbn [sort_names fold_right]; [constructor|]. apply ins_name_sorted. exact IH.
Qed.

Lemma sorted_perm_eq l1 : forall l2, StronglySorted leb_rel l1 -> StronglySorted leb_rel l2 ->
  Permutation l1 l2 -> l1 = l2.
Proof.
  induction l1 as [|a l1 IH]; intros l2 H1 H2 HP.
  - apply Permutation_nil in HP. subst. reflexivity.
  - destruct l2 as [|b l2]; [apply Permutation_sym, Permutation_nil in HP; discriminate|].
    inversion H1 as [|? ? Hs1 Ha1]; subst. inversion H2 as [|? ? Hs2 Ha2]; subst.
    assert (Hab : a = b).
    { assert (Hina : In a (b :: l2)) by (eapply Permutation_in; [exact HP|left; reflexivity]).
      assert (Hinb : In b (a :: l1)) by (eapply Permutation_in; [symmetry; exact HP|left; reflexivity]).
      destruct Hina as [->|Hina]; [reflexivity|]. destruct Hinb as [<-|Hinb]; [reflexivity|].
      rewrite Forall_forall in Ha1, Ha2. apply bytes_leb_antisym; [apply Ha1; exact Hinb | apply Ha2; exact Hina]. }
    subst b. f_equal. apply IH; auto. eapply Permutation_cons_inv; exact HP.
Qed.

(* sort is a function of the multiset: the order list_files happens to produce (HashMap) is gone *)
Lemma sort_names_perm_eq l1 l2 : Permutation l1 l2 -> sort_names l1 = sort_names l2.
Proof.
  intros HP. apply sorted_perm_eq; try apply sort_names_sorted.
  rewrite !sort_names_perm. exact HP.
Qed.

(* ---------- create_ops ---------- *)
Lemma started_create files : forall k, map fst (started k (create_ops files)) = map fst files.
Proof. induction files as [|f files IH]; intros k; cbn [create_ops map started fst]; [reflexivity|]. f_equal. apply IH. Qed.

Lemma pieces_create_lt files : forall k id, id < k -> pieces k id (create_ops files) = [].
Proof.
  induction files as [|f files IH]; intros k id Hlt; cbn [create_ops map pieces]; [reflexivity|].
  destruct (N.eqb_spec k id); [lia|]. cbn [app]. apply IH. lia.
Qed.

Lemma takeN_len_self {A} (l : list A) : takeN (len l) l = l.
Proof. unfold takeN, len. rewrite Nat2N.id. apply firstn_all. Qed.

Lemma started_create_ge fs : forall k n id, In (n, id) (started k (create_ops fs)) -> k <= id.
Proof.
  induction fs as [|g fs IH]; intros k n id Hin; cbn [create_ops map started] in Hin; [destruct Hin|].
  destruct Hin as [Heq|Hr]; [injection Heq; lia|]. apply IH in Hr. lia.
Qed.

Lemma create_started_pieces files : forall k n d, In (n, d) files ->
  exists id, In (n, id) (started k (create_ops files)) /\ pieces k id (create_ops files) = d.
Proof.
  induction files as [|f files IH]; intros k n d Hin; [destruct Hin|].
  cbn [create_ops map started pieces]. fold (create_ops files). destruct Hin as [->|Hin].
  - exists k. cbn [fst snd]. split; [left; reflexivity|]. rewrite N.eqb_refl, takeN_len_self.
    rewrite pieces_create_lt by lia. apply app_nil_r.
  - destruct (IH (k + 1) n d Hin) as (id & Hs & Hp). exists id. split; [right; exact Hs|].
    pose proof (started_create_ge _ _ _ _ Hs) as Hge.
    destruct (N.eqb_spec k id) as [->|_]; [lia | exact Hp].
Qed.

Lemma started_create_inv files : forall k n id, In (n, id) (started k (create_ops files)) ->
  exists d, In (n, d) files /\ pieces k id (create_ops files) = d.
Proof.
  induction files as [|f files IH]; intros k n id Hin; [destruct Hin|].
  cbn [create_ops map started pieces] in *. fold (create_ops files) in *. destruct Hin as [Heq|Hin].
  - injection Heq as <- <-. exists (snd f). split; [left; destruct f; reflexivity|].
    rewrite N.eqb_refl, takeN_len_self, pieces_create_lt by lia. apply app_nil_r.
  - destruct (IH (k + 1) n id Hin) as (d & Hd & Hp). exists d. split; [right; exact Hd|].
    pose proof (started_create_ge _ _ _ _ Hin) as Hge.
    destruct (N.eqb_spec k id) as [->|_]; [lia | exact Hp].
Qed.

Lemma create_ops_utf8 files : forallb (fun f => utf8_valid (fst f)) files = true -> forallb op_utf8 (create_ops files) = true.
Proof.
  induction files as [|f files IH]; cbn [create_ops map forallb op_utf8]; [reflexivity|].
  intros Hf. apply andb_true_iff in Hf. destruct Hf as [Hu Hf]. apply andb_true_iff. split; [exact Hu | exact (IH Hf)].
Qed.


Lemma lookup_file_in files n d : NoDup (map fst files) -> In (n, d) files -> lookup_file files n = d.
Proof.
  unfold lookup_file. induction files as [|f files IH]; intros Hnd Hin; [destruct Hin|].
  cbn [find]. inversion Hnd as [|? ? Hni Hnd']; subst. destruct Hin as [->|Hin].
  - cbn [fst]. rewrite bytes_eqb_refl. reflexivity.
  - destruct (bytes_eqb (fst f) n) eqn:E.
    + apply bytes_eqb_eq in E. exfalso. apply Hni. rewrite E. change n with (fst (n, d)). apply in_map. exact Hin.
    + apply IH; assumption.
Qed.

Lemma lookup_file_notin files n : ~ In n (map fst files) -> lookup_file files n = [].
Proof.
  unfold lookup_file. induction files as [|f files IH]; intros Hni; [reflexivity|]. cbn [find].
  destruct (bytes_eqb (fst f) n) eqn:E.
  - apply bytes_eqb_eq in E. exfalso. apply Hni. left. exact E.
  - apply IH. intros Hin. apply Hni. right. exact Hin.
Qed.


Lemma sorted_files_perm files : NoDup (map fst files) -> Permutation (sorted_files files) files.
Proof.
  intros Hnd. unfold sorted_files.
  assert (Hm : forall l, (forall n, In n l -> In n (map fst files)) ->
             map (fun n => (n, lookup_file files n)) l = map (fun n => (n, lookup_file files n)) l) by reflexivity.
  assert (Hid : map (fun n => (n, lookup_file files n)) (map fst files) = files).
  { rewrite map_map. rewrite <- (map_id files) at 2. apply map_ext_in. intros [n d] Hin. cbn [fst].
    rewrite (lookup_file_in files n d Hnd Hin). reflexivity. }
  rewrite <- Hid at 2. apply Permutation_map. apply sort_names_perm.
Qed.

(* ---------- io::copy = read to the end with 8 KiB buffers ---------- *)
Lemma io_copy_read_all FNMAX TS TC TA TE S zf : forall fuel bs i acc bs' d,
  read_all FNMAX TS TC TA TE S zf fuel bs (fun _ => 8192) i acc = (bs', Ok d) ->
  io_copy FNMAX TS TC TA TE S zf fuel bs acc = (bs', d, Ok tt).
Proof.
  induction fuel as [|f IH]; intros bs i acc bs' d Hr; cbn [read_all io_copy] in *; [discriminate|].
  destruct (bread FNMAX TS TC TA TE S zf bs 8192) as [b1 [dd|e|c]]; try discriminate.
  destruct dd as [|x dd].
  - injection Hr as <- <-. reflexivity.
  - exact (IH _ _ _ _ _ Hr).
Qed.

Section Loops.
  Context {LIM : Limit}.
  Variable FNMAX : N.
  Variables TS TC TA TE : N.
  Variable H : bytes -> bytes.
  Variable order : footer -> footer.
  Hypothesis Htags : tags_distinct TS TC TA TE.
  Hypothesis HHlen : forall x, len (H x) = 32.
  Hypothesis Horder : forall f, Permutation (order f) f.
  Variable ops : list wop.
  Variable sf : wstate.
  Variable rs : list (res N).
  Hypothesis Hrun : wrun FNMAX TS TC TA TE H order w_init (ops ++ [OFinalize]) = (sf, rs).
  Hypothesis Hok : Forall (fun r => is_ok r = true) rs.
  Hypothesis Hutf : forallb op_utf8 ops = true.
  Hypothesis Hlen64 : len (w_out sf) < 2 ^ 64.
  Hypothesis Hfoot32 : len (ser_footer_map (order (w_footer sf))) < 2 ^ 32.
  Variable S : Stream.
  Variable R : st S -> N -> Prop.
  Hypothesis HR : Refines S (w_out sf) R.

  Notation RS := (RS order sf S R).
  Notation get_file := (get_file FNMAX TS TC TA TE S).
  Notation get_hash := (get_hash FNMAX TS TC TA TE S).
  Notation io_copy := (io_copy FNMAX TS TC TA TE S).

  (* get_file, then io::copy to the end: exactly the bytes given, and the reader — which goes on
     from where the copy stopped — is still a reader over the archive *)
  Theorem rt_get_file_copy r name id : RS r -> In (name, id) (started 0 ops) ->
    exists r' bs, get_file r name = (r', Ok (Some (bs, len (pieces 0 id ops)))) /\ RS r' /\
      forall zf fuel, (length (pieces 0 id ops) < fuel)%nat ->
      exists bs', io_copy zf fuel bs [] = (bs', pieces 0 id ops, Ok tt) /\ RS (after_copy r' bs').
  Proof.
    intros HRS Hin.
    destruct (rt_setup FNMAX TS TC TA TE H order HHlen ops sf rs Hrun Hok Hutf Hlen64 Hfoot32)
      as (s & bl & HI & Ho & Hout & Hf & Hn & Hd & Hl).
    rewrite <- (started_files FNMAX TS TC TA TE H ops s bl HI Hn) in Hin.
    destruct (rt_lookup FNMAX TS TC TA TE H order Horder sf s bl name id HI Ho Hf Hl Hin) as (fi & nm & Hlk & Hoff & Hsz & Hproj & _).
    destruct (blocks_wfb _ _ _ _ _ _ _ _ HI Hl) as [Hwf Hne].
    assert (HR' : Refines S (ser_blocks TS TC TA TE bl ++ [TA] ++ ser_footer (order (w_footer sf))) R)
      by (rewrite <- Hout; exact HR).
    destruct (get_file_pos FNMAX _ _ _ _ Htags S bl _ R HR' Hwf Hne id _ r name fi nm _ _ HRS Hlk Hoff Hproj)
      as (r' & bs & Hgf & HRS' & HRI).
    exists r', bs. rewrite Hsz, Hd in Hgf. split; [exact Hgf|]. split; [exact HRS'|].
    intros zf fuel Hfuel. rewrite Hd in HRI.
    destruct (read_all_pos FNMAX _ _ _ _ Htags S bl _ R HR' Hwf Hne id (fun _ => 8192) (fun _ => eq_refl) zf fuel bs _ 0%nat [] HRI Hfuel)
      as (bs' & Hra & _ & Hp).
    exists bs'. split; [exact (io_copy_read_all _ _ _ _ _ _ _ _ _ _ _ _ _ Hra)|].
    destruct HRS' as [Hm _]. split; [exact Hm | exact Hp].
  Qed.

  (* the archive was made by `create` from these files *)
  Variable files : list (bytes * bytes).
  Hypothesis Hops : ops = create_ops files.

  Lemma names_nodup r : RS r -> NoDup (map fst files).
  Proof.
    intros HRS. destruct (rt_list FNMAX TS TC TA TE H order HHlen Horder ops sf rs Hrun Hok Hutf Hlen64 Hfoot32 S R r HRS) as [HP Hnd].
    rewrite Hops, started_create in HP. eapply Permutation_NoDup; [exact HP|exact Hnd].
  Qed.

  Lemma listed_sorted r : RS r -> sort_names (list_files S r) = sort_names (map fst files).
  Proof.
    intros HRS. destruct (rt_list FNMAX TS TC TA TE H order HHlen Horder ops sf rs Hrun Hok Hutf Hlen64 Hfoot32 S R r HRS) as [HP _].
    rewrite Hops, started_create in HP. apply sort_names_perm_eq. exact HP.
  Qed.

  Lemma file_step r n : RS r -> In n (map fst files) ->
    exists r' bs, get_file r n = (r', Ok (Some (bs, len (lookup_file files n)))) /\ RS r' /\
      (exists r2, get_hash r' n = (r2, Ok (Some (H (lookup_file files n)))) /\ RS r2) /\
      forall zf fuel, (length (lookup_file files n) < fuel)%nat ->
      exists bs', io_copy zf fuel bs [] = (bs', lookup_file files n, Ok tt) /\ RS (after_copy r' bs').
  Proof.
    intros HRS Hin. pose proof (names_nodup r HRS) as Hnd.
    apply in_map_iff in Hin. destruct Hin as ([n' d] & Hn & Hin). cbn [fst] in Hn. subst n'.
    destruct (create_started_pieces files 0 n d Hin) as (id & Hst & Hp). rewrite <- Hops in Hst, Hp.
    rewrite (lookup_file_in files n d Hnd Hin).
    destruct (rt_get_file_copy r n id HRS Hst) as (r' & bs & Hg & HRS' & Hc). rewrite Hp in Hg, Hc.
    exists r', bs. split; [exact Hg|]. split; [exact HRS'|]. split; [|exact Hc].
    destruct (rt_get_hash FNMAX TS TC TA TE H order Htags HHlen Horder ops sf rs Hrun Hok Hutf Hlen64 Hfoot32 S R HR r' n id HRS' Hst)
      as (r2 & Hh & HRS2). rewrite Hp in Hh. eauto.
  Qed.

  Lemma absent_step r n : RS r -> ~ In n (map fst files) -> get_file r n = (r, Ok None).
  Proof.
    intros HRS Hni.
    apply (rt_absent FNMAX TS TC TA TE H order HHlen Horder ops sf rs Hrun Hok Hutf Hlen64 Hfoot32 S R r n HRS).
    rewrite Hops, started_create. exact Hni.
  Qed.

  Variables zf fuel : nat.
  Hypothesis Hfuel : forall n d, In (n, d) files -> (length d < fuel)%nat.

  Lemma fuel_lookup r n : RS r -> In n (map fst files) -> (length (lookup_file files n) < fuel)%nat.
  Proof.
    intros HRS Hin. apply in_map_iff in Hin. destruct Hin as ([n' d] & Hn & Hin). cbn [fst] in Hn. subst n'.
    rewrite (lookup_file_in files n d (names_nodup r HRS) Hin). exact (Hfuel n d Hin).
  Qed.

  (* cat: any argument list; a name the archive lacks contributes nothing (and does not change the
     exit status) *)
  Lemma cat_loop_spec names : forall r acc, RS r ->
    cat_loop FNMAX TS TC TA TE S zf fuel r names acc = (acc ++ concat (map (lookup_file files) names), true).
  Proof.
    induction names as [|n names IH]; intros r acc HRS; cbn [cat_loop map concat]; [rewrite app_nil_r; reflexivity|].
    destruct (in_dec (list_eq_dec N.eq_dec) n (map fst files)) as [Hin|Hni].
    - destruct (file_step r n HRS Hin) as (r' & bs & -> & HRS' & _ & Hc).
      destruct (Hc zf fuel (fuel_lookup r n HRS Hin)) as (bs' & -> & HRS2).
      rewrite (IH _ _ HRS2), <- app_assoc. reflexivity.
    - rewrite (absent_step r n HRS Hni), (lookup_file_notin files n Hni). cbn [app]. apply IH. exact HRS.
  Qed.

  Lemma list_vv_spec names : (forall n, In n names -> In n (map fst files)) -> forall r acc, RS r ->
    list_vv FNMAX TS TC TA TE S r names acc =
      (acc ++ map (fun n => (n, len (lookup_file files n), H (lookup_file files n))) names, true).
  Proof.
    induction names as [|n names IH]; intros Hall r acc HRS; cbn [list_vv map]; [rewrite app_nil_r; reflexivity|].
    destruct (file_step r n HRS (Hall n (or_introl eq_refl))) as (r' & bs & -> & HRS' & (r2 & -> & HRS2) & _).
    rewrite (IH (fun m Hm => Hall m (or_intror Hm)) _ _ HRS2), <- app_assoc. reflexivity.
  Qed.

  Lemma to_tar_loop_spec names : (forall n, In n names -> In n (map fst files)) -> forall r acc, RS r ->
    to_tar_loop FNMAX TS TC TA TE S zf fuel r names acc =
      acc ++ concat (map (fun n => fst (tar_member n (len (lookup_file files n)) (lookup_file files n) true)) names).
  Proof.
    induction names as [|n names IH]; intros Hall r acc HRS; cbn [to_tar_loop map concat]; [rewrite app_nil_r; reflexivity|].
    destruct (file_step r n HRS (Hall n (or_introl eq_refl))) as (r' & bs & -> & HRS' & _ & Hc).
    destruct (path_accepted n) eqn:Eacc.
    - destruct (Hc zf fuel (fuel_lookup r n HRS (Hall n (or_introl eq_refl)))) as (bs' & -> & HRS2).
      cbn [is_ok]. rewrite (IH (fun m Hm => Hall m (or_intror Hm)) _ _ HRS2), <- app_assoc. reflexivity.
    - rewrite (IH (fun m Hm => Hall m (or_intror Hm)) _ _ HRS'), (tar_member_refused _ _ _ _ Eacc). reflexivity.
  Qed.

  Lemma convert_ops_spec names : (forall n, In n names -> In n (map fst files)) -> forall r acc, RS r ->
    convert_ops FNMAX TS TC TA TE S zf fuel r names acc =
      Ok (acc ++ create_ops (map (fun n => (n, lookup_file files n)) names)).
  Proof.
    induction names as [|n names IH]; intros Hall r acc HRS; cbn [convert_ops map create_ops]; [rewrite app_nil_r; reflexivity|].
    destruct (file_step r n HRS (Hall n (or_introl eq_refl))) as (r' & bs & -> & HRS' & _ & Hc).
    destruct (Hc zf fuel (fuel_lookup r n HRS (Hall n (or_introl eq_refl)))) as (bs' & -> & HRS2).
    rewrite (IH (fun m Hm => Hall m (or_intror Hm)) _ _ HRS2), <- app_assoc. reflexivity.
  Qed.

  Lemma members_of_spec names : (forall n, In n names -> In n (map fst files)) -> forall r acc, RS r ->
    members_of FNMAX TS TC TA TE S zf fuel r names acc = Ok (acc ++ map (fun n => (n, lookup_file files n)) names).
  Proof.
    induction names as [|n names IH]; intros Hall r acc HRS; cbn [members_of map]; [rewrite app_nil_r; reflexivity|].
    destruct (file_step r n HRS (Hall n (or_introl eq_refl))) as (r' & bs & -> & HRS' & _ & Hc).
    destruct (Hc zf fuel (fuel_lookup r n HRS (Hall n (or_introl eq_refl)))) as (bs' & -> & HRS2).
    rewrite (IH (fun m Hm => Hall m (or_intror Hm)) _ _ HRS2), <- app_assoc. reflexivity.
  Qed.

  Lemma sorted_in n : In n (sort_names (map fst files)) -> In n (map fst files).
  Proof. intros Hin. eapply Permutation_in; [apply sort_names_perm|exact Hin]. Qed.

  (* ---------- the commands on an opened archive ---------- *)
  Theorem cmd_list_spec r : RS r ->
    cmd_list S r = mkCR true OUntouched (flat_map (fun n => n ++ [NL]) (sort_names (map fst files))).
  Proof. intros HRS. unfold cmd_list. rewrite (listed_sorted r HRS). reflexivity. Qed.

  Theorem cmd_list_verbose_spec r : RS r ->
    cmd_list_verbose FNMAX TS TC TA TE S r =
      (map (fun f => (fst f, len (snd f), H (snd f))) (sorted_files files), true).
  Proof.
    intros HRS. unfold cmd_list_verbose. rewrite (listed_sorted r HRS), (list_vv_spec _ sorted_in r [] HRS).
    unfold sorted_files. rewrite map_map. reflexivity.
  Qed.

  Theorem cmd_to_tar_spec r : RS r ->
    cmd_to_tar_opened FNMAX TS TC TA TE S zf fuel r = tar_of (sorted_files files).
  Proof.
    intros HRS. unfold cmd_to_tar_opened. rewrite (listed_sorted r HRS), (to_tar_loop_spec _ sorted_in r [] HRS).
    unfold tar_of, sorted_files. rewrite map_map. reflexivity.
  Qed.

  Theorem convert_ops_sorted r : RS r ->
    convert_ops FNMAX TS TC TA TE S zf fuel r (sort_names (list_files S r)) [] = Ok (create_ops (sorted_files files)).
  Proof. intros HRS. rewrite (listed_sorted r HRS). exact (convert_ops_spec _ sorted_in r [] HRS). Qed.

  Theorem members_of_sorted r : RS r ->
    members_of FNMAX TS TC TA TE S zf fuel r (sort_names (list_files S r)) [] = Ok (sorted_files files).
  Proof. intros HRS. rewrite (listed_sorted r HRS). exact (members_of_spec _ sorted_in r [] HRS). Qed.
End Loops.
