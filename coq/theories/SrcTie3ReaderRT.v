(* SrcTie3ReaderRT.v — the model's reader theorems carried over to the TRANSLATED reader
   (gen/Src3d.v) through the simulations of SrcTie3Reader.v: reading a file to its end with the
   translated get_file / read (C01, C10), and totality of the translated read on any tame
   stream is in SrcTie3ReaderTotal.v (C08). *)
From MLA Require Import Limit.
From MLA Require Import Base Stream Blocks Reader RoundTripBlocks RoundTripReader SrcTie3Reader.
From MLAGen Require Src3d.
From Coq Require Import ZifyBool ZifyNat ZifyN.
Open Scope N_scope.

Section RT.
  Context {LIM : Limit}.
  Variable S : Stream.
  Variables FNMAX T_START T_CONTENT T_EOA T_EOF : N.
  Variable site_index : N.

  Notation BFR := (Src3d.BlocksToFileReader S).
  Notation g_read := (Src3d.bfr_read S FNMAX T_START T_CONTENT T_EOA T_EOF site_index 1123).
  Notation g_get_file := (Src3d.get_file S FNMAX T_START T_CONTENT T_EOA T_EOF site_index).
  Notation m_bread := (bread FNMAX T_START T_CONTENT T_EOA T_EOF S).
  Notation m_ready := (bread_ready FNMAX T_START T_CONTENT T_EOA T_EOF S).
  Notation m_read_all := (read_all FNMAX T_START T_CONTENT T_EOA T_EOF S).
  Notation rep := (rep S).
  Notation rep_r := (rep_r S).

  (* read until a read returns no byte, through the translated `read` (F: fuel of its loop) *)
  Fixpoint g_read_all (F fuel : nat) (x : BFR) (sizes : nat -> N) (i : nat) (acc : bytes) : BFR * res bytes :=
    match fuel with
    | O => (x, Err EFuel)
    | Datatypes.S f =>
      match g_read F x (sizes i) with
      | (x', Ok []) => (x', Ok acc)
      | (x', Ok d) => g_read_all F f x' sizes (Datatypes.S i) (acc ++ d)
      | (x', Err e) => (x', Err e)
      | (x', Crash c) => (x', Crash c)
      end
    end.

  (* `read` never changes the offsets table *)
  Lemma bread_data_offs (b : bstate S) s rem n : b_offs (fst (bread_data S b s rem n)) = b_offs b.
  Proof.
    unfold bread_data. destruct (rd S s (N.min rem n)) as [s1 [d|e|x]]; try reflexivity.
    destruct (rem <? len d); reflexivity.
  Qed.
  Lemma bmove_offs (b : bstate S) : b_offs (fst (bmove S b)) = b_offs b.
  Proof.
    unfold bmove. destruct (nth_error (b_offs b) (Datatypes.S (b_cur b))); [|reflexivity].
    destruct (sk S (b_src b) (FromStart n)) as [s1 [p|e|x]]; reflexivity.
  Qed.
  Lemma bread_ready_offs zf : forall mf (b : bstate S) n, b_offs (fst (m_ready mf zf b n)) = b_offs b.
  Proof.
    induction mf as [|mf' IH]; intros b n; rewrite bread_ready_with; unfold ready_with.
    all: destruct (next_block FNMAX T_START T_CONTENT T_EOA T_EOF S zf (b_id b) (b_src b)) as [s1 [blk|e|x]]; try reflexivity.
    all: cbv zeta; destruct blk as [bi nm|bi l|bi h|]; try reflexivity.
    all: destruct (bi =? b_id b); try reflexivity; try exact (bread_data_offs (bset S b s1 BReady) s1 l n).
    all: pose proof (bmove_offs (bset S b s1 BReady)) as Hm.
    all: destruct (bmove S (bset S b s1 BReady)) as [b2 [[]|e|x]]; cbn [fst] in *; try exact Hm.
    all: rewrite IH; exact Hm.
  Qed.
  Lemma bread_offs zf (b : bstate S) n : b_offs (fst (m_bread zf b n)) = b_offs b.
  Proof.
    unfold bread. destruct (b_mode b); [apply bread_ready_offs | apply bread_data_offs | reflexivity].
  Qed.

  (* a whole run of reads: when the model delivers d, so does the translated code *)
  Theorem read_all_src zf F : forall fuel (bs : bstate S) sizes i acc bs' d,
    (Datatypes.S zf * Datatypes.S (Datatypes.S (length (b_offs bs))) <= F)%nat ->
    m_read_all zf fuel bs sizes i acc = (bs', Ok d) ->
    g_read_all F fuel (rep bs) sizes i acc = (rep bs', Ok d).
  Proof.
    induction fuel as [|f IH]; intros bs sizes i acc bs' d HF Hr; cbn [read_all g_read_all] in *; [discriminate|].
    pose proof (bread_offs zf bs (sizes i)) as Ho.
    pose proof (bfr_read_eq S FNMAX T_START T_CONTENT T_EOA T_EOF site_index zf F bs (sizes i) HF) as He.
    destruct (m_bread zf bs (sizes i)) as [bs1 [dd|e|x]]; cbn [fst snd] in *; [|discriminate|discriminate].
    rewrite (He ltac:(discriminate) eq_refl).
    destruct dd as [|y dd].
    - now injection Hr as <- <-.
    - apply IH; [rewrite Ho; exact HF | exact Hr].
  Qed.

  Lemma get_file_offs (r r' : rstate S) name bs sz :
    get_file FNMAX T_START T_CONTENT T_EOA T_EOF S r name = (r', Ok (Some (bs, sz))) ->
    exists fi, flookup (r_meta r) name = Some fi /\ b_offs bs = fi_offsets fi.
  Proof.
    unfold get_file. destruct (flookup (r_meta r) name) as [fi|]; [|discriminate].
    destruct (fi_offsets fi) as [|o0 rest] eqn:Eo; [discriminate|].
    destruct (sk S (r_src r) (FromStart o0)) as [s1 [p|e|x]]; [|discriminate|discriminate].
    destruct (parse_block FNMAX T_START T_CONTENT T_EOA T_EOF S s1) as [s2 [blk|e|x]]; [|discriminate|discriminate].
    destruct blk; try discriminate. intros [= _ <- _]. exists fi. split; [reflexivity | now rewrite Eo].
  Qed.

  (* C01 / C10 on the translated reader: over any stream that refines a cursor on the blocks of an
     archive, the TRANSLATED get_file followed by the TRANSLATED read, with any positive buffer
     sizes, returns the pieces of the file in order, and ends in state Finish *)
  Theorem get_file_read_all_src :
    tags_distinct T_START T_CONTENT T_EOA T_EOF ->
    forall (bl : list block) (post : bytes) (R : st S -> N -> Prop),
    Refines S (ser_blocks T_START T_CONTENT T_EOA T_EOF bl ++ post) R ->
    Forall (wfb FNMAX) bl -> ~ In BEnd bl ->
    forall (id : N) (m : footer) (r : rstate S) (name : bytes) (fi : finfo) (nm : bytes) (ds : list bytes) (h : bytes),
    RState S R m r -> flookup m name = Some fi ->
    fi_offsets fi = run_offs T_START T_CONTENT T_EOA T_EOF id None 0 bl ->
    proj id bl = BStart id nm :: map (BContent id) ds ++ [BEof id h] ->
    forall sizes, (forall i, 0 < sizes i) ->
    forall zf fuel F, (length (concat ds) < fuel)%nat ->
    (Datatypes.S zf * Datatypes.S (Datatypes.S (length (fi_offsets fi))) <= F)%nat ->
    exists ar' x x',
      g_get_file (rep_r r) name = (ar', Ok (Some (name, x, fi_size fi))) /\
      g_read_all F fuel x sizes 0%nat [] = (x', Ok (concat ds)) /\
      Src3d.bfr_state S x' = Src3d.Finish.
  Proof.
    intros Htags bl post R HR Hwf Hne id m r name fi nm ds h HRS Hlk Hoff Hproj sizes Hsz zf fuel F Hfuel HF.
    destruct (get_file_spec FNMAX _ _ _ _ Htags S bl _ R HR Hwf Hne id _ r name fi nm _ _ HRS Hlk Hoff Hproj)
      as (r' & bs & Hg & HRS' & HRI).
    destruct (read_all_spec FNMAX _ _ _ _ Htags S bl _ R HR Hwf Hne id sizes Hsz zf fuel bs _ 0%nat [] HRI Hfuel)
      as (bs' & Hra & Hm).
    destruct (get_file_offs _ _ _ _ _ Hg) as (fi' & Hlk' & Hoffs).
    destruct HRS as [Hmeta _]. rewrite Hmeta, Hlk in Hlk'. injection Hlk' as <-.
    exists (rep_r r'), (rep bs), (rep bs'). split; [|split].
    - rewrite get_file_sim, Hg. reflexivity.
    - apply (read_all_src zf F fuel bs sizes 0%nat [] bs' _); [rewrite Hoffs; exact HF | exact Hra].
    - unfold SrcTie3Reader.rep. cbn [Src3d.bfr_state]. now rewrite Hm.
  Qed.
End RT.
