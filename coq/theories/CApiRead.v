(* CApiRead.v — the READING side of the C interface, bindings/C/src/lib.rs:531-713
   (definitions only; proofs in CApiReadProofs.v):

     CallbackInputRead::read / ::seek     the adapter from C callbacks to Read + Seek  [CbIn]
     mla_roarchive_extract                null checks, then ..._internal               [roarchive_extract]
     mla_roarchive_extract_internal       handle consumed, ArchiveReader::from_config over the
                                          adapter, list_files, sort, file callback once per
                                          name, export map, helpers::linear_extract into the
                                          CallbackOutput writers                       [extract_internal]
     mla_roarchive_info(_internal)        null checks, ArchiveHeader::from over the adapter
                                          (seek_callback: None)                        [roarchive_info]

   The C callbacks are a state machine [cbsrc] (the `context` pointer is its state).  One
   invocation of the read callback returns (status, *bytes_read, the bytes it stored in the
   buffer); of the seek callback (status, *new_pos).

   `ArchiveReader::from_config` is Archive.archive_open with the in-memory cursor replaced by
   ANY source stream S [from_config_G]; the header is read THROUGH the stream (read_exact /
   bincode field reads) [read_header_S] and then parsed by the pure Archive.read_header.

   NOT modelled: io::BufReader inside linear_extract (C12's model has none either: it changes
   neither the bytes delivered nor — with a source that hands out one byte per call — the
   number of callback invocations); the cutting of one FileContent block into <= 8 KiB
   write_all calls by io::copy (a block's data reaches its writer in ONE write_all here; for
   writers that accept a non-empty part of every buffer the bytes received do not depend on the
   cut: CApiProofs.write_all_sched_delivers, C12_linear_any_sink); raw pointers (a callback
   storing MORE than buffer_len bytes is memory corruption outside any model; one REPORTING
   more than buffer_len is modelled: the adapter trusts it, see [cbin_rd]). *)
From MLA Require Import Limit.
From MLA Require Import Base Stream EncLayer CompLayer RawLayer LayerStack Blocks Reader Format Ecies Archive CApi.
Open Scope N_scope.

(* ------------------------------------------------------------------ the C callbacks *)
Record cbsrc := mkCb {
  cb_st : Type;
  (* MlaReadCallback(buffer, buffer_len, context, &bytes_read) -> status *)
  cb_read : cb_st -> N -> cb_st * (N * N * bytes);
  (* MlaSeekCallback(offset, whence, context, &new_pos) -> status *)
  cb_seek : cb_st -> Z -> N -> cb_st * (N * N);
}.

Definition W_SET : N := 0.      (* SeekFrom::Start(n)   => (0, n) *)
Definition W_CUR : N := 1.      (* SeekFrom::Current(n) => (1, n) *)
Definition W_END : N := 2.      (* SeekFrom::End(n)     => (2, n) *)
Definition UnwrapNone : N := 2002.   (* self.seek_callback.unwrap() on None (lib.rs:562) *)

(* impl Read for CallbackInputRead (lib.rs:537-546).  `len` = clamp_u32 (buf.len()); status 0 =>
   Ok(len_read as usize) — the count the callback REPORTED, not checked against len; the slice
   the caller then looks at is buf[..len_read]: what the callback stored, followed by what the
   buffer held before (zeroes in every caller of the library: vec![0; n] / BufReader).  When
   len_read > buf.len() the list returned here is longer than the request, which is the
   "Read impl returning more than asked" Crash arm of every consumer in the model
   (Stream.read_full_aux 900, Reader.copy_take 901, Reader.bread_data 1123): std's
   read_exact does `buf = &mut buf[n..]`, Take::read asserts `n <= limit` — both panic. *)
Definition cbin_rd (C : cbsrc) (s : cb_st C) (n : N) : cb_st C * res bytes :=
  match cb_read C s (clamp_u32 n) with
  | (s', (st, lr, d)) =>
    if st =? 0 then (s', Ok (takeN lr (d ++ repeat 0 (N.to_nat (lr - len d)))))
    else (s', Err EIo)                              (* io::Error::from_raw_os_error(e) *)
  end.

(* impl Seek for CallbackInputRead (lib.rs:548-567).  has_seek = false: seek_callback is None
   (the info path) and any seek would panic on the unwrap. *)
Definition cbin_call (C : cbsrc) (has_seek : bool) (s : cb_st C) (off : Z) (wh : N) : cb_st C * res N :=
  if has_seek then
    match cb_seek C s off wh with
    | (s', (st, np)) => if st =? 0 then (s', Ok np) else (s', Err EIo)
    end
  else (s, Crash UnwrapNone).
Definition cbin_sk (C : cbsrc) (has_seek : bool) (s : cb_st C) (w : whence) : cb_st C * res N :=
  match w with
  | FromStart n =>
    (* i64::try_from(n).map_err(InvalidInput)? — before the callback is looked at *)
    if n <? 2 ^ 63 then cbin_call C has_seek s (Z.of_N n) W_SET else (s, Err EInval)
  | FromCur d => cbin_call C has_seek s d W_CUR
  | FromEnd d => cbin_call C has_seek s d W_END
  end.
Definition CbIn (C : cbsrc) (has_seek : bool) : Stream :=
  {| st := cb_st C; rd := cbin_rd C; sk := cbin_sk C has_seek |}.

(* "the callbacks implement a cursor over the bytes a": reads deliver the next k <= len bytes
   (k >= 1 unless len = 0 or at the end — any read-size behaviour), seeks with the three
   whence codes move as lseek does, as long as the target lies in [0, |a|] *)
Record CbCursor (C : cbsrc) (a : bytes) (R : cb_st C -> N -> Prop) : Prop := {
  cc_range : forall s p, R s p -> p <= len a;
  cc_read : forall s p l, R s p ->
    exists s' k, cb_read C s l = (s', (0, k, sliceN p k a)) /\ k <= l /\ p + k <= len a /\
                 (k = 0 -> l = 0 \/ p = len a) /\ R s' (p + k);
  cc_set : forall s p q, R s p -> q <= len a ->
    exists s', cb_seek C s (Z.of_N q) W_SET = (s', (0, q)) /\ R s' q;
  cc_cur : forall s p d q, R s p -> target (len a) p (FromCur d) = Some q ->
    exists s', cb_seek C s d W_CUR = (s', (0, q)) /\ R s' q;
  cc_end : forall s p d q, R s p -> target (len a) p (FromEnd d) = Some q ->
    exists s', cb_seek C s d W_END = (s', (0, q)) /\ R s' q;
}.

(* the family the correspondence job runs (harness/src/capiread.rs): a cursor over `a` that
   hands out at most `rmode` bytes per invocation (0 = as many as asked), whose rfail-th read
   invocation / sfail-th seek invocation returns 5 (0 = never) *)
Record curst := mkCur { cu_pos : N; cu_nr : N; cu_ns : N }.
Definition cur_read (a : bytes) (rmode rfail : N) (s : curst) (l : N) : curst * (N * N * bytes) :=
  let nr := cu_nr s + 1 in
  if negb (rfail =? 0) && (nr =? rfail) then (mkCur (cu_pos s) nr (cu_ns s), (5, 0, []))
  else
    let want := if rmode =? 0 then l else N.min l rmode in
    let d := sliceN (N.min (cu_pos s) (len a)) want a in
    (mkCur (cu_pos s + len d) nr (cu_ns s), (0, len d, d)).
Definition cur_seek (a : bytes) (sfail : N) (s : curst) (off : Z) (wh : N) : curst * (N * N) :=
  let ns := cu_ns s + 1 in
  let stay st := (mkCur (cu_pos s) (cu_nr s) ns, (st, 0)) in
  if negb (sfail =? 0) && (ns =? sfail) then stay 5
  else
    let base := if wh =? W_SET then Some 0 else if wh =? W_CUR then Some (cu_pos s)
                else if wh =? W_END then Some (len a) else None in
    match base with
    | None => stay 22
    | Some b =>
      let t := (Z.of_N b + off)%Z in
      if (t <? 0)%Z then stay 22 else (mkCur (Z.to_N t) (cu_nr s) ns, (0, Z.to_N t))
    end.
Definition CurCb (a : bytes) (rmode rfail sfail : N) : cbsrc :=
  {| cb_st := curst; cb_read := cur_read a rmode rfail; cb_seek := cur_seek a sfail |}.
Definition cur0 : curst := mkCur 0 0 0.

(* ------------------------------------------------------------------ statuses *)
(* MLAStatus::from(e) for what the reader model reports.  Everything that travels through an
   io::Error (a layer's Read/Seek) arrives as Error::IOError. *)
Definition st_of_rerr (e : err) : status :=
  match e with
  | EIo | EUnexpectedEof | EInval | EShortSource | EWrongTag | EEos => IOError
  | EDeser => DeserializationError
  | EState => WrongReaderState
  | ENameTooLong => FilenameTooLong
  | EDup => DuplicateFilename
  | EMagic => WrongMagic
  | EVersion => UnsupportedVersion
  | EBlockType => WrongBlockSubFileType
  | EUtf8 => UTF8ConversionError
  | EMissingMeta => MissingMetadata
  | EKey => CfgPrivateKeyNotFound
  | EFuel => AssertionError            (* the model's fuel ran out: excluded by the theorems *)
  end.

Inductive xres (A : Type) := XOk (a : A) | XRet (st : status) | XCrash (site : N).
Arguments XOk {A} a.
Arguments XRet {A} st.
Arguments XCrash {A} site.
Definition of_res {A} (r : res A) : xres A :=
  match r with Ok a => XOk a | Err e => XRet (st_of_rerr e) | Crash c => XCrash c end.

(* ------------------------------------------------------------------ sorting (Vec<String>::sort) *)
Fixpoint bytes_leb (a b : bytes) : bool :=
  match a, b with
  | [], _ => true
  | _ :: _, [] => false
  | x :: a', y :: b' => if x <? y then true else if y <? x then false else bytes_leb a' b'
  end.
Fixpoint ins_bytes (x : bytes) (l : list bytes) : list bytes :=
  match l with [] => [x] | h :: t => if bytes_leb x h then x :: l else h :: ins_bytes x t end.
Definition sort_bytes (l : list bytes) : list bytes := fold_right ins_bytes [] l.

(* ------------------------------------------------------------------ the file callback *)
(* what the file callback did for one name: returned non-zero (declined), or returned 0 after
   filling the FileWriter: write_callback / flush_callback non-NULL?, and how the successive
   invocations of the write callback will behave (CApi.cbev) *)
Inductive fdecision := FDecline | FAccept (wcb fcb : bool) (sched : list cbev).

(* the loop `for fname in &iter` (lib.rs:634-660): names asked so far; None = a NULL callback
   in an accepted FileWriter: return BadAPIArgument — the earlier names were already asked *)
Fixpoint ask (decide : nat -> bytes -> fdecision) (i : nat) (names asked : list bytes)
         (exp : list (bytes * list cbev)) : list bytes * option (list (bytes * list cbev)) :=
  match names with
  | [] => (asked, Some exp)
  | nm :: r =>
    match decide i nm with
    | FDecline => ask decide (S i) r (asked ++ [nm]) exp
    | FAccept w f sched =>
      if w && f then ask decide (S i) r (asked ++ [nm]) (exp ++ [(nm, sched)])
      else (asked ++ [nm], None)
    end
  end.

(* export: HashMap<&String, CallbackOutput>; a writer = its remaining schedule and what it received *)
Definition sinkmap := bytes -> option (list cbev * bytes).
Definition sk_none : sinkmap := fun _ => None.
Definition sk_of (exp : list (bytes * list cbev)) : sinkmap :=
  fun nm => match find (fun p => bytes_eqb (fst p) nm) exp with
            | Some (_, sched) => Some (sched, [])
            | None => None
            end.
Definition supd (m : sinkmap) (nm : bytes) (v : list cbev * bytes) : sinkmap :=
  fun x => if bytes_eqb x nm then Some v else m x.

(* io::copy(take(length), writer) for each FileContent block of a chosen file, in archive
   order; the first failing write ends the extraction (`?`) *)
Fixpoint deliver (out : list (bytes * bytes)) (m : sinkmap) : sinkmap * res unit :=
  match out with
  | [] => (m, Ok tt)
  | (nm, d) :: r =>
    match m nm with
    | None => deliver r m
    | Some (sched, got) =>
      match write_all (write_all_fuel sched d) sched d got with
      | (sched', got', Ok _) => deliver r (supd m nm (sched', got'))
      | (sched', got', Err e) => (supd m nm (sched', got'), Err e)
      | (sched', got', Crash c) => (supd m nm (sched', got'), Crash c)
      end
    end
  end.

Section CApiRead.
  Variables CHUNK TAG BLOCK LIMIT FNMAX : N.
  Local Hint Extern 0 Limit => exact LIMIT : typeclass_instances.
  Variables TS TC TA TE : N.
  Variable dh : bytes -> bytes -> bytes.
  Variable kdf : bytes -> bytes.
  Variables wdec wtag : bytes -> bytes -> bytes.
  Variable ksf : bytes -> bytes -> N -> N -> N.
  Variable tagf : bytes -> bytes -> N -> bytes -> bytes.
  Variable dec : bytes -> bytes.

  Section Source.
  Variable S : Stream.

  (* ---------- ArchiveHeader::from over a stream (mla/src/lib.rs:415-439) ---------- *)
  Definition rx (s : st S) (n : N) : st S * res bytes := read_exact S (Datatypes.S (N.to_nat n)) s n.

  Definition hdr_pure (hb : bytes) : res header :=
    match Archive.read_header LIMIT hb with
    | Ok (h, _) => Ok h
    | Err e => Err e
    | Crash c => Crash c
    end.
  (* bincode: any failure of the field reads is DeserializationError *)
  Definition deser_err (e : err) : err := EDeser.

  (* read_exact(3 magic) ; read_u32 ; then bincode reads field by field: layers byte and
     Option tag (2), ephemeral public key and key count (32 + 8), the wrapped keys and the
     nonce (48 * count + 8); the bytes read are then parsed by the pure Archive.read_header.
     bincode's byte limit is charged before the keys are read. *)
  Definition read_header_S (s : st S) : st S * res header :=
    match rx s 3 with
    | (s1, Ok m) =>
      if negb (bytes_eqb m MAGIC) then (s1, Err EMagic) else
      match rx s1 4 with
      | (s2, Ok v) =>
        if negb (le_val v =? VERSION) then (s2, Err EVersion) else
        match rx s2 2 with
        | (s3, Ok lo) =>
          if nth 1 lo 0 =? 1 then
            match rx s3 40 with
            | (s4, Ok pk) =>
              let cnt := le_val (dropN 32 pk) in
              if LIMIT <? 50 + 48 * cnt then (s4, Err EDeser) else
              match rx s4 (48 * cnt + 8) with
              | (s5, Ok rest) => (s5, hdr_pure (m ++ v ++ lo ++ pk ++ rest))
              | (s5, Err e) => (s5, Err (deser_err e))
              | (s5, Crash c) => (s5, Crash c)
              end
            | (s4, Err e) => (s4, Err (deser_err e))
            | (s4, Crash c) => (s4, Crash c)
            end
          else (s3, hdr_pure (m ++ v ++ lo))
        | (s3, Err e) => (s3, Err (deser_err e))
        | (s3, Crash c) => (s3, Crash c)
        end
      | (s2, Err e) => (s2, Err e)
      | (s2, Crash c) => (s2, Crash c)
      end
    | (s1, Err e) => (s1, Err e)
    | (s1, Crash c) => (s1, Crash c)
    end.

  (* ---------- the layer stack over S (Archive.StackS with the cursor replaced by S) ---------- *)
  Definition RawG : Stream := RawReader S.
  Definition EncG (k n : bytes) : Stream := EncReader CHUNK TAG (ksf k n) (tagf k n) RawG.
  Definition StackG (e c : bool) (k n : bytes) : Stream :=
    match e, c with
    | false, false => RawG
    | true, false => EncG k n
    | false, true => CompReader BLOCK dec RawG
    | true, true => CompReader BLOCK dec (EncG k n)
    end.

  Definition open_stack_G (e c : bool) (k n : bytes) (i : st S) : res (st (StackG e c k n)) :=
    do r <- lift (raw_open S i);
    match e as e', c as c' return res (st (StackG e' c' k n)) with
    | false, false => lift (raw_initialize S r)
    | true, false => lift (enc_open CHUNK TAG (ksf k n) (tagf k n) RawG r)
    | false, true => lift (comp_open LIMIT RawG (raw_initialize S) r)
    | true, true =>
      lift (comp_open LIMIT (EncG k n) (enc_initialize CHUNK TAG (ksf k n) (tagf k n) S)
                      (@mkE RawG r [] 0 0))
    end.

  Definition stack_ofG (p : oparams) : Stream := StackG (op_enc p) (op_comp p) (op_key p) (op_nonce p).
  Definition openedG : Type := { p : oparams & Reader.rstate (stack_ofG p) }.

  (* ConfigError of ArchiveReaderConfig::load_persistent (config.rs:118, encrypt.rs:161), through
     `impl From<ConfigError> for Error` (errors.rs:96): PrivateKeyNotSet becomes
     Error::PrivateKeyNeeded — MLAStatus::ConfigErrorPrivateKeyNotSet is never returned here *)
  Definition st_of_load_err (privs : list bytes) (e : err) : status :=
    match e with
    | EInval => CfgIncoherentPersistentConfig
    | EKey => match privs with [] => PrivateKeyNeeded | _ => CfgPrivateKeyNotFound end
    | _ => st_of_rerr e
    end.

  (* ArchiveReader::from_config(src, config) (mla/src/lib.rs:1223-1254) *)
  Definition from_config_G (s0 : st S) (privs : list bytes) : xres openedG :=
    match sk S s0 (FromStart 0) with                               (* src.rewind()? *)
    | (s1, Ok _) =>
      match read_header_S s1 with
      | (s2, Ok h) =>
        match load_config dh kdf wdec wtag h privs with
        | Ok (e, c, k, n) =>
          match open_stack_G e c k n s2 with
          | Ok s =>
            match ropen (StackG e c k n) s with
            | Ok r => XOk (existT (fun p => Reader.rstate (stack_ofG p)) (mkOP e c k n 0) r)
            | Err x => XRet (st_of_rerr x)
            | Crash x => XCrash x
            end
          | Err x => XRet (st_of_rerr x)
          | Crash x => XCrash x
          end
        | Err x => XRet (st_of_load_err privs x)
        | Crash x => XCrash x
        end
      | (_, Err x) => XRet (st_of_rerr x)
      | (_, Crash x) => XCrash x
      end
    | (_, Err x) => XRet (st_of_rerr x)
    | (_, Crash x) => XCrash x
    end.

  (* ---------- mla_roarchive_extract_internal (lib.rs:606-671) ---------- *)
  (* what the call leaves behind: the value of *config afterwards, the status, the names the
     file callback was asked about (in order), the names whose writer was registered, and the
     writers (remaining schedule, bytes received) *)
  Record xout := mkX {
    x_cfg : option (list bytes);
    x_res : cres;
    x_asked : list bytes;
    x_accepted : list bytes;
    x_sinks : sinkmap;
  }.

  Definition extract_internal (cfg : option (list bytes)) (s0 : st S)
             (decide : nat -> bytes -> fdecision) (fuel : nat) : xout :=
    match cfg with
    | None => mkX None (Ret BadAPIArgument) [] [] sk_none          (* handle already consumed (D16) *)
    | Some privs =>
      (* *config = null_mut(): whatever follows, the handle is cleared *)
      match from_config_G s0 privs with
      | XRet st => mkX None (Ret st) [] [] sk_none
      | XCrash c => mkX None (CCrash c) [] [] sk_none
      | XOk (existT _ p r) =>
        (* mla.list_files(): the metadata is always present after from_config, so the
           `Err(_) => BadAPIArgument` arm is dead; iter.sort() *)
        let names := sort_bytes (Reader.list_files (stack_ofG p) r) in
        match ask decide 0 names [] [] with
        | (asked, None) => mkX None (Ret BadAPIArgument) asked [] sk_none
        | (asked, Some exp) =>
          let acc := map fst exp in
          match Reader.linear_extract FNMAX TS TC TA TE (stack_ofG p) fuel r acc with
          | Ok out =>
            match deliver out (sk_of exp) with
            | (m, Ok _) => mkX None (Ret Success) asked acc m
            | (m, Err _) => mkX None (Ret IOError) asked acc m
            | (m, Crash c) => mkX None (CCrash c) asked acc m
            end
          | Err e => mkX None (Ret (st_of_rerr e)) asked acc (sk_of exp)
          | Crash c => mkX None (CCrash c) asked acc (sk_of exp)
          end
        end
      end
    end.
  End Source.

  (* ---------- mla_roarchive_extract (lib.rs:573-603) ---------- *)
  (* cfgp: the `config` pointer is non-NULL; cfgv: the handle it points to (None = NULL);
     rcb / scb / fcb: the callback is non-NULL *)
  Definition roarchive_extract (cfgp : bool) (cfgv : option (list bytes)) (rcb scb fcb : bool)
             (C : cbsrc) (s0 : cb_st C) (decide : nat -> bytes -> fdecision) (fuel : nat) : xout :=
    if negb cfgp then mkX cfgv (Ret BadAPIArgument) [] [] sk_none
    else if negb rcb then mkX cfgv (Ret BadAPIArgument) [] [] sk_none
    else if negb scb then mkX cfgv (Ret BadAPIArgument) [] [] sk_none
    else if negb fcb then mkX cfgv (Ret BadAPIArgument) [] [] sk_none
    else extract_internal (CbIn C true) cfgv s0 decide fuel.

  (* ---------- mla_roarchive_info / _info_internal (lib.rs:680-713) ---------- *)
  (* the out struct: (version, layers) when written *)
  Definition roarchive_info (rcb info_out : bool) (C : cbsrc) (s0 : cb_st C) : cres * option (N * N) :=
    if negb info_out then (Ret BadAPIArgument, None)
    else if negb rcb then (Ret BadAPIArgument, None)
    else
      match read_header_S (CbIn C false) s0 with
      | (_, Ok h) => (Ret Success, Some (VERSION, h_layers h))    (* format_version was compared with VERSION *)
      | (_, Err e) => (Ret (st_of_rerr e), None)
      | (_, Crash c) => (CCrash c, None)
      end.
End CApiRead.

