(* CliExtractProofs.v — `mlar extract` from archive BYTES (CliExtract.v):
     extract_archive_confined   ANY bytes, any keys, any file system with symbolic links, any output
                                directory, both forms, any pool capacity, success or failure at any
                                point of the reading: no regular file outside the output directory is
                                created, truncated, appended to or removed;
     extract_archive_benign     an archive written by `create` (premises of C01_archive_roundtrip),
                                benign names with a clear way: both forms — the whole-archive form
                                through the pool — leave every member beneath the output directory
                                with exactly the bytes given to `create`.
   The second extends CliCompose.extract_both_forms_agree (it is used, not repeated). *)
From MLA Require Import Limit.
From MLA Require Import Base Stream Blocks Writer Reader RoundTripBlocks RoundTripWriter RoundTripReader RoundTrip
  CompLayer EncLayer Format Ecies Archive ArchiveProofs LinearRoundTripDefs LinearProofs LinearRoundTrip
  Path PathProofs PathLinks PathBenign Tar TarProofs Cli CliProofs CliArchive CliCompose Pool PoolProofs CliExtract.
From Coq Require Import ZifyBool ZifyNat ZifyN Permutation.
Open Scope N_scope.

(* ================================================================== *)
(** * 1. The walk with its delivered pieces is the walk of Reader.v *)
Section DeliveredProofs.
  Context {LIM : Limit}.
  Variable FNMAX : N.
  Variables TS TC TA TE : N.
  Variable S : Stream.

  Definition proj3 (x : st S * bytes * res unit) : st S * res bytes :=
    (fst (fst x), match snd x with Ok _ => Ok (snd (fst x)) | Err e => Err e | Crash c => Crash c end).

  Lemma copy_take_d_spec : forall fuel s l acc,
    copy_take S fuel s l acc = proj3 (copy_take_d S fuel s l acc).
  Proof.
    induction fuel as [|fuel IH]; intros s l acc; cbn [copy_take copy_take_d].
    - destruct (l =? 0); reflexivity.
    - destruct (l =? 0); [reflexivity|].
      destruct (rd S s (N.min l 8192)) as [s1 [d|e|c]]; try reflexivity.
      destruct (len d =? 0); [reflexivity|]. destruct (l <? len d); [reflexivity|]. apply IH.
  Qed.

  Lemma lx_loop_d_spec : forall fuel s export ids acc,
    lx_loop FNMAX TS TC TA TE S fuel s export ids acc = undeliver (lx_loop_d FNMAX TS TC TA TE S fuel s export ids acc).
  Proof.
    induction fuel as [|fuel IH]; intros s export ids acc; cbn [lx_loop lx_loop_d]; [reflexivity|].
    destruct (parse_block FNMAX TS TC TA TE S s) as [s1 [pb|e|c]]; try reflexivity.
    destruct pb; try apply IH; try reflexivity.
    rewrite copy_take_d_spec.
    destruct (copy_take_d S (Datatypes.S fuel) s1 _ []) as [[s2 d] [u|e|c]]; cbn [proj3 fst snd]; try reflexivity.
    destruct (id_lookup ids _); apply IH.
  Qed.

  Lemma linear_extract_d_spec fuel r export :
    linear_extract FNMAX TS TC TA TE S fuel r export = undeliver (linear_extract_d FNMAX TS TC TA TE S fuel r export).
  Proof.
    unfold linear_extract, linear_extract_d.
    destruct (sk S (r_src r) (FromStart 0)) as [s1 [x|e|c]]; try reflexivity. apply lx_loop_d_spec.
  Qed.

  Lemma linear_extract_d_ok fuel r export blocks :
    linear_extract FNMAX TS TC TA TE S fuel r export = Ok blocks ->
    exists u, linear_extract_d FNMAX TS TC TA TE S fuel r export = (blocks, Ok u).
  Proof.
    rewrite linear_extract_d_spec. unfold undeliver.
    destruct (linear_extract_d FNMAX TS TC TA TE S fuel r export) as [dl [u|e|c]]; cbn [fst snd]; try discriminate.
    intros H; inversion H; subst. eauto.
  Qed.

  (* the per-file loop, ANY reader state over ANY stream (hostile bytes included), any names:
     whatever happens — get_file errors, skipped members, a create_file error, a copy that fails
     half-way — the file system has only evolved *)
  Lemma extract_listed_loop_confined zf fuel out : forall names r f,
    evolves out f (fst (extract_listed_loop FNMAX TS TC TA TE S zf fuel r names out f)).
  Proof.
    induction names as [|n names IH]; intros r f; cbn [extract_listed_loop]; [apply evolves_refl|].
    destruct (get_file FNMAX TS TC TA TE S r n) as [r1 [[[bs sz]|]|e|c]]; try apply IH; [|apply evolves_refl].
    destruct (create_file out n f) as [f1 o] eqn:Hcf.
    destruct (create_file_any_fs _ _ _ _ _ Hcf) as [H1 Hc].
    destruct o as [lit cp| |].
    - assert (Hw : forall d, evolves out f (write_at f1 cp d)).
      { intros d. apply (evolves_trans _ _ _ _ H1). apply write_at_evolves. exact (proj1 (Hc lit cp eq_refl)). }
      destruct (io_copy FNMAX TS TC TA TE S zf fuel bs []) as [[bs' d] [u|e|c]]; cbn [fst]; try apply Hw.
      exact (evolves_trans _ _ _ _ (Hw d) (IH _ _)).
    - exact (evolves_trans _ _ _ _ H1 (IH _ _)).
    - exact H1.
  Qed.

  (* the whole-archive form on ANY reader state over ANY stream: whatever the walk delivers, to whichever
     names the pre-pass accepted *)
  Lemma extract_linear_body_confined cap cut lfuel (r : rstate S) out f :
    (forall d, concat (cut d) = d) ->
    evolves out f (fst (extract_linear_body FNMAX TS TC TA TE S cap cut lfuel r out f)).
  Proof.
    intros Hcut. unfold extract_linear_body.
    destruct (extract_linear_pool RAppend cap cut out _ _ f) as [f' b] eqn:E. cbn [fst].
    exact (linear_through_pool_confined _ _ _ _ _ _ _ _ Hcut E).
  Qed.
End DeliveredProofs.

(* ================================================================== *)
(** * 2. ANY archive bytes: confinement *)
Section AnyBytes.
  Variables CHUNK TAG BLOCK LIMIT FNMAX : N.
  Local Hint Extern 0 Limit => exact LIMIT : typeclass_instances.
  Variables TS TC TA TE : N.
  Variable dh : bytes -> bytes -> bytes.
  Variable kdf : bytes -> bytes.
  Variables wdec wtag : bytes -> bytes -> bytes.
  Variable ksf : bytes -> bytes -> N -> N -> N.
  Variable tagf : bytes -> bytes -> N -> bytes -> bytes.
  Variable dec : bytes -> bytes.

  Notation cmd_extract_linear := (cmd_extract_linear CHUNK TAG BLOCK LIMIT FNMAX TS TC TA TE dh kdf wdec wtag ksf tagf dec).
  Notation cmd_extract_listed := (cmd_extract_listed CHUNK TAG BLOCK LIMIT FNMAX TS TC TA TE dh kdf wdec wtag ksf tagf dec).
  Notation cmd_extract_linear_pool := (cmd_extract_linear_pool CHUNK TAG BLOCK LIMIT FNMAX TS TC TA TE dh kdf wdec wtag ksf tagf dec).
  Notation cmd_extract_selected := (cmd_extract_selected CHUNK TAG BLOCK LIMIT FNMAX TS TC TA TE dh kdf wdec wtag ksf tagf dec).
  Notation cli_open := (cli_open CHUNK TAG BLOCK LIMIT dh kdf wdec wtag ksf tagf dec).

  (* No premise on the bytes `a`, the keys, the constants, the primitives, the fuel, the file
     system or the output directory.  Whole-archive form: through the pool of ANY capacity with
     ANY cutting of blocks into write buffers, the pieces delivered before a failing walk
     included; selected-files form: ANY selection predicate (names or glob).  The last two
     conjuncts are the same for the pool-less commands of Cli.v. *)
  Theorem extract_archive_confined cap cut lfuel sel zf fuel a privs out f :
    (forall d, concat (cut d) = d) ->
    evolves out f (fst (cmd_extract_linear_pool cap cut lfuel a privs out f)) /\
    evolves out f (fst (cmd_extract_selected sel zf fuel a privs out f)) /\
    evolves out f (fst (cmd_extract_linear lfuel a privs out f)) /\
    (forall wanted, evolves out f (fst (cmd_extract_listed zf fuel a privs wanted out f))).
  Proof.
    intros Hcut.
    unfold CliExtract.cmd_extract_linear_pool, CliExtract.cmd_extract_selected, Cli.cmd_extract_linear, Cli.cmd_extract_listed.
    destruct (cli_open a privs) as [[p r]|e|c]; cbn [fst]; try (split; [|split; [|split]]; intros; apply evolves_refl).
    split; [|split; [|split]].
    - apply extract_linear_body_confined. exact Hcut.
    - apply extract_listed_loop_confined.
    - destruct (linear_extract FNMAX TS TC TA TE _ lfuel r _) as [blocks|e|c].
      + destruct (extract_linear out _ blocks f) as [f' b] eqn:E. exact (extract_linear_any_fs _ _ _ _ _ _ E).
      + destruct (create_all out _ f) as [[f1 ex] ok] eqn:E. exact (proj1 (create_all_any_fs _ _ _ _ _ _ E)).
      + destruct (create_all out _ f) as [[f1 ex] ok] eqn:E. exact (proj1 (create_all_any_fs _ _ _ _ _ _ E)).
    - intros wanted. destruct (members_of FNMAX TS TC TA TE _ zf fuel r _ []) as [ms|e|c]; cbn [fst]; try apply evolves_refl.
      destruct (extract_all out ms f) as [f' b] eqn:E. exact (extract_all_any_fs _ _ _ _ _ E).
  Qed.

  (* a failing open (bad magic, truncated header, wrong / missing / superfluous key, bad footer):
     nothing at all is touched, not even the output directory's content *)
  Theorem extract_failed_open_untouched cap cut lfuel sel zf fuel a privs out f :
    (forall x, cli_open a privs <> Ok x) ->
    cmd_extract_linear_pool cap cut lfuel a privs out f = (f, false) /\
    cmd_extract_selected sel zf fuel a privs out f = (f, false).
  Proof.
    intros Hf. unfold CliExtract.cmd_extract_linear_pool, CliExtract.cmd_extract_selected.
    destruct (cli_open a privs) as [x|e|c]; [exfalso; exact (Hf x eq_refl)| |]; split; reflexivity.
  Qed.

  (* when the pool-less whole-archive command succeeds, the command through the pool succeeds
     with the same file system *)
  Theorem cmd_extract_linear_pool_agrees cap cut lfuel a privs out f f2 :
    (forall d, concat (cut d) = d) ->
    cmd_extract_linear lfuel a privs out f = (f2, true) ->
    exists f', cmd_extract_linear_pool cap cut lfuel a privs out f = (f', true) /\ same_fs f' f2.
  Proof.
    intros Hcut. unfold CliExtract.cmd_extract_linear_pool, CliExtract.extract_linear_body, Cli.cmd_extract_linear.
    destruct (cli_open a privs) as [[p r]|e|c]; try discriminate.
    destruct (linear_extract FNMAX TS TC TA TE _ lfuel r _) as [blocks|e|c] eqn:El.
    - destruct (linear_extract_d_ok _ _ _ _ _ _ _ _ _ _ El) as [u ->]. cbn [fst snd is_ok].
      intros H.
      match type of H with extract_linear _ ?ns _ _ = _ =>
        destruct (extract_linear_pool_same cap cut out ns blocks f Hcut) as (f' & E & Hs) end.
      rewrite E, H in *. cbn [fst snd] in *. exists f'. split; [reflexivity|exact Hs].
    - destruct (create_all out _ f) as [[f1 ex] ok]. discriminate.
    - destruct (create_all out _ f) as [[f1 ex] ok]. discriminate.
  Qed.
End AnyBytes.

(* ================================================================== *)
(** * 3. The per-file loop on an archive made by `create` *)
Section LoopSpec.
  Context {LIM : Limit}.
  Variable FNMAX : N.
  Variables TS TC TA TE : N.
  Variable H : bytes -> bytes.
  Variable order : footer -> footer.
  Hypothesis Htags : tags_distinct TS TC TA TE.
  Hypothesis HHlen : forall x, len (H x) = 32.
  Hypothesis Horder : forall f, Permutation (order f) f.
  Variable ops : list wop.
  Variable sf : wstate.
  Variable rs : list (res N).
  Hypothesis Hrun : wrun FNMAX TS TC TA TE H order w_init (ops ++ [OFinalize]) = (sf, rs).
  Hypothesis Hok : Forall (fun r => is_ok r = true) rs.
  Hypothesis Hutf : forallb op_utf8 ops = true.
  Hypothesis Hlen64 : len (w_out sf) < 2 ^ 64.
  Hypothesis Hfoot32 : len (ser_footer_map (order (w_footer sf))) < 2 ^ 32.
  Variable S : Stream.
  Variable R : st S -> N -> Prop.
  Hypothesis HR : Refines S (w_out sf) R.
  Variable files : list (bytes * bytes).
  Hypothesis Hops : ops = create_ops files.
  Variables zf fuel : nat.
  Hypothesis Hfuel : forall n d, In (n, d) files -> (length d < fuel)%nat.

  Notation RS := (RS order sf S R).

  (* get_file / create_file / io::copy interleaved as in the code = extract_all of the members *)
  Lemma extract_listed_loop_spec out names : (forall n, In n names -> In n (map fst files)) -> forall r f, RS r ->
    extract_listed_loop FNMAX TS TC TA TE S zf fuel r names out f =
      extract_all out (map (fun n => (n, lookup_file files n)) names) f.
  Proof.
    induction names as [|n names IH]; intros Hall r f HRS; cbn [extract_listed_loop map extract_all]; [reflexivity|].
    pose proof (Hall n (or_introl eq_refl)) as Hin.
    destruct (file_step FNMAX TS TC TA TE H order Htags HHlen Horder ops sf rs Hrun Hok Hutf Hlen64 Hfoot32 S R HR files Hops
                r n HRS Hin) as (r' & bs & -> & HRS' & _ & Hc).
    destruct (Hc zf fuel (fuel_lookup FNMAX TS TC TA TE H order HHlen Horder ops sf rs Hrun Hok Hutf Hlen64 Hfoot32 S R files Hops
                            fuel Hfuel r n HRS Hin)) as (bs' & -> & HRS2).
    unfold extract_member. cbn [fst snd].
    destruct (create_file out n f) as [f1 [lit cp| |]].
    - exact (IH (fun m Hm => Hall m (or_intror Hm)) _ _ HRS2).
    - exact (IH (fun m Hm => Hall m (or_intror Hm)) _ _ HRS').
    - reflexivity.
  Qed.

  (* ... and none of its copies runs out of fuel: the premise of SrcTie3Cli.extract_selected_sim is met *)
  Lemma copies_fuelled_created out names : (forall n, In n names -> In n (map fst files)) -> forall r f, RS r ->
    copies_fuelled FNMAX TS TC TA TE S zf fuel r names out f = true.
  Proof.
    induction names as [|n names IH]; intros Hall r f HRS; cbn [copies_fuelled]; [reflexivity|].
    pose proof (Hall n (or_introl eq_refl)) as Hin.
    destruct (file_step FNMAX TS TC TA TE H order Htags HHlen Horder ops sf rs Hrun Hok Hutf Hlen64 Hfoot32 S R HR files Hops
                r n HRS Hin) as (r' & bs & -> & HRS' & _ & Hc).
    destruct (Hc zf fuel (fuel_lookup FNMAX TS TC TA TE H order HHlen Horder ops sf rs Hrun Hok Hutf Hlen64 Hfoot32 S R files Hops
                            fuel Hfuel r n HRS Hin)) as (bs' & -> & HRS2).
    destruct (create_file out n f) as [f1 [lit cp| |]].
    - exact (IH (fun m Hm => Hall m (or_intror Hm)) _ _ HRS2).
    - exact (IH (fun m Hm => Hall m (or_intror Hm)) _ _ HRS').
    - reflexivity.
  Qed.
End LoopSpec.

(* ================================================================== *)
(** * 4. An archive written by `create`: both forms deliver the bytes given *)
Section Benign.
  Variables CHUNK TAG CIPHERBUF BLOCK LIMIT FNMAX : N.
  Local Hint Extern 0 Limit => exact LIMIT : typeclass_instances.
  Variables TS TC TA TE : N.
  Variable H : bytes -> bytes.
  Variable order : footer -> footer.
  Variable pubk : bytes -> bytes.
  Variable dh : bytes -> bytes -> bytes.
  Variable kdf : bytes -> bytes.
  Variables wenc wdec wtag : bytes -> bytes -> bytes.
  Variable ksf : bytes -> bytes -> N -> N -> N.
  Variable tagf : bytes -> bytes -> N -> bytes -> bytes.
  Variable dec : bytes -> bytes.

  Hypothesis HCHUNK : 0 < CHUNK.
  Hypothesis HTAG : 0 < TAG.
  Hypothesis HCB : 0 < CIPHERBUF.
  Hypothesis HB : 0 < BLOCK.
  Hypothesis HB32 : BLOCK < 2 ^ 32.
  Hypothesis Htags : tags_distinct TS TC TA TE.
  Hypothesis HHlen : forall x, len (H x) = 32.
  Hypothesis Horder : forall f, Permutation (order f) f.
  Hypothesis wdec_wenc : forall k m, len m = 32 -> wdec k (wenc k m) = m.
  Hypothesis Hpubk : forall e, len (pubk e) = 32.
  Hypothesis Hwenc : forall k m, len m = 32 -> len (wenc k m) = 32.
  Hypothesis Hwtag : forall k c, len (wtag k c) = 16.

  Notation made_by_create := (made_by_create CHUNK TAG BLOCK LIMIT FNMAX TS TC TA TE H order pubk dh kdf wenc wtag ksf tagf dec).
  Notation cmd_create := (cmd_create CHUNK CIPHERBUF BLOCK LIMIT FNMAX TS TC TA TE H order pubk dh kdf wenc wtag ksf tagf).
  Notation cmd_extract_linear := (cmd_extract_linear CHUNK TAG BLOCK LIMIT FNMAX TS TC TA TE dh kdf wdec wtag ksf tagf dec).
  Notation cmd_extract_listed := (cmd_extract_listed CHUNK TAG BLOCK LIMIT FNMAX TS TC TA TE dh kdf wdec wtag ksf tagf dec).
  Notation cmd_extract_linear_pool := (cmd_extract_linear_pool CHUNK TAG BLOCK LIMIT FNMAX TS TC TA TE dh kdf wdec wtag ksf tagf dec).
  Notation cmd_extract_selected := (cmd_extract_selected CHUNK TAG BLOCK LIMIT FNMAX TS TC TA TE dh kdf wdec wtag ksf tagf dec).
  Notation TCol cfg privs := (TagCollision pubk dh kdf wenc wtag (wc_eph cfg) (wc_key cfg) (wc_recipients cfg) privs).
  Notation opens_as := (opens_as CHUNK TAG BLOCK LIMIT order dh kdf wdec wtag ksf tagf dec).

  (* the selected-files command on a created archive that opens, every member selected *)
  Lemma extract_selected_at cfg files sf rs privs s zf fuel a sel out f :
    made_by_create cfg files sf rs privs s ->
    (forall n d, In (n, d) files -> (length d < fuel)%nat) ->
    opens_as a privs sf ->
    (forall n, In n (map fst files) -> sel n = true) ->
    cmd_extract_selected sel zf fuel a privs out f = extract_all out (sorted_files files) f.
  Proof.
    intros Hmade Hfuel Hopen Hall. destruct Hopen as (p & r & R & Ho & HR & HRS).
    destruct Hmade as [Hrun Hok Hutf H64 H32 _ _ _ _ _]. pose proof (create_ops_utf8 files Hutf) as Hutf'.
    unfold CliExtract.cmd_extract_selected. rewrite Ho.
    rewrite (listed_sorted FNMAX TS TC TA TE H order HHlen Horder _ sf rs Hrun Hok Hutf' H64 H32 _ R files eq_refl r HRS).
    assert (Hfil : filter sel (sort_names (map fst files)) = sort_names (map fst files)).
    { apply filter_all_true. intros n Hn. apply Hall. eapply Permutation_in; [apply sort_names_perm|exact Hn]. }
    rewrite Hfil.
    exact (extract_listed_loop_spec FNMAX TS TC TA TE H order Htags HHlen Horder _ sf rs Hrun Hok Hutf' H64 H32 _ R HR files eq_refl
             zf fuel Hfuel out (sort_names (map fst files)) (sorted_in files) r f HRS).
  Qed.

  (* on a created archive that opens, ANY selection: no copy of the per-name loop runs out of fuel — the
     premise of SrcTie3Cli.extract_selected_sim / cmd_extract_selected_src holds *)
  Lemma extract_selected_fuelled_at cfg files sf rs privs s zf fuel a sel out f :
    made_by_create cfg files sf rs privs s ->
    (forall n d, In (n, d) files -> (length d < fuel)%nat) ->
    opens_as a privs sf ->
    exists p r, cli_open CHUNK TAG BLOCK LIMIT dh kdf wdec wtag ksf tagf dec a privs = Ok (existT _ p r) /\
      copies_fuelled FNMAX TS TC TA TE (stack_of CHUNK TAG BLOCK ksf tagf dec a p) zf fuel r
        (filter sel (sort_names (list_files (stack_of CHUNK TAG BLOCK ksf tagf dec a p) r))) out f = true.
  Proof.
    intros Hmade Hfuel Hopen. destruct Hopen as (p & r & R & Ho & HR & HRS).
    destruct Hmade as [Hrun Hok Hutf H64 H32 _ _ _ _ _]. pose proof (create_ops_utf8 files Hutf) as Hutf'.
    exists p, r. split; [exact Ho|].
    rewrite (listed_sorted FNMAX TS TC TA TE H order HHlen Horder _ sf rs Hrun Hok Hutf' H64 H32 _ R files eq_refl r HRS).
    apply (copies_fuelled_created FNMAX TS TC TA TE H order Htags HHlen Horder _ sf rs Hrun Hok Hutf' H64 H32 _ R HR files eq_refl
             zf fuel Hfuel out); [|exact HRS].
    intros n Hn. apply filter_In in Hn. apply (sorted_in files). exact (proj1 Hn).
  Qed.

  Lemma name_in_self l n : In n l -> name_in l n = true.
  Proof. intros Hin. unfold name_in. apply existsb_exists. exists n. split; [exact Hin|apply bytes_eqb_refl]. Qed.

  (* MAIN THEOREM (B2).  From the FILES given to `mlar create` (any layers, recipients, cuts;
     premises of C01_archive_roundtrip) to the file system after `mlar extract` of the archive
     BYTES: benign names with a clear way in an otherwise arbitrary file system — both forms, the
     whole-archive one through the pool of any capacity and any cutting into write buffers, exit
     status 0 and every member readable beneath the output directory with exactly the bytes
     given, nothing outside touched (or an exhibited tag collision on a wrapped key). *)
  Theorem extract_archive_benign cfg ct cm files sf rs privs s cap cut sel zf fuel lfuel out f :
    made_by_create cfg files sf rs privs s ->
    (forall d, concat (cut d) = d) ->
    (forall n d, In (n, d) files -> (length d < fuel)%nat) -> (N.to_nat (len (w_out sf)) < lfuel)%nat ->
    (forall n, In n (map fst files) -> sel n = true) ->
    let ns := sort_names (map fst files) in
    real_dir f out -> Forall (fun n => benign out (n, [])) ns -> pairwise unrelated (map norm ns) ->
    Forall (fun n => clear_path out f (norm n)) ns ->
    exists a, cmd_create cfg ct cm files = mkCR true (OWritten a) [] /\
      (TCol cfg privs \/
       exists f1 f2, cmd_extract_selected sel zf fuel a privs out f = (f1, true) /\
                     cmd_extract_linear_pool cap cut lfuel a privs out f = (f2, true) /\
         (forall n d, In (n, d) files ->
            read_file f1 (out ++ norm n) = Some d /\ read_file f2 (out ++ norm n) = Some d) /\
         evolves out f f1 /\ evolves out f f2).
  Proof.
    intros Hm Hcut Hfuel Hlf Hall ns Hreal Hben Hpw Hclear.
    destruct (created_archive CHUNK TAG CIPHERBUF BLOCK LIMIT FNMAX TS TC TA TE H order pubk dh kdf wenc wdec wtag
                ksf tagf dec HCHUNK HTAG HCB HB HB32 HHlen Horder wdec_wenc Hpubk Hwenc Hwtag
                cfg ct cm files sf rs privs s Hm) as (a & Hc & _ & Ho).
    exists a. split; [exact Hc|]. destruct Ho as [Ht|Ho]; [left; exact Ht|].
    destruct (extract_both_forms_agree CHUNK TAG CIPHERBUF BLOCK LIMIT FNMAX TS TC TA TE H order pubk dh kdf wenc wdec wtag
                ksf tagf dec HCHUNK HTAG HCB HB HB32 Htags HHlen Horder wdec_wenc Hpubk Hwenc Hwtag
                cfg ct cm files sf rs privs s zf fuel lfuel (map fst files) out f Hm Hfuel Hlf
                (fun n Hn => name_in_self _ n Hn) Hreal Hben Hpw Hclear) as (a' & Hc' & Hres).
    rewrite Hc in Hc'. inversion Hc'; subst a'. clear Hc'.
    destruct Hres as [Ht|(f1 & f2 & H1 & H2 & Hrd)]; [left; exact Ht|right].
    destruct (cmd_extract_linear_pool_agrees CHUNK TAG BLOCK LIMIT FNMAX TS TC TA TE dh kdf wdec wtag ksf tagf dec
                cap cut lfuel a privs out f f2 Hcut H2) as (f2' & H2' & Hs).
    assert (H1' : cmd_extract_selected sel zf fuel a privs out f = (f1, true)).
    { rewrite (extract_selected_at cfg files sf rs privs s zf fuel a sel out f Hm Hfuel Ho Hall).
      rewrite <- (extract_listed_at CHUNK TAG BLOCK LIMIT FNMAX TS TC TA TE H order pubk dh kdf wenc wdec wtag ksf tagf dec
                    Htags HHlen Horder cfg files sf rs privs s Hm zf fuel Hfuel a Ho (map fst files) out f
                    (fun n Hn => name_in_self _ n Hn)).
      exact H1. }
    exists f1, f2'. split; [exact H1'|]. split; [exact H2'|]. split; [|split].
    - intros n d Hin. destruct (Hrd n d Hin) as [Ha Hb]. split; [exact Ha|].
      rewrite (same_fs_read_file f2' f2 _ Hs). exact Hb.
    - pose proof (extract_archive_confined CHUNK TAG BLOCK LIMIT FNMAX TS TC TA TE dh kdf wdec wtag ksf tagf dec
                    cap cut lfuel sel zf fuel a privs out f Hcut) as (_ & E & _). rewrite H1' in E. exact E.
    - pose proof (extract_archive_confined CHUNK TAG BLOCK LIMIT FNMAX TS TC TA TE dh kdf wdec wtag ksf tagf dec
                    cap cut lfuel sel zf fuel a privs out f Hcut) as (E & _). rewrite H2' in E. exact E.
  Qed.
End Benign.
