(* ArchiveGcm.v — [archive_roundtrip] with the key wrap of the header instantiated by the model
   of the incremental AES-GCM core (EciesGcm.v: gwenc / gwdec / gwtag over any block cipher E
   with 16-byte blocks and any GF(2^128) product): the AEAD inverse law and the sizes of the
   wrapped key and of its tag are theorems (GcmProofs), no longer premises. *)
From MLA Require Import Limit.
From MLA Require Import Base Stream Blocks Writer Reader RoundTripBlocks RoundTripWriter EncLayer CompLayer Format Gcm GcmProofs
  Ecies EciesGcm InstGcm FormatProofs Archive ArchiveInst ArchiveProofs.
From MLA.Concrete Require Import Ghash.
From Coq Require Import ZifyBool ZifyNat ZifyN Permutation.
Open Scope N_scope.

Section G.
  Variable E : bytes -> bytes -> bytes.
  Variable gmul : N -> N -> N.
  Hypothesis HE : forall k b, length b = 16%nat -> length (E k b) = 16%nat.

  Lemma len_gwenc k m : len m = 32 -> len (gwenc E gmul k m) = 32.
  Proof.
    intros Hm. unfold gwenc.
    rewrite (spec_fst (E k) gmul (HE k) enonce [] enonce_len enonce_wf m) by (rewrite Hm; unfold gcm_max_bytes; lia).
    rewrite len_xor_bytes, len_sliceN, (len_KS (E k) (HE k)), Hm.
    change (N.to_nat ((16 + 32 + 15) / 16)) with 3%nat. reflexivity.
  Qed.

  Lemma len_gwtag k c : len (gwtag E gmul k c) = 16.
  Proof.
    unfold gwtag, Gcm.gcm_decrypt.
    match goal with |- context [Gcm.dec_chunks ?a ?b ?c ?d ?e] => destruct (Gcm.dec_chunks a b c d e) as [s1 out] end.
    match goal with |- context [dec_rem ?a ?b ?c ?d] => destruct (dec_rem a b c d) as [s2 p] end.
    unfold apply_keystream. cbn [snd fst].
    assert (Hl : len (N_to_block (g_acc (set_acc s2 (gh_block gmul (g_h s2) (g_acc s2) (len_block (g_aad_bits s2) (len c)))))) = 16).
    { apply (len_length _ 16%nat). apply length_N_to_block. }
    rewrite len_xor_bytes, Hl. cbn [set_pos g_pos g_iv].
    rewrite (ks_range_0_16 (E k) (HE k)), (len_E_ctr128 (E k) (HE k)). reflexivity.
  Qed.

  Variables CHUNK TAG CIPHERBUF BLOCK LIMIT FNMAX : N.
  Local Hint Extern 0 Limit => exact LIMIT : typeclass_instances.
  Variables TS TC TA TE : N.
  Variable H : bytes -> bytes.
  Variable order : footer -> footer.
  Variable pubk : bytes -> bytes.
  Variable dh : bytes -> bytes -> bytes.
  Variable kdf : bytes -> bytes.
  Variable ksf : bytes -> bytes -> N -> N -> N.
  Variable tagf : bytes -> bytes -> N -> bytes -> bytes.
  Variable dec : bytes -> bytes.

  Theorem archive_roundtrip_gcm :
    0 < CHUNK -> 0 < TAG -> 0 < CIPHERBUF -> 0 < BLOCK -> BLOCK < 2 ^ 32 ->
    tags_distinct TS TC TA TE -> (forall x, len (H x) = 32) -> (forall f, Permutation (order f) f) ->
    (forall e, len (pubk e) = 32) ->
    forall cfg cut_top cut_mid ops sf rs privs s,
    let blocks := w_out sf in
    let nb := nblocks BLOCK (len blocks) in
    wrun FNMAX TS TC TA TE H order w_init (ops ++ [OFinalize]) = (sf, rs) ->
    Forall (fun r => is_ok r = true) rs -> forallb op_utf8 ops = true ->
    len blocks < 2 ^ 64 -> len (ser_footer_map (order (w_footer sf))) < 2 ^ 32 ->
    (wc_compress cfg = true ->
       (forall x, dec (wc_comp cfg x) = x) /\
       (forall j, j < nb -> len (wc_comp cfg (block_at BLOCK blocks j)) < 2 ^ 32) /\
       12 + 4 * nb <= LIMIT /\ 12 + 4 * nb < 2 ^ 32 /\ len blocks < 2 ^ 63) ->
    (wc_encrypt cfg = true ->
       len (wc_key cfg) = 32 /\ len (wc_nonce cfg) = 8 /\
       (forall i c, len (tagf (wc_key cfg) (wc_nonce cfg) i c) = TAG) /\
       (nfull CHUNK (len (mid_of BLOCK cfg blocks)) + 2 < 2 ^ 32 /\ CHUNK + TAG <= 2 ^ 31) /\
       dh s (pubk (wc_eph cfg)) = dh (wc_eph cfg) (pubk s) /\
       In (pubk s) (wc_recipients cfg) /\ In s privs) ->
    config_size (to_persistent pubk dh kdf (gwenc E gmul) (gwtag E gmul) cfg) <= LIMIT ->
    len (ser_header (to_persistent pubk dh kdf (gwenc E gmul) (gwtag E gmul) cfg) ++ wire_of CHUNK BLOCK ksf tagf cfg blocks) < 2 ^ 64 ->
    exists a,
      archive_write CHUNK CIPHERBUF BLOCK LIMIT FNMAX TS TC TA TE H order pubk dh kdf (gwenc E gmul) (gwtag E gmul) ksf tagf
                    cfg cut_top cut_mid ops = Ok a /\
      (TagCollision pubk dh kdf (gwenc E gmul) (gwtag E gmul) (wc_eph cfg) (wc_key cfg) (wc_recipients cfg) privs \/
       exists p r,
         archive_open CHUNK TAG BLOCK LIMIT dh kdf (gwdec E gmul) (gwtag E gmul) ksf tagf dec a privs = Ok (existT _ p r) /\
         op_enc p = wc_encrypt cfg /\ op_comp p = wc_compress cfg /\
         reads_back FNMAX TS TC TA TE H ops (stack_of CHUNK TAG BLOCK ksf tagf dec a p) r).
  Proof.
    intros HCHUNK HTAG HCB HB HB32 Htags HHlen Horder Hpubk.
    exact (archive_roundtrip CHUNK TAG CIPHERBUF BLOCK LIMIT FNMAX TS TC TA TE H order pubk dh kdf
             (gwenc E gmul) (gwdec E gmul) (gwtag E gmul) ksf tagf dec
             HCHUNK HTAG HCB HB HB32 Htags HHlen Horder (gwdec_gwenc E gmul HE) Hpubk len_gwenc len_gwtag).
  Qed.
End G.

(* ---------- the concrete parameters of ArchiveInst.v meet the premises ---------- *)
Lemma E_aes256_len k b : length b = 16%nat -> length (E_aes256 k b) = 16%nat.
Proof.
  intros Hb. unfold E_aes256. destruct (Nat.eqb_spec (length k) 32) as [Hk|_]; [|exact Hb].
  destruct (aes256_expand_ok k Hk) as [Hne Hrk]. cbv zeta. apply length_aes_encrypt_rk; assumption.
Qed.

Lemma tagf_gcm_len k n : length k = 32%nat -> length n = 8%nat -> forall i c, len (tagf_gcm k n i c) = 16.
Proof.
  intros Hk Hn i c. destruct (aes256_expand_ok k Hk) as [Hne Hrk].
  unfold tagf_gcm, gcm_tagc, Concrete.GcmSpec.gcm_tag_rk. rewrite len_xor_bytes. unfold len.
  rewrite (length_aes_encrypt_rk _ _ Hne Hrk).
  - rewrite length_N_to_block. reflexivity.
  - apply length_ctr_block. unfold chunk_nonce. rewrite app_length, length_be_bytes, Hn. reflexivity.
Qed.

Lemma len_toy_comp x : len (toy_comp x) = len x + 1.
Proof. unfold toy_comp. rewrite len_cons. unfold len. rewrite rev_length. reflexivity. Qed.
