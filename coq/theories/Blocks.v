(* Blocks.v — the typed block stream of mla/src/lib.rs: serialisation (ArchiveFileBlock::dump),
   parsing over a stream (ArchiveFileBlock::from), UTF-8 validation of names, footer
   (bincode fixint HashMap<String, FileInfo>).  Definitions only. *)
From MLA Require Import Base Stream.
Open Scope N_scope.

(* ---------- UTF-8 (String::from_utf8), RFC 3629 well-formed byte sequences ---------- *)
Definition cont (x : N) : bool := (128 <=? x) && (x <=? 191).
Fixpoint utf8_valid_aux (fuel : nat) (b : bytes) : bool :=
  match fuel with
  | O => match b with [] => true | _ => false end
  | S fuel' =>
    match b with
    | [] => true
    | x :: r =>
      if x <=? 127 then utf8_valid_aux fuel' r
      else if (194 <=? x) && (x <=? 223) then
        match r with c1 :: r' => cont c1 && utf8_valid_aux fuel' r' | _ => false end
      else if x =? 224 then
        match r with c1 :: c2 :: r' => (160 <=? c1) && (c1 <=? 191) && cont c2 && utf8_valid_aux fuel' r' | _ => false end
      else if ((225 <=? x) && (x <=? 236)) || (x =? 238) || (x =? 239) then
        match r with c1 :: c2 :: r' => cont c1 && cont c2 && utf8_valid_aux fuel' r' | _ => false end
      else if x =? 237 then
        match r with c1 :: c2 :: r' => (128 <=? c1) && (c1 <=? 159) && cont c2 && utf8_valid_aux fuel' r' | _ => false end
      else if x =? 240 then
        match r with c1 :: c2 :: c3 :: r' => (144 <=? c1) && (c1 <=? 191) && cont c2 && cont c3 && utf8_valid_aux fuel' r' | _ => false end
      else if (241 <=? x) && (x <=? 243) then
        match r with c1 :: c2 :: c3 :: r' => cont c1 && cont c2 && cont c3 && utf8_valid_aux fuel' r' | _ => false end
      else if x =? 244 then
        match r with c1 :: c2 :: c3 :: r' => (128 <=? c1) && (c1 <=? 143) && cont c2 && cont c3 && utf8_valid_aux fuel' r' | _ => false end
      else false
    end
  end.
Definition utf8_valid (b : bytes) : bool := utf8_valid_aux (length b) b.

(* ---------- blocks ---------- *)

Inductive block :=
| BStart (id : N) (name : bytes)
| BContent (id : N) (data : bytes)
| BEof (id : N) (hash : bytes)
| BEnd.

Definition block_id (b : block) : option N :=
  match b with BStart i _ | BContent i _ | BEof i _ => Some i | BEnd => None end.

Definition le64 (v : N) : bytes := le_bytes 8 v.
Definition le32 (v : N) : bytes := le_bytes 4 v.

Section Blocks.
  Variable FNMAX : N.          (* FILENAME_MAX_SIZE *)
  (* block type tags, as translated from the source *)
  Variables T_START T_CONTENT T_EOA T_EOF : N.

  Definition ser_block (b : block) : bytes :=
    match b with
    | BStart id name => [T_START] ++ le64 id ++ le64 (len name) ++ name
    | BContent id data => [T_CONTENT] ++ le64 id ++ le64 (len data) ++ data
    | BEof id h => [T_EOF] ++ le64 id ++ h
    | BEnd => [T_EOA]
    end.

  (* what ArchiveFileBlock::from returns: content blocks come without their data *)
  Inductive pblock :=
  | PStart (id : N) (name : bytes)
  | PContent (id : N) (length : N)
  | PEof (id : N) (hash : bytes)
  | PEnd.

  Variable S : Stream.

  Definition rexact (s : st S) (n : N) : st S * res bytes :=
    read_exact S (Datatypes.S (N.to_nat n)) s n.

  Definition read_u64 (s : st S) : st S * res N :=
    match rexact s 8 with
    | (s', Ok d) => (s', Ok (le_val d))
    | (s', Err e) => (s', Err e)
    | (s', Crash c) => (s', Crash c)
    end.

  (* ArchiveFileBlock::from *)
  Definition parse_block (s : st S) : st S * res pblock :=
    match rexact s 1 with
    | (s1, Ok [t]) =>
      if t =? T_START then
        match read_u64 s1 with
        | (s2, Ok id) =>
          match read_u64 s2 with
          | (s3, Ok l) =>
            if FNMAX <? l then (s3, Err ENameTooLong) else
            match rexact s3 l with
            | (s4, Ok name) => if utf8_valid name then (s4, Ok (PStart id name)) else (s4, Err EUtf8)
            | (s4, Err e) => (s4, Err e) | (s4, Crash c) => (s4, Crash c)
            end
          | (s3, Err e) => (s3, Err e) | (s3, Crash c) => (s3, Crash c)
          end
        | (s2, Err e) => (s2, Err e) | (s2, Crash c) => (s2, Crash c)
        end
      else if t =? T_CONTENT then
        match read_u64 s1 with
        | (s2, Ok id) =>
          match read_u64 s2 with
          | (s3, Ok l) => (s3, Ok (PContent id l))
          | (s3, Err e) => (s3, Err e) | (s3, Crash c) => (s3, Crash c)
          end
        | (s2, Err e) => (s2, Err e) | (s2, Crash c) => (s2, Crash c)
        end
      else if t =? T_EOF then
        match read_u64 s1 with
        | (s2, Ok id) =>
          match rexact s2 32 with
          | (s3, Ok h) => (s3, Ok (PEof id h))
          | (s3, Err e) => (s3, Err e) | (s3, Crash c) => (s3, Crash c)
          end
        | (s2, Err e) => (s2, Err e) | (s2, Crash c) => (s2, Crash c)
        end
      else if t =? T_EOA then (s1, Ok PEnd)
      else (s1, Err EBlockType)
    | (s1, Ok _) => (s1, Crash 636)    (* read_exact(1) returning another length: impossible *)
    | (s1, Err e) => (s1, Err e)
    | (s1, Crash c) => (s1, Crash c)
    end.
End Blocks.

(* ---------- footer: bincode fixint HashMap<String, FileInfo> ---------- *)

Record finfo := mkFI { fi_offsets : list N; fi_size : N; fi_eof : N }.
Definition footer := list (bytes * finfo).

Definition ser_finfo (f : finfo) : bytes :=
  le64 (len (fi_offsets f)) ++ concat (map le64 (fi_offsets f)) ++ le64 (fi_size f) ++ le64 (fi_eof f).
Definition ser_entry (e : bytes * finfo) : bytes :=
  le64 (len (fst e)) ++ fst e ++ ser_finfo (snd e).
(* the map in a given iteration order (the order is HashMap's: every theorem quantifies over it) *)
Definition ser_footer_map (m : footer) : bytes := le64 (len m) ++ concat (map ser_entry m).
(* ArchiveFooter::serialize_into: the map, then its length on 4 bytes *)
Definition ser_footer (m : footer) : bytes :=
  let b := ser_footer_map m in b ++ le32 (len b).

(* pure parser over the bytes of the take(len) region; None = DeserializationError.
   bincode accepts trailing bytes. *)
Definition take_u64 (b : bytes) : option (N * bytes) :=
  if len b <? 8 then None else Some (le_val (takeN 8 b), dropN 8 b).
Fixpoint take_u64s (n : nat) (b : bytes) : option (list N * bytes) :=
  match n with
  | O => Some ([], b)
  | S n' =>
    match take_u64 b with
    | Some (v, r) => match take_u64s n' r with Some (vs, r') => Some (v :: vs, r') | None => None end
    | None => None
    end
  end.
Definition parse_entry (b : bytes) : option ((bytes * finfo) * bytes) :=
  match take_u64 b with
  | Some (nl, r1) =>
    if len r1 <? nl then None else
    let name := takeN nl r1 in
    if negb (utf8_valid name) then None else
    match take_u64 (dropN nl r1) with
    | Some (no, r2) =>
      if len r2 <? 8 * no then None else     (* also keeps the nat below small *)
      match take_u64s (N.to_nat no) r2 with
      | Some (offs, r3) =>
        match take_u64 r3 with
        | Some (size, r4) =>
          match take_u64 r4 with
          | Some (eof, r5) => Some ((name, mkFI offs size eof), r5)
          | None => None
          end
        | None => None
        end
      | None => None
      end
    | None => None
    end
  | None => None
  end.
Fixpoint parse_entries (n : nat) (b : bytes) : option footer :=
  match n with
  | O => Some []
  | S n' =>
    match parse_entry b with
    | Some (e, r) => match parse_entries n' r with Some es => Some (e :: es) | None => None end
    | None => None
    end
  end.
Definition parse_footer_map (b : bytes) : option footer :=
  match take_u64 b with
  | Some (n, r) =>
    (* every entry takes at least 32 bytes: a larger count cannot succeed *)
    if len r <? 32 * n then None else parse_entries (N.to_nat n) r
  | None => None
  end.

(* HashMap semantics of the deserialised association list: a later duplicate key replaces
   the earlier one *)
Fixpoint flookup (m : footer) (name : bytes) : option finfo :=
  match m with
  | [] => None
  | (k, v) :: r => match flookup r name with Some v' => Some v' | None => if bytes_eqb k name then Some v else None end
  end.
