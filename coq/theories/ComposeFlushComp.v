(* ComposeFlushComp.v — C14 END TO END with the compression layer: {compression} and
   {compression over encryption}, in the shape of ComposeFlushAt.v.

     ANY call list pre ++ OFlush :: post of the archive writer; s = the writer when that flush
     returned; the calls before the flush clean.
     The compression layer has been handed the block stream w_out s; when the flush returned
     the layer below it had received the bytes w: complete compressed blocks followed by
     whatever the encoder of the current block had emitted.  The ENCODER side of flush enters
     as the explicit premise
         fs_spec D bs w = w_out s
     (everything handed to the compression layer so far is decodable from w: brotli's flush
     contract, stated on the wire as in CompFailSafeThms.fs_comp_flush, which derives it from
     `D c' = written`; bs, tail, D, fin and the DecoderLaws as there).  No layer below
     (`flush_at_comp`): w is what the destination holds.  Encryption below
     (`flush_at_comp_enc`, `flush_at_comp_enc_auth`): w went through the encryption writer in
     ANY pieces and the destination holds ew_out es.
     The repairing process reads the destination bytes through ANY source behaving as a
     cursor over them, through the fail-safe decryptor (if any) and the fail-safe
     decompressor (FsCompStream.FsComp):
       -> repair returns Ok and holds under every started name EXACTLY the bytes appended to
          that file before the flush (no encryption, or unauthenticated mode);
          authenticated mode: exactly the content bytes lying in the first k bytes of the
          block stream, k = what the decompressor makes of the first m >= ew_ctr * CHUNK
          bytes of w (every completed encryption chunk).
     The stopping status is left open: the decompressor ends a cut stream with an error
     inside a brotli stream (RepairMask.v). *)
From MLA Require Import Limit.
From MLA Require Import Base Stream Blocks Writer WriterProofs Repair RepairSpec RepairPure
  RepairProofs2 RepairProofs5 RepairProofs6 EncLayer EncAuth EncAuthFs EncWriter EncWriterProofs EncFlushProofs
  FlushProofs Run ComposeRdOnly RepairMask ComposeRepair ComposeWriterRun ComposeFlush ComposeFlushAt
  CompFailSafe CompFailSafeProofs CompFailSafeStep CompFailSafeSticky FsCompStream ComposeFsComp.
From Coq Require Import ZifyBool ZifyNat ZifyN.
Open Scope N_scope.

Section FlushComp.
  Context {LIM : Limit}.
  Variable FNMAX CACHE : N.
  Hypothesis HFN : FNMAX < 2 ^ 64.
  Hypothesis HCACHE : 0 < CACHE.
  Variables T_START T_CONTENT T_EOA T_EOF : N.
  Hypothesis Htags : T_START <> T_CONTENT /\ T_START <> T_EOA /\ T_START <> T_EOF /\
                     T_CONTENT <> T_EOA /\ T_CONTENT <> T_EOF /\ T_EOA <> T_EOF.
  Variable H : bytes -> bytes.
  Hypothesis H_len : forall x, len (H x) = 32.
  Variable order : footer -> footer.

  Notation body := (body T_START T_CONTENT T_EOA T_EOF).
  Notation repair := (repair FNMAX CACHE T_START T_CONTENT T_EOA T_EOF H).
  Notation wf_blocks := (wf_blocks FNMAX H).
  Notation good_output := (good_output FNMAX T_START T_CONTENT T_EOA T_EOF H).
  Notation wrun := (wrun FNMAX T_START T_CONTENT T_EOA T_EOF H order).
  Notation appended := (appended FNMAX T_START T_CONTENT T_EOA T_EOF H order).

  (* recovers_all of ComposeFlush.v with the stopping status left open *)
  Definition recovers_all_st (s : wstate) (ops : list wop) (r : res (fstatus * list bytes * wstate)) : Prop :=
    exists bl status out obl,
      w_out s = body bl /\ wf_blocks bl /\ w_files s = name_list (files_of bl) /\
      r = Ok (status, unfinished_of (files_of bl), out) /\
      good_output out obl /\ Forall2 same (files_of bl) (files_of obl) /\
      forall name id, In (name, id) (w_files s) ->
        content_of (files_of obl) name = appended id w_init ops.

  Variables (pre post : list wop) (sfin : wstate) (rsall : list (res N)).
  Hypothesis Hrun : wrun w_init (pre ++ OFlush :: post) = (sfin, rsall).
  Let s : wstate := fst (wrun w_init pre).
  Hypothesis Hclean : Forall (fun x => clean (fst x) (snd x)) (combine pre rsall).
  Hypothesis Hops : Forall op_ok pre.
  Hypothesis Hnext : w_next s < 2 ^ 64.

  (* any source whose ghost (RepairMask.Mask) is a read-only cursor over the block stream *)
  Theorem flush_at_masked (S0 : Stream) (J : st (Mask S0) -> N -> Prop) s0 fuel :
    RdRefines (rd (Mask S0)) (w_out s) J -> J (Some s0) 0 -> (N.to_nat (len (w_out s)) < fuel)%nat ->
    (* finalize did not fail with SerializationError (footer within the bincode limit) *)
    repair S0 fuel s0 w_init <> Err EDeser ->
    recovers_all_st s pre (repair S0 fuel s0 w_init).
  Proof.
    intros HR HJ Hf Hser.
    assert (HserM : repair (Mask S0) fuel (Some s0) w_init <> Err EDeser).
    { intros E. apply Hser. exact (repair_mask_ser S0 FNMAX CACHE T_START T_CONTENT T_EOA T_EOF H fuel s0 w_init E). }
    destruct (flush_at_plain FNMAX CACHE HFN HCACHE T_START T_CONTENT T_EOA T_EOF Htags H H_len order
                pre post sfin rsall Hrun Hclean Hops Hnext (Mask S0) J (Some s0) fuel HR HJ Hf HserM)
      as (bl & out & obl & Ho & Hwf & Hfl & Hr & Hg & Hs & Hc).
    destruct (repair_mask S0 FNMAX CACHE T_START T_CONTENT T_EOA T_EOF H fuel s0 w_init _ _ _ Hr)
      as (status & Hr').
    exists bl, status, out, obl. auto 10.
  Qed.

  (* ---------- the compression layer ---------- *)
  Variables BLOCK FSBUF : N.
  Hypothesis HFSBUF : 0 < FSBUF.
  Hypothesis HBLOCK32 : BLOCK < 2 ^ 32.
  Variable dstate : Type.
  Variable dinit : dstate.
  Variable dstep : dstate -> bytes -> N -> dresult * N * bytes * dstate.
  Variable D : bytes -> bytes.
  Variable fin : bytes -> bool.
  Hypothesis L : DecoderLaws dinit dstep D fin.
  Variable tail : bytes.
  Hypothesis Htail : dead D fin tail.
  Variable bs : list (bytes * bytes).
  Hypothesis Hbs : Forall (good_block BLOCK D fin) bs.
  (* what the layer below the compression layer had received when the flush returned *)
  Variable w : bytes.
  Hypothesis Hw : prefix w (wire_of tail bs).
  (* the encoder side of flush *)
  Hypothesis Hflush : fs_spec D bs w = w_out s.
  Variable pfuel : nat.
  Hypothesis Hpf : (N.to_nat (2 * len w + 1) < pfuel)%nat.
  Notation FsComp := (FsComp BLOCK FSBUF dstate dinit dstep pfuel).

  (* compression only: the destination holds w *)
  Theorem flush_at_comp (Sin : Stream) (Rin : st Sin -> N -> Prop) i0 fuel :
    SrcRefines Sin w Rin -> Rin i0 0 -> (N.to_nat (len (w_out s)) < fuel)%nat ->
    repair (FsComp Sin) fuel (FReady i0) w_init <> Err EDeser ->
    recovers_all_st s pre (repair (FsComp Sin) fuel (FReady i0) w_init).
  Proof.
    intros HS HR Hf Hser.
    pose proof (fscomp_mask_refines BLOCK FSBUF HFSBUF HBLOCK32 dstate dinit dstep D fin L tail Htail
                  Sin w Rin HS bs Hbs Hw pfuel Hpf) as HRM.
    unfold fsc_out in HRM. rewrite Hflush in HRM.
    apply (flush_at_masked (FsComp Sin) _ (FReady i0) fuel HRM); [|exact Hf|exact Hser].
    exact (JM_start BLOCK FSBUF HFSBUF HBLOCK32 dstate dinit dstep D fin tail Sin w Rin bs pfuel Hpf i0 HR).
  Qed.

  (* ---------- compression over encryption ---------- *)
  Variables CHUNK TAG CIPHERBUF : N.
  Hypothesis HCHUNK : 0 < CHUNK.
  Hypothesis HTAG : 0 < TAG.
  Variable ks : N -> N -> N.
  Variable tagc : N -> bytes -> bytes.
  Hypothesis Htagc : forall i c, len (tagc i c) = TAG.
  Notation FsEnc := (FsEnc CHUNK TAG ks tagc).
  Notation fs_open := (fs_open CHUNK TAG ks).
  Notation fs_output := (fs_output CHUNK TAG ks tagc).

  Variables (pieces : list bytes) (fuelw : nat) (es : ewstate).
  Hypothesis Hpieces : concat pieces = w.
  Hypothesis Hew : ew_write_pieces CHUNK CIPHERBUF ks tagc fuelw ew_init pieces = Ok es.
  Hypothesis Hbigp : len w / CHUNK < 2 ^ 32.
  Hypothesis Hbig : len (ew_out es) / (CHUNK + TAG) + 2 <= 2 ^ 32.
  Variable Sin : Stream.
  Variable Rin : st Sin -> N -> Prop.
  Hypothesis Hin : Seekable Sin (ew_out es) Rin.
  Variable i0 : st Sin.
  Hypothesis Hi0 : Rin i0 0.

  Lemma es_inv_w : EwInv CHUNK ks tagc es w.
  Proof.
    assert (Hc0 : EwCanon ew_init) by (intros _; reflexivity).
    destruct (ew_write_pieces_inv CHUNK CIPHERBUF HCHUNK ks tagc fuelw pieces ew_init [] es
                (EwInv_init CHUNK CIPHERBUF HCHUNK ks tagc) Hc0 Hew) as [Hinv _].
    cbn [app] in Hinv. rewrite Hpieces in Hinv. exact Hinv.
  Qed.

  Lemma unauth_output_w : fs_output true (ew_out es) = w.
  Proof.
    apply (fs_output_of_read_all FNMAX CACHE HFN HCACHE T_START T_CONTENT T_EOA T_EOF Htags H H_len s Hnext
             CHUNK TAG HCHUNK HTAG ks tagc Htagc true (ew_out es) (Datatypes.S (N.to_nat (len w))) 1 _
             Hbig ltac:(lia)).
    apply (flush_prefix_unauth CHUNK TAG HCHUNK HTAG ks tagc Htagc es w _ 1 es_inv_w Hbigp); lia.
  Qed.

  (* DataEvenUnauthenticated: everything appended before the flush *)
  Theorem flush_at_comp_enc fuel : (N.to_nat (len (w_out s)) < fuel)%nat ->
    exists e0 b, fs_open Sin i0 = (e0, Ok b) /\
      (repair (FsComp (FsEnc true Sin)) fuel (@FReady dstate (FsEnc true Sin) e0) w_init <> Err EDeser ->
       recovers_all_st s pre (repair (FsComp (FsEnc true Sin)) fuel (@FReady dstate (FsEnc true Sin) e0) w_init)).
  Proof.
    intros Hf.
    destruct (fsenc_rd_refines_skb CHUNK TAG HCHUNK ks tagc true Sin _ Rin Hin Hbig i0 Hi0)
      as (I & HR & e0 & b & Ho & HI).
    exists e0, b. split; [exact Ho|]. rewrite unauth_output_w in HR. intros Hser.
    exact (flush_at_comp (FsEnc true Sin) I (e0 : st (FsEnc true Sin)) fuel (rdrefines_src (FsEnc true Sin) w I HR) HI Hf Hser).
  Qed.

  (* authenticated mode: what the decompressor makes of the completed encryption chunks *)
  Theorem flush_at_comp_enc_auth fuel : (N.to_nat (len (w_out s)) < fuel)%nat ->
    exists e0 b, fs_open Sin i0 = (e0, Ok b) /\
    (repair (FsComp (FsEnc false Sin)) fuel (@FReady dstate (FsEnc false Sin) e0) w_init <> Err EDeser ->
    exists m k bl status unfinished out obl,
      ew_ctr es * CHUNK <= m /\ m <= len w /\ (ew_ctr es = 0 -> m = len w) /\
      k = len (fs_spec D bs (takeN m w)) /\ k <= len (w_out s) /\
      w_out s = body bl /\ wf_blocks bl /\ w_files s = name_list (files_of bl) /\
      repair (FsComp (FsEnc false Sin)) fuel (@FReady dstate (FsEnc false Sin) e0) w_init = Ok (status, unfinished, out) /\
      good_output out obl /\
      (forall f, In f (files_of bl) -> content_of (files_of obl) (f_name f) = present (f_id f) bl k) /\
      (forall id, data_of_id (files_of bl) id = appended id w_init pre)).
  Proof.
    intros Hf.
    destruct (run_to_flush FNMAX T_START T_CONTENT T_EOA T_EOF H order pre post sfin rsall Hrun) as (Hpre & Hcomb & _).
    fold s in Hpre. rewrite Hcomb in Hclean.
    destruct (clean_run_blocks FNMAX T_START T_CONTENT T_EOA T_EOF H order pre s _ Hpre Hclean Hops Hnext)
      as (bl & Ho & Hwf & Hne & Hfl & Hd).
    destruct (fsenc_rd_refines_skb CHUNK TAG HCHUNK ks tagc false Sin _ Rin Hin Hbig i0 Hi0)
      as (I & HR & e0 & b & Hop & HI).
    exists e0, b. split; [exact Hop|]. intros Hser.
    assert (HserM : repair (Mask (FsComp (FsEnc false Sin))) fuel (Some (@FReady dstate (FsEnc false Sin) e0)) w_init <> Err EDeser).
    { intros E. apply Hser.
      exact (repair_mask_ser (FsComp (FsEnc false Sin)) FNMAX CACHE T_START T_CONTENT T_EOA T_EOF H fuel
               (@FReady dstate (FsEnc false Sin) e0) w_init E). }
    set (m := ew_auth_len CHUNK TAG ks tagc es w).
    destruct (ew_auth_len_bounds CHUNK TAG HCHUNK HTAG ks tagc Htagc es w es_inv_w) as (B1 & B2 & B3).
    fold m in B1, B2, B3.
    assert (Hout : fs_output false (ew_out es) = takeN m w).
    { apply (fs_output_of_read_all FNMAX CACHE HFN HCACHE T_START T_CONTENT T_EOA T_EOF Htags H H_len s Hnext
               CHUNK TAG HCHUNK HTAG ks tagc Htagc false (ew_out es) (Datatypes.S (N.to_nat (len w))) 1 _
               Hbig ltac:(lia)).
      apply (flush_prefix_auth CHUNK TAG HCHUNK HTAG ks tagc Htagc es w _ 1 es_inv_w Hbigp); lia. }
    rewrite Hout in HR.
    assert (Hwm : prefix (takeN m w) (wire_of tail bs)) by (eapply prefix_trans; [apply prefix_takeN | exact Hw]).
    assert (Hpfm : (N.to_nat (2 * len (takeN m w) + 1) < pfuel)%nat) by (rewrite len_takeN; lia).
    pose proof (fscomp_mask_refines BLOCK FSBUF HFSBUF HBLOCK32 dstate dinit dstep D fin L tail Htail
                  (FsEnc false Sin) (takeN m w) I (rdrefines_src _ _ _ HR) bs Hbs Hwm pfuel Hpfm) as HRM.
    pose proof (JM_start BLOCK FSBUF HFSBUF HBLOCK32 dstate dinit dstep D fin tail (FsEnc false Sin) (takeN m w) I bs pfuel Hpfm e0 HI) as HJ.
    unfold fsc_out in HRM.
    set (b' := fs_spec D bs (takeN m w)) in *.
    assert (Hb' : prefix b' (body bl)).
    { rewrite <- Ho, <- Hflush.
      exact (fs_spec_mono BLOCK D fin (dl_fin_nil _ _ _ _ _ L) (D_mono_prefix _ dinit dstep D fin L)
               tail bs Hbs _ _ (prefix_takeN m w) Hw). }
    assert (Hlb : len b' <= len (w_out s)) by (rewrite Ho; apply prefix_len, Hb').
    destruct (repair_max_rd FNMAX CACHE HFN HCACHE T_START T_CONTENT T_EOA T_EOF Htags H H_len
                _ _ _ HRM bl [] Hwf (or_intror eq_refl)
                (prefix_trans _ _ _ Hb' (prefix_app _ _)) (Some (@FReady dstate (FsEnc false Sin) e0)) HJ fuel ltac:(lia) HserM)
      as (status' & unf & out & obl & Hr & Hg & Hc).
    destruct (repair_mask (FsComp (FsEnc false Sin)) FNMAX CACHE T_START T_CONTENT T_EOA T_EOF H fuel
                (@FReady dstate (FsEnc false Sin) e0) w_init _ _ _ Hr) as (status & Hr').
    exists m, (len b'), bl, status, unf, out, obl.
    repeat (split; [assumption || reflexivity|]). exact Hd.
  Qed.
End FlushComp.
