(* RunC16Bytes.v — Tie B entry point of the work package fixcli (job c16, cases `c16b-*`): `mlar extract` as
   CliExtractOut.v models it, FROM THE ARCHIVE BYTES the real binary was given (layer-less archives whose block
   stream and footer the harness wrote BY HAND — hostile re-use of file ids among them) and FROM THE `-o`
   ARGUMENT in the state the harness prepared (missing, a directory, a regular file, a symbolic link to a
   directory, a dangling link, below a missing parent).
     form 0   whole-archive form: cmd_extract_linear_pool_o at POOL_CAP, pieces cut as io::copy cuts them
     form 1   `-g '*'`: cmd_extract_selected_o with the predicate that selects every name
     form 2   names as arguments: cmd_extract_selected_o with Cli.name_in wanted
   Rows: [status]; then the WHOLE sandbox as Run.snapshot_rows prints it (files with content, directories,
   symbolic links; the archive lies outside the sandbox). *)
From MLA Require Import Base Stream Inst Reader Path PathDir Cli Pool CliExtract CliExtractOut Run RunC17.
From MLAGen Require Src.
Import Coq.Strings.String.StringSyntax.
Open Scope N_scope.

Definition c16b_real : bytes := s2b "real".
(* the sandbox before the run ("/" = the sandbox directory) *)
Definition c16b_fs (out_state : N) : fs :=
  if out_state =? 1 then [(c16_out, Dir)]
  else if out_state =? 2 then [(c16_out, File (s2b "old"))]
  else if out_state =? 3 then [([c16b_real], Dir); (c16_out, Link (false, [Down c16b_real]))]
  else if out_state =? 4 then [(c16_out, Link (false, [Down (s2b "nowhere")]))]
  else [].                                   (* 0: `out` missing; 5: -o missing/out *)
Definition c16b_arg (out_state : N) : path :=
  if out_state =? 5 then s2b "missing" :: c16_out else c16_out.

Definition c16b_run (K : consts) (form : N) (a : bytes) (wanted : list bytes) (out_state : N) : list (list N) :=
  let fuel := Datatypes.S (N.to_nat (len a)) in
  let o := c16b_arg out_state in
  let f0 := c16b_fs out_state in
  let '(f, ok) :=
    if form =? 0 then
      cmd_extract_linear_pool_o (cCHUNK K) (cTAG K) (cBLOCK K) c17_LIMIT (cFNMAX K)
        Src.BT_FileStart Src.BT_FileContent Src.BT_EndOfArchiveData Src.BT_EndOfFile
        c17_b2 c17_b1 c17_b2 c17_b2 c17_ksf c17_tagf c17_b1 POOL_CAP copy_cut fuel a [] o f0
    else
      cmd_extract_selected_o (cCHUNK K) (cTAG K) (cBLOCK K) c17_LIMIT (cFNMAX K)
        Src.BT_FileStart Src.BT_FileContent Src.BT_EndOfArchiveData Src.BT_EndOfFile
        c17_b2 c17_b1 c17_b2 c17_b2 c17_ksf c17_tagf c17_b1
        (if form =? 1 then (fun _ => true) else name_in wanted) fuel fuel a [] o f0 in
  [if ok then 1 else 0] :: snapshot_rows f.
