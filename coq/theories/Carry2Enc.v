(* Carry2Enc.v — work package `carry2`, part 3: C03 / C04 with the TRANSLATED encryption readers (gen/Src3e.v) as
   subject.  Compositions of EncAuth.enc_read_authentic / EncAuthFs.* with SrcTie3Enc.enc_read_sim / enc_seek_sim /
   enc_open_src / enc_fs_read_sim / enc_fs_open_src; nothing is reproved.
   C03: over ARBITRARY inner bytes w (any stream that is seekable over them), from `new` + `initialize` and after any
        sequence of translated reads and seeks (every whence, every argument), every byte string the translated
        Read::read returns at position p comes from a chunk of w whose tag verified under the counter p / CHUNK.
   C04: the translated fail-safe reader in the authenticated mode delivers, whatever the read sizes, a prefix of what
        it delivers in the unauthenticated mode (both are consecutive bytes, from 0, of auth_out w / unauth_out w).
   The one premise the translation adds: CHUNK_TAG_SIZE <= u64::MAX (cts_fits; the D20 guard divides by it). *)
From MLA Require Import Base Stream EncLayer EncLayerProofs EncAuth EncAuthFs EncAuthC SrcTie3Enc SrcTie3EncC.
From MLAGen Require Src3e.
From Coq Require Import ZifyBool ZifyNat ZifyN.
Open Scope N_scope.

Section Carry2Enc.
  Variable S : Stream.
  Variables CHUNK TAG : N.
  Variable ks : N -> N -> N.
  Variable tagc : N -> bytes -> bytes.
  Variable site_index : N.
  Hypothesis HCHUNK : 0 < CHUNK.
  Variable fuel : nat.

  Notation ELI := (Src3e.EncryptionLayerInternal S).
  Notation FSR := (Src3e.EncryptionLayerFailSafeReader S).
  Notation fuel_rd := (rd_fuel CHUNK TAG).
  Notation g_read := (Src3e.elr_read S CHUNK TAG ks tagc fuel_rd 416 site_index 419 (Datatypes.S (Datatypes.S fuel))).
  Notation g_seek := (Src3e.elr_seek S CHUNK TAG ks tagc fuel_rd 416 site_index 524 (Datatypes.S (Datatypes.S fuel))).
  Notation g_init := (Src3e.elr_initialize S CHUNK TAG ks tagc fuel_rd (fun s => (s, Ok tt)) 416 site_index 524 (Datatypes.S fuel)).
  Notation g_fs_read := (Src3e.fs_read S CHUNK TAG ks tagc fuel_rd 416 site_index 419 (Datatypes.S (Datatypes.S fuel))).
  Notation g_fs_new := (Src3e.EncryptionLayerFailSafeReader_new S CHUNK TAG ks fuel_rd).
  Notation abs := (SrcTie3Enc.abs S).

  (* ---------- C03 ---------- *)
  (* the position of the translated reader: chunk number * CHUNK_SIZE + position in the cache *)
  Definition epos_src (x : ELI) : N := Src3e.eli_chunk S x * CHUNK + Src3e.eli_cache_pos S x.
  Lemma epos_src_abs x : epos_src x = epos CHUNK S (abs x).
  Proof. reflexivity. Qed.

  (* the states of the translated reader: new + initialize (the inner layer's own initialize succeeding), then any
     translated reads and seeks *)
  Inductive reach_src (i0 : st S) : ELI -> Prop :=
  | reach_src_open x0 : Src3e.EncryptionLayerReader_new S i0 (Some tt) = Ok x0 -> reach_src i0 (fst (g_init x0))
  | reach_src_read x n : reach_src i0 x -> reach_src i0 (fst (g_read x n))
  | reach_src_seek x w : reach_src i0 x -> reach_src i0 (fst (g_seek x w)).

  Hypothesis Hfits : cts_fits CHUNK TAG.

  Lemma reach_src_abs i0 x : reach_src i0 x -> reach CHUNK TAG ks tagc S i0 (abs x).
  Proof.
    induction 1 as [x0 Hnew|x n Hre IH|x w Hre IH].
    - pose proof (enc_open_src S CHUNK TAG ks tagc site_index (fun s => (s, Ok tt)) fuel i0 i0 x0 Hfits Hnew eq_refl) as Hs.
      destruct (g_init x0) as [x' r]. unfold absr in Hs. cbn [fst snd] in Hs |- *.
      destruct (enc_open CHUNK TAG ks tagc S i0) as [s r'] eqn:Eo. injection Hs as Hx _. rewrite Hx.
      replace s with (fst (enc_open CHUNK TAG ks tagc S i0)) by (rewrite Eo; reflexivity). constructor.
    - pose proof (enc_read_sim S CHUNK TAG ks tagc site_index HCHUNK fuel x n) as Hs.
      destruct (g_read x n) as [x' r]. unfold absr in Hs. cbn [fst snd] in Hs |- *.
      replace (abs x') with (estep CHUNK TAG ks tagc S (abs x) (ORead n)); [constructor; exact IH|].
      cbn [estep]. change (eread CHUNK TAG ks tagc S (abs x) n) with (rd (EncReader CHUNK TAG ks tagc S) (abs x) n).
      rewrite <- Hs. reflexivity.
    - pose proof (enc_seek_sim S CHUNK TAG ks tagc site_index fuel x w Hfits) as Hs.
      destruct (g_seek x w) as [x' r]. unfold absr in Hs. cbn [fst snd] in Hs |- *.
      replace (abs x') with (estep CHUNK TAG ks tagc S (abs x) (OSeek w)); [constructor; exact IH|].
      cbn [estep]. change (eseek CHUNK TAG ks tagc S (abs x) w) with (sk (EncReader CHUNK TAG ks tagc S) (abs x) w).
      rewrite <- Hs. reflexivity.
  Qed.

  Theorem enc_read_authentic_src (w : bytes) (R : st S -> N -> Prop) : Seekable S w R ->
    forall i0 pin x n, R i0 pin -> reach_src i0 x ->
    exists x' r, g_read x n = (x', r) /\ reach_src i0 x' /\
      match r with
      | Ok d =>
        epos_src x' = epos_src x + len d /\
        (d = [] \/ exists ct, Accepted CHUNK TAG tagc w (epos_src x / CHUNK) ct /\
           d = sliceN (epos_src x mod CHUNK) (len d) (xor_from ks (epos_src x / CHUNK) 0 ct))
      | Err _ => epos_src x' = epos_src x /\ Src3e.eli_cache S x' = [] /\ Src3e.eli_cache_pos S x' = 0
      | Crash c => abs x' = abs x /\ c = 419 /\ 2 ^ 32 <= Src3e.eli_chunk S x + 1
      end.
  Proof.
    intros HS i0 pin x n HR Hre.
    destruct (enc_read_authentic CHUNK TAG HCHUNK ks tagc S w R HS i0 pin (abs x) n HR (reach_src_abs i0 x Hre))
      as (s' & r & He & _ & Hpost).
    pose proof (enc_read_sim S CHUNK TAG ks tagc site_index HCHUNK fuel x n) as Hs.
    pose proof (reach_src_read i0 x n Hre) as Hre'.
    destruct (g_read x n) as [x' r0]. unfold absr in Hs. cbn [fst snd] in Hs, Hre'.
    change (rd (EncReader CHUNK TAG ks tagc S) (abs x) n) with (eread CHUNK TAG ks tagc S (abs x) n) in Hs.
    rewrite He in Hs. injection Hs as Hx ->. subst s'.
    exists x', r. split; [reflexivity|]. split; [exact Hre'|].
    unfold read_post in Hpost. destruct r as [d|e|c]; exact Hpost.
  Qed.

  (* ---------- C04 ---------- *)
  Section C04.
    Variable w : bytes.
    Variable R : st S -> N -> Prop.
    Hypothesis HS : Seekable S w R.
    Hypothesis Hbig : len w / (CHUNK + TAG) + 2 <= 2 ^ 32.

    Lemma fs_open_unauth_src i0 : R i0 0 ->
      exists l, g_fs_new i0 (Some tt) Src3e.DataEvenUnauthenticated = Ok l /\
                unauth_of (Src3e.fs_mode S l) = true /\ FsInvU CHUNK TAG ks S w R (abs_fs S l) 0.
    Proof.
      intros HR0. destruct (fs_open_unauth CHUNK TAG HCHUNK ks tagc S w R HS Hbig i0 HR0) as (s & r & Ho & Hr & HI).
      pose proof (enc_fs_open_src S CHUNK TAG ks i0 Src3e.DataEvenUnauthenticated) as Hs.
      destruct (g_fs_new i0 (Some tt) Src3e.DataEvenUnauthenticated) as [l|e|c].
      - destruct Hs as (b & Hs & Hm). rewrite Ho in Hs. injection Hs as Hx _. exists l. rewrite <- Hx, Hm. auto.
      - destruct Hs as (s2 & Hs). rewrite Ho in Hs. injection Hs as _ ->. destruct Hr; discriminate.
      - destruct Hs as (s2 & Hs). rewrite Ho in Hs. injection Hs as _ ->. destruct Hr; discriminate.
    Qed.

    Lemma slice0_prefix (k : N) (b : bytes) : prefix (sliceN 0 k b) b.
    Proof. unfold sliceN. rewrite dropN_0. apply prefix_takeN. Qed.

    (* both constructions succeed (chunk 0 is loaded unauthenticated in both: D2), and whatever the two lists of read
       sizes: every read of both readers succeeds; the authenticated reader has delivered a prefix A of auth_out w,
       the other a prefix U of unauth_out w; A is a prefix of unauth_out w, hence of U as soon as U is at least as long *)
    Theorem auth_prefix_of_unauth_src i0 (ns ms : list N) : R i0 0 ->
      exists la lu la' lu' A U,
        g_fs_new i0 (Some tt) Src3e.OnlyAuthenticatedData = Ok la /\
        g_fs_new i0 (Some tt) Src3e.DataEvenUnauthenticated = Ok lu /\
        run_reads g_fs_read la ns = (la', Ok A) /\ run_reads g_fs_read lu ms = (lu', Ok U) /\
        prefix A (auth_out CHUNK TAG ks tagc w) /\ prefix U (unauth_out CHUNK TAG ks w) /\
        prefix A (unauth_out CHUNK TAG ks w) /\ (len A <= len U -> prefix A U).
    Proof.
      intros HR0.
      destruct (fs_open_auth_src S CHUNK TAG ks tagc HCHUNK w R HS Hbig i0 HR0) as (la & Hna & Hma & HIa).
      destruct (fs_open_unauth_src i0 HR0) as (lu & Hnu & Hmu & HIu).
      destruct (rd_refines_run _ _ _ (fs_auth_refines_src S CHUNK TAG ks tagc site_index HCHUNK w R HS Hbig fuel) la 0 ns (conj Hma HIa))
        as (la' & ka & Hra & _ & _).
      destruct (rd_refines_run _ _ _ (fs_unauth_refines_src S CHUNK TAG ks tagc site_index HCHUNK w R HS Hbig fuel) lu 0 ms (conj Hmu HIu))
        as (lu' & ku & Hru & _ & _).
      exists la, lu, la', lu', (sliceN 0 ka (auth_out CHUNK TAG ks tagc w)), (sliceN 0 ku (unauth_out CHUNK TAG ks w)).
      split; [exact Hna|]. split; [exact Hnu|]. split; [exact Hra|]. split; [exact Hru|].
      pose proof (slice0_prefix ka (auth_out CHUNK TAG ks tagc w)) as PA.
      pose proof (slice0_prefix ku (unauth_out CHUNK TAG ks w)) as PU.
      pose proof (prefix_trans _ _ _ PA (fs_auth_prefix_of_unauth CHUNK TAG HCHUNK ks tagc w)) as PAU.
      split; [exact PA|]. split; [exact PU|]. split; [exact PAU|].
      intros Hle. rewrite (prefix_is_takeN _ _ PAU), (prefix_is_takeN _ _ PU). apply prefix_takeN_mono. exact Hle.
    Qed.
  End C04.
End Carry2Enc.
