(* ArchiveSrc.v — `ArchiveReader::from_config` and `ArchiveFailSafeReader::from_config` +
   `convert_to_archive` over an ARBITRARY source stream (a file, a pipe returning short reads,
   ...), the header included.  Archive.v fixes the source to an in-memory cursor and parses the
   header from the bytes; here the header is read from the source with the reads the code
   performs (HeaderStream.read_header_s) and the layer stack is built over the SAME source,
   left where the header read left it.

     ArchiveReader::from_config (lib.rs:1223):   src.rewind(); ArchiveHeader::from(&mut src);
       config.load_persistent; RawLayerReader::new(src).reset_position(); layers; initialize;
       ArchiveFooter::deserialize_from; rewind
     ArchiveFailSafeReader::from_config (lib.rs:1361): NO rewind; ArchiveHeader::from(&mut src);
       config.load_persistent; RawLayerFailSafeReader::new(src) (reads pass through, no seek);
       EncryptionLayerFailSafeReader::new (loads chunk 0: EncLayer.fs_open);
       CompressionLayerFailSafeReader::new; then convert_to_archive = Repair.repair.

   The compression fail-safe layer is a parameter of [failsafe_repair] (a stream transformer
   and its constructor): its model (CompFailSafe.v / FsCompStream.v) is parametric in brotli's
   decoder step function; the theorems of ArchiveSrcProofs.v are for the combinations
   {no layer, ENCRYPT}.  Definitions only. *)
From MLA Require Import Limit.
From MLA Require Import Base Stream EncLayer CompLayer RawLayer LayerStack Blocks Writer Reader Repair
  Format Ecies Archive HeaderStream Run.
Open Scope N_scope.

Section ArchiveSrc.
  Variables CHUNK TAG BLOCK LIMIT FNMAX CACHE : N.
  Local Hint Extern 0 Limit => exact LIMIT : typeclass_instances.
  Variables TS TC TA TE : N.
  Variable H : bytes -> bytes.
  Variable dh : bytes -> bytes -> bytes.
  Variable kdf : bytes -> bytes.
  Variables wdec wtag : bytes -> bytes -> bytes.
  Variable ksf : bytes -> bytes -> N -> N -> N.
  Variable tagf : bytes -> bytes -> N -> bytes -> bytes.
  Variable dec : bytes -> bytes.
  (* the source *)
  Variable S0 : Stream.

  (* ---------- the reader's layer stack over the source ---------- *)
  Definition RawSrc : Stream := RawReader S0.
  Definition EncSrc (k n : bytes) : Stream := EncReader CHUNK TAG (ksf k n) (tagf k n) RawSrc.
  Definition StackSrc (e c : bool) (k n : bytes) : Stream :=
    match e, c with
    | false, false => RawSrc
    | true, false => EncSrc k n
    | false, true => CompReader BLOCK dec RawSrc
    | true, true => CompReader BLOCK dec (EncSrc k n)
    end.

  (* as Archive.open_stack, the raw layer created over the source state after the header *)
  Definition open_stack_src (s1 : st S0) (e c : bool) (k n : bytes) : res (st (StackSrc e c k n)) :=
    do r <- lift (raw_open S0 s1);
    match e as e', c as c' return res (st (StackSrc e' c' k n)) with
    | false, false => lift (raw_initialize S0 r)
    | true, false => lift (enc_open CHUNK TAG (ksf k n) (tagf k n) RawSrc r)
    | false, true => lift (comp_open LIMIT RawSrc (raw_initialize S0) r)
    | true, true =>
      lift (comp_open LIMIT (EncSrc k n) (enc_initialize CHUNK TAG (ksf k n) (tagf k n) S0)
                      (@mkE RawSrc r [] 0 0))
    end.

  Definition stack_src (p : oparams) : Stream :=
    StackSrc (op_enc p) (op_comp p) (op_key p) (op_nonce p).
  Definition opened_src : Type := { p : oparams & Reader.rstate (stack_src p) }.

  (* ArchiveReader::from_config; s0: any state of the source *)
  Definition archive_open_src (s0 : st S0) (privs : list bytes) : res opened_src :=
    (* src.rewind() *)
    match sk S0 s0 (FromStart 0) with
    | (sa, Ok _) =>
      (* ArchiveHeader::from *)
      match read_header_s S0 LIMIT sa with
      | (s1, Ok h) =>
        do cf <- load_config dh kdf wdec wtag h privs;
        let '(e, c, k, n) := cf in
        let p := mkOP e c k n 0 in
        do s <- open_stack_src s1 e c k n;
        do r <- ropen (stack_src p) s;
        Ok (existT _ p r)
      | (_, Err e) => Err e
      | (_, Crash c) => Crash c
      end
    | (_, Err e) => Err e
    | (_, Crash c) => Crash c
    end.

  (* ---------- ArchiveFailSafeReader::from_config + convert_to_archive ---------- *)
  (* the compression fail-safe layer over an inner stream: the stream and its constructor *)
  Variable FsCompOver : Stream -> Stream.
  Variable fscomp_open : forall I : Stream, st I -> res (st (FsCompOver I)).

  Definition failsafe_repair (s0 : st S0) (privs : list bytes) (unauth : bool) (fuel : nat)
    : res (fstatus * list bytes * wstate) :=
    match read_header_s S0 LIMIT s0 with
    | (s1, Ok h) =>
      do cf <- load_config dh kdf wdec wtag h privs;
      let '(e, c, k, n) := cf in
      let rep (I : Stream) (i0 : st I) :=
        if c then do cs <- fscomp_open I i0;
                  repair FNMAX CACHE TS TC TA TE H (FsCompOver I) fuel cs w_init
        else repair FNMAX CACHE TS TC TA TE H I fuel i0 w_init in
      if e then
        match fs_open CHUNK TAG (ksf k n) S0 s1 with
        | (es, Ok _) => rep (FsEnc CHUNK TAG (ksf k n) (tagf k n) unauth S0) es
        | (_, Err e) => Err e
        | (_, Crash c) => Crash c
        end
      else rep S0 s1
    | (_, Err e) => Err e
    | (_, Crash c) => Crash c
    end.
End ArchiveSrc.
