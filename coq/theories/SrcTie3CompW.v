(* SrcTie3CompW.v — Tie A, level 1, for the COMPRESSION WRITER (work package compT).
   gen/Src3c.v, module Wr (tools/src2v3_comp.py) holds WriterWithCount::{new, into_inner, check_no_error,
   write, flush} and CompressionLayerWriter::{new, finalize, write, flush} translated statement by statement
   from /repo/mla/src/layers/compress.rs over an abstract inner writer W.

   * wwc_write_src / wwc_flush_src / wwc_check_no_error_src: what the translated WriterWithCount does, for
     EVERY inner writer (count of the accepted bytes; the first non-Interrupted error kind is latched).
   * cw_write_sim, cw_finalize_src, cw_new_src, cw_flush_src: the translated CompressionLayerWriter, instantiated
     with the inner writer of CompLayer.v (a byte vector that accepts everything) is CompLayer.cw_write_aux /
     cw_finalize on related states, for every fuel, state and buffer.

   Trusted primitives: the brotli compressor is the plaintext fed so far; `into_inner()` pushes `comp` of it
   through the translated WriterWithCount::write (one call: the vector accepts everything), errors dropped;
   bincode of SizesInfo is CompLayer.footer_of.
   Explicit hypotheses: UNCOMPRESSED_DATA_SIZE < 2^32 (a u32 constant), every compressed block is shorter
   than 2^32 bytes (CompLayer.v's own assumption on `WriterWithCount.pos`, a u32: here it is a premise).
   The DIFFERENCE found by this work package (`serialize_into` runs under `with_limit(BINCODE_MAX_DESERIALIZE)`;
   CompLayer.cw_finalize only knew the u32 bound of the length field) was REPAIRED by the fixlimits work package: the
   model has the limit as a parameter, cw_finalize_src has no premise on the footer size any more, and
   cw_finalize_limit_differs is kept as a regression example (model = source on both sides of a small limit). *)
From MLA Require Import Limit.
From MLA Require Import Base Stream CompLayer.
From MLAGen Require Src3c.
From Coq Require Import ZifyBool ZifyNat ZifyN.
Open Scope N_scope.

(* ---------- WriterWithCount over ANY inner writer ---------- *)
Section Wwc.
  Context {LIM : Limit}.
  Variable W : Type.
  Variable w_write : W -> bytes -> W * res N.
  Variable w_flush : W -> W * res unit.
  Variable is_interrupted : err -> bool.
  Variable site_add_u32 : N.
  Notation WWC := (Src3c.Wr.WriterWithCount W).
  Notation g_write := (Src3c.Wr.wwc_write W w_write is_interrupted site_add_u32).

  (* the error latch: the first error kind other than Interrupted *)
  Definition latch (cur : option err) (e : err) : option err :=
    match cur with
    | Some k => Some k
    | None => if is_interrupted e then None else Some e
    end.

  Theorem wwc_write_src (x : WWC) buf :
    g_write x buf =
    match w_write (Src3c.Wr.wwc_inner W x) buf with
    | (w', Ok n) =>
      if n <? 2 ^ 32 then
        if 2 ^ 32 <=? Src3c.Wr.wwc_pos W x + n then (Src3c.Wr.mkWWC W w' (Src3c.Wr.wwc_pos W x) (Src3c.Wr.wwc_error W x), Crash site_add_u32)
        else (Src3c.Wr.mkWWC W w' (Src3c.Wr.wwc_pos W x + n) (Src3c.Wr.wwc_error W x), Ok n)
      else (Src3c.Wr.mkWWC W w' (Src3c.Wr.wwc_pos W x) (Src3c.Wr.wwc_error W x), Ok n)
    | (w', Err e) => (Src3c.Wr.mkWWC W w' (Src3c.Wr.wwc_pos W x) (latch (Src3c.Wr.wwc_error W x) e), Err e)
    | (w', Crash c) => (Src3c.Wr.mkWWC W w' (Src3c.Wr.wwc_pos W x) (Src3c.Wr.wwc_error W x), Crash c)
    end.
  Proof.
    destruct x as [w pos er]. unfold Src3c.Wr.wwc_write, latch.
    cbn [Src3c.Wr.wwc_inner Src3c.Wr.wwc_pos Src3c.Wr.wwc_error Src3c.Wr.set_wwc_inner Src3c.Wr.set_wwc_pos Src3c.Wr.set_wwc_error].
    destruct (w_write w buf) as [w' [n|e|c]]; try reflexivity.
    destruct er as [k|]; [rewrite Bool.andb_false_r; reflexivity|].
    rewrite Bool.andb_true_r. destruct (is_interrupted e); reflexivity.
  Qed.

  (* an Interrupted error is not latched, a latched kind is never replaced *)
  Corollary wwc_latch_facts e k : latch (Some k) e = Some k /\ (is_interrupted e = true -> latch None e = None) /\
    (is_interrupted e = false -> latch None e = Some e).
  Proof. unfold latch. repeat split; intros ->; reflexivity. Qed.

  Lemma wwc_check_no_error_src (x : WWC) :
    Src3c.Wr.wwc_check_no_error W x = match Src3c.Wr.wwc_error W x with Some k => Err k | None => Ok tt end.
  Proof. reflexivity. Qed.
  Lemma wwc_flush_src (x : WWC) :
    Src3c.Wr.wwc_flush W w_flush x = let '(w, r) := w_flush (Src3c.Wr.wwc_inner W x) in (Src3c.Wr.mkWWC W w (Src3c.Wr.wwc_pos W x) (Src3c.Wr.wwc_error W x), r).
  Proof. reflexivity. Qed.
  Lemma wwc_new_src w : Src3c.Wr.WriterWithCount_new W w = Src3c.Wr.mkWWC W w 0 None.
  Proof. reflexivity. Qed.
End Wwc.

(* ---------- CompressionLayerWriter against CompLayer.v ---------- *)
Section Tie.
  Variables BLOCK LIMIT : N.
  Local Hint Extern 0 Limit => exact LIMIT : typeclass_instances.
  Variable comp : bytes -> bytes.
  Variable is_interrupted : err -> bool.
  Variables site_sub site_index site_add_u32 : N.
  Hypothesis HB32 : BLOCK < 2 ^ 32.
  Hypothesis Hcomp : forall x, len (comp x) < 2 ^ 32.

  (* the inner writer of CompLayer.v: a byte vector that accepts everything; inner.finalize() does nothing more *)
  Definition vw_write (o b : bytes) : bytes * res N := (o ++ b, Ok (len b)).
  Definition vw_write_all (o b : bytes) : bytes * res unit := (o ++ b, Ok tt).
  Definition vw_ok (o : bytes) : bytes * res unit := (o, Ok tt).
  (* bincode of SizesInfo: CompLayer.footer_of, refused beyond the limit BEFORE anything is written *)
  Definition si_bytes (si : sizes_info) : bytes := footer_of (si_sizes si) (si_last si).
  Definition vw_serialize (L : N) (o : bytes) (si : sizes_info) : bytes * res unit :=
    if L <? len (si_bytes si) then (o, Err EIo) else (o ++ si_bytes si, Ok tt).
  Definition vw_size (si : sizes_info) : res N := Ok (len (si_bytes si)).
  (* CompressorWriter::into_inner: the output goes through the translated WriterWithCount::write *)
  Definition finish (w : Src3c.Wr.WriterWithCount bytes) (data : bytes) : Src3c.Wr.WriterWithCount bytes :=
    fst (Src3c.Wr.wwc_write bytes vw_write is_interrupted site_add_u32 w data).

  Notation CLW := (Src3c.Wr.CompressionLayerWriter bytes).
  Notation g_write := (Src3c.Wr.cw_write BLOCK comp bytes site_sub site_index site_add_u32 finish).
  Notation g_finalize := (Src3c.Wr.cw_finalize LIMIT comp bytes vw_write_all vw_ok vw_serialize vw_size finish).

  Inductive Rst : Src3c.Wr.CompressionLayerWriterState bytes -> bytes -> cwst -> Prop :=
  | RReady o : Rst (Src3c.Wr.Ready bytes o) o WReady
  | RInData o e written cur :
      Rst (Src3c.Wr.InData bytes written (Src3c.Wr.mkCompressor bytes (Src3c.Wr.mkWWC bytes o 0 e) cur)) o (WInData written cur)
  | REmpty o : Rst (Src3c.Wr.Empty bytes) o WEmpty.       (* the inner writer has been dropped *)
  Definition Rw (x : CLW) (w : cwriter) : Prop :=
    Rst (Src3c.Wr.clw_state bytes x) (cw_out w) (cw_st w) /\ Src3c.Wr.clw_compressed_sizes bytes x = cw_sizes w.

  Lemma finish_eq o e cur :
    finish (Src3c.Wr.set_wwc_error bytes (Src3c.Wr.mkWWC bytes o 0 e) None) (comp cur) =
    Src3c.Wr.mkWWC bytes (o ++ comp cur) (len (comp cur)) None.
  Proof.
    unfold finish. rewrite wwc_write_src. unfold vw_write. cbn [Src3c.Wr.set_wwc_error Src3c.Wr.wwc_inner Src3c.Wr.wwc_pos Src3c.Wr.wwc_error fst].
    pose proof (Hcomp cur) as H.
    destruct (N.ltb_spec (len (comp cur)) (2 ^ 32)) as [_|Hc]; [|lia].
    destruct (N.leb_spec (2 ^ 32) (0 + len (comp cur))) as [Hc|_]; [lia|]. reflexivity.
  Qed.

  Theorem cw_new_src lvl : Rw (Src3c.Wr.CompressionLayerWriter_new bytes [] lvl) cw_init.
  Proof. split; [constructor|reflexivity]. Qed.

  Ltac wsimpl := cbn [Src3c.Wr.clw_state Src3c.Wr.clw_compressed_sizes Src3c.Wr.clw_compression_level Src3c.Wr.set_clw_state
                     Src3c.Wr.set_clw_compressed_sizes Src3c.Wr.co_inner Src3c.Wr.co_cur cw_out cw_st cw_sizes
                     Src3c.Wr.wwc_pos Src3c.Wr.wwc_inner Src3c.Wr.wwc_error Src3c.Wr.wwc_into_inner] in *.

  Theorem cw_write_sim fuel : forall x w buf, Rw x w ->
    let '(x', r) := g_write fuel x buf in
    let '(w', r') := cw_write_aux BLOCK comp fuel w buf in
    r = r' /\ Rw x' w'.
  Proof.
    induction fuel as [|fuel IH]; intros x w buf [Hst Hsz]; [split; [reflexivity|split; assumption]|].
    cbn [Src3c.Wr.cw_write cw_write_aux]. cbv zeta.
    destruct x as [st sizes lvl]. destruct w as [o wst wsz]. wsimpl. subst wsz.
    inversion Hst as [o'|o' e written cur|o']; subst; wsimpl.
    - (* Ready *)
      unfold Src3c.Wr.WriterWithCount_new.
      destruct (N.ltb_spec (len buf) (N.min BLOCK (len buf))) as [Hc|_]; [lia|].
      destruct (2 ^ 32 <=? N.min BLOCK (len buf)); split; try reflexivity; split; try reflexivity; wsimpl; constructor.
    - (* InData *)
      destruct (BLOCK <? written) eqn:Etm; [split; [reflexivity|split; [constructor|reflexivity]]|].
      destruct (written =? BLOCK) eqn:Ero.
      + rewrite finish_eq. cbn [Src3c.Wr.wwc_check_no_error Src3c.Wr.wwc_error]. wsimpl.
        apply IH. split; [constructor|reflexivity].
      + destruct (N.ltb_spec (len buf) (N.min (BLOCK - written) (len buf))) as [Hc|_]; [lia|].
        destruct (N.leb_spec (2 ^ 32) (N.min (BLOCK - written) (len buf))) as [Hc|_]; [lia|].
        destruct (N.leb_spec (2 ^ 32) (written + N.min (BLOCK - written) (len buf))) as [Hc|_]; [lia|].
        split; [reflexivity|split; [constructor|reflexivity]].
    - split; [reflexivity|split; [constructor|reflexivity]].
  Qed.

  Corollary cw_write_src x w buf : Rw x w ->
    let '(x', r) := g_write 2 x buf in
    let '(w', r') := cw_write BLOCK comp w buf in r = r' /\ Rw x' w'.
  Proof. exact (cw_write_sim 2 x w buf). Qed.

  (* the footer the model writes for this state *)
  Definition footer_for (w : cwriter) : bytes :=
    match cw_st w with
    | WInData written cur => footer_of (cw_sizes w ++ [len (comp cur)]) written
    | _ => footer_of (cw_sizes w) 0
    end.

  (* no premise on the footer size any more: the model has the bincode limit (fixlimits) *)
  Theorem cw_finalize_src x w : Rw x w ->
    let '(x', r) := g_finalize x in
    let '(w', r') := cw_finalize comp w in r = r' /\ Rw x' w'.
  Proof.
    intros [Hst Hsz]. unfold Src3c.Wr.cw_finalize, cw_finalize, lim in *. cbv zeta.
    destruct x as [st sizes lvl]. destruct w as [o wst wsz]. wsimpl. subst wsz.
    inversion Hst as [o'|o' e written cur|o']; subst; wsimpl.
    - unfold vw_serialize, vw_size, si_bytes. cbn [si_sizes si_last].
      destruct (LIMIT <? len (footer_of sizes 0)); [split; [reflexivity|split; [constructor|reflexivity]]|]. cbn [is_ok negb].
      destruct (2 ^ 32 <=? len (footer_of sizes 0)); [split; [reflexivity|split; [constructor|reflexivity]]|].
      unfold vw_write_all, vw_ok. rewrite <- app_assoc. split; [reflexivity|split; [constructor|reflexivity]].
    - rewrite finish_eq. cbn [Src3c.Wr.wwc_check_no_error Src3c.Wr.wwc_error]. wsimpl.
      unfold vw_serialize, vw_size, si_bytes. cbn [si_sizes si_last].
      destruct (LIMIT <? len (footer_of (sizes ++ [len (comp cur)]) written)); [split; [reflexivity|split; [constructor|reflexivity]]|]. cbn [is_ok negb].
      destruct (2 ^ 32 <=? len (footer_of (sizes ++ [len (comp cur)]) written)); [split; [reflexivity|split; [constructor|reflexivity]]|].
      unfold vw_write_all, vw_ok. rewrite <- app_assoc. split; [reflexivity|split; [constructor|reflexivity]].
    - split; [reflexivity|split; [constructor|reflexivity]].
  Qed.

  (* flush: Ready forwards to the inner writer, InData to the compressor, Empty is an error; the state variant,
     `written` and the size table do not change *)
  Theorem cw_flush_src (w_flush : bytes -> bytes * res unit)
      (cflush : Src3c.Wr.Compressor bytes -> Src3c.Wr.Compressor bytes * res unit) (x : CLW) :
    Src3c.Wr.cw_flush bytes w_flush cflush x =
    match Src3c.Wr.clw_state bytes x with
    | Src3c.Wr.Ready _ o => let '(o', r) := w_flush o in (Src3c.Wr.set_clw_state bytes x (Src3c.Wr.Ready bytes o'), r)
    | Src3c.Wr.InData _ written c => let '(c', r) := cflush c in (Src3c.Wr.set_clw_state bytes x (Src3c.Wr.InData bytes written c'), r)
    | Src3c.Wr.Empty _ => (x, Err EState)
    end.
  Proof. reflexivity. Qed.
End Tie.

(* REGRESSION example (was the machine-checked DIFFERENCE cw_finalize_limit_differs before the model had the limit): with a
   limit of 10 bytes the 12-byte SizesInfo of the empty stream is refused by `serialize_into` (nothing written, state
   Empty) -- by the source AND by the model; with a limit of 12 both write the footer and answer Ok *)
Example cw_finalize_limit_differs :
  let x := Src3c.Wr.CompressionLayerWriter_new bytes [] 5 in
  snd (Src3c.Wr.cw_finalize 10 toy_comp bytes vw_write_all vw_ok vw_serialize vw_size (finish (fun _ => false) 0) x) = Err EIo /\
  cw_finalize (LIM := 10) toy_comp cw_init = (mkCW [] WEmpty [], Err EIo) /\
  snd (Src3c.Wr.cw_finalize 12 toy_comp bytes vw_write_all vw_ok vw_serialize vw_size (finish (fun _ => false) 0) x) = Ok tt /\
  snd (cw_finalize (LIM := 12) toy_comp cw_init) = Ok tt.
Proof. vm_compute. repeat split; reflexivity. Qed.

(* non-vacuity: two blocks of 4 bytes through the translated writer, then finalize = the model's bytes *)
Example cw_translated_nonvacuous :
  let x0 := Src3c.Wr.CompressionLayerWriter_new bytes [] 5 in
  let w := Src3c.Wr.cw_write 4 toy_comp bytes 0 0 0 (finish (fun _ => false) 0) 2 in
  let '(x1, r1) := w x0 [1;2;3;4;5;6] in
  let '(x2, r2) := w x1 [5;6] in
  let '(x3, r3) := Src3c.Wr.cw_finalize 1000 toy_comp bytes vw_write_all vw_ok vw_serialize vw_size (finish (fun _ => false) 0) x2 in
  (r1, r2, r3) = (Ok 4, Ok 2, Ok tt) /\
  Src3c.Wr.clw_state bytes x3 = Src3c.Wr.Ready bytes (comp_format 4 toy_comp [1;2;3;4;5;6]).
Proof. vm_compute. split; reflexivity. Qed.
