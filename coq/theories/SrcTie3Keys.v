(* SrcTie3Keys.v — Tie A, level 1, for curve25519-parser (work package capiT).
   gen/Src3k.v (tools/src2v3_keys.py) holds the constants and every function of
   /repo/curve25519-parser/src/lib.rs translated statement by statement over the re-modelled
   dependency functions of Keys.v (der_container, parse_der_*, eof, pem_parse, pem_parse_many,
   pem_encode — the trusted primitive table is in the header of tools/src2v3_keys.py).  This file
   proves them EQUAL to the model Keys.v for every byte string, and carries C18's totality and
   ordering theorems over to the translated code.  The K18 open finding (PEM first, DER only when
   the PEM framing fails) is translated literally: parse_openssl_25519_pubkey/privkey = pem_first. *)
From MLA Require Import Base Keys KeysProofs.
From MLAGen Require Src3k.
From Coq Require Import ZifyBool ZifyNat ZifyN Lia.
Open Scope N_scope.

(* ---------- constants: OIDs (DER content octets of the oid! literals), tags, PEM labels, export prefixes ---------- *)
Lemma keys_constants_src :
  Src3k.K.ED_25519_OID = ED_25519_OID /\ Src3k.K.X_25519_OID = X_25519_OID /\
  Src3k.K.TAG_OCTETSTRING = TAG_OCTETSTRING /\
  Src3k.K.PUBLIC_TAG = PUBLIC_TAG /\ Src3k.K.PRIVATE_TAG = PRIVATE_TAG /\
  Src3k.K.PRIV_KEY_PREFIX = PRIV_KEY_PREFIX /\ Src3k.K.PUB_KEY_PREFIX = PUB_KEY_PREFIX /\
  Src3k.K.PRIV_KEY_TAG = PRIVATE_TAG /\ Src3k.K.PUB_KEY_TAG = PUBLIC_TAG.
Proof. repeat split; reflexivity. Qed.

(* ---------- the DER structures ---------- *)
Lemma parse_25519_private_header_src i : Src3k.parse_25519_private_header i = parse_25519_header i.
Proof. reflexivity. Qed.
Lemma parse_25519_public_header_src i : Src3k.parse_25519_public_header i = parse_25519_header i.
Proof. reflexivity. Qed.
(* Rust returns (rest, value); the callers drop the rest (`_remain`) *)
Lemma parse_25519_private_src i : (do vr <- Src3k.parse_25519_private i; Ok (fst vr)) = parse_25519_private i.
Proof. reflexivity. Qed.
Lemma parse_25519_public_src i : (do vr <- Src3k.parse_25519_public i; Ok (fst vr)) = parse_25519_public i.
Proof. reflexivity. Qed.

Section Tie.
  Variable sha512 : bytes -> bytes.
  Variable ed_to_mont : bytes -> option bytes.
  Variable x25519_base : bytes -> bytes.

  Notation g_priv_der := (Src3k.parse_openssl_25519_privkey_der sha512 SITE_LIB_138 SITE_LIB_145 SITE_LIB_147).
  Notation g_pub_der := (Src3k.parse_openssl_25519_pubkey_der ed_to_mont).
  Notation g_priv := (Src3k.parse_openssl_25519_privkey sha512 SITE_LIB_138 SITE_LIB_145 SITE_LIB_147).
  Notation g_pub := (Src3k.parse_openssl_25519_pubkey ed_to_mont).
  Notation g_many := (Src3k.parse_openssl_25519_pubkeys_pem_many ed_to_mont).

  Ltac brk :=
    repeat match goal with
           | |- context[match ?x with _ => _ end] => destruct x eqn:?; cbn [bind fst snd]; try reflexivity
           end.

  (* lib.rs:133-152: length / tag / length octet tests in this order, OID choice, SHA-512[0..32] for Ed25519 *)
  Theorem parse_openssl_25519_privkey_der_src data :
    g_priv_der data = parse_openssl_25519_privkey_der sha512 data.
  Proof.
    unfold Src3k.parse_openssl_25519_privkey_der, parse_openssl_25519_privkey_der, parse_priv_der, parse_25519_private.
    change (Src3k.parse_25519_private data) with
      (der_container (fun c h => if negb (h_tag h =? 16) then E else
          do ir <- parse_der_integer c; do hr <- parse_25519_header (snd ir); do dr <- parse_der_octetstring (snd hr);
          do _ <- eof (snd dr); Ok (fst hr, fst dr)) data).
    destruct (der_container _ data) as [[[oid d] rest]|e|c]; cbn [bind fst snd]; try reflexivity.
    destruct (negb (len d =? 34)); [reflexivity|].
    destruct (idx SITE_LIB_138 d 0) as [d0|e|c]; cbn [bind]; try reflexivity.
    change Src3k.K.TAG_OCTETSTRING with TAG_OCTETSTRING.
    destruct (negb (d0 =? TAG_OCTETSTRING)); [reflexivity|].
    destruct (idx SITE_LIB_138 d 1) as [d1|e|c]; cbn [bind]; try reflexivity.
    destruct (negb (d1 =? 32)); [reflexivity|].
    change Src3k.K.ED_25519_OID with ED_25519_OID. change Src3k.K.X_25519_OID with X_25519_OID.
    destruct (bytes_eqb oid ED_25519_OID).
    - destruct (slice SITE_LIB_145 d 2 34) as [k|e|c]; reflexivity.
    - destruct (bytes_eqb oid X_25519_OID); [|reflexivity].
      destruct (slice SITE_LIB_147 d 2 34) as [k|e|c]; reflexivity.
  Qed.

  (* lib.rs:213-231: 32 octets, OID choice, Edwards -> Montgomery or InvalidData *)
  Theorem parse_openssl_25519_pubkey_der_src data :
    g_pub_der data = parse_openssl_25519_pubkey_der ed_to_mont data.
  Proof.
    unfold Src3k.parse_openssl_25519_pubkey_der, parse_openssl_25519_pubkey_der, parse_pub_der, parse_25519_public.
    change (Src3k.parse_25519_public data) with
      (der_container (fun c h => if negb (h_tag h =? 16) then E else
          do hr <- parse_25519_header c; do dr <- parse_der_bitstring (snd hr);
          do _ <- eof (snd dr); Ok (fst hr, fst dr)) data).
    destruct (der_container _ data) as [[[oid d] rest]|e|c]; cbn [bind fst snd]; try reflexivity.
    destruct (negb (len d =? 32)); cbn [bind]; [reflexivity|].
    change Src3k.K.ED_25519_OID with ED_25519_OID. change Src3k.K.X_25519_OID with X_25519_OID.
    destruct (bytes_eqb oid ED_25519_OID); cbn [bind public_key_of fst snd]; [destruct (ed_to_mont d); reflexivity|].
    destruct (bytes_eqb oid X_25519_OID); reflexivity.
  Qed.

  (* lib.rs:239-264: PEM first; the DER parser sees the input only when pem::parse FAILS (K18) *)
  Theorem parse_openssl_25519_pubkey_src data : g_pub data = parse_openssl_25519_pubkey ed_to_mont data.
  Proof.
    unfold Src3k.parse_openssl_25519_pubkey, parse_openssl_25519_pubkey, pem_first.
    destruct (pem_parse data) as [[t contents]|e|c]; cbn [fst snd]; try reflexivity; try apply parse_openssl_25519_pubkey_der_src.
    change Src3k.K.PUBLIC_TAG with PUBLIC_TAG. destruct (negb (bytes_eqb t PUBLIC_TAG)); [reflexivity|].
    apply parse_openssl_25519_pubkey_der_src.
  Qed.
  Theorem parse_openssl_25519_privkey_src data : g_priv data = parse_openssl_25519_privkey sha512 data.
  Proof.
    unfold Src3k.parse_openssl_25519_privkey, parse_openssl_25519_privkey, pem_first.
    destruct (pem_parse data) as [[t contents]|e|c]; cbn [fst snd]; try reflexivity; try apply parse_openssl_25519_privkey_der_src.
    change Src3k.K.PRIVATE_TAG with PRIVATE_TAG. destruct (negb (bytes_eqb t PRIVATE_TAG)); [reflexivity|].
    apply parse_openssl_25519_privkey_der_src.
  Qed.

  (* lib.rs:267-278: every block in order, first wrong label or bad key ends with its error, keys appended *)
  Lemma pem_many_loop_src ps : forall out,
    Src3k.parse_openssl_25519_pubkeys_pem_many_loop ed_to_mont ps out =
    (do ks <- pubkeys_of PUBLIC_TAG (parse_openssl_25519_pubkey_der ed_to_mont) ps; Ok (out ++ ks)).
  Proof.
    induction ps as [|[t contents] r IH]; intros out; cbn [Src3k.parse_openssl_25519_pubkeys_pem_many_loop pubkeys_of bind fst snd].
    - now rewrite app_nil_r.
    - change Src3k.K.PUBLIC_TAG with PUBLIC_TAG. destruct (negb (bytes_eqb t PUBLIC_TAG)); [reflexivity|].
      rewrite parse_openssl_25519_pubkey_der_src.
      destruct (parse_openssl_25519_pubkey_der ed_to_mont contents) as [k|e|c]; cbn [bind]; try reflexivity.
      rewrite IH. destruct (pubkeys_of _ _ r) as [ks|e|c]; cbn [bind]; try reflexivity.
      now rewrite <- app_assoc.
  Qed.
  Theorem parse_openssl_25519_pubkeys_pem_many_src data :
    g_many data = parse_openssl_25519_pubkeys_pem_many ed_to_mont data.
  Proof.
    unfold Src3k.parse_openssl_25519_pubkeys_pem_many, parse_openssl_25519_pubkeys_pem_many.
    destruct (pem_parse_many data) as [ps|e|c]; cbn [bind]; try reflexivity.
    rewrite pem_many_loop_src. destruct (pubkeys_of _ _ ps); reflexivity.
  Qed.

  (* lib.rs:296-336 *)
  Theorem generate_keypair_src seed :
    Src3k.generate_keypair x25519_base seed = generate_keypair_from_seed x25519_base seed.
  Proof. reflexivity. Qed.
  Theorem as_pem_src kp :
    Src3k.private_as_pem (fst kp) = private_as_pem kp /\ Src3k.public_as_pem (snd kp) = public_as_pem kp.
  Proof. split; reflexivity. Qed.

  (* ---------- carried: C18's theorems hold of the TRANSLATED code ---------- *)
  Theorem parse_total_src : (forall b, 32 <= len (sha512 b)) -> forall b,
    nocrash (g_priv_der b) /\ nocrash (g_pub_der b) /\ nocrash (g_priv b) /\ nocrash (g_pub b) /\ nocrash (g_many b).
  Proof.
    intros Hs b. destruct (parse_total sha512 ed_to_mont Hs b) as (Hp & Hq & H1 & H2 & H3).
    rewrite parse_openssl_25519_privkey_src, parse_openssl_25519_pubkey_src, parse_openssl_25519_pubkeys_pem_many_src,
      parse_openssl_25519_privkey_der_src, parse_openssl_25519_pubkey_der_src.
    repeat split; auto.
    - unfold parse_openssl_25519_privkey_der. destruct (parse_priv_der b) as [[k d]|e|c]; cbn [bind]; auto.
      unfold static_secret_of; destruct k; cbn [fst snd]; [|reflexivity].
      unfold slice. specialize (Hs d). destruct ((0 <=? 32) && (32 <=? len (sha512 d))) eqn:E; [reflexivity|].
      apply andb_false_iff in E. destruct E as [E|E]; [discriminate|]. apply N.leb_gt in E. lia.
    - unfold parse_openssl_25519_pubkey_der. destruct (parse_pub_der b) as [[k d]|e|c]; cbn [bind]; auto.
      unfold public_key_of; destruct k; cbn [fst snd]; [destruct (ed_to_mont d)|]; reflexivity.
  Qed.

  Theorem generated_keypair_parses_back_src seed :
    length seed = 32%nat -> wf_bytes seed -> length (x25519_base seed) = 32%nat -> wf_bytes (x25519_base seed) ->
    let kp := Src3k.generate_keypair x25519_base seed in
    g_priv_der (fst kp) = Ok seed /\ g_pub_der (snd kp) = Ok (x25519_base seed) /\
    g_priv (Src3k.private_as_pem (fst kp)) = Ok seed /\ g_pub (Src3k.public_as_pem (snd kp)) = Ok (x25519_base seed).
  Proof.
    intros H1 H2 H3 H4 kp. subst kp.
    rewrite parse_openssl_25519_privkey_src, parse_openssl_25519_pubkey_src,
      parse_openssl_25519_privkey_der_src, parse_openssl_25519_pubkey_der_src.
    exact (generated_keypair_parses_back sha512 ed_to_mont x25519_base seed H1 H2 H3 H4).
  Qed.
End Tie.

(* C18_pem_many_order carried over: several concatenated PEM blocks of exported public keys come back,
   in order and with repeats, through the TRANSLATED bundle parser *)
Theorem pem_many_order_src ed_to_mont (ks : list bytes) :
  Forall (fun k => length k = 32%nat /\ wf_bytes k) ks ->
  Src3k.parse_openssl_25519_pubkeys_pem_many ed_to_mont
    (concat (map (fun k => Src3k.public_as_pem (export_pub_der k)) ks)) = Ok ks.
Proof.
  intros Hk. rewrite parse_openssl_25519_pubkeys_pem_many_src. unfold parse_openssl_25519_pubkeys_pem_many.
  change (map (fun k => Src3k.public_as_pem (export_pub_der k)) ks)
    with (map (fun k => pem_encode PUBLIC_TAG (export_pub_der k)) ks).
  rewrite <- (map_map export_pub_der (pem_encode PUBLIC_TAG)).
  rewrite (pem_many_order PUBLIC_TAG (map export_pub_der ks) PUBLIC_TAG_ok).
  2:{ apply Forall_map. eapply Forall_impl; [|exact Hk]. intros k [_ Hw]. now apply wf_export_pub. }
  cbn [bind]. induction Hk as [|k r [Hl Hw] _ IH]; [reflexivity|].
  cbn [map pubkeys_of]. change (bytes_eqb PUBLIC_TAG PUBLIC_TAG) with true. cbn [negb].
  unfold parse_openssl_25519_pubkey_der at 1. rewrite (parse_export_pub k Hl). cbn [bind public_key_of fst snd].
  rewrite IH. reflexivity.
Qed.
