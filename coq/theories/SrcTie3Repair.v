(* SrcTie3Repair.v — Tie A, level 1 for the REPAIR loop: the Gallina translation of
   `ArchiveFailSafeReader::convert_to_archive` (gen/Src3r.v, regenerated from /repo by
   tools/src2v3_repair.py on every run) is SIMULATED by the hand-written model `Repair.repair`
   for every source stream, every fuel and every output writer satisfying the representation
   invariant of SrcTie2.v.  Part 1: association lists, the read cache, the 'buf_fill and
   'content loops.  (Part 2: SrcTie3RepairLoop.v.)

   `ArchiveFileBlock::from(&mut self.src)` (`SrcTie3RepairLoop.block_from`) is the TRANSLATED block parser of
   gen/Src3b.v since work package blockT (it used to be the one trusted link, instantiated with
   `Blocks.parse_block`); SrcTie3Block.block_from_src proves it equal to the model's parser at L1.
   Premises of the simulation: 0 < CACHE, and the `Read` contract "a read delivers at most the
   length of the buffer it was given" (`RdBounded`): Repair.v does not model the panic that a
   violation of that contract causes in `std::io::Take` / in the slice index. *)
From MLA Require Import Limit.
From MLA Require Import Base Stream Blocks Writer Repair SrcTie2 RepairProofs3.
From MLAGen Require Src2 Src3r.
From Coq Require Import ZifyBool ZifyNat ZifyN Lia Permutation.
Open Scope N_scope.

(* ---------- association lists of gen/Src2.v against Repair.assoc ---------- *)
Lemma hm_get_assoc {V} (m : list (N * V)) k : Src2.hm_get m k = assoc m k.
Proof. induction m as [|[k' v] r IH]; [reflexivity|]. cbn [Src2.hm_get]. rewrite assoc_cons, IH. reflexivity. Qed.
Lemma hm_get_app {V} (m : list (N * V)) k v k' :
  Src2.hm_get (m ++ [(k, v)]) k' = match Src2.hm_get m k' with Some x => Some x | None => if k =? k' then Some v else None end.
Proof.
  induction m as [|[a b] r IH]; cbn [app Src2.hm_get]; [reflexivity|]. destruct (a =? k'); [reflexivity | exact IH].
Qed.
Lemma hm_get_set {V} (m : list (N * V)) k v k' x : Src2.hm_get m k = Some x ->
  Src2.hm_get (Src2.hm_set m k v) k' = if k =? k' then Some v else Src2.hm_get m k'.
Proof.
  induction m as [|[a b] r IH]; cbn [Src2.hm_get Src2.hm_set]; [discriminate|].
  destruct (N.eqb_spec a k) as [->|Hak]; cbn [Src2.hm_get].
  - intros _. destruct (k =? k'); reflexivity.
  - intros Hg. rewrite (IH Hg). destruct (N.eqb_spec a k') as [->|Hak']; [|reflexivity].
    destruct (N.eqb_spec k k'); [congruence | reflexivity].
Qed.
Lemma hm_get_insert {V} (m : list (N * V)) k v k' :
  Src2.hm_get (Src2.hm_insert m k v) k' = if k =? k' then Some v else Src2.hm_get m k'.
Proof.
  unfold Src2.hm_insert, Src2.hm_contains_key. destruct (Src2.hm_get m k) as [x|] eqn:E.
  - exact (hm_get_set m k v k' x E).
  - rewrite hm_get_app. destruct (N.eqb_spec k k') as [<-|Hk]; [now rewrite E | now destruct (Src2.hm_get m k')].
Qed.
Lemma hm_get_not_in {V} (m : list (N * V)) k : ~ In k (map fst m) -> Src2.hm_get m k = None.
Proof.
  induction m as [|[a b] r IH]; cbn [map fst In Src2.hm_get]; [reflexivity|]. intros Hn.
  destruct (N.eqb_spec a k); [exfalso; auto | apply IH; auto].
Qed.
Lemma hm_get_remove {V} (m : list (N * V)) k k' : NoDup (map fst m) ->
  Src2.hm_get (Src2.hm_remove m k) k' = if k =? k' then None else Src2.hm_get m k'.
Proof.
  induction m as [|[a b] r IH]; cbn [map fst Src2.hm_get Src2.hm_remove]; intros Hnd.
  - now destruct (k =? k').
  - apply NoDup_cons_iff in Hnd as [Hni Hnd']. destruct (N.eqb_spec a k) as [Eak|Hak]; cbn [Src2.hm_get].
    + subst a. destruct (N.eqb_spec k k') as [Ek|Hk]; [subst k'; now apply hm_get_not_in | reflexivity].
    + rewrite (IH Hnd'). destruct (N.eqb_spec a k') as [Eak'|Hak']; [|reflexivity].
      destruct (N.eqb_spec k k'); [congruence | reflexivity].
Qed.
Lemma hm_remove_incl {V} (m : list (N * V)) k x : In x (map fst (Src2.hm_remove m k)) -> In x (map fst m).
Proof.
  induction m as [|[a b] r IH]; cbn [map fst Src2.hm_remove In]; [easy|].
  destruct (a =? k); cbn [map fst In]; [auto | intros [?|?]; auto].
Qed.
Lemma NoDup_hm_remove {V} (m : list (N * V)) k : NoDup (map fst m) -> NoDup (map fst (Src2.hm_remove m k)).
Proof.
  induction m as [|[a b] r IH]; cbn [map fst Src2.hm_remove]; intros Hnd; [constructor|].
  apply NoDup_cons_iff in Hnd as [Hni Hnd']. destruct (a =? k); [exact Hnd'|]. cbn [map fst].
  constructor; [intros Hin; apply Hni; eapply hm_remove_incl; exact Hin | auto].
Qed.
Lemma NoDup_hm_insert {V} (m : list (N * V)) k v : NoDup (map fst m) -> NoDup (map fst (Src2.hm_insert m k v)).
Proof.
  intros Hnd. unfold Src2.hm_insert, Src2.hm_contains_key. destruct (Src2.hm_get m k) eqn:E.
  - now rewrite hm_set_fst.
  - rewrite map_app. cbn [map fst]. apply (Permutation_NoDup (Permutation_cons_append (map fst m) k)). constructor; [|exact Hnd].
    intros Hin. clear Hnd. induction m as [|[a b] r IH]; cbn [map fst In Src2.hm_get] in *; [easy|].
    destruct (N.eqb_spec a k); [discriminate|]. destruct Hin; [contradiction | auto].
Qed.
Lemma hm_set_set {V} (m : list (N * V)) k v v' : Src2.hm_set (Src2.hm_set m k v) k v' = Src2.hm_set m k v'.
Proof.
  induction m as [|[a b] r IH]; cbn [Src2.hm_set]; [reflexivity|].
  destruct (N.eqb_spec a k) as [->|Hak]; cbn [Src2.hm_set]; [now rewrite N.eqb_refl|].
  destruct (N.eqb_spec a k); [contradiction | now rewrite IH].
Qed.
Lemma vec_contains_mem l k : Src2.vec_contains l k = mem l k.
Proof. unfold Src2.vec_contains, mem. induction l as [|x r IH]; cbn [existsb]; [reflexivity|]. now rewrite IH, N.eqb_sym. Qed.

(* ---------- the read cache `buf` ---------- *)
Lemma buf_write_spec buf p d : p + len d <= len buf ->
  len (Src3r.buf_write buf p d) = len buf /\ takeN (p + len d) (Src3r.buf_write buf p d) = takeN p buf ++ d.
Proof.
  intros Hle. unfold Src3r.buf_write. split.
  - rewrite !len_app, len_takeN, len_dropN. lia.
  - rewrite app_assoc. replace (p + len d) with (len (takeN p buf ++ d)) by (rewrite len_app, len_takeN; lia).
    apply takeN_len_app.
Qed.
Lemma len_vec_zeros n : len (Src3r.vec_zeros n) = n.
Proof. unfold Src3r.vec_zeros, len. rewrite repeat_length. lia. Qed.

(* the `Read` contract used by the cache *)
Definition RdBounded (S : Stream) : Prop := forall s n s' d, rd S s n = (s', Ok d) -> len d <= n.
Lemma RdBounded_cursor b : RdBounded (Cursor b).
Proof.
  intros s n s' d. cbn [Cursor rd]. unfold cursor_rd. intros [= _ <-]. rewrite len_sliceN. lia.
Qed.

(* ---------- append_file_content with size = |src| (never a short source) ---------- *)
Section Append.
  Context {LIM : Limit}.
  Variable FNMAX : N.
  Variables T_START T_CONTENT T_EOA T_EOF : N.
  Variable H : bytes -> bytes.
  Notation g_append := (Src2.append_file_content FNMAX T_START T_CONTENT T_EOA T_EOF).
  Notation w_append := (w_append T_CONTENT).

  Lemma append_exact s id src : RInv s ->
    exists o r, g_append s id (len src) src = (o, r) /\ absW o = fst (w_append (absW s) id (len src) src) /\ RInv o /\
      match r with
      | Ok _ => snd (w_append (absW s) id (len src) src) = Ok 0
      | Err e => snd (w_append (absW s) id (len src) src) = Err e
      | Crash _ => False
      end.
  Proof.
    intros HR. pose proof (append_file_content_sim FNMAX T_START T_CONTENT T_EOA T_EOF H s id (len src) src HR) as Hs.
    destruct (g_append s id (len src) src) as [o r]. destruct Hs as (Ha & Hr & Hi).
    exists o, r. split; [reflexivity|]. split; [exact Ha|]. split; [exact Hi|].
    assert (Hns : forall c, snd (w_append (absW s) id (len src) src) <> Crash c /\
                            snd (w_append (absW s) id (len src) src) <> Err EShortSource).
    { intros c. unfold Writer.w_append. destruct (w_final (absW s)); cbn [snd]; [split; discriminate|].
      destruct (alookup (w_open (absW s)) id); cbn [snd]; [|split; discriminate].
      destruct (len src =? 0); cbn [snd]; [split; discriminate|].
      rewrite N.ltb_irrefl. cbn [snd]. split; discriminate. }
    destruct r as [u|e|c]; cbn [resu_short] in Hr.
    - now rewrite <- Hr.
    - destruct e; try (now rewrite <- Hr). exfalso. apply (proj2 (Hns 0)). now rewrite <- Hr.
    - apply (proj1 (Hns c)). now rewrite <- Hr.
  Qed.
End Append.

Lemma hm_set_same {V} (m : list (N * V)) k v : Src2.hm_get m k = Some v -> Src2.hm_set m k v = m.
Proof.
  induction m as [|[a b] r IH]; cbn [Src2.hm_get Src2.hm_set]; [reflexivity|].
  destruct (a =? k); [now intros [= ->] | intros Hg; now rewrite IH].
Qed.

Ltac lproj := unfold Src3r.set_src, Src3r.set_output, Src3r.set_error, Src3r.set_id_failsafe2id_output,
  Src3r.set_id_failsafe2filename, Src3r.set_id_failsafe_done, Src3r.set_id_failsafe2hash, Src3r.set_unfinished_files,
  Src3r.set_src_limit, Src3r.set_buf, Src3r.set_next_write_pos;
  cbn [Src3r.l_src Src3r.l_output Src3r.l_error Src3r.l_id_failsafe2id_output Src3r.l_id_failsafe2filename
  Src3r.l_id_failsafe_done Src3r.l_id_failsafe2hash Src3r.l_unfinished_files Src3r.l_src_limit Src3r.l_buf
  Src3r.l_next_write_pos].

(* ---------- the 'buf_fill and 'content loops ---------- *)
Section Inner.
  Context {LIM : Limit}.
  Variables FNMAX CACHE : N.
  Variables T_START T_CONTENT T_EOA T_EOF : N.
  Variable H : bytes -> bytes.
  Variable S : Stream.
  Hypothesis HCACHE : 0 < CACHE.
  Hypothesis Hbound : RdBounded S.

  Notation g_append := (Src2.append_file_content FNMAX T_START T_CONTENT T_EOA T_EOF).
  Notation w_append := (w_append T_CONTENT).
  Notation g_buf_fill := (Src3r.loop_buf_fill FNMAX CACHE T_START T_CONTENT T_EOA T_EOF S).
  Notation g_content := (Src3r.loop_content FNMAX CACHE T_START T_CONTENT T_EOA T_EOF S).
  Notation mkL := (Src3r.mkL S).

  (* the `Err(err)` arm of `match src.read(..)` — also what 'buf_fill does when the fuel is used up *)
  Definition err_arm (l : Src3r.Locals S) (id_out : N) (fname : bytes) (e : err) : Src3r.Locals S * Src3r.outcome :=
    match g_append (Src3r.l_output S l) id_out (Src3r.l_next_write_pos S l) (takeN (Src3r.l_next_write_pos S l) (Src3r.l_buf S l)) with
    | (o, Ok _) => (Src3r.set_error S (Src3r.set_output S l o) (Src3r.ErrorInFile e fname), Src3r.OBreak_read_block)
    | (o, Err e') => (Src3r.set_output S l o, Src3r.OReturn (Err e'))
    | (o, Crash x) => (Src3r.set_output S l o, Src3r.OReturn (Crash x))
    end.

  Lemma buf_fill_sim fuel : forall blk id blen id_out fname src out ids names done hash unf limit buf acc s1 rem' acc' rerr,
    len buf = CACHE -> takeN (len acc) buf = acc -> len acc < CACHE ->
    buf_fill CACHE S fuel src limit acc = (s1, rem', acc', rerr) ->
    exists buf', len buf' = CACHE /\ takeN (len acc') buf' = acc' /\
      g_buf_fill fuel blk id blen id_out fname (mkL src out Src3r.NoError ids names done hash unf limit buf (len acc)) =
      match rerr with
      | None => (mkL s1 out Src3r.NoError ids names done hash unf rem' buf' (len acc'), Src3r.ODone)
      | Some e => err_arm (mkL s1 out Src3r.NoError ids names done hash unf rem' buf' (len acc')) id_out fname e
      end.
  Proof.
    induction fuel as [|fuel IH]; intros blk id blen id_out fname src out ids names done hash unf limit buf acc s1 rem' acc' rerr
      Hlb Htk Hlt Hbf.
    - cbn [buf_fill] in Hbf. injection Hbf as <- <- <- <-. exists buf. split; [exact Hlb|]. split; [exact Htk|].
      cbn [Src3r.loop_buf_fill]. unfold err_arm. lproj.
      destruct (g_append out id_out (len acc) (takeN (len acc) buf)) as [o [u|e'|c]]; reflexivity.
    - cbn [buf_fill] in Hbf. cbn [Src3r.loop_buf_fill]. lproj. unfold Src3r.take_read.
      destruct (N.eqb_spec limit 0) as [E0|Hn0].
      + subst limit. replace (N.min 0 (CACHE - len acc)) with 0 in Hbf by lia. cbn [N.eqb] in Hbf.
        injection Hbf as <- <- <- <-.
        destruct (buf_write_spec buf (len acc) [] ltac:(rewrite len_nil; lia)) as (B1 & B2).
        exists (Src3r.buf_write buf (len acc) []). split; [lia|]. split.
        { rewrite len_nil, N.add_0_r, app_nil_r in B2. rewrite B2. exact Htk. }
        lproj. rewrite len_nil. cbn [N.eqb]. reflexivity.
      + replace (N.min (len buf - len acc) limit) with (N.min limit (CACHE - len acc)) by lia.
        destruct (N.eqb_spec (N.min limit (CACHE - len acc)) 0) as [E|_]; [lia|].
        destruct (rd S src (N.min limit (CACHE - len acc))) as [s' [d|e|c]] eqn:Erd.
        * pose proof (Hbound _ _ _ _ Erd) as Hd.
          destruct (buf_write_spec buf (len acc) d ltac:(lia)) as (B1 & B2).
          lproj. destruct (N.eqb_spec (len d) 0) as [Ed|Hdn].
          { injection Hbf as <- <- <- <-. exists (Src3r.buf_write buf (len acc) d). split; [lia|]. split.
            - rewrite Ed, N.add_0_r in B2. rewrite B2, Htk. apply len_0_nil in Ed. subst d. apply app_nil_r.
            - rewrite Ed, N.sub_0_r. reflexivity. }
          lproj. rewrite <- len_app. rewrite <- len_app in B2.
          destruct (CACHE <=? len (acc ++ d)) eqn:Efull.
          { injection Hbf as <- <- <- <-. exists (Src3r.buf_write buf (len acc) d). split; [lia|]. split.
            - rewrite B2, Htk. reflexivity.
            - reflexivity. }
          apply N.leb_gt in Efull.
          apply (IH blk id blen id_out fname s' out ids names done hash unf (limit - len d)
                    (Src3r.buf_write buf (len acc) d) (acc ++ d) s1 rem' acc' rerr); [lia | now rewrite B2, Htk | exact Efull | exact Hbf].
        * injection Hbf as <- <- <- <-. exists buf. split; [exact Hlb|]. split; [exact Htk|]. lproj. unfold err_arm. lproj.
          destruct (g_append out id_out (len acc) (takeN (len acc) buf)) as [o [u|e'|c']]; reflexivity.
        * injection Hbf as <- <- <- <-. exists buf. split; [exact Hlb|]. split; [exact Htk|]. lproj. unfold err_arm. lproj.
          destruct (g_append out id_out (len acc) (takeN (len acc) buf)) as [o [u|e'|c']]; reflexivity.
  Qed.

  (* 'content: the outcome of the translated loop against the five results of Repair.content_loop *)
  Lemma content_sim fuel : forall blk id blen id_out fname src out ids names done hash unf limit buf nwp got hg
      s2 out2 got' rerr werr,
    len buf = CACHE -> RInv out -> Src2.hm_get hash id = Some hg ->
    content_loop CACHE T_CONTENT S fuel src (absW out) id_out limit got = (s2, out2, got', rerr, werr) ->
    exists delta, got' = got ++ delta /\
      match werr, rerr with
      | Some e, _ => exists l', g_content fuel blk id blen id_out fname
                        (mkL src out Src3r.NoError ids names done hash unf limit buf nwp) = (l', Src3r.OReturn (Err e))
      | None, Some e => exists o' lim' buf' nwp', absW o' = out2 /\ RInv o' /\
          g_content fuel blk id blen id_out fname (mkL src out Src3r.NoError ids names done hash unf limit buf nwp) =
          (mkL s2 o' (Src3r.ErrorInFile e fname) ids names done (Src2.hm_set hash id (hg ++ delta)) unf lim' buf' nwp',
           Src3r.OBreak_read_block)
      | None, None => exists o' lim' buf' nwp', absW o' = out2 /\ RInv o' /\
          g_content fuel blk id blen id_out fname (mkL src out Src3r.NoError ids names done hash unf limit buf nwp) =
          (mkL s2 o' Src3r.NoError ids names done (Src2.hm_set hash id (hg ++ delta)) unf lim' buf' nwp', Src3r.ODone)
      end.
  Proof.
    induction fuel as [|fuel IH]; intros blk id blen id_out fname src out ids names done hash unf limit buf nwp got hg
      s2 out2 got' rerr werr Hlb HR Hget Hcl.
    - cbn [content_loop] in Hcl. injection Hcl as <- <- <- <- <-. exists []. split; [now rewrite app_nil_r|].
      exists out, limit, buf, nwp. split; [reflexivity|]. split; [exact HR|].
      cbn [Src3r.loop_content]. lproj. rewrite app_nil_r, (hm_set_same _ _ _ Hget). reflexivity.
    - cbn [content_loop] in Hcl. cbn [Src3r.loop_content]. lproj.
      destruct (buf_fill CACHE S (Datatypes.S fuel) src limit []) as [[[s1 rem1] bufm] rerr1] eqn:Ebf.
      destruct (buf_fill_sim (Datatypes.S fuel) blk id blen id_out fname src out ids names done hash unf limit buf []
                  s1 rem1 bufm rerr1 Hlb ltac:(rewrite len_nil; apply takeN_0) ltac:(rewrite len_nil; exact HCACHE) Ebf)
        as (buf' & Hlb' & Htk' & Eg).
      rewrite len_nil in Eg. rewrite Eg. clear Eg.
      destruct (append_exact FNMAX T_START T_CONTENT T_EOA T_EOF H out id_out bufm HR) as (o & r & Ega & Ha & Hi & Hr).
      destruct (w_append (absW out) id_out (len bufm) bufm) as [out1 rw] eqn:Ew. cbn [fst snd] in Ha, Hr.
      destruct rerr1 as [e1|].
      + unfold err_arm. lproj. rewrite Htk', Ega. destruct r as [u|e'|c]; [| |contradiction]; subst rw.
        * injection Hcl as <- <- <- <- <-. exists []. split; [now rewrite app_nil_r|].
          exists o, rem1, buf', (len bufm). split; [exact Ha|]. split; [exact Hi|]. lproj.
          rewrite app_nil_r, (hm_set_same _ _ _ Hget). reflexivity.
        * injection Hcl as <- <- <- <- <-. exists []. split; [now rewrite app_nil_r|]. eexists. reflexivity.
      + lproj. rewrite Htk', Ega. destruct r as [u|e'|c]; [| |contradiction]; subst rw.
        2:{ injection Hcl as <- <- <- <- <-. exists []. split; [now rewrite app_nil_r|]. eexists. reflexivity. }
        lproj. unfold Src3r.hm_update. rewrite Hget.
        destruct (len bufm <? CACHE) eqn:Elt.
        * injection Hcl as <- <- <- <- <-. exists bufm. split; [reflexivity|].
          exists o, rem1, buf', (len bufm). split; [exact Ha|]. split; [exact Hi|]. reflexivity.
        * assert (Hget' : Src2.hm_get (Src2.hm_set hash id (hg ++ bufm)) id = Some (hg ++ bufm)).
          { rewrite (hm_get_set _ _ _ _ _ Hget), N.eqb_refl. reflexivity. }
          subst out1.
          destruct (IH blk id blen id_out fname s1 o ids names done (Src2.hm_set hash id (hg ++ bufm)) unf rem1 buf' (len bufm)
                      (got ++ bufm) (hg ++ bufm) s2 out2 got' rerr werr Hlb' Hi Hget' Hcl) as (delta & Hgot & Hres).
          exists (bufm ++ delta). split; [now rewrite app_assoc|].
          rewrite hm_set_set, <- app_assoc in Hres. exact Hres.
  Qed.
End Inner.
