(* CompLayerSTotal.v — C08 for the compression reader with the STREAMING decompressor
   (CompLayerS.v): TOTALITY over an inner stream that may return Err at ANY read or seek, any
   bytes, any SizesInfo (hostile compressed_sizes / last_block_size), and ANY decoder step
   that respects its buffers (DstepBounded: it consumes at most the input on offer and writes
   at most the room it is given — what the signature of BrotliDecompressStream promises; no
   other law is used).

   - Decompressor::read (sd_read) and the io::copy skip (sd_skip) return Ok or Err, never reach
     a Crash site (302/259/263/320/900/902), never exhaust sd_fuel / skip_fuel;
   - Read::read: never Crash, never out of fuel (4), at most what was asked, never beyond
     max_uncompressed_pos; Seek::seek for every argument without i64 overflow likewise; the
     into_inner panic on Empty (site 186) is unreachable;
   - after an Err the state still satisfies the invariant IcompS (it is Empty exactly where
     the code left the placeholder: every `?` between mem::replace and the re-assignment) and
     later calls are total: sread_total / sseek_total are stated for any state of IcompS, the
     one after an error included (comp_stream_usable_after_error). *)
From MLA Require Import Limit.
From MLA Require Import Base Stream CompLayer CompFailSafe Total TotalComp CompLayerS CompLayerSProofs.
From Coq Require Import ZifyBool ZifyNat ZifyN.
Open Scope N_scope.

Definition DstepBounded {dstate : Type} (dstep : dstate -> bytes -> N -> dresult * N * bytes * dstate) : Prop :=
  forall ds inp room, match dstep ds inp room with (_, k, out, _) => k <= len inp /\ len out <= room end.

Section STotal.
  Context {LIM : Limit}.
  Variable BLOCK : N.
  Variable dstate : Type.
  Variable dinit : dstate.
  Variable dstep : dstate -> bytes -> N -> dresult * N * bytes * dstate.
  Hypothesis Hdb : DstepBounded dstep.
  Variable S : Stream.
  Variable Iin : st S -> Prop.
  Variable pin : st S -> N.
  Variable M : N.
  Hypothesis HT : Tame S Iin pin M.
  Hypothesis HB : 0 < BLOCK.

  Notation sdecomp := (sdecomp dstate S).
  Notation sreader := (sreader dstate S).
  Notation sd_read := (sd_read dstate dstep S).
  Notation sd_skip := (sd_skip dstate dstep S).
  Notation sread := (sread BLOCK dstate dinit dstep S).
  Notation sread_aux := (sread_aux BLOCK dstate dinit dstep S).
  Notation sseek := (sseek BLOCK dstate dinit dstep S).
  Notation sseek_start := (sseek_start BLOCK dstate dinit dstep S).
  Notation sseek_start_go := (sseek_start_go BLOCK dstate dinit dstep S).
  Notation new_sdecomp := (new_sdecomp BLOCK dstate dinit S).
  Notation buf_ok := (buf_ok dstate S).
  Notation si_max := (si_max BLOCK).
  Notation si_ubs := (si_ubs BLOCK).

  Definition sd_ok (d : sdecomp) : Prop := Iin (sd_in d) /\ buf_ok d.

  Definition sd_post (d : sdecomp) (n : N) (out : sdecomp * res bytes) : Prop :=
    match out with
    | (d', Ok b) => sd_ok d' /\ len b <= n
    | (d', Err e) => e <> EFuel
    | (_, Crash _) => False
    end.

  Lemma invalid_data_post d n : sd_ok d -> sd_post d n (invalid_data dstate S d).
  Proof.
    intros Hd. unfold invalid_data. destruct (sd_eiid d); cbn [sd_post].
    - discriminate.
    - split; [exact Hd|]. change (len (@nil N)) with 0. lia.
  Qed.

  (* Decompressor::read *)
  Lemma sd_read_total : forall fuel d n, sd_ok d -> (N.to_nat (sd_lim d) < fuel)%nat ->
    sd_post d n (sd_read fuel d n).
  Proof.
    induction fuel as [|fuel IH]; intros d n [Hi (H1 & H2 & H3)] Hf; [lia|].
    cbn [CompLayerS.sd_read].
    destruct (N.ltb_spec (len (sd_buf d)) (sd_off d)) as [?|_]; [lia|].
    pose proof (Hdb (sd_ds d) (dropN (sd_off d) (sd_buf d)) n) as Hb.
    destruct (dstep (sd_ds d) (dropN (sd_off d) (sd_buf d)) n) as [[[r k] out] ds'].
    destruct Hb as [Hk Hout]. rewrite len_dropN in Hk.
    set (d1 := mkSD (sd_in d) (sd_lim d) (sd_bsz d) (sd_buf d) (sd_off d + k) ds' (sd_done d) (sd_eiid d)).
    assert (Hb1 : buf_ok d1) by (unfold CompLayerSProofs.buf_ok, d1; cbn [sd_off sd_buf sd_bsz]; lia).
    assert (Hd1 : sd_ok d1) by (split; [exact Hi | exact Hb1]).
    destruct r.
    - (* Success *)
      destruct (len out =? 0) eqn:Ez.
      + destruct (negb (sd_done d1)).
        * cbn [sd_post]. split; [exact Hd1|]. change (len (@nil N)) with 0. lia.
        * destruct (negb (len (sd_buf d1) =? sd_off d1)); [apply invalid_data_post; exact Hd1|].
          cbn [sd_post]. split; [exact Hd1|]. change (len (@nil N)) with 0. lia.
      + cbn [sd_post]. auto.
    - (* NeedsMoreInput *)
      destruct (copy_to_front_spec dstate S d1 Hb1) as (d2 & -> & Hb2 & _ & Hi2 & Hl2 & Hz2 & _).
      destruct (negb (len out =? 0)).
      { cbn [sd_post]. split; [split; [rewrite Hi2; exact Hi | exact Hb2] | exact Hout]. }
      destruct Hb2 as (Hb21 & Hb22 & Hb23).
      destruct (N.ltb_spec (sd_bsz d2) (len (sd_buf d2))) as [?|_]; [lia|].
      unfold take_read. rewrite Hi2, Hl2. change (sd_in d1) with (sd_in d). change (sd_lim d1) with (sd_lim d).
      destruct (N.eqb_spec (sd_lim d) 0) as [Hz|Hnz].
      + change (len (@nil N) =? 0) with true. cbn iota.
        apply invalid_data_post. split; [exact Hi|]. unfold CompLayerSProofs.buf_ok. cbn [sd_off sd_buf sd_bsz]. lia.
      + set (m := N.min (sd_bsz d2 - len (sd_buf d2)) (sd_lim d)).
        pose proof (tame_rd S Iin pin M HT (sd_in d) m Hi) as Hrd.
        destruct (rd S (sd_in d) m) as [i' [data|e|x]]; [| |contradiction].
        * destruct Hrd as (Hi' & Hlen & _).
          destruct (N.ltb_spec m (len data)) as [?|_]; [lia|].
          destruct (N.eqb_spec (len data) 0) as [Hz|Hz].
          { apply invalid_data_post. split; [exact Hi'|]. unfold CompLayerSProofs.buf_ok. cbn [sd_off sd_buf sd_bsz]. lia. }
          apply IH.
          -- split; [exact Hi'|]. unfold CompLayerSProofs.buf_ok. cbn [sd_off sd_buf sd_bsz]. rewrite len_app. lia.
          -- cbn [sd_lim]. lia.
        * cbn [sd_post]. exact (proj2 Hrd).
    - (* NeedsMoreOutput *)
      cbn [sd_post]. auto.
    - (* Failure *)
      apply invalid_data_post. exact Hd1.
  Qed.

  Corollary sd_read_total' d n : sd_ok d -> sd_post d n (sd_read (sd_fuel dstate S d) d n).
  Proof. intros Hd. apply sd_read_total; [exact Hd | unfold sd_fuel; lia]. Qed.

  (* io::copy(take(inside), sink) *)
  Lemma sd_skip_total : forall fuel d m, sd_ok d -> (N.to_nat m < fuel)%nat ->
    match sd_skip fuel d m with
    | (d', Ok _) => sd_ok d'
    | (_, Err e) => e <> EFuel
    | (_, Crash _) => False
    end.
  Proof.
    induction fuel as [|fuel IH]; intros d m Hd Hf; [lia|].
    cbn [CompLayerS.sd_skip].
    destruct (N.eqb_spec m 0) as [?|Hm]; [exact Hd|].
    pose proof (sd_read_total' d (N.min IO_COPY_BUF m) Hd) as Hr. unfold sd_post in Hr.
    destruct (sd_read (sd_fuel dstate S d) d (N.min IO_COPY_BUF m)) as [d' [data|e|x]]; [|exact Hr|exact Hr].
    destruct Hr as [Hd' Hlen].
    destruct (N.eqb_spec (len data) 0) as [?|Hz]; [exact Hd'|].
    destruct (N.ltb_spec m (len data)) as [?|_]; [lia|].
    apply IH; [exact Hd' | lia].
  Qed.

  (* ----- the reader's invariant: initialised with si; P0 = position given by new() ----- *)
  Definition sst_ok (cs : sstate dstate S) : Prop :=
    match cs with SReady i => Iin i | SInData _ _ d => sd_ok d | SEmpty => True end.
  Definition spinv (si : sizes_info) (c : sreader) : Prop :=
    match s_state c with SInData r u _ => s_pos c + u <= si_max si + r | _ => True end.
  Definition IcompS (si : sizes_info) (P0 : N) (c : sreader) : Prop :=
    s_si c = Some si /\ sst_ok (s_state c) /\ spinv si c /\
    s_pos c <= N.max (si_max si + BLOCK) P0.

  Lemma IcompS_empty si P0 c : IcompS si P0 c -> IcompS si P0 (s_set dstate S c SEmpty).
  Proof.
    intros (H1 & H2 & H3 & H4). unfold IcompS, s_set, spinv. cbn [s_si s_state s_pos sst_ok]. auto.
  Qed.

  (* new_decompressor_at: nothing is read; the input buffer is min(csize, BLOCK) bytes, 4096
     when that is 0 — never sized by the archive beyond BLOCK (D21) *)
  Lemma new_sdecomp_tame si i p : Iin i ->
    match new_sdecomp (Some si) i p with
    | Ok d => sd_ok d /\ p mod BLOCK = 0 /\ p < si_max si /\ sd_bsz d <= N.max BLOCK DEC_DEFAULT_BUF /\
              exists csize, nthN (si_sizes si) (p / BLOCK) = Some csize /\ sd_lim d = csize
    | Err e => e <> EFuel
    | Crash _ => False
    end.
  Proof.
    intros Hi. unfold CompLayerS.new_sdecomp, bind.
    pose proof (bsc_cases BLOCK si p) as Hb.
    destruct (block_start_check BLOCK (Some si) p) as [x|e|x]; [|exact Hb|exact Hb].
    unfold si_cbs. destruct (nthN (si_sizes si) (p / BLOCK)) as [csize|] eqn:En; [|discriminate].
    cbn [sd_bsz sd_lim]. split.
    - split; [exact Hi|]. unfold CompLayerSProofs.buf_ok. cbn [sd_off sd_buf sd_bsz]. change (len (@nil N)) with 0.
      destruct (N.eqb_spec (N.min csize BLOCK) 0); unfold DEC_DEFAULT_BUF; lia.
    - split; [exact (proj1 Hb)|]. split; [exact (proj2 Hb)|]. split.
      + destruct (N.eqb_spec (N.min csize BLOCK) 0); unfold DEC_DEFAULT_BUF; lia.
      + exists csize. auto.
  Qed.

  (* ----- Read::read ----- *)
  Definition srd_post (si : sizes_info) (P0 : N) (c : sreader) (n : N) (out : sreader * res bytes) : Prop :=
    match out with
    | (c', Ok d) => IcompS si P0 c' /\ len d <= n /\ s_pos c' = s_pos c + len d /\
                    (len d <> 0 -> s_pos c' <= si_max si)
    | (c', Err e) => IcompS si P0 c' /\ e <> EFuel /\ s_state c' = SEmpty
    | (_, Crash _) => False
    end.

  Lemma srd_post_eof si P0 c n : IcompS si P0 c -> srd_post si P0 c n (c, Ok []).
  Proof. intros Hc. unfold srd_post. change (len (@nil N)) with 0. split; [exact Hc|]. repeat split; lia. Qed.

  Lemma srd_post_err si P0 c n e : IcompS si P0 c -> e <> EFuel ->
    srd_post si P0 c n (s_set dstate S c SEmpty, Err e).
  Proof. intros Hc He. unfold srd_post. split; [apply IcompS_empty; exact Hc|]. split; [exact He|reflexivity]. Qed.

  Lemma sread_live si P0 c n r u d fuel : IcompS si P0 c -> s_state c = SInData r u d -> r < u ->
    srd_post si P0 c n (sread_aux (Datatypes.S fuel) c n).
  Proof.
    intros Hc Hst Hru. pose proof Hc as (Hsi & Hok & Hpi & Hpb).
    cbn [CompLayerS.sread_aux]. rewrite Hsi. unfold pos_in_stream.
    destruct (N.ltb_spec (s_pos c) (si_max si)) as [Hin|Hout]; cbn [negb]; [|apply srd_post_eof; exact Hc].
    rewrite Hst. destruct (N.ltb_spec u r); [lia|]. destruct (N.eqb_spec r u); [lia|].
    rewrite Hst in Hok. cbn [sst_ok] in Hok.
    pose proof (sd_read_total' d (N.min (u - r) n) Hok) as Hr. unfold sd_post in Hr.
    destruct (sd_read (sd_fuel dstate S d) d (N.min (u - r) n)) as [d' [data|e|x]];
      [|apply srd_post_err; assumption|contradiction].
    destruct Hr as [Hd' Hlen].
    unfold spinv in Hpi. rewrite Hst in Hpi.
    destruct (N.leb_spec (2 ^ 32) (len data)).
    - (* the u32::try_from error: Empty, position already advanced *)
      unfold srd_post. split; [|split; [discriminate|reflexivity]].
      unfold IcompS, spinv. cbn [s_si s_state s_pos sst_ok]. repeat split; try assumption; try lia.
    - unfold srd_post, IcompS, spinv. cbn [s_si s_state s_pos sst_ok].
      destruct Hd' as (Hd1 & Hd2 & Hd3 & Hd4).
      repeat split; try assumption; try lia.
  Qed.

  Lemma sread_ready si P0 c n i fuel : IcompS si P0 c -> s_state c = SReady i ->
    srd_post si P0 c n (sread_aux (Datatypes.S (Datatypes.S fuel)) c n).
  Proof.
    intros Hc Hst. pose proof Hc as (Hsi & Hok & Hpi & Hpb).
    cbn [CompLayerS.sread_aux]. rewrite Hsi. unfold pos_in_stream at 1.
    destruct (N.ltb_spec (s_pos c) (si_max si)) as [Hin|Hout]; cbn [negb]; [|apply srd_post_eof; exact Hc].
    rewrite Hst. rewrite Hst in Hok. cbn [sst_ok] in Hok.
    pose proof (sync_inner_tame BLOCK S Iin pin M HT si i (s_pos c) Hok) as Hs.
    destruct (sync_inner BLOCK S (Some si) i (s_pos c)) as [i1 [x1|e|x1]];
      [|apply srd_post_err; assumption|contradiction].
    pose proof (new_sdecomp_tame si i1 (s_pos c) Hs) as Hn.
    destruct (new_sdecomp (Some si) i1 (s_pos c)) as [d|e|x2];
      [|apply srd_post_err; assumption|contradiction].
    destruct Hn as (Hd & Hm & Hp & _ & csize & Hnth & _).
    rewrite (ubs_at_ok BLOCK HB si (s_pos c) Hm Hp).
    destruct (block_bound BLOCK HB si (s_pos c) csize Hm Hnth) as [Hbb Hpos]. specialize (Hpos Hp).
    set (u := si_ubs si (s_pos c / BLOCK)) in *.
    assert (Hc1 : IcompS si P0 (s_set dstate S c (SInData 0 u d))).
    { unfold IcompS, s_set, spinv. cbn [s_si s_state s_pos sst_ok].
      destruct Hd as (Hd1 & Hd2 & Hd3 & Hd4). repeat split; try assumption. lia. }
    pose proof (sread_live si P0 (s_set dstate S c (SInData 0 u d)) n 0 u d fuel Hc1 eq_refl Hpos) as Hl.
    unfold srd_post in Hl |- *. cbn [s_set s_pos] in Hl.
    fold (pos_in_stream BLOCK) in Hl |- *. exact Hl.
  Qed.

  Theorem sread_tame si P0 c n fuel : IcompS si P0 c ->
    srd_post si P0 c n (sread_aux (Datatypes.S (Datatypes.S (Datatypes.S fuel))) c n).
  Proof.
    intros Hc. destruct (s_state c) as [i|r u d|] eqn:Hst.
    - eapply sread_ready; eauto.
    - destruct (N.lt_ge_cases r u) as [Hlt|Hge]; [eapply sread_live; eauto|].
      pose proof Hc as (Hsi & Hok & Hpi & Hpb).
      cbn [CompLayerS.sread_aux]. rewrite Hsi. unfold pos_in_stream at 1.
      destruct (N.ltb_spec (s_pos c) (si_max si)) as [Hin|Hout]; cbn [negb]; [|apply srd_post_eof; exact Hc].
      rewrite Hst. destruct (N.ltb_spec u r) as [Hur|Hur]; [apply srd_post_err; [exact Hc|discriminate]|].
      destruct (N.eqb_spec r u) as [Heq|Hne]; [|lia].
      rewrite Hst in Hok. cbn [sst_ok] in Hok.
      assert (Hc1 : IcompS si P0 (s_set dstate S c (SReady (sd_in d)))).
      { unfold IcompS, s_set, spinv. cbn [s_si s_state s_pos sst_ok]. repeat split; try assumption. exact (proj1 Hok). }
      pose proof (sread_ready si P0 (s_set dstate S c (SReady (sd_in d))) n (sd_in d) fuel Hc1 eq_refl) as Hl.
      unfold srd_post in Hl |- *. cbn [s_set s_pos] in Hl. exact Hl.
    - pose proof Hc as (Hsi & Hok & Hpi & Hpb).
      cbn [CompLayerS.sread_aux]. rewrite Hsi. unfold pos_in_stream at 1.
      destruct (N.ltb_spec (s_pos c) (si_max si)) as [Hin|Hout]; cbn [negb]; [|apply srd_post_eof; exact Hc].
      rewrite Hst. apply srd_post_err; [exact Hc|discriminate].
  Qed.

  (* Read::read as the layer runs it (fuel 4): from ANY state of the invariant *)
  Corollary sread_total si P0 c n : IcompS si P0 c -> srd_post si P0 c n (sread c n).
  Proof. intros Hc. unfold CompLayerS.sread. apply (sread_tame si P0 c n 1 Hc). Qed.

  (* ----- Seek::seek ----- *)
  Lemma sseek_start_go_tame si P0 c p i : IcompS si P0 c -> s_into_inner dstate S (s_state c) = Ok i ->
    match sseek_start_go c si p with
    | (c', Ok q) => IcompS si P0 c' /\ s_pos c' = p /\ q = p
    | (c', Err e) => IcompS si P0 c' /\ e <> EFuel
    | (_, Crash _) => False
    end.
  Proof.
    intros Hc Hin. pose proof Hc as (Hsi & Hok & Hpi & Hpb).
    assert (Hi : Iin i).
    { destruct (s_state c) as [i'|r u d|]; cbn [s_into_inner sst_ok] in *; [| |discriminate];
        injection Hin as <-; [exact Hok | exact (proj1 Hok)]. }
    unfold CompLayerS.sseek_start_go. rewrite Hin, Hsi. unfold pos_in_stream.
    assert (Hmod : p mod BLOCK < BLOCK) by (apply N.mod_lt; lia).
    assert (Hle : p mod BLOCK <= p) by (apply N.mod_le; lia).
    set (inside := p mod BLOCK) in *. set (rounded := p - inside) in *.
    destruct (N.ltb_spec rounded (si_max si)) as [Hr|Hr]; cbn [negb].
    - pose proof (sync_inner_tame BLOCK S Iin pin M HT si i rounded Hi) as Hs.
      destruct (sync_inner BLOCK S (Some si) i rounded) as [i1 [x1|e|x1]];
        [|split; [apply IcompS_empty; exact Hc | exact Hs]|contradiction].
      pose proof (new_sdecomp_tame si i1 rounded Hs) as Hn.
      destruct (new_sdecomp (Some si) i1 rounded) as [d|e|x2];
        [|split; [apply IcompS_empty; exact Hc | exact Hn]|contradiction].
      destruct Hn as (Hd & Hm & Hp & _ & csize & Hnth & _).
      rewrite (ubs_at_ok BLOCK HB si rounded Hm Hp).
      destruct (block_bound BLOCK HB si rounded csize Hm Hnth) as [Hbb _].
      pose proof (sd_skip_total (skip_fuel inside) d inside Hd ltac:(unfold skip_fuel; lia)) as Hk.
      destruct (sd_skip (skip_fuel inside) d inside) as [d' [x|e|x]];
        [|split; [apply IcompS_empty; exact Hc | exact Hk]|contradiction].
      destruct (N.leb_spec (2 ^ 32) inside); [split; [apply IcompS_empty; exact Hc | discriminate]|].
      unfold IcompS, spinv. cbn [s_si s_state s_pos sst_ok].
      destruct Hk as (Hk1 & Hk2 & Hk3 & Hk4).
      repeat split; try assumption; try lia.
    - destruct (N.eqb_spec p (si_max si)) as [Hp|Hp]; cbn [negb].
      + unfold IcompS, spinv. cbn [s_si s_state s_pos sst_ok]. repeat split; try assumption; lia.
      + split; [exact Hc|discriminate].
  Qed.

  Lemma sseek_start_tame si P0 c p : IcompS si P0 c ->
    match sseek_start c p with
    | (c', Ok q) => IcompS si P0 c' /\ s_pos c' = p /\ q = p
    | (c', Err e) => IcompS si P0 c' /\ e <> EFuel
    | (_, Crash _) => False
    end.
  Proof.
    intros Hc. pose proof Hc as (Hsi & _). unfold CompLayerS.sseek_start. rewrite Hsi.
    destruct (s_state c) as [i|r u d|] eqn:Hst.
    - apply (sseek_start_go_tame si P0 c p i Hc). rewrite Hst. reflexivity.
    - apply (sseek_start_go_tame si P0 c p (sd_in d) Hc). rewrite Hst. reflexivity.
    - split; [exact Hc|discriminate].
  Qed.

  (* the caller's arguments for which the i64 arithmetic of Seek::seek does not overflow *)
  Definition sseek_arg_ok (c : sreader) (w : whence) : Prop :=
    match w with
    | FromStart _ => True
    | FromCur d => (d + Z.of_N (s_pos c) < 2 ^ 63)%Z
    | FromEnd d => d <> (- 2 ^ 63)%Z
    end.

  Theorem sseek_total si P0 c w : IcompS si P0 c -> sseek_arg_ok c w ->
    match sseek c w with
    | (c', Ok q) => IcompS si P0 c' /\ s_pos c' = q /\ (forall p, w = FromStart p -> q = p)
    | (c', Err e) => IcompS si P0 c' /\ e <> EFuel
    | (_, Crash _) => False
    end.
  Proof.
    intros Hc Harg. pose proof Hc as (Hsi & _). unfold CompLayerS.sseek. rewrite Hsi.
    destruct w as [p|d|d]; cbn [sseek_arg_ok] in Harg.
    - pose proof (sseek_start_tame si P0 c p Hc) as Hs.
      destruct (sseek_start c p) as [c' [q|e|x]]; [|exact Hs|exact Hs].
      destruct Hs as (H1 & H2 & H3). split; [exact H1|]. split; [congruence|].
      intros p' E. injection E as <-. exact H3.
    - destruct (d =? 0)%Z; [split; [exact Hc|]; split; [reflexivity|intros; discriminate]|].
      destruct (s_pos c <? 2 ^ 63); [|split; [exact Hc|discriminate]].
      destruct (Z.leb_spec (2 ^ 63) (d + Z.of_N (s_pos c))) as [Hov|_]; [lia|].
      destruct (0 <=? d + Z.of_N (s_pos c))%Z; [|split; [exact Hc|discriminate]].
      pose proof (sseek_start_tame si P0 c (Z.to_N (d + Z.of_N (s_pos c))) Hc) as Hs.
      destruct (sseek_start c (Z.to_N (d + Z.of_N (s_pos c)))) as [c' [q|e|x]]; [|exact Hs|exact Hs].
      destruct Hs as (H1 & H2 & H3). split; [exact H1|]. split; [congruence|intros; discriminate].
    - destruct (0 <? d)%Z; [split; [exact Hc|discriminate]|].
      destruct (Z.eqb_spec d (- 2 ^ 63)) as [E|_]; [contradiction|].
      unfold end_target. destruct (Z.to_N (- d) <=? si_max si); [|split; [exact Hc|discriminate]].
      pose proof (sseek_start_tame si P0 c (si_max si - Z.to_N (- d)) Hc) as Hs.
      destruct (sseek_start c (si_max si - Z.to_N (- d))) as [c' [q|e|x]]; [|exact Hs|exact Hs].
      destruct Hs as (H1 & H2 & H3). split; [exact H1|]. split; [congruence|intros; discriminate].
  Qed.

  (* USABLE AFTER AN ERROR.  After a read that returned Err the reader sits in Empty (the
     placeholder, exactly as the code leaves it), still inside the invariant; from there every
     read returns Ok(0) (at or past the end) or WrongReaderState, every seek an error or — for
     seek(Current(0)) — the position: all total.  After a seek that returned Err the state is
     inside the invariant too (Empty, or untouched for the argument errors). *)
  Theorem comp_stream_usable_after_error si P0 c n e c' :
    IcompS si P0 c -> sread c n = (c', Err e) ->
    IcompS si P0 c' /\ s_state c' = SEmpty /\ e <> EFuel /\
    (forall n', sread c' n' = (c', Ok []) \/ sread c' n' = (c', Err EState)) /\
    (forall w, sseek_arg_ok c' w ->
       match sseek c' w with
       | (c'', Ok q) => IcompS si P0 c'' /\ c'' = c' /\ w = FromCur 0 /\ q = s_pos c'
       | (c'', Err e') => IcompS si P0 c'' /\ c'' = c' /\ e' <> EFuel
       | (_, Crash _) => False
       end).
  Proof.
    intros Hc Hrd. pose proof (sread_total si P0 c n Hc) as Hp. rewrite Hrd in Hp.
    destruct Hp as (Hc' & He & Hst). split; [exact Hc'|]. split; [exact Hst|]. split; [exact He|].
    pose proof Hc' as (Hsi & _).
    assert (Hself : s_set dstate S c' SEmpty = c').
    { destruct c' as [s0 si0 p0]. cbn [s_state] in Hst. subst s0. reflexivity. }
    split.
    - intros n'. unfold CompLayerS.sread. cbn [CompLayerS.sread_aux].
      destruct (negb _); [left; reflexivity|]. rewrite Hst, Hself. right; reflexivity.
    - intros w Harg. unfold CompLayerS.sseek. rewrite Hsi.
      assert (Hss : forall p, sseek_start c' p = (c', Err EState)).
      { intros p. unfold CompLayerS.sseek_start. rewrite Hsi, Hst. reflexivity. }
      destruct w as [p|d|d]; cbn [sseek_arg_ok] in Harg.
      + rewrite Hss. split; [exact Hc'|]. split; [reflexivity|discriminate].
      + destruct (Z.eqb_spec d 0) as [->|Hd]; [split; [exact Hc'|]; split; [reflexivity|]; split; reflexivity|].
        destruct (s_pos c' <? 2 ^ 63); [|split; [exact Hc'|]; split; [reflexivity|discriminate]].
        destruct (Z.leb_spec (2 ^ 63) (d + Z.of_N (s_pos c'))) as [Hov|_]; [lia|].
        destruct (0 <=? d + Z.of_N (s_pos c'))%Z; [rewrite Hss|]; (split; [exact Hc'|]; split; [reflexivity|discriminate]).
      + destruct (0 <? d)%Z; [split; [exact Hc'|]; split; [reflexivity|discriminate]|].
        destruct (Z.eqb_spec d (- 2 ^ 63)) as [E|_]; [contradiction|].
        unfold end_target. destruct (Z.to_N (- d) <=? si_max si); [rewrite Hss|];
          (split; [exact Hc'|]; split; [reflexivity|discriminate]).
  Qed.

  (* the reading half of Tame for the clients above (block parser, repair) *)
  Theorem comp_stream_reader_tame_rd si P0 :
    TameRd (CompReaderS BLOCK dstate dinit dstep S) (IcompS si P0) (@s_pos dstate S) (si_max si).
  Proof.
    intros c n Hc. cbn [CompReaderS rd st].
    pose proof (sread_total si P0 c n Hc) as H. unfold srd_post in H.
    destruct (sread c n) as [c' [d|e|x]]; [exact H| |exact H].
    destruct H as (H1 & H2 & _). split; assumption.
  Qed.
End STotal.
