(* LinearRoundTripDefs.v — C12, functional clause: the vocabulary of the statements.
     pieces_to name res : the pieces helpers::linear_extract handed to the writer registered
                           under `name`, in order (one per FileContent block);
     delivered name res  : their concatenation = what that writer received;
     lx_spec             : the linear walk as a function of the typed block list (what
                           lx_loop computes when every block parses and every content is
                           copied whole): the id -> name map and the pieces delivered.
   Definitions only; proofs in LinearRoundTripPure.v / LinearRoundTrip.v. *)
From MLA Require Import Limit.
From MLA Require Import Base Stream Blocks Reader.
Open Scope N_scope.

Definition pieces_to (name : bytes) (res : list (bytes * bytes)) : list bytes :=
  map snd (filter (fun p => bytes_eqb (fst p) name) res).
Definition delivered (name : bytes) (res : list (bytes * bytes)) : bytes :=
  concat (pieces_to name res).

(* the walk stops at the first EndOfArchiveData block, as the loop does *)
Fixpoint lx_spec (export : list bytes) (bl : list block) (ids : list (N * bytes))
         (acc : list (bytes * bytes)) : list (bytes * bytes) :=
  match bl with
  | [] => acc
  | BStart id name :: r => lx_spec export r (if name_in export name then id_insert ids id name else ids) acc
  | BContent id d :: r =>
    lx_spec export r ids (match id_lookup ids id with Some name => acc ++ [(name, d)] | None => acc end)
  | BEof id _ :: r => lx_spec export r (id_remove ids id) acc
  | BEnd :: _ => acc
  end.
