(* FlushProofs.v — the archive writer model is append-only and emits whole blocks:
   - wstep_out_prefix: every call only appends to the block stream (so what has been handed
     to the top layer at a flush point is exactly w_out)
   - wrun_blocks: along any run without finalize and without a short source, w_out is a
     concatenation of serialised blocks, and every successful append of size > 0 is there as
     a complete FileContent block
   - archive_sink_indep (C13): the block stream pushed increment by increment, cut in any
     way, through any throttling / interrupting sink = the block stream in memory
   - flush_durable_enc (C14, no compression): the unauthenticated fail-safe reader over the
     bytes the encryption layer has handed down when all of w_out went through it yields
     w_out again. *)
From MLA Require Import Limit.
From MLA Require Import Base Stream Blocks Writer WriterProofs EncLayer EncWriter EncWriterProofs
  EncFlushProofs Sink SinkProofs.
From Coq Require Import ZifyBool ZifyNat ZifyN.
Open Scope N_scope.

Section FlushProofs.
  Context {LIM : Limit}.
  Variable FNMAX : N.
  Variables T_START T_CONTENT T_EOA T_EOF : N.
  Variable H : bytes -> bytes.
  Variable order : footer -> footer.

  Notation wstep := (wstep FNMAX T_START T_CONTENT T_EOA T_EOF H order).
  Notation wrun := (wrun FNMAX T_START T_CONTENT T_EOA T_EOF H order).
  Notation w_start := (w_start FNMAX T_START T_CONTENT T_EOA T_EOF).
  Notation w_append := (w_append T_CONTENT).
  Notation w_end := (w_end T_START T_CONTENT T_EOA T_EOF H).
  Notation w_finalize_with := (w_finalize_with T_START T_CONTENT T_EOA T_EOF).
  Notation ser_block := (ser_block T_START T_CONTENT T_EOA T_EOF).

  Definition ser_blocks (bl : list block) : bytes := concat (map ser_block bl).
  Lemma ser_blocks_app a b : ser_blocks (a ++ b) = ser_blocks a ++ ser_blocks b.
  Proof. unfold ser_blocks. rewrite map_app, concat_app. reflexivity. Qed.

  Lemma mark_cont_out s id : w_out (mark_cont s id) = w_out s.
  Proof. unfold mark_cont. destruct (id =? w_cur s); reflexivity. Qed.

  (* ---------- what each call appends ---------- *)

  Lemma w_start_out s name s' r : w_start s name = (s', r) ->
    w_out s' = w_out s ++ match r with Ok id => ser_block (BStart id name) | _ => [] end.
  Proof.
    unfold Writer.w_start. destruct (w_final s); [intros [= <- <-]; now rewrite app_nil_r|].
    destruct (FNMAX <? len name); [intros [= <- <-]; now rewrite app_nil_r|].
    destruct (name_used (w_files s) name); [intros [= <- <-]; now rewrite app_nil_r|].
    intros [= <- <-]. reflexivity.
  Qed.

  (* a successful append of size > 0 emits exactly one complete FileContent block holding the
     first `size` bytes of the source; size 0 emits nothing; a short source (refused with
     EShortSource after the fact) emits an incomplete block *)
  Lemma w_append_out s id size src s' r : w_append s id size src = (s', r) ->
    exists inc, w_out s' = w_out s ++ inc /\
      (forall v, r = Ok v -> inc = if size =? 0 then [] else ser_block (BContent id (takeN size src))) /\
      (forall e, r = Err e -> e <> EShortSource -> inc = []).
  Proof.
    unfold Writer.w_append. destruct (w_final s).
    { intros [= <- <-]. exists []. rewrite app_nil_r. repeat split; congruence. }
    destruct (alookup (w_open s) id).
    2:{ intros [= <- <-]. exists []. rewrite app_nil_r. repeat split; congruence. }
    destruct (N.eqb_spec size 0) as [Hz|Hnz].
    { intros [= <- <-]. exists []. rewrite app_nil_r. repeat split; congruence. }
    destruct (N.ltb_spec (len src) size) as [Hs|Hs]; intros Heq;
      pose proof (f_equal fst Heq) as H1; pose proof (f_equal snd Heq) as H2; cbn [fst snd] in H1, H2;
      subst s' r; cbn [w_out]; rewrite mark_cont_out;
      exists ([T_CONTENT] ++ le64 id ++ le64 size ++ takeN size src);
      (split; [reflexivity|]); split; try congruence.
    intros v _. cbn [Blocks.ser_block]. rewrite len_takeN. do 3 f_equal. f_equal. lia.
  Qed.

  Lemma w_end_out s id s' r : w_end s id = (s', r) ->
    exists inc, w_out s' = w_out s ++ inc /\
      (forall v, r = Ok v -> exists h, inc = ser_block (BEof id h)) /\ (forall e, r = Err e -> inc = []).
  Proof.
    unfold Writer.w_end. destruct (w_final s).
    { intros [= <- <-]. exists []. rewrite app_nil_r. repeat split; congruence. }
    destruct (alookup (w_open s) id) as [hashed|].
    2:{ intros [= <- <-]. exists []. rewrite app_nil_r. repeat split; congruence. }
    intros [= <- <-]. cbn [emit w_out]. rewrite mark_cont_out.
    eexists. split; [reflexivity|]. split; [|congruence]. intros v _. eexists; reflexivity.
  Qed.

  Lemma w_finalize_out s s' r : w_finalize_with order s = (s', r) -> prefix (w_out s) (w_out s').
  Proof.
    unfold Writer.w_finalize_with. destruct (w_final s); [intros [= <- <-]; apply prefix_refl|].
    destruct (w_open s); [|intros [= <- <-]; apply prefix_refl]. cbv zeta.
    destruct (lim <? _); [intros [= <- <-]; cbn [w_finalized w_out]; apply prefix_app|].
    destruct (2 ^ 32 <=? _); intros [= <- <-]; cbn [w_finalized w_out]; apply prefix_app.
  Qed.

  (* A4: the block stream is append-only *)
  Theorem wstep_out_prefix s o s' r : wstep s o = (s', r) -> prefix (w_out s) (w_out s').
  Proof.
    destruct o as [name|id size src|id|name size src| |]; cbn [Writer.wstep]; intros Hs.
    - rewrite (w_start_out _ _ _ _ Hs). apply prefix_app.
    - destruct (w_append_out _ _ _ _ _ _ Hs) as (inc & -> & _). apply prefix_app.
    - destruct (w_end_out _ _ _ _ Hs) as (inc & -> & _). apply prefix_app.
    - destruct (w_start s name) as [s1 [id|e1|c1]] eqn:E1;
        try (injection Hs as <- <-; rewrite (w_start_out _ _ _ _ E1); apply prefix_app).
      apply (prefix_trans _ (w_out s1)); [rewrite (w_start_out _ _ _ _ E1); apply prefix_app|].
      destruct (w_append s1 id size src) as [s2 [v|e2|c2]] eqn:E2;
        try (injection Hs as <- <-; destruct (w_append_out _ _ _ _ _ _ E2) as (inc & -> & _); apply prefix_app).
      apply (prefix_trans _ (w_out s2)); [destruct (w_append_out _ _ _ _ _ _ E2) as (inc & -> & _); apply prefix_app|].
      destruct (w_end_out _ _ _ _ Hs) as (inc & -> & _). apply prefix_app.
    - injection Hs as <- <-. apply prefix_refl.
    - exact (w_finalize_out _ _ _ Hs).
  Qed.

  Corollary wrun_out_prefix ops : forall s, prefix (w_out s) (w_out (fst (wrun s ops))).
  Proof.
    induction ops as [|o ops IH]; intros s; cbn [Writer.wrun]; [apply prefix_refl|].
    destruct (wstep s o) as [s1 x] eqn:E1. specialize (IH s1).
    destruct (wrun s1 ops) as [s2 xs]. cbn [fst] in *.
    exact (prefix_trans _ _ _ (wstep_out_prefix _ _ _ _ E1) IH).
  Qed.

  (* ---------- whole blocks ---------- *)

  (* calls that keep the stream a sequence of whole blocks: everything except finalize (which
     appends the footer), a short source, and (never produced by the model) a crash *)
  Definition clean (o : wop) (r : res N) : Prop :=
    o <> OFinalize /\ r <> Err EShortSource /\ is_crash r = false.

  Lemma wstep_blocks s o s' r : wstep s o = (s', r) -> clean o r ->
    exists bl, w_out s' = w_out s ++ ser_blocks bl /\
      (forall id size src v, o = OAppend id size src -> r = Ok v -> size <> 0 ->
         bl = [BContent id (takeN size src)]).
  Proof.
    intros Hs (Hnf & Hns & Hnc).
    destruct o as [name|id size src|id|name size src| |]; cbn [Writer.wstep] in Hs.
    - rewrite (w_start_out _ _ _ _ Hs). destruct r as [id|e|c].
      + exists [BStart id name]. unfold ser_blocks. cbn [map concat]. rewrite app_nil_r. split; [reflexivity | discriminate].
      + exists []. split; [reflexivity | discriminate].
      + exists []. split; [reflexivity | discriminate].
    - destruct (w_append_out _ _ _ _ _ _ Hs) as (inc & -> & Hok & Herr). destruct r as [v|e|c]; [| |discriminate].
      + rewrite (Hok v eq_refl). destruct (N.eqb_spec size 0) as [Hz|Hnz].
        * exists []. split; [reflexivity|]. intros ? ? ? ? [= -> -> ->] _ ?. congruence.
        * exists [BContent id (takeN size src)]. unfold ser_blocks. cbn [map concat]. rewrite app_nil_r.
          split; [reflexivity|]. intros ? ? ? ? [= -> -> ->] _ _. reflexivity.
      + rewrite (Herr e eq_refl) by congruence. exists []. split; [reflexivity | discriminate].
    - destruct (w_end_out _ _ _ _ Hs) as (inc & -> & Hok & Herr). destruct r as [v|e|c]; [| |discriminate].
      + destruct (Hok v eq_refl) as [h ->]. exists [BEof id h]. unfold ser_blocks. cbn [map concat].
        rewrite app_nil_r. split; [reflexivity | discriminate].
      + rewrite (Herr e eq_refl). exists []. split; [reflexivity | discriminate].
    - destruct (w_start s name) as [s1 [id|e1|c1]] eqn:E1.
      2:{ injection Hs as <- <-. rewrite (w_start_out _ _ _ _ E1). exists []. split; [reflexivity | discriminate]. }
      2:{ injection Hs as <- <-. discriminate. }
      destruct (w_append s1 id size src) as [s2 [v|e2|c2]] eqn:E2.
      3:{ injection Hs as <- <-. discriminate. }
      2:{ injection Hs as <- <-. destruct (w_append_out _ _ _ _ _ _ E2) as (inc & Ho & _ & Herr).
          rewrite (Herr e2 eq_refl) in Ho by congruence. rewrite Ho, app_nil_r, (w_start_out _ _ _ _ E1).
          exists [BStart id name]. unfold ser_blocks. cbn [map concat]. rewrite app_nil_r. split; [reflexivity | discriminate]. }
      destruct (w_append_out _ _ _ _ _ _ E2) as (inc & Ho2 & Hok2 & _). rewrite (Hok2 v eq_refl) in Ho2.
      destruct (w_end_out _ _ _ _ Hs) as (inc3 & Ho3 & Hok3 & Herr3).
      rewrite Ho3, Ho2, (w_start_out _ _ _ _ E1).
      assert (Hi3 : exists bl3, inc3 = ser_blocks bl3).
      { destruct r as [v3|e3|c3]; [| |discriminate].
        - destruct (Hok3 v3 eq_refl) as [h ->]. exists [BEof id h]. unfold ser_blocks. cbn [map concat]. now rewrite app_nil_r.
        - rewrite (Herr3 e3 eq_refl). exists []. reflexivity. }
      destruct Hi3 as [bl3 ->].
      exists ([BStart id name] ++ (if size =? 0 then [] else [BContent id (takeN size src)]) ++ bl3).
      split; [|discriminate]. rewrite !ser_blocks_app, <- !app_assoc. do 2 f_equal.
      + unfold ser_blocks. cbn [map concat]. now rewrite app_nil_r.
      + f_equal. destruct (size =? 0); unfold ser_blocks; cbn [map concat]; now rewrite ?app_nil_r.
    - injection Hs as <- <-. exists []. unfold ser_blocks. cbn [map concat]. rewrite app_nil_r. split; [reflexivity | discriminate].
    - congruence.
  Qed.

  (* along a clean run the stream is a sequence of whole blocks containing, as a complete
     FileContent block, the bytes of every successful append of size > 0 *)
  Theorem wrun_blocks ops : forall s s' rs, wrun s ops = (s', rs) ->
    Forall (fun x => clean (fst x) (snd x)) (combine ops rs) ->
    exists bl, w_out s' = w_out s ++ ser_blocks bl /\
      forall id size src v, In (OAppend id size src, Ok v) (combine ops rs) -> size <> 0 ->
        In (BContent id (takeN size src)) bl.
  Proof.
    induction ops as [|o ops IH]; intros s s' rs Hr Hc; cbn [Writer.wrun] in Hr.
    - injection Hr as <- <-. exists []. unfold ser_blocks. cbn [map concat]. rewrite app_nil_r. split; [reflexivity|].
      intros ? ? ? ? [].
    - destruct (wstep s o) as [s1 x] eqn:E1. destruct (wrun s1 ops) as [s2 xs] eqn:E2.
      injection Hr as <- <-. cbn [combine] in Hc |- *. inversion Hc as [|? ? Hc1 Hc2]; subst. cbn [fst snd] in Hc1.
      destruct (wstep_blocks _ _ _ _ E1 Hc1) as (bl1 & Ho1 & Hb1).
      destruct (IH s1 s2 xs E2 Hc2) as (bl2 & Ho2 & Hb2).
      exists (bl1 ++ bl2). split; [rewrite Ho2, Ho1, ser_blocks_app, app_assoc; reflexivity|].
      intros id size src v [Heq|Hin] Hnz; apply in_or_app.
      + injection Heq as -> ->. left. rewrite (Hb1 id size src v eq_refl eq_refl Hnz). left; reflexivity.
      + right. exact (Hb2 id size src v Hin Hnz).
  Qed.

  (* ---------- C13: the archive through a throttled sink ---------- *)

  (* the successive values of the block stream along a run *)
  Fixpoint wouts (s : wstate) (ops : list wop) : list bytes :=
    match ops with
    | [] => []
    | o :: r => let s1 := fst (wstep s o) in w_out s1 :: wouts s1 r
    end.

  Lemma wouts_chain ops : forall s, chain (w_out s) (wouts s ops).
  Proof.
    induction ops as [|o ops IH]; intros s; cbn [wouts chain]; [exact I|].
    split; [|apply IH]. destruct (wstep s o) as [s1 x] eqn:E1. exact (wstep_out_prefix _ _ _ _ E1).
  Qed.

  Lemma wouts_last ops : forall s, last (wouts s ops) (w_out s) = w_out (fst (wrun s ops)).
  Proof.
    induction ops as [|o ops IH]; intros s; [reflexivity|].
    cbn [wouts Writer.wrun]. rewrite last_cons_default.
    destruct (wstep s o) as [s1 x] eqn:E1. cbn [fst]. rewrite IH.
    destruct (wrun s1 ops) as [s2 xs]. reflexivity.
  Qed.

  (* whatever the calls, however each increment of the block stream is cut into write_all
     calls, whatever the (Fail-free, Ok(0)-free) schedule of the destination: it ends up
     holding exactly the block stream that a memory destination holds *)
  Theorem archive_sink_indep split fuel ops sched :
    (forall b, concat (split b) = b) -> good_sched sched ->
    let final := fst (wrun w_init ops) in
    (N.to_nat (len (w_out final)) + length sched < fuel)%nat ->
    exists k', push_outs split fuel (mkSink [] sched) [] (wouts w_init ops) = (k', WAOk) /\
               sk_data k' = w_out final.
  Proof.
    intros Hsplit Hg final Hf.
    destruct (push_outs_spec split fuel Hsplit (wouts w_init ops) [] (mkSink [] sched)) as (k' & Hp & Hd & _).
    - exact (wouts_chain ops w_init).
    - exact Hg.
    - change [] with (w_out w_init) at 1. rewrite wouts_last. exact Hf.
    - exists k'. split; [exact Hp|]. rewrite Hd. cbn [sk_data app].
      change (@nil N) with (w_out w_init) at 2. rewrite wouts_last. cbn [w_out w_init len length N.of_nat].
      apply dropN_0.
  Qed.
End FlushProofs.

(* ---------- C14 without compression: writer model over the encryption layer ---------- *)
Section FlushEnc.
  Context {LIM : Limit}.
  Variable FNMAX : N.
  Variables T_START T_CONTENT T_EOA T_EOF : N.
  Variable H : bytes -> bytes.
  Variable order : footer -> footer.
  Variables CHUNK TAG CIPHERBUF : N.
  Hypothesis HCHUNK : 0 < CHUNK.
  Hypothesis HTAG : 0 < TAG.
  Variable ks : N -> N -> N.
  Variable tagc : N -> bytes -> bytes.
  Hypothesis Htagc : forall i c, len (tagc i c) = TAG.

  Notation wrun := (wrun FNMAX T_START T_CONTENT T_EOA T_EOF H order).
  Notation ser_blocks := (ser_blocks T_START T_CONTENT T_EOA T_EOF).

  (* calls so far: ops with results rs, none of them finalize / short source; the block stream
     w_out has gone through the encryption writer in ANY pieces (write_all each); flush — which
     only forwards — returns.  Then from the bytes handed down so far (ew_out), the
     unauthenticated fail-safe reader yields w_out exactly, w_out is a sequence of whole blocks,
     and every successful append of size > 0 is there as a complete FileContent block.
     (partial: the last step, "repair of a block stream recovers the data of its complete
     content blocks", belongs to the repair theorems; compression is not modelled.) *)
  Theorem flush_durable_enc ops s rs pieces fuelw es fuel n :
    wrun w_init ops = (s, rs) ->
    Forall (fun x => clean (fst x) (snd x)) (combine ops rs) ->
    concat pieces = w_out s ->
    ew_write_pieces CHUNK CIPHERBUF ks tagc fuelw ew_init pieces = Ok es ->
    len (w_out s) / CHUNK < 2 ^ 32 -> 0 < n -> (N.to_nat (len (w_out s)) < fuel)%nat ->
    fs_read_all CHUNK TAG ks tagc (Cursor (ew_out es)) true fuel 0 n = Ok (w_out s) /\
    exists bl, w_out s = ser_blocks bl /\
      forall id size src v, In (OAppend id size src, Ok v) (combine ops rs) -> size <> 0 ->
        In (BContent id (takeN size src)) bl.
  Proof.
    intros Hr Hc Hp Hw Hbig Hn Hf.
    assert (Hc0 : EwCanon ew_init) by (intros _; reflexivity).
    destruct (ew_write_pieces_inv CHUNK CIPHERBUF HCHUNK ks tagc fuelw pieces ew_init [] es
                (EwInv_init CHUNK CIPHERBUF HCHUNK ks tagc) Hc0 Hw) as [Hinv _].
    cbn [app] in Hinv. rewrite Hp in Hinv.
    split.
    - exact (flush_prefix_unauth CHUNK TAG HCHUNK HTAG ks tagc Htagc es (w_out s) fuel n Hinv Hbig Hn Hf).
    - destruct (wrun_blocks FNMAX T_START T_CONTENT T_EOA T_EOF H order ops w_init s rs Hr Hc) as (bl & Ho & Hb).
      exists bl. split; [exact Ho | exact Hb].
  Qed.

  (* authenticated mode: at least everything in the completed encryption chunks *)
  Theorem flush_durable_enc_auth pieces fuelw es fuel n p :
    concat pieces = p ->
    ew_write_pieces CHUNK CIPHERBUF ks tagc fuelw ew_init pieces = Ok es ->
    len p / CHUNK < 2 ^ 32 -> 0 < n -> (N.to_nat (len p) < fuel)%nat ->
    exists m, fs_read_all CHUNK TAG ks tagc (Cursor (ew_out es)) false fuel 0 n = Ok (takeN m p) /\
      ew_ctr es * CHUNK <= m /\ (len p - 1) / CHUNK * CHUNK <= m /\ m <= len p /\ (len p <= CHUNK -> m = len p).
  Proof.
    intros Hp Hw Hbig Hn Hf.
    assert (Hc0 : EwCanon ew_init) by (intros _; reflexivity).
    destruct (ew_write_pieces_inv CHUNK CIPHERBUF HCHUNK ks tagc fuelw pieces ew_init [] es
                (EwInv_init CHUNK CIPHERBUF HCHUNK ks tagc) Hc0 Hw) as [Hinv Hcan].
    cbn [app] in Hinv. rewrite Hp in Hinv.
    exists (ew_auth_len CHUNK TAG ks tagc es p).
    split; [exact (flush_prefix_auth CHUNK TAG HCHUNK HTAG ks tagc Htagc es p fuel n Hinv Hbig Hn Hf)|].
    destruct (ew_auth_len_bounds CHUNK TAG HCHUNK HTAG ks tagc Htagc es p Hinv) as (H1 & H2 & H3).
    pose proof (canon_ctr CHUNK CIPHERBUF HCHUNK ks tagc es p Hinv Hcan) as Hctr. unfold nfull in Hctr.
    split; [exact H1|]. split; [rewrite <- Hctr; exact H1|]. split; [exact H2|].
    intros Hle. apply H3. rewrite Hctr. apply N.div_small. lia.
  Qed.
End FlushEnc.
