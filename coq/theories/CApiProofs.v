(* CApiProofs.v — proofs about the model of the C interface (CApi.v). *)
From MLA Require Import Limit.
From Coq Require Import ZifyBool ZifyNat ZifyN Lia.
From MLA Require Import Base Stream Blocks Writer CApi.
From MLAGen Require Src.
Open Scope N_scope.

(* ------------------------------------------------------------------ Tie A *)
Lemma status_codes_src : map status_code all_status = map snd Src.MLA_STATUS.
Proof. vm_compute. reflexivity. Qed.
Lemma status_names_src : length all_status = length Src.MLA_STATUS.
Proof. vm_compute. reflexivity. Qed.
Lemma status_code_inj a b : status_code a = status_code b -> a = b.
Proof. destruct a, b; vm_compute; intro E; try reflexivity; discriminate E. Qed.
Lemma nullchecks_src : model_nullchecks = map snd Src.CAPI_NULLCHECKS.
Proof. vm_compute. reflexivity. Qed.

(* ------------------------------------------------------------------ PART A *)
Lemma clamp_pos n : 0 < n -> 0 < clamp_u32 n.
Proof. unfold clamp_u32. destruct (n <? 4294967296); lia. Qed.
Lemma clamp_le n : clamp_u32 n <= n.
Proof. unfold clamp_u32. destruct (n <? 4294967296) eqn:E; lia. Qed.

Lemma takeN_dropN {A} n (l : list A) : takeN n l ++ dropN n l = l.
Proof. apply firstn_skipn. Qed.
Lemma length_dropN {A} n (l : list A) : length (dropN n l) = (length l - N.to_nat n)%nat.
Proof. apply skipn_length. Qed.

(* one iteration of write_all, as an equation (keeps `cbn` away from len / clamp_u32) *)
Definition next_ev (sched : list cbev) (B : bytes) : cbev * list cbev :=
  match sched with [] => (Accept (len B), []) | e :: r => (e, r) end.
Lemma write_all_S f sched b0 buf got :
  write_all (S f) sched (b0 :: buf) got =
  match cb_write (fst (next_ev sched (b0 :: buf))) (b0 :: buf) with
  | (WOk n, acc) => if n =? 0 then (snd (next_ev sched (b0 :: buf)), got, Err EIo)
                    else write_all f (snd (next_ev sched (b0 :: buf))) (dropN n (b0 :: buf)) (got ++ acc)
  | (WInterrupted, _) => write_all f (snd (next_ev sched (b0 :: buf))) (b0 :: buf) got
  | (WErr, _) => (snd (next_ev sched (b0 :: buf)), got, Err EIo)
  end.
Proof.
  cbn [write_all]. unfold next_ev. destruct sched as [|e r]; cbn [fst snd];
    match goal with |- context [cb_write ?e ?B] => destruct (cb_write e B) as [[[|p]| |] acc] end; reflexivity.
Qed.

Lemma cb_write_cases ev B :
  (exists k, ev = Accept k /\ cb_write ev B = (WOk (N.min k (clamp_u32 (len B))), takeN (N.min k (clamp_u32 (len B))) B)) \/
  (exists c, ev = FailCb c /\ c = 0 /\ cb_write ev B = (WOk 0, [])) \/
  (exists c, ev = FailCb c /\ c = EINTR /\ cb_write ev B = (WInterrupted, [])) \/
  (exists c, ev = FailCb c /\ c <> 0 /\ c <> EINTR /\ cb_write ev B = (WErr, [])).
Proof.
  destruct ev as [k|c]; [left; eexists; split; reflexivity|right].
  unfold cb_write. destruct (c =? 0) eqn:E0; [left; exists c; repeat split; lia|right].
  destruct (c =? EINTR) eqn:E4; [left|right]; exists c; repeat split; lia.
Qed.

(* write_all returns Ok only if every invocation it consumed was benign (accepted at least
   one byte, or reported EINTR), and then the callback has received exactly the buffer *)
Lemma write_all_ok_inv fuel : forall sched buf got sched' got',
  write_all fuel sched buf got = (sched', got', Ok tt) ->
  exists used, sched = used ++ sched' /\ forallb benign used = true /\ got' = got ++ buf.
Proof.
  induction fuel as [|f IH]; intros sched buf got sched' got' HW.
  - destruct buf; cbn [write_all] in HW; inversion HW; subst. exists []. rewrite app_nil_r. auto.
  - destruct buf as [|b0 buf].
    { cbn [write_all] in HW. inversion HW; subst. exists []. rewrite app_nil_r. auto. }
    rewrite write_all_S in HW. set (B := b0 :: buf) in *.
    assert (HN : (sched = [] /\ next_ev sched B = (Accept (len B), [])) \/
                 (exists e r, sched = e :: r /\ next_ev sched B = (e, r))).
    { destruct sched as [|e r]; [left; auto|right; eauto]. }
    destruct (cb_write_cases (fst (next_ev sched B)) B) as [(k & Ek & EC)|[(c & Ek & Ec & EC)|[(c & Ek & Ec & EC)|(c & Ek & E0 & E4 & EC)]]];
      rewrite EC in HW.
    + destruct (N.min k (clamp_u32 (len B)) =? 0) eqn:EZ; [inversion HW|].
      apply IH in HW. destruct HW as (used & HU & HB & HG).
      assert (HGG : got' = got ++ B) by (rewrite HG, <- app_assoc, takeN_dropN; reflexivity).
      destruct HN as [[HS HE]|(e & r & HS & HE)]; rewrite HE in *; cbn [fst snd] in *.
      * destruct used; [|destruct sched'; discriminate HU]. cbn in HU. subst.
        exists []. auto.
      * subst. exists (Accept k :: used). repeat split; auto.
        cbn [forallb benign]. rewrite HB. assert (0 <? k = true) by lia. rewrite H. reflexivity.
    + rewrite N.eqb_refl in HW. inversion HW.
    + apply IH in HW. destruct HW as (used & HU & HB & HG).
      destruct HN as [[HS HE]|(e & r & HS & HE)]; rewrite HE in *; cbn [fst snd] in *; [discriminate Ek|].
      subst. exists (FailCb EINTR :: used). repeat split; auto.
    + inversion HW.
Qed.

(* a callback failure report other than EINTR that write_all consumes makes it return Err *)
Corollary write_all_reports_failure fuel sched buf got sched' got' used c :
  write_all fuel sched buf got = (sched', got', Ok tt) ->
  sched = used ++ sched' -> In (FailCb c) used -> c <> 0 -> c = EINTR.
Proof.
  intros HW HS HI HC. apply write_all_ok_inv in HW. destruct HW as (u & HU & HB & _).
  assert (u = used).
  { rewrite HS in HU. apply (f_equal (@length cbev)) in HU as HL. rewrite !app_length in HL.
    assert (length used = length u) by lia.
    clear - HU H. revert u HU H. induction used; intros [|x u] HU HL; cbn in *; try discriminate; auto.
    inversion HU. f_equal. apply IHused; auto. }
  subst u. rewrite forallb_forall in HB. apply HB in HI. cbn in HI. lia.
Qed.

(* every acceptance schedule without failure delivers exactly the buffer (partial writes,
   one byte at a time, EINTR retries: any mixture) *)
Lemma write_all_delivers fuel : forall sched buf got,
  forallb benign sched = true -> (length sched + length buf < fuel)%nat ->
  exists sched', write_all fuel sched buf got = (sched', got ++ buf, Ok tt).
Proof.
  induction fuel as [|f IH]; intros sched buf got HB HF; [lia|].
  destruct buf as [|b0 buf]; [cbn [write_all]; exists sched; rewrite app_nil_r; reflexivity|].
  rewrite write_all_S. set (B := b0 :: buf) in *.
  assert (HLB : 0 < len B) by (unfold len, B; cbn [length]; lia).
  assert (HLL : length B = S (length buf)) by reflexivity.
  pose proof (clamp_pos _ HLB) as HC. pose proof (clamp_le (len B)) as HL.
  assert (HN : (sched = [] /\ next_ev sched B = (Accept (len B), [])) \/
               (exists e r, sched = e :: r /\ next_ev sched B = (e, r))).
  { destruct sched as [|e r]; [left; auto|right; eauto]. }
  assert (HBE : benign (fst (next_ev sched B)) = true /\ forallb benign (snd (next_ev sched B)) = true /\
                (length (snd (next_ev sched B)) <= length sched)%nat /\
                (fst (next_ev sched B) = FailCb EINTR -> length (snd (next_ev sched B)) < length sched)%nat).
  { destruct HN as [[HS HE]|(e & r & HS & HE)]; rewrite HE; cbn [fst snd]; subst sched.
    - split; [cbn [benign]; lia|]. split; [reflexivity|]. split; [cbn [length]; lia|]. intro E; discriminate E.
    - cbn [forallb] in HB. apply andb_prop in HB. destruct HB. repeat split; auto; cbn [length]; lia. }
  destruct HBE as (HB1 & HB2 & HLn & HLi).
  destruct (cb_write_cases (fst (next_ev sched B)) B) as [(k & Ek & EC)|[(c & Ek & Ec & EC)|[(c & Ek & Ec & EC)|(c & Ek & E0 & E4 & EC)]]];
    rewrite EC; rewrite Ek in HB1; cbn [benign] in HB1.
  - assert (EZ : N.min k (clamp_u32 (len B)) =? 0 = false) by lia. rewrite EZ.
    destruct (IH (snd (next_ev sched B)) (dropN (N.min k (clamp_u32 (len B))) B) (got ++ takeN (N.min k (clamp_u32 (len B))) B)) as (s' & HS); auto.
    { rewrite length_dropN. unfold len in *. lia. }
    exists s'. rewrite HS, <- app_assoc, takeN_dropN. reflexivity.
  - subst c. discriminate HB1.
  - destruct (IH (snd (next_ev sched B)) B got) as (s' & HS); auto.
    { subst c. specialize (HLi Ek). lia. }
    exists s'. exact HS.
  - lia.
Qed.

Corollary write_all_sched_delivers sched buf got :
  forallb benign sched = true ->
  exists sched', write_all (write_all_fuel sched buf) sched buf got = (sched', got ++ buf, Ok tt).
Proof. intro HB. apply write_all_delivers; auto. unfold write_all_fuel. lia. Qed.

(* write_all never crashes, whatever the callbacks do (in-contract callbacks: a callback
   reporting more bytes than it was shown is outside the model, see Accept in CApi.v) *)
Lemma write_all_no_crash fuel : forall sched buf got s' g' c,
  write_all fuel sched buf got <> (s', g', Crash c).
Proof.
  induction fuel as [|f IH]; intros sched buf got s' g' c; destruct buf as [|b0 buf]; try (cbn [write_all]; congruence).
  rewrite write_all_S.
  destruct (cb_write (fst (next_ev sched (b0 :: buf))) (b0 :: buf)) as [[n| |] acc]; try congruence.
  - destruct (n =? 0); [congruence|apply IH].
  - apply IH.
Qed.

(* REFUTED PART (finding): a callback that reports failure code 4 is retried, the call
   goes on and returns Ok: the failure report is lost *)
Example write_all_eintr_swallowed :
  exists sched buf, In (FailCb EINTR) sched /\ reports_failure (FailCb EINTR) = true /\
    write_all (write_all_fuel sched buf) sched buf [] = ([], buf, Ok tt).
Proof. exists [Accept 1; FailCb EINTR; Accept 2], [10; 11; 12]. vm_compute. auto. Qed.

(* ------------------------------------------------------------------ PART B *)
Section Proofs.
  Context {LIM : Limit}.
  Variable FNMAX : N.
  Variables T_START T_CONTENT T_EOA T_EOF : N.
  Variable H : bytes -> bytes.
  Variable order : footer -> footer.

  Notation wstep := (Writer.wstep FNMAX T_START T_CONTENT T_EOA T_EOF H order).
  Notation wrun := (Writer.wrun FNMAX T_START T_CONTENT T_EOA T_EOF H order).
  Notation step := (capi_step FNMAX T_START T_CONTENT T_EOA T_EOF H order true).
  Notation step_old := (capi_step FNMAX T_START T_CONTENT T_EOA T_EOF H order false).
  Notation run := (capi_run FNMAX T_START T_CONTENT T_EOA T_EOF H order true).
  Notation wcall := (wcall FNMAX T_START T_CONTENT T_EOA T_EOF H order).

  Ltac break :=
    repeat match goal with
           | |- context [match ?x with _ => _ end] => destruct x eqn:?
           | |- context [if ?x then _ else _] => destruct x eqn:?
           end.

  (* the writer operations the C API issues never hit a Crash site *)
  Lemma wstep_no_crash w o c : (forall n sz sr, o <> OAdd n sz sr) -> snd (wstep w o) <> Crash c.
  Proof.
    intro HA. destruct o; cbn [Writer.wstep]; try (exfalso; eapply HA; reflexivity);
      unfold w_start, w_append, w_end, w_finalize_with; break; cbn; congruence.
  Qed.

  Lemma wcall_no_crash s i ar op io k1 k2 :
    (forall n sz sr, op <> OAdd n sz sr) ->
    exists s' st, wcall s i ar op io k1 k2 = (s', Ret st).
  Proof.
    intro HA. unfold CApi.wcall. pose proof (wstep_no_crash (a_w ar) op) as HC.
    destruct (wstep (a_w ar) op) as [w' [v|e|c]].
    - break; do 2 eexists; reflexivity.
    - do 2 eexists; reflexivity.
    - exfalso. apply (HC c HA). reflexivity.
  Qed.

  (* no entry point crashes, in any state, with any arguments, any callback behaviour *)
  Theorem capi_step_no_crash s c : exists s' st, step s c = (s', Ret st).
  Proof.
    destruct c; cbn [capi_step].
    all: try solve [break; eauto].
    - (* file_new *) break; eauto; apply wcall_no_crash; congruence.
    - (* append *) break; eauto; apply wcall_no_crash; congruence.
    - (* file_close *) break; eauto; apply wcall_no_crash; congruence.
    - (* close *)
      destruct a; eauto. destruct (sget (c_ar s) (RSlot i)) eqn:E; eauto.
      pose proof (wstep_no_crash (a_w c) OFinalize) as HC.
      destruct (wstep (a_w c) OFinalize) as [w' [v|e|cc]].
      + break; eauto.
      + eauto.
      + exfalso. eapply HC; [congruence|reflexivity].
  Qed.

  Definition is_ret (r : cres) : bool := match r with Ret _ => true | CCrash _ => false end.

  Theorem capi_no_crash cs : forall s, forallb is_ret (snd (run s cs)) = true.
  Proof.
    induction cs as [|c r IH]; intro s; [reflexivity|].
    cbn [capi_run]. destruct (capi_step_no_crash s c) as (s1 & st & E). rewrite E.
    specialize (IH s1). destruct (run s1 r) as [s2 xs]. cbn in *. exact IH.
  Qed.

  (* a call on a NULL / never assigned / cleared handle (or with a NULL pointer argument)
     returns BadAPIArgument and leaves the whole state as it was *)
  Theorem capi_null_unchanged s c :
    null_call s c = true -> step s c = (s, Ret BadAPIArgument).
  Proof.
    unfold null_call, dead, isnull. destruct c; cbn [capi_step]; intro HN.
    all: try solve [break; try reflexivity; cbn in *; try discriminate;
                    repeat match goal with H : sget _ _ = _ |- _ => rewrite H in * end; cbn in *; discriminate].
    - destruct cfg as [|ci]; [reflexivity|]. destruct out as [|oi]; [reflexivity|]. cbn [sget] in *.
      destruct wcb, fcb; try reflexivity. destruct (c_cfg s ci); [cbn in HN; discriminate HN|reflexivity].
    - destruct cfg as [|ci]; [reflexivity|]. cbn [sget] in *.
      destruct rcb, scb, fcb; try reflexivity. destruct (c_rcfg s ci); [cbn in HN; discriminate HN|reflexivity].
  Qed.

  (* before the repair of D16 the same program crashed: the model has a Crash exactly there *)
  Example D16_old_code_crashes :
    exists cs, forallb is_ret (snd (capi_run FNMAX T_START T_CONTENT T_EOA T_EOF H order false (c_init) cs)) = false.
  Proof.
    exists [CConfigNew (RSlot 0); CAddPub (RSlot 0) (KValid 1);
            CArchiveNew (RSlot 0) true true (RSlot 0) IoOk; CArchiveNew (RSlot 0) true true (RSlot 1) IoOk].
    reflexivity.
  Qed.

  (* a callback failure (other than in brotli's stream finish, see below) never leaves a
     call that performs output with status Success *)
  Lemma wcall_fail_not_success s i ar op ph k1 k2 s' :
    wcall s i ar op (IoFail ph) k1 k2 = (s', Ret Success) ->
    (match op with OAppend _ size _ => size =? 0 | _ => false end) = true.
  Proof.
    unfold CApi.wcall. destruct (wstep (a_w ar) op) as [w' [v|e|c]].
    - destruct (match op with OAppend _ size _ => size =? 0 | _ => false end); [reflexivity|].
      rewrite orb_true_r. intro E; inversion E.
    - intro E; inversion E. destruct e; discriminate.
    - intro E; inversion E.
  Qed.

  Theorem capi_cb_failure s c s' ph :
    step s c = (s', Ret Success) -> io_of c = IoFail ph -> no_io_call c = true.
  Proof.
    destruct c; cbn [capi_step io_of no_io_call]; intros HS HI; try reflexivity; subst.
    - (* archive_new *) revert HS. break; intro HS; inversion HS. destruct ph; discriminate.
    - (* file_new *) revert HS. break; intro HS; try (inversion HS; fail).
      apply wcall_fail_not_success in HS. discriminate HS.
    - (* append *) revert HS. break; intro HS; try (inversion HS; fail).
      apply wcall_fail_not_success in HS. exact HS.
    - (* flush *) revert HS. break; intro HS; inversion HS.
    - (* file_close *) revert HS. break; intro HS; try (inversion HS; fail).
      apply wcall_fail_not_success in HS. discriminate HS.
    - (* close *) revert HS. destruct a as [|i]; [intro HS; inversion HS|]. cbn [sget].
      destruct (c_ar s i) as [ar|]; [|intro HS; inversion HS].
      destruct (wstep (a_w ar) OFinalize) as [w' [v|e|cc]]; try (intro HS; inversion HS; fail).
      + destruct (a_poison ar); [intro HS; inversion HS|].
        destruct ph; intro HS; inversion HS.
      + intro HS; inversion HS. destruct e; discriminate.
  Qed.

  (* ---- refinement: successful C calls drive the writer through the same wop sequence ---- *)
  Lemma wrun_app ops : forall w o,
    wrun w (ops ++ [o]) =
    (fst (wstep (fst (wrun w ops)) o), snd (wrun w ops) ++ [snd (wstep (fst (wrun w ops)) o)]).
  Proof.
    induction ops as [|a r IH]; intros w o; cbn [app Writer.wrun fst snd].
    - destruct (wstep w o). reflexivity.
    - destruct (wstep w a) as [w1 x]. rewrite IH. destruct (wrun w1 r). reflexivity.
  Qed.

  Definition good_arch (ar : carch) : Prop :=
    a_poison ar = false ->
    fst (wrun w_init (a_ops ar)) = a_w ar /\ all_ok (snd (wrun w_init (a_ops ar))) = true.
  Definition good_done (ops : list wop) : Prop :=
    all_ok (snd (wrun w_init ops)) = true /\ exists ops0, ops = ops0 ++ [OFinalize].
  Definition Inv (s : cstate) : Prop :=
    (forall j ar, c_ar s j = Some ar -> good_arch ar) /\ Forall good_done (c_done s).

  Lemma all_ok_app a b : all_ok (a ++ b) = all_ok a && all_ok b.
  Proof. apply forallb_app. Qed.

  Lemma good_extend ar op w' v :
    good_arch ar -> a_poison ar = false -> wstep (a_w ar) op = (w', Ok v) ->
    good_arch (mkA w' false (a_ops ar ++ [op])).
  Proof.
    intros HG HP HW _. destruct (HG HP) as [H1 H2]. cbn [a_ops a_w].
    rewrite wrun_app. cbn [fst snd]. rewrite H1, HW. cbn [fst snd]. split; auto.
    rewrite all_ok_app, H2. reflexivity.
  Qed.

  Lemma Inv_set_ar s i v : Inv s -> (forall ar, v = Some ar -> good_arch ar) -> Inv (set_ar s i v).
  Proof.
    intros [HA HD] HV. split; auto. cbn. intros j ar. unfold sset. destruct (j =? i); auto. eauto.
  Qed.

  Lemma Inv_wcall s i ar op io k1 k2 s' st :
    Inv s -> c_ar s i = Some ar ->
    (forall s0 v, Inv s0 -> Inv (k1 s0 v)) ->
    wcall s i ar op io k1 k2 = (s', st) -> Inv s'.
  Proof.
    intros HI HA HK. unfold CApi.wcall.
    destruct (wstep (a_w ar) op) as [w' [v|e|c]] eqn:EW; try (intro E; inversion E; subst; exact HI).
    destruct (match op with OAppend _ size _ => size =? 0 | _ => false end); [intro E; inversion E; subst; exact HI|].
    destruct (a_poison ar || match io with IoOk => false | IoFail _ => true end) eqn:EP; intro E; inversion E; subst.
    - apply Inv_set_ar; auto. intros a0 Ea. inversion Ea. intro HP. discriminate HP.
    - apply HK. apply Inv_set_ar; auto. intros a0 Ea. inversion Ea. subst.
      apply orb_false_elim in EP. destruct EP as [EP _].
      eapply good_extend; eauto. destruct HI as [HI _]. eauto.
  Qed.

  Lemma Inv_other s f : (c_ar (f s) = c_ar s) -> c_done (f s) = c_done s -> Inv s -> Inv (f s).
  Proof. intros E1 E2 [HA HD]. split; rewrite ?E1, ?E2; auto. Qed.

  Theorem capi_step_inv s c s' r : Inv s -> step s c = (s', r) -> Inv s'.
  Proof.
    intro HI. destruct c; cbn [capi_step].
    all: try solve [break; intro E; inversion E; subst; auto;
                    try (apply (Inv_other s (fun s => set_cfg s _ _)); auto);
                    try (apply (Inv_other s (fun s => set_rcfg s _ _)); auto)].
    - (* archive_new *)
      break; intro E; inversion E; subst; auto;
        try (apply (Inv_other s (fun s => set_cfg s _ _)); auto; fail).
      apply Inv_set_ar. { apply (Inv_other s (fun s => set_cfg s _ _)); auto. }
      intros ar Ea. inversion Ea. intros _. cbn. auto.
    - (* file_new *)
      break; try (intro E; inversion E; subst; exact HI).
      apply Inv_wcall; auto; intros s0 v H0; apply (Inv_other s0 (fun s => set_fh s _ _)); auto.
    - (* append *)
      break; try (intro E; inversion E; subst; exact HI). apply Inv_wcall; auto.
    - (* file_close *)
      break; try (intro E; inversion E; subst; exact HI).
      apply Inv_wcall; auto; apply (Inv_other s (fun s => set_fh s _ _)); auto.
    - (* close *)
      destruct a as [|i]; [intro E; inversion E; subst; exact HI|]. cbn [sget].
      destruct (c_ar s i) as [ar|] eqn:EA; [|intro E; inversion E; subst; exact HI].
      assert (HC : Inv (set_ar s i None)) by (apply Inv_set_ar; auto; intros ? Ea; discriminate Ea).
      destruct (wstep (a_w ar) OFinalize) as [w' [v|e|cc]] eqn:EW; try (intro E; inversion E; subst; exact HC).
      destruct (a_poison ar) eqn:EP; [intro E; inversion E; subst; exact HC|].
      destruct io as [|ph]; [|destruct ph; intro E; inversion E; subst; exact HC].
      intro E; inversion E; subst. destruct HC as [H1 H2]. split; [exact H1|].
      cbn [c_done push_done]. apply Forall_app. split; [exact H2|]. constructor; [|constructor].
      destruct HI as [HI _]. destruct (HI _ _ EA EP) as [G1 G2]. split; [|eauto].
      rewrite wrun_app. cbn [snd]. rewrite all_ok_app, G2, G1, EW. reflexivity.
  Qed.

  Lemma Inv_init : Inv c_init.
  Proof. split; [intros j ar E; discriminate E|constructor]. Qed.

  Lemma capi_run_inv cs : forall s, Inv s -> Inv (fst (run s cs)).
  Proof.
    induction cs as [|c r IH]; intros s HI; [exact HI|]. cbn [capi_run].
    destruct (step s c) as [s1 x] eqn:E. specialize (IH s1 (capi_step_inv _ _ _ _ HI E)).
    destruct (run s1 r). exact IH.
  Qed.

  (* Every archive the C interface closed with Success (no callback failure in that call) was
     produced by running the Rust writer model on the sequence of operations of the C calls that
     returned Success on it, every one of them accepted by the writer, ending with finalize;
     and every live, unpoisoned archive handle holds exactly the writer state of that sequence. *)
  Theorem capi_refines_rust cs :
    let s := fst (run c_init cs) in
    Forall (fun ops => all_ok (snd (wrun w_init ops)) = true /\ exists ops0, ops = ops0 ++ [OFinalize]) (c_done s) /\
    (forall j ar, c_ar s j = Some ar -> a_poison ar = false ->
       fst (wrun w_init (a_ops ar)) = a_w ar /\ all_ok (snd (wrun w_init (a_ops ar))) = true).
  Proof.
    cbn zeta. destruct (capi_run_inv cs c_init Inv_init) as [HA HD]. split; [exact HD|].
    intros j ar E P. exact (HA j ar E P).
  Qed.

  (* the ghost history is what it claims to be: a successful C call appends exactly its own
     operation, a call that does not return Success appends nothing *)
  Theorem capi_success_is_wstep s i ar op io k1 k2 s' :
    wcall s i ar op io k1 k2 = (s', Ret Success) ->
    (match op with OAppend _ size _ => size =? 0 | _ => false end) = false ->
    exists w' v, wstep (a_w ar) op = (w', Ok v) /\ io = IoOk /\ a_poison ar = false /\
                 s' = k1 (set_ar s i (Some (mkA w' false (a_ops ar ++ [op])))) v.
  Proof.
    unfold CApi.wcall. intros HW HS. rewrite HS in HW.
    destruct (wstep (a_w ar) op) as [w' [v|e|c]]; try (inversion HW; fail).
    - destruct (a_poison ar) eqn:EP; [inversion HW|]. destruct io; [|inversion HW].
      cbn in HW. inversion HW. eauto 8.
    - inversion HW. destruct e; discriminate.
  Qed.
End Proofs.
