(* RepairSizeWrap.v — `repair ... <> Err EDeser` (finalize did not fail with
   SerializationError) DERIVED from the size of the input, for the sources the property files
   use (RepairSize.repair_no_ser_error; fits_limit n := 8 + 3 * n <= min lim (2^32 - 1)):
   a source refining a cursor over a cut `takeN n x`; the translated convert_to_archive
   (`_src` theorems); the fail-safe decryptor over a cursor on (a cut of) the wire written by
   the encryption writer. *)
From MLA Require Import Limit.
From MLA Require Import Base Stream Blocks Writer Repair RepairSpec RepairPure
  RepairProofs2 RepairProofs5 RepairProofs6 EncLayer EncLayerProofs EncAuth EncAuthFs EncAuthC
  EncAuthTrunc EncWriter EncWriterProofs Inst Run ComposeRdOnly ComposeRepair RepairMask RepairSize
  SrcTie2 SrcTie3Repair SrcTie3RepairLoop.
From MLAGen Require Src2 Src3r.
From Coq Require Import ZifyBool ZifyNat ZifyN.
Open Scope N_scope.

Section Plain.
  Context {LIM : Limit}.
  Variables FNMAX CACHE T_START T_CONTENT T_EOA T_EOF : N.
  Variable H : bytes -> bytes.
  Notation repair := (repair FNMAX CACHE T_START T_CONTENT T_EOA T_EOF H).

  (* a source refining a cursor over the cut at n of any byte string *)
  Lemma repair_no_ser_cut S (x : bytes) n R fuel s0 :
    Refines S (takeN n x) R -> R s0 0 -> fits_limit n -> repair S fuel s0 w_init <> Err EDeser.
  Proof.
    intros HR H0 Hf. apply (repair_no_ser_refines FNMAX CACHE T_START T_CONTENT T_EOA T_EOF H S _ R fuel s0 HR H0).
    apply (fits_limit_mono _ n); [rewrite len_takeN; lia | exact Hf].
  Qed.

  (* the translated convert_to_archive returns SerializationError only where the model does *)
  Lemma conv_no_ser S fuel s0 : 0 < CACHE -> RdBounded S ->
    repair S fuel s0 w_init <> Err EDeser ->
    snd (Src3r.convert_to_archive FNMAX CACHE T_START T_CONTENT T_EOA T_EOF H (footer_ser (fun f => f)) (fun _ => Ok tt) S
           (block_from FNMAX T_START T_CONTENT T_EOA T_EOF S) fuel s0 aw_init) <> Err EDeser.
  Proof.
    intros HC HB Hne.
    pose proof (convert_to_archive_sim_init FNMAX CACHE T_START T_CONTENT T_EOA T_EOF H S HC HB fuel s0) as Hs.
    destruct (repair S fuel s0 w_init) as [[[st u] o]|e|c].
    - destruct Hs as (l & e & -> & _). discriminate.
    - destruct Hs as (l & ->). cbn [snd]. intros [= ->]. apply Hne. reflexivity.
    - destruct Hs as (l & c' & ->). discriminate.
  Qed.
End Plain.

Section Enc.
  Context {LIM : Limit}.
  Variables FNMAX CACHE T_START T_CONTENT T_EOA T_EOF : N.
  Variable H : bytes -> bytes.
  Variables CHUNK TAG CIPHERBUF : N.
  Hypothesis HCHUNK : 0 < CHUNK.
  Variable ks : N -> N -> N.
  Variable tagc : N -> bytes -> bytes.
  Hypothesis Htagc : forall i c, len (tagc i c) = TAG.
  Notation repair := (repair FNMAX CACHE T_START T_CONTENT T_EOA T_EOF H).
  Notation FsEnc := (FsEnc CHUNK TAG ks tagc).
  Notation fs_open := (fs_open CHUNK TAG ks).
  Notation body := (body T_START T_CONTENT T_EOA T_EOF).

  (* the fail-safe decryptor over a cursor on w, from the state fs_open returns *)
  Lemma fsenc_no_ser unauth w fuel es b :
    len w / (CHUNK + TAG) + 2 <= 2 ^ 32 -> fs_open (Cursor w) 0 = (es, Ok b) ->
    fits_limit (len (fs_output CHUNK TAG ks tagc unauth w)) ->
    repair (FsEnc unauth (Cursor w)) fuel es w_init <> Err EDeser.
  Proof.
    intros Hbig Ho Hf.
    destruct (fsenc_rd_refines CHUNK TAG HCHUNK ks tagc unauth w Hbig) as (I & HR & es' & b' & Ho' & HI).
    rewrite Ho in Ho'. injection Ho' as <- _.
    exact (repair_no_ser_rd FNMAX CACHE T_START T_CONTENT T_EOA T_EOF H _ _ I fuel es HR HI Hf).
  Qed.

  (* ... on any cut of the wire the encryption writer produced from plain = body bl ++ trailer:
     the decryptor delivers at most len plain + TAG bytes *)
  Lemma enc_cut_no_ser bl trailer pieces fuelw s :
    concat pieces = body bl ++ trailer ->
    ew_archive CHUNK CIPHERBUF ks tagc fuelw pieces = Ok s ->
    len (ew_out s) / (CHUNK + TAG) + 2 <= 2 ^ 32 ->
    fits_limit (len (body bl ++ trailer) + TAG) ->
    forall n unauth fuel es b,
      fs_open (Cursor (takeN n (ew_out s))) 0 = (es, Ok b) ->
      repair (FsEnc unauth (Cursor (takeN n (ew_out s)))) fuel es w_init <> Err EDeser.
  Proof.
    intros Hp Hw Hbig Hf n unauth fuel es b Ho.
    assert (Hcb : len (takeN n (ew_out s)) / (CHUNK + TAG) + 2 <= 2 ^ 32).
    { eapply N.le_trans; [|exact Hbig]. apply N.add_le_mono_r. apply N.div_le_mono; [lia|].
      rewrite len_takeN. lia. }
    apply (fsenc_no_ser unauth _ fuel es b Hcb Ho).
    apply (fits_limit_mono _ (len (body bl ++ trailer) + TAG)); [|exact Hf].
    pose proof (prefix_len _ _ (fs_output_cut T_START T_CONTENT T_EOA T_EOF CHUNK TAG CIPHERBUF HCHUNK ks tagc Htagc
                                  bl trailer pieces Hp fuelw s Hw unauth n)) as Hl.
    rewrite app_assoc, len_app in Hl.
    assert (Hj : len (junk CHUNK ks tagc (body bl ++ trailer)) <= TAG).
    { unfold EncAuthTrunc.junk, junk_of. rewrite len_xor_from', len_takeN, Htagc. lia. }
    lia.
  Qed.

  (* ... and on the whole wire *)
  Lemma enc_whole_no_ser bl trailer pieces fuelw s :
    concat pieces = body bl ++ trailer ->
    ew_archive CHUNK CIPHERBUF ks tagc fuelw pieces = Ok s ->
    len (ew_out s) / (CHUNK + TAG) + 2 <= 2 ^ 32 ->
    fits_limit (len (body bl ++ trailer) + TAG) ->
    forall unauth fuel es b,
      fs_open (Cursor (ew_out s)) 0 = (es, Ok b) ->
      repair (FsEnc unauth (Cursor (ew_out s))) fuel es w_init <> Err EDeser.
  Proof.
    intros Hp Hw Hbig Hf unauth fuel es b Ho.
    pose proof (enc_cut_no_ser bl trailer pieces fuelw s Hp Hw Hbig Hf (len (ew_out s)) unauth fuel) as Hx.
    rewrite takeN_all in Hx by lia. exact (Hx es b Ho).
  Qed.
End Enc.
