(* ComposeFsComp.v — the repair loop over the fail-safe decompression reader.

   Under the DecoderLaws (CompFailSafeProofs.v: the accepted, explicit premise about brotli's
   streaming decoder) the reader `FsComp` over ANY inner source that delivers the available
   bytes w ⊑ wire_of tail bs in order (short reads allowed) delivers, to ANY sequence of reads
   of positive sizes, consecutive bytes of  b = fs_spec D bs w  (the plaintext of the blocks
   wholly available, then what D makes of the partial one) and then ends — with Ok(0), which
   it repeats, or with an error.  With the ghost stream of RepairMask.v that is a read-only
   refinement of b (`fscomp_mask_refines`), so the theorems about `repair` transfer:
     repair_fscomp_exact   repair over the decompressor returns Ok, the SAME output archive
                           and unfinished list as over a cursor on b: exactly the files and
                           content bytes present in b (`recovered bl (len b)`). *)
From MLA Require Import Limit.
From MLA Require Import Base Stream Blocks Writer Repair RepairSpec RepairPure
  RepairProofs2 RepairProofs5 RepairProofs6 EncAuthFs ComposeRdOnly RepairMask
  CompFailSafe CompFailSafeProofs CompFailSafeStep CompFailSafeSticky FsCompStream.
From Coq Require Import ZifyBool ZifyNat ZifyN.
Open Scope N_scope.

(* a read-only refinement is a source in the sense of CompFailSafeStep *)
Lemma rdrefines_src (S : Stream) w I : RdRefines (rd S) w I -> SrcRefines S w I.
Proof.
  intros HR s p n HI. destruct (HR s p n HI) as (s' & k & Hrd & Hk & Hb & Hz & HI').
  split; [lia|]. exists s', k. auto.
Qed.

Section FsCompRefines.
  Context {LIM : Limit}.
  Variables BLOCK FSBUF : N.
  Hypothesis HFSBUF : 0 < FSBUF.
  Hypothesis HBLOCK32 : BLOCK < 2 ^ 32.
  Variable dstate : Type.
  Variable dinit : dstate.
  Variable dstep : dstate -> bytes -> N -> dresult * N * bytes * dstate.
  Variable D : bytes -> bytes.
  Variable fin : bytes -> bool.
  Hypothesis L : DecoderLaws dinit dstep D fin.
  Variable tail : bytes.
  Hypothesis Htail : dead D fin tail.
  Variable Sin : Stream.
  Variable w : bytes.
  Variable Rin : st Sin -> N -> Prop.
  Hypothesis HS : SrcRefines Sin w Rin.
  Variable bs : list (bytes * bytes).
  Hypothesis Hbs : Forall (good_block BLOCK D fin) bs.
  Hypothesis Hw : prefix w (wire_of tail bs).
  Variable pfuel : nat.
  Hypothesis Hpf : (N.to_nat (2 * len w + 1) < pfuel)%nat.

  Notation good := (good_block BLOCK D fin).
  Notation Inv := (Inv BLOCK FSBUF dstate dinit dstep Sin w Rin).
  Notation todo := (todo D w).
  Notation FsC := (FsComp BLOCK FSBUF dstate dinit dstep pfuel Sin).

  (* everything the reader will ever deliver *)
  Definition fsc_out : bytes := fs_spec D bs w.

  Definition InD (d : fsdata dstate Sin) (q : N) : Prop :=
    exists bs' cin cout q', Forall good bs' /\ Inv d cin cout q' /\
      prefix (cin ++ dropN q' w) (wire_of tail bs') /\ todo bs' cin cout q' = dropN q fsc_out.

  (* q bytes of fsc_out have been delivered *)
  Definition JM (s : st (Mask FsC)) (q : N) : Prop :=
    q <= len fsc_out /\
    match s with
    | None => q = len fsc_out
    | Some (FReady i) => Rin i 0 /\ q = 0
    | Some (FInData d) => InD d q
    | Some FEmpty => False
    end.

  Lemma InD_init i : Rin i 0 -> InD (mkFs [] 0 dinit 0 i) 0.
  Proof.
    intros HR. exists bs, [], [], 0. split; [exact Hbs|]. split.
    - exact (Inv_init BLOCK FSBUF HFSBUF HBLOCK32 dstate dinit dstep D fin L Sin w Rin i HR).
    - split; [exact Hw | reflexivity].
  Qed.

  Lemma read_indata d q n : q <= len fsc_out -> InD d q -> n <> 0 ->
    exists s' k, mask_rd FsC (Some (FInData d)) n = (s', Ok (sliceN q k fsc_out)) /\ k <= n /\
                 q + k <= len fsc_out /\ (k = 0 -> n = 0 \/ q = len fsc_out) /\ JM s' (q + k).
  Proof.
    intros Hq (bs' & cin & cout & q' & Hbs' & HI & HX & Htodo) Hn.
    unfold mask_rd. destruct (N.eqb_spec n 0) as [?|_]; [contradiction|]. cbn [FsComp rd].
    destruct (fs_read_spec2 BLOCK FSBUF HFSBUF HBLOCK32 dstate dinit dstep D fin L tail Htail Sin w Rin HS
                pfuel d bs' cin cout q' n Hbs' HI HX ltac:(lia)) as (f' & r & -> & Hout).
    { pose proof (mu_bound BLOCK FSBUF HFSBUF HBLOCK32 dstate dinit dstep D fin L w cin q'). lia. }
    assert (Hld : len (dropN q fsc_out) = len fsc_out - q) by apply len_dropN.
    destruct Hout as [out d2 bs2 cin2 cout2 q2 -> Hne -> Hbs2 HI2 HX2 Ht2 Hlen
                     | d2 bs2 cin2 cout2 q2 -> -> Hbs2 HI2 HX2 Ht Ht2
                     | Hr Ht].
    - (* data *)
      rewrite Htodo in Ht2.
      assert (Hlo : 0 < len out) by (apply nonnil_len_pos; exact Hne).
      assert (Hk : q + len out <= len fsc_out).
      { rewrite Ht2, len_app in Hld. lia. }
      exists (Some (FInData d2)), (len out). split.
      { destruct out as [|x out']; [congruence|]. do 2 f_equal. unfold sliceN. rewrite Ht2. symmetry; apply takeN_len_app. }
      split; [exact Hlen|]. split; [exact Hk|]. split; [lia|]. split; [exact Hk|].
      exists bs2, cin2, cout2, q2. repeat (split; [assumption|]).
      rewrite <- dropN_dropN, Ht2. symmetry; apply dropN_len_app.
    - (* end of the stream, Ok(0): the reader stays in the invariant *)
      rewrite Htodo in Ht. rewrite Ht in Hld. change (len (@nil N)) with 0 in Hld.
      assert (q = len fsc_out) by lia. subst q.
      exists (Some (FInData d2)), 0. rewrite sliceN_0, N.add_0_r. split; [reflexivity|].
      split; [lia|]. split; [lia|]. split; [auto|]. split; [lia|].
      exists bs2, cin2, cout2, q2. repeat (split; [assumption|]). rewrite Ht2, Ht. reflexivity.
    - (* end of the stream, an error: masked *)
      rewrite Htodo in Ht. rewrite Ht in Hld. change (len (@nil N)) with 0 in Hld.
      assert (q = len fsc_out) by lia. subst q.
      exists None, 0. rewrite sliceN_0, N.add_0_r.
      split; [destruct Hr as [-> | ->]; reflexivity|].
      split; [lia|]. split; [lia|]. split; [auto|]. split; [lia | reflexivity].
  Qed.

  (* THE REFINEMENT: through the ghost stream, the decompressor is a read-only cursor over
     fsc_out *)
  Theorem fscomp_mask_refines : RdRefines (rd (Mask FsC)) fsc_out JM.
  Proof.
    intros s q n [Hq HJ]. cbn [Mask rd].
    destruct s as [f|].
    2:{ subst q. exists None, 0. cbn [mask_rd]. rewrite sliceN_0, N.add_0_r.
        split; [reflexivity|]. split; [lia|]. split; [lia|]. split; [auto|]. split; [lia | reflexivity]. }
    destruct (N.eq_dec n 0) as [->|Hn].
    { exists (Some f), 0. cbn [mask_rd N.eqb]. rewrite sliceN_0, N.add_0_r.
      split; [reflexivity|]. split; [lia|]. split; [lia|]. split; [auto|]. split; assumption. }
    destruct f as [i|d|]; [|exact (read_indata d q n Hq HJ Hn)|contradiction].
    destruct HJ as [HR ->].
    destruct (read_indata (mkFs [] 0 dinit 0 i) 0 n Hq (InD_init i HR) Hn) as (s' & k & Hrd & Hrest).
    exists s', k. split; [|exact Hrest]. etransitivity; [|exact Hrd]. unfold mask_rd. cbn [FsComp rd].
    destruct (N.eqb_spec n 0) as [?|_]; [contradiction|].
    destruct pfuel as [|pf]; [lia|]. rewrite fs_read_ready. reflexivity.
  Qed.

  Lemma JM_start i0 : Rin i0 0 -> JM (Some (FReady i0)) 0.
  Proof. intros HR. split; [lia|]. split; [exact HR | reflexivity]. Qed.

  (* fsc_out is a prefix of the plaintext of the blocks *)
  Lemma fsc_out_prefix : prefix fsc_out (plain_of bs).
  Proof.
    exact (fs_spec_prefix BLOCK D fin (dl_fin_nil _ _ _ _ _ L) (D_mono_prefix _ dinit dstep D fin L)
             tail Htail bs Hbs w Hw).
  Qed.

  (* ---------- the repair loop over the decompressor ---------- *)
  Variable FNMAX CACHE : N.
  Hypothesis HFN : FNMAX < 2 ^ 64.
  Hypothesis HCACHE : 0 < CACHE.
  Variables T_START T_CONTENT T_EOA T_EOF : N.
  Hypothesis Htags : T_START <> T_CONTENT /\ T_START <> T_EOA /\ T_START <> T_EOF /\
                     T_CONTENT <> T_EOA /\ T_CONTENT <> T_EOF /\ T_EOA <> T_EOF.
  Variable H : bytes -> bytes.
  Hypothesis H_len : forall x, len (H x) = 32.
  Notation body := (body T_START T_CONTENT T_EOA T_EOF).
  Notation repair := (repair FNMAX CACHE T_START T_CONTENT T_EOA T_EOF H).
  Notation good_output := (good_output FNMAX T_START T_CONTENT T_EOA T_EOF H).

  Theorem repair_fscomp_exact bl trailer i0 fuel :
    wf_blocks FNMAX H bl -> In BEnd bl \/ trailer = [] -> prefix fsc_out (body bl ++ trailer) ->
    Rin i0 0 -> (N.to_nat (len fsc_out) < fuel)%nat ->
    (* finalize did not fail with SerializationError (footer within the bincode limit) *)
    repair FsC fuel (FReady i0) w_init <> Err EDeser ->
    exists status out obl,
      repair FsC fuel (FReady i0) w_init
        = Ok (status, unfinished_of (recovered bl (len fsc_out)), out) /\
      good_output out obl /\ Forall2 same (recovered bl (len fsc_out)) (files_of obl).
  Proof.
    intros Hwf Htr Hp HR Hf Hser.
    assert (HserM : repair (Mask FsC) fuel (Some (FReady i0)) w_init <> Err EDeser).
    { intros E. apply Hser.
      exact (repair_mask_ser FsC FNMAX CACHE T_START T_CONTENT T_EOA T_EOF H fuel (FReady i0) w_init E). }
    destruct (repair_exact_rd FNMAX CACHE HFN HCACHE T_START T_CONTENT T_EOA T_EOF Htags H H_len
                (Mask FsC) fsc_out JM fscomp_mask_refines bl trailer Hwf Htr Hp (Some (FReady i0))
                (JM_start i0 HR) fuel Hf HserM) as (out & obl & Hr & Hg & Hs).
    destruct (repair_mask FsC FNMAX CACHE T_START T_CONTENT T_EOA T_EOF H fuel (FReady i0) w_init _ _ _ Hr)
      as (status & Hr').
    exists status, out, obl. auto.
  Qed.
End FsCompRefines.

(* the premise of the flush theorems, from the shape of CompFailSafeThms.fs_comp_flush: the
   blocks b1 complete, then the bytes c' (a proper prefix of the block c) the encoder had
   emitted *)
Lemma fs_spec_flush_point {dstate : Type} (dinit : dstate) dstep D fin (L : DecoderLaws dinit dstep D fin)
    b1 c p b2 c' :
  len c' < len c ->
  fs_spec D (b1 ++ (c, p) :: b2) (concat (map fst b1) ++ c') = plain_of b1 ++ D c'.
Proof.
  intros Hl.
  rewrite (fs_spec_app D fin (dl_fin_nil _ _ _ _ _ L) (D_mono_prefix _ dinit dstep D fin L)).
  rewrite (fs_spec_partial D fin (dl_fin_nil _ _ _ _ _ L) (D_mono_prefix _ dinit dstep D fin L)) by exact Hl.
  reflexivity.
Qed.
