(* Ecies.v — model of mla/src/crypto/ecc.rs (multi-recipient key wrapping) and of the
   candidate-key loop of EncryptionReaderConfig::load_persistent (mla/src/layers/encrypt.rs),
   plus the writer-side secret generation (EncryptionConfig::default / to_persistent).

   The primitives are Section variables:
     pubk : scalar -> point                      x25519 base-point multiplication
     dh   : scalar -> point -> bytes             x25519
     kdf  : bytes -> bytes                       HKDF-SHA256(salt none, ikm).expand("KEY DERIVATION", 32)
     wenc : wrapping key -> 32-byte key -> ciphertext      AES-256-GCM("ECIES NONCE0", aad "") encrypt
     wdec : wrapping key -> ciphertext -> 32-byte key      ... decrypt
     wtag : wrapping key -> ciphertext -> tag              ... tag over the ciphertext
   with only the laws used: dh_comm (curve group law, trusted mathematics) and wdec/wenc
   inverse (proved for the Gcm model: GcmProofs.gcm_decrypt_tag_encrypt).
   NO unforgeability assumption: statements conclude `… \/ TagCollision`, where TagCollision
   exhibits a wrapped key whose tag verifies under a wrapping key it was not made with. *)
From MLA Require Import Base.
Open Scope N_scope.

Section Ecies.
  Variable pubk : bytes -> bytes.
  Variable dh : bytes -> bytes -> bytes.
  Variable kdf : bytes -> bytes.
  Variables wenc wdec wtag : bytes -> bytes -> bytes.

  Hypothesis dh_comm : forall a b, dh a (pubk b) = dh b (pubk a).
  Variable KEYLEN : N.
  Hypothesis wdec_wenc : forall k m, len m = KEYLEN -> wdec k (wenc k m) = m.

  (* derive_key *)
  Definition derive_key (priv pub : bytes) : bytes := kdf (dh priv pub).

  (* MultiRecipientPersistent: ephemeral public key, list of (wrapped key, tag) *)
  Record multi := mkMulti { m_public : bytes; m_keys : list (bytes * bytes) }.

  (* store_key_for_multi_recipients, given the 32 bytes drawn for the ephemeral scalar *)
  Definition wrap_for (eph key recipient : bytes) : bytes * bytes :=
    let k := derive_key eph recipient in
    let c := wenc k key in (c, wtag k c).
  Definition store_key (recipients : list bytes) (key eph : bytes) : multi :=
    mkMulti (pubk eph) (map (wrap_for eph key) recipients).

  (* retrieve_key: the first wrapped key whose tag verifies under this private key *)
  Fixpoint find_key (k : bytes) (l : list (bytes * bytes)) : option bytes :=
    match l with
    | [] => None
    | (c, t) :: r => if bytes_eqb (wtag k c) t then Some (wdec k c) else find_key k r
    end.
  Definition retrieve_key (m : multi) (priv : bytes) : option bytes :=
    find_key (derive_key priv (m_public m)) (m_keys m).

  (* load_persistent: candidate private keys tried in turn; None = PrivateKeyNotFound /
     PrivateKeyNotSet *)
  Fixpoint load_persistent (m : multi) (privs : list bytes) : option bytes :=
    match privs with
    | [] => None
    | p :: r => match retrieve_key m p with Some k => Some k | None => load_persistent m r end
    end.

  (* a wrapped key (made under wrapping key k0) whose tag verifies under another wrapping key *)
  Definition TagCollision (eph key : bytes) (recipients privs : list bytes) : Prop :=
    exists r p, In r recipients /\ In p privs /\
      derive_key p (pubk eph) <> derive_key eph r /\
      wtag (derive_key p (pubk eph)) (wenc (derive_key eph r) key) = wtag (derive_key eph r) (wenc (derive_key eph r) key).

  Lemma derive_key_comm a b : derive_key a (pubk b) = derive_key b (pubk a).
  Proof. unfold derive_key. now rewrite dh_comm. Qed.

  (* find_key over the wrapped keys of `rs`, under wrapping key k: either the session key, or a
     collision with an entry made under another wrapping key; and never None when k is the
     wrapping key of some entry *)
  Lemma find_key_spec eph key k rs : len key = KEYLEN ->
    match find_key k (map (wrap_for eph key) rs) with
    | Some k' => (k' = key /\ exists r, In r rs /\ k = derive_key eph r) \/
        exists r, In r rs /\ k <> derive_key eph r /\
                  wtag k (wenc (derive_key eph r) key) = wtag (derive_key eph r) (wenc (derive_key eph r) key)
    | None => forall r, In r rs -> k <> derive_key eph r
    end.
  Proof.
    intros HK. induction rs as [|r rs IH]; cbn [map find_key]; [intros r []|].
    unfold wrap_for at 1. cbn beta iota zeta.
    destruct (bytes_eqb _ _) eqn:E.
    - apply bytes_eqb_eq in E.
      destruct (list_eq_dec N.eq_dec k (derive_key eph r)) as [->|Hne].
      + left. split; [apply wdec_wenc; exact HK|]. exists r. split; [left; reflexivity | reflexivity].
      + right. exists r. split; [left; reflexivity|]. split; assumption.
    - destruct (find_key k (map (wrap_for eph key) rs)) as [k'|].
      + destruct IH as [(-> & r' & Hin & Hk)|(r' & Hin & Hne & Ht)].
        * left. split; [reflexivity|]. exists r'. split; [right; exact Hin | exact Hk].
        * right. exists r'. split; [right; exact Hin|]. split; assumption.
      + intros r' [<-|Hin]; [|apply IH; exact Hin].
        intros ->. rewrite bytes_eqb_refl in E. discriminate.
  Qed.

  (* opening with the private key of any one recipient, at any position among other candidate
     keys (decoys or other recipients), yields the session key — or a tag collision *)
  Theorem recipient_opens eph key recipients privs s : len key = KEYLEN ->
    In (pubk s) recipients -> In s privs ->
    load_persistent (store_key recipients key eph) privs = Some key \/
    TagCollision eph key recipients privs.
  Proof.
    intros HK Hrec Hin.
    induction privs as [|p privs IH]; [destruct Hin|].
    cbn [load_persistent]. unfold retrieve_key, store_key. cbn [m_public m_keys].
    pose proof (find_key_spec eph key (derive_key p (pubk eph)) recipients HK) as Hf.
    destruct (find_key _ _) as [k'|].
    - destruct Hf as [(-> & _)|(r & Hr & Hne & Ht)]; [left; reflexivity|].
      right. exists r, p. repeat split; auto. left; reflexivity.
    - destruct Hin as [->|Hin].
      + exfalso. apply (Hf (pubk s) Hrec). apply derive_key_comm.
      + destruct (IH Hin) as [H|(r & p' & Hr & Hp & Hne & Ht)]; [left; exact H|].
        right. exists r, p'. repeat split; auto. right; exact Hp.
  Qed.

  (* with no recipient's key in the list (no candidate derives the wrapping key of any entry),
     opening fails — or a tag collision *)
  Theorem non_recipient_fails eph key recipients privs : len key = KEYLEN ->
    (forall p r, In p privs -> In r recipients -> derive_key p (pubk eph) <> derive_key eph r) ->
    load_persistent (store_key recipients key eph) privs = None \/
    TagCollision eph key recipients privs.
  Proof.
    intros HK Hnr. induction privs as [|p privs IH]; [left; reflexivity|].
    cbn [load_persistent]. unfold retrieve_key, store_key. cbn [m_public m_keys].
    pose proof (find_key_spec eph key (derive_key p (pubk eph)) recipients HK) as Hf.
    destruct (find_key _ _) as [k'|].
    - destruct Hf as [(_ & r & Hr & Hk)|(r & Hr & Hne & Ht)].
      + exfalso. exact (Hnr p r (or_introl eq_refl) Hr Hk).
      + right. exists r, p. repeat split; auto. left; reflexivity.
    - destruct IH as [H|(r & p' & Hr & Hp & Hne & Ht)].
      + intros p' r Hp Hr. apply Hnr; [right; exact Hp | exact Hr].
      + left. exact H.
      + right. exists r, p'. repeat split; auto. right; exact Hp.
  Qed.

  (* an empty candidate list never opens (PrivateKeyNotSet) *)
  Theorem no_key_fails m : load_persistent m [] = None.
  Proof. reflexivity. Qed.
End Ecies.
