(* CliRepair.v — `mlar repair` (mlar/src/main.rs:757-773) as a composition of the library model:
     open_failsafe_mla_file   File::open; ArchiveFailSafeReader::from_config (lib.rs:1361-1376):
                              since repair 9ea79db first ArchiveHeader::from + the key policy of
                              open_mla_file (a key for an archive without encryption is refused), rewind;
                              then ArchiveHeader::from, config.load_persistent, the fail-safe layer
                              readers: raw, encryption if enabled, compression if enabled
     writer_from_matches      the output is created only AFTER that (Tie A: Src.CLI_EVENTS)
     convert_to_archive       Repair.repair over the fail-safe stack, into the new writer
     status                   every status that convert_to_archive returns as Ok(..) ends the command
                              with exit status 0 (a warning on stderr)
   The new archive = header ++ layer writers over the block stream repair produced ([archive_wrap] =
   Archive.archive_write from the point where the block stream is known).
   Definitions only; proofs in CliRepairProofs.v. *)
From MLA Require Import Limit.
From MLA Require Import Base Stream Blocks Writer Reader EncLayer CompFailSafe FsCompStream Repair Format Ecies Archive Cli Run.
Open Scope N_scope.

Section CliRepair.
  Variables CHUNK TAG CIPHERBUF BLOCK LIMIT FNMAX CACHE FSBUF : N.
  Local Hint Extern 0 Limit => exact LIMIT : typeclass_instances.
  Variables TS TC TA TE : N.
  Variable H : bytes -> bytes.
  Variable order : footer -> footer.
  Variable pubk : bytes -> bytes.
  Variable dh : bytes -> bytes -> bytes.
  Variable kdf : bytes -> bytes.
  Variables wenc wdec wtag : bytes -> bytes -> bytes.
  Variable ksf : bytes -> bytes -> N -> N -> N.
  Variable tagf : bytes -> bytes -> N -> bytes -> bytes.
  (* the streaming brotli decoder of the fail-safe decompression reader (CompFailSafe.v) *)
  Variable dstate : Type.
  Variable dinit : dstate.
  Variable dstep : dstate -> bytes -> N -> dresult * N * bytes * dstate.
  Variable pfuel : nat.

  (* open_failsafe_mla_file up to the layer readers: (encrypt?, compress?, key, nonce, bytes after
     the header).  Since repair 9ea79db it has the key policy of open_mla_file: the header is read
     first and a key given for an archive without encryption is refused
     (PrivateKeyProvidedButNotUsed) before ArchiveFailSafeReader::from_config *)
  Definition repair_open (a : bytes) (privs : list bytes) : res (bool * bool * bytes * bytes * bytes) :=
    do hd <- read_header LIMIT a;
    let '(h, rest) := hd in
    if key_given privs && negb (has_bit (h_layers h) L_ENCRYPT) then Err EKey else
    do cf <- load_config dh kdf wdec wtag h privs;
    let '(e, c, k, n) := cf in
    Ok (e, c, k, n, rest).

  (* BEFORE that repair: no refusal; load_persistent REPLACES the layers_enabled the -k option had
     set (config.rs:122), so the key was silently ignored *)
  Definition repair_open_old (a : bytes) (privs : list bytes) : res (bool * bool * bytes * bytes * bytes) :=
    do hd <- read_header LIMIT a;
    let '(h, rest) := hd in
    do cf <- load_config dh kdf wdec wtag h privs;
    let '(e, c, k, n) := cf in
    Ok (e, c, k, n, rest).

  (* ArchiveWriter::from_config .. finalize around a block stream already known *)
  Definition archive_wrap (cfg : wconfig) (cut_top cut_mid : list N) (blocks : bytes) : res bytes :=
    if wc_encrypt cfg && match wc_recipients cfg with [] => true | _ => false end then Err EKey else
    do hdr <- dump_header LIMIT (to_persistent pubk dh kdf wenc wtag cfg);
    do body <- lower_write CHUNK CIPHERBUF BLOCK LIMIT ksf tagf cfg cut_top cut_mid blocks;
    Ok (hdr ++ body).

  (* convert_to_archive over a fail-safe stack S standing at s0, then the status match of `repair` *)
  Definition repair_with (S : Stream) (s0 : st S) (fuel : nat) (cfg' : wconfig) (ct cm : list N)
    : cres * option (fstatus * list bytes) :=
    match repair FNMAX CACHE TS TC TA TE H S fuel s0 w_init with
    | Ok (status, unfinished, out) =>
      match archive_wrap cfg' ct cm (w_out out) with
      | Ok b => (mkCR true (OWritten b) [], Some (status, unfinished))
      | _ => (mkCR false (OWritten []) [], Some (status, unfinished))
      end
    | _ => (mkCR false (OWritten []) [], None)
    end.

  (* what the command does once convert_to_archive returned Ok(EndOfOriginalArchiveData) with nothing unfinished and the
     output writer in state out: exit status 0 iff the layers of the new archive accept the stream *)
  Definition repaired (cfg' : wconfig) (ct cm : list N) (out : wstate) : cres * option (fstatus * list bytes) :=
    match archive_wrap cfg' ct cm (w_out out) with
    | Ok b => (mkCR true (OWritten b) [], Some (FEndOfData, []))
    | _ => (mkCR false (OWritten []) [], Some (FEndOfData, []))
    end.

  Definition FsE (k n rest : bytes) (unauth : bool) : Stream :=
    FsEnc CHUNK TAG (ksf k n) (tagf k n) unauth (Cursor rest).

  (* unauth = --allow-unauthenticated-data *)
  Definition cmd_repair_gen (ropen : bytes -> list bytes -> res (bool * bool * bytes * bytes * bytes))
             (unauth : bool) (fuel : nat) (a : bytes) (privs : list bytes)
             (cfg' : wconfig) (ct cm : list N) : cres * option (fstatus * list bytes) :=
    match ropen a privs with
    | Ok (e, c, k, n, rest) =>
      match e, c with
      | false, false => repair_with (Cursor rest) 0 fuel cfg' ct cm
      | true, false =>
        match fs_open CHUNK TAG (ksf k n) (Cursor rest) 0 with
        | (es, Ok _) => repair_with (FsE k n rest unauth) es fuel cfg' ct cm
        | _ => (mkCR false OUntouched [], None)
        end
      | false, true =>
        repair_with (FsComp BLOCK FSBUF dstate dinit dstep pfuel (Cursor rest)) (fs_new dstate (Cursor rest) 0) fuel cfg' ct cm
      | true, true =>
        match fs_open CHUNK TAG (ksf k n) (Cursor rest) 0 with
        | (es, Ok _) =>
          repair_with (FsComp BLOCK FSBUF dstate dinit dstep pfuel (FsE k n rest unauth))
                      (fs_new dstate (FsE k n rest unauth) es) fuel cfg' ct cm
        | _ => (mkCR false OUntouched [], None)
        end
      end
    | _ => (mkCR false OUntouched [], None)
    end.

  Definition cmd_repair := cmd_repair_gen repair_open.
  Definition cmd_repair_old := cmd_repair_gen repair_open_old.
End CliRepair.
