(* Bincode.v — the combinators the GENERATED header (de)serialisers of gen/Src3h.v are written in
   (tools/src2v3_header.py maps every field TYPE of a `#[derive(Serialize, Deserialize)] struct`
   to one of them; that map is the trusted primitive table of the translator).

   bincode 1.3.3, `options().with_limit(L).with_fixint_encoding()`, over an `IoReader`
   (de/mod.rs, de/read.rs, config/limit.rs) and serde's derive:
     every primitive of n bytes first charges n against the limit (`read_literal_type` ->
     `Bounded::add`: `SizeLimit` when less than n is left) and then `read_exact`s n bytes from the
     source (an io error becomes `ErrorKind::Io`);
       u8                 charge 1, read 1                         bc_u8
       u32 / u64 / usize  charge 4 / 8 / 8, read, little endian    bc_u32 / bc_u64   (fixint)
       [u8; N]            serde tuple of N u8: N single-byte primitives              bc_array N
       Option<T>          u8 tag: 0 None, 1 Some then T, other InvalidTagEncoding    bc_option
       Vec<T>             u64 length, then `length` times T (`Access { len }`)       bc_vec
       struct             its fields, in declaration order                           bm_bind ... bm_ret
       bitflags `: u8`    (bitflags 2, not human readable) the u8 bits, all retained bc_u8
   The state is (source, limit left).  The model's error classes: every bincode failure is [EDeser];
   [EFuel] (the model's own fuel of std's read_exact / of the element loop) and [Crash] are passed on.

   The element loop of a Vec runs `length` times (an attacker-chosen u64); here it is fuelled.  The
   translator passes [esz] = the number of bytes one element charges AT LEAST (computed from the
   element type, must be positive): [seq_fuel] = the iterations that can succeed with `lim` left, the
   failing one and the final test.

   Serialisation: `serialize_into` with a bounded limit first runs the `SizeChecker` over the value
   (the sz_ functions: what each type charges; `SizeLimit` when the sum exceeds the limit), then writes (the bs_ functions). *)
From MLA Require Import Base Stream.
Open Scope N_scope.

Section BincodeDe.
  Variable S : Stream.

  Definition BM (A : Type) : Type := st S -> N -> st S * N * res A.
  Definition bm_ret {A} (a : A) : BM A := fun s lim => (s, lim, Ok a).
  Definition bm_fail {A} (e : err) : BM A := fun s lim => (s, lim, Err e).
  Definition bm_bind {A B} (m : BM A) (f : A -> BM B) : BM B := fun s lim =>
    match m s lim with
    | (s', lim', Ok a) => f a s' lim'
    | (s', lim', Err e) => (s', lim', Err e)
    | (s', lim', Crash c) => (s', lim', Crash c)
    end.

  (* one primitive of n bytes: charge, then std's read_exact (at most n + 1 `read` calls) *)
  Definition bc_prim (n : N) : BM bytes := fun s lim =>
    if lim <? n then (s, lim, Err EDeser) else
    match read_exact S (Datatypes.S (N.to_nat n)) s n with
    | (s', Ok d) => (s', lim - n, Ok d)
    | (s', Err EFuel) => (s', lim - n, Err EFuel)
    | (s', Err _) => (s', lim - n, Err EDeser)
    | (s', Crash c) => (s', lim - n, Crash c)
    end.

  Definition bc_u8 : BM N := bm_bind (bc_prim 1) (fun d => bm_ret (le_val d)).
  Definition bc_u32 : BM N := bm_bind (bc_prim 4) (fun d => bm_ret (le_val d)).
  Definition bc_u64 : BM N := bm_bind (bc_prim 8) (fun d => bm_ret (le_val d)).

  Fixpoint bc_array (k : nat) : BM bytes :=
    match k with
    | O => bm_ret []
    | Datatypes.S k' => bm_bind (bc_prim 1) (fun d => bm_bind (bc_array k') (fun ds => bm_ret (d ++ ds)))
    end.

  Definition bc_option {A} (elem : BM A) : BM (option A) :=
    bm_bind (bc_prim 1) (fun o =>
    if le_val o =? 0 then bm_ret None
    else if le_val o =? 1 then bm_bind elem (fun x => bm_ret (Some x))
    else bm_fail EDeser).

  Fixpoint bc_seq {A} (elem : BM A) (fuel : nat) (n : N) : BM (list A) :=
    if n =? 0 then bm_ret [] else
    match fuel with
    | O => bm_fail EFuel
    | Datatypes.S fuel' =>
      bm_bind elem (fun x => bm_bind (bc_seq elem fuel' (n - 1)) (fun xs => bm_ret (x :: xs)))
    end.
  Definition seq_fuel (esz n lim : N) : nat := Datatypes.S (N.to_nat (N.min n (lim / esz + 1))).
  Definition bc_vec {A} (esz : N) (elem : BM A) : BM (list A) :=
    bm_bind (bc_prim 8) (fun nb => fun s lim =>
      bc_seq elem (seq_fuel esz (le_val nb) lim) (le_val nb) s lim).

End BincodeDe.

(* ---------- serialisation (into a Vec: infallible sink) ---------- *)
Definition bs_u8 (v : N) : bytes := [v].                    (* a u8 IS its byte *)
Definition bs_u32 (v : N) : bytes := le_bytes 4 v.
Definition bs_u64 (v : N) : bytes := le_bytes 8 v.
Definition bs_array (b : bytes) : bytes := b.               (* N single bytes, no length prefix *)
Definition bs_option {A} (f : A -> bytes) (o : option A) : bytes :=
  match o with None => [0] | Some x => 1 :: f x end.
Definition bs_vec {A} (f : A -> bytes) (l : list A) : bytes := le_bytes 8 (len l) ++ concat (map f l).

Fixpoint nsum (l : list N) : N := match l with [] => 0 | x :: r => x + nsum r end.
Definition sz_option {A} (f : A -> N) (o : option A) : N := 1 + match o with None => 0 | Some x => f x end.
Definition sz_vec {A} (f : A -> N) (l : list A) : N := 8 + nsum (map f l).
