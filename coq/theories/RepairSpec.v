(* RepairSpec.v — vocabulary for the theorems about the repair loop (C02, C05) at the level
   of the block stream: file records accumulated by a block list, well-formed block lists
   (as a writer produces them), the blocks recovered from a cut stream, the bytes of a file
   present before the cut.  Definitions only. *)
From MLA Require Import Base Stream Blocks.
Open Scope N_scope.

(* what a block list says about one file *)
Record frec := mkF { f_id : N; f_name : bytes; f_data : bytes; f_ended : bool }.

Definition upd_data (id : N) (d : bytes) (f : frec) : frec :=
  if f_id f =? id then mkF (f_id f) (f_name f) (f_data f ++ d) (f_ended f) else f.
Definition upd_end (id : N) (f : frec) : frec :=
  if f_id f =? id then mkF (f_id f) (f_name f) (f_data f) true else f.

(* effect of one block on the records (in order of FileStart) *)
Definition fstep (fs : list frec) (b : block) : list frec :=
  match b with
  | BStart id name => fs ++ [mkF id name [] false]
  | BContent id d => map (upd_data id d) fs
  | BEof id _ => map (upd_end id) fs
  | BEnd => fs
  end.
Definition frun (fs : list frec) (bl : list block) : list frec := fold_left fstep bl fs.
Definition files_of (bl : list block) : list frec := frun [] bl.

Definition find_id (fs : list frec) (id : N) : option frec := find (fun f => f_id f =? id) fs.
Definition find_name (fs : list frec) (name : bytes) : option frec :=
  find (fun f => bytes_eqb (f_name f) name) fs.
(* content of the file called `name` *)
Definition content_of (fs : list frec) (name : bytes) : bytes :=
  match find_name fs name with Some f => f_data f | None => [] end.
Definition data_of_id (fs : list frec) (id : N) : bytes :=
  match find_id fs id with Some f => f_data f | None => [] end.

(* serialised length of a block *)
Definition blen (b : block) : N :=
  match b with
  | BStart _ n => 17 + len n
  | BContent _ d => 17 + len d
  | BEof _ h => 9 + len h
  | BEnd => 1
  end.
Definition blens (bl : list block) : N := fold_right (fun b a => blen b + a) 0 bl.

Section Spec.
  Variable FNMAX : N.
  Variable H : bytes -> bytes.

  (* one more block of a well-formed list, given the records so far *)
  Definition wf_step (fs : list frec) (b : block) : Prop :=
    match b with
    | BStart id name =>
        find_id fs id = None /\ find_name fs name = None /\ len name <= FNMAX /\ utf8_valid name = true
    | BContent id d => exists f, find_id fs id = Some f /\ f_ended f = false
    | BEof id h => exists f, find_id fs id = Some f /\ f_ended f = false /\ h = H (f_data f)
    | BEnd => forall f, In f fs -> f_ended f = true
    end.
  (* EndOfArchiveData only as the last block *)
  Fixpoint wf_from (fs : list frec) (bl : list block) : Prop :=
    match bl with
    | [] => True
    | b :: r => wf_step fs b /\ (b = BEnd -> r = []) /\ wf_from (fstep fs b) r
    end.
  (* the u64 fields *)
  Definition num_ok (b : block) : Prop :=
    match b with
    | BStart id _ => id < 2 ^ 64
    | BContent id d => id < 2 ^ 64 /\ len d < 2 ^ 64
    | BEof id _ => id < 2 ^ 64
    | BEnd => True
    end.
  Definition wf_blocks (bl : list block) : Prop := wf_from [] bl /\ Forall num_ok bl.
End Spec.

(* the blocks the repair loop gets through when only the first m bytes of the serialised
   list are there, the last FileContent possibly with a part of its data; and whether
   EndOfArchiveData was reached *)
Fixpoint cutb (bl : list block) (m : N) : list block * bool :=
  match bl with
  | [] => ([], false)
  | b :: r =>
    match b with
    | BEnd => ([], 1 <=? m)
    | BContent id d =>
      if m <? 17 then ([], false)
      else if m <? 17 + len d then ([BContent id (takeN (m - 17) d)], false)
      else let '(l, e) := cutb r (m - (17 + len d)) in (b :: l, e)
    | _ => if m <? blen b then ([], false) else let '(l, e) := cutb r (m - blen b) in (b :: l, e)
    end
  end.

(* the content bytes of file `id` that lie within the first m bytes of the serialised list *)
Fixpoint present (id : N) (bl : list block) (m : N) : bytes :=
  match bl with
  | [] => []
  | b :: r =>
    (match b with BContent i d => if i =? id then takeN (m - 17) d else [] | _ => [] end)
      ++ present id r (m - blen b)
  end.

(* record-wise growth: same file, data extended; a file that was ended is unchanged *)
Definition rle (f g : frec) : Prop :=
  f_id f = f_id g /\ f_name f = f_name g /\ prefix (f_data f) (f_data g) /\
  (f_ended f = true -> f_ended g = true /\ f_data g = f_data f).
Definition fle (fs1 fs2 : list frec) : Prop :=
  exists a b, fs2 = a ++ b /\ Forall2 rle fs1 a.
