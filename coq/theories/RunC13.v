(* RunC13.v — Tie B entry point of C13: a layer-less archive body read through a source that
   returns at most sched[i] (at least 1) bytes at the i-th read, last entry repeating
   (Stream.Throttled = the harness's ThrottledReader), single reads observed. *)
From MLA Require Import Limit.
From MLAGen Require Src.
(* executable entry points: the production value of BINCODE_MAX_DESERIALIZE (the same in both flavours), file-local *)
#[local] Instance RUN_LIMIT : Limit := MLAGen.Src.BINCODE_MAX_DESERIALIZE_prod.
From MLA Require Import Base Stream Inst Run.
Open Scope N_scope.

(* fuel: do_reads / copy_take spend one unit per Read::read call; with one byte per read a
   file of n bytes takes n+2 calls, and lx_loop one unit per block *)
Definition hist_plain_thr (k : consts) (body : bytes) (sched : list N) (names : list bytes)
           (ops : list (list N)) : list (list N) :=
  hist_run k (Throttled body) (4 * N.to_nat (len body) + 64) (0, sched) names ops.
