(* RunC08.v — Tie B entry points of C08: the history / repair runs of Run.v with the status
   rows of a failed layer opening folded into the classes the harness can observe (the
   implementation reports one error for "the archive does not open", whichever layer failed). *)
From MLA Require Import Limit.
From MLAGen Require Src.
(* executable entry points: the production value of BINCODE_MAX_DESERIALIZE (the same in both flavours), file-local *)
#[local] Instance RUN_LIMIT : Limit := MLAGen.Src.BINCODE_MAX_DESERIALIZE_prod.
From MLA Require Import Base Stream Inst Run.
Open Scope N_scope.

Definition fold_open_rows (rows : list (list N)) : list (list N) :=
  match rows with
  | [[1; 1]] => [[1]]
  | [[2; 1]] => [[2]]
  | r => r
  end.

Definition c08_hist_plain (k : consts) (body : bytes) (names : list bytes) (ops : list (list N)) : list (list N) :=
  hist_plain k body names ops.
Definition c08_hist_enc (k : consts) (key nonce8 body : bytes) (names : list bytes) (ops : list (list N)) : list (list N) :=
  fold_open_rows (hist_enc k key nonce8 body names ops).
