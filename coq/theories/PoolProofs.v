(* PoolProofs.v — the writer pool of `mlar extract` is transparent: for ANY capacity, any
   sequence of `write` calls on any literal paths in any interleaving, the file system is the one
   obtained by re-opening in append mode for every single write (Path.append_path), hence every
   file holds the concatenation of what was written to it; the whole-archive form through the pool
   is the form PathLinks / PathBenign speak about; the variants that re-open in write mode or
   truncating are refuted.  All statements are about the models of Path.v / Pool.v. *)
From MLA Require Import Base Path PathProofs PathLinks PathBenign Pool.
From Coq Require Import ZifyBool ZifyNat ZifyN Lia.
Import Coq.Strings.String.StringSyntax Coq.Strings.Ascii.AsciiSyntax.

(* ================================================================== *)
(** * 1. same_fs: an equivalence every operation respects *)

Lemma same_fs_refl f : same_fs f f.
Proof. intros p; reflexivity. Qed.
Lemma same_fs_sym f g : same_fs f g -> same_fs g f.
Proof. intros H p; symmetry; apply H. Qed.
Lemma same_fs_trans f g h : same_fs f g -> same_fs g h -> same_fs f h.
Proof. intros H1 H2 p. now rewrite H1. Qed.

Lemma same_fs_set f g p n : same_fs f g -> same_fs (set f p n) (set g p n).
Proof.
  intros H q. destruct q as [|c q]; [reflexivity|].
  specialize (H (c :: q)). unfold lookup, set in *. cbn [lookup_raw].
  destruct (path_eqb p (c :: q)); [reflexivity|exact H].
Qed.

Lemma same_fs_walk f g : same_fs f g -> forall rest cur, walk f cur rest = walk g cur rest.
Proof.
  intros H. induction rest as [|[|c] rest IH]; intros cur; cbn [walk]; [reflexivity|apply IH|].
  rewrite (H (cur ++ [c])). destruct (lookup g (cur ++ [c])) as [[|d|t]|]; auto.
Qed.

Lemma same_fs_resolve f g : same_fs f g -> forall k cur rest, resolve k f cur rest = resolve k g cur rest.
Proof.
  intros H. induction k as [|k IH]; intros cur rest; cbn [resolve]; rewrite (same_fs_walk f g H);
    destruct (walk g cur rest); auto.
Qed.

Lemma same_fs_canonicalize f g p : same_fs f g -> canonicalize f p = canonicalize g p.
Proof. intros H. apply same_fs_resolve. exact H. Qed.

Lemma same_fs_read_file f g p : same_fs f g -> read_file f p = read_file g p.
Proof.
  intros H. unfold read_file. rewrite (same_fs_canonicalize f g p H).
  destruct (canonicalize g p) as [q|]; [|reflexivity]. now rewrite (H q).
Qed.

Lemma same_fs_evolves out f f' g : evolves out f f' -> same_fs f' g -> evolves out f g.
Proof.
  intros [D L F O] H. split.
  - intros p Hp. rewrite <- (H p). now apply D.
  - intros p t. rewrite <- (H p). apply L.
  - intros p d Hp. rewrite <- (H p). now apply (F p d).
  - intros p Hnp d. rewrite <- (H p). now apply O.
Qed.

(* ================================================================== *)
(** * 2. Replacing the content of a regular file changes no resolution *)

Lemma file_not_root f q d : lookup f q = Some (File d) -> q <> [].
Proof. intros H ->. discriminate. Qed.

Lemma path_dec (p q : path) : p = q \/ p <> q.
Proof. destruct (path_eqb p q) eqn:E; [left; now apply path_eqb_eq|right; now apply path_eqb_false]. Qed.

Lemma set_file_grows f q d d' : lookup f q = Some (File d) -> grows f (set f q (File d')).
Proof.
  intros Hq. pose proof (file_not_root _ _ _ Hq) as Hne.
  split; [|split].
  - intros p Hp. destruct (path_dec q p) as [<-|Hn]; [congruence|now rewrite lookup_set_neq].
  - intros p t Hp. destruct (path_dec q p) as [<-|Hn]; [congruence|now rewrite lookup_set_neq].
  - intros p d0 Hp. destruct (path_dec q p) as [<-|Hn].
    + exists d'. now apply lookup_set_eq.
    + exists d0. now rewrite lookup_set_neq.
Qed.

Lemma set_file_grows_back f q d d' : lookup f q = Some (File d) -> grows (set f q (File d')) f.
Proof.
  intros Hq. pose proof (file_not_root _ _ _ Hq) as Hne.
  split; [|split].
  - intros p. destruct (path_dec q p) as [<-|Hn].
    + rewrite lookup_set_eq by exact Hne. discriminate.
    + now rewrite lookup_set_neq.
  - intros p t. destruct (path_dec q p) as [<-|Hn].
    + rewrite lookup_set_eq by exact Hne. discriminate.
    + now rewrite lookup_set_neq.
  - intros p d0. destruct (path_dec q p) as [<-|Hn].
    + intros _. eauto.
    + rewrite lookup_set_neq by exact Hn. eauto.
Qed.

Lemma canonicalize_set_file f q d d' p :
  lookup f q = Some (File d) -> canonicalize (set f q (File d')) p = canonicalize f p.
Proof.
  intros Hq. unfold canonicalize.
  destruct (resolve MAXSYMLINKS f [] (down p)) as [x|] eqn:E.
  - exact (resolve_grows _ _ (set_file_grows f q d d' Hq) _ _ _ _ E).
  - destruct (resolve MAXSYMLINKS (set f q (File d')) [] (down p)) as [y|] eqn:E'; [|reflexivity].
    rewrite (resolve_grows _ _ (set_file_grows_back f q d d' Hq) _ _ _ _ E') in E. discriminate.
Qed.

(* what append_path does when it succeeds *)
Lemma append_path_some f p data f1 q :
  append_path f p data = Some (f1, q) ->
  canonicalize f p = Some q /\ exists old, lookup f q = Some (File old) /\ f1 = set f q (File (old ++ data)).
Proof.
  unfold append_path. destruct (canonicalize f p) as [x|]; [|discriminate].
  destruct (lookup f x) as [[|old|t]|] eqn:Hl; try discriminate.
  intros H; inversion H; subst. eauto.
Qed.

Lemma append_path_ok f p data q old :
  canonicalize f p = Some q -> lookup f q = Some (File old) ->
  append_path f p data = Some (set f q (File (old ++ data)), q).
Proof. intros Hc Hl. unfold append_path. now rewrite Hc, Hl. Qed.

(* ================================================================== *)
(** * 3. The pool invariant *)

(* an open handle: append mode, and the literal path still resolves to the regular file the
   handle was opened on *)
Definition entry_ok (f : fs) (e : path * handle) : Prop :=
  h_off (snd e) = None /\ canonicalize f (fst e) = Some (h_at (snd e)) /\
  exists d, lookup f (h_at (snd e)) = Some (File d).

Definition pool_ok (f : fs) (pl : pool) : Prop := Forall (entry_ok f) pl.

Lemma entry_ok_set f q d d' e :
  lookup f q = Some (File d) -> entry_ok f e -> entry_ok (set f q (File d')) e.
Proof.
  intros Hq (Ho & Hc & d0 & Hl). split; [exact Ho|]. split.
  - now rewrite (canonicalize_set_file f q d d').
  - destruct (path_dec q (h_at (snd e))) as [<-|Hn].
    + exists d'. apply lookup_set_eq. exact (file_not_root _ _ _ Hq).
    + exists d0. now rewrite lookup_set_neq.
Qed.

Lemma pool_find_in pl p h : pool_find pl p = Some h -> In (p, h) pl.
Proof.
  induction pl as [|[k h0] pl IH]; cbn [pool_find]; [discriminate|].
  destruct (path_eqb k p) eqn:E.
  - apply path_eqb_eq in E; subst k. intros H; inversion H; subst. now left.
  - intros H. right. now apply IH.
Qed.

Lemma pool_remove_incl pl p e : In e (pool_remove pl p) -> In e pl.
Proof.
  induction pl as [|[k h] pl IH]; cbn [pool_remove]; [auto|].
  destruct (path_eqb k p); [intros H; right; now apply IH|].
  intros [H|H]; [now left|right; now apply IH].
Qed.

Lemma removelast_incl {A} (l : list A) e : In e (removelast l) -> In e l.
Proof.
  induction l as [|x l IH]; cbn [removelast]; [auto|].
  destruct l as [|y l]; [intros []|]. intros [H|H]; [now left|right; now apply IH].
Qed.

Lemma pool_evict_incl cap pl e : In e (pool_evict cap pl) -> In e pl.
Proof. unfold pool_evict. destruct (length pl <? cap)%nat; [auto|apply removelast_incl]. Qed.

Lemma pool_ok_sub f pl pl' : (forall e, In e pl' -> In e pl) -> pool_ok f pl -> pool_ok f pl'.
Proof. intros Hin H. apply Forall_forall. intros e He. exact (proj1 (Forall_forall _ _) H e (Hin e He)). Qed.

Lemma pool_ok_set f q d d' pl : lookup f q = Some (File d) -> pool_ok f pl -> pool_ok (set f q (File d')) pl.
Proof. intros Hq H. eapply Forall_impl; [|exact H]. intros e. now apply entry_ok_set with (d := d). Qed.

(* ================================================================== *)
(** * 4. One write through the pool = one append-mode re-open *)

Lemma pool_write_append cap p data f pl : pool_ok f pl ->
  match append_path f p data with
  | Some (f1, _) => exists pl1, pool_write RAppend cap p data f pl = Some (f1, pl1) /\ pool_ok f1 pl1
  | None => pool_write RAppend cap p data f pl = None
  end.
Proof.
  intros Hok. unfold pool_write. destruct (pool_find pl p) as [h|] eqn:Hf.
  - (* hit *)
    pose proof (proj1 (Forall_forall _ _) Hok _ (pool_find_in _ _ _ Hf)) as (Ho & Hc & old & Hl).
    cbn [fst snd] in *.
    rewrite (append_path_ok f p data _ old Hc Hl).
    unfold handle_write. rewrite Hl, Ho.
    eexists. split; [reflexivity|].
    constructor.
    + split; [exact Ho|]. cbn [fst snd]. split.
      * now rewrite (canonicalize_set_file f _ old).
      * eexists. apply lookup_set_eq. exact (file_not_root _ _ _ Hl).
    + apply (pool_ok_set f _ old); [exact Hl|].
      apply (pool_ok_sub f pl); [intros e; apply pool_remove_incl|exact Hok].
  - (* miss *)
    unfold pool_open, append_path.
    destruct (canonicalize f p) as [q|] eqn:Hc; [|reflexivity].
    destruct (lookup f q) as [[|old|t]|] eqn:Hl; try reflexivity.
    unfold handle_write. cbn [h_at h_off]. rewrite Hl.
    eexists. split; [reflexivity|].
    constructor.
    + split; [reflexivity|]. cbn [fst snd h_at]. split.
      * now rewrite (canonicalize_set_file f _ old).
      * eexists. apply lookup_set_eq. exact (file_not_root _ _ _ Hl).
    + apply (pool_ok_set f _ old); [exact Hl|].
      apply (pool_ok_sub f pl); [intros e; apply pool_evict_incl|exact Hok].
Qed.

(* MAIN THEOREM (A).  ANY capacity (0 included: the model then keeps one handle), any pool
   state reachable (pool_ok; the empty pool is), ANY sequence of write calls — any literal paths,
   repeated, interleaved, resolving or not, any buffers: the pool run and the run that re-opens
   in append mode for every write produce THE SAME file system (the same association list, not
   just the same lookups) and the same status, also when a re-open fails on the way. *)
Theorem pool_transparent cap ws : forall f pl, pool_ok f pl ->
  exists pl', pool_run RAppend cap ws f pl = (fst (direct_run ws f), pl', snd (direct_run ws f)) /\
              pool_ok (fst (direct_run ws f)) pl'.
Proof.
  induction ws as [|[p d] ws IH]; intros f pl Hok; cbn [pool_run direct_run].
  - exists pl. split; [reflexivity|exact Hok].
  - pose proof (pool_write_append cap p d f pl Hok) as Hw.
    destruct (append_path f p d) as [[f1 q]|].
    + destruct Hw as (pl1 & -> & Hok1). exact (IH f1 pl1 Hok1).
    + rewrite Hw. exists pl. split; [reflexivity|exact Hok].
Qed.

Lemma pool_ok_nil f : pool_ok f [].
Proof. constructor. Qed.

Corollary pool_transparent_empty cap ws f :
  fst (fst (pool_run RAppend cap ws f [])) = fst (direct_run ws f) /\
  snd (pool_run RAppend cap ws f []) = snd (direct_run ws f).
Proof.
  destruct (pool_transparent cap ws f [] (pool_ok_nil f)) as (pl' & -> & _). split; reflexivity.
Qed.

(* ================================================================== *)
(** * 5. Per-file concatenation *)

Lemma written_to_cons f q p d ws :
  written_to f q ((p, d) :: ws) =
  (match canonicalize f p with
   | Some q' => if path_eqb q' q then d else []
   | None => []
   end) ++ written_to f q ws.
Proof.
  unfold written_to. cbn [filter fst]. destruct (canonicalize f p) as [q'|]; [|reflexivity].
  destruct (path_eqb q' q); reflexivity.
Qed.

Lemma written_to_ext f g q ws : (forall p, canonicalize g p = canonicalize f p) ->
  written_to g q ws = written_to f q ws.
Proof.
  intros H. unfold written_to.
  assert (E : forall l : list (path * bytes),
            filter (fun w => match canonicalize g (fst w) with Some q' => path_eqb q' q | None => false end) l =
            filter (fun w => match canonicalize f (fst w) with Some q' => path_eqb q' q | None => false end) l).
  { intros l. apply filter_ext. intros w. now rewrite H. }
  now rewrite E.
Qed.

(* after a successful run every regular file holds what it held followed by the buffers
   written to the paths that resolve to it, in order; nothing else changes *)
Theorem direct_run_content ws : forall f f', direct_run ws f = (f', true) ->
  (forall q d, lookup f q = Some (File d) -> lookup f' q = Some (File (d ++ written_to f q ws))) /\
  (forall p, (forall d, lookup f p <> Some (File d)) -> lookup f' p = lookup f p).
Proof.
  induction ws as [|[p0 d0] ws IH]; intros f f'; cbn [direct_run].
  - intros H; inversion H; subst. split; [|auto].
    intros q d Hl. unfold written_to. cbn [filter map concat]. now rewrite app_nil_r.
  - destruct (append_path f p0 d0) as [[f1 q0]|] eqn:Hap; [|discriminate].
    destruct (append_path_some _ _ _ _ _ Hap) as (Hc & old & Hl0 & ->).
    pose proof (file_not_root _ _ _ Hl0) as Hne.
    intros H. destruct (IH _ _ H) as [Hfile Hother]. split.
    + intros q d Hl. rewrite written_to_cons, Hc.
      rewrite <- (written_to_ext f (set f q0 (File (old ++ d0))) q ws)
        by (intros p; now apply canonicalize_set_file with (d := old)).
      destruct (path_dec q0 q) as [<-|Hn].
      * rewrite path_eqb_refl. rewrite Hl0 in Hl. inversion Hl; subst d.
        rewrite app_assoc. apply Hfile. now apply lookup_set_eq.
      * replace (path_eqb q0 q) with false by (symmetry; now apply path_eqb_false).
        cbn [app]. apply Hfile. now rewrite lookup_set_neq.
    + intros p Hp. rewrite Hother.
      * apply lookup_set_neq. intros <-. exact (Hp _ Hl0).
      * intros d. destruct (path_dec q0 p) as [<-|Hn]; [exfalso; exact (Hp _ Hl0)|].
        rewrite lookup_set_neq by exact Hn. apply Hp.
Qed.

(* "hence per-file concatenation", through the pool *)
Corollary pool_run_content cap ws f f' pl' :
  pool_run RAppend cap ws f [] = (f', pl', true) ->
  (forall q d, lookup f q = Some (File d) -> lookup f' q = Some (File (d ++ written_to f q ws))) /\
  (forall p, (forall d, lookup f p <> Some (File d)) -> lookup f' p = lookup f p).
Proof.
  intros H. destruct (pool_transparent cap ws f [] (pool_ok_nil f)) as (pl1 & E & _).
  rewrite E in H. apply direct_run_content.
  destruct (direct_run ws f) as [x b]. cbn [fst snd] in H. inversion H; reflexivity.
Qed.

(* a literal path that resolves to a regular file can be appended to *)
Definition writable (f : fs) (p : path) : Prop :=
  exists q d, canonicalize f p = Some q /\ lookup f q = Some (File d).

Lemma writable_set f q d d' p : lookup f q = Some (File d) -> writable f p -> writable (set f q (File d')) p.
Proof.
  intros Hq (x & d0 & Hc & Hl). exists x.
  destruct (path_dec q x) as [<-|Hn].
  - exists d'. split; [now rewrite (canonicalize_set_file f q d)|].
    apply lookup_set_eq. exact (file_not_root _ _ _ Hq).
  - exists d0. split; [now rewrite (canonicalize_set_file f q d)|now rewrite lookup_set_neq].
Qed.

Lemma direct_run_ok ws : forall f, Forall (fun w => writable f (fst w)) ws -> snd (direct_run ws f) = true.
Proof.
  induction ws as [|[p d] ws IH]; intros f Hw; cbn [direct_run]; [reflexivity|].
  inversion Hw as [|? ? (q & old & Hc & Hl) Hw']; subst. cbn [fst] in *.
  rewrite (append_path_ok f p d q old Hc Hl). apply IH.
  eapply Forall_impl; [|exact Hw']. intros w. now apply writable_set with (d := old).
Qed.

(* ================================================================== *)
(** * 6. One block cut into buffers, through the pool *)

Lemma written_to_const f lit q p cs : canonicalize f lit = Some q ->
  written_to f p (map (fun c => (lit, c)) cs) = if path_eqb q p then concat cs else [].
Proof.
  intros Hc. induction cs as [|c cs IH]; cbn [map].
  - unfold written_to. cbn [filter map concat]. now destruct (path_eqb q p).
  - rewrite written_to_cons, Hc, IH. destruct (path_eqb q p); reflexivity.
Qed.

Lemma block_through_pool cap lit cs f pl q old :
  pool_ok f pl -> canonicalize f lit = Some q -> lookup f q = Some (File old) ->
  exists f1 pl1, pool_run RAppend cap (map (fun c => (lit, c)) cs) f pl = (f1, pl1, true) /\
    pool_ok f1 pl1 /\ same_fs f1 (set f q (File (old ++ concat cs))).
Proof.
  intros Hok Hc Hl. set (ws := map (fun c => (lit, c)) cs).
  destruct (pool_transparent cap ws f pl Hok) as (pl1 & E & Hok1).
  assert (Hs : snd (direct_run ws f) = true).
  { apply direct_run_ok. unfold ws. apply Forall_map. apply Forall_forall. intros c _. cbn [fst].
    exists q, old. auto. }
  exists (fst (direct_run ws f)), pl1. rewrite E, Hs. split; [reflexivity|]. split; [exact Hok1|].
  destruct (direct_run_content ws f (fst (direct_run ws f))) as [Hfile Hother].
  { rewrite <- Hs. now destruct (direct_run ws f). }
  pose proof (file_not_root _ _ _ Hl) as Hne.
  intros p. destruct (path_dec q p) as [<-|Hn].
  - rewrite lookup_set_eq by exact Hne. rewrite (Hfile q old Hl). unfold ws.
    now rewrite (written_to_const f lit q q cs Hc), path_eqb_refl.
  - rewrite lookup_set_neq by exact Hn.
    destruct (lookup f p) as [[|d|t]|] eqn:Hp.
    + rewrite Hother; [exact Hp|]. intros d. congruence.
    + rewrite (Hfile p d Hp). unfold ws. rewrite (written_to_const f lit q p cs Hc).
      replace (path_eqb q p) with false by (symmetry; now apply path_eqb_false).
      now rewrite app_nil_r.
    + rewrite Hother; [exact Hp|]. intros d. congruence.
    + rewrite Hother; [exact Hp|]. intros d. congruence.
Qed.

(* ================================================================== *)
(** * 7. Phase 2 through the pool = phase 2 of Path.v *)

(* every entry of `export` can be appended to *)
Definition exports_writable (f : fs) (ex : list (bytes * path)) : Prop :=
  Forall (fun e => writable f (snd e)) ex.

Lemma writable_same f g p : same_fs f g -> writable f p -> writable g p.
Proof.
  intros H (q & d & Hc & Hl). exists q, d.
  split; [now rewrite <- (same_fs_canonicalize f g p H)|now rewrite <- (H q)].
Qed.

Lemma find_export_in_snd ex n lit : find_export ex n = Some lit -> exists n', In (n', lit) ex.
Proof. apply find_export_in_ex. Qed.

Lemma append_blocks_pool_same cap cut ex : (forall d, concat (cut d) = d) ->
  forall blocks f g pl,
    same_fs f g -> exports_writable f ex -> pool_ok f pl ->
    exists f' pl', append_blocks_pool RAppend cap cut ex blocks f pl = (f', pl', true) /\
      snd (append_blocks ex blocks g) = true /\
      same_fs f' (fst (append_blocks ex blocks g)) /\ pool_ok f' pl'.
Proof.
  intros Hcut. induction blocks as [|[n data] blocks IH]; intros f g pl Hfg Hex Hok;
    cbn [append_blocks_pool append_blocks].
  - exists f, pl. cbn [fst snd]. auto.
  - destruct (find_export ex n) as [lit|] eqn:Hfe; [|now apply IH].
    destruct (find_export_in_snd _ _ _ Hfe) as (n' & Hin).
    destruct (proj1 (Forall_forall _ _) Hex _ Hin) as (q & old & Hc & Hl). cbn [snd] in *.
    destruct (block_through_pool cap lit (cut data) f pl q old Hok Hc Hl) as (f1 & pl1 & -> & Hok1 & Hs1).
    rewrite Hcut in Hs1.
    rewrite (append_path_ok g lit data q old);
      [|now rewrite <- (same_fs_canonicalize f g lit Hfg)|now rewrite <- (Hfg q)].
    apply IH.
    + apply (same_fs_trans _ _ _ Hs1). now apply same_fs_set.
    + eapply Forall_impl; [|exact Hex]. intros e He.
      apply (writable_same (set f q (File (old ++ data)))); [now apply same_fs_sym|].
      now apply writable_set with (d := old).
    + exact Hok1.
Qed.

(* the pre-pass leaves every entry of `export` appendable *)
Lemma create_all_writable out names : forall f f1 ex b,
  create_all out names f = (f1, ex, b) -> exports_writable f1 ex.
Proof.
  induction names as [|n names IH]; intros f f1 ex b; cbn [create_all].
  - intros H; inversion H; subst. constructor.
  - destruct (create_file out n f) as [f0 o] eqn:Hcf.
    destruct (create_file_any_fs _ _ _ _ _ Hcf) as [_ Hc].
    destruct o as [lit cp| |].
    + destruct (create_all out names f0) as [[f2 ex2] ok] eqn:Hca.
      destruct (create_all_any_fs _ _ _ _ _ _ Hca) as [Hev _].
      intros H; inversion H; subst. constructor; [|exact (IH _ _ _ _ Hca)].
      destruct (Hc lit cp eq_refl) as (_ & Hl & Hcan & _). cbn [snd].
      destruct (ev_file _ _ _ Hev cp [] Hl) as [d' Hl'].
      exists cp, d'. split; [exact (canonicalize_stable out f0 f1 lit cp Hev Hcan)|exact Hl'].
    + intros H. exact (IH _ _ _ _ H).
    + intros H; inversion H; subst. constructor.
Qed.

(* in the model phase 2 cannot fail: every append-mode re-open finds the file the pre-pass made *)
Theorem extract_linear_status out names blocks f :
  snd (extract_linear out names blocks f) = snd (create_all out names f).
Proof.
  unfold extract_linear. destruct (create_all out names f) as [[f1 ex] ok] eqn:Hca.
  destruct ok; [|reflexivity]. cbn [snd].
  destruct (append_blocks_pool_same 0 (fun d => [d]) ex (fun d => app_nil_r d) blocks f1 f1 []
              (same_fs_refl f1) (create_all_writable _ _ _ _ _ _ Hca) (pool_ok_nil f1))
    as (_ & _ & _ & H & _). exact H.
Qed.

(* MAIN THEOREM (A), whole form.  ANY capacity, ANY cutting of the blocks into write buffers
   (an empty block makes no call), any names, any blocks in any interleaving, any initial file
   system: the whole-archive form run THROUGH THE POOL ends with the same status and the same
   file system (every lookup equal) as Path.extract_linear, the form of every C16 theorem. *)
Theorem extract_linear_pool_same cap cut out names blocks f :
  (forall d, concat (cut d) = d) ->
  exists f', extract_linear_pool RAppend cap cut out names blocks f =
               (f', snd (extract_linear out names blocks f)) /\
             same_fs f' (fst (extract_linear out names blocks f)).
Proof.
  intros Hcut. unfold extract_linear_pool, extract_linear.
  destruct (create_all out names f) as [[f1 ex] ok] eqn:Hca.
  destruct ok; [|exists f1; split; [reflexivity|apply same_fs_refl]].
  destruct (append_blocks_pool_same cap cut ex Hcut blocks f1 f1 []
              (same_fs_refl f1) (create_all_writable _ _ _ _ _ _ Hca) (pool_ok_nil f1))
    as (f' & pl' & -> & Hs & Hsame & _).
  exists f'. rewrite Hs. split; [reflexivity|exact Hsame].
Qed.

(* C16, first half, through the pool *)
Theorem linear_through_pool_confined cap cut out names blocks f f' b :
  (forall d, concat (cut d) = d) ->
  extract_linear_pool RAppend cap cut out names blocks f = (f', b) -> evolves out f f'.
Proof.
  intros Hcut H. destruct (extract_linear_pool_same cap cut out names blocks f Hcut) as (f2 & E & Hs).
  rewrite E in H. inversion H; subst f2.
  apply (same_fs_evolves out f (fst (extract_linear out names blocks f))); [|now apply same_fs_sym].
  destruct (extract_linear out names blocks f) as [f3 b3] eqn:El.
  exact (extract_linear_any_fs _ _ _ _ _ _ El).
Qed.

(* C16, second half (benign members, clear way), through the pool *)
Theorem linear_through_pool_benign cap cut out names blocks f :
  (forall d, concat (cut d) = d) ->
  real_dir f out -> Forall (fun n => benign out (n, [])) names ->
  pairwise unrelated (map norm names) ->
  Forall (fun n => clear_path out f (norm n)) names ->
  exists f', extract_linear_pool RAppend cap cut out names blocks f = (f', true) /\
    (forall name, In name names ->
       read_file f' (out ++ norm name) =
         Some (concat (map snd (filter (fun b => bytes_eqb (fst b) name) blocks)))) /\
    (forall p, ~ prefix out p -> lookup f' p = lookup f p).
Proof.
  intros Hcut Hr Hb Hpw Hcl.
  destruct (benign_extracted_linear_any_fs out names blocks f Hr Hb Hpw Hcl) as (f2 & E2 & Hread & Hout).
  destruct (extract_linear_pool_same cap cut out names blocks f Hcut) as (f' & E & Hs).
  rewrite E2 in E, Hs. cbn [fst snd] in *.
  exists f'. split; [exact E|]. split.
  - intros name Hn. rewrite (same_fs_read_file f' f2 _ Hs). now apply Hread.
  - intros p Hp. rewrite (Hs p). now apply Hout.
Qed.

(* ================================================================== *)
(** * 8. At most `cap` handles are open at any moment *)

Lemma pool_remove_length pl p h : pool_find pl p = Some h -> (S (length (pool_remove pl p)) <= length pl)%nat.
Proof.
  induction pl as [|[k h0] pl IH]; cbn [pool_find pool_remove]; [discriminate|].
  destruct (path_eqb k p).
  - intros _. cbn [length]. clear IH. induction pl as [|[k1 h1] pl IH]; cbn [pool_remove length]; [lia|].
    destruct (path_eqb k1 p); cbn [length]; lia.
  - intros H. cbn [length]. specialize (IH H). lia.
Qed.

Lemma removelast_length {A} (l : list A) : l <> [] -> S (length (removelast l)) = length l.
Proof.
  intros H. destruct (exists_last H) as (l' & x & ->). rewrite removelast_last, app_length. cbn; lia.
Qed.

Lemma pool_write_length m cap p d f pl f1 pl1 : (1 <= cap)%nat ->
  pool_write m cap p d f pl = Some (f1, pl1) -> (length pl1 <= Nat.max (length pl) cap)%nat.
Proof.
  intros Hcap. unfold pool_write. destruct (pool_find pl p) as [h|] eqn:Hf.
  - destruct (handle_write f h d) as [f2 h2]. intros H; inversion H; subst.
    cbn [length]. pose proof (pool_remove_length pl p h Hf). lia.
  - destruct (pool_open m f p) as [[f0 h]|]; [|discriminate].
    destruct (handle_write f0 h d) as [f2 h2]. intros H; inversion H; subst.
    cbn [length]. unfold pool_evict. destruct (length pl <? cap)%nat eqn:E.
    + apply Nat.ltb_lt in E. lia.
    + apply Nat.ltb_ge in E. assert (Hne : pl <> []) by (intros ->; cbn in E; lia).
      rewrite (removelast_length pl Hne). lia.
Qed.

(* any mode, any capacity >= 1 (NonZeroUsize in the source), any calls *)
Theorem pool_bounded m cap ws : (1 <= cap)%nat -> forall f pl,
  (length pl <= cap)%nat -> (pool_peak m cap ws f pl <= cap)%nat.
Proof.
  intros Hcap. induction ws as [|[p d] ws IH]; intros f pl Hl; cbn [pool_peak]; [exact Hl|].
  destruct (pool_write m cap p d f pl) as [[f1 pl1]|] eqn:Hw; [|exact Hl].
  pose proof (pool_write_length m cap p d f pl f1 pl1 Hcap Hw).
  specialize (IH f1 pl1). lia.
Qed.

(* ================================================================== *)
(** * 9. The cuts *)

Lemma chunks_fuel_concat k : (1 <= k)%nat -> forall fuel d, (length d <= fuel)%nat ->
  concat (chunks_fuel fuel k d) = d.
Proof.
  intros Hk. induction fuel as [|fuel IH]; intros d Hl; cbn [chunks_fuel].
  - destruct d; [reflexivity|cbn in Hl; lia].
  - destruct d as [|x d]; [reflexivity|]. cbn [concat].
    rewrite IH; [apply firstn_skipn|].
    rewrite skipn_length. cbn [length] in *. lia.
Qed.

Lemma copy_cut_concat d : concat (copy_cut d) = d.
Proof.
  apply chunks_fuel_concat; [|apply Nat.le_refl].
  apply Nat.leb_le. vm_compute. reflexivity.
Qed.

Lemma whole_cut_concat d : concat (whole_cut d) = d.
Proof. destruct d; [reflexivity|]. cbn [whole_cut concat]. apply app_nil_r. Qed.

(* ================================================================== *)
(** * 10. The wrong re-opens are refuted (capacity 1, two members, three blocks) *)

Definition pool_out : path := [s2b "out"].
Definition pool_fs0 : fs := [(pool_out, Dir)].
Definition pool_names : list bytes := [s2b "a"; s2b "b"].
Definition pool_blocks : list (bytes * bytes) := [(s2b "a", s2b "11"); (s2b "b", s2b "2"); (s2b "a", s2b "3")].

(* the code (append): a = "113", b = "2", with a pool of ONE handle *)
Example pool_cap1_append :
  let r := extract_linear_pool RAppend 1 whole_cut pool_out pool_names pool_blocks pool_fs0 in
  snd r = true /\ read_file (fst r) (pool_out ++ [s2b "a"]) = Some (s2b "113") /\
  read_file (fst r) (pool_out ++ [s2b "b"]) = Some (s2b "2").
Proof. vm_compute. repeat split. Qed.

(* `.write(true).truncate(true)`: the second re-open of "a" empties it *)
Theorem pool_reopen_truncate_refuted :
  exists cap out names blocks f f',
    cap = 1%nat /\ length names = 2%nat /\ length blocks = 3%nat /\
    extract_linear_pool RTruncate cap whole_cut out names blocks f = (f', true) /\
    read_file f' (out ++ [s2b "a"]) = Some (s2b "3") /\
    read_file (fst (extract_linear out names blocks f)) (out ++ [s2b "a"]) = Some (s2b "113") /\
    ~ same_fs f' (fst (extract_linear out names blocks f)).
Proof.
  exists 1%nat, pool_out, pool_names, pool_blocks, pool_fs0. eexists.
  split; [reflexivity|]. split; [reflexivity|]. split; [reflexivity|].
  split; [vm_compute; reflexivity|]. split; [vm_compute; reflexivity|]. split; [vm_compute; reflexivity|].
  intros H. specialize (H (pool_out ++ [s2b "a"])). vm_compute in H. discriminate.
Qed.

(* `.write(true)` (the seeded changes C12-m2 / C16-m3): the second re-open of "a" starts at
   offset 0 and overwrites its beginning *)
Theorem pool_reopen_write_refuted :
  exists cap out names blocks f f',
    cap = 1%nat /\
    extract_linear_pool RWrite cap whole_cut out names blocks f = (f', true) /\
    read_file f' (out ++ [s2b "a"]) = Some (s2b "31") /\
    read_file (fst (extract_linear out names blocks f)) (out ++ [s2b "a"]) = Some (s2b "113").
Proof.
  exists 1%nat, pool_out, pool_names, pool_blocks, pool_fs0. eexists.
  split; [reflexivity|]. split; [vm_compute; reflexivity|]. split; vm_compute; reflexivity.
Qed.

(* with room for both members the wrong modes go unnoticed: the defect needs an eviction *)
Example pool_cap2_wrong_modes_unnoticed :
  read_file (fst (extract_linear_pool RWrite 2 whole_cut pool_out pool_names pool_blocks pool_fs0))
            (pool_out ++ [s2b "a"]) = Some (s2b "113") /\
  read_file (fst (extract_linear_pool RTruncate 2 whole_cut pool_out pool_names pool_blocks pool_fs0))
            (pool_out ++ [s2b "a"]) = Some (s2b "113").
Proof. vm_compute. split; reflexivity. Qed.

(* the pre-pass is what creates a member that never receives a byte: without it (phase 2 alone)
   an empty member does not exist afterwards *)
Example prepass_creates_empty_members :
  let names := [s2b "e"; s2b "a"] in
  let blocks := [(s2b "a", s2b "x"); (s2b "e", [])] in
  read_file (fst (extract_linear_pool RAppend 1 whole_cut pool_out names blocks pool_fs0))
            (pool_out ++ [s2b "e"]) = Some [] /\
  pool_peak RAppend 1 [(pool_out ++ [s2b "e"], [])] pool_fs0 [] = 0%nat /\
  pool_run RAppend 1 [(pool_out ++ [s2b "e"], s2b "x")] pool_fs0 [] = (pool_fs0, [], false).
Proof. vm_compute. repeat split. Qed.

Print Assumptions pool_transparent.
Print Assumptions extract_linear_pool_same.
Print Assumptions linear_through_pool_benign.
Print Assumptions pool_bounded.
