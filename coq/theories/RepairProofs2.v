(* RepairProofs2.v — the output writer of the repair loop, represented by the list of blocks
   it has emitted: every call the loop makes succeeds, keeps the list well-formed and is
   recorded in a history of successful writer calls from the initial state. *)
From MLA Require Import Limit.
From MLA Require Import Base Stream Blocks Writer RepairSpec RepairPure.
From Coq Require Import ZifyBool ZifyNat ZifyN.
Open Scope N_scope.

Definition open_list (fs : list frec) : list (N * bytes) :=
  flat_map (fun f => if f_ended f then [] else [(f_id f, f_data f)]) fs.
Definition name_list (fs : list frec) : list (bytes * N) := map (fun f => (f_name f, f_id f)) fs.

Lemma open_list_cons x fs :
  open_list (x :: fs) = (if f_ended x then [] else [(f_id x, f_data x)]) ++ open_list fs.
Proof. reflexivity. Qed.
Lemma open_list_app a b : open_list (a ++ b) = open_list a ++ open_list b.
Proof. apply flat_map_app. Qed.

Lemma alookup_open fs id f : find_id fs id = Some f -> f_ended f = false ->
  alookup (open_list fs) id = Some (f_data f).
Proof.
  induction fs as [|x r IH]; [discriminate|]. rewrite find_id_cons, open_list_cons.
  destruct (f_id x =? id) eqn:E.
  - intros [= ->] He. rewrite He. cbn [app alookup]. now rewrite E.
  - intros Hf He. destruct (f_ended x); cbn [app alookup]; rewrite ?E; auto.
Qed.

Lemma upd_data_other i d f : f_id f <> i -> upd_data i d f = f.
Proof. intros Hn. unfold upd_data. destruct (N.eqb_spec (f_id f) i); [contradiction | reflexivity]. Qed.
Lemma upd_end_other i f : f_id f <> i -> upd_end i f = f.
Proof. intros Hn. unfold upd_end. destruct (N.eqb_spec (f_id f) i); [contradiction | reflexivity]. Qed.
Lemma map_upd_data_notin i d fs : ~ In i (map f_id fs) -> map (upd_data i d) fs = fs.
Proof.
  induction fs as [|x r IH]; cbn [map In]; [reflexivity|]. intros Hn.
  rewrite upd_data_other, IH; [reflexivity | |]; intuition.
Qed.
Lemma map_upd_end_notin i fs : ~ In i (map f_id fs) -> map (upd_end i) fs = fs.
Proof.
  induction fs as [|x r IH]; cbn [map In]; [reflexivity|]. intros Hn.
  rewrite upd_end_other, IH; [reflexivity | |]; intuition.
Qed.
Lemma aupdate_notin {A} (l : list (N * A)) k g : ~ In k (map fst l) -> aupdate l k g = l.
Proof.
  induction l as [|[k' v] r IH]; cbn [aupdate map fst In]; [reflexivity|]. intros Hn.
  destruct (N.eqb_spec k' k); [intuition|]. rewrite IH; intuition.
Qed.
Lemma aremove_notin {A} (l : list (N * A)) k : ~ In k (map fst l) -> aremove l k = l.
Proof.
  induction l as [|[k' v] r IH]; cbn [aremove map fst In]; [reflexivity|]. intros Hn.
  destruct (N.eqb_spec k' k); [intuition|]. rewrite IH; intuition.
Qed.
Lemma open_list_keys fs k : In k (map fst (open_list fs)) -> In k (map f_id fs).
Proof.
  induction fs as [|x r IH]; [auto|]. rewrite open_list_cons, map_app, in_app_iff. cbn [map In].
  intros [Hk|Hk]; [|auto]. destruct (f_ended x); cbn in Hk; intuition.
Qed.

Lemma aupdate_open i d fs : ids_nodup fs ->
  aupdate (open_list fs) i (fun h => h ++ d) = open_list (map (upd_data i d) fs).
Proof.
  unfold ids_nodup. induction fs as [|x r IH]; [reflexivity|]. cbn [map]. intros Hnd.
  inversion Hnd as [|? ? Hx Hr]; subst. rewrite !open_list_cons.
  destruct (N.eqb_spec (f_id x) i) as [E|E].
  - subst i. rewrite (map_upd_data_notin _ _ _ Hx).
    unfold upd_data at 1 2 3. rewrite N.eqb_refl. cbn [f_ended f_id f_data].
    destruct (f_ended x); cbn [app aupdate].
    + apply aupdate_notin. intros Hk. apply Hx. now apply open_list_keys.
    + now rewrite N.eqb_refl.
  - rewrite (upd_data_other _ _ _ E). rewrite <- IH by exact Hr.
    destruct (f_ended x); cbn [app aupdate]; [reflexivity|].
    destruct (N.eqb_spec (f_id x) i); [contradiction | reflexivity].
Qed.
Lemma aremove_open i fs : ids_nodup fs ->
  aremove (open_list fs) i = open_list (map (upd_end i) fs).
Proof.
  unfold ids_nodup. induction fs as [|x r IH]; [reflexivity|]. cbn [map]. intros Hnd.
  inversion Hnd as [|? ? Hx Hr]; subst. rewrite !open_list_cons.
  destruct (N.eqb_spec (f_id x) i) as [E|E].
  - subst i. rewrite (map_upd_end_notin _ _ Hx).
    unfold upd_end at 1 2 3. rewrite N.eqb_refl. cbn [f_ended f_id f_data].
    destruct (f_ended x); cbn [app aremove].
    + apply aremove_notin. intros Hk. apply Hx. now apply open_list_keys.
    + now rewrite N.eqb_refl.
  - rewrite (upd_end_other _ _ E). rewrite <- IH by exact Hr.
    destruct (f_ended x); cbn [app aremove]; [reflexivity|].
    destruct (N.eqb_spec (f_id x) i); [contradiction | reflexivity].
Qed.
Lemma open_list_all_ended fs : (forall f, In f fs -> f_ended f = true) -> open_list fs = [].
Proof.
  induction fs as [|x r IH]; [reflexivity|]. intros Ha. rewrite open_list_cons, (Ha x) by (left; reflexivity).
  apply IH. intros f Hf. apply Ha. now right.
Qed.
Lemma name_used_none fs name : find_name fs name = None -> name_used (name_list fs) name = false.
Proof.
  unfold name_used, name_list. induction fs as [|x r IH]; [reflexivity|].
  rewrite find_name_cons. cbn [map existsb fst]. destruct (bytes_eqb (f_name x) name); [discriminate | exact IH].
Qed.
Lemma find_id_none_lt fs n : Forall (fun f => f_id f < n) fs -> find_id fs n = None.
Proof.
  induction 1 as [|x r Hx Hr IH]; [reflexivity|]. rewrite find_id_cons.
  destruct (N.eqb_spec (f_id x) n); [lia | exact IH].
Qed.

Section WriterRep.
  Context {LIM : Limit}.
  Variable FNMAX : N.
  Variables T_START T_CONTENT T_EOA T_EOF : N.
  Variable H : bytes -> bytes.
  Notation ser_block := (ser_block T_START T_CONTENT T_EOA T_EOF).
  Notation w_start := (w_start FNMAX T_START T_CONTENT T_EOA T_EOF).
  Notation w_append := (w_append T_CONTENT).
  Notation w_end := (w_end T_START T_CONTENT T_EOA T_EOF H).
  Notation w_finalize := (w_finalize_with T_START T_CONTENT T_EOA T_EOF (fun f => f)).
  Notation wstep := (wstep FNMAX T_START T_CONTENT T_EOA T_EOF H (fun f => f)).
  Notation wrun := (wrun FNMAX T_START T_CONTENT T_EOA T_EOF H (fun f => f)).
  Notation wf_step := (wf_step FNMAX H).
  Notation wf_from := (wf_from FNMAX H).

  Definition body (bl : list block) : bytes := concat (map ser_block bl).
  Lemma body_app a b : body (a ++ b) = body a ++ body b.
  Proof. unfold body. now rewrite map_app, concat_app. Qed.
  Lemma body_one b : body [b] = ser_block b.
  Proof. unfold body. cbn [map concat]. apply app_nil_r. Qed.

  (* all calls so far succeeded *)
  Definition all_ok (rs : list (res N)) : Prop := Forall (fun r => is_ok r = true) rs.
  Definition history (out : wstate) : Prop :=
    exists ops rs, wrun w_init ops = (out, rs) /\ all_ok rs.

  Lemma wrun_snoc s ops o : wrun s (ops ++ [o]) =
    let '(s1, rs) := wrun s ops in let '(s2, r) := wstep s1 o in (s2, rs ++ [r]).
  Proof.
    revert s. induction ops as [|o1 ops IH]; intros s; cbn [app Writer.wrun].
    - destruct (wstep s o) as [s2 r]. reflexivity.
    - destruct (wstep s o1) as [s1 x]. rewrite IH.
      destruct (wrun s1 ops) as [s2 xs]. destruct (wstep s2 o) as [s3 r]. reflexivity.
  Qed.
  Lemma history_step out o out' v : history out -> wstep out o = (out', Ok v) -> history out'.
  Proof.
    intros (ops & rs & Hrun & Hok) Hs. exists (ops ++ [o]), (rs ++ [Ok v]).
    rewrite wrun_snoc, Hrun, Hs. split; [reflexivity|].
    apply Forall_app. split; [exact Hok | constructor; [reflexivity | constructor]].
  Qed.

  Lemma wf_from_snoc : forall l fs b, wf_from fs l -> ~ In BEnd l -> wf_step (frun fs l) b ->
    wf_from fs (l ++ [b]).
  Proof.
    induction l as [|x l IH]; intros fs b Hw Hn Hs; cbn [app RepairSpec.wf_from].
    - cbn in Hs. auto.
    - destruct Hw as (Hx & Hl & Hw). repeat split; [exact Hx | | ].
      + intros ->. exfalso. apply Hn. now left.
      + apply IH; [exact Hw | intros Hi; apply Hn; now right | exact Hs].
  Qed.

  Record Wrep (out : wstate) (obl : list block) : Prop := {
    wr_out : w_out out = body obl;
    wr_final : w_final out = false;
    wr_open : w_open out = open_list (files_of obl);
    wr_files : w_files out = name_list (files_of obl);
    wr_next : Forall (fun f => f_id f < w_next out) (files_of obl);
    wr_wf : wf_from [] obl;
    wr_noend : ~ In BEnd obl;
    wr_hist : history out;
  }.

  Lemma Wrep_init : Wrep w_init [].
  Proof.
    constructor; try reflexivity; try (now constructor); [intros []|].
    exists [], []. split; [reflexivity | constructor].
  Qed.

  Lemma files_of_snoc obl b : files_of (obl ++ [b]) = fstep (files_of obl) b.
  Proof. unfold files_of. now rewrite frun_app. Qed.

  Lemma Wrep_nodup out obl : Wrep out obl -> ids_nodup (files_of obl).
  Proof. intros W. apply (frun_nodup FNMAX H); [constructor | exact (wr_wf _ _ W)]. Qed.
  Lemma Wrep_names_nodup out obl : Wrep out obl -> names_nodup (files_of obl).
  Proof. intros W. apply (frun_names_nodup FNMAX H); [constructor | exact (wr_wf _ _ W)]. Qed.

  Lemma Wrep_start out obl name : Wrep out obl ->
    find_name (files_of obl) name = None -> len name <= FNMAX -> utf8_valid name = true ->
    exists out', w_start out name = (out', Ok (w_next out)) /\
                 Wrep out' (obl ++ [BStart (w_next out) name]) /\ w_next out' = w_next out + 1.
  Proof.
    intros W Hn Hl Hu.
    assert (Hstep : wf_step (files_of obl) (BStart (w_next out) name)).
    { cbn [RepairSpec.wf_step]. repeat split; try assumption. apply find_id_none_lt. exact (wr_next _ _ W). }
    assert (Hw : w_start out name = (emit (mkW (w_out out) false (w_open out ++ [(w_next out, [])])
              (w_files out ++ [(name, w_next out)]) (w_ids out ++ [(w_next out, mkFI [w_pos out] 0 0)])
              (w_next out + 1) (w_next out)) (ser_block (BStart (w_next out) name)), Ok (w_next out))).
    { unfold Writer.w_start. rewrite (wr_final _ _ W).
      destruct (N.ltb_spec FNMAX (len name)); [lia|].
      rewrite (wr_files _ _ W), (name_used_none _ _ Hn). reflexivity. }
    eexists. split; [exact Hw|]. split; [|reflexivity].
    constructor; cbn [emit w_out w_final w_open w_files w_next]; rewrite ?files_of_snoc; cbn [fstep].
    - rewrite body_app, body_one, (wr_out _ _ W). reflexivity.
    - reflexivity.
    - rewrite open_list_app, (wr_open _ _ W). reflexivity.
    - rewrite (wr_files _ _ W). unfold name_list. rewrite map_app. reflexivity.
    - apply Forall_app. split.
      + eapply Forall_impl; [|exact (wr_next _ _ W)]. cbn beta. intros; lia.
      + constructor; [cbn [f_id]; lia | constructor].
    - apply wf_from_snoc; [exact (wr_wf _ _ W) | exact (wr_noend _ _ W) | exact Hstep].
    - intros Hi. apply in_app_or in Hi. destruct Hi as [Hi|[Hi|[]]]; [exact (wr_noend _ _ W Hi) | discriminate].
    - apply (history_step out (OStart name) _ (w_next out) (wr_hist _ _ W)). exact Hw.
  Qed.

  Lemma mark_cont_fields s id :
    w_out (mark_cont s id) = w_out s /\ w_final (mark_cont s id) = w_final s /\
    w_open (mark_cont s id) = w_open s /\ w_files (mark_cont s id) = w_files s /\
    w_next (mark_cont s id) = w_next s.
  Proof. unfold mark_cont. destruct (id =? w_cur s); auto. Qed.

  Lemma Wrep_append out obl id f data : Wrep out obl ->
    find_id (files_of obl) id = Some f -> f_ended f = false -> data <> [] ->
    exists out', w_append out id (len data) data = (out', Ok 0) /\
                 Wrep out' (obl ++ [BContent id data]) /\ w_next out' = w_next out.
  Proof.
    intros W Hf He Hd.
    assert (Hstep : wf_step (files_of obl) (BContent id data)) by (exists f; auto).
    assert (Hl : len data <> 0) by (intros Hz; apply Hd; now apply len_0_nil).
    destruct (mark_cont_fields out id) as (M1 & M2 & M3 & M4 & M5).
    assert (Hw : exists out', w_append out id (len data) data = (out', Ok 0) /\
       w_out out' = w_out out ++ ser_block (BContent id data) /\ w_final out' = false /\
       w_open out' = aupdate (w_open out) id (fun h => h ++ data) /\ w_files out' = w_files out /\
       w_next out' = w_next out).
    { unfold Writer.w_append. rewrite (wr_final _ _ W), (wr_open _ _ W), (alookup_open _ _ _ Hf He).
      destruct (N.eqb_spec (len data) 0); [contradiction|].
      destruct (N.ltb_spec (len data) (len data)); [lia|].
      eexists. split; [reflexivity|]. cbn [w_out w_final w_open w_files w_next].
      rewrite M1, M3, M4, M5, (wr_open _ _ W), takeN_all by lia. cbn [Blocks.ser_block]. auto. }
    destruct Hw as (out' & Hw & O1 & O2 & O3 & O4 & O5).
    exists out'. split; [exact Hw|]. split; [|exact O5].
    constructor; rewrite ?files_of_snoc; cbn [fstep].
    - rewrite body_app, body_one, O1, (wr_out _ _ W). reflexivity.
    - exact O2.
    - rewrite O3, (wr_open _ _ W). apply aupdate_open. exact (Wrep_nodup _ _ W).
    - rewrite O4, (wr_files _ _ W). unfold name_list. rewrite map_map. apply map_ext.
      intros x. now rewrite upd_data_name, upd_data_id.
    - rewrite O5. apply Forall_map. eapply Forall_impl; [|exact (wr_next _ _ W)].
      cbn beta. intros x Hx. now rewrite upd_data_id.
    - apply wf_from_snoc; [exact (wr_wf _ _ W) | exact (wr_noend _ _ W) | exact Hstep].
    - intros Hi. apply in_app_or in Hi. destruct Hi as [Hi|[Hi|[]]]; [exact (wr_noend _ _ W Hi) | discriminate].
    - apply (history_step out (OAppend id (len data) data) _ 0 (wr_hist _ _ W)). exact Hw.
  Qed.

  Lemma Wrep_append_0 out obl id f : Wrep out obl ->
    find_id (files_of obl) id = Some f -> f_ended f = false ->
    w_append out id 0 [] = (out, Ok 0).
  Proof.
    intros W Hf He. unfold Writer.w_append.
    rewrite (wr_final _ _ W), (wr_open _ _ W), (alookup_open _ _ _ Hf He). reflexivity.
  Qed.

  Lemma Wrep_end out obl id f : Wrep out obl ->
    find_id (files_of obl) id = Some f -> f_ended f = false ->
    exists out', w_end out id = (out', Ok 0) /\
                 Wrep out' (obl ++ [BEof id (H (f_data f))]) /\ w_next out' = w_next out.
  Proof.
    intros W Hf He.
    assert (Hstep : wf_step (files_of obl) (BEof id (H (f_data f)))) by (exists f; auto).
    destruct (mark_cont_fields out id) as (M1 & M2 & M3 & M4 & M5).
    assert (Hw : exists out', w_end out id = (out', Ok 0) /\
       w_out out' = w_out out ++ ser_block (BEof id (H (f_data f))) /\ w_final out' = false /\
       w_open out' = aremove (w_open out) id /\ w_files out' = w_files out /\
       w_next out' = w_next out).
    { unfold Writer.w_end. rewrite (wr_final _ _ W), (wr_open _ _ W), (alookup_open _ _ _ Hf He).
      eexists. split; [reflexivity|]. cbn [emit w_out w_final w_open w_files w_next].
      rewrite M1, M3, M4, M5, (wr_open _ _ W). auto. }
    destruct Hw as (out' & Hw & O1 & O2 & O3 & O4 & O5).
    exists out'. split; [exact Hw|]. split; [|exact O5].
    constructor; rewrite ?files_of_snoc; cbn [fstep].
    - rewrite body_app, body_one, O1, (wr_out _ _ W). reflexivity.
    - exact O2.
    - rewrite O3, (wr_open _ _ W). apply aremove_open. exact (Wrep_nodup _ _ W).
    - rewrite O4, (wr_files _ _ W). unfold name_list. rewrite map_map. apply map_ext.
      intros x. now rewrite upd_end_name, upd_end_id.
    - rewrite O5. apply Forall_map. eapply Forall_impl; [|exact (wr_next _ _ W)].
      cbn beta. intros x Hx. now rewrite upd_end_id.
    - apply wf_from_snoc; [exact (wr_wf _ _ W) | exact (wr_noend _ _ W) | exact Hstep].
    - intros Hi. apply in_app_or in Hi. destruct Hi as [Hi|[Hi|[]]]; [exact (wr_noend _ _ W Hi) | discriminate].
    - apply (history_step out (OEnd id) _ 0 (wr_hist _ _ W)). exact Hw.
  Qed.

  (* finalize: all files ended; the footer fits the bincode limit and the u32 length field *)
  Lemma Wrep_finalize out obl : Wrep out obl ->
    (forall f, In f (files_of obl) -> f_ended f = true) ->
    len (ser_footer_map (w_footer out)) <= lim -> len (ser_footer_map (w_footer out)) < 2 ^ 32 ->
    exists out', w_finalize out = (out', Ok 0) /\ w_final out' = true /\
      w_out out' = body (obl ++ [BEnd]) ++ ser_footer (w_footer out) /\
      w_files out' = name_list (files_of obl) /\
      wf_from [] (obl ++ [BEnd]) /\ history out'.
  Proof.
    intros W Ha Hl H32.
    assert (Hw : w_finalize out =
      (mkW (w_out out ++ ser_block BEnd ++ ser_footer (w_footer out)) true [] (w_files out)
           (w_ids out) (w_next out) (w_cur out), Ok 0)).
    { unfold Writer.w_finalize_with. rewrite (wr_final _ _ W), (wr_open _ _ W), (open_list_all_ended _ Ha).
      cbv zeta.
      destruct (N.ltb_spec lim (len (ser_footer_map (w_footer out)))); [lia|].
      destruct (N.leb_spec (2 ^ 32) (len (ser_footer_map (w_footer out)))); [lia|].
      reflexivity. }
    eexists. split; [exact Hw|]. cbn [w_final w_out w_files]. split; [reflexivity|]. split; [|split; [|split]].
    - rewrite body_app, body_one, (wr_out _ _ W), <- app_assoc. reflexivity.
    - exact (wr_files _ _ W).
    - apply wf_from_snoc; [exact (wr_wf _ _ W) | exact (wr_noend _ _ W) | exact Ha].
    - apply (history_step out OFinalize _ 0 (wr_hist _ _ W)). exact Hw.
  Qed.
  (* ... and otherwise finalize fails with SerializationError (after the end marker) *)
  Lemma Wrep_finalize_unfit out obl : Wrep out obl ->
    (forall f, In f (files_of obl) -> f_ended f = true) ->
    lim < len (ser_footer_map (w_footer out)) \/ 2 ^ 32 <= len (ser_footer_map (w_footer out)) ->
    exists out', w_finalize out = (out', Err EDeser).
  Proof.
    intros W Ha Hbig.
    unfold Writer.w_finalize_with. rewrite (wr_final _ _ W), (wr_open _ _ W), (open_list_all_ended _ Ha).
    cbv zeta.
    destruct (N.ltb_spec lim (len (ser_footer_map (w_footer out)))); [eexists; reflexivity|].
    destruct (N.leb_spec (2 ^ 32) (len (ser_footer_map (w_footer out)))); [eexists; reflexivity|lia].
  Qed.
End WriterRep.
