(* PoolTie.v — Tie A for the writer pool of `mlar extract`: the generated facts about
   mlar/src/main.rs (gen/Src.v, tools/src2v.py block "extract pool") are the ones Pool.v models:
   capacity FILE_WRITER_POOL_SIZE, the miss path opens with exactly `.append(true)` (no write /
   truncate / create flag), order contains -> open -> put -> get_mut -> write, the pre-pass calls
   create_file for EVERY sorted name before linear_extract and drops the handle it returns. *)
From MLA Require Import Base Path Pool.
From MLAGen Require Src.
Import Coq.Strings.String.StringSyntax.

Lemma pool_source_facts :
  N.of_nat POOL_CAP = Src.FILE_WRITER_POOL_SIZE /\
  Src.POOL_reopen_flags = s2b "append" :: nil /\
  Src.POOL_miss_then_put_then_get_mut = true /\
  Src.EXTRACT_prepass_create_file_for_every_name_before_linear_extract = true /\
  Src.EXTRACT_prepass_handle_dropped = true.
Proof. repeat split; vm_compute; reflexivity. Qed.

(* the re-open mode of the model is the one the flags spell *)
Definition reopen_of_flags (fl : list bytes) : option reopen :=
  if list_eqb bytes_eqb fl [s2b "append"] then Some RAppend
  else if list_eqb bytes_eqb fl [s2b "write"] then Some RWrite
  else if list_eqb bytes_eqb fl [s2b "truncate"; s2b "write"] then Some RTruncate
  else None.

Lemma pool_reopen_mode_src : reopen_of_flags Src.POOL_reopen_flags = Some RAppend.
Proof. vm_compute. reflexivity. Qed.
