(* RunC17Info.v — Tie B entry points of the `mlar info` family of job c17 (work package info):
   the command model of CliInfo.v evaluated on what the real binary was run on.
     c17i_arch   the model READS THE REAL ARCHIVE BYTES (header; for archives with compression and
                 without encryption also raw layer, compression reader with brotli as a table of the
                 archive's own blocks decoded by the `brotli` crate, size table, footer);
                 encrypted + compressed archives only WITHOUT key (the key policy decides)
     c17i_spec   what C17_info_reports_layers says of an archive made by create (any layers):
                 the text from the create arguments, the input sizes and the compressed size
     c17i_rate   the two-decimal rendering of the f64 quotient (CliInfo.rate_text) on pairs
   Rows: [0; exit status] then [1 :: line] per line of standard output. *)
From MLA Require Import Limit.
From MLAGen Require Src.
(* executable entry points: the production value of BINCODE_MAX_DESERIALIZE (the same in both flavours), file-local *)
#[local] Instance RUN_LIMIT : Limit := MLAGen.Src.BINCODE_MAX_DESERIALIZE_prod.
From MLA Require Import Base Stream Inst Blocks Reader Format Ecies Archive CompLayer CliInfo CliInfoProofs RunC17.
From MLAGen Require Src.
Open Scope N_scope.

Fixpoint split_lines (b cur : bytes) : list bytes :=
  match b with
  | [] => match cur with [] => [] | _ => [cur] end
  | x :: r => if x =? 10 then cur :: split_lines r [] else split_lines r (cur ++ [x])
  end.

Definition ires_rows (r : ires) : list (list N) :=
  [0; i_status r] :: map (fun l => 1 :: l) (split_lines (i_stdout r) []).

Definition table_dec (table : list (list bytes)) (cb : bytes) : bytes :=
  match find (fun p => bytes_eqb (nth 0 p []) cb) table with Some p => nth 1 p [] | None => [] end.

Definition c17i_cmd (K : consts) (ovf verbose : N) (table : list (list bytes)) (a : bytes) (nkeys : N) : ires :=
  cmd_info (cCHUNK K) (cTAG K) (cBLOCK K) c17_LIMIT c17_b2 c17_b1 c17_b2 c17_b2 c17_ksf c17_tagf (table_dec table)
    (ovf =? 1) (verbose =? 1) a (repeat [1] (N.to_nat nkeys)).

Definition c17i_arch (K : consts) (a : bytes) (nkeys verbose ovf : N) (table : list (list bytes)) : list (list N) :=
  ires_rows (c17i_cmd K ovf verbose table a nkeys).

Definition c17i_spec (_ : consts) (verbose enc nrec cmp fsz csz : N) : list (list N) :=
  ires_rows (mkIres 0 (info_text (verbose =? 1) (enc =? 1) nrec (cmp =? 1) fsz csz)).

Definition c17i_rate (_ : consts) (pairs : list (list N)) : list (list N) :=
  map (fun p => rate_text (nth 0 p 0) (nth 1 p 0)) pairs.

(* ---------- crash sites of `info` reached by crafted archives (witnesses) ---------- *)
(* "MLA", version 1, layers = ENCRYPT, Option tag 0 (no encryption configuration): 9 bytes *)
Definition W_ENC_NONE : bytes := [77; 76; 65; 1; 0; 0; 0; 1; 0].
(* the same with layers = ENCRYPT | COMPRESS *)
Definition W_ENC_NONE_COMP : bytes := [77; 76; 65; 1; 0; 0; 0; 3; 0].

(* a compressed archive whose footer names two files of 2^63 bytes each: header, one "compressed"
   block, SizesInfo; the decompressor is the table sending the block to footer ++ length *)
Definition W_FOOT : Blocks.footer := [([97], Blocks.mkFI [0] (2 ^ 63) 0); ([98], Blocks.mkFI [0] (2 ^ 63) 0)].
Definition W_PLAIN : bytes := let f := Blocks.ser_footer_map W_FOOT in f ++ le_bytes 4 (len f).
Definition W_CB : bytes := [11; 22; 33].
Definition W_SUM : bytes := [77; 76; 65; 1; 0; 0; 0; 2; 0] ++ comp_wire [W_CB] (len W_PLAIN).
Definition W_TABLE : list (list bytes) := [[W_CB; W_PLAIN]].
(* an empty footer: no file; and a size table [0]... the rate 0 / 3 *)

Definition wit (verbose ovf : N) (table : list (list bytes)) (a : bytes) : ires := c17i_cmd consts_prod ovf verbose table a 0.

(* `info -v`: the ENCRYPT bit without an encryption configuration reaches
   header.config.encrypt.expect("Encryption config not found") — two lines are out, status 101 *)
Lemma info_expect_encrypt_reachable :
  wit 1 1 [] W_ENC_NONE = mkIres 101 (line_version ++ line_enc true) /\
  (* without -v the same header is reported with status 0 *)
  wit 0 1 [] W_ENC_NONE = mkIres 0 (line_version ++ line_enc true ++ line_comp false) /\
  (* with the COMPRESS bit too: load_persistent refuses first (IncoherentPersistentConfig), status 1 *)
  wit 1 1 [] W_ENC_NONE_COMP = mkIres 1 [].
Proof. repeat split; vm_compute; reflexivity. Qed.

(* `info -v`: the u64 sum of the sizes in the footer overflows: a panic where overflow checks are
   compiled in (three lines are out), a wrapped sum (here 0: rate 0.00) where they are not *)
Lemma info_files_sum_overflow_reachable :
  wit 1 1 W_TABLE W_SUM = mkIres 101 (line_version ++ line_enc false ++ line_comp true) /\
  wit 1 0 W_TABLE W_SUM = mkIres 0 (line_version ++ line_enc false ++ line_comp true ++ line_rate 0 3) /\
  wit 0 1 W_TABLE W_SUM = mkIres 0 (line_version ++ line_enc false ++ line_comp true).
Proof. repeat split; vm_compute; reflexivity. Qed.

(* the division: a footer without files over a non-empty compressed stream prints 0.00; the
   quotient's special values need a compressed size of 0, i.e. a size table summing to 0 *)
Lemma rate_text_values :
  rate_text 0 3 = [48; 46; 48; 48] /\ rate_text 5 0 = [105; 110; 102] /\ rate_text 0 0 = [78; 97; 78] /\
  rate_text 1 8 = [48; 46; 49; 50] (* 0.125: tie, to even *) /\ rate_text 3 8 = [48; 46; 51; 56] (* 0.375 -> 0.38 *) /\
  rate_text 5035 174 = [50; 56; 46; 57; 52] /\ rate_text (2 ^ 64 - 1) 1 = dec_of (2 ^ 64) ++ [46; 48; 48].
Proof. repeat split; vm_compute; reflexivity. Qed.
