(* SrcTie3Cmds2Inst.v — the instantiation of the reader side of gen/Src3m.v's CmdSrc section by the MODEL's library functions
   (work package cmdsT2), shared by the ties of to-tar, cat, list and convert:
     ArchiveReader = an opened reader over one of a family of streams (F p; for the commands on archive bytes: Archive.stack_of a p)
     ArchiveFile   = what get_file hands out: the reader it borrows, the block reader, the name asked for, the size of the index
     list_files / get_file / get_hash = Reader.list_files / get_file / get_hash;  io::copy = Cli.io_copy (8 KiB reads to the end)
     dropping the ArchiveFile gives the reader back where the copy stopped (Cli.after_copy)
   and the reading of a run's result as the model's cres (exit status, output file effect, standard output). *)
From MLA Require Import Limit.
From MLA Require Import Base Stream Blocks Writer Reader Format Ecies Archive Path Tar Cli.
From MLAGen Require Src3m.
From Coq Require Import Lia ZifyBool ZifyNat ZifyN.
Open Scope N_scope.

Record AFile (S : Stream) := mkAF { af_r : rstate S; af_bs : bstate S; af_nm : bytes; af_sz : N }.
Arguments mkAF {S}. Arguments af_r {S}. Arguments af_bs {S}. Arguments af_nm {S}. Arguments af_sz {S}.

Section Inst.
  Context {LIM : Limit}.
  Variables FNMAX TS TC TA TE : N.
  Variable P : Type.
  Variable F : P -> Stream.
  Variables zf fuel : nat.

  Definition ARm : Type := { p : P & rstate (F p) }.
  Definition AFm : Type := { p : P & AFile (F p) }.

  Definition list_files_m (m : ARm) : ARm * res (list bytes) := (m, Ok (list_files (F (projT1 m)) (projT2 m))).
  Definition get_file_m (m : ARm) (n : bytes) : ARm * res (option AFm) :=
    let (p, r) := m in
    match get_file FNMAX TS TC TA TE (F p) r n with
    | (r1, Ok (Some (bs, sz))) => (existT _ p r1, Ok (Some (existT _ p (mkAF r1 bs n sz))))
    | (r1, Ok None) => (existT _ p r1, Ok None)
    | (r1, Err e) => (existT _ p r1, Err e)
    | (r1, Crash c) => (existT _ p r1, Crash c)
    end.
  Definition get_hash_m (m : ARm) (n : bytes) : ARm * res (option bytes) :=
    let (p, r) := m in
    match get_hash FNMAX TS TC TA TE (F p) r n with (r1, x) => (existT _ p r1, x) end.
  Definition af_filename_m (f : AFm) : bytes := af_nm (projT2 f).
  Definition af_size_m (f : AFm) : N := af_sz (projT2 f).
  Definition af_release_m (f : AFm) : ARm := let (p, x) := f in existT _ p (after_copy (af_r x) (af_bs x)).
  Definition io_copy_m (f : AFm) : AFm * bytes * res unit :=
    let (p, x) := f in
    match io_copy FNMAX TS TC TA TE (F p) zf fuel (af_bs x) [] with
    | (bs', d, e) => (existT _ p (mkAF (af_r x) bs' (af_nm x) (af_sz x)), d, e)
    end.

  (* get_file leaves the reader's source where the block reader starts: dropping an ArchiveFile nothing was read from gives the
     reader back as get_file left it *)
  Lemma get_file_after_copy S (r r1 : rstate S) n bs sz :
    get_file FNMAX TS TC TA TE S r n = (r1, Ok (Some (bs, sz))) -> after_copy r1 bs = r1.
  Proof.
    unfold get_file. destruct (flookup (r_meta r) n) as [fi|]; [|discriminate].
    destruct (Blocks.fi_offsets fi) as [|o0 os]; [discriminate|].
    destruct (sk S (r_src r) (FromStart o0)) as [s1 [v|e|c]]; [|discriminate|discriminate].
    destruct (parse_block FNMAX TS TC TA TE S s1) as [s2 [[id nm|id l|id h|]|e|c]]; try discriminate.
    intros [= <- <- _]. reflexivity.
  Qed.
End Inst.

(* ---------- the world of Src3m, read as the model's observation ---------- *)
(* the run starts in a world where nothing was created or printed *)
Definition world0 : Src3m.World := Src3m.mkW OUntouched OUntouched [].
Definition cres_of (g : Src3m.World * res unit) : cres := mkCR (is_ok (snd g)) (Src3m.w_out (fst g)) (Src3m.w_stdout (fst g)).

Lemma dest_write_app d b1 b2 w : Src3m.dest_write d b2 (Src3m.dest_write d b1 w) = Src3m.dest_write d (b1 ++ b2) w.
Proof.
  destruct d as [|[|]]; destruct w as [o pb so]; unfold Src3m.dest_write, Src3m.print_line, Src3m.w_set; cbn [Src3m.w_out Src3m.w_pub Src3m.w_stdout].
  - rewrite <- app_assoc. reflexivity.
  - destruct o; cbn [Src3m.out_append]; [reflexivity|]. rewrite <- app_assoc. reflexivity.
  - destruct pb; cbn [Src3m.out_append]; [reflexivity|]. rewrite <- app_assoc. reflexivity.
Qed.
Lemma dest_write_nil d w : Src3m.w_out w <> OUntouched -> Src3m.w_pub w <> OUntouched -> Src3m.dest_write d [] w = w.
Proof.
  destruct d as [|[|]]; destruct w as [o pb so]; unfold Src3m.dest_write, Src3m.print_line, Src3m.w_set; cbn [Src3m.w_out Src3m.w_pub Src3m.w_stdout]; intros H1 H2.
  - rewrite app_nil_r. reflexivity.
  - destruct o; [congruence|]. cbn [Src3m.out_append]. rewrite app_nil_r. reflexivity.
  - destruct pb; [congruence|]. cbn [Src3m.out_append]. rewrite app_nil_r. reflexivity.
Qed.
