(* RepairSize2Flush.v — the C14 flush theorems (ComposeFlush.v, ComposeFlushAt.v,
   ComposeFlushComp.v, ComposeFsComp.v) with the premise on the RESULT
       repair ... <> Err EDeser        (finalize did not fail with SerializationError)
   REPLACED by a premise on a SIZE:
       fits_limit (len (w_out s))      i.e.  8 + 3 * len (w_out s) <= min lim (2^32 - 1)
   where w_out s is the block stream the top layer had been handed when the flush returned.
   Conclusions unchanged.  Why the block stream and not the destination bytes:
     * no layer: they are the same bytes;
     * encryption: len (w_out s) <= len (ew_out es) (`flush_stream_le_wire`: the decryptor
       delivers no more than the ciphertext holds, RepairSize2.len_fs_output_le), so the premise
       follows from the same bound on the destination bytes — it is the weaker premise;
     * compression: the decompressor expands (D is any function under the DecoderLaws), so no
       bound in the compressed size exists; the repair loop reads fs_spec D bs w = w_out s. *)
From MLA Require Import Limit.
From MLA Require Import Base Stream Blocks Writer WriterProofs Repair RepairSpec RepairPure
  RepairProofs2 RepairProofs5 RepairProofs6 EncLayer EncAuth EncAuthFs EncAuthC EncWriter EncWriterProofs EncFlushProofs
  FlushProofs Run ComposeRdOnly RepairMask ComposeRepair ComposeWriterRun ComposeFlush ComposeFlushAt
  CompFailSafe CompFailSafeProofs CompFailSafeStep CompFailSafeSticky FsCompStream ComposeFsComp ComposeFlushComp
  RepairSize RepairSizeWrap RepairSizeFlush RepairSize2.
From Coq Require Import ZifyBool ZifyNat ZifyN.
Open Scope N_scope.

(* ---------- part 2 of props/C14.v: one clean run, the flush at its end ---------- *)
Section OneRun.
  Context {LIM : Limit}.
  Variable FNMAX CACHE : N.
  Hypothesis HFN : FNMAX < 2 ^ 64.
  Hypothesis HCACHE : 0 < CACHE.
  Variables T_START T_CONTENT T_EOA T_EOF : N.
  Hypothesis Htags : T_START <> T_CONTENT /\ T_START <> T_EOA /\ T_START <> T_EOF /\
                     T_CONTENT <> T_EOA /\ T_CONTENT <> T_EOF /\ T_EOA <> T_EOF.
  Variable H : bytes -> bytes.
  Hypothesis H_len : forall x, len (H x) = 32.
  Variable order : footer -> footer.
  Notation body := (body T_START T_CONTENT T_EOA T_EOF).
  Notation repair := (repair FNMAX CACHE T_START T_CONTENT T_EOA T_EOF H).
  Notation wf_blocks := (wf_blocks FNMAX H).
  Notation good_output := (good_output FNMAX T_START T_CONTENT T_EOA T_EOF H).
  Notation wrun := (wrun FNMAX T_START T_CONTENT T_EOA T_EOF H order).
  Notation appended := (appended FNMAX T_START T_CONTENT T_EOA T_EOF H order).
  Notation recovers_all := (recovers_all FNMAX T_START T_CONTENT T_EOA T_EOF H order).

  Variables (ops : list wop) (s : wstate) (rs : list (res N)).
  Hypothesis Hrun : wrun w_init ops = (s, rs).
  Hypothesis Hclean : Forall (fun x => clean (fst x) (snd x)) (combine ops rs).
  Hypothesis Hops : Forall op_ok ops.
  Hypothesis Hnext : w_next s < 2 ^ 64.

  Variables CHUNK TAG CIPHERBUF : N.
  Hypothesis HCHUNK : 0 < CHUNK.
  Hypothesis HTAG : 0 < TAG.
  Variable ks : N -> N -> N.
  Variable tagc : N -> bytes -> bytes.
  Hypothesis Htagc : forall i c, len (tagc i c) = TAG.
  Notation FsEnc := (FsEnc CHUNK TAG ks tagc).
  Notation fs_open := (fs_open CHUNK TAG ks).
  Variables (pieces : list bytes) (fuelw : nat) (es : ewstate).
  Hypothesis Hpieces : concat pieces = w_out s.
  Hypothesis Hew : ew_write_pieces CHUNK CIPHERBUF ks tagc fuelw ew_init pieces = Ok es.
  Hypothesis Hbigp : len (w_out s) / CHUNK < 2 ^ 32.
  Hypothesis Hbig : len (ew_out es) / (CHUNK + TAG) + 2 <= 2 ^ 32.

  (* encryption, DataEvenUnauthenticated *)
  Theorem flush_then_repair_enc_size fuel : (N.to_nat (len (w_out s)) < fuel)%nat ->
    fits_limit (len (w_out s)) ->
    exists e0 b, fs_open (Cursor (ew_out es)) 0 = (e0, Ok b) /\
      recovers_all s ops (repair (FsEnc true (Cursor (ew_out es))) fuel e0 w_init).
  Proof.
    intros Hf Hfit.
    destruct (flush_then_repair_enc FNMAX CACHE HFN HCACHE T_START T_CONTENT T_EOA T_EOF Htags H H_len order
                ops s rs Hrun Hclean Hops Hnext CHUNK TAG CIPHERBUF HCHUNK HTAG ks tagc Htagc pieces fuelw es
                Hpieces Hew Hbigp Hbig fuel Hf) as (e0 & b & Ho & Hc).
    exists e0, b. split; [exact Ho|]. apply Hc.
    exact (flush_enc_no_ser FNMAX CACHE HFN HCACHE T_START T_CONTENT T_EOA T_EOF Htags H H_len s Hnext
             CHUNK TAG CIPHERBUF HCHUNK HTAG ks tagc Htagc pieces fuelw es Hpieces Hew Hbigp Hbig
             true fuel e0 b Hfit Ho).
  Qed.

  (* encryption, authenticated mode *)
  Theorem flush_then_repair_enc_auth_size fuel : (N.to_nat (len (w_out s)) < fuel)%nat ->
    fits_limit (len (w_out s)) ->
    exists e0 b, fs_open (Cursor (ew_out es)) 0 = (e0, Ok b) /\
    exists m bl status unfinished out obl,
      ew_ctr es * CHUNK <= m /\ m <= len (w_out s) /\ (ew_ctr es = 0 -> m = len (w_out s)) /\
      w_out s = body bl /\ wf_blocks bl /\ w_files s = name_list (files_of bl) /\
      repair (FsEnc false (Cursor (ew_out es))) fuel e0 w_init = Ok (status, unfinished, out) /\
      good_output out obl /\
      (forall f, In f (files_of bl) -> content_of (files_of obl) (f_name f) = present (f_id f) bl m) /\
      (forall id, data_of_id (files_of bl) id = appended id w_init ops).
  Proof.
    intros Hf Hfit.
    destruct (flush_then_repair_enc_auth FNMAX CACHE HFN HCACHE T_START T_CONTENT T_EOA T_EOF Htags H H_len order
                ops s rs Hrun Hclean Hops Hnext CHUNK TAG CIPHERBUF HCHUNK HTAG ks tagc Htagc pieces fuelw es
                Hpieces Hew Hbigp Hbig fuel Hf) as (e0 & b & Ho & Hc).
    exists e0, b. split; [exact Ho|]. apply Hc.
    exact (flush_enc_no_ser FNMAX CACHE HFN HCACHE T_START T_CONTENT T_EOA T_EOF Htags H H_len s Hnext
             CHUNK TAG CIPHERBUF HCHUNK HTAG ks tagc Htagc pieces fuelw es Hpieces Hew Hbigp Hbig
             false fuel e0 b Hfit Ho).
  Qed.
End OneRun.

(* the block stream is no longer than what the encryption writer handed to the destination:
   a bound on the destination bytes implies the size premise of the encryption theorems *)
Lemma flush_stream_le_wire FNMAX CACHE (HFN : FNMAX < 2 ^ 64) (HCACHE : 0 < CACHE)
    (T_START T_CONTENT T_EOA T_EOF : N)
    (Htags : T_START <> T_CONTENT /\ T_START <> T_EOA /\ T_START <> T_EOF /\
             T_CONTENT <> T_EOA /\ T_CONTENT <> T_EOF /\ T_EOA <> T_EOF)
    (H : bytes -> bytes) (H_len : forall x, len (H x) = 32) (s : wstate) (Hnext : w_next s < 2 ^ 64)
    (CHUNK TAG CIPHERBUF : N) (HCHUNK : 0 < CHUNK) (HTAG : 0 < TAG) ks tagc
    (Htagc : forall i c, len (tagc i c) = TAG) pieces fuelw es :
  concat pieces = w_out s ->
  ew_write_pieces CHUNK CIPHERBUF ks tagc fuelw ew_init pieces = Ok es ->
  len (w_out s) / CHUNK < 2 ^ 32 -> len (ew_out es) / (CHUNK + TAG) + 2 <= 2 ^ 32 ->
  len (w_out s) <= len (ew_out es).
Proof.
  intros Hpieces Hew Hbigp Hbig.
  rewrite <- (unauth_output_is FNMAX CACHE HFN HCACHE T_START T_CONTENT T_EOA T_EOF Htags H H_len s Hnext
                CHUNK TAG CIPHERBUF HCHUNK HTAG ks tagc Htagc pieces fuelw es Hpieces Hew Hbigp Hbig) at 1.
  apply (len_fs_output_le CHUNK TAG ks HCHUNK tagc true).
Qed.

(* ---------- part 4 of props/C14.v: a flush at any position of any call list ---------- *)
Section FlushAtSize.
  Context {LIM : Limit}.
  Variable FNMAX CACHE : N.
  Hypothesis HFN : FNMAX < 2 ^ 64.
  Hypothesis HCACHE : 0 < CACHE.
  Variables T_START T_CONTENT T_EOA T_EOF : N.
  Hypothesis Htags : T_START <> T_CONTENT /\ T_START <> T_EOA /\ T_START <> T_EOF /\
                     T_CONTENT <> T_EOA /\ T_CONTENT <> T_EOF /\ T_EOA <> T_EOF.
  Variable H : bytes -> bytes.
  Hypothesis H_len : forall x, len (H x) = 32.
  Variable order : footer -> footer.
  Notation body := (body T_START T_CONTENT T_EOA T_EOF).
  Notation repair := (repair FNMAX CACHE T_START T_CONTENT T_EOA T_EOF H).
  Notation wf_blocks := (wf_blocks FNMAX H).
  Notation good_output := (good_output FNMAX T_START T_CONTENT T_EOA T_EOF H).
  Notation wrun := (wrun FNMAX T_START T_CONTENT T_EOA T_EOF H order).
  Notation appended := (appended FNMAX T_START T_CONTENT T_EOA T_EOF H order).
  Notation recovers_all := (recovers_all FNMAX T_START T_CONTENT T_EOA T_EOF H order).
  Notation recovers_all_st := (recovers_all_st FNMAX T_START T_CONTENT T_EOA T_EOF H order).

  Variables (pre post : list wop) (sfin : wstate) (rsall : list (res N)).
  Hypothesis Hrun : wrun w_init (pre ++ OFlush :: post) = (sfin, rsall).
  Let s : wstate := fst (wrun w_init pre).
  Hypothesis Hclean : Forall (fun x => clean (fst x) (snd x)) (combine pre rsall).
  Hypothesis Hops : Forall op_ok pre.
  Hypothesis Hnext : w_next s < 2 ^ 64.

  (* no layer *)
  Theorem flush_at_plain_size S I s0 fuel :
    RdRefines (rd S) (w_out s) I -> I s0 0 -> (N.to_nat (len (w_out s)) < fuel)%nat ->
    fits_limit (len (w_out s)) ->
    recovers_all s pre (repair S fuel s0 w_init).
  Proof.
    intros HR HI Hf Hfit.
    exact (flush_at_plain FNMAX CACHE HFN HCACHE T_START T_CONTENT T_EOA T_EOF Htags H H_len order pre post sfin rsall
             Hrun Hclean Hops Hnext S I s0 fuel HR HI Hf
             (repair_no_ser_rd FNMAX CACHE T_START T_CONTENT T_EOA T_EOF H S (w_out s) I fuel s0 HR HI Hfit)).
  Qed.

  (* ---- encryption ---- *)
  Section Enc.
    Variables CHUNK TAG CIPHERBUF : N.
    Hypothesis HCHUNK : 0 < CHUNK.
    Hypothesis HTAG : 0 < TAG.
    Variable ks : N -> N -> N.
    Variable tagc : N -> bytes -> bytes.
    Hypothesis Htagc : forall i c, len (tagc i c) = TAG.
    Notation FsEnc := (FsEnc CHUNK TAG ks tagc).
    Notation fs_open := (fs_open CHUNK TAG ks).
    Notation fs_output := (fs_output CHUNK TAG ks tagc).
    Variables (pieces : list bytes) (fuelw : nat) (es : ewstate).
    Hypothesis Hpieces : concat pieces = w_out s.
    Hypothesis Hew : ew_write_pieces CHUNK CIPHERBUF ks tagc fuelw ew_init pieces = Ok es.
    Hypothesis Hbigp : len (w_out s) / CHUNK < 2 ^ 32.
    Hypothesis Hbig : len (ew_out es) / (CHUNK + TAG) + 2 <= 2 ^ 32.
    Variable Sin : Stream.
    Variable Rin : st Sin -> N -> Prop.
    Hypothesis Hin : Seekable Sin (ew_out es) Rin.
    Variable i0 : st Sin.
    Hypothesis Hi0 : Rin i0 0.

    (* either mode delivers at most the block stream *)
    Lemma flush_fs_output_le unauth : len (fs_output unauth (ew_out es)) <= len (w_out s).
    Proof.
      pose proof (unauth_output_is FNMAX CACHE HFN HCACHE T_START T_CONTENT T_EOA T_EOF Htags H H_len s Hnext
                    CHUNK TAG CIPHERBUF HCHUNK HTAG ks tagc Htagc pieces fuelw es Hpieces Hew Hbigp Hbig) as Hu.
      destruct unauth; [rewrite Hu; lia|].
      rewrite <- Hu. apply prefix_len. cbn [ComposeRepair.fs_output]. apply (fs_auth_prefix_of_unauth CHUNK TAG HCHUNK).
    Qed.

    Lemma flush_at_enc_no_ser unauth fuel e0 b :
      fits_limit (len (w_out s)) -> fs_open Sin i0 = (e0, Ok b) ->
      repair (FsEnc unauth Sin) fuel e0 w_init <> Err EDeser.
    Proof.
      intros Hfit Ho.
      apply (fsenc_no_ser_skb FNMAX CACHE T_START T_CONTENT T_EOA T_EOF H CHUNK TAG HCHUNK ks tagc unauth
               Sin (ew_out es) Rin i0 fuel e0 b Hin Hbig Hi0 Ho).
      exact (fits_limit_mono _ _ (flush_fs_output_le unauth) Hfit).
    Qed.

    Theorem flush_at_enc_size fuel : (N.to_nat (len (w_out s)) < fuel)%nat ->
      fits_limit (len (w_out s)) ->
      exists e0 b, fs_open Sin i0 = (e0, Ok b) /\
        recovers_all s pre (repair (FsEnc true Sin) fuel e0 w_init).
    Proof.
      intros Hf Hfit.
      destruct (flush_at_enc FNMAX CACHE HFN HCACHE T_START T_CONTENT T_EOA T_EOF Htags H H_len order pre post sfin rsall
                  Hrun Hclean Hops Hnext CHUNK TAG CIPHERBUF HCHUNK HTAG ks tagc Htagc pieces fuelw es
                  Hpieces Hew Hbigp Hbig Sin Rin Hin i0 Hi0 fuel Hf) as (e0 & b & Ho & Hc).
      exists e0, b. split; [exact Ho|]. apply Hc. exact (flush_at_enc_no_ser true fuel e0 b Hfit Ho).
    Qed.

    Theorem flush_at_enc_auth_size fuel : (N.to_nat (len (w_out s)) < fuel)%nat ->
      fits_limit (len (w_out s)) ->
      exists e0 b, fs_open Sin i0 = (e0, Ok b) /\
      exists m bl status unfinished out obl,
        ew_ctr es * CHUNK <= m /\ m <= len (w_out s) /\ (ew_ctr es = 0 -> m = len (w_out s)) /\
        w_out s = body bl /\ wf_blocks bl /\ w_files s = name_list (files_of bl) /\
        repair (FsEnc false Sin) fuel e0 w_init = Ok (status, unfinished, out) /\
        good_output out obl /\
        (forall f, In f (files_of bl) -> content_of (files_of obl) (f_name f) = present (f_id f) bl m) /\
        (forall id, data_of_id (files_of bl) id = appended id w_init pre).
    Proof.
      intros Hf Hfit.
      destruct (flush_at_enc_auth FNMAX CACHE HFN HCACHE T_START T_CONTENT T_EOA T_EOF Htags H H_len order pre post sfin rsall
                  Hrun Hclean Hops Hnext CHUNK TAG CIPHERBUF HCHUNK HTAG ks tagc Htagc pieces fuelw es
                  Hpieces Hew Hbigp Hbig Sin Rin Hin i0 Hi0 fuel Hf) as (e0 & b & Ho & Hc).
      exists e0, b. split; [exact Ho|]. apply Hc. exact (flush_at_enc_no_ser false fuel e0 b Hfit Ho).
    Qed.
  End Enc.

  (* ---- compression ---- *)
  Section Comp.
    Variables BLOCK FSBUF : N.
    Hypothesis HFSBUF : 0 < FSBUF.
    Hypothesis HBLOCK32 : BLOCK < 2 ^ 32.
    Variable dstate : Type.
    Variable dinit : dstate.
    Variable dstep : dstate -> bytes -> N -> dresult * N * bytes * dstate.
    Variable D : bytes -> bytes.
    Variable fin : bytes -> bool.
    Hypothesis L : DecoderLaws dinit dstep D fin.
    Variable tail : bytes.
    Hypothesis Htail : dead D fin tail.
    Variable bs : list (bytes * bytes).
    Hypothesis Hbs : Forall (good_block BLOCK D fin) bs.
    Variable w : bytes.
    Hypothesis Hw : prefix w (wire_of tail bs).
    Hypothesis Hflush : fs_spec D bs w = w_out s.
    Variable pfuel : nat.
    Hypothesis Hpf : (N.to_nat (2 * len w + 1) < pfuel)%nat.
    Notation FsComp := (FsComp BLOCK FSBUF dstate dinit dstep pfuel).

    (* compression only *)
    Theorem flush_at_comp_size (Sin : Stream) (Rin : st Sin -> N -> Prop) i0 fuel :
      SrcRefines Sin w Rin -> Rin i0 0 -> (N.to_nat (len (w_out s)) < fuel)%nat ->
      fits_limit (len (w_out s)) ->
      recovers_all_st s pre (repair (FsComp Sin) fuel (FReady i0) w_init).
    Proof.
      intros HS HR Hf Hfit.
      apply (flush_at_comp FNMAX CACHE HFN HCACHE T_START T_CONTENT T_EOA T_EOF Htags H H_len order pre post sfin rsall
               Hrun Hclean Hops Hnext BLOCK FSBUF HFSBUF HBLOCK32 dstate dinit dstep D fin L tail Htail
               bs Hbs w Hw Hflush pfuel Hpf Sin Rin i0 fuel HS HR Hf).
      apply (fscomp_no_ser FNMAX CACHE T_START T_CONTENT T_EOA T_EOF H BLOCK FSBUF HFSBUF HBLOCK32 dstate dinit dstep
               D fin L tail Htail bs Hbs pfuel Sin w Rin i0 fuel HS Hw Hpf HR).
      rewrite Hflush. exact Hfit.
    Qed.

    (* compression over encryption *)
    Section CompEnc.
      Variables CHUNK TAG CIPHERBUF : N.
      Hypothesis HCHUNK : 0 < CHUNK.
      Hypothesis HTAG : 0 < TAG.
      Variable ks : N -> N -> N.
      Variable tagc : N -> bytes -> bytes.
      Hypothesis Htagc : forall i c, len (tagc i c) = TAG.
      Notation FsEnc := (FsEnc CHUNK TAG ks tagc).
      Notation fs_open := (fs_open CHUNK TAG ks).
      Notation fs_output := (fs_output CHUNK TAG ks tagc).
      Variables (pieces : list bytes) (fuelw : nat) (es : ewstate).
      Hypothesis Hpieces : concat pieces = w.
      Hypothesis Hew : ew_write_pieces CHUNK CIPHERBUF ks tagc fuelw ew_init pieces = Ok es.
      Hypothesis Hbigp : len w / CHUNK < 2 ^ 32.
      Hypothesis Hbig : len (ew_out es) / (CHUNK + TAG) + 2 <= 2 ^ 32.
      Variable Sin : Stream.
      Variable Rin : st Sin -> N -> Prop.
      Hypothesis Hin : Seekable Sin (ew_out es) Rin.
      Variable i0 : st Sin.
      Hypothesis Hi0 : Rin i0 0.

      (* either mode of the decryptor delivers a prefix of w *)
      Lemma comp_enc_output_prefix unauth : prefix (fs_output unauth (ew_out es)) w.
      Proof.
        pose proof (unauth_output_w FNMAX CACHE HFN HCACHE T_START T_CONTENT T_EOA T_EOF Htags H H_len order pre Hnext
                      BLOCK FSBUF HFSBUF HBLOCK32 w pfuel Hpf CHUNK TAG CIPHERBUF HCHUNK HTAG ks tagc Htagc
                      pieces fuelw es Hpieces Hew Hbigp Hbig) as Hu.
        destruct unauth; [rewrite Hu; apply prefix_refl|].
        apply (prefix_trans _ (fs_output true (ew_out es))); [|rewrite Hu; apply prefix_refl].
        cbn [ComposeRepair.fs_output]. apply (fs_auth_prefix_of_unauth CHUNK TAG HCHUNK).
      Qed.

      Lemma flush_at_comp_enc_no_ser unauth fuel e0 b :
        fits_limit (len (w_out s)) -> fs_open Sin i0 = (e0, Ok b) ->
        repair (FsComp (FsEnc unauth Sin)) fuel (@FReady dstate (FsEnc unauth Sin) e0) w_init <> Err EDeser.
      Proof.
        intros Hfit Ho.
        pose proof (comp_enc_output_prefix unauth) as Hp.
        pose proof (prefix_len _ _ Hp) as Hl.
        apply (fscomp_fsenc_no_ser FNMAX CACHE T_START T_CONTENT T_EOA T_EOF H BLOCK FSBUF HFSBUF HBLOCK32 dstate dinit dstep
                 D fin L tail Htail bs Hbs pfuel CHUNK TAG HCHUNK ks tagc unauth Sin (ew_out es) Rin i0 fuel e0 b
                 Hin Hbig Hi0 Ho).
        - exact (prefix_trans _ _ _ Hp Hw).
        - lia.
        - apply (fits_limit_mono _ (len (w_out s))); [|exact Hfit].
          rewrite <- Hflush. apply prefix_len.
          exact (fs_spec_mono BLOCK D fin (dl_fin_nil _ _ _ _ _ L) (D_mono_prefix _ dinit dstep D fin L)
                   tail bs Hbs _ _ Hp Hw).
      Qed.

      Theorem flush_at_comp_enc_size fuel : (N.to_nat (len (w_out s)) < fuel)%nat ->
        fits_limit (len (w_out s)) ->
        exists e0 b, fs_open Sin i0 = (e0, Ok b) /\
          recovers_all_st s pre (repair (FsComp (FsEnc true Sin)) fuel (@FReady dstate (FsEnc true Sin) e0) w_init).
      Proof.
        intros Hf Hfit.
        destruct (flush_at_comp_enc FNMAX CACHE HFN HCACHE T_START T_CONTENT T_EOA T_EOF Htags H H_len order pre post sfin rsall
                    Hrun Hclean Hops Hnext BLOCK FSBUF HFSBUF HBLOCK32 dstate dinit dstep D fin L tail Htail
                    bs Hbs w Hw Hflush pfuel Hpf CHUNK TAG CIPHERBUF HCHUNK HTAG ks tagc Htagc pieces fuelw es
                    Hpieces Hew Hbigp Hbig Sin Rin Hin i0 Hi0 fuel Hf) as (e0 & b & Ho & Hc).
        exists e0, b. split; [exact Ho|]. apply Hc. exact (flush_at_comp_enc_no_ser true fuel e0 b Hfit Ho).
      Qed.

      Theorem flush_at_comp_enc_auth_size fuel : (N.to_nat (len (w_out s)) < fuel)%nat ->
        fits_limit (len (w_out s)) ->
        exists e0 b, fs_open Sin i0 = (e0, Ok b) /\
        exists m k bl status unfinished out obl,
          ew_ctr es * CHUNK <= m /\ m <= len w /\ (ew_ctr es = 0 -> m = len w) /\
          k = len (fs_spec D bs (takeN m w)) /\ k <= len (w_out s) /\
          w_out s = body bl /\ wf_blocks bl /\ w_files s = name_list (files_of bl) /\
          repair (FsComp (FsEnc false Sin)) fuel (@FReady dstate (FsEnc false Sin) e0) w_init = Ok (status, unfinished, out) /\
          good_output out obl /\
          (forall f, In f (files_of bl) -> content_of (files_of obl) (f_name f) = present (f_id f) bl k) /\
          (forall id, data_of_id (files_of bl) id = appended id w_init pre).
      Proof.
        intros Hf Hfit.
        destruct (flush_at_comp_enc_auth FNMAX CACHE HFN HCACHE T_START T_CONTENT T_EOA T_EOF Htags H H_len order pre post sfin rsall
                    Hrun Hclean Hops Hnext BLOCK FSBUF HFSBUF HBLOCK32 dstate dinit dstep D fin L tail Htail
                    bs Hbs w Hw Hflush pfuel Hpf CHUNK TAG CIPHERBUF HCHUNK HTAG ks tagc Htagc pieces fuelw es
                    Hpieces Hew Hbigp Hbig Sin Rin Hin i0 Hi0 fuel Hf) as (e0 & b & Ho & Hc).
        exists e0, b. split; [exact Ho|]. apply Hc. exact (flush_at_comp_enc_no_ser false fuel e0 b Hfit Ho).
      Qed.
    End CompEnc.
  End Comp.
End FlushAtSize.

(* ---------- the repair loop over the decompressor (ComposeFsComp.repair_fscomp_exact) ---------- *)
Theorem repair_fscomp_exact_size {LIM : Limit} :
  forall BLOCK FSBUF : N, 0 < FSBUF -> BLOCK < 2 ^ 32 ->
  forall (dstate : Type) (dinit : dstate) dstep D fin, DecoderLaws dinit dstep D fin ->
  forall tail, dead D fin tail ->
  forall (Sin : Stream) (w : bytes) (Rin : st Sin -> N -> Prop), SrcRefines Sin w Rin ->
  forall bs, Forall (good_block BLOCK D fin) bs -> prefix w (wire_of tail bs) ->
  forall pfuel : nat, (N.to_nat (2 * len w + 1) < pfuel)%nat ->
  forall FNMAX CACHE : N, FNMAX < 2 ^ 64 -> 0 < CACHE ->
  forall TS TC TA TE : N,
    TS <> TC /\ TS <> TA /\ TS <> TE /\ TC <> TA /\ TC <> TE /\ TA <> TE ->
  forall H : bytes -> bytes, (forall x, len (H x) = 32) ->
  forall bl trailer i0 fuel,
    wf_blocks FNMAX H bl -> In BEnd bl \/ trailer = [] ->
    prefix (fs_spec D bs w) (body TS TC TA TE bl ++ trailer) ->
    Rin i0 0 -> (N.to_nat (len (fs_spec D bs w)) < fuel)%nat ->
    fits_limit (len (fs_spec D bs w)) ->
    exists status out obl,
      repair FNMAX CACHE TS TC TA TE H (FsComp BLOCK FSBUF dstate dinit dstep pfuel Sin) fuel (FReady i0) w_init
        = Ok (status, unfinished_of (recovered bl (len (fs_spec D bs w))), out) /\
      good_output FNMAX TS TC TA TE H out obl /\
      Forall2 same (recovered bl (len (fs_spec D bs w))) (files_of obl).
Proof.
  intros BLOCK FSBUF HFSBUF HB32 dstate dinit dstep D fin L tail Htail Sin w Rin HS bs Hbs Hw pfuel Hpf
         FNMAX CACHE HFN HCACHE TS TC TA TE Htags H H_len bl trailer i0 fuel Hwf Htr Hp HR Hf Hfit.
  apply (repair_fscomp_exact BLOCK FSBUF HFSBUF HB32 dstate dinit dstep D fin L tail Htail Sin w Rin HS bs Hbs Hw pfuel Hpf
           FNMAX CACHE HFN HCACHE TS TC TA TE Htags H H_len bl trailer i0 fuel Hwf Htr Hp HR Hf).
  exact (fscomp_no_ser FNMAX CACHE TS TC TA TE H BLOCK FSBUF HFSBUF HB32 dstate dinit dstep
           D fin L tail Htail bs Hbs pfuel Sin w Rin i0 fuel HS Hw Hpf HR Hfit).
Qed.
