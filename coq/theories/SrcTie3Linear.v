(* SrcTie3Linear.v — Tie A, level 1, for helpers::linear_extract and helpers::StreamWriter (work package
   linearT).  gen/Src3l.v (tools/src2v3_linear.py) holds the body of `linear_extract` — the rewind, the
   'read_block loop as a Fixpoint on a fuel, every arm, the `extracted` flag, both `io::copy` calls —
   translated statement by statement from /repo over an abstract Stream, the translated ArchiveReader of
   gen/Src3d.v and a record standing for the `export` map (keys, and in order what each writer received).
   This file proves it equal to Reader.linear_extract / lx_loop for EVERY stream, export list and fuel, and
   carries the C12 theorems over to the translated function.  An edit of an arm, of the order of two
   operations, of the insert-only-if-chosen test, of the exit or of the rewind changes the generated
   definition and a proof below stops compiling.

   Trusted primitives (tools/src2v3_linear.py lists them): BufReader is transparent; io::copy over a Take is
   Src3l.io_copy_take; ArchiveFileBlock::from is the TRANSLATED gen/Src3b.v function (= Blocks.parse_block by SrcTie3Block.block_from_src); a writer of `export` accepts all it is
   handed (sinks = the log of (name, piece)). *)
From MLA Require Import Limit.
From MLA Require Import Base Stream Blocks Builders Writer Reader LinearProofs SrcTie3Reader SrcTie3Block.
From MLA Require Import RoundTripBlocks RoundTripFooter RoundTripReader RoundTripWriter RoundTripRun
  RoundTripGlue RoundTrip LinearRoundTripDefs LinearRoundTripPure LinearRoundTrip.
From MLAGen Require Src3d Src3l.
From Coq Require Import ZifyBool ZifyNat ZifyN.
Open Scope N_scope.

(* ---------- HashMap<ArchiveFileID, String> = the model's association list ---------- *)
Lemma hm_get_src m k : Src3l.hm_get m k = id_lookup m k.
Proof. induction m as [|[k' v] r IH]; cbn [Src3l.hm_get id_lookup]; [reflexivity|]. now rewrite IH. Qed.
Lemma hm_remove_src m k : Src3l.hm_remove m k = id_remove m k.
Proof. induction m as [|[k' v] r IH]; cbn [Src3l.hm_remove id_remove]; [reflexivity|]. now rewrite IH. Qed.
Lemma hm_insert_src m k v : Src3l.hm_insert m k v = id_insert m k v.
Proof. unfold Src3l.hm_insert, id_insert. now rewrite hm_remove_src. Qed.
Lemma hm_contains_key_src keys log k : Src3l.hm_contains_key (Src3l.mkExport keys log) k = name_in keys k.
Proof. reflexivity. Qed.

(* a result together with the pieces delivered, read as the model's `res (list pieces)` *)
Definition res_of {A} (x : A) (r : res unit) : res A :=
  match r with Ok _ => Ok x | Err e => Err e | Crash c => Crash c end.

Section Tie.
  Context {LIM : Limit}.
  Variable S : Stream.
  Variables FNMAX T_START T_CONTENT T_EOA T_EOF : N.

  Notation pb := (parse_block FNMAX T_START T_CONTENT T_EOA T_EOF S).
  Notation g_loop := (Src3l.linear_extract_loop S FNMAX T_START T_CONTENT T_EOA T_EOF).
  Notation g_linear := (Src3l.linear_extract S FNMAX T_START T_CONTENT T_EOA T_EOF).
  Notation m_loop := (lx_loop FNMAX T_START T_CONTENT T_EOA T_EOF S).
  Notation m_linear := (Reader.linear_extract FNMAX T_START T_CONTENT T_EOA T_EOF S).

  (* ---------- io::copy(take(l), w) = Reader.copy_take ---------- *)
  Lemma io_copy_take_src fuel : forall s l acc,
    copy_take S fuel s l acc =
    let '(s', d, r) := Src3l.io_copy_take S fuel s l acc in (s', res_of d r).
  Proof.
    induction fuel as [|fuel IH]; intros s l acc; cbn [copy_take Src3l.io_copy_take].
    - destruct (l =? 0); reflexivity.
    - destruct (l =? 0); [reflexivity|].
      destruct (rd S s (N.min l 8192)) as [s1 [d|e|c]]; try reflexivity.
      destruct (len d =? 0); [reflexivity|]. destruct (l <? len d); [reflexivity|]. apply IH.
  Qed.

  (* ---------- the 'read_block loop = lx_loop ---------- *)
  (* the keys of `export` never change *)
  Lemma g_loop_keys fuel : forall e s ids, Src3l.ex_keys (fst (g_loop fuel e s ids)) = Src3l.ex_keys e.
  Proof.
    induction fuel as [|fuel IH]; intros e s ids; cbn [Src3l.linear_extract_loop]; [reflexivity|].
    rewrite (block_from_src S FNMAX T_START T_CONTENT T_EOA T_EOF s).
    destruct (pb s) as [s1 [blk|er|c]]; [|reflexivity|reflexivity].
    destruct blk as [id name|id l|id h|]; [| | apply IH | reflexivity].
    - destruct (Src3l.hm_contains_key e name); apply IH.
    - assert (Hsink : Src3l.ex_keys (fst (
          match Src3l.io_copy_take S (Datatypes.S fuel) s1 l [] with
          | (s2, _, r) => match r with Ok _ => g_loop fuel e s2 ids | Err e0 => (e, Err e0) | Crash x => (e, Crash x) end
          end)) = Src3l.ex_keys e).
      { destruct (Src3l.io_copy_take S (Datatypes.S fuel) s1 l []) as [[s2 d] [u|er|c]]; [apply IH|reflexivity|reflexivity]. }
      destruct (Src3l.hm_get ids id) as [fname|]; [|exact Hsink].
      destruct (Src3l.export_get_mut e fname) as [w|]; [|exact Hsink].
      destruct (Src3l.io_copy_take S (Datatypes.S fuel) s1 l []) as [[s2 d] [u|er|c]]; [|reflexivity|reflexivity].
      cbn [negb]. rewrite IH. reflexivity.
  Qed.

  (* the invariant of the model's proof of "only chosen names": every name in the id map is a key of
     `export` (an id is inserted only when contains_key held), so the source's second test
     `export.get_mut(fname)` always finds the writer *)
  Theorem lx_loop_sim fuel : forall s export ids acc,
    ids_chosen export ids ->
    let g := g_loop fuel (Src3l.mkExport export acc) s ids in
    res_of (Src3l.ex_log (fst g)) (snd g) = m_loop fuel s export ids acc.
  Proof.
    induction fuel as [|fuel IH]; intros s export ids acc Hids; cbn [Src3l.linear_extract_loop Reader.lx_loop];
      [reflexivity|].
    rewrite (block_from_src S FNMAX T_START T_CONTENT T_EOA T_EOF s).
    destruct (pb s) as [s1 [blk|er|c]]; [|reflexivity|reflexivity].
    destruct blk as [id name|id l|id h|].
    - rewrite hm_contains_key_src. destruct (name_in export name) eqn:En.
      + rewrite hm_insert_src. apply IH. apply ids_chosen_insert; assumption.
      + apply IH. exact Hids.
    - rewrite (io_copy_take_src (Datatypes.S fuel) s1 l []). rewrite hm_get_src.
      destruct (id_lookup ids id) as [fname|] eqn:El.
      + unfold Src3l.export_get_mut. rewrite hm_contains_key_src, (Hids _ _ El).
        destruct (Src3l.io_copy_take S (Datatypes.S fuel) s1 l []) as [[s2 d] [u|er|c]]; cbn [res_of negb fst snd];
          [|reflexivity|reflexivity].
        unfold Src3l.writer_receive; cbn [Src3l.ex_keys Src3l.ex_log]. apply IH. exact Hids.
      + cbn [negb].
        destruct (Src3l.io_copy_take S (Datatypes.S fuel) s1 l []) as [[s2 d] [u|er|c]]; cbn [res_of fst snd];
          [|reflexivity|reflexivity].
        apply IH. exact Hids.
    - rewrite hm_remove_src. apply IH. apply ids_chosen_remove. exact Hids.
    - reflexivity.
  Qed.

  (* ---------- linear_extract ---------- *)
  (* for every stream, reader state, export list and fuel: the translated function returns what the
     model returns (Ok with the same pieces in the same order / the same Err / the same Crash), whatever
     the `export` record held as log before is kept in front *)
  Theorem linear_extract_sim fuel (ar : Src3d.ArchiveReader S) (r : rstate S) export :
    Src3d.ar_src S ar = r_src r ->
    let g := g_linear fuel ar (Src3l.mkExport export []) in
    res_of (Src3l.ex_log (fst g)) (snd g) = m_linear fuel r export /\ Src3l.ex_keys (fst g) = export.
  Proof.
    intros Hsrc. unfold Src3l.linear_extract, Reader.linear_extract. rewrite Hsrc.
    destruct (sk S (r_src r) (FromStart 0)) as [s1 [v|e|c]]; cbn [fst snd res_of Src3l.ex_keys]; try (split; reflexivity).
    cbn [Src3d.ar_src Src3d.set_ar_src]. split.
    - apply lx_loop_sim. intros id n Hl; discriminate.
    - now rewrite g_loop_keys.
  Qed.

  (* work package blockT: `g_linear` (gen/Src3l.v) calls the TRANSLATED `ArchiveFileBlock::from` of gen/Src3b.v;
     the loop lemmas rewrite it to Blocks.parse_block with SrcTie3Block.block_from_src.  Witness: an error of
     the translated `from` is the result of the translated loop *)
  Lemma linear_extract_calls_translated_from fuel e s ids s1 er :
    Src3b.ArchiveFileBlock_from S FNMAX T_START T_CONTENT T_EOA T_EOF 636 s = (s1, Err er) ->
    g_loop (Datatypes.S fuel) e s ids = (e, Err er).
  Proof. intros Hf. cbn [Src3l.linear_extract_loop]. rewrite Hf. reflexivity. Qed.
  Corollary linear_extract_sim_full fuel (ar : Src3d.ArchiveReader S) (r : rstate S) export :
    Src3d.ar_src S ar = r_src r ->
    let g := g_linear fuel ar (Src3l.mkExport export []) in
    res_of (Src3l.ex_log (fst g)) (snd g) = m_linear fuel r export /\ Src3l.ex_keys (fst g) = export.
  Proof. exact (linear_extract_sim fuel ar r export). Qed.

  Corollary linear_extract_sim_rep fuel (r : rstate S) export :
    let g := g_linear fuel (rep_r S r) (Src3l.mkExport export []) in
    res_of (Src3l.ex_log (fst g)) (snd g) = m_linear fuel r export /\ Src3l.ex_keys (fst g) = export.
  Proof. apply linear_extract_sim. reflexivity. Qed.

  Lemma res_of_ok {A} (x : A) r y : res_of x r = Ok y -> r = Ok tt /\ y = x.
  Proof. destruct r as [[]|e|c]; cbn; intros H; [injection H as <-; split; reflexivity|discriminate|discriminate]. Qed.

  (* ---------- the C12 theorems hold of the TRANSLATED function ---------- *)
  (* Ok only if the walk from position 0 reached the end-of-data marker at a block boundary *)
  Theorem C12_ok_needs_marker_src fuel (r : rstate S) export e' :
    g_linear fuel (rep_r S r) (Src3l.mkExport export []) = (e', Ok tt) ->
    exists s1 v, sk S (r_src r) (FromStart 0) = (s1, Ok v) /\ ReachesEnd FNMAX T_START T_CONTENT T_EOA T_EOF S s1.
  Proof.
    intros H. destruct (linear_extract_sim_rep fuel r export) as [Hs _]. rewrite H in Hs. cbn [fst snd res_of] in Hs.
    eapply linear_ok_needs_marker. symmetry. exact Hs.
  Qed.

  (* every piece a writer received was handed to a writer registered under a chosen name *)
  Theorem C12_only_chosen_src fuel (r : rstate S) export e' :
    g_linear fuel (rep_r S r) (Src3l.mkExport export []) = (e', Ok tt) ->
    chosen_only export (Src3l.ex_log e').
  Proof.
    intros H. destruct (linear_extract_sim_rep fuel r export) as [Hs _]. rewrite H in Hs. cbn [fst snd res_of] in Hs.
    eapply linear_only_chosen. symmetry. exact Hs.
  Qed.
End Tie.

(* the functional clause of C12 (LinearRoundTrip.linear_roundtrip) for the translated function: on an
   archive written by ANY sequence of accepted writer calls, over any cursor-like stream, for any export
   list: the translated linear_extract returns Ok, `export` keeps its keys, each chosen file's writer has
   received exactly the bytes written for it, nothing else received anything *)
Theorem C12_linear_delivers_written_src {LIM : Limit} :
  forall FNMAX TS TC TA TE (H : bytes -> bytes) (order : footer -> footer),
  tags_distinct TS TC TA TE -> (forall x, len (H x) = 32) ->
  forall ops sf rs,
  wrun FNMAX TS TC TA TE H order w_init (ops ++ [OFinalize]) = (sf, rs) ->
  Forall (fun r => is_ok r = true) rs -> forallb op_utf8 ops = true ->
  len (w_out sf) < 2 ^ 64 -> len (ser_footer_map (order (w_footer sf))) < 2 ^ 32 ->
  forall (S : Stream) (R : st S -> N -> Prop), Refines S (w_out sf) R ->
  forall (r : rstate S) (export : list bytes) (fuel : nat),
  RS order sf S R r -> (N.to_nat (len (w_out sf)) < fuel)%nat ->
  exists out, Src3l.linear_extract S FNMAX TS TC TA TE fuel (rep_r S r) (Src3l.mkExport export []) = (Src3l.mkExport export out, Ok tt) /\
    chosen_only export out /\
    (forall name id, In (name, id) (started 0 ops) ->
       delivered name out = if name_in export name then pieces 0 id ops else []) /\
    (forall name, ~ In name (map fst (started 0 ops)) -> delivered name out = []).
Proof.
  intros FNMAX TS TC TA TE H order Ht HH ops sf rs Hrun Hok Hutf H64 H32 S R HR r export fuel HRS Hfuel.
  destruct (linear_roundtrip FNMAX TS TC TA TE H order Ht HH ops sf rs Hrun Hok Hutf H64 H32 S R HR r export fuel HRS Hfuel)
    as (out & Hlin & Hrest).
  exists out. split; [|exact Hrest].
  destruct (linear_extract_sim_rep S FNMAX TS TC TA TE fuel r export) as [Hs Hk]. rewrite Hlin in Hs.
  destruct (Src3l.linear_extract S FNMAX TS TC TA TE fuel (rep_r S r) (Src3l.mkExport export [])) as [[keys log] x].
  cbn [fst snd Src3l.ex_keys Src3l.ex_log] in Hs, Hk. apply res_of_ok in Hs. destruct Hs as [-> ->]. now subst keys.
Qed.

(* ---------- StreamWriter::{new, write, flush} ---------- *)
Section SW.
  Context {LIM : Limit}.
  Variable AW : Type.
  Variable append : AW -> N -> N -> bytes -> AW * res unit.
  Variable aflush : AW -> AW * res unit.
  (* write: ONE append_file_content(file_id, buf.len(), buf) on the archive the writer was made with; the
     whole buffer is reported as accepted (Builders.stream_write) *)
  Theorem stream_writer_write_src (a : AW) (id : N) (buf : bytes) :
    let '(w, r) := Src3l.sw_write AW append (Src3l.StreamWriter_new AW a id) buf in
    (Src3l.sw_archive AW w, r) = stream_write (append a) id buf /\ Src3l.sw_file_id AW w = id.
  Proof.
    unfold Src3l.sw_write, Src3l.StreamWriter_new, stream_write. cbn [Src3l.sw_archive Src3l.sw_file_id].
    destruct (append a id (len buf) buf) as [a1 [u|e|c]]; cbn; split; reflexivity.
  Qed.
  (* flush: the archive's flush, nothing else *)
  Theorem stream_writer_flush_src (a : AW) (id : N) :
    let '(w, r) := Src3l.sw_flush AW aflush (Src3l.StreamWriter_new AW a id) in
    (Src3l.sw_archive AW w, r) = aflush a /\ Src3l.sw_file_id AW w = id.
  Proof.
    unfold Src3l.sw_flush, Src3l.StreamWriter_new. cbn [Src3l.sw_archive Src3l.sw_file_id].
    destruct (aflush a) as [a1 r]. cbn. split; reflexivity.
  Qed.
End SW.
