(* ReaderAuthEx.v — C03 at the archive level: the D17 witness and computed instances
   (toy cipher of Inst.v, CHUNK = 13, TAG = 2, block tags as translated from the source).

   One file "a" whose CONTENT is the 56 bytes of a serialised footer naming "evil".  Its last
   byte is byte 91 = 7 * 13 of the block stream: a chunk edge.  Dropping every chunk after
   the 7th leaves a stream of genuine chunks, each under its own counter with its own tag —
   nothing the encryption layer checks is violated — whose END now lies right behind the
   fake footer.  ArchiveFooter::deserialize_from seeks from the end: the reader lists "evil". *)
From MLA Require Import Limit.
From MLA Require Import Base Stream Blocks Writer Reader EncLayer EncAuth EncAuthStream ReaderAuthSim Inst
  RoundTripReader RoundTripWriter.
From MLAGen Require Src.
Open Scope N_scope.

Module D17.
  Definition FN : N := 48.
  Notation TS := Src.BT_FileStart. Notation TC := Src.BT_FileContent.
  Notation TA := Src.BT_EndOfArchiveData. Notation TE := Src.BT_EndOfFile.
  Definition Hz (_ : bytes) : bytes := repeat 0 32.
  Definition oid (f : footer) : footer := f.
  Definition CH : N := 13.
  Definition TG : N := 2.
  (* the bincode limit of the source (gen/Src.v): the instances below are computed *)
  Notation LIMp := Src.BINCODE_MAX_DESERIALIZE_prod.

  Definition evil : bytes := [101; 118; 105; 108].
  Definition fake : footer := [(evil, mkFI [0] 0 0)].
  Definition content : bytes := ser_footer fake.
  Definition ops : list wop := [OAdd [97] (len content) content].
  Definition run := wrun (LIM := LIMp) FN TS TC TA TE Hz oid w_init (ops ++ [OFinalize]).
  Definition sf : wstate := fst run.
  Definition plain : bytes := w_out sf.
  Definition wire : bytes := enc_format CH toy_ks (toy_tag TG) plain.
  (* the first 7 chunks with their tags *)
  Definition cut : bytes := takeN (7 * (CH + TG)) wire.

  Definition Enc (w : bytes) : Stream := EncReader CH TG toy_ks (toy_tag TG) (Cursor w).

  (* open the layer, open the archive, list *)
  Definition open_list (w : bytes) : res (list bytes) :=
    match enc_open CH TG toy_ks (toy_tag TG) (Cursor w) 0 with
    | (s, Ok _) =>
      match ropen (LIM := LIMp) (Enc w) s with
      | Ok r => Ok (list_files (Enc w) r)
      | Err e => Err e
      | Crash c => Crash c
      end
    | (_, Err e) => Err e
    | (_, Crash c) => Crash c
    end.

  (* open, get_file, read to the end with buffers of n bytes *)
  Definition open_read (w : bytes) (name : bytes) (n : N) : res (option bytes) :=
    match enc_open CH TG toy_ks (toy_tag TG) (Cursor w) 0 with
    | (s, Ok _) =>
      match ropen (LIM := LIMp) (Enc w) s with
      | Ok r =>
        match get_file FN TS TC TA TE (Enc w) r name with
        | (_, Ok (Some (bs, _))) =>
          match read_all FN TS TC TA TE (Enc w) 4 200 bs (fun _ => n) 0 [] with
          | (_, Ok d) => Ok (Some d)
          | (_, Err e) => Err e
          | (_, Crash c) => Crash c
          end
        | (_, Ok None) => Ok None
        | (_, Err e) => Err e
        | (_, Crash c) => Crash c
        end
      | Err e => Err e
      | Crash c => Crash c
      end
    | (_, Err e) => Err e
    | (_, Crash c) => Crash c
    end.

  Lemma run_ok : Forall (fun r => is_ok r = true) (snd run) /\ started 0 ops = [([97], 0)] /\
                 pieces 0 0 ops = content /\ len content = 56 /\ len plain = 186.
  Proof. vm_compute. repeat split; repeat constructor. Qed.

  (* the unaltered archive lists "a" and returns its content *)
  Lemma unaltered : open_list wire = Ok [[97]] /\ open_read wire [97] 5 = Ok (Some content).
  Proof. vm_compute. split; reflexivity. Qed.

  (* every chunk of the cut wire is an original chunk at its original place *)
  Lemma cut_is_prefix : prefix cut wire /\ len cut = 7 * (CH + TG) /\
    end_pos_of_inner CH TG (len cut) = Ok 91 /\ end_pos_of_inner CH TG (len wire) = Ok (len plain).
  Proof. split; [apply prefix_takeN | vm_compute; repeat split]. Qed.

  (* THE WITNESS: the model lists a name that was never started *)
  Theorem witness : open_list cut = Ok [evil] /\ ~ In evil (map fst (started 0 ops)).
  Proof.
    split; [vm_compute; reflexivity|].
    vm_compute. intros [Hx|[]]. discriminate.
  Qed.

  (* ... which is a substring of the original plaintext (auth_names_sub_partial), at offset 51 *)
  Lemma evil_is_content : evil = sliceN 51 (len evil) plain.
  Proof. vm_compute. reflexivity. Qed.

  (* other alterations of the same archive, length kept (so the claimed end is the true end):
     what opens lists "a" only, what is read is a prefix of the content *)
  Definition flip (k : N) (w : bytes) : bytes := takeN k w ++ [N.lxor (nth (N.to_nat k) w 0) 1] ++ dropN (k + 1) w.
  Definition swap01 (w : bytes) : bytes := sliceN 15 15 w ++ sliceN 0 15 w ++ dropN 30 w.

  Lemma altered_same_length :
    (* a flipped bit in chunk 3 (inside the content): opens, lists "a", the read stops with an error *)
    open_list (flip 50 wire) = Ok [[97]] /\ open_read (flip 50 wire) [97] 5 = Err EWrongTag /\
    (* a flipped bit in the last chunk (the footer): does not open *)
    open_list (flip 212 wire) = Err EWrongTag /\
    (* chunks 0 and 1 exchanged: the layer does not initialise *)
    open_list (swap01 wire) = Err EWrongTag.
  Proof. vm_compute. repeat split. Qed.
End D17.

(* the statement C03 makes about names is FALSE of the faithful model: there are writer calls
   (all successful) and an altered wire — a PREFIX of the genuine one — on which the normal
   reader opens and lists a name that was never started *)
Theorem C03_D17_witness :
  exists (ops : list wop) (w' : bytes),
    let run := wrun (LIM := Src.BINCODE_MAX_DESERIALIZE_prod) D17.FN Src.BT_FileStart Src.BT_FileContent Src.BT_EndOfArchiveData Src.BT_EndOfFile
                    D17.Hz D17.oid w_init (ops ++ [OFinalize]) in
    Forall (fun r => is_ok r = true) (snd run) /\
    prefix w' (enc_format D17.CH toy_ks (toy_tag D17.TG) (w_out (fst run))) /\
    exists names x, D17.open_list w' = Ok names /\ In x names /\ ~ In x (map fst (started 0 ops)).
Proof.
  exists D17.ops, D17.cut. cbv zeta. split; [exact (proj1 D17.run_ok)|].
  split; [exact (proj1 D17.cut_is_prefix)|].
  exists [D17.evil], D17.evil. destruct D17.witness as [H1 H2].
  split; [exact H1|]. split; [left; reflexivity | exact H2].
Qed.

(* ---------- the hypotheses of the end-to-end theorem are jointly satisfiable ----------
   `~ Forgery` quantifies over ALL counters; no tag of a fixed number of BYTES can satisfy it
   (two counters share a tag).  The model's tags are lists of N: the instance below uses the
   2-element tag [counter; injective code of the ciphertext], decides by computation that no
   window of the altered wire verifies under the counter it names unless it is the original
   chunk of that counter, and derives ~ Forgery for EVERY counter from that. *)
Module NF.
  Import D17.
  Definition code (c : bytes) : N := fold_left (fun a x => a * 256 + x) c 1.
  Definition xtag (i : N) (c : bytes) : bytes := [i; code c].
  Definition xwire : bytes := enc_format CH toy_ks xtag plain.
  (* one bit flipped inside chunk 3 *)
  Definition w : bytes := flip 50 xwire.

  Definition win (off : N) : bytes := sliceN off (CTS CH TG) w.
  Definition named (dt : bytes) : N := nth (N.to_nat (len dt - 2)) dt 0.
  Definition chk (off : N) : bool :=
    let dt := win off in
    if verifiesb TG xtag (named dt) dt
    then bytes_eqb (ct_of TG dt) (orig_ct CH toy_ks plain (named dt)) else true.

  Lemma all_windows : forallb chk (map N.of_nat (seq 0 (N.to_nat (len w)))) = true.
  Proof. vm_compute. reflexivity. Qed.

  Lemma nth_dropN (l : bytes) : forall n a r, dropN n l = a :: r -> nth (N.to_nat n) l 0 = a.
  Proof.
    unfold dropN. intros n. generalize (N.to_nat n) as k. clear n. intros k. revert l.
    induction k as [|k IH]; intros l a r; cbn [skipn nth].
    - intros ->. reflexivity.
    - destruct l as [|x l]; [discriminate|]. apply IH.
  Qed.

  Lemma verifies_names i dt : verifiesb TG xtag i dt = true -> i = named dt.
  Proof.
    unfold verifiesb, tg_of, named, xtag. intros H.
    apply andb_true_iff in H. destruct H as [_ H]. apply bytes_eqb_eq in H.
    symmetry. exact (nth_dropN dt _ _ _ (eq_sym H)).
  Qed.

  Theorem no_forgery : ~ Forgery CH TG toy_ks xtag w plain.
  Proof.
    intros (i & ct & (off & Hv & ->) & Hne).
    assert (Hoff : off < len w).
    { destruct (N.lt_ge_cases off (len w)) as [H|H]; [exact H|].
      rewrite sliceN_past in Hv by exact H. discriminate. }
    pose proof all_windows as Hall. rewrite forallb_forall in Hall.
    assert (Hin : In off (map N.of_nat (seq 0 (N.to_nat (len w))))).
    { apply in_map_iff. exists (N.to_nat off). split; [lia|]. apply in_seq. lia. }
    specialize (Hall off Hin). unfold chk, win in Hall.
    rewrite <- (verifies_names _ _ Hv), Hv in Hall. apply bytes_eqb_eq in Hall. exact (Hne Hall).
  Qed.

  (* the claimed end is the true end (the length is unchanged), the layer opens, the archive
     opens: all hypotheses of ReaderAuthRun.enc_archive_authentic are met by this ALTERED wire *)
  Definition open_list_x (w0 : bytes) : res (list bytes) :=
    match enc_open CH TG toy_ks xtag (Cursor w0) 0 with
    | (s, Ok _) =>
      match ropen (LIM := LIMp) (EncReader CH TG toy_ks xtag (Cursor w0)) s with
      | Ok r => Ok (list_files (EncReader CH TG toy_ks xtag (Cursor w0)) r)
      | Err e => Err e
      | Crash c => Crash c
      end
    | (_, Err e) => Err e
    | (_, Crash c) => Crash c
    end.
  Lemma hypotheses_met :
    bytes_eqb w xwire = false /\ (len plain <=? enc_end CH TG w) = true /\ open_list_x w = Ok [[97]].
  Proof. vm_compute. repeat split. Qed.
End NF.
