(* SrcTie3Cmds2Cat.v — Tie A level 1 for `mlar cat` and `mlar list` (work package cmdsT2): the loops and the whole commands of
   mlar/src/main.rs as translated by tools/src2v3_cmds.py (gen/Src3m.v), over the model's library (SrcTie3Cmds2Inst.v,
   SrcTie3Cmds2Open.v), ARE Cli.cat_loop / Cli.cmd_cat, Cli.cmd_list_a and Cli.list_vv / Cli.cmd_list_verbose_a — no premise beyond
   the loading of the key files: here the model follows the code on every exit (get_file Err / None: on to the next name in cat;
   a failing or panicking copy ends cat; any failure ends list -vv).
   cat --glob: the translated loops are cat over the names the patterns select (cat_glob_names), in pattern order. *)
From MLA Require Import Limit.
From MLA Require Import Base Stream Blocks Writer Reader Format Ecies Archive Path Tar Cli Keys.
From MLA Require Import SrcTie3Cmds2Open SrcTie3Cmds2Inst.
From MLAGen Require Src3m.
From Coq Require Import Lia ZifyBool ZifyNat ZifyN.
Open Scope N_scope.

Lemma print_line_app w b1 b2 : Src3m.print_line (Src3m.print_line w b1) b2 = Src3m.print_line w (b1 ++ b2).
Proof. destruct w. unfold Src3m.print_line. cbn [Src3m.w_out Src3m.w_pub Src3m.w_stdout]. rewrite <- app_assoc. reflexivity. Qed.
Lemma print_line_nil w : Src3m.print_line w [] = w.
Proof. destruct w. unfold Src3m.print_line. cbn [Src3m.w_out Src3m.w_pub Src3m.w_stdout]. rewrite app_nil_r. reflexivity. Qed.

Section Loops.
  Context {LIM : Limit}.
  Variables FNMAX TS TC TA TE : N.
  Variable P : Type.
  Variable F : P -> Stream.
  Variables zf fuel : nat.
  Variable Pat : Type.
  Variable glob_new : bytes -> res Pat.
  Variable glob_matches : Pat -> bytes -> bool.

  Notation gf := (get_file_m FNMAX TS TC TA TE P F).
  Notation gh := (get_hash_m FNMAX TS TC TA TE P F).
  Notation cp := (io_copy_m FNMAX TS TC TA TE P F zf fuel).
  Notation g_for3 := (Src3m.cat_for3 (ARm P F) (AFm P F) gf (af_release_m P F) cp).
  Notation g_for2 := (Src3m.cat_for2 (ARm P F) (AFm P F) Pat gf (af_release_m P F) cp glob_matches).
  Notation g_for1 := (Src3m.cat_for1 (ARm P F) (AFm P F) Pat gf (af_release_m P F) cp glob_new glob_matches).
  Notation m_cat p := (cat_loop FNMAX TS TC TA TE (F p) zf fuel).

  (* ---------- cat, names as given ---------- *)
  (* from any reader state, any names, any destination, whatever was already delivered: the destination receives exactly what
     Cli.cat_loop accumulates, and the loop ends Ok exactly when Cli.cat_loop says true *)
  Theorem cat_for3_sim d : forall names p (r : rstate (F p)) acc w,
    let g := g_for3 d (existT _ p r) (Src3m.dest_write d acc w) names in
    fst (fst g) = Src3m.dest_write d (fst (m_cat p r names acc)) w /\ is_ok (snd g) = snd (m_cat p r names acc).
  Proof.
    induction names as [|n names IH]; intros p r acc w; cbn [Src3m.cat_for3 cat_loop].
    - cbn [fst snd is_ok]. auto.
    - cbn [get_file_m]. destruct (get_file FNMAX TS TC TA TE (F p) r n) as [r1 [[[bs sz]|]|e|c]].
      + unfold Src3m.copy_to_dest. cbn [io_copy_m af_bs af_r af_nm af_sz].
        destruct (io_copy FNMAX TS TC TA TE (F p) zf fuel bs []) as [[bs' d0] e]. rewrite dest_write_app.
        destruct e as [u|e|c]; cbn [af_release_m af_r af_bs fst snd is_ok]; [apply IH|auto|auto].
      + apply IH.
      + apply IH.
      + cbn [fst snd is_ok]. auto.
  Qed.

  (* ---------- cat --glob ---------- *)
  (* the names one pattern selects, in the order of the (sorted) archive names *)
  Lemma cat_for2_src d pat : forall names m w,
    g_for2 d pat m w names = g_for3 d m w (filter (glob_matches pat) names).
  Proof.
    induction names as [|n names IH]; intros m w; cbn [Src3m.cat_for2 filter]; [reflexivity|].
    destruct (glob_matches pat n); cbn [negb]; [|apply IH]. cbn [Src3m.cat_for3].
    destruct (gf m n) as [m1 [[f|]|e|c]]; [|apply IH|apply IH|reflexivity].
    destruct (Src3m.copy_to_dest (AFm P F) cp f d w) as [[w1 f1] [u|e|c]]; [apply IH|reflexivity|reflexivity].
  Qed.

  (* a pattern that does not parse: a message, on to the next pattern.  (Pattern::new does not panic: glob_ok) *)
  Definition glob_ok (pats : list bytes) : Prop := forall p c, In p pats -> glob_new p <> Crash c.
  Definition cat_glob_names (sorted pats : list bytes) : list bytes :=
    flat_map (fun a => match glob_new a with Ok pat => filter (glob_matches pat) sorted | _ => [] end) pats.

  Lemma cat_for3_app d : forall l1 l2 m w,
    g_for3 d m w (l1 ++ l2) =
    match g_for3 d m w l1 with
    | ((w1, m1), Ok _) => g_for3 d m1 w1 l2
    | x => x
    end.
  Proof.
    induction l1 as [|n l1 IH]; intros l2 m w; cbn [app Src3m.cat_for3]; [reflexivity|].
    destruct (gf m n) as [m1 [[f|]|e|c]]; [|apply IH|apply IH|reflexivity].
    destruct (Src3m.copy_to_dest (AFm P F) cp f d w) as [[w1 f1] [u|e|c]]; [apply IH|reflexivity|reflexivity].
  Qed.

  Theorem cat_for1_src d sorted : forall pats m w, glob_ok pats ->
    let g := g_for1 d m sorted w pats in
    let g3 := g_for3 d m w (cat_glob_names sorted pats) in
    fst (fst (fst g)) = fst (fst g3) /\ snd (fst (fst g)) = snd (fst g3) /\ snd g = snd g3.
  Proof.
    induction pats as [|a pats IH]; intros m w Hg; cbn [Src3m.cat_for1 cat_glob_names flat_map].
    - cbn [fst snd Src3m.cat_for3]. auto.
    - assert (Hg' : glob_ok pats) by (intros q c Hq; apply Hg; right; exact Hq).
      destruct (glob_new a) as [pat|e|c] eqn:Ea.
      + rewrite cat_for2_src, cat_for3_app.
        destruct (g_for3 d m w (filter (glob_matches pat) sorted)) as [[w1 m1] [u|e|c]]; [apply IH; exact Hg'| |]; cbn [fst snd]; auto.
      + cbn [app]. apply IH. exact Hg'.
      + exfalso. exact (Hg a c (or_introl eq_refl) Ea).
  Qed.

End Loops.

(* ---------- list ---------- *)
Section ListLoops.
  Context {LIM : Limit}.
  Variables FNMAX TS TC TA TE : N.
  Variable P : Type.
  Variable F : P -> Stream.
  Notation gf := (get_file_m FNMAX TS TC TA TE P F).
  Notation gh := (get_hash_m FNMAX TS TC TA TE P F).
  Variable fmt_size : N -> bytes.
  Variable site_list : N -> N.
  Notation g_list vc := (Src3m.list_for1 (ARm P F) (AFm P F) vc gf gh (af_filename_m P F) (af_size_m P F) fmt_size hex_encode site_list).
  Notation m_vv p := (list_vv FNMAX TS TC TA TE (F p)).

  (* without -v: the names, one per line; the reader is not used *)
  Theorem list_for1_plain_src : forall names m w,
    g_list 0 m w names = ((Src3m.print_line w (flat_map (fun n => n ++ [NL]) names), m), Ok tt).
  Proof.
    induction names as [|n names IH]; intros m w; cbn [Src3m.list_for1 flat_map].
    - rewrite print_line_nil. reflexivity.
    - change (0 =? 0) with true. cbv iota. rewrite IH, print_line_app. reflexivity.
  Qed.

  (* -vv: the line of a row of Cli.list_vv: "name - <size rendered> (<hash in hex>)" *)
  Definition vv_line (row : bytes * N * bytes) : bytes :=
    fst (fst row) ++ [32; 45; 32] ++ fmt_size (snd (fst row)) ++ [32; 40] ++ hex_encode (snd row) ++ [41] ++ [10].

  Lemma list_vv_acc S : forall names (r : rstate S) acc,
    list_vv FNMAX TS TC TA TE S r names acc =
    (acc ++ fst (list_vv FNMAX TS TC TA TE S r names []), snd (list_vv FNMAX TS TC TA TE S r names [])).
  Proof.
    induction names as [|n names IH]; intros r acc; cbn [list_vv]; [rewrite app_nil_r; reflexivity|].
    destruct (get_file FNMAX TS TC TA TE S r n) as [r1 [[[bs sz]|]|e|c]]; try (rewrite app_nil_r; reflexivity).
    destruct (get_hash FNMAX TS TC TA TE S r1 n) as [r2 [[h|]|e|c]]; try (rewrite app_nil_r; reflexivity).
    rewrite (IH r2 (acc ++ [(n, sz, h)])), (IH r2 ([] ++ [(n, sz, h)])). cbn [fst snd app]. rewrite <- app_assoc. reflexivity.
  Qed.

  (* -vv (any count >= 2): the lines of exactly the rows Cli.list_vv collects, Ok exactly when it says true (get_file / get_hash
     Err: `?`; None: expect -> panic — every one of them ends the command with a non-zero status) *)
  Theorem list_for1_vv_sim vc : 2 <= vc -> forall names p (r : rstate (F p)) w,
    let g := g_list vc (existT _ p r) w names in
    fst (fst g) = Src3m.print_line w (flat_map vv_line (fst (m_vv p r names []))) /\ is_ok (snd g) = snd (m_vv p r names []).
  Proof.
    intros Hvc. assert (E0 : vc =? 0 = false) by lia. assert (E1 : vc =? 1 = false) by lia. assert (E2 : 2 <=? vc = true) by lia.
    induction names as [|n names IH]; intros p r w; cbn [Src3m.list_for1 list_vv].
    - cbn [fst snd flat_map is_ok]. rewrite print_line_nil. auto.
    - rewrite E0. cbn [get_file_m]. destruct (get_file FNMAX TS TC TA TE (F p) r n) as [r1 [[[bs sz]|]|e|c]];
        try (cbn [fst snd flat_map is_ok]; rewrite print_line_nil; auto).
      rewrite E1, E2. cbn [af_filename_m af_size_m projT2 af_nm af_sz get_hash_m].
      destruct (get_hash FNMAX TS TC TA TE (F p) r1 n) as [r2 [[h|]|e|c]];
        try (cbn [fst snd flat_map is_ok]; rewrite print_line_nil; auto).
      rewrite (list_vv_acc (F p) names r2 ([] ++ [(n, sz, h)])). cbn [fst snd app flat_map].
      destruct (IH p r2 (Src3m.print_line w (n ++ [32; 45; 32] ++ fmt_size sz ++ [32; 40] ++ hex_encode h ++ [41] ++ [10]))) as [Hw Hs].
      split; [etransitivity; [exact Hw|]; rewrite print_line_app; reflexivity|exact Hs].
  Qed.
End ListLoops.

(* ---------- the whole commands, from the archive bytes ---------- *)
Section FromBytes.
  Variables CHUNK TAG BLOCK LIMIT FNMAX : N.
  Local Hint Extern 0 Limit => exact LIMIT : typeclass_instances.
  Variables TS TC TA TE : N.
  Variable dh : bytes -> bytes -> bytes.
  Variable kdf : bytes -> bytes.
  Variables wdec wtag : bytes -> bytes -> bytes.
  Variable ksf : bytes -> bytes -> N -> N -> N.
  Variable tagf : bytes -> bytes -> N -> bytes -> bytes.
  Variable dec : bytes -> bytes.
  Variables zf fuel : nat.
  Variable a : bytes.
  Variable KPath : Type.
  Variable fs_open_key : KPath -> Src3m.World -> res bytes.
  Variable parse_privkey : bytes -> res bytes.
  Variables site site_cat site_list : N -> N.
  Variable arg_keys : option (list KPath).
  Variable Pat : Type.
  Variable glob_new : bytes -> res Pat.
  Variable glob_matches : Pat -> bytes -> bool.
  Variable fmt_size : N -> bytes.

  Notation stack_of := (Archive.stack_of CHUNK TAG BLOCK ksf tagf dec).
  Notation opened := (opened CHUNK TAG BLOCK ksf tagf dec).
  Notation cli_open := (cli_open CHUNK TAG BLOCK LIMIT dh kdf wdec wtag ksf tagf dec).
  Notation cmd_cat := (cmd_cat CHUNK TAG BLOCK LIMIT FNMAX TS TC TA TE dh kdf wdec wtag ksf tagf dec).
  Notation cmd_list_a := (cmd_list_a CHUNK TAG BLOCK LIMIT dh kdf wdec wtag ksf tagf dec).
  Notation cmd_list_verbose_a := (cmd_list_verbose_a CHUNK TAG BLOCK LIMIT FNMAX TS TC TA TE dh kdf wdec wtag ksf tagf dec).
  Notation ckeys := (cli_keys KPath fs_open_key parse_privkey site arg_keys).
  Notation open_src := (open_mla_file_src CHUNK TAG BLOCK LIMIT dh kdf wdec wtag ksf tagf dec a KPath fs_open_key parse_privkey site arg_keys).

  (* `mlar cat -i <a> [-o FILE] [-k ..] [--glob] names..`: to_file = false is `-o -` (the default): standard output *)
  Definition cat_t (to_file glob : bool) (names : option (list bytes)) : Src3m.World -> Src3m.World * res unit :=
    Src3m.cat unit KPath FileM Format.header (opened a) (AFm oparams (stack_of a)) Pat tt (negb to_file) arg_keys names glob
      fs_open_m file_rewind_m (header_from_m LIMIT a) hdr_contains_m
      (reader_from_config_m CHUNK TAG BLOCK LIMIT dh kdf wdec wtag ksf tagf dec a)
      (list_files_m oparams (stack_of a)) (get_file_m FNMAX TS TC TA TE oparams (stack_of a))
      (af_release_m oparams (stack_of a)) (io_copy_m FNMAX TS TC TA TE oparams (stack_of a) zf fuel) sort_names
      glob_new glob_matches fs_open_key parse_privkey site site_cat.

  (* cat = Cli.cmd_cat: the destination is created BEFORE the archive is opened; exit status, output file, standard output *)
  Theorem cat_src to_file names privs :
    arg_keys <> Some [] -> ckeys (fst (Src3m.destination_from_output_argument (negb to_file) Src3m.arg_output world0)) = Ok privs ->
    cres_of (cat_t to_file false (Some names) world0) = cmd_cat to_file zf fuel a privs names.
  Proof.
    intros Hne Hk. unfold cat_t, Src3m.cat.
    destruct (Src3m.destination_from_output_argument (negb to_file) Src3m.arg_output world0) as [w2 rd] eqn:Ed.
    assert (Hd : (w2, rd) = if to_file then (Src3m.w_set Src3m.PMain (fun _ => OWritten []) world0, Ok (Src3m.OFile Src3m.PMain))
                            else (world0, Ok Src3m.Stdout)).
    { rewrite <- Ed. destruct to_file; reflexivity. }
    cbn [fst] in Hk. pose proof (open_src w2 Hne) as Ho. unfold open_t in Ho.
    destruct to_file; injection Hd as -> ->; rewrite Ho, Hk; unfold Cli.cmd_cat;
      (destruct (cli_open a privs) as [[p r]|e|c]; [|reflexivity|reflexivity]).
    - set (w2 := Src3m.mkW (OWritten []) OUntouched []). set (d := Src3m.OFile Src3m.PMain).
      change w2 with (Src3m.dest_write d [] w2) at 1.
      pose proof (cat_for3_sim FNMAX TS TC TA TE oparams (stack_of a) zf fuel d names p r [] w2) as Hl. cbv zeta in Hl.
      destruct (Src3m.cat_for3 _ _ _ _ _ _ _ _ _) as [[w33 m34] x]. cbn [fst snd] in Hl. destruct Hl as [-> Hs].
      destruct (cat_loop FNMAX TS TC TA TE (stack_of a p) zf fuel r names []) as [dd ok]. cbn [fst snd] in *.
      destruct x; unfold cres_of; cbn [fst snd is_ok] in *; subst ok; reflexivity.
    - set (d := Src3m.Stdout).
      change world0 with (Src3m.dest_write d [] world0) at 1.
      pose proof (cat_for3_sim FNMAX TS TC TA TE oparams (stack_of a) zf fuel d names p r [] world0) as Hl. cbv zeta in Hl.
      destruct (Src3m.cat_for3 _ _ _ _ _ _ _ _ _) as [[w33 m34] x]. cbn [fst snd] in Hl. destruct Hl as [-> Hs].
      destruct (cat_loop FNMAX TS TC TA TE (stack_of a p) zf fuel r names []) as [dd ok]. cbn [fst snd] in *.
      destruct x; unfold cres_of; cbn [fst snd is_ok] in *; subst ok; reflexivity.
  Qed.

  (* clap makes `files` a required argument; without it: the unwrap panics before anything is created *)
  Theorem cat_no_names_panics_src to_file glob w : cat_t to_file glob None w = (w, Crash (site_cat 1)).
  Proof. reflexivity. Qed.

  (* `mlar list -i <a> [-k ..] [-v..]` *)
  Definition list_t (vc : N) : Src3m.World -> Src3m.World * res unit :=
    Src3m.list_cmd unit KPath FileM Format.header (opened a) (AFm oparams (stack_of a)) tt arg_keys vc
      fs_open_m file_rewind_m (header_from_m LIMIT a) hdr_contains_m
      (reader_from_config_m CHUNK TAG BLOCK LIMIT dh kdf wdec wtag ksf tagf dec a)
      (list_files_m oparams (stack_of a)) (get_file_m FNMAX TS TC TA TE oparams (stack_of a))
      (get_hash_m FNMAX TS TC TA TE oparams (stack_of a))
      (af_filename_m oparams (stack_of a)) (af_size_m oparams (stack_of a)) sort_names fmt_size hex_encode
      fs_open_key parse_privkey site site_list.

  Theorem list_src privs :
    arg_keys <> Some [] -> ckeys world0 = Ok privs ->
    cres_of (list_t 0 world0) = cmd_list_a a privs.
  Proof.
    intros Hne Hk. unfold list_t, Src3m.list_cmd. pose proof (open_src world0 Hne) as Ho. unfold open_t in Ho. rewrite Ho, Hk.
    unfold Cli.cmd_list_a. destruct (cli_open a privs) as [[p r]|e|c]; [|reflexivity|reflexivity].
    cbn [list_files_m projT1 projT2].
    pose proof (list_for1_plain_src FNMAX TS TC TA TE oparams (stack_of a) fmt_size site_list
                  (sort_names (list_files (stack_of a p) r)) (existT _ p r) world0) as Hl.
    destruct (Src3m.list_for1 _ _ _ _ _ _ _ _ _ _ _ _ _) as [[w24 m25] x]. injection Hl as -> -> ->. reflexivity.
  Qed.

  Theorem list_vv_src vc privs :
    2 <= vc -> arg_keys <> Some [] -> ckeys world0 = Ok privs ->
    cres_of (list_t vc world0) =
    let m := cmd_list_verbose_a a privs in mkCR (snd m) OUntouched (flat_map (vv_line fmt_size) (fst m)).
  Proof.
    intros Hvc Hne Hk. unfold list_t, Src3m.list_cmd. pose proof (open_src world0 Hne) as Ho. unfold open_t in Ho. rewrite Ho, Hk.
    unfold Cli.cmd_list_verbose_a. destruct (cli_open a privs) as [[p r]|e|c]; [|reflexivity|reflexivity].
    cbn [list_files_m projT1 projT2]. unfold cmd_list_verbose.
    pose proof (list_for1_vv_sim FNMAX TS TC TA TE oparams (stack_of a) fmt_size site_list vc Hvc
                  (sort_names (list_files (stack_of a p) r)) p r world0) as Hl. cbv zeta in Hl.
    destruct (Src3m.list_for1 _ _ _ _ _ _ _ _ _ _ _ _ _) as [[w24 m25] x]. cbn [fst snd] in Hl. destruct Hl as [-> Hs].
    destruct (list_vv FNMAX TS TC TA TE (stack_of a p) r (sort_names (list_files (stack_of a p) r)) []) as [rows ok]. cbn [fst snd] in *.
    destruct x; unfold cres_of; cbn [fst snd is_ok] in *; subst ok; reflexivity.
  Qed.
End FromBytes.
