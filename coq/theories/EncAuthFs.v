(* EncAuthFs.v — the fail-safe encryption reader over ARBITRARY inner bytes, both modes (C04).

   The whole output of the reader is written down as a function of the inner bytes w:
     fs_out dec w = D0 ++ out_from dec 1 (rest of w)
   where D0 is chunk 0 decrypted WITHOUT tag check in both modes (defect D2, kept literally:
   the test-suite asserts it) and out_from stops at the first chunk the mode's decoder `dec`
   refuses (authenticated: first chunk whose tag does not verify under ITS INDEX, or that is
   absent; unauthenticated: end of the bytes).  Theorem B: the reader refines a read-only
   cursor over that string — any sequence of reads delivers consecutive bytes of it, then
   Ok [] for ever (sticky stop: nothing decoded after a refused chunk is ever delivered).
   Theorem C: authenticated output is a prefix of the unauthenticated one; on a truncation of
   an unaltered stream both are prefixes of plain ++ junk (junk = decrypted tag bytes of a
   short final chunk, which the unauthenticated loader takes for data). *)
From MLA Require Import Base Stream EncLayer EncAuth.
From Coq Require Import ZifyBool ZifyNat ZifyN.
Open Scope N_scope.

(* read-only refinement: from I s q, a read of n delivers the next k <= n bytes of b (k = 0 only
   for n = 0 or at the end) and lands in I s' (q + k) *)
Definition RdRefines {St : Type} (rdf : St -> N -> St * res bytes) (b : bytes) (I : St -> N -> Prop) : Prop :=
  forall s q n, I s q ->
    exists s' k, rdf s n = (s', Ok (sliceN q k b)) /\ k <= n /\ q + k <= len b /\
                 (k = 0 -> n = 0 \/ q = len b) /\ I s' (q + k).

Section RdRefinesFacts.
  Context {St : Type}.
  Variable rdf : St -> N -> St * res bytes.
  Variable b : bytes.
  Variable I : St -> N -> Prop.
  Hypothesis HR : RdRefines rdf b I.

  (* any sequence of reads: concatenation of what they return *)
  Fixpoint run_reads (s : St) (ns : list N) : St * res bytes :=
    match ns with
    | [] => (s, Ok [])
    | n :: r =>
      match rdf s n with
      | (s1, Ok d) => match run_reads s1 r with (s2, Ok d') => (s2, Ok (d ++ d')) | x => x end
      | x => x
      end
    end.

  Theorem rd_refines_run s q ns : I s q ->
    exists s' k, run_reads s ns = (s', Ok (sliceN q k b)) /\ q + k <= len b /\ I s' (q + k).
  Proof.
    revert s q; induction ns as [|n r IH]; intros s q HI; cbn [run_reads].
    - exists s, 0. rewrite sliceN_0, N.add_0_r. split; [reflexivity|]. split; [|exact HI].
      destruct (HR s q 0 HI) as (_ & k & _ & _ & H & _). lia.
    - destruct (HR s q n HI) as (s1 & k & -> & _ & Hk & _ & HI1).
      destruct (IH s1 (q + k) HI1) as (s2 & k2 & -> & Hk2 & HI2).
      exists s2, (k + k2). rewrite sliceN_add. split; [reflexivity|].
      split; [lia|]. rewrite N.add_assoc. exact HI2.
  Qed.

  (* once the end is reached every read returns Ok [] *)
  Theorem rd_refines_eof_sticky s n : I s (len b) ->
    exists s', rdf s n = (s', Ok []) /\ I s' (len b).
  Proof.
    intros HI. destruct (HR s (len b) n HI) as (s' & k & He & _ & Hk & _ & HI').
    assert (k = 0) by lia. subst k. rewrite sliceN_0 in He. rewrite N.add_0_r in HI'. eauto.
  Qed.
End RdRefinesFacts.

Lemma dropN_min {A} a (l : list A) : dropN (N.min a (len l)) l = dropN a l.
Proof.
  destruct (N.le_gt_cases a (len l)) as [H|H].
  - f_equal; lia.
  - rewrite !dropN_all by lia. reflexivity.
Qed.

Lemma slice_mid {A} (pre C tail : list A) c m : c <= len C ->
  sliceN c m C = sliceN (len pre + c) (len (sliceN c m C)) (pre ++ C ++ tail).
Proof.
  intros Hc. rewrite (sliceN_len_self c m C) at 1.
  set (k := len (sliceN c m C)).
  assert (Hk : c + k <= len C) by (unfold k; rewrite len_sliceN; lia).
  unfold sliceN. rewrite dropN_app_ge by lia.
  replace (len pre + c - len pre) with c by lia.
  rewrite dropN_app_le by lia. rewrite takeN_app_le by (rewrite len_dropN; lia). reflexivity.
Qed.

Section Fs.
  Variables CHUNK TAG : N.
  Hypothesis HCHUNK : 0 < CHUNK.
  Variable ks : N -> N -> N.
  Variable tagc : N -> bytes -> bytes.

  Notation CTS := (CTS CHUNK TAG).
  Notation xor_from := (xor_from ks).
  Notation verifiesb := (verifiesb TAG tagc).
  Notation ct_of := (ct_of TAG).

  (* ---------- the output as a function of the inner bytes ---------- *)

  (* dec i rem: what the mode's loader makes of the remaining inner bytes under counter i;
     None = refused *)
  Definition dec_auth (i : N) (rem : bytes) : option bytes :=
    let dt := takeN CTS rem in
    if verifiesb i dt then Some (xor_from i 0 (ct_of dt)) else None.
  Definition dec_unauth (i : N) (rem : bytes) : option bytes :=
    Some (xor_from i 0 (takeN CHUNK rem)).

  Fixpoint out_from (dec : N -> bytes -> option bytes) (fuel : nat) (i : N) (rem : bytes) : bytes :=
    match fuel with
    | O => []
    | Datatypes.S f =>
      match dec i rem with
      | None => []
      | Some pt => if len pt <? CHUNK then pt else pt ++ out_from dec f (i + 1) (dropN CTS rem)
      end
    end.


  Definition DecSpec (dec : N -> bytes -> option bytes) : Prop :=
    forall i rem pt, dec i rem = Some pt -> len pt <= CHUNK /\ len pt <= len rem.

  Lemma dec_auth_spec : DecSpec dec_auth.
  Proof.
    intros i rem pt. unfold dec_auth. destruct (verifiesb i (takeN CTS rem)); [|discriminate].
    intros H; injection H as <-. rewrite len_xor_from'. unfold EncAuth.ct_of.
    rewrite !len_takeN. unfold EncLayer.CTS. lia.
  Qed.
  Lemma dec_unauth_spec : DecSpec dec_unauth.
  Proof.
    intros i rem pt H. injection H as <-. rewrite len_xor_from', len_takeN. lia.
  Qed.

  Lemma out_from_fuel dec (Hd : DecSpec dec) f1 : forall f2 i rem,
    (length rem < f1)%nat -> (length rem < f2)%nat -> out_from dec f1 i rem = out_from dec f2 i rem.
  Proof.
    induction f1 as [|f1 IH]; intros f2 i rem H1 H2; [lia|]. destruct f2 as [|f2]; [lia|].
    cbn [out_from]. destruct (dec i rem) as [pt|] eqn:E; [|reflexivity].
    destruct (N.ltb_spec (len pt) CHUNK) as [_|Hfull]; [reflexivity|].
    destruct (Hd i rem pt E) as [_ Hl].
    assert (Hlt : (length (dropN CTS rem) < length rem)%nat).
    { pose proof (len_dropN CTS rem) as H. unfold len in H, Hl, Hfull. unfold EncLayer.CTS in *. lia. }
    f_equal. apply IH; lia.
  Qed.

  Variable w : bytes.

  (* chunk 0 is decrypted without tag check whatever the mode (D2) *)
  Definition fs_out (dec : N -> bytes -> option bytes) : bytes :=
    let c0 := xor_from 0 0 (takeN CHUNK w) in
    if len c0 <? CHUNK then c0 else c0 ++ out_from dec (Datatypes.S (length w)) 1 (dropN CTS w).
  Definition auth_out : bytes := fs_out dec_auth.
  Definition unauth_out : bytes := fs_out dec_unauth.

  (* ---------- generic loader / reader ---------- *)

  Variable S : Stream.
  Variable R : st S -> N -> Prop.
  Hypothesis HS : Seekable S w R.
  (* fewer than 2^32 - 1 chunks: current_chunk_number is a u32 *)
  Hypothesis Hbig : len w / (CHUNK + TAG) + 2 <= 2 ^ 32.
  Notation estate := (estate S).
  Notation eload := (eload CHUNK TAG ks tagc S).
  Notation eload_unauth := (eload_unauth CHUNK TAG ks S).
  Notation eread_gen := (eread_gen CHUNK S).

  Variable dec : N -> bytes -> option bytes.
  Hypothesis Hdec : DecSpec dec.
  Variable can_err : bool.
  Variable load : estate -> estate * res bool.
  Hypothesis HLoad : forall (s : estate) pin, R (e_in s) pin ->
    exists i' C r, load s = (mkE i' C 0 (e_chunk s), r) /\ R i' (pin + N.min CTS (len w - pin)) /\
      match dec (e_chunk s) (dropN pin w) with
      | Some pt => C = pt /\ (r = Ok true \/ (pt = [] /\ (r = Ok false \/ (can_err = true /\ r = Err EWrongTag))))
      | None => C = [] /\ (r = Ok false \/ (can_err = true /\ r = Err EWrongTag))
      end.

  Notation out := (fs_out dec).

  (* q bytes of `out` have been delivered *)
  Definition FsInv (s : estate) (q : N) : Prop :=
    exists pre tail, out = pre ++ e_cache s ++ tail /\ q = len pre + e_cpos s /\
      e_cpos s <= len (e_cache s) /\ len (e_cache s) <= CHUNK /\
      (len (e_cache s) < CHUNK -> tail = []) /\
      (len (e_cache s) = CHUNK ->
         e_chunk s * CTS + CHUNK <= len w /\
         R (e_in s) (N.min ((e_chunk s + 1) * CTS) (len w)) /\
         forall f, (length (dropN ((e_chunk s + 1) * CTS) w) < f)%nat ->
           tail = out_from dec f (e_chunk s + 1) (dropN ((e_chunk s + 1) * CTS) w)).

  Lemma chunk_bound k : k * CTS + CHUNK <= len w -> k + 2 <= 2 ^ 32.
  Proof.
    intros H. assert (k <= len w / CTS).
    { apply N.div_le_lower_bound; [unfold EncLayer.CTS; lia | lia]. }
    unfold EncLayer.CTS in *. lia.
  Qed.

  (* one read of the generic reader: r0 is Ok d, or (only for a loader that may fail) the
     wrong-tag error with d = [] *)
  Lemma gread_step s q n : FsInv s q ->
    exists s' d r0, eread_gen load s n = (s', r0) /\
      (r0 = Ok d \/ (can_err = true /\ r0 = Err EWrongTag /\ d = [])) /\
      d = sliceN q (len d) out /\ len d <= n /\ q + len d <= len out /\
      (len d = 0 -> n = 0 \/ q = len out) /\ FsInv s' (q + len d).
  Proof.
    intros (pre & tail & Hout & Hq & Hcp & HlC & Hshort & Hfull).
    assert (Hlo : len out = len pre + len (e_cache s) + len tail) by (rewrite Hout, !len_app; lia).
    unfold EncLayer.eread_gen, csub.
    destruct (N.leb_spec (e_cpos s) CHUNK) as [_|?]; [|lia].
    destruct (CHUNK - e_cpos s) as [|av] eqn:Hav.
    - (* cache consumed: load the next chunk *)
      assert (HC : len (e_cache s) = CHUNK) by lia.
      destruct (Hfull HC) as (Hb & HR & Htail).
      pose proof (chunk_bound _ Hb) as Hk.
      destruct (N.leb_spec (2 ^ 32) (e_chunk s + 1)) as [?|_]; [lia|].
      set (k1 := e_chunk s + 1) in *.
      set (s1 := mkE (e_in s) (e_cache s) (e_cpos s) k1).
      destruct (HLoad s1 _ HR) as (i' & C' & r & Hl & HR' & Hm).
      rewrite Hl. cbn [s1 e_chunk] in Hm, Hl |- *. rewrite dropN_min in Hm.
      set (rem := dropN (k1 * CTS) w) in *.
      specialize (Htail (Datatypes.S (length rem)) (Nat.lt_succ_diag_r _)).
      cbn [out_from] in Htail.
      set (pin' := N.min (k1 * CTS) (len w) + N.min CTS (len w - N.min (k1 * CTS) (len w))) in *.
      assert (Hpin' : pin' = N.min ((k1 + 1) * CTS) (len w)) by (unfold pin'; lia).
      assert (Hrem' : dropN CTS rem = dropN ((k1 + 1) * CTS) w).
      { unfold rem. rewrite dropN_dropN. f_equal. lia. }
      assert (Hq' : q = len (pre ++ e_cache s)) by (rewrite len_app; lia).
      destruct (dec k1 rem) as [pt|] eqn:Edec.
      + destruct Hm as [-> Hr]. destruct (Hdec _ _ _ Edec) as [Hpt1 Hpt2].
        (* the new invariant, for any cache position c <= len pt *)
        assert (Hnew : forall c, c <= len pt -> FsInv (mkE i' pt c k1) (q + c)).
        { intros c Hc. exists (pre ++ e_cache s), (if len pt <? CHUNK then [] else out_from dec (length rem) (k1 + 1) (dropN CTS rem)).
          cbn [e_cache e_cpos e_chunk e_in].
          split.
          { rewrite Hout, Htail. rewrite <- app_assoc. f_equal. f_equal.
            destruct (len pt <? CHUNK); [rewrite app_nil_r|]; reflexivity. }
          split; [lia|]. split; [exact Hc|]. split; [exact Hpt1|]. split.
          { intros Hlt. destruct (N.ltb_spec (len pt) CHUNK); [reflexivity | lia]. }
          intros Hfl. destruct (N.ltb_spec (len pt) CHUNK) as [?|_]; [lia|].
          split.
          { unfold rem in Hpt2. rewrite len_dropN in Hpt2. lia. }
          split; [rewrite <- Hpin'; exact HR'|].
          intros f Hf. rewrite <- Hrem' in Hf |- *. apply out_from_fuel; [exact Hdec | | exact Hf].
          pose proof (len_dropN CTS rem) as H. unfold len in H, Hpt2, Hfl. unfold EncLayer.CTS in *. lia. }
        assert (Hlo2 : len pre + len (e_cache s) + len pt <= len out).
        { rewrite Hlo, Htail. destruct (len pt <? CHUNK); [|rewrite len_app]; lia. }
        destruct Hr as [->|[-> Hr]].
        * (* loaded: read from the fresh cache *)
          cbn [e_cache e_cpos e_in e_chunk].
          destruct (N.leb_spec 0 CHUNK) as [_|?]; [|lia]. rewrite N.sub_0_r.
          destruct CHUNK as [|ch] eqn:Hch; [lia|]. rewrite <- Hch in *.
          unfold EncLayer.eread_cache. cbn [e_cache e_cpos e_in e_chunk].
          replace (N.min 0 (len pt)) with 0 by lia.
          set (d := sliceN 0 (N.min CHUNK n) pt).
          assert (Hld : len d = N.min (N.min CHUNK n) (len pt)) by (unfold d; rewrite len_sliceN; lia).
          exists (mkE i' pt (0 + len d) k1), d, (Ok d). split; [reflexivity|].
          split; [left; reflexivity|]. split.
          { unfold d. rewrite (slice_mid (pre ++ e_cache s) pt
               (if len pt <? CHUNK then [] else out_from dec (length rem) (k1 + 1) (dropN CTS rem)) 0 (N.min CHUNK n)) at 1 by lia.
            rewrite N.add_0_r, <- Hq'. f_equal.
            rewrite Hout, Htail, <- app_assoc. f_equal. f_equal.
            destruct (len pt <? CHUNK); [rewrite app_nil_r|]; reflexivity. }
          split; [lia|]. split; [lia|]. split.
          { intros Hz. destruct (N.eq_dec n 0) as [?|Hn]; [left; assumption|]. right.
            assert (Hp0 : len pt = 0) by lia. rewrite Hlo, Htail.
            destruct (N.ltb_spec (len pt) CHUNK); lia. }
          rewrite N.add_0_l. apply Hnew. lia.
        * (* nothing loaded (empty chunk): Ok [] or the wrong-tag error *)
          assert (HI' : FsInv (mkE i' [] 0 k1) (q + len (@nil N))).
          { change (len (@nil N)) with 0. apply (Hnew 0). lia. }
          destruct Hr as [->|[Hce ->]].
          -- exists (mkE i' [] 0 k1), [], (Ok []). split; [reflexivity|]. split; [left; reflexivity|].
             rewrite sliceN_0. split; [reflexivity|]. change (len (@nil N)) with 0 in *.
             split; [lia|]. split; [lia|]. split; [|exact HI'].
             intros _. right. rewrite Hlo, Htail. destruct (N.ltb_spec 0 CHUNK); [|lia]. change (len (@nil N)) with 0. lia.
          -- exists (mkE i' [] 0 k1), [], (Err EWrongTag). split; [reflexivity|].
             split; [right; auto|].
             rewrite sliceN_0. split; [reflexivity|]. change (len (@nil N)) with 0 in *.
             split; [lia|]. split; [lia|]. split; [|exact HI'].
             intros _. right. rewrite Hlo, Htail. destruct (N.ltb_spec 0 CHUNK); [|lia]. change (len (@nil N)) with 0. lia.
      + (* refused: the end *)
        destruct Hm as [-> Hr].
        assert (HI' : FsInv (mkE i' [] 0 k1) (q + len (@nil N))).
        { change (len (@nil N)) with 0. exists (pre ++ e_cache s), []. cbn [e_cache e_cpos e_chunk e_in]. change (len (@nil N)) with 0.
          split; [rewrite Hout, Htail, !app_nil_r; reflexivity|].
          split; [lia|]. split; [lia|]. split; [lia|]. split; [reflexivity|]. lia. }
        rewrite Htail in Hlo. change (len (@nil N)) with 0 in Hlo.
        destruct Hr as [->|[Hce ->]].
        * exists (mkE i' [] 0 k1), [], (Ok []). split; [reflexivity|]. split; [left; reflexivity|].
          rewrite sliceN_0. split; [reflexivity|]. change (len (@nil N)) with 0 in *.
          split; [lia|]. split; [lia|]. split; [|exact HI']. intros _. right. lia.
        * exists (mkE i' [] 0 k1), [], (Err EWrongTag). split; [reflexivity|]. split; [right; auto|].
          rewrite sliceN_0. split; [reflexivity|]. change (len (@nil N)) with 0 in *.
          split; [lia|]. split; [lia|]. split; [|exact HI']. intros _. right. lia.
    - (* read from the cache *)
      rewrite <- Hav. unfold EncLayer.eread_cache.
      replace (N.min (e_cpos s) (len (e_cache s))) with (e_cpos s) by lia.
      set (d := sliceN (e_cpos s) (N.min (CHUNK - e_cpos s) n) (e_cache s)).
      assert (Hld : len d = N.min (N.min (CHUNK - e_cpos s) n) (len (e_cache s) - e_cpos s))
        by (unfold d; rewrite len_sliceN; lia).
      exists (mkE (e_in s) (e_cache s) (e_cpos s + len d) (e_chunk s)), d, (Ok d).
      split; [reflexivity|]. split; [left; reflexivity|]. split.
      { unfold d. rewrite (slice_mid pre (e_cache s) tail (e_cpos s)) at 1 by lia.
        rewrite <- Hq, <- Hout. reflexivity. }
      split; [lia|]. split; [lia|]. split.
      { intros Hz. destruct (N.eq_dec n 0) as [?|Hn]; [left; assumption|]. right.
        assert (Hend : e_cpos s = len (e_cache s)) by lia.
        rewrite Hlo, (Hshort ltac:(lia)), len_nil. lia. }
      exists pre, tail. cbn [e_cache e_cpos e_chunk e_in].
      split; [exact Hout|]. split; [lia|]. split; [lia|]. split; [exact HlC|]. split; assumption.
  Qed.

  (* the state fs_open leaves, whatever the mode *)
  Lemma fs_open_inv i0 : R i0 0 ->
    exists s r, fs_open CHUNK TAG ks S i0 = (s, r) /\ (r = Ok true \/ r = Ok false) /\ FsInv s 0.
  Proof.
    intros HR. unfold fs_open.
    destruct (eload_unauth_skb CHUNK TAG HCHUNK ks tagc S w R HS (mkE i0 [] 0 0) 0 HR) as (i' & HR' & ->).
    cbn [e_chunk]. change (sliceN 0 CHUNK w) with (takeN CHUNK w).
    eexists _, _. split; [reflexivity|]. split; [destruct (len (takeN CHUNK w) =? 0); auto|].
    set (c0 := xor_from 0 0 (takeN CHUNK w)).
    exists [], (if len c0 <? CHUNK then [] else out_from dec (Datatypes.S (length w)) 1 (dropN CTS w)).
    cbn [e_cache e_cpos e_chunk e_in app].
    assert (Hl0 : len c0 = N.min CHUNK (len w)) by (unfold c0; rewrite len_xor_from', len_takeN; reflexivity).
    split.
    { unfold fs_out. fold c0. destruct (len c0 <? CHUNK); [rewrite app_nil_r|]; reflexivity. }
    split; [change (len (@nil N)) with 0; lia|]. split; [lia|]. split; [lia|]. split.
    { intros Hlt. destruct (N.ltb_spec (len c0) CHUNK); [reflexivity | lia]. }
    intros Hfl. destruct (N.ltb_spec (len c0) CHUNK) as [?|_]; [lia|].
    split; [lia|]. split.
    { replace (N.min ((0 + 1) * CTS) (len w)) with (0 + N.min CTS (len w - 0)) by lia. exact HR'. }
    replace ((0 + 1) * CTS) with CTS by lia. change (0 + 1) with 1.
    intros f Hf. apply out_from_fuel; [exact Hdec | | exact Hf].
    pose proof (len_dropN CTS w) as H. unfold len in H. lia.
  Qed.
End Fs.

(* ---------- instantiation: the two modes ---------- *)

Section FsModes.
  Variables CHUNK TAG : N.
  Hypothesis HCHUNK : 0 < CHUNK.
  Variable ks : N -> N -> N.
  Variable tagc : N -> bytes -> bytes.
  Variable S : Stream.
  Variable w : bytes.
  Variable R : st S -> N -> Prop.
  Hypothesis HS : Seekable S w R.
  Hypothesis Hbig : len w / (CHUNK + TAG) + 2 <= 2 ^ 32.

  Notation CTS := (CTS CHUNK TAG).
  Notation xor_from := (xor_from ks).
  Notation estate := (estate S).
  Notation fs_read := (fs_read CHUNK TAG ks tagc S).
  Notation fs_open := (fs_open CHUNK TAG ks S).
  Notation auth_out := (auth_out CHUNK TAG ks tagc w).
  Notation unauth_out := (unauth_out CHUNK TAG ks w).
  Notation dec_auth := (dec_auth CHUNK TAG ks tagc).
  Notation dec_unauth := (dec_unauth CHUNK ks).

  Definition FsInvA := FsInv CHUNK TAG ks w S R dec_auth.
  Definition FsInvU := FsInv CHUNK TAG ks w S R dec_unauth.

  Lemma load_auth_spec (s : estate) pin : R (e_in s) pin ->
    exists i' C r, eload CHUNK TAG ks tagc S s = (mkE i' C 0 (e_chunk s), r) /\
      R i' (pin + N.min CTS (len w - pin)) /\
      match dec_auth (e_chunk s) (dropN pin w) with
      | Some pt => C = pt /\ (r = Ok true \/ (pt = [] /\ (r = Ok false \/ (true = true /\ r = Err EWrongTag))))
      | None => C = [] /\ (r = Ok false \/ (true = true /\ r = Err EWrongTag))
      end.
  Proof.
    intros HR. destruct (eload_skb CHUNK TAG HCHUNK ks tagc S w R HS s pin HR) as (i' & HR' & He).
    eexists _, _, _. split; [exact He|]. split; [exact HR'|].
    unfold EncAuthFs.dec_auth. change (takeN CTS (dropN pin w)) with (sliceN pin CTS w).
    destruct (verifiesb TAG tagc (e_chunk s) (sliceN pin CTS w)) eqn:Ev.
    - split; [reflexivity|]. left. unfold verifiesb in Ev.
      destruct (len (sliceN pin CTS w) =? 0); [discriminate | reflexivity].
    - split; [reflexivity|]. destruct (len (sliceN pin CTS w) =? 0); auto.
  Qed.

  Lemma load_unauth_spec (s : estate) pin : R (e_in s) pin ->
    exists i' C r, eload_unauth CHUNK TAG ks S s = (mkE i' C 0 (e_chunk s), r) /\
      R i' (pin + N.min CTS (len w - pin)) /\
      match dec_unauth (e_chunk s) (dropN pin w) with
      | Some pt => C = pt /\ (r = Ok true \/ (pt = [] /\ (r = Ok false \/ (false = true /\ r = Err EWrongTag))))
      | None => C = [] /\ (r = Ok false \/ (false = true /\ r = Err EWrongTag))
      end.
  Proof.
    intros HR. destruct (eload_unauth_skb CHUNK TAG HCHUNK ks tagc S w R HS s pin HR) as (i' & HR' & He).
    eexists _, _, _. split; [exact He|]. split; [exact HR'|].
    unfold EncAuthFs.dec_unauth. change (takeN CHUNK (dropN pin w)) with (sliceN pin CHUNK w).
    split; [reflexivity|].
    destruct (N.eqb_spec (len (sliceN pin CHUNK w)) 0) as [Hz|_]; [|left; reflexivity].
    right. apply len_0_nil in Hz. rewrite Hz. auto.
  Qed.

  (* THEOREM B.  Authenticated mode: any sequence of reads delivers consecutive bytes of
     auth_out w, and Ok [] for ever once it is exhausted. *)
  Theorem fs_auth_refines : RdRefines (fs_read false) auth_out FsInvA.
  Proof.
    intros s q n HI. unfold EncLayer.fs_read.
    destruct (gread_step CHUNK TAG HCHUNK ks tagc w S R Hbig dec_auth (dec_auth_spec CHUNK TAG HCHUNK ks tagc)
                true _ load_auth_spec s q n HI) as (s' & d & r0 & He & Hr & Hd & Hn & Hb & Hz & HI').
    fold (eload CHUNK TAG ks tagc S) in He. rewrite He. unfold EncAuthFs.auth_out.
    exists s', (len d). rewrite <- Hd.
    destruct Hr as [->|(_ & -> & ->)]; (split; [reflexivity|]); repeat split; assumption.
  Qed.

  Theorem fs_unauth_refines : RdRefines (fs_read true) unauth_out FsInvU.
  Proof.
    intros s q n HI. unfold EncLayer.fs_read.
    destruct (gread_step CHUNK TAG HCHUNK ks tagc w S R Hbig dec_unauth (dec_unauth_spec CHUNK HCHUNK ks tagc)
                false _ load_unauth_spec s q n HI) as (s' & d & r0 & He & Hr & Hd & Hn & Hb & Hz & HI').
    rewrite He. unfold EncAuthFs.unauth_out. exists s', (len d). rewrite <- Hd.
    destruct Hr as [->|(Hf & _)]; [|discriminate]. split; [reflexivity|]. repeat split; assumption.
  Qed.

  Theorem fs_open_auth i0 : R i0 0 ->
    exists s r, fs_open i0 = (s, r) /\ (r = Ok true \/ r = Ok false) /\ FsInvA s 0.
  Proof. apply (fs_open_inv CHUNK TAG HCHUNK ks tagc w S R HS Hbig dec_auth (dec_auth_spec CHUNK TAG HCHUNK ks tagc) true _ load_auth_spec). Qed.

  Theorem fs_open_unauth i0 : R i0 0 ->
    exists s r, fs_open i0 = (s, r) /\ (r = Ok true \/ r = Ok false) /\ FsInvU s 0.
  Proof. apply (fs_open_inv CHUNK TAG HCHUNK ks tagc w S R HS Hbig dec_unauth (dec_unauth_spec CHUNK HCHUNK ks tagc) false _ load_unauth_spec). Qed.
End FsModes.
