(* RunC01.v — Tie B entry points of property C01 for the archive HEADER (work package
   "header"): the model's `to_persistent` / `dump_header` (Archive.v) and `read_header` /
   `load_config`, with the key wrap of EciesGcm.v at the concrete AES-256 (Concrete/Aes.v),
   GF(2^128) product (Concrete/Ghash.v) and HKDF-SHA256 (Format.hkdf_info).

   ORACLE MODE for X25519 (the ephemeral scalar is drawn inside the library and never leaves
   it): the harness passes the ephemeral PUBLIC key read from the header and, per recipient, the
   D-H shared secret it computed with x25519-dalek; the model is run with
     pubk := fun _ => epub         dh := fun _ r => r      recipients := the shared secrets
   (writer side) and dh := fun p _ => p, candidates := shared secrets (reader side), so that
   derive_key = HKDF(shared) and everything after the D-H is the model's own computation. *)
From MLA Require Import Limit.
From MLAGen Require Src.
(* executable entry points: the production value of BINCODE_MAX_DESERIALIZE (the same in both flavours), file-local *)
#[local] Instance RUN_LIMIT : Limit := MLAGen.Src.BINCODE_MAX_DESERIALIZE_prod.
From MLA Require Import Base Inst Format Gcm Ecies EciesGcm Archive ArchiveInst.
From MLA.Concrete Require Aes Ghash.
From MLAGen Require Src.
Open Scope N_scope.

Definition c01_wenc := gwenc E_aes256 Ghash.gf_mul.
Definition c01_wdec := gwdec E_aes256 Ghash.gf_mul.
Definition c01_wtag := gwtag E_aes256 Ghash.gf_mul.
Definition c01_LIMIT : N := Src.BINCODE_MAX_DESERIALIZE_prod.

(* writer side: [status]; header bytes *)
Definition c01_header (_ : consts) (enc comp : N) (epub : bytes) (shared : list bytes) (key nonce : bytes)
  : list (list N) :=
  let cfg := mkWC (comp =? 1) (enc =? 1) (fun x => x) key nonce [] shared in
  match dump_header c01_LIMIT (to_persistent (fun _ => epub) (fun _ r => r) hkdf_info c01_wenc c01_wtag cfg) with
  | Ok b => [[0]; b]
  | Err _ => [[1]]
  | Crash _ => [[2]]
  end.

(* reader side: the header of a real archive and the candidates' shared secrets, in order:
   [status]; [encrypt?; compress?]; key; nonce; [header length] *)
Definition c01_load (_ : consts) (archive : bytes) (cands : list bytes) : list (list N) :=
  match read_header c01_LIMIT archive with
  | Ok (h, rest) =>
    match load_config (fun p _ => p) hkdf_info c01_wdec c01_wtag h cands with
    | Ok (e, c, k, n) => [[0]; [if e then 1 else 0; if c then 1 else 0]; k; n; [len archive - len rest]]
    | Err _ => [[1; 1]]
    | Crash _ => [[2; 1]]
    end
  | Err _ => [[1]]
  | Crash _ => [[2]]
  end.
