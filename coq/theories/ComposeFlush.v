(* ComposeFlush.v — C14 END TO END for {no layer, encryption} (no compression):

     any clean run of the archive writer (no finalize)      [ComposeWriterRun.clean_run_blocks]
       -> its block stream w_out, through the encryption writer in ANY pieces, flush
       -> the bytes handed down so far (ew_out), as they lie in the file after a crash
       -> fail-safe decryptor                               [EncFlushProofs.flush_prefix_*]
       -> repair loop                                       [ComposeRdOnly / RepairProofs6]
     recovers, under every started name, EXACTLY the concatenation of all successful appends
     made to that file so far (unauthenticated mode and no encryption), or exactly the content
     bytes lying in the first m >= ew_ctr * CHUNK bytes of the block stream (authenticated
     mode: the current, tag-less chunk is lost — except chunk 0, D2).

   This closes the gap that props/C14.v states for C14_flush_enc_layer_output (formerly ..._partial). *)
From MLA Require Import Limit.
From MLA Require Import Base Stream Blocks Writer WriterProofs Repair RepairSpec RepairPure
  RepairProofs2 RepairProofs5 RepairProofs6 EncLayer EncAuthFs EncWriter EncWriterProofs EncFlushProofs
  FlushProofs Run ComposeRdOnly ComposeRepair ComposeWriterRun.
From Coq Require Import ZifyBool ZifyNat ZifyN.
Open Scope N_scope.

(* a cursor, as a read-only refinement *)
Lemma cursor_rd_refines b : RdRefines (rd (Cursor b)) b (fun s p => s = p /\ p <= len b).
Proof. intros s q n HI. exact (ref_rd _ _ _ (cursor_refines b) s q n HI). Qed.

(* when nothing is cut and the list has no EndOfArchiveData, `cutb` keeps every block *)
Lemma cutb_full : forall bl m, ~ In BEnd bl -> blens bl <= m -> cutb bl m = (bl, false).
Proof.
  induction bl as [|b r IH]; intros m Hn Hm; [reflexivity|].
  assert (Hr : ~ In BEnd r) by (intros Hi; apply Hn; now right).
  cbn [blens fold_right] in Hm. fold (blens r) in Hm.
  destruct b as [i nm|i d|i h|]; cbn [cutb blen] in *.
  - destruct (N.ltb_spec m (17 + len nm)); [lia|]. rewrite IH by (auto; lia). reflexivity.
  - destruct (N.ltb_spec m 17); [lia|]. destruct (N.ltb_spec m (17 + len d)); [lia|].
    rewrite IH by (auto; lia). reflexivity.
  - destruct (N.ltb_spec m (9 + len h)); [lia|]. rewrite IH by (auto; lia). reflexivity.
  - exfalso. apply Hn. now left.
Qed.

Section Flush.
  Context {LIM : Limit}.
  Variable FNMAX CACHE : N.
  Hypothesis HFN : FNMAX < 2 ^ 64.
  Hypothesis HCACHE : 0 < CACHE.
  Variables T_START T_CONTENT T_EOA T_EOF : N.
  Hypothesis Htags : T_START <> T_CONTENT /\ T_START <> T_EOA /\ T_START <> T_EOF /\
                     T_CONTENT <> T_EOA /\ T_CONTENT <> T_EOF /\ T_EOA <> T_EOF.
  Variable H : bytes -> bytes.
  Hypothesis H_len : forall x, len (H x) = 32.
  Variable order : footer -> footer.

  Notation body := (body T_START T_CONTENT T_EOA T_EOF).
  Notation repair := (repair FNMAX CACHE T_START T_CONTENT T_EOA T_EOF H).
  Notation wf_blocks := (wf_blocks FNMAX H).
  Notation good_output := (good_output FNMAX T_START T_CONTENT T_EOA T_EOF H).
  Notation wrun := (wrun FNMAX T_START T_CONTENT T_EOA T_EOF H order).
  Notation appended := (appended FNMAX T_START T_CONTENT T_EOA T_EOF H order).

  (* ---------- repair of a whole, unterminated block stream through a read-only source ---------- *)
  Lemma repair_whole_blocks S I bl s0 fuel :
    RdRefines (rd S) (body bl) I -> wf_blocks bl -> ~ In BEnd bl -> I s0 0 ->
    (N.to_nat (len (body bl)) < fuel)%nat ->
    (* finalize did not fail with SerializationError (footer within the bincode limit) *)
    repair S fuel s0 w_init <> Err EDeser ->
    exists out obl,
      repair S fuel s0 w_init = Ok (FEofNextBlock, unfinished_of (files_of bl), out) /\
      good_output out obl /\ Forall2 same (files_of bl) (files_of obl).
  Proof.
    intros HR Hwf Hne HI Hf Hser.
    destruct (repair_exact_rd FNMAX CACHE HFN HCACHE T_START T_CONTENT T_EOA T_EOF Htags H H_len
                S (body bl) I HR bl [] Hwf (or_intror eq_refl) (prefix_app _ _) s0 HI fuel Hf Hser)
      as (out & obl & Hr & Hg & Hs).
    unfold recovered in *. rewrite (cutb_full bl (len (body bl)) Hne) in *
      by (rewrite (len_body T_START T_CONTENT T_EOA T_EOF); lia).
    cbn [fst snd] in *. exists out, obl. auto.
  Qed.

  (* what the output holds under the names of the writer's table *)
  Lemma names_content bl obl (files : list (bytes * N)) (dat : N -> bytes) :
    wf_blocks bl -> files = name_list (files_of bl) ->
    (forall id, data_of_id (files_of bl) id = dat id) ->
    Forall2 same (files_of bl) (files_of obl) ->
    forall name id, In (name, id) files -> content_of (files_of obl) name = dat id.
  Proof.
    intros [Hw _] -> Hd Hs name id Hin.
    apply in_map_iff in Hin. destruct Hin as (f & Heq & Hf). injection Heq as <- <-.
    rewrite (same_content _ _ _ Hs), <- Hd.
    pose proof (frun_names_nodup FNMAX H bl [] (NoDup_nil _) Hw) as Hnn.
    pose proof (frun_nodup FNMAX H bl [] (NoDup_nil _) Hw) as Hni.
    fold (files_of bl) in Hnn, Hni.
    unfold content_of, data_of_id.
    destruct (find_name (files_of bl) (f_name f)) as [g|] eqn:En.
    2:{ exfalso. apply (find_name_none_notin _ _ En). now apply in_map. }
    destruct (find_name_some _ _ _ En) as [Hg Hgn].
    rewrite (names_nodup_inj _ _ _ Hnn Hg Hf Hgn).
    destruct (find_id (files_of bl) (f_id f)) as [g'|] eqn:Ei.
    2:{ exfalso. apply (find_id_none_notin _ _ Ei). now apply in_map. }
    destruct (find_id_some _ _ _ Ei) as [Hg' Hgi].
    rewrite (ids_nodup_inj _ _ _ Hni Hg' Hf Hgi). reflexivity.
  Qed.

  (* the conclusion shared by the layer-less and the unauthenticated case *)
  Definition recovers_all (s : wstate) (ops : list wop) (r : res (fstatus * list bytes * wstate)) : Prop :=
    exists bl out obl,
      w_out s = body bl /\ wf_blocks bl /\ w_files s = name_list (files_of bl) /\
      r = Ok (FEofNextBlock, unfinished_of (files_of bl), out) /\
      good_output out obl /\ Forall2 same (files_of bl) (files_of obl) /\
      forall name id, In (name, id) (w_files s) ->
        content_of (files_of obl) name = appended id w_init ops.

  Section OneRun.
    Variables (ops : list wop) (s : wstate) (rs : list (res N)).
    Hypothesis Hrun : wrun w_init ops = (s, rs).
    Hypothesis Hclean : Forall (fun x => clean (fst x) (snd x)) (combine ops rs).
    Hypothesis Hops : Forall op_ok ops.
    Hypothesis Hnext : w_next s < 2 ^ 64.

    (* no layer: the flushed bytes are the block stream itself, read through any source that
       refines them read-only (a file, a throttled file, ...) *)
    Theorem flush_then_repair_plain S I s0 fuel :
      RdRefines (rd S) (w_out s) I -> I s0 0 -> (N.to_nat (len (w_out s)) < fuel)%nat ->
      repair S fuel s0 w_init <> Err EDeser ->
      recovers_all s ops (repair S fuel s0 w_init).
    Proof.
      intros HR HI Hf Hser.
      destruct (clean_run_blocks FNMAX T_START T_CONTENT T_EOA T_EOF H order ops s rs Hrun Hclean Hops Hnext)
        as (bl & Ho & Hwf & Hne & Hfl & Hd).
      rewrite Ho in HR, Hf.
      destruct (repair_whole_blocks S I bl s0 fuel HR Hwf Hne HI Hf Hser) as (out & obl & Hr & Hg & Hs).
      exists bl, out, obl. repeat (split; [assumption|]).
      exact (names_content bl obl _ _ Hwf Hfl Hd Hs).
    Qed.

    Variables CHUNK TAG CIPHERBUF : N.
    Hypothesis HCHUNK : 0 < CHUNK.
    Hypothesis HTAG : 0 < TAG.
    Variable ks : N -> N -> N.
    Variable tagc : N -> bytes -> bytes.
    Hypothesis Htagc : forall i c, len (tagc i c) = TAG.
    Notation FsEnc := (FsEnc CHUNK TAG ks tagc).
    Notation fs_open := (fs_open CHUNK TAG ks).
    Notation fs_output := (fs_output CHUNK TAG ks tagc).

    (* reading a read-only refinement of b to its end yields the rest of b *)
    Lemma drain_refines S unauth b (I : estate S -> N -> Prop) n :
      RdRefines (fs_read CHUNK TAG ks tagc S unauth) b I -> 0 < n ->
      forall fuel e q acc r, I e q ->
        fs_drain CHUNK TAG ks tagc S unauth fuel e n acc = Ok r -> r = acc ++ dropN q b.
    Proof.
      intros HR Hn. induction fuel as [|fuel IH]; intros e q acc r HI Hd; cbn [fs_drain] in Hd; [discriminate|].
      destruct (HR e q n HI) as (e' & k & He & Hkn & Hkb & Hz & HI'). rewrite He in Hd.
      assert (Hl : len (sliceN q k b) = k) by (rewrite len_sliceN; lia). rewrite Hl in Hd.
      destruct (N.eqb_spec k 0) as [Hk0|Hk].
      - subst k. injection Hd as <-. destruct (Hz eq_refl) as [?|Hq]; [lia|]. subst q.
        rewrite dropN_all by lia. symmetry; apply app_nil_r.
      - rewrite (IH _ _ _ _ HI' Hd), <- app_assoc, sliceN_app_dropN. reflexivity.
    Qed.

    (* so: what fs_read_all returns IS the output string of EncAuthFs.v *)
    Lemma fs_output_of_read_all unauth w fuel n p : len w / (CHUNK + TAG) + 2 <= 2 ^ 32 -> 0 < n ->
      fs_read_all CHUNK TAG ks tagc (Cursor w) unauth fuel 0 n = Ok p -> fs_output unauth w = p.
    Proof.
      intros Hbig Hn Hr. destruct (fsenc_rd_refines CHUNK TAG HCHUNK ks tagc unauth w Hbig) as (I & HR & e0 & b & Ho & HI).
      unfold fs_read_all in Hr. rewrite Ho in Hr.
      rewrite (drain_refines (Cursor w) unauth _ I n HR Hn fuel e0 0 [] p HI Hr). reflexivity.
    Qed.

    Variables (pieces : list bytes) (fuelw : nat) (es : ewstate).
    Hypothesis Hpieces : concat pieces = w_out s.
    Hypothesis Hew : ew_write_pieces CHUNK CIPHERBUF ks tagc fuelw ew_init pieces = Ok es.
    Hypothesis Hbigp : len (w_out s) / CHUNK < 2 ^ 32.
    Hypothesis Hbig : len (ew_out es) / (CHUNK + TAG) + 2 <= 2 ^ 32.

    Lemma es_inv : EwInv CHUNK ks tagc es (w_out s).
    Proof.
      assert (Hc0 : EwCanon ew_init) by (intros _; reflexivity).
      destruct (ew_write_pieces_inv CHUNK CIPHERBUF HCHUNK ks tagc fuelw pieces ew_init [] es
                  (EwInv_init CHUNK CIPHERBUF HCHUNK ks tagc) Hc0 Hew) as [Hinv _].
      cbn [app] in Hinv. rewrite Hpieces in Hinv. exact Hinv.
    Qed.

    Lemma unauth_output_is : fs_output true (ew_out es) = w_out s.
    Proof.
      apply (fs_output_of_read_all true (ew_out es) (Datatypes.S (N.to_nat (len (w_out s)))) 1 _ Hbig ltac:(lia)).
      apply (flush_prefix_unauth CHUNK TAG HCHUNK HTAG ks tagc Htagc es (w_out s) _ 1 es_inv Hbigp); lia.
    Qed.

    (* encryption, DataEvenUnauthenticated: everything appended so far *)
    Theorem flush_then_repair_enc fuel : (N.to_nat (len (w_out s)) < fuel)%nat ->
      exists e0 b, fs_open (Cursor (ew_out es)) 0 = (e0, Ok b) /\
        (repair (FsEnc true (Cursor (ew_out es))) fuel e0 w_init <> Err EDeser ->
         recovers_all s ops (repair (FsEnc true (Cursor (ew_out es))) fuel e0 w_init)).
    Proof.
      intros Hf.
      destruct (fsenc_rd_refines CHUNK TAG HCHUNK ks tagc true (ew_out es) Hbig) as (I & HR & e0 & b & Ho & HI).
      exists e0, b. split; [exact Ho|]. rewrite unauth_output_is in HR. intros Hser.
      exact (flush_then_repair_plain _ I e0 fuel HR HI Hf Hser).
    Qed.

    (* encryption, authenticated mode: exactly the content in the first m bytes of the block
       stream, m covering at least every completed chunk *)
    Theorem flush_then_repair_enc_auth fuel : (N.to_nat (len (w_out s)) < fuel)%nat ->
      exists e0 b, fs_open (Cursor (ew_out es)) 0 = (e0, Ok b) /\
      (repair (FsEnc false (Cursor (ew_out es))) fuel e0 w_init <> Err EDeser ->
      exists m bl status unfinished out obl,
        ew_ctr es * CHUNK <= m /\ m <= len (w_out s) /\ (ew_ctr es = 0 -> m = len (w_out s)) /\
        w_out s = body bl /\ wf_blocks bl /\ w_files s = name_list (files_of bl) /\
        repair (FsEnc false (Cursor (ew_out es))) fuel e0 w_init = Ok (status, unfinished, out) /\
        good_output out obl /\
        (forall f, In f (files_of bl) -> content_of (files_of obl) (f_name f) = present (f_id f) bl m) /\
        (forall id, data_of_id (files_of bl) id = appended id w_init ops)).
    Proof.
      intros Hf.
      destruct (clean_run_blocks FNMAX T_START T_CONTENT T_EOA T_EOF H order ops s rs Hrun Hclean Hops Hnext)
        as (bl & Ho & Hwf & Hne & Hfl & Hd).
      destruct (fsenc_rd_refines CHUNK TAG HCHUNK ks tagc false (ew_out es) Hbig) as (I & HR & e0 & b & Hop & HI).
      exists e0, b. split; [exact Hop|]. intros Hser.
      set (m := ew_auth_len CHUNK TAG ks tagc es (w_out s)).
      destruct (ew_auth_len_bounds CHUNK TAG HCHUNK HTAG ks tagc Htagc es (w_out s) es_inv) as (B1 & B2 & B3).
      fold m in B1, B2, B3.
      assert (Hout : fs_output false (ew_out es) = takeN m (w_out s)).
      { apply (fs_output_of_read_all false (ew_out es) (Datatypes.S (N.to_nat (len (w_out s)))) 1 _ Hbig ltac:(lia)).
        apply (flush_prefix_auth CHUNK TAG HCHUNK HTAG ks tagc Htagc es (w_out s) _ 1 es_inv Hbigp); lia. }
      rewrite Hout, Ho in HR.
      assert (Hlm : len (takeN m (body bl)) = m) by (rewrite len_takeN, <- Ho; lia).
      destruct (repair_max_rd FNMAX CACHE HFN HCACHE T_START T_CONTENT T_EOA T_EOF Htags H H_len
                  _ _ I HR bl [] Hwf (or_intror eq_refl)
                  (prefix_trans _ _ _ (prefix_takeN m (body bl)) (prefix_app _ _)) e0 HI fuel
                  ltac:(rewrite Hlm; lia) Hser)
        as (status & unf & out & obl & Hr & Hg & Hc).
      rewrite Hlm in Hc.
      exists m, bl, status, unf, out, obl. repeat (split; [assumption|]). exact Hd.
    Qed.
  End OneRun.
End Flush.
