(* RepairMask.v — the repair loop over a source whose END is an error.

   The fail-safe decompression reader ends a truncated stream with Ok(0) only at a block
   boundary; inside a brotli stream it ends with Err(UnexpectedEof), on the footer bytes with
   Err(InvalidData).  The repair theorems (RepairProofs1-6, ComposeRdOnly) are stated for
   sources that end with Ok(0) for ever.  Route taken here, without touching them:

   `Mask S` — a GHOST stream (a proof device, not a model of any Rust type): S, except that
   the first error S returns is replaced by Ok [] and every later read returns Ok []; reads
   of 0 bytes are answered without calling S (the repair loop never issues one).

   `repair_mask` — whenever `repair` over `Mask S` returns Ok (status', unfinished, out),
   `repair` over S itself returns Ok (status, unfinished, out): the SAME output archive and
   unfinished list; only the stopping status may differ (e.g. ErrorInFile / IoErrorNextBlock
   instead of UnexpectedEofOnNextBlock).  Reason, read off the code: every path of the loop
   stops at the first read error; where the error strikes inside a content block the bytes
   read so far have been appended to the output before the error is looked at
   (lib.rs 'content: "appended but not hashed"), exactly as they are when the read returns 0.

   So every theorem about `repair` over a read-only refinement transfers to a source S such
   that `Mask S` is one. *)
From MLA Require Import Limit.
From MLA Require Import Base Stream Blocks Writer Repair ComposeRdOnly.
From Coq Require Import ZifyBool ZifyNat ZifyN.
Open Scope N_scope.

Definition mask_rd (S : Stream) (s : option (st S)) (n : N) : option (st S) * res bytes :=
  match s with
  | None => (None, Ok [])
  | Some s0 =>
    if n =? 0 then (Some s0, Ok []) else
    match rd S s0 n with
    | (s1, Err _) => (None, Ok [])
    | (s1, r) => (Some s1, r)
    end
  end.
Definition Mask (S : Stream) : Stream :=
  {| st := option (st S); rd := mask_rd S; sk := fun s _ => (s, Err EInval) |}.

(* ---------- SerializationError (EDeser) comes from finalize only ----------
   Whatever the source, the block loop and the clean-up never return Err EDeser: the loop
   masks every read error into a stopping status, and start_file / append_file_content /
   end_file do not serialise the footer.  So `repair ... = Err EDeser` means: the loop and the
   clean-up succeeded and w_finalize refused the footer (bincode limit / u32 length). *)
Section NoSer.
  Variable X : Stream.
  Variables FNMAX CACHE T_START T_CONTENT T_EOA T_EOF : N.
  Variable H : bytes -> bytes.

  Lemma w_start_noser s name o :
    w_start FNMAX T_START T_CONTENT T_EOA T_EOF s name = (o, Err EDeser) -> False.
  Proof.
    unfold w_start. destruct (w_final s); [discriminate|]. destruct (_ <? _); [discriminate|].
    destruct (name_used _ _); discriminate.
  Qed.

  Lemma w_append_noser s id size src o : w_append T_CONTENT s id size src = (o, Err EDeser) -> False.
  Proof.
    unfold w_append. destruct (w_final s); [discriminate|]. destruct (alookup _ _); [|discriminate].
    destruct (size =? 0); [discriminate|]. cbv zeta. destruct (_ <? _); discriminate.
  Qed.

  Lemma w_end_noser s id o : w_end T_START T_CONTENT T_EOA T_EOF H s id = (o, Err EDeser) -> False.
  Proof.
    unfold w_end. destruct (w_final s); [discriminate|]. destruct (alookup _ _); discriminate.
  Qed.

  Lemma content_loop_noser fuel : forall s out id r got s' o' g' re,
    content_loop CACHE T_CONTENT X fuel s out id r got = (s', o', g', re, Some EDeser) -> False.
  Proof.
    induction fuel as [|f IH]; intros s out id r got s' o' g' re; cbn [Repair.content_loop]; [discriminate|].
    destruct (buf_fill CACHE X (Datatypes.S f) s r []) as [[[s1 rem'] buf] rerr].
    destruct (w_append T_CONTENT out id (len buf) buf) as [out1 [x|x|x]] eqn:Ew.
    - destruct rerr; [discriminate|]. destruct (_ <? _); [discriminate | apply IH].
    - intros E. assert (Ex : x = EDeser) by congruence. subst x. exact (w_append_noser _ _ _ _ _ Ew).
    - discriminate.
  Qed.

  Lemma block_loop_noser fuel : forall st st',
    block_loop FNMAX CACHE T_START T_CONTENT T_EOA T_EOF H X fuel st = (st', Err EDeser) -> False.
  Proof.
    induction fuel as [|f IH]; intros st st'; [discriminate|].
    cbn [Repair.block_loop].
    destruct (parse_block FNMAX T_START T_CONTENT T_EOA T_EOF X (rp_src X st)) as [s1 [pb|pe|c]];
      [|destruct pe; discriminate|discriminate].
    destruct pb as [id name|id l|id h|]; cbv zeta.
    - destruct (existsb _ _); [discriminate|]. destruct (mem _ _); [discriminate|].
      destruct (w_start FNMAX T_START T_CONTENT T_EOA T_EOF (rp_out X st) name) as [o1 [x|x|x]] eqn:Ew;
        [apply IH| |discriminate].
      destruct x; try discriminate. intros _. exact (w_start_noser _ _ _ Ew).
    - destruct (assoc _ id) as [ido|]; [|discriminate]. destruct (mem _ _); [discriminate|].
      destruct (assoc (rp_names X st) id); [|discriminate]. destruct (assoc (rp_hash X st) id) as [hashed|]; [|discriminate].
      destruct (content_loop CACHE T_CONTENT X (Datatypes.S f) s1 (rp_out X st) ido l []) as [[[[s2 o2] g2] e2] f2] eqn:Ec.
      destruct f2 as [fe|].
      + destruct e2; intros E; (assert (Ex : fe = EDeser) by congruence); subst fe;
          exact (content_loop_noser _ _ _ _ _ _ _ _ _ _ Ec).
      + destruct e2; [discriminate | apply IH].
    - destruct (assoc _ id) as [ido|]; [|discriminate]. destruct (mem _ _); [discriminate|].
      destruct (assoc (rp_hash X st) id) as [hashed|]; [|discriminate].
      destruct (negb _); [discriminate|].
      destruct (w_end T_START T_CONTENT T_EOA T_EOF H (rp_out X st) ido) as [o1 [x|x|x]] eqn:Ew;
        [apply IH| |discriminate].
      intros E. assert (Ex : x = EDeser) by congruence. subst x. exact (w_end_noser _ _ _ Ew).
    - discriminate.
  Qed.

  Lemma cleanup_noser st : forall ids out unf,
    cleanup T_START T_CONTENT T_EOA T_EOF H X ids st out unf = Err EDeser -> False.
  Proof.
    induction ids as [|[idf ido] r IH]; intros out unf; cbn [Repair.cleanup]; [discriminate|].
    destruct (mem _ _); [apply IH|]. destruct (assoc _ idf); [|discriminate].
    destruct (w_end T_START T_CONTENT T_EOA T_EOF H out ido) as [o1 [x|x|x]] eqn:Ew;
      [apply IH| |discriminate].
    intros E. assert (Ex : x = EDeser) by congruence. subst x. exact (w_end_noser _ _ _ Ew).
  Qed.
End NoSer.

Section MaskSim.
  Context {LIM : Limit}.
  Variable S : Stream.
  Notation M := (Mask S).

  (* two computations, on S and on Mask S: in step (same result, Mask in the state Some _), or
     S has returned an error and Mask (now None) something satisfying P *)
  Definition mrel {A} (P : res A -> Prop) (x : st S * res A) (y : option (st S) * res A) : Prop :=
    (fst y = Some (fst x) /\ snd y = snd x) \/
    (fst y = None /\ (exists e, snd x = Err e) /\ P (snd y)).

  Lemma mrel_sync {A} (P : res A -> Prop) a (r : res A) : mrel P (a, r) (Some a, r).
  Proof. left. split; reflexivity. Qed.
  Lemma mrel_div {A} (P : res A -> Prop) a e b (r' : res A) : b = None -> P r' -> mrel P (a, Err e) (b, r').
  Proof. intros -> HP. right. cbn [fst snd]. split; [reflexivity|]. split; [eexists; reflexivity | exact HP]. Qed.

  Tactic Notation "use" constr(lem) "as" ident(a) ident(b) ident(r) :=
    let Hx := fresh "Hx" in
    pose proof lem as Hx;
    match type of Hx with
    | mrel _ ?X ?Y =>
      let Hb := fresh "Hb" in let Hr := fresh "Hr" in let He := fresh "He" in let Hp := fresh "Hp" in
      let e := fresh "e" in
      destruct X as [a r]; (let r' := fresh r in destruct Y as [b r']);
      destruct Hx as [[Hb Hr]|(Hb & [e He] & Hp)]; cbn [fst snd] in *; subst
    end.

  Lemma read_full_aux_mask fuel : forall s n acc,
    mrel (fun r' => exists d, r' = Ok d /\ len d < len acc + n)
         (read_full_aux S fuel s n acc) (read_full_aux M fuel (Some s) n acc).
  Proof.
    induction fuel as [|f IH]; intros s n acc; cbn [read_full_aux];
      (destruct (N.eqb_spec n 0) as [Hn|Hn]; [apply mrel_sync|]); [apply mrel_sync|].
    cbn [Mask rd mask_rd]. destruct (N.eqb_spec n 0) as [?|_]; [contradiction|].
    destruct (rd S s n) as [a [d|e|c]].
    - destruct (N.eqb_spec (len d) 0) as [Hd|Hd]; [apply mrel_sync|].
      destruct (N.ltb_spec n (len d)) as [Hl|Hl]; [apply mrel_sync|].
      specialize (IH a (n - len d) (acc ++ d)).
      replace (len (acc ++ d) + (n - len d)) with (len acc + n) in IH by (rewrite len_app; lia).
      exact IH.
    - change (len (@nil N) =? 0) with true. cbv iota.
      apply mrel_div; [reflexivity|]. exists acc. split; [reflexivity | lia].
    - apply mrel_sync.
  Qed.

  Lemma read_exact_mask fuel s n :
    mrel (fun r' : res bytes => r' = Err EUnexpectedEof) (read_exact S fuel s n) (read_exact M fuel (Some s) n).
  Proof.
    unfold read_exact, read_full.
    use (read_full_aux_mask fuel s n []) as a b r.
    - destruct r as [d|e|c]; [destruct (len d <? n)|..]; apply mrel_sync.
    - destruct Hp as (d & -> & Hl). change (len (@nil N)) with 0 in Hl.
      destruct (N.ltb_spec (len d) n) as [_|?]; [|lia]. apply mrel_div; reflexivity.
  Qed.

  Lemma rexact_mask s n : mrel (fun r' : res bytes => r' = Err EUnexpectedEof) (rexact S s n) (rexact M (Some s) n).
  Proof. exact (read_exact_mask _ s n). Qed.

  Lemma read_u64_mask s : mrel (fun r' : res N => r' = Err EUnexpectedEof) (read_u64 S s) (read_u64 M (Some s)).
  Proof.
    unfold read_u64. use (rexact_mask s 8) as a b r.
    - destruct r; apply mrel_sync.
    - apply mrel_div; reflexivity.
  Qed.

  Section Loop.
    Variables FNMAX CACHE T_START T_CONTENT T_EOA T_EOF : N.
    Variable H : bytes -> bytes.
    Notation parse_block := (parse_block FNMAX T_START T_CONTENT T_EOA T_EOF).
    Notation block_loop := (block_loop FNMAX CACHE T_START T_CONTENT T_EOA T_EOF H).
    Notation repair := (repair FNMAX CACHE T_START T_CONTENT T_EOA T_EOF H).
    Notation cleanup := (cleanup T_START T_CONTENT T_EOA T_EOF H).

    Lemma parse_block_mask s :
      mrel (fun r' : res pblock => r' = Err EUnexpectedEof) (parse_block S s) (parse_block M (Some s)).
    Proof.
      unfold Blocks.parse_block.
      use (rexact_mask s 1) as a1 b1 r1; [|apply mrel_div; reflexivity].
      destruct r1 as [d|e|c]; [|apply mrel_sync..].
      destruct d as [|t [|? ?]]; [apply mrel_sync| |apply mrel_sync].
      destruct (t =? T_START).
      { use (read_u64_mask a1) as a2 b2 r2; [|apply mrel_div; reflexivity].
        destruct r2 as [id|e|c]; [|apply mrel_sync..].
        use (read_u64_mask a2) as a3 b3 r3; [|apply mrel_div; reflexivity].
        destruct r3 as [l|e|c]; [|apply mrel_sync..].
        destruct (FNMAX <? l); [apply mrel_sync|].
        use (rexact_mask a3 l) as a4 b4 r4; [|apply mrel_div; reflexivity].
        destruct r4 as [nm|e|c]; [destruct (utf8_valid nm)|..]; apply mrel_sync. }
      destruct (t =? T_CONTENT).
      { use (read_u64_mask a1) as a2 b2 r2; [|apply mrel_div; reflexivity].
        destruct r2 as [id|e|c]; [|apply mrel_sync..].
        use (read_u64_mask a2) as a3 b3 r3; [|apply mrel_div; reflexivity].
        destruct r3 as [l|e|c]; apply mrel_sync. }
      destruct (t =? T_EOF).
      { use (read_u64_mask a1) as a2 b2 r2; [|apply mrel_div; reflexivity].
        destruct r2 as [id|e|c]; [|apply mrel_sync..].
        use (rexact_mask a2 32) as a3 b3 r3; [|apply mrel_div; reflexivity].
        destruct r3 as [l|e|c]; apply mrel_sync. }
      destruct (t =? T_EOA); apply mrel_sync.
    Qed.

    (* buf_fill: in step, or S erred where Mask read 0: same bytes gathered, fewer than CACHE *)
    Definition rel4m (x : st S * N * bytes * option err) (y : option (st S) * N * bytes * option err) : Prop :=
      let '(a, r, c, e) := x in let '(b, r', c', e') := y in
      (b = Some a /\ r' = r /\ c' = c /\ e' = e) \/
      (b = None /\ c' = c /\ (exists e0, e = Some e0) /\ e' = None /\ len c < CACHE).

    Lemma buf_fill_mask fuel : forall s rem acc,
      rel4m (buf_fill CACHE S fuel s rem acc) (buf_fill CACHE M fuel (Some s) rem acc).
    Proof.
      induction fuel as [|f IH]; intros s rem acc; cbn [buf_fill]; [left; auto|].
      destruct (N.eqb_spec (N.min rem (CACHE - len acc)) 0) as [Hw|Hw]; [left; auto|].
      cbn [Mask rd mask_rd]. destruct (N.eqb_spec (N.min rem (CACHE - len acc)) 0) as [?|_]; [contradiction|].
      destruct (rd S s (N.min rem (CACHE - len acc))) as [a [d|e|c]].
      - destruct (len d =? 0); [left; auto|]. destruct (CACHE <=? len (acc ++ d)); [left; auto|]. apply IH.
      - change (len (@nil N) =? 0) with true. cbv iota. right.
        split; [reflexivity|]. split; [reflexivity|]. split; [eexists; reflexivity|]. split; [reflexivity | lia].
      - left; auto.
    Qed.

    (* content_loop: in step; or a writer error in both; or S erred where Mask ended the block *)
    Definition rel5m (x : st S * wstate * bytes * option err * option err)
                     (y : option (st S) * wstate * bytes * option err * option err) : Prop :=
      let '(a, o, g, e, f) := x in let '(b, o', g', e', f') := y in
      (b = Some a /\ o' = o /\ g' = g /\ e' = e /\ f' = f) \/
      (o' = o /\ exists f0, f = Some f0 /\ f' = Some f0) \/
      (b = None /\ o' = o /\ (exists e0, e = Some e0) /\ f = None /\ e' = None /\ f' = None).

    Lemma content_loop_mask fuel : forall s out id rem got,
      rel5m (content_loop CACHE T_CONTENT S fuel s out id rem got)
            (content_loop CACHE T_CONTENT M fuel (Some s) out id rem got).
    Proof.
      induction fuel as [|f IH]; intros s out id rem got; [left; auto|].
      cbn [content_loop].
      pose proof (buf_fill_mask (Datatypes.S f) s rem []) as Hb.
      destruct (buf_fill CACHE S (Datatypes.S f) s rem []) as [[[a r] c] e].
      destruct (buf_fill CACHE M (Datatypes.S f) (Some s) rem []) as [[[b r'] c'] e'].
      destruct Hb as [(-> & -> & -> & ->)|(-> & -> & (e0 & ->) & -> & Hlc)].
      - destruct (w_append T_CONTENT out id (len c) c) as [o1 [x|x|x]]; [|left; auto..].
        destruct e; [left; auto|]. destruct (len c <? CACHE); [left; auto|]. apply IH.
      - destruct (w_append T_CONTENT out id (len c) c) as [o1 [x|x|x]].
        + destruct (N.ltb_spec (len c) CACHE) as [_|?]; [|lia].
          right; right. repeat split; eauto.
        + right; left. split; [reflexivity|]. eexists; split; reflexivity.
        + right; left. split; [reflexivity|]. eexists; split; reflexivity.
    Qed.

    (* once Mask is exhausted the loop stops at once *)
    Lemma block_loop_none f out ids names dn hs :
      block_loop M (Datatypes.S f) (mkRP M None out ids names dn hs) =
      (mkRP M None out ids names dn hs, Ok FEofNextBlock).
    Proof. reflexivity. Qed.

    (* if the loop over Mask S stops with a status, so does the loop over S, with the same
       output writer and tables *)
    Definition rp_rel_m (x : rpstate S * res fstatus) (y : rpstate M * res fstatus) : Prop :=
      match snd y with
      | Ok _ =>
        (exists st, snd x = Ok st) /\
        rp_out _ (fst x) = rp_out _ (fst y) /\ rp_ids _ (fst x) = rp_ids _ (fst y) /\
        rp_names _ (fst x) = rp_names _ (fst y) /\ rp_done _ (fst x) = rp_done _ (fst y)
      | _ => True
      end.

    Ltac same := cbn [rp_rel_m snd fst rp_out rp_ids rp_names rp_done];
                 first [exact I | (split; [eexists; reflexivity|]); repeat split].

    Lemma block_loop_mask fuel : forall s out ids names dn hs,
      rp_rel_m (block_loop S fuel (mkRP S s out ids names dn hs))
               (block_loop M fuel (mkRP M (Some s) out ids names dn hs)).
    Proof.
      induction fuel as [|f IH]; intros s out ids names dn hs; [exact I|].
      cbn [Repair.block_loop rp_src rp_out rp_ids rp_names rp_done rp_hash].
      use (parse_block_mask s) as a b r.
      2:{ (* S erred at the block header; Mask saw the end of the stream *)
          unfold rp_rel_m. destruct e; same. }
      destruct r as [pb|e|c]; [|unfold rp_rel_m; destruct e; same|exact I].
      destruct pb as [id name|id l|id h|].
      - destruct (existsb _ ids); [unfold rp_rel_m; same|]. destruct (mem dn id); [unfold rp_rel_m; same|].
        destruct (w_start _ _ _ _ _ out name) as [o1 [x|x|x]];
          [apply IH | unfold rp_rel_m; destruct x; same | exact I].
      - destruct (assoc ids id) as [ido|]; [|unfold rp_rel_m; same]. destruct (mem dn id); [unfold rp_rel_m; same|].
        destruct (assoc names id); [|exact I]. destruct (assoc hs id) as [hashed|]; [|exact I].
        pose proof (content_loop_mask (Datatypes.S f) a out ido l []) as Hc.
        destruct (content_loop CACHE T_CONTENT S (Datatypes.S f) a out ido l []) as [[[[a2 o2] g2] e2] f2].
        destruct (content_loop CACHE T_CONTENT M (Datatypes.S f) (Some a) out ido l []) as [[[[b2 o2'] g2'] e2'] f2'].
        destruct Hc as [(-> & -> & -> & -> & ->)|[(-> & f0 & -> & ->)|(-> & -> & (e0 & ->) & -> & -> & ->)]].
        + destruct e2, f2; try solve [unfold rp_rel_m; same]. apply IH.
        + destruct e2'; exact I.
        + destruct f as [|f']; [exact I|]. rewrite block_loop_none. unfold rp_rel_m; same.
      - destruct (assoc ids id) as [ido|]; [|unfold rp_rel_m; same]. destruct (mem dn id); [unfold rp_rel_m; same|].
        destruct (assoc hs id) as [hashed|]; [|unfold rp_rel_m; same].
        destruct (negb _); [unfold rp_rel_m; same|].
        destruct (w_end _ _ _ _ _ out ido) as [o1 [x|x|x]]; [apply IH | exact I..].
      - unfold rp_rel_m; same.
    Qed.

    (* THE TRANSFER: same output archive, same unfinished list; the status may differ *)
    Theorem repair_mask fuel s0 out0 status' unfinished out :
      repair M fuel (Some s0) out0 = Ok (status', unfinished, out) ->
      exists status, repair S fuel s0 out0 = Ok (status, unfinished, out).
    Proof.
      unfold Repair.repair.
      pose proof (block_loop_mask fuel s0 out0 [] [] [] []) as Hb.
      destruct (block_loop S fuel _) as [x r]. destruct (block_loop M fuel _) as [y r'].
      unfold rp_rel_m in Hb. cbn [fst snd] in Hb.
      destruct r' as [st'|e'|c']; [|discriminate..].
      destruct Hb as ((st & ->) & Ho & Hi & Hn & Hd).
      rewrite Ho, Hi, (cleanup_sim S M _ _ _ _ _ (rp_ids _ y) x y (rp_out _ y) [] Hn Hd).
      destruct (cleanup M (rp_ids M y) y (rp_out M y) []) as [[o1 u1]|e1|c1]; [|discriminate..].
      destruct (w_finalize_with _ _ _ _ _ o1) as [o2 [v|v|v]]; [|discriminate..].
      intros [= <- <- <-]. eexists; reflexivity.
    Qed.

    (* ... and a SerializationError of finalize over Mask S is one over S: the loop and the
       clean-up cannot produce it (NoSer above), so both runs reached the same w_finalize call *)
    Theorem repair_mask_ser fuel s0 out0 :
      repair M fuel (Some s0) out0 = Err EDeser -> repair S fuel s0 out0 = Err EDeser.
    Proof.
      unfold Repair.repair.
      pose proof (block_loop_mask fuel s0 out0 [] [] [] []) as Hb.
      pose proof (block_loop_noser M FNMAX CACHE T_START T_CONTENT T_EOA T_EOF H fuel
                    (mkRP M (Some s0) out0 [] [] [] [])) as Hns.
      destruct (block_loop S fuel _) as [x r]. destruct (block_loop M fuel _) as [y r'].
      unfold rp_rel_m in Hb. cbn [fst snd] in Hb.
      destruct r' as [st'|e'|c']; [|intros [= ->]; exfalso; exact (Hns _ eq_refl)|discriminate].
      destruct Hb as ((st & ->) & Ho & Hi & Hn & Hd).
      rewrite Ho, Hi, (cleanup_sim S M _ _ _ _ _ (rp_ids _ y) x y (rp_out _ y) [] Hn Hd).
      pose proof (cleanup_noser M T_START T_CONTENT T_EOA T_EOF H y (rp_ids M y) (rp_out M y) []) as Hc.
      destruct (cleanup M (rp_ids M y) y (rp_out M y) []) as [[o1 u1]|e1|c1];
        [|intros [= ->]; exfalso; exact (Hc eq_refl)|discriminate].
      destruct (w_finalize_with _ _ _ _ _ o1) as [o2 [v|v|v]]; [discriminate|exact (fun E => E)|discriminate].
    Qed.
  End Loop.
End MaskSim.
