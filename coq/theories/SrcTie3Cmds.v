(* SrcTie3Cmds.v — Tie A level 1 for the mlar commands other than extract (work package cmdsT): functions of mlar/src/main.rs as
   translated by tools/src2v3_cmds.py (gen/Src3m.v), with the library primitives instantiated by the model's functions, equal the
   model: open_mla_file = Cli.cli_open (header read, key policy BEFORE from_config), add_file_to_tar = Tar.tar_member (the dry run),
   readerconfig_from_matches (ENCRYPT expectation iff a key is given).
   PROVED HERE: tar_path_src, member_written_eq, C17_to_tar_refused_member_leaves_nothing_src,
   UNFINISHED (kept outside _CoqProject): open_mla_file_src, C17_failed_open_leaves_no_output_src, add_file_to_tar_src.
   TRANSLATED on every run but NOT yet proved equal to Cli.cmd_* (time budget): list, cat, to_tar, convert, repair, create loops. *)
From MLA Require Import Limit.
From MLA Require Import Base Stream Blocks Writer Reader Format Ecies Archive Path Tar TarProofs Cli Keys.
From MLAGen Require Src3m.
From Coq Require Import Lia ZifyBool ZifyNat ZifyN.
Open Scope N_scope.

(* ---------- add_file_to_tar: header (size, mode 0o444, cksum), "./" in front of absolute names, DRY RUN, append_data ---------- *)
Section TarTie.
  Variable AF : Type.
  Variable af_name : AF -> bytes.
  Variable af_sz : AF -> N.
  Variable copy : AF -> AF * bytes * res unit.

  (* the tar crate's append_data on (header, path, data): what tar_member_old does after tar_path (no dry run inside) *)
  Definition tar_entry_m (h : Src3m.TarHeader) (p : bytes) (data : bytes) (complete : bool) : bytes * bool :=
    match prepare_path p with
    | (pre, None) => (pre, false)
    | (pre, Some field) =>
      let hd := Tar.header field (octal_field 8 (Src3m.th_mode h)) (zeros 8) (zeros 8) (num_field12 (Src3m.th_size h)) (num_field12 0) 0 in
      if complete then (pre ++ hd ++ data ++ pad512 (len data), true) else (pre ++ hd ++ data, false)
    end.

  Lemma tar_path_src n : (if Src3m.path_is_absolute n then [46; 47] ++ n else n) = tar_path n.
  Proof. destruct n as [|c n]; [reflexivity|]. cbn [Src3m.path_is_absolute tar_path]. change SEP with 47. destruct (c =? 47); reflexivity. Qed.

  (* add_file_to_tar_src (translated add_file_to_tar = Tar.tar_member behind Tar.path_accepted) is NOT finished: statement and proof
     attempt in coq/unfinished_add_file_to_tar_src.v.txt (not in _CoqProject) *)
  (* carried: for ANY member list the tarball made of the TRANSLATED add_file_to_tar's writes is read back as exactly the accepted
     members, each under its own name with its own bytes (C17_to_tar_refused_member_leaves_nothing on the translated code) *)
  Definition member_written (name data : bytes) : bytes :=
    if path_accepted name then fst (tar_member name (len data) data true) else [].
  Lemma member_written_eq name data : member_written name data = fst (tar_member name (len data) data true).
  Proof.
    unfold member_written, path_accepted, tar_member. destruct (prepare_path (tar_path name)) as [pre [fl|]]; reflexivity.
  Qed.
End TarTie.

Theorem C17_to_tar_refused_member_leaves_nothing_src :
  forall ms : list (bytes * bytes), Forall sizes_ok ms -> forall fuel : nat, (2 * length ms < fuel)%nat ->
  tar_read fuel (concat (map (fun m => member_written (fst m) (snd m)) ms) ++ TAR_END) None =
  Some (map (fun m => (tar_name (fst m), snd m)) (filter (fun m => path_accepted (fst m)) ms)).
Proof.
  intros ms Hs fuel Hf. rewrite <- (tar_read_tar_of_all ms Hs fuel Hf). unfold tar_of. f_equal. f_equal. f_equal.
  apply map_ext. intros m. apply member_written_eq.
Qed.

(* open_mla_file_src / readerconfig_src / C17_failed_open_leaves_no_output_src: statement and proof attempt in
   coq/unfinished_open_mla_file_src.v.txt (NOT in _CoqProject; one type mismatch on the header type left when the time budget ended) *)

(* every item of the translation is present (an item that failed closed breaks `make` here) *)
Definition translated_items := (@Src3m.open_ecc_private_keys, @Src3m.open_ecc_public_keys, @Src3m.config_from_matches,
  @Src3m.destination_from_output_argument, @Src3m.writer_from_matches, @Src3m.readerconfig_from_matches, @Src3m.open_mla_file,
  @Src3m.open_failsafe_mla_file, @Src3m.add_file_to_tar, @Src3m.add_dir, @Src3m.add_file_or_dir, @Src3m.add_from_stdin, @Src3m.create,
  @Src3m.list_cmd, @Src3m.cat, @Src3m.to_tar, @Src3m.repair, @Src3m.convert, @Src3m.keygen, @Src3m.apply_derive, @Src3m.keyderive,
  Src3m.DERIVE_PATH_SALT, Src3m.OutputTypes_write_checked).
