(* Total.v — C08, part 1: "tame" streams and totality of the stream combinators and of the
   block parser over ANY byte string.

   A stream is tame when, from any state of an invariant I, a read returns at most what was
   asked (or an error), a seek returns a position or an error, neither ever reaches a Crash
   site or the model's out-of-fuel error, and an abstract position `pos` advances exactly by
   the bytes delivered and never delivers bytes beyond the bound M (the input length).  The
   cursor over an arbitrary byte string is tame; so is the throttled (short-read) source; the
   encryption layer reader over a tame inner stream is tame (TotalEnc.v).  Everything above
   the layers is proved once, for any tame stream. *)
From MLA Require Import Base Stream Blocks.
From Coq Require Import ZifyBool ZifyNat ZifyN.
Open Scope N_scope.

(* never a Crash site, never the model's own out-of-fuel error *)
Definition total {A} (r : res A) : Prop :=
  match r with Crash _ => False | Err EFuel => False | _ => True end.

Lemma total_ok {A} (a : A) : total (Ok a). Proof. exact I. Qed.
Lemma total_err {A} e : e <> EFuel -> total (@Err A e).
Proof. destruct e; cbn; try tauto. Qed.

Section Tame.
  Variable S : Stream.
  Variable I : st S -> Prop.
  Variable pos : st S -> N.
  Variable M : N.

  (* what the clients above the layers need *)
  Record Tame : Prop := {
    tame_rd : forall s n, I s ->
      match rd S s n with
      | (s', Ok d) => I s' /\ len d <= n /\ pos s' = pos s + len d /\ (len d <> 0 -> pos s' <= M)
      | (s', Err e) => I s' /\ e <> EFuel
      | (_, Crash _) => False
      end;
    tame_sk : forall s w, I s ->
      match sk S s w with
      | (s', Ok q) => I s' /\ (forall p, w = FromStart p -> pos s' = p)
      | (s', Err e) => I s' /\ e <> EFuel
      | (_, Crash _) => False
      end;
  }.

  (* what a layer needs of the stream below it: moreover a failed read does not move
     backwards, a failed seek does not move, and seeking to the end lands on M *)
  Record TameInner : Prop := {
    ti_tame : Tame;
    ti_rd_err : forall s n s' e, I s -> rd S s n = (s', Err e) -> pos s <= pos s';
    ti_sk_err : forall s w s' e, I s -> sk S s w = (s', Err e) -> pos s' = pos s;
    ti_sk_end : forall s s' q, I s -> sk S s (FromEnd 0) = (s', Ok q) -> pos s' = M /\ q = M;
  }.

  Hypothesis HT : Tame.

  (* bytes that can still be delivered *)
  Definition remaining (s : st S) : N := M - N.min (pos s) M.

  (* take(n).read_to_end: with fuel > n it never runs out of fuel, whatever the stream does *)
  Lemma read_full_aux_tame fuel : forall s n acc, I s -> (N.to_nat n < fuel)%nat ->
    match read_full_aux S fuel s n acc with
    | (s', Ok d) => I s' /\ (exists d', d = acc ++ d' /\ len d' <= n /\ pos s' = pos s + len d' /\
                                      (len d' <> 0 -> pos s' <= M))
    | (s', Err e) => I s' /\ e <> EFuel
    | (_, Crash _) => False
    end.
  Proof.
    induction fuel as [|fuel IH]; intros s n acc Hs Hf; [lia|].
    cbn [read_full_aux].
    destruct (N.eqb_spec n 0) as [->|Hn].
    - split; [exact Hs|]. exists []. rewrite app_nil_r, len_nil. repeat split; try reflexivity; lia.
    - pose proof (tame_rd HT s n Hs) as Hrd.
      destruct (rd S s n) as [s1 [d|e|c]]; [|exact Hrd|exact Hrd].
      destruct Hrd as (Hs1 & Hle & Hpos & HM).
      destruct (N.eqb_spec (len d) 0) as [Hz|Hz].
      + split; [exact Hs1|]. exists []. rewrite app_nil_r, len_nil. repeat split; try reflexivity; lia.
      + destruct (N.ltb_spec n (len d)) as [?|_]; [lia|].
        specialize (IH s1 (n - len d) (acc ++ d) Hs1).
        destruct (read_full_aux S fuel s1 (n - len d) (acc ++ d)) as [s2 [d2|e2|c2]].
        * destruct IH as (Hs2 & d' & -> & Hl' & Hp' & HM'); [lia|].
          split; [exact Hs2|]. exists (d ++ d'). rewrite app_assoc, len_app.
          repeat split; try lia.
        * apply IH; lia.
        * apply IH; lia.
  Qed.

  Lemma read_full_tame_gen fuel s n : I s -> (N.to_nat n < fuel)%nat ->
    match read_full S fuel s n with
    | (s', Ok d) => I s' /\ len d <= n /\ pos s' = pos s + len d /\ (len d <> 0 -> pos s' <= M)
    | (s', Err e) => I s' /\ e <> EFuel
    | (_, Crash _) => False
    end.
  Proof.
    intros Hs Hf. unfold read_full.
    pose proof (read_full_aux_tame fuel s n [] Hs Hf) as H.
    destruct (read_full_aux S fuel s n []) as [s' [d|e|c]]; try exact H.
    destruct H as (Hs' & d' & -> & H1 & H2 & H3). cbn [app]. auto.
  Qed.

  Lemma read_full_tame s n : I s ->
    match read_full S (Datatypes.S (N.to_nat n)) s n with
    | (s', Ok d) => I s' /\ len d <= n /\ pos s' = pos s + len d /\ (len d <> 0 -> pos s' <= M)
    | (s', Err e) => I s' /\ e <> EFuel
    | (_, Crash _) => False
    end.
  Proof. intros Hs. apply read_full_tame_gen; [exact Hs|lia]. Qed.

  (* read_exact as the block parser uses it: exactly n bytes or an error *)
  Lemma rexact_tame s n : I s ->
    match rexact S s n with
    | (s', Ok d) => I s' /\ len d = n /\ pos s' = pos s + n /\ (n <> 0 -> pos s' <= M)
    | (s', Err e) => I s' /\ e <> EFuel
    | (_, Crash _) => False
    end.
  Proof.
    intros Hs. unfold rexact, read_exact.
    pose proof (read_full_tame s n Hs) as H.
    destruct (read_full S (Datatypes.S (N.to_nat n)) s n) as [s' [d|e|c]]; try exact H.
    destruct H as (Hs' & H1 & H2 & H3).
    destruct (N.ltb_spec (len d) n) as [Hlt|Hge].
    - split; [exact Hs'|discriminate].
    - assert (len d = n) by lia. subst n. repeat split; auto.
  Qed.

  Lemma read_u64_tame s : I s ->
    match read_u64 S s with
    | (s', Ok _) => I s' /\ pos s' = pos s + 8 /\ pos s' <= M
    | (s', Err e) => I s' /\ e <> EFuel
    | (_, Crash _) => False
    end.
  Proof.
    intros Hs. unfold read_u64. pose proof (rexact_tame s 8 Hs) as H.
    destruct (rexact S s 8) as [s' [d|e|c]]; try exact H.
    destruct H as (H0 & H1 & H2 & H3). repeat split; auto. apply H3. lia.
  Qed.

  Variable FNMAX : N.
  Variables T_START T_CONTENT T_EOA T_EOF : N.
  Notation parse_block := (parse_block FNMAX T_START T_CONTENT T_EOA T_EOF S).

  (* C08 item 1: ArchiveFileBlock::from over any tame stream: a block or an error, never a
     crash (the Crash 636 arm is unreachable), at least one byte consumed by a parsed block,
     nothing consumed beyond the input *)
  Theorem parse_block_tame s : I s ->
    match parse_block s with
    | (s', Ok _) => I s' /\ pos s + 1 <= pos s' /\ pos s' <= M
    | (s', Err e) => I s' /\ e <> EFuel
    | (_, Crash _) => False
    end.
  Proof.
    intros Hs. unfold Blocks.parse_block.
    pose proof (rexact_tame s 1 Hs) as H1.
    destruct (rexact S s 1) as [s1 [d|e|c]]; try exact H1.
    destruct H1 as (Hs1 & Hl & Hp1 & HM1). specialize (HM1 ltac:(lia)).
    destruct d as [|t [|t2 d]];
      [ rewrite len_nil in Hl; lia | | rewrite !len_cons in Hl; lia ].
    destruct (t =? T_START).
    { pose proof (read_u64_tame s1 Hs1) as H2.
      destruct (read_u64 S s1) as [s2 [id|e|c]]; try exact H2.
      destruct H2 as (Hs2 & Hp2 & HM2).
      pose proof (read_u64_tame s2 Hs2) as H3.
      destruct (read_u64 S s2) as [s3 [l|e|c]]; try exact H3.
      destruct H3 as (Hs3 & Hp3 & HM3).
      destruct (FNMAX <? l); [split; [exact Hs3|discriminate]|].
      pose proof (rexact_tame s3 l Hs3) as H4.
      destruct (rexact S s3 l) as [s4 [name|e|c]]; try exact H4.
      destruct H4 as (Hs4 & Hl4 & Hp4 & HM4).
      destruct (utf8_valid name); [|split; [exact Hs4|discriminate]].
      split; [exact Hs4|]. split; [lia|].
      destruct (N.eq_dec l 0) as [->|Hl0]; [lia | apply HM4; exact Hl0]. }
    destruct (t =? T_CONTENT).
    { pose proof (read_u64_tame s1 Hs1) as H2.
      destruct (read_u64 S s1) as [s2 [id|e|c]]; try exact H2.
      destruct H2 as (Hs2 & Hp2 & HM2).
      pose proof (read_u64_tame s2 Hs2) as H3.
      destruct (read_u64 S s2) as [s3 [l|e|c]]; try exact H3.
      destruct H3 as (Hs3 & Hp3 & HM3). repeat split; auto; lia. }
    destruct (t =? T_EOF).
    { pose proof (read_u64_tame s1 Hs1) as H2.
      destruct (read_u64 S s1) as [s2 [id|e|c]]; try exact H2.
      destruct H2 as (Hs2 & Hp2 & HM2).
      pose proof (rexact_tame s2 32 Hs2) as H3.
      destruct (rexact S s2 32) as [s3 [h|e|c]]; try exact H3.
      destruct H3 as (Hs3 & Hl3 & Hp3 & HM3). repeat split; auto; lia. }
    destruct (t =? T_EOA).
    { repeat split; auto; lia. }
    split; [exact Hs1|discriminate].
  Qed.

  (* a parsed block strictly decreases what remains: the progress measure of every loop *)
  Corollary parse_block_progress s : I s ->
    match parse_block s with
    | (s', Ok _) => remaining s' + 1 <= remaining s
    | _ => True
    end.
  Proof.
    intros Hs. pose proof (parse_block_tame s Hs) as H.
    destruct (parse_block s) as [s' [pb|e|c]]; auto.
    unfold remaining. lia.
  Qed.
End Tame.

(* ---------- instances: the cursor over ANY byte string, the throttled source ---------- *)

Lemma cursor_tame_inner (w : bytes) :
  TameInner (Cursor w) (fun _ => True) (fun s => s) (len w).
Proof.
  constructor; [constructor|..].
  - intros s n _. cbn [Cursor rd st]. unfold cursor_rd.
    rewrite len_sliceN. repeat split; lia.
  - intros s wh _. cbn [Cursor sk st]. unfold cursor_sk, seek_target.
    destruct wh as [p|d|d].
    + split; [exact Logic.I|]. intros p' E. injection E as ->. reflexivity.
    + destruct (Z.of_N s + d <? 0)%Z.
      * split; [exact Logic.I|discriminate].
      * split; [exact Logic.I|]. intros p' E; discriminate.
    + destruct (Z.of_N (len w) + d <? 0)%Z.
      * split; [exact Logic.I|discriminate].
      * split; [exact Logic.I|]. intros p' E; discriminate.
  - intros s n s' e _ H. cbn [Cursor rd st] in H. unfold cursor_rd in H. discriminate.
  - intros s wh s' e _ H. cbn [Cursor sk st] in H. unfold cursor_sk, seek_target in H.
    destruct wh as [p|d|d].
    + discriminate.
    + destruct (Z.of_N s + d <? 0)%Z; [injection H as <- _; reflexivity | discriminate].
    + destruct (Z.of_N (len w) + d <? 0)%Z; [injection H as <- _; reflexivity | discriminate].
  - intros s s' q _ H. cbn [Cursor sk st] in H. unfold cursor_sk, seek_target in H.
    replace (Z.of_N (len w) + 0 <? 0)%Z with false in H by lia.
    injection H as <- <-. lia.
Qed.

Lemma cursor_tame (w : bytes) : Tame (Cursor w) (fun _ => True) (fun s => s) (len w).
Proof. apply ti_tame, cursor_tame_inner. Qed.

Lemma throttled_tame (w : bytes) :
  Tame (Throttled w) (fun _ => True) (fun s => fst s) (len w).
Proof.
  constructor.
  - intros [p sched] n _. cbn [Throttled rd st]. unfold throttled_rd.
    destruct (match sched with [] => (n, []) | [k] => (N.max 1 k, [k]) | k :: (_ :: _) as r => (N.max 1 k, r) end)
      as [k sched'].
    unfold cursor_rd. cbn [fst]. rewrite len_sliceN. repeat split; lia.
  - intros [p sched] wh _. cbn [Throttled sk st]. unfold throttled_sk.
    pose proof (tame_sk _ _ _ _ (cursor_tame w) p wh Logic.I) as H. cbn [Cursor sk st] in H.
    destruct (cursor_sk w p wh) as [p' [q|e|c]]; cbn [fst]; exact H.
Qed.
