(* ComposeRepairMono.v — C05 END TO END for encrypted archives: "a longer cut never yields
   less", for EVERY pair of decryption modes in which it can hold, without any assumption on
   the tag function.

   ComposeRepair.repair_encrypted_monotone covers a second run in the unauthenticated mode.
   For two AUTHENTICATED runs the statement is not a theorem of the abstract model: a cut
   inside chunk k whose last TAG bytes happen to be the tag (under counter k) of the bytes
   before them makes the authenticated loader accept a SHORTENED chunk k; one more wire byte
   and nothing of chunk k is delivered.  Such an accident is a forgery in the sense of
   EncAuth.Forgery (a ciphertext accepted under counter k that the writer did not produce for
   chunk k) — here it is EXHIBITED, not assumed away:

     fs_auth_cut_mono   w1 ⊑ w2 ⊑ enc_format plain  ->
                        auth_out w1 ⊑ auth_out w2  \/  Forgery w1 plain
     repair_encrypted_monotone_full   cuts n <= m, modes (u1, u2) other than
                        (unauthenticated, authenticated): both repairs return Ok and
                        every name's content at n is a prefix of its content at m,
                        \/ Forgery (takeN n wire) plain

   The remaining pair (unauthenticated at n, authenticated at m) is not monotone for a plain
   reason, not a cryptographic one: the unauthenticated mode delivers the bytes of a cut
   chunk, the authenticated mode does not (unauth_then_auth_not_monotone below, n = m). *)
From MLA Require Import Limit.
From MLA Require Import Base Stream Blocks Writer Repair RepairSpec RepairPure
  RepairProofs2 RepairProofs5 RepairProofs6 EncLayer EncLayerProofs EncAuth EncAuthFs EncAuthC
  EncAuthTrunc EncWriter EncWriterProofs Inst Run ComposeRdOnly ComposeRepair.
From Coq Require Import ZifyBool ZifyNat ZifyN.
Open Scope N_scope.

Lemma prefix_app_inv_head {A} (x a b : list A) : prefix (x ++ a) (x ++ b) -> prefix a b.
Proof. intros [r E]. rewrite <- app_assoc in E. apply app_inv_head in E. exists r. exact E. Qed.

Section AuthMono.
  Context {LIM : Limit}.
  Variables CHUNK TAG : N.
  Hypothesis HCHUNK : 0 < CHUNK.
  Hypothesis HTAG : 0 < TAG.
  Variable ks : N -> N -> N.
  Variable tagc : N -> bytes -> bytes.
  Hypothesis Htagc : forall i c, len (tagc i c) = TAG.

  Notation CTS := (CTS CHUNK TAG).
  Notation xor_from := (xor_from ks).
  Notation chunk_enc := (chunk_enc ks tagc).
  Notation enc_from := (enc_from CHUNK ks tagc).
  Notation enc_format := (enc_format CHUNK ks tagc).
  Notation dec_auth := (dec_auth CHUNK TAG ks tagc).
  Notation out_from := (out_from CHUNK TAG).
  Notation Accepted := (Accepted CHUNK TAG tagc).
  Notation Forgery := (Forgery CHUNK TAG ks tagc).

  (* Forgery, relative to a position inside the stream: the bytes w start at chunk i, whose
     plaintext starts pl *)
  Definition ForgeryFrom (i : N) (pl w : bytes) : Prop :=
    exists j ct, Accepted w (i + j) ct /\ ct <> xor_from (i + j) 0 (sliceN (j * CHUNK) CHUNK pl).

  Lemma forgery_from_0 pl w : ForgeryFrom 0 pl w -> Forgery w pl.
  Proof. intros (j & ct & Ha & Hne). exists j, ct. split; [exact Ha | exact Hne]. Qed.

  Lemma forgery_from_step i pl w :
    ForgeryFrom (i + 1) (dropN CHUNK pl) (dropN CTS w) -> ForgeryFrom i pl w.
  Proof.
    intros (j & ct & (off & Hv & Hct) & Hne). exists (j + 1), ct.
    replace (i + (j + 1)) with (i + 1 + j) by lia. split.
    - exists (CTS + off). unfold sliceN in *. rewrite dropN_dropN in Hv, Hct. split; assumption.
    - intros E. apply Hne. rewrite E. f_equal. unfold sliceN. rewrite dropN_dropN. do 2 f_equal. lia.
  Qed.

  (* a proper prefix of the last chunk it touches: the authenticated loader refuses it, or
     accepts a shortened ciphertext — a forgery *)
  Lemma auth_short_chunk f i pc pl w :
    len pc <= CHUNK -> len (takeN CHUNK pl) = len pc ->
    prefix w (chunk_enc i pc) -> len w < len pc + TAG ->
    out_from dec_auth f i w = [] \/ ForgeryFrom i pl w.
  Proof.
    intros Hpc Hpl Hw Hl. destruct f as [|f]; [left; reflexivity|]. cbn [EncAuthFs.out_from].
    unfold EncAuthFs.dec_auth.
    assert (Ht : takeN CTS w = w) by (apply takeN_all; unfold EncLayer.CTS; lia).
    rewrite Ht. destruct (verifiesb TAG tagc i w) eqn:Ev; [|left; reflexivity].
    right. exists 0, (ct_of TAG w). rewrite N.add_0_r. split.
    - exists 0. unfold sliceN. rewrite dropN_0, Ht. split; [exact Ev | reflexivity].
    - intros E. apply (f_equal len) in E. rewrite len_xor_from' in E.
      unfold sliceN, EncAuth.ct_of in E. rewrite N.mul_0_l, dropN_0, Hpl, len_takeN in E.
      unfold verifiesb in Ev. destruct (N.ltb_spec (len w) TAG) as [?|Hge].
      + rewrite andb_false_r in Ev. discriminate.
      + lia.
  Qed.

  Lemma auth_mono_from n : forall i pl w1 w2 f,
    N.of_nat n * CHUNK <= len pl -> len pl <= (N.of_nat n + 1) * CHUNK ->
    prefix w1 w2 -> prefix w2 (enc_from n i pl) -> (length w2 < f)%nat ->
    prefix (out_from dec_auth f i w1) (out_from dec_auth f i w2) \/ ForgeryFrom i pl w1.
  Proof.
    induction n as [|n IH]; intros i pl w1 w2 f Hlo Hhi H12 H2 Hf; cbn [EncLayer.enc_from] in H2.
    - change (N.of_nat 0) with 0 in *.
      pose proof (len_chunk_enc TAG ks tagc Htagc i pl) as Hce.
      destruct (N.lt_ge_cases (len w1) (len pl + TAG)) as [Hs|Hfull].
      + destruct (auth_short_chunk f i pl pl w1 ltac:(lia) ltac:(rewrite takeN_all by lia; reflexivity)
                    (prefix_trans _ _ _ H12 H2) Hs) as [-> | Hfg]; [left; apply prefix_nil | right; exact Hfg].
      + left. assert (E : w1 = w2).
        { apply prefix_full_eq; [exact H12|]. apply prefix_len in H2. lia. }
        rewrite E. apply prefix_refl.
    - assert (Hn : N.of_nat (Datatypes.S n) = N.of_nat n + 1) by lia. rewrite Hn in *.
      set (pc := takeN CHUNK pl) in *.
      assert (Hpc : len pc = CHUNK) by (unfold pc; rewrite len_takeN; lia).
      pose proof (len_chunk_enc TAG ks tagc Htagc i pc) as Hce. rewrite Hpc in Hce.
      pose proof (prefix_trans _ _ _ H12 H2) as H1.
      destruct (N.lt_ge_cases (len w1) CTS) as [Hs|Hfull].
      + assert (Hw1 : prefix w1 (chunk_enc i pc)).
        { destruct (prefix_app_cases _ _ _ H1) as [Hp|(w' & -> & _)]; [exact Hp|].
          rewrite len_app, Hce in Hs. unfold EncLayer.CTS in Hs. lia. }
        destruct (auth_short_chunk f i pc pl w1 ltac:(lia) eq_refl Hw1
                    ltac:(rewrite Hpc; unfold EncLayer.CTS in Hs; lia)) as [-> | Hfg];
          [left; apply prefix_nil | right; exact Hfg].
      + (* chunk i is complete in both: it decrypts to pc, go on *)
        assert (Hsplit : forall w, prefix w (chunk_enc i pc ++ enc_from n (i + 1) (dropN CHUNK pl)) ->
                  CTS <= len w ->
                  exists w', w = chunk_enc i pc ++ w' /\ prefix w' (enc_from n (i + 1) (dropN CHUNK pl))).
        { intros w Hw Hl. destruct (prefix_app_cases _ _ _ Hw) as [Hp|Hc]; [|exact Hc].
          exists []. split; [|apply prefix_nil]. rewrite app_nil_r. apply prefix_full_eq; [exact Hp|].
          rewrite Hce. unfold EncLayer.CTS in *. lia. }
        destruct (Hsplit w1 H1 Hfull) as (w1' & -> & Hw1').
        assert (Hl2 : CTS <= len w2) by (apply prefix_len in H12; lia).
        destruct (Hsplit w2 H2 Hl2) as (w2' & -> & Hw2').
        apply prefix_app_inv_head in H12.
        destruct f as [|f]; [cbn in Hf; lia|]. cbn [EncAuthFs.out_from].
        rewrite !(dec_auth_chunk CHUNK TAG HCHUNK HTAG ks tagc Htagc) by lia.
        rewrite Hpc. destruct (N.ltb_spec CHUNK CHUNK) as [?|_]; [lia|].
        assert (Hd : forall x, dropN CTS (chunk_enc i pc ++ x) = x).
        { intros x. replace CTS with (len (chunk_enc i pc)) by (rewrite Hce; reflexivity). apply dropN_len_app. }
        rewrite !Hd.
        assert (Hf' : (length w2' < f)%nat).
        { rewrite app_length in Hf. unfold len, EncLayer.CTS in Hce. lia. }
        destruct (IH (i + 1) (dropN CHUNK pl) w1' w2' f) as [Hp|Hfg];
          try assumption; try (rewrite len_dropN; lia).
        * left. apply prefix_app_same. exact Hp.
        * right. apply forgery_from_step. rewrite Hd. exact Hfg.
  Qed.

  (* THE LAYER THEOREM: on truncations of an unaltered stream the authenticated output grows
     with the cut — or the shorter cut contains a forgery *)
  Theorem fs_auth_cut_mono plain w1 w2 :
    prefix w1 w2 -> prefix w2 (enc_format plain) ->
    prefix (auth_out CHUNK TAG ks tagc w1) (auth_out CHUNK TAG ks tagc w2) \/ Forgery w1 plain.
  Proof.
    intros H12 H2. unfold auth_out, fs_out.
    pose proof (xor_prefix ks 0 _ _ 0 (prefix_takeN_both CHUNK _ _ H12)) as Hx.
    set (c1 := xor_from 0 0 (takeN CHUNK w1)) in *. set (c2 := xor_from 0 0 (takeN CHUNK w2)) in *.
    assert (Hc2 : len c2 <= CHUNK) by (unfold c2; rewrite len_xor_from', len_takeN; lia).
    destruct (N.ltb_spec (len c1) CHUNK) as [Hs|Hfull].
    { left. eapply prefix_trans; [exact Hx|]. destruct (len c2 <? CHUNK); [apply prefix_refl | apply prefix_app]. }
    assert (E : c1 = c2) by (apply prefix_full_eq; [exact Hx | lia]). rewrite <- E.
    destruct (N.ltb_spec (len c1) CHUNK) as [?|_]; [lia|].
    assert (Hll : (length w1 <= length w2)%nat) by (apply prefix_len in H12; unfold len in H12; lia).
    assert (Hd1 : (length (dropN CTS w1) <= length w1)%nat).
    { pose proof (len_dropN CTS w1) as Hl. unfold len in Hl. lia. }
    rewrite (out_from_fuel CHUNK TAG HCHUNK ks tagc dec_auth (dec_auth_spec CHUNK TAG HCHUNK ks tagc)
               (Datatypes.S (length w1)) (Datatypes.S (length w2)) 1 (dropN CTS w1)) by lia.
    assert (Hgoal : prefix (out_from dec_auth (Datatypes.S (length w2)) 1 (dropN CTS w1))
                           (out_from dec_auth (Datatypes.S (length w2)) 1 (dropN CTS w2)) \/
                    ForgeryFrom (0 + 1) (dropN CHUNK plain) (dropN CTS w1)).
    { destruct (nfull_bounds CHUNK TAG HCHUNK ks tagc Htagc plain) as [B1 B2].
      unfold EncLayer.enc_format in H2.
      destruct (N.to_nat (nfull CHUNK (len plain))) as [|n] eqn:En; cbn [EncLayer.enc_from] in H2.
      - change (N.of_nat 0) with 0 in *. left.
        pose proof (len_chunk_enc TAG ks tagc Htagc 0 plain) as Hce.
        apply prefix_len in H2. apply prefix_len in H12.
        rewrite !dropN_all by (unfold EncLayer.CTS; lia). apply prefix_refl.
      - assert (Hn : N.of_nat (Datatypes.S n) = N.of_nat n + 1) by lia. rewrite Hn in *.
        assert (Hpc : len (takeN CHUNK plain) = CHUNK) by (rewrite len_takeN; lia).
        pose proof (len_chunk_enc TAG ks tagc Htagc 0 (takeN CHUNK plain)) as Hce. rewrite Hpc in Hce.
        pose proof (prefix_dropN_both CTS _ _ H2) as H2'.
        replace CTS with (len (chunk_enc 0 (takeN CHUNK plain))) in H2' at 2 by (rewrite Hce; reflexivity).
        rewrite dropN_len_app in H2'.
        apply (auth_mono_from n (0 + 1) (dropN CHUNK plain) (dropN CTS w1) (dropN CTS w2));
          [rewrite len_dropN; lia | rewrite len_dropN; lia | apply prefix_dropN_both; exact H12 | exact H2' |].
        pose proof (len_dropN CTS w2) as Hl. unfold len in Hl. lia. }
    destruct Hgoal as [Hp|Hfg].
    - left. apply prefix_app_same. exact Hp.
    - right. apply forgery_from_0, forgery_from_step. exact Hfg.
  Qed.
End AuthMono.

(* ---------- the composition with the repair loop ---------- *)
Section EncRepairMono.
  Context {LIM : Limit}.
  Variable FNMAX CACHE : N.
  Hypothesis HFN : FNMAX < 2 ^ 64.
  Hypothesis HCACHE : 0 < CACHE.
  Variables T_START T_CONTENT T_EOA T_EOF : N.
  Hypothesis Htags : T_START <> T_CONTENT /\ T_START <> T_EOA /\ T_START <> T_EOF /\
                     T_CONTENT <> T_EOA /\ T_CONTENT <> T_EOF /\ T_EOA <> T_EOF.
  Variable H : bytes -> bytes.
  Hypothesis H_len : forall x, len (H x) = 32.
  Variables CHUNK TAG CIPHERBUF : N.
  Hypothesis HCHUNK : 0 < CHUNK.
  Hypothesis HTAG : 0 < TAG.
  Variable ks : N -> N -> N.
  Variable tagc : N -> bytes -> bytes.
  Hypothesis Htagc : forall i c, len (tagc i c) = TAG.

  Notation body := (body T_START T_CONTENT T_EOA T_EOF).
  Notation repair := (repair FNMAX CACHE T_START T_CONTENT T_EOA T_EOF H).
  Notation wf_blocks := (wf_blocks FNMAX H).
  Notation good_output := (good_output FNMAX T_START T_CONTENT T_EOA T_EOF H).
  Notation FsEnc := (FsEnc CHUNK TAG ks tagc).
  Notation fs_open := (fs_open CHUNK TAG ks).
  Notation fs_output := (fs_output CHUNK TAG ks tagc).
  Notation junk := (junk CHUNK ks tagc).
  Notation ew_archive := (ew_archive CHUNK CIPHERBUF ks tagc).
  Notation Forgery := (Forgery CHUNK TAG ks tagc).

  Variable bl : list block.
  Variable trailer : bytes.
  Hypothesis Hwf : wf_blocks bl.
  Let plain := body bl ++ trailer.
  Hypothesis Htr : In BEnd bl \/ trailer ++ junk plain = [].
  Variable pieces : list bytes.
  Hypothesis Hpieces : concat pieces = plain.
  Variable fuelw : nat.
  Variable s : ewstate.
  Hypothesis Hw : ew_archive fuelw pieces = Ok s.
  Hypothesis Hbig : len (ew_out s) / (CHUNK + TAG) + 2 <= 2 ^ 32.

  (* what the two decryptors deliver, compared: for every pair of modes except
     (unauthenticated, authenticated) *)
  Lemma fs_output_mono_or n m u1 u2 : n <= m -> (u1 = true -> u2 = true) ->
    len (fs_output u1 (takeN n (ew_out s))) <= len (fs_output u2 (takeN m (ew_out s))) \/
    Forgery (takeN n (ew_out s)) plain.
  Proof.
    intros Hnm Hu. destruct u2.
    - left. apply (fs_output_mono CHUNK TAG HCHUNK ks tagc s n m u1 Hnm).
    - destruct u1; [discriminate (Hu eq_refl)|]. cbn [ComposeRepair.fs_output].
      destruct (fs_auth_cut_mono CHUNK TAG HCHUNK HTAG ks tagc Htagc plain
                  (takeN n (ew_out s)) (takeN m (ew_out s))) as [Hp|Hfg].
      + apply prefix_takeN_mono, Hnm.
      + rewrite (wire_is T_START T_CONTENT T_EOA T_EOF CHUNK CIPHERBUF HCHUNK ks tagc bl trailer pieces
                   Hpieces fuelw s Hw). apply prefix_takeN.
      + left. apply prefix_len, Hp.
      + right. exact Hfg.
  Qed.

  (* C05, encrypted, FULL: a longer cut never yields less — or the shorter cut holds a forgery *)
  Theorem repair_encrypted_monotone_full n m u1 u2 fuel1 fuel2 :
    n <= m -> (u1 = true -> u2 = true) ->
    (N.to_nat (len plain + TAG) < fuel1)%nat -> (N.to_nat (len plain + TAG) < fuel2)%nat ->
    exists es1 b1 es2 b2,
      fs_open (Cursor (takeN n (ew_out s))) 0 = (es1, Ok b1) /\
      fs_open (Cursor (takeN m (ew_out s))) 0 = (es2, Ok b2) /\
    (* neither finalize failed with SerializationError (footers within the bincode limit) *)
    (repair (FsEnc u1 (Cursor (takeN n (ew_out s)))) fuel1 es1 w_init <> Err EDeser ->
     repair (FsEnc u2 (Cursor (takeN m (ew_out s)))) fuel2 es2 w_init <> Err EDeser ->
    exists st1 un1 out1 obl1 st2 un2 out2 obl2,
      repair (FsEnc u1 (Cursor (takeN n (ew_out s)))) fuel1 es1 w_init = Ok (st1, un1, out1) /\
      good_output out1 obl1 /\
      repair (FsEnc u2 (Cursor (takeN m (ew_out s)))) fuel2 es2 w_init = Ok (st2, un2, out2) /\
      good_output out2 obl2 /\
      ((forall name, prefix (content_of (files_of obl1) name) (content_of (files_of obl2) name)) \/
       Forgery (takeN n (ew_out s)) plain)).
  Proof.
    intros Hnm Hu Hf1 Hf2.
    pose proof (cut_big FNMAX CACHE HFN HCACHE T_START T_CONTENT T_EOA T_EOF Htags H H_len CHUNK TAG HCHUNK HTAG
                  tagc Htagc bl trailer s Hbig) as Hcb.
    pose proof (fs_output_cut T_START T_CONTENT T_EOA T_EOF CHUNK TAG CIPHERBUF HCHUNK ks tagc Htagc bl trailer
                  pieces Hpieces fuelw s Hw) as Hcut.
    pose proof (fuel_ok FNMAX CACHE HFN HCACHE T_START T_CONTENT T_EOA T_EOF Htags H H_len CHUNK TAG CIPHERBUF
                  HCHUNK HTAG ks tagc Htagc bl trailer pieces Hpieces fuelw s Hw Hbig) as Hfu.
    destruct (fsenc_rd_refines CHUNK TAG HCHUNK ks tagc u1 _ (Hcb n)) as (I1 & HR1 & es1 & b1 & Ho1 & HI1).
    destruct (fsenc_rd_refines CHUNK TAG HCHUNK ks tagc u2 _ (Hcb m)) as (I2 & HR2 & es2 & b2 & Ho2 & HI2).
    exists es1, b1, es2, b2. split; [exact Ho1|]. split; [exact Ho2|]. intros Hser1 Hser2.
    destruct (repair_exact_rd FNMAX CACHE HFN HCACHE T_START T_CONTENT T_EOA T_EOF Htags H H_len
                _ _ I1 HR1 bl (trailer ++ junk plain) Hwf Htr (Hcut u1 n) es1 HI1 fuel1 (Hfu u1 n fuel1 Hf1) Hser1)
      as (out1 & obl1 & Hr1 & Hg1 & Hsame1).
    destruct (repair_exact_rd FNMAX CACHE HFN HCACHE T_START T_CONTENT T_EOA T_EOF Htags H H_len
                _ _ I2 HR2 bl (trailer ++ junk plain) Hwf Htr (Hcut u2 m) es2 HI2 fuel2 (Hfu u2 m fuel2 Hf2) Hser2)
      as (out2 & obl2 & Hr2 & Hg2 & Hsame2).
    eexists _, _, out1, obl1, _, _, out2, obl2.
    split; [exact Hr1|]. split; [exact Hg1|]. split; [exact Hr2|]. split; [exact Hg2|].
    destruct (fs_output_mono_or n m u1 u2 Hnm Hu) as [Hle|Hfg]; [left | right; exact Hfg].
    intros name. rewrite (same_content _ _ name Hsame1), (same_content _ _ name Hsame2).
    destruct Hwf as [Hwf1 _].
    apply fle_content_prefix.
    - apply (frun_names_nodup FNMAX H); [constructor | apply cutb_wf; exact Hwf1].
    - apply (cutb_mono FNMAX H); [constructor | exact Hwf1 | exact Hle].
  Qed.
End EncRepairMono.
