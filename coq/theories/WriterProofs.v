(* WriterProofs.v — C09: a call refused for a reason known before writing changes nothing;
   refused calls can be erased from any sequence; a short source is never reported as success. *)
From MLA Require Import Limit.
From MLA Require Import Base Stream Blocks Writer.
From Coq Require Import ZifyBool ZifyNat ZifyN.
Open Scope N_scope.

Section WriterProofs.
  Context {LIM : Limit}.
  Variable FNMAX : N.
  Variables T_START T_CONTENT T_EOA T_EOF : N.
  Variable H : bytes -> bytes.
  Variable order : footer -> footer.

  Notation wstep := (wstep FNMAX T_START T_CONTENT T_EOA T_EOF H order).
  Notation wrun := (wrun FNMAX T_START T_CONTENT T_EOA T_EOF H order).
  Notation w_start := (w_start FNMAX T_START T_CONTENT T_EOA T_EOF).
  Notation w_append := (w_append T_CONTENT).
  Notation w_end := (w_end T_START T_CONTENT T_EOA T_EOF H).
  Notation w_finalize_with := (w_finalize_with T_START T_CONTENT T_EOA T_EOF).

  (* the reasons that can be known before anything is written *)
  Definition pre_write (e : err) : bool :=
    match e with EState | EDup | ENameTooLong => true | _ => false end.

  Lemma alookup_app_last {A} (l : list (N * A)) k v : alookup (l ++ [(k, v)]) k <> None.
  Proof.
    induction l as [|[k' v'] l IH]; cbn [app alookup].
    - rewrite N.eqb_refl. discriminate.
    - destruct (k' =? k); [discriminate | exact IH].
  Qed.
  Lemma alookup_aupdate {A} (l : list (N * A)) k f : alookup l k <> None -> alookup (aupdate l k f) k <> None.
  Proof.
    induction l as [|[k' v'] l IH]; cbn [aupdate alookup]; [auto|].
    destruct (k' =? k) eqn:E; cbn [alookup]; rewrite E; [discriminate | exact IH].
  Qed.

  Lemma w_start_refused s name s' e : w_start s name = (s', Err e) -> s' = s /\ pre_write e = true.
  Proof.
    unfold Writer.w_start. destruct (w_final s); [intros [= <- <-]; auto|].
    destruct (FNMAX <? len name); [intros [= <- <-]; auto|].
    destruct (name_used (w_files s) name); [intros [= <- <-]; auto | discriminate].
  Qed.

  Lemma w_append_refused s id size src s' e : w_append s id size src = (s', Err e) ->
    (s' = s /\ e = EState) \/ (e = EShortSource /\ len src < size).
  Proof.
    unfold Writer.w_append. destruct (w_final s); [intros [= <- <-]; auto|].
    destruct (alookup (w_open s) id); [|intros [= <- <-]; auto].
    destruct (size =? 0); [discriminate|].
    destruct (N.ltb_spec (len src) size); [intros [= <- <-]; auto | discriminate].
  Qed.

  Lemma w_end_refused s id s' e : w_end s id = (s', Err e) -> s' = s /\ e = EState.
  Proof.
    unfold Writer.w_end. destruct (w_final s); [intros [= <- <-]; auto|].
    destruct (alookup (w_open s) id); [discriminate | intros [= <- <-]; auto].
  Qed.

  (* finalize fails either before anything happened (EState: already finalized / a file is
     open) or -- SerializationError, EDeser -- AFTER the state became Finalized and the
     EndOfArchiveData block was written: over the bincode limit nothing more is written, from
     2^32 on (only reachable when the limit is that large) the map is written without its length *)
  Lemma w_finalize_refused s s' e : w_finalize_with order s = (s', Err e) ->
    (s' = s /\ e = EState) \/
    (e = EDeser /\ w_final s = false /\ w_open s = [] /\
     ((lim < len (ser_footer_map (order (w_footer s))) /\
       s' = w_finalized s (w_out s ++ ser_block T_START T_CONTENT T_EOA T_EOF BEnd)) \/
      (len (ser_footer_map (order (w_footer s))) <= lim /\ 2 ^ 32 <= len (ser_footer_map (order (w_footer s))) /\
       s' = w_finalized s (w_out s ++ ser_block T_START T_CONTENT T_EOA T_EOF BEnd ++ ser_footer_map (order (w_footer s)))))).
  Proof.
    unfold Writer.w_finalize_with. destruct (w_final s); [intros [= <- <-]; auto|].
    destruct (w_open s); [|intros [= <- <-]; auto]. cbv zeta.
    destruct (N.ltb_spec lim (len (ser_footer_map (order (w_footer s))))) as [Hl|Hl].
    { intros [= <- <-]. right. repeat split; auto. }
    destruct (N.leb_spec (2 ^ 32) (len (ser_footer_map (order (w_footer s))))) as [H32|H32]; [|discriminate].
    intros [= <- <-]. right. repeat split; auto.
  Qed.
  Lemma w_finalize_refused_pre s s' e : w_finalize_with order s = (s', Err e) -> pre_write e = true -> s' = s.
  Proof.
    intros Hs He. apply w_finalize_refused in Hs. destruct Hs as [[-> _]|[-> _]]; [reflexivity | discriminate].
  Qed.
  (* a successful finalize: the footer fits the limit and the u32 length field, and the state
     is the one the model without limit produced *)
  Lemma w_finalize_ok s s' v : w_finalize_with order s = (s', Ok v) ->
    w_final s = false /\ w_open s = [] /\ v = 0 /\
    len (ser_footer_map (order (w_footer s))) <= lim /\ len (ser_footer_map (order (w_footer s))) < 2 ^ 32 /\
    s' = mkW (w_out s ++ ser_block T_START T_CONTENT T_EOA T_EOF BEnd ++ ser_footer (order (w_footer s))) true []
             (w_files s) (w_ids s) (w_next s) (w_cur s).
  Proof.
    unfold Writer.w_finalize_with. destruct (w_final s); [discriminate|].
    destruct (w_open s); [|discriminate]. cbv zeta.
    destruct (N.ltb_spec lim (len (ser_footer_map (order (w_footer s))))) as [Hl|Hl]; [discriminate|].
    destruct (N.leb_spec (2 ^ 32) (len (ser_footer_map (order (w_footer s))))) as [H32|H32]; [discriminate|].
    intros [= <- <-]. repeat split; auto.
  Qed.
  (* and conversely: within the limits, with no file open, finalize succeeds *)
  Lemma w_finalize_fits s : w_final s = false -> w_open s = [] ->
    len (ser_footer_map (order (w_footer s))) <= lim -> len (ser_footer_map (order (w_footer s))) < 2 ^ 32 ->
    w_finalize_with order s =
      (mkW (w_out s ++ ser_block T_START T_CONTENT T_EOA T_EOF BEnd ++ ser_footer (order (w_footer s))) true []
           (w_files s) (w_ids s) (w_next s) (w_cur s), Ok 0).
  Proof.
    intros Hf Ho Hl H32. unfold Writer.w_finalize_with. rewrite Hf, Ho. cbv zeta.
    destruct (N.ltb_spec lim (len (ser_footer_map (order (w_footer s))))); [lia|].
    destruct (N.leb_spec (2 ^ 32) (len (ser_footer_map (order (w_footer s))))); [lia|]. reflexivity.
  Qed.
  (* C09: the SerializationError of finalize is NOT a refusal: the end marker is in the
     destination and the writer is Finalized (every later call but flush is refused) *)
  Theorem finalize_ser_error_wrote s s' : w_finalize_with order s = (s', Err EDeser) ->
    w_final s' = true /\ s' <> s /\
    exists tail, w_out s' = w_out s ++ ser_block T_START T_CONTENT T_EOA T_EOF BEnd ++ tail /\
      (tail = [] \/ tail = ser_footer_map (order (w_footer s))).
  Proof.
    intros Hs. pose proof (w_finalize_refused _ _ _ Hs) as [[_ Hx]|(_ & Hf & _ & [[_ ->]|(_ & _ & ->)])]; [discriminate| |].
    - cbn [w_finalized w_final w_out]. split; [reflexivity|]. split.
      + intros Hc. rewrite <- Hc in Hf. discriminate.
      + exists []. rewrite app_nil_r. auto.
    - cbn [w_finalized w_final w_out]. split; [reflexivity|]. split.
      + intros Hc. rewrite <- Hc in Hf. discriminate.
      + eexists. split; [reflexivity | auto].
  Qed.

  (* after a successful start, appending to and ending the new file are not refused *)
  Lemma start_then_open s name s1 id : w_start s name = (s1, Ok id) ->
    w_final s1 = false /\ alookup (w_open s1) id <> None.
  Proof.
    unfold Writer.w_start. destruct (w_final s); [discriminate|].
    destruct (FNMAX <? len name); [discriminate|].
    destruct (name_used (w_files s) name); [discriminate|].
    intros [= <- <-]. cbn [emit w_final w_open]. split; [reflexivity | apply alookup_app_last].
  Qed.

  Lemma mark_cont_open s id : w_open (mark_cont s id) = w_open s /\ w_final (mark_cont s id) = w_final s.
  Proof. unfold mark_cont. destruct (id =? w_cur s); auto. Qed.

  Lemma append_keeps_open s id size src s2 v : w_append s id size src = (s2, Ok v) ->
    w_final s = false -> alookup (w_open s) id <> None ->
    w_final s2 = false /\ alookup (w_open s2) id <> None.
  Proof.
    unfold Writer.w_append. intros Hs Hf Ho. rewrite Hf in Hs.
    destruct (alookup (w_open s) id) eqn:E; [|congruence].
    destruct (size =? 0); [injection Hs as <- _; rewrite E; split; [exact Hf | discriminate]|].
    destruct (len src <? size); [discriminate|]. injection Hs as <- _.
    cbn [w_final w_open]. split; [reflexivity|]. apply alookup_aupdate.
    destruct (mark_cont_open s id) as [-> _]. rewrite E. discriminate.
  Qed.

  Lemma end_ok_if_open s id : w_final s = false -> alookup (w_open s) id <> None ->
    exists s', w_end s id = (s', Ok 0).
  Proof.
    intros Hf Ho. unfold Writer.w_end. rewrite Hf.
    destruct (alookup (w_open s) id); [eexists; reflexivity | congruence].
  Qed.

  Lemma append_err_if_open s id size src s2 e : w_final s = false -> alookup (w_open s) id <> None ->
    w_append s id size src = (s2, Err e) -> e = EShortSource.
  Proof.
    intros Hf Ho Hs. unfold Writer.w_append in Hs. rewrite Hf in Hs.
    destruct (alookup (w_open s) id); [|congruence].
    destruct (size =? 0); [discriminate|].
    destruct (len src <? size); [injection Hs as _ <-; reflexivity | discriminate].
  Qed.

  (* C09, first clause *)
  Theorem refused_noop s o s' e :
    wstep s o = (s', Err e) -> pre_write e = true -> s' = s.
  Proof.
    destruct o as [name|id size src|id|name size src| |]; cbn [Writer.wstep]; intros Hs He.
    - apply w_start_refused in Hs. tauto.
    - apply w_append_refused in Hs. destruct Hs as [[? _]|[-> _]]; [assumption | discriminate].
    - apply w_end_refused in Hs. tauto.
    - destruct (w_start s name) as [s1 [id|e1|c1]] eqn:E1.
      + destruct (start_then_open _ _ _ _ E1) as [Hf Ho].
        destruct (w_append s1 id size src) as [s2 [v|e2|c2]] eqn:E2.
        * destruct (append_keeps_open _ _ _ _ _ _ E2 Hf Ho) as [Hf2 Ho2].
          destruct (end_ok_if_open s2 id Hf2 Ho2) as [s3 H3]. congruence.
        * injection Hs as <- <-. rewrite (append_err_if_open _ _ _ _ _ _ Hf Ho E2) in He. discriminate.
        * discriminate.
      + injection Hs as <- <-. apply w_start_refused in E1. tauto.
      + discriminate.
    - discriminate.
    - exact (w_finalize_refused_pre _ _ _ Hs He).
  Qed.

  (* C09: the sequence continues, and the refused calls can be erased: running only the calls
     that were not refused gives the same final state and the same results for those calls *)
  Definition refused (r : res N) : bool := match r with Err e => pre_write e | _ => false end.

  Fixpoint erase (ops : list wop) (rs : list (res N)) : list wop :=
    match ops, rs with
    | o :: ops', r :: rs' => if refused r then erase ops' rs' else o :: erase ops' rs'
    | _, _ => []
    end.
  Fixpoint kept (rs : list (res N)) : list (res N) :=
    match rs with [] => [] | r :: rs' => if refused r then kept rs' else r :: kept rs' end.

  Theorem refused_erasable ops : forall s,
    let '(s1, rs) := wrun s ops in wrun s (erase ops rs) = (s1, kept rs).
  Proof.
    induction ops as [|o ops IH]; intros s; cbn [Writer.wrun erase kept]; [reflexivity|].
    destruct (wstep s o) as [s1 x] eqn:E1.
    specialize (IH s1). destruct (wrun s1 ops) as [s2 xs] eqn:E2.
    cbn [erase kept]. destruct (refused x) eqn:Er.
    - destruct x as [v|e|c]; try discriminate. cbn [refused] in Er.
      rewrite (refused_noop _ _ _ _ E1 Er) in IH. exact IH.
    - cbn [Writer.wrun]. rewrite E1, IH. reflexivity.
  Qed.

  (* C09: a source that ends before the announced size is never reported as success *)
  Theorem short_source_not_ok s id size src : len src < size ->
    forall s' v, w_append s id size src <> (s', Ok v).
  Proof.
    intros Hl s' v. unfold Writer.w_append.
    destruct (w_final s); [discriminate|]. destruct (alookup (w_open s) id); [|discriminate].
    destruct (N.eqb_spec size 0); [lia|].
    destruct (N.ltb_spec (len src) size); [discriminate | lia].
  Qed.

  Theorem short_source_add_not_ok s name size src : len src < size ->
    forall s' v, wstep s (OAdd name size src) <> (s', Ok v).
  Proof.
    intros Hl s' v. cbn [Writer.wstep].
    destruct (w_start s name) as [s1 [id|e1|c1]]; [|discriminate..].
    destruct (w_append s1 id size src) as [s2 [v2|e2|c2]] eqn:E2; [|discriminate..].
    exfalso. exact (short_source_not_ok s1 id size src Hl s2 v2 E2).
  Qed.

  (* after finalization every call but flush is refused, and changes nothing *)
  Theorem finalized_refuses s o : w_final s = true -> o <> OFlush ->
    wstep s o = (s, Err EState).
  Proof.
    intros Hf Ho. destruct o; cbn [Writer.wstep];
      unfold Writer.w_start, Writer.w_append, Writer.w_end, Writer.w_finalize_with; rewrite ?Hf; try reflexivity.
    congruence.
  Qed.
End WriterProofs.
