(* SrcTie3Cmds2Create.v — Tie A level 1 for `mlar create` (work package cmdsT2): add_file_or_dir / add_dir (the directory walk),
   add_from_stdin and `create` of mlar/src/main.rs as translated by tools/src2v3_cmds.py (gen/Src3m.v) ARE Cli.cmd_create of the
   FLATTENED file list (Cli.v: "the files in the order add_file_or_dir meets them"), where the flattening is the function
   walk / walk_args below: depth first, directories in read_dir order, `-` replaced by the paths read from standard input, the
   first failing read_dir entry / File::open / metadata ends the command (`?`).
   Over the model's two-phase writer (SrcTie3Cmds2Conv.v: add_file collects, finalize = Archive.archive_write) and files whose
   metadata length is their byte count (CFile = the content).  The walk's recursion is bounded by `fuel` (directory depth). *)
From MLA Require Import Limit.
From MLA Require Import Base Stream Blocks Writer Reader Format Ecies Archive Cli Keys.
From MLA Require Import SrcTie3Cmds2Open SrcTie3Cmds2Inst SrcTie3Cmds2Cfg SrcTie3Cmds2Conv.
From MLAGen Require Src3m.
From Coq Require Import Lia ZifyBool ZifyNat ZifyN.
Open Scope N_scope.

Section Walk.
  Variable CPath : Type.
  Variable fs_is_dir : CPath -> bool.
  Variable fs_open_file : CPath -> res bytes.
  Variable fs_read_dir : CPath -> res (list (res CPath)).
  Variable cpath_name : CPath -> bytes.

  Definition cfile_metadata_m (c : bytes) : res N := Ok (len c).
  Definition add_fs_file_m (wr : AWm) (name : bytes) (length : N) (c : bytes) (w : Src3m.World) : (Src3m.World * AWm) * res unit :=
    ((w, (fst wr, snd wr ++ [OAdd name length c])), Ok tt).

  (* the entries of a directory / the lines of standard input, each walked by rec *)
  Fixpoint walk_ents (rec : CPath -> res (list (bytes * bytes))) (l : list (res CPath)) : res (list (bytes * bytes)) :=
    match l with
    | [] => Ok []
    | Ok p :: rest =>
      match rec p with
      | Ok fs => match walk_ents rec rest with Ok gs => Ok (fs ++ gs) | Err e => Err e | Crash x => Crash x end
      | Err e => Err e
      | Crash x => Crash x
      end
    | Err e :: _ => Err e
    | Crash x :: _ => Crash x
    end.

  Fixpoint walk (fuel : nat) (p : CPath) : res (list (bytes * bytes)) :=
    match fuel with
    | O => Err EFuel
    | S fuel' =>
      if fs_is_dir p then
        match fs_read_dir p with
        | Ok ents => walk_ents (walk fuel') ents
        | Err e => Err e
        | Crash x => Crash x
        end
      else
        match fs_open_file p with
        | Ok c => Ok [(cpath_name p, c)]
        | Err e => Err e
        | Crash x => Crash x
        end
    end.

  Notation g_add := (Src3m.add_file_or_dir CPath bytes AWm add_fs_file_m fs_is_dir fs_open_file cfile_metadata_m fs_read_dir cpath_name).

  (* what a run of the walk leaves: the world untouched; on success the writer has received exactly the files of the walk *)
  Definition walked (dc : Src3m.OutputTypes * wconfig) (acc : list wop) (w : Src3m.World) (g : (Src3m.World * AWm) * res unit)
             (m : res (list (bytes * bytes))) : Prop :=
    fst (fst g) = w /\
    match m with
    | Ok fs => snd (fst g) = (dc, acc ++ create_ops fs) /\ snd g = Ok tt
    | Err e => snd g = Err e
    | Crash x => snd g = Crash x
    end.

  Lemma add_dir_for1_sim (rec_g : AWm -> CPath -> Src3m.World -> (Src3m.World * AWm) * res unit) rec_m dc :
    (forall p acc w, walked dc acc w (rec_g (dc, acc) p w) (rec_m p)) ->
    forall ents acc w, walked dc acc w (Src3m.add_dir_for1 CPath AWm rec_g (dc, acc) w ents) (walk_ents rec_m ents).
  Proof.
    intros Hrec. induction ents as [|[p|e|x] ents IH]; intros acc w; cbn [Src3m.add_dir_for1 walk_ents]; unfold walked; cbn [fst snd].
    - unfold create_ops. cbn [map]. rewrite app_nil_r. auto.
    - unfold Src3m.dirent_path. destruct (Hrec p acc w) as [Hw Hr].
      destruct (rec_g (dc, acc) p w) as [[w4 m5] r]. cbn [fst snd] in *. subst w4.
      destruct (rec_m p) as [fs|e|x].
      + destruct Hr as [-> ->]. destruct (IH (acc ++ create_ops fs) w) as [Hw' Hr']. split; [exact Hw'|].
        destruct (walk_ents rec_m ents) as [gs|e|x]; [|exact Hr'|exact Hr'].
        unfold create_ops in *. rewrite map_app, app_assoc. exact Hr'.
      + subst r. auto.
      + subst r. auto.
    - auto.
    - auto.
  Qed.

  Theorem add_file_or_dir_sim dc : forall fuel p acc w, walked dc acc w (g_add fuel (dc, acc) p w) (walk fuel p).
  Proof.
    induction fuel as [|fuel IH]; intros p acc w; cbn [Src3m.add_file_or_dir walk].
    - unfold walked. cbn [fst snd]. auto.
    - destruct (fs_is_dir p).
      + unfold Src3m.add_dir. destruct (fs_read_dir p) as [ents|e|x]; [|unfold walked; cbn [fst snd]; auto..].
        pose proof (add_dir_for1_sim (g_add fuel) (walk fuel) dc (IH) ents acc w) as Hd. unfold walked in *.
        destruct (Src3m.add_dir_for1 CPath AWm (g_add fuel) (dc, acc) w ents) as [[w7 m8] r]. cbn [fst snd] in *.
        destruct Hd as [-> Hd]. split; [destruct r; reflexivity|].
        destruct (walk_ents (walk fuel) ents) as [fs|e|x]; [destruct Hd as [-> ->]; auto|subst r; reflexivity|subst r; reflexivity].
      + destruct (fs_open_file p) as [c|e|x]; [|unfold walked; cbn [fst snd]; auto..].
        unfold cfile_metadata_m, add_fs_file_m, Src3m.meta_len, walked. cbn [fst snd create_ops map]. auto.
  Qed.

  (* ---------- the arguments of create: `-` = the paths on standard input ---------- *)
  Variable cpath_is_dash : CPath -> bool.
  Variable stdin_lines : list (res CPath).
  Variable fuel : nat.

  Fixpoint walk_args (l : list CPath) : res (list (bytes * bytes)) :=
    match l with
    | [] => Ok []
    | p :: rest =>
      match (if cpath_is_dash p then walk_ents (walk fuel) stdin_lines else walk fuel p) with
      | Ok fs => match walk_args rest with Ok gs => Ok (fs ++ gs) | Err e => Err e | Crash x => Crash x end
      | Err e => Err e
      | Crash x => Crash x
      end
    end.

  Lemma add_from_stdin_sim dc : forall ents acc w,
    walked dc acc w (Src3m.add_from_stdin_for1 CPath bytes AWm add_fs_file_m fs_is_dir fs_open_file cfile_metadata_m fs_read_dir cpath_name fuel
                       (dc, acc) w ents) (walk_ents (walk fuel) ents).
  Proof.
    induction ents as [|[p|e|x] ents IH]; intros acc w; cbn [Src3m.add_from_stdin_for1 walk_ents]; unfold walked; cbn [fst snd].
    - unfold create_ops. cbn [map]. rewrite app_nil_r. auto.
    - destruct (add_file_or_dir_sim dc fuel p acc w) as [Hw Hr].
      destruct (g_add fuel (dc, acc) p w) as [[w3 m4] r]. cbn [fst snd] in *. subst w3.
      destruct (walk fuel p) as [fs|e|x].
      + destruct Hr as [-> ->]. destruct (IH (acc ++ create_ops fs) w) as [Hw' Hr']. split; [exact Hw'|].
        destruct (walk_ents (walk fuel) ents) as [gs|e|x]; [|exact Hr'|exact Hr'].
        unfold create_ops in *. rewrite map_app, app_assoc. exact Hr'.
      + subst r. auto.
      + subst r. auto.
    - auto.
    - auto.
  Qed.

  Theorem create_for1_sim dc : forall files acc w,
    walked dc acc w (Src3m.create_for1 CPath bytes AWm add_fs_file_m fs_is_dir fs_open_file cfile_metadata_m fs_read_dir cpath_name
                       cpath_is_dash stdin_lines fuel (dc, acc) w files) (walk_args files).
  Proof.
    induction files as [|p files IH]; intros acc w; cbn [Src3m.create_for1 walk_args]; unfold walked; cbn [fst snd].
    - unfold create_ops. cbn [map]. rewrite app_nil_r. auto.
    - assert (Hstep : walked dc acc w
        (if cpath_is_dash p
         then Src3m.add_from_stdin CPath bytes AWm add_fs_file_m fs_is_dir fs_open_file cfile_metadata_m fs_read_dir cpath_name stdin_lines fuel (dc, acc) w
         else g_add fuel (dc, acc) p w)
        (if cpath_is_dash p then walk_ents (walk fuel) stdin_lines else walk fuel p)).
      { destruct (cpath_is_dash p); [|apply add_file_or_dir_sim]. unfold Src3m.add_from_stdin.
        pose proof (add_from_stdin_sim dc stdin_lines acc w) as Hs. unfold walked in *.
        destruct (Src3m.add_from_stdin_for1 _ _ _ _ _ _ _ _ _ _ _ _ _) as [[w6 m7] r]. cbn [fst snd] in *. destruct Hs as [-> Hs].
        split; [destruct r; reflexivity|]. destruct (walk_ents (walk fuel) stdin_lines) as [fs|e|x];
          [destruct Hs as [-> ->]; auto|subst r; reflexivity|subst r; reflexivity]. }
      set (m := if cpath_is_dash p then walk_ents (walk fuel) stdin_lines else walk fuel p) in *.
      unfold walked in Hstep.
      destruct (cpath_is_dash p).
      + destruct (Src3m.add_from_stdin _ _ _ _ _ _ _ _ _ _ _ _ _) as [[w4 m5] r]. cbn [fst snd] in *. destruct Hstep as [-> Hr].
        destruct m as [fs|e|x].
        * destruct Hr as [-> ->]. destruct (IH (acc ++ create_ops fs) w) as [Hw' Hr']. split; [exact Hw'|].
          destruct (walk_args files) as [gs|e|x]; [|exact Hr'|exact Hr'].
          unfold create_ops in *. rewrite map_app, app_assoc. exact Hr'.
        * subst r. auto.
        * subst r. auto.
      + destruct (g_add fuel (dc, acc) p w) as [[w4 m5] r]. cbn [fst snd] in *. destruct Hstep as [-> Hr].
        destruct m as [fs|e|x].
        * destruct Hr as [-> ->]. destruct (IH (acc ++ create_ops fs) w) as [Hw' Hr']. split; [exact Hw'|].
          destruct (walk_args files) as [gs|e|x]; [|exact Hr'|exact Hr'].
          unfold create_ops in *. rewrite map_app, app_assoc. exact Hr'.
        * subst r. auto.
        * subst r. auto.
  Qed.
End Walk.

Section Create.
  Variables CHUNK CIPHERBUF BLOCK LIMIT FNMAX : N.
  Local Hint Extern 0 Limit => exact LIMIT : typeclass_instances.
  Variables TS TC TA TE : N.
  Variable H : bytes -> bytes.
  Variable order : footer -> footer.
  Variable pubk : bytes -> bytes.
  Variable dh : bytes -> bytes -> bytes.
  Variable kdf : bytes -> bytes.
  Variables wenc wtag : bytes -> bytes -> bytes.
  Variable ksf : bytes -> bytes -> N -> N -> N.
  Variable tagf : bytes -> bytes -> N -> bytes -> bytes.
  Variable KPath : Type.
  Variable fs_open_key : KPath -> Src3m.World -> res bytes.
  Variable parse_pubkey : bytes -> res bytes.
  Variable site_cfg : N -> N.
  Variable arg_level : option N.
  Variable arg_pubs : option (list KPath).
  Variable arg_layers : option (list bytes).
  Variable mk_cfg : Src3m.WriterConfig -> wconfig.
  Variables ct cm : list N.
  Variable CPath : Type.
  Variable fs_is_dir : CPath -> bool.
  Variable fs_open_file : CPath -> res bytes.
  Variable fs_read_dir : CPath -> res (list (res CPath)).
  Variable cpath_name : CPath -> bytes.
  Variable cpath_is_dash : CPath -> bool.
  Variable stdin_lines : list (res CPath).
  Variable fuel : nat.

  Notation cmd_create := (cmd_create CHUNK CIPHERBUF BLOCK LIMIT FNMAX TS TC TA TE H order pubk dh kdf wenc wtag ksf tagf).
  Notation cspec := (config_spec KPath fs_open_key parse_pubkey site_cfg arg_level arg_pubs arg_layers).
  Notation finalize_m := (finalize_m CHUNK CIPHERBUF BLOCK LIMIT FNMAX TS TC TA TE H order pubk dh kdf wenc wtag ksf tagf ct cm).

  (* `mlar create -o FILE [-l ..] [-p ..] [-q ..] paths..` *)
  Definition create_t (paths : option (list CPath)) : Src3m.World -> Src3m.World * res unit :=
    Src3m.create KPath CPath bytes AWm false arg_level arg_pubs arg_layers paths fs_open_key parse_pubkey (writer_from_config_m mk_cfg)
      (add_fs_file_m) finalize_m fs_is_dir fs_open_file cfile_metadata_m fs_read_dir cpath_name cpath_is_dash stdin_lines fuel site_cfg.

  (* create = Cli.cmd_create of the walked files: the output is created BEFORE the first path is looked at, so a failing walk
     leaves it behind (created, not a finished archive: OWritten []), exit status non-zero *)
  Theorem create_src paths c :
    cspec world0 = Ok c ->
    cres_of (create_t (Some paths) world0) =
    match walk_args CPath fs_is_dir fs_open_file fs_read_dir cpath_name cpath_is_dash stdin_lines fuel paths with
    | Ok files => cmd_create (mk_cfg c) ct cm files
    | _ => mkCR false (OWritten []) []
    end.
  Proof.
    intros Hc. unfold create_t, Src3m.create. rewrite writer_from_matches_src, Hc. unfold writer_from_config_m.
    set (w1 := Src3m.w_set Src3m.PMain (fun _ : outeff => OWritten []) world0).
    pose proof (create_for1_sim CPath fs_is_dir fs_open_file fs_read_dir cpath_name cpath_is_dash stdin_lines fuel
                  (Src3m.OFile Src3m.PMain, mk_cfg c) paths [] w1) as Hl. unfold walked in Hl.
    destruct (Src3m.create_for1 _ _ _ _ _ _ _ _ _ _ _ _ _ _ _) as [[w12 m13] r]. cbn [fst snd] in Hl. destruct Hl as [-> Hl].
    destruct (walk_args _ _ _ _ _ _ _ _ paths) as [files|e|x].
    - destruct Hl as [-> ->]. unfold SrcTie3Cmds2Conv.finalize_m, Cli.cmd_create. cbn [fst snd app].
      destruct (archive_write CHUNK CIPHERBUF BLOCK LIMIT FNMAX TS TC TA TE H order pubk dh kdf wenc wtag ksf tagf (mk_cfg c) ct cm (create_ops files)) as [b|e|x]; reflexivity.
    - subst r. reflexivity.
    - subst r. reflexivity.
  Qed.

  (* no path argument: an empty archive *)
  Theorem create_no_paths_src c :
    cspec world0 = Ok c -> cres_of (create_t None world0) = cmd_create (mk_cfg c) ct cm [].
  Proof.
    intros Hc. unfold create_t, Src3m.create. rewrite writer_from_matches_src, Hc. unfold writer_from_config_m.
    unfold SrcTie3Cmds2Conv.finalize_m, Cli.cmd_create. cbn [fst snd create_ops map].
    destruct (archive_write CHUNK CIPHERBUF BLOCK LIMIT FNMAX TS TC TA TE H order pubk dh kdf wenc wtag ksf tagf (mk_cfg c) ct cm []) as [b|e|x]; reflexivity.
  Qed.
End Create.
