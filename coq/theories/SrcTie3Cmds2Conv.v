(* SrcTie3Cmds2Conv.v — Tie A level 1 for `mlar convert` and `mlar repair` (work package cmdsT2): the loop of convert and the whole
   commands of mlar/src/main.rs as translated by tools/src2v3_cmds.py (gen/Src3m.v) ARE Cli.convert_ops / Cli.cmd_convert and
   CliRepair.cmd_repair, over the model's library (SrcTie3Cmds2Inst.v, SrcTie3Cmds2Open.v, SrcTie3Cmds2Cfg.v) and the model's
   WRITER, which is two-phase (Cli.cmd_convert: first every add_file's bytes are collected, then Archive.archive_write runs them):
     ArchiveWriter                = (destination, configuration, the add_file calls made so far); from_config writes nothing yet
     add_file(name, size, data)   = io::copy of the data; a failing / panicking read is add_file's error / panic
     finalize                     = Archive.archive_write of the calls: the whole archive reaches the destination, or an error
   so an add_file error that the real writer reports at once (duplicate name, ...) is reported here by finalize: the two are both
   "non-zero exit status, output file created" in Cli.cmd_convert, which is all the model says about them.
   No premise beyond the loading of the key files and a configuration that does not panic (config_spec = Ok). *)
From MLA Require Import Limit.
From MLA Require Import Base Stream Blocks Writer Reader EncLayer CompFailSafe FsCompStream Repair Format Ecies Archive Path Tar Cli CliRepair Keys.
From MLA Require Import SrcTie3Cmds2Open SrcTie3Cmds2Inst SrcTie3Cmds2Cfg.
From MLAGen Require Src3m.
From Coq Require Import Lia ZifyBool ZifyNat ZifyN.
Open Scope N_scope.

(* the model's writer *)
Definition AWm : Type := (Src3m.OutputTypes * wconfig * list wop)%type.
Definition writer_from_config_m (mk_cfg : Src3m.WriterConfig -> wconfig) (d : Src3m.OutputTypes) (c : Src3m.WriterConfig) (w : Src3m.World)
  : Src3m.World * res AWm := (w, Ok (d, mk_cfg c, [])).

Section ConvLoop.
  Context {LIM : Limit}.
  Variables FNMAX TS TC TA TE : N.
  Variable P : Type.
  Variable F : P -> Stream.
  Variables zf fuel : nat.

  Definition add_archive_file_m (wr : AWm) (name : bytes) (size : N) (f : AFm P F) (w : Src3m.World)
    : (Src3m.World * AWm * AFm P F) * res unit :=
    match io_copy_m FNMAX TS TC TA TE P F zf fuel f with
    | (f1, d, Ok _) => ((w, (fst wr, snd wr ++ [OAdd name size d]), f1), Ok tt)
    | (f1, d, Err e) => ((w, wr, f1), Err e)
    | (f1, d, Crash c) => ((w, wr, f1), Crash c)
    end.

  Notation g_for1 := (Src3m.convert_for1 (ARm P F) (AFm P F) AWm (get_file_m FNMAX TS TC TA TE P F) (af_filename_m P F) (af_size_m P F)
                        (af_release_m P F) add_archive_file_m).
  Notation m_ops p := (convert_ops FNMAX TS TC TA TE (F p) zf fuel).

  (* the loop of convert, from any reader state, any names, whatever was added before: the add_file calls are exactly
     Cli.convert_ops's, and the loop ends as it does (get_file Err / None: on to the next name; a failing read: `?`; a panic
     below get_file or in the read: unwinds).  The world is not touched *)
  Theorem convert_for1_sim dc : forall names p (r : rstate (F p)) acc w,
    let g := g_for1 (existT _ p r) (dc, acc) w names in
    fst (fst (fst g)) = w /\
    match m_ops p r names acc with
    | Ok ops => snd (fst g) = (dc, ops) /\ snd g = Ok tt
    | Err e => snd g = Err e
    | Crash c => snd g = Crash c
    end.
  Proof.
    induction names as [|n names IH]; intros p r acc w; cbn [Src3m.convert_for1 convert_ops].
    - cbn [fst snd]. auto.
    - cbn [get_file_m]. destruct (get_file FNMAX TS TC TA TE (F p) r n) as [r1 [[[bs sz]|]|e|c]].
      + unfold add_archive_file_m. cbn [io_copy_m af_filename_m af_size_m projT2 af_bs af_r af_nm af_sz].
        destruct (io_copy FNMAX TS TC TA TE (F p) zf fuel bs []) as [[bs' d] [u|e|c]]; cbn [fst snd af_release_m af_r af_bs]; [apply IH|auto|auto].
      + apply IH.
      + apply IH.
      + cbn [fst snd]. auto.
  Qed.
End ConvLoop.

Section FromBytes.
  Variables CHUNK TAG CIPHERBUF BLOCK LIMIT FNMAX CACHE FSBUF : N.
  Local Hint Extern 0 Limit => exact LIMIT : typeclass_instances.
  Variables TS TC TA TE : N.
  Variable H : bytes -> bytes.
  Variable order : footer -> footer.
  Variable pubk : bytes -> bytes.
  Variable dh : bytes -> bytes -> bytes.
  Variable kdf : bytes -> bytes.
  Variables wenc wdec wtag : bytes -> bytes -> bytes.
  Variable ksf : bytes -> bytes -> N -> N -> N.
  Variable tagf : bytes -> bytes -> N -> bytes -> bytes.
  Variable dec : bytes -> bytes.
  Variables zf fuel : nat.
  Variable a : bytes.
  Variable KPath : Type.
  Variable fs_open_key : KPath -> Src3m.World -> res bytes.
  Variables parse_privkey parse_pubkey : bytes -> res bytes.
  Variables site_rc site_cfg site_convert : N -> N.
  Variable arg_keys : option (list KPath).
  Variable arg_level : option N.
  Variable arg_pubs : option (list KPath).
  Variable arg_layers : option (list bytes).
  (* the secrets ArchiveWriterConfig draws (key, nonce, ephemeral scalar) and the compressor: any function of the configuration *)
  Variable mk_cfg : Src3m.WriterConfig -> wconfig.
  Variables ct cm : list N.

  Notation stack_of := (Archive.stack_of CHUNK TAG BLOCK ksf tagf dec).
  Notation opened := (opened CHUNK TAG BLOCK ksf tagf dec).
  Notation cli_open := (cli_open CHUNK TAG BLOCK LIMIT dh kdf wdec wtag ksf tagf dec).
  Notation archive_write := (archive_write CHUNK CIPHERBUF BLOCK LIMIT FNMAX TS TC TA TE H order pubk dh kdf wenc wtag ksf tagf).
  Notation cmd_convert := (cmd_convert CHUNK TAG CIPHERBUF BLOCK LIMIT FNMAX TS TC TA TE H order pubk dh kdf wenc wdec wtag ksf tagf dec).
  Notation ckeys := (cli_keys KPath fs_open_key parse_privkey site_rc arg_keys).
  Notation cspec := (config_spec KPath fs_open_key parse_pubkey site_cfg arg_level arg_pubs arg_layers).
  Notation open_src := (open_mla_file_src CHUNK TAG BLOCK LIMIT dh kdf wdec wtag ksf tagf dec a KPath fs_open_key parse_privkey site_rc arg_keys).

  Definition finalize_m (wr : AWm) (w : Src3m.World) : (Src3m.World * AWm) * res unit :=
    match archive_write (snd (fst wr)) ct cm (snd wr) with
    | Ok b => ((Src3m.dest_write (fst (fst wr)) b w, wr), Ok tt)
    | Err e => ((w, wr), Err e)
    | Crash c => ((w, wr), Crash c)
    end.

  (* `mlar convert -i <a> -o FILE [-k ..] [-l ..] [-p ..] [-q ..]` *)
  Definition convert_t : Src3m.World -> Src3m.World * res unit :=
    Src3m.convert unit KPath FileM Format.header (opened a) (AFm oparams (stack_of a)) AWm tt false arg_level arg_keys arg_pubs arg_layers
      fs_open_m file_rewind_m (header_from_m LIMIT a) hdr_contains_m
      (reader_from_config_m CHUNK TAG BLOCK LIMIT dh kdf wdec wtag ksf tagf dec a)
      (list_files_m oparams (stack_of a)) (get_file_m FNMAX TS TC TA TE oparams (stack_of a))
      (af_filename_m oparams (stack_of a)) (af_size_m oparams (stack_of a)) (af_release_m oparams (stack_of a)) sort_names
      fs_open_key parse_privkey parse_pubkey (writer_from_config_m mk_cfg)
      (add_archive_file_m FNMAX TS TC TA TE oparams (stack_of a) zf fuel) finalize_m site_cfg site_rc site_convert.

  (* convert = Cli.cmd_convert: open, list, sort; THEN the output is created; the add_file calls; finalize *)
  Theorem convert_src privs c :
    arg_keys <> Some [] -> ckeys world0 = Ok privs -> cspec world0 = Ok c ->
    cres_of (convert_t world0) = cmd_convert zf fuel a privs (mk_cfg c) ct cm.
  Proof.
    intros Hne Hk Hc. unfold convert_t, Src3m.convert. pose proof (open_src world0 Hne) as Ho. unfold open_t in Ho. rewrite Ho, Hk. clear Ho.
    unfold Cli.cmd_convert. destruct (cli_open a privs) as [[p r]|e|x]; [|reflexivity|reflexivity].
    cbn [list_files_m projT1 projT2]. rewrite writer_from_matches_src, Hc. unfold writer_from_config_m.
    set (w6 := Src3m.w_set Src3m.PMain (fun _ : outeff => OWritten []) world0).
    pose proof (convert_for1_sim FNMAX TS TC TA TE oparams (stack_of a) zf fuel (Src3m.OFile Src3m.PMain, mk_cfg c)
                  (sort_names (list_files (stack_of a p) r)) p r [] w6) as Hl. cbv zeta in Hl.
    destruct (Src3m.convert_for1 _ _ _ _ _ _ _ _ _ _ _ _) as [[[w15 m16] wr] x]. cbn [fst snd] in Hl. destruct Hl as [-> Hl].
    destruct (convert_ops FNMAX TS TC TA TE (stack_of a p) zf fuel r (sort_names (list_files (stack_of a p) r)) []) as [ops|e|x'].
    - destruct Hl as [-> ->]. unfold finalize_m. cbn [fst snd].
      destruct (archive_write (mk_cfg c) ct cm ops) as [b|e|x']; reflexivity.
    - subst x. reflexivity.
    - subst x. reflexivity.
  Qed.

  (* ---------- repair ---------- *)
  Variable dstate : Type.
  Variable dinit : dstate.
  Variable dstep : dstate -> bytes -> N -> dresult * N * bytes * dstate.
  Variable pfuel : nat.
  Variable rfuel : nat.
  Notation cmd_repair := (cmd_repair CHUNK TAG CIPHERBUF BLOCK LIMIT FNMAX CACHE FSBUF TS TC TA TE H pubk dh kdf wenc wdec wtag ksf tagf
                            dstate dinit dstep pfuel).
  Notation FsE := (FsE CHUNK TAG ksf tagf).

  (* ArchiveFailSafeReader::from_config: header, load_persistent with the candidate keys, the fail-safe layer readers (the
     encryption layer reads its own header there) *)
  Definition FSRm : Type := { S : Stream & st S }.
  Definition failsafe_stack_m (_ : FileM) (c : Src3m.ReaderConfig) : res FSRm :=
    match Archive.read_header LIMIT a with
    | Ok (h, rest) =>
      match Archive.load_config dh kdf wdec wtag h (Src3m.rc_keys c) with
      | Ok (e, cmp, k, n) =>
        match e, cmp with
        | false, false => Ok (existT _ (Cursor rest) 0)
        | true, false =>
          match fs_open CHUNK TAG (ksf k n) (Cursor rest) 0 with
          | (es, Ok _) => Ok (existT _ (FsE k n rest (Src3m.rc_unauth c)) es)
          | (_, Err er) => Err er | (_, Crash x) => Crash x
          end
        | false, true =>
          Ok (existT _ (FsComp BLOCK FSBUF dstate dinit dstep pfuel (Cursor rest)) (fs_new dstate (Cursor rest) 0))
        | true, true =>
          match fs_open CHUNK TAG (ksf k n) (Cursor rest) 0 with
          | (es, Ok _) => Ok (existT _ (FsComp BLOCK FSBUF dstate dinit dstep pfuel (FsE k n rest (Src3m.rc_unauth c)))
                                       (fs_new dstate (FsE k n rest (Src3m.rc_unauth c)) es))
          | (_, Err er) => Err er | (_, Crash x) => Crash x
          end
        end
      | Err er => Err er | Crash x => Crash x
      end
    | Err er => Err er | Crash x => Crash x
    end.

  (* convert_to_archive: Repair.repair into the new writer, whose layers then receive the block stream (CliRepair.archive_wrap) *)
  Definition convert_to_archive_m (fsr : FSRm) (wr : AWm) (w : Src3m.World) : (Src3m.World * FSRm * AWm) * res fstatus :=
    match repair FNMAX CACHE TS TC TA TE H (projT1 fsr) rfuel (projT2 fsr) w_init with
    | Ok (status, unfinished, out) =>
      match archive_wrap CHUNK CIPHERBUF BLOCK LIMIT pubk dh kdf wenc wtag ksf tagf (snd (fst wr)) ct cm (w_out out) with
      | Ok b => ((Src3m.dest_write (fst (fst wr)) b w, fsr, wr), Ok status)
      | Err e => ((w, fsr, wr), Err e)
      | Crash x => ((w, fsr, wr), Crash x)
      end
    | Err e => ((w, fsr, wr), Err e)
    | Crash x => ((w, fsr, wr), Crash x)
    end.

  (* `mlar repair -i <a> -o FILE [-k ..] [--allow-unauthenticated-data] [-l ..] [-p ..] [-q ..]` *)
  Definition repair_t (unauth : bool) : Src3m.World -> Src3m.World * res unit :=
    Src3m.repair unit KPath FileM Format.header FSRm AWm fstatus tt false arg_level arg_keys arg_pubs arg_layers unauth
      fs_open_m file_rewind_m (header_from_m LIMIT a) hdr_contains_m failsafe_stack_m
      fs_open_key parse_privkey parse_pubkey (writer_from_config_m mk_cfg) convert_to_archive_m site_cfg site_rc.

  (* repair = CliRepair.cmd_repair: the key policy and from_config BEFORE the output is created; every status convert_to_archive
     returns as Ok ends with exit status 0 *)
  Theorem repair_src unauth privs c :
    arg_keys <> Some [] -> ckeys world0 = Ok privs -> cspec world0 = Ok c ->
    cres_of (repair_t unauth world0) = fst (cmd_repair unauth rfuel a privs (mk_cfg c) ct cm).
  Proof.
    intros Hne Hk Hc. unfold repair_t, Src3m.repair.
    rewrite (open_failsafe_mla_file_gen_src LIMIT a KPath fs_open_key parse_privkey site_rc arg_keys FSRm failsafe_stack_m unauth world0 Hne), Hk.
    unfold CliRepair.cmd_repair, cmd_repair_gen, CliRepair.repair_open.
    destruct (Archive.read_header LIMIT a) as [[h rest]|e|x] eqn:Eh; cbn [bind]; [|reflexivity|reflexivity].
    destruct (key_given privs && negb (has_bit (h_layers h) L_ENCRYPT)); [reflexivity|].
    unfold failsafe_stack_m. rewrite Eh.
    assert (Hkeys : Src3m.rc_keys (fs_cfg KPath arg_keys privs unauth) = privs).
    { unfold fs_cfg. destruct arg_keys as [l|] eqn:Ea.
      - destruct unauth; reflexivity.
      - cbn [cli_keys] in Hk. injection Hk as <-. destruct unauth; reflexivity. }
    assert (Hun : Src3m.rc_unauth (fs_cfg KPath arg_keys privs unauth) = unauth).
    { unfold fs_cfg. destruct arg_keys; destruct unauth; reflexivity. }
    rewrite Hkeys, Hun.
    destruct (Archive.load_config dh kdf wdec wtag h privs) as [[[[e cmp] k] n]|er|x]; cbn [bind]; [|reflexivity|reflexivity].
    assert (Hrun : forall (S : Stream) (s0 : st S),
      cres_of (match Src3m.writer_from_matches KPath AWm false arg_level arg_pubs arg_layers fs_open_key parse_pubkey (writer_from_config_m mk_cfg) site_cfg world0 with
               | (w3, Ok v4) =>
                 match convert_to_archive_m (existT _ S s0) v4 w3 with
                 | ((w5, _, _), Ok _) => (w5, Ok tt) | ((w5, _, _), Err e0) => (w5, Err e0) | ((w5, _, _), Crash x) => (w5, Crash x)
                 end
               | (w3, Err e0) => (w3, Err e0) | (w3, Crash x) => (w3, Crash x)
               end) =
      fst (repair_with CHUNK CIPHERBUF BLOCK LIMIT FNMAX CACHE TS TC TA TE H pubk dh kdf wenc wtag ksf tagf S s0 rfuel (mk_cfg c) ct cm)).
    { intros S s0. rewrite writer_from_matches_src, Hc. unfold writer_from_config_m, convert_to_archive_m, repair_with. cbn [projT1 projT2 fst snd].
      destruct (repair FNMAX CACHE TS TC TA TE H S rfuel s0 w_init) as [[[status unf] out]|e0|x]; [|reflexivity|reflexivity].
      destruct (archive_wrap CHUNK CIPHERBUF BLOCK LIMIT pubk dh kdf wenc wtag ksf tagf (mk_cfg c) ct cm (w_out out)) as [b|e0|x]; reflexivity. }
    destruct e, cmp.
    - destruct (fs_open CHUNK TAG (ksf k n) (Cursor rest) 0) as [es [v|er|x]]; [apply Hrun|reflexivity|reflexivity].
    - destruct (fs_open CHUNK TAG (ksf k n) (Cursor rest) 0) as [es [v|er|x]]; [apply Hrun|reflexivity|reflexivity].
    - apply Hrun.
    - apply Hrun.
  Qed.
End FromBytes.
