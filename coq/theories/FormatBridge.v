(* FormatBridge.v — the FORMAT.md decoder of Format.v against the hand-written writer model
   (Writer.v, EncLayer.enc_format with the AES-GCM instance of InstGcm.v), and concrete
   instances used as non-vacuity examples by props/C06.v. *)
From MLA Require Import Limit.
From Coq Require Import String.
From MLA Require Import Base Stream Blocks Writer EncLayer InstGcm Format FormatProofs.
From MLA.Concrete Require Aes Sha256 X25519 HexS.
From MLAGen Require Src.
Open Scope N_scope.

(* what the model writer hands to the top layer, for any sequence of calls (production
   constants of gen/Src.v: block tags and the bincode limit) *)
Definition model_writer_out (FNMAX : N) (ops : list (wop)) : bytes :=
  w_out (fst (wrun (LIM := Src.BINCODE_MAX_DESERIALIZE_prod) FNMAX Src.BT_FileStart Src.BT_FileContent Src.BT_EndOfArchiveData Src.BT_EndOfFile
                   Sha256.sha256 (fun f => f) w_init ops)).

(* layer-less archives of the model writer: header of lib.rs (magic, version, layers 0, None) *)
Definition model_archive_plain (FNMAX : N) (ops : list wop) : bytes :=
  Src.MLA_MAGIC ++ le_bytes 4 Src.MLA_FORMAT_VERSION_prod ++ [0; 0] ++ model_writer_out FNMAX ops.

(* the independently written decoder goes through the model writer's header to its block
   stream, whatever the calls were (partial: that [decode_content] then yields exactly the
   files written is shown on instances below and, on the real writer, by the harness) *)
Theorem format_decode_writer_partial CHUNK BLOCK dhkey_of aopen unbr FNMAX ops cands :
  Format.decode CHUNK BLOCK Sha256.sha256 dhkey_of aopen unbr (model_archive_plain FNMAX ops) cands
  = decode_content Sha256.sha256 (model_writer_out FNMAX ops).
Proof.
  unfold model_archive_plain.
  change (Src.MLA_MAGIC ++ le_bytes 4 Src.MLA_FORMAT_VERSION_prod ++ [0; 0] ++ model_writer_out FNMAX ops)
    with (ser_header (mkH 0 None) ++ model_writer_out FNMAX ops).
  unfold Format.decode.
  rewrite parse_header_ser by (split; [cbn [h_layers]; lia | reflexivity]).
  reflexivity.
Qed.

(* ---------- instances ---------- *)
Definition ex_data (n salt : N) : bytes := map (fun i => (N.of_nat i * 7 + salt) mod 256) (seq 0 (N.to_nat n)).
Definition ex_a : bytes := HexS.bytes_of_string "a"%string.
Definition ex_b : bytes := HexS.bytes_of_string "dir/b.txt"%string.
Definition ex_c : bytes := HexS.bytes_of_string "c"%string.
Definition ex_files : list (bytes * bytes) := [(ex_a, ex_data 100 1); (ex_b, []); (ex_c, ex_data 70 9)].
Definition ex_expected (files : list (bytes * bytes)) : list (bytes * bytes * bytes) :=
  map (fun f => (fst f, snd f, Sha256.sha256 (snd f))) files.
Definition ex_kd : bytes := ex_data 32 200.
Definition ex_nonce8 : bytes := ex_data 8 77.
Definition no_brotli (_ : bytes) : option bytes := None.

(* the canonical encoder, scaled chunk size 64: 3 recipients' worth of real X25519 is slow, so one
   recipient (RFC 7748 6.1: ephemeral = Alice, recipient = Bob) *)
Definition ex_archive_enc : bytes :=
  encode_v1 64 ex_files true X25519.alice_sk [X25519.bob_pk] ex_kd ex_nonce8.
Definition ex_archive_plain : bytes := encode_v1 64 ex_files false [] [] [] [].

(* interleaved calls on the model writer: two files open at once, pieces alternate *)
Definition ex_ops : list wop :=
  [OStart ex_a; OStart ex_b; OAppend 0 60 (ex_data 60 1); OAppend 1 30 (ex_data 30 5);
   OAppend 0 40 (ex_data 40 2); OEnd 0; OAdd ex_c 70 (ex_data 70 9); OAppend 1 5 (ex_data 5 6); OEnd 1; OFinalize].
Definition ex_ops_files : list (bytes * bytes) :=
  [(ex_a, ex_data 60 1 ++ ex_data 40 2); (ex_b, ex_data 30 5 ++ ex_data 5 6); (ex_c, ex_data 70 9)].

(* the model writer's encrypted archive: header with the key wrapped for one recipient whose
   dhkey is [dk], then enc_format over AES-256-GCM *)
Definition ex_dk : bytes := hkdf_info X25519.alice_bob_shared.
Definition model_archive_enc (ops : list wop) : bytes :=
  let body := model_writer_out 48 ops in
  let rk := Aes.aes256_expand ex_kd in
  let tab := gcm_tab rk ex_nonce8 64 (N.to_nat (len body / 64 + 2)) in
  ser_header (mkH 1 (Some (mkEH X25519.alice_pk (wrap aseal_gcm ex_kd [ex_dk]) ex_nonce8)))
  ++ enc_format 64 (gcm_ks tab) (gcm_tagc rk ex_nonce8) body.
