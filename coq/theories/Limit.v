(* Limit.v — BINCODE_MAX_DESERIALIZE (mla/src/lib.rs:377) as a PARAMETER of the model.
   The writer's footer (ArchiveFooter::serialize_into), the reader's footer
   (ArchiveFooter::deserialize_from) and the compression layer's SizesInfo
   (CompressionLayerWriter::finalize) are (de)serialised by bincode under
   `.with_limit(BINCODE_MAX_DESERIALIZE)`.  The limit enters Writer.w_finalize_with,
   Reader.read_footer and CompLayer.cw_finalize as the implicit section parameter
   [LIM : Limit]: every theorem of a section opened with [Context {LIM : Limit}] is
   quantified over it.  [Limit] unfolds to [N] (a definitional class), so a section that
   already has the limit as a variable [LIMIT : N] passes it as [(LIM := LIMIT)].
   NO global instance is ever declared: a statement that forgets the parameter does not
   elaborate (it cannot silently pick the production value). *)
From Coq Require Import NArith.
Class Limit := lim : N.
