(* Pool.v — the on-demand writer POOL of `mlar extract`, whole-archive (linear) form
   (mlar/src/main.rs: `struct FileWriter`, `impl Write for FileWriter`, FILE_WRITER_POOL_SIZE,
   the pre-pass of `extract`).

   What the code does:
     extract      pre-pass: for every name of the archive (sorted) `create_file(&output_dir, fname)?`
                  — File::create (create / truncate) — the handle `_file` is DROPPED at the end of
                  the iteration, only the literal path is kept in a FileWriter; then
                  `linear_extract(&mut mla, &mut export)`.
     linear_extract  per FileContent block of a chosen file: `io::copy(take(length), writer)`:
                  reads of at most 8 KiB, each non-empty read is handed to `writer.write` (through
                  write_all; FileWriter::write returns what File::write returns); an EMPTY block makes
                  no `write` call at all (nothing is opened for it).
     FileWriter::write  cache = LruCache<PathBuf, File> of capacity FILE_WRITER_POOL_SIZE = 1000, key =
                  the literal extracted path:
                    if !cache.contains(path)      (no promotion)
                       file = OpenOptions::new().append(true).open(path)?   O_WRONLY|O_APPEND, no O_CREAT,
                                                                            no O_TRUNC, links followed
                       cache.put(path, file)       most recently used; when the cache is full the LEAST
                                                   recently used handle is dropped (closed) first
                    file = cache.get_mut(path)     promotes to most recently used
                    file.write(buf)                O_APPEND: at the end of the file the handle refers to

   Model: a handle is the PHYSICAL path of the regular file it was opened on (no operation of the
   extraction removes or renames a file, so the physical path identifies the inode for the whole
   run) and, for the refuted variants only, a file offset; the pool is the list of (literal path,
   handle), most recently used first.  Definitions only; proofs in PoolProofs.v.
   NOT modelled: a failing or partial File::write (disk full) — C12_linear_any_sink covers partial
   accepts of an abstract sink; the Mutex (one thread). *)
From MLA Require Import Base Path.
Open Scope N_scope.

(* the same file system as far as any operation can tell: the association lists may differ
   (two appends vs one append of the concatenation), every lookup agrees *)
Definition same_fs (f g : fs) : Prop := forall p, lookup f p = lookup g p.

(* ------------------------------------------------------------------ *)
(** * handles *)

(* h_off = None: O_APPEND (every write goes to the end of the file);
   h_off = Some o: a plain write handle positioned at o (only the refuted variants open such) *)
Record handle := mkH { h_at : path; h_off : option N }.

(* pwrite at offset `off` (a gap is filled with zeros, as a sparse file reads) *)
Definition overwrite (old : bytes) (off : N) (data : bytes) : bytes :=
  let n := N.to_nat off in
  firstn n old ++ repeat 0 (n - length old) ++ data ++ skipn (n + length data) old.

(* File::write(buf) through a handle, the whole buffer accepted *)
Definition handle_write (f : fs) (h : handle) (data : bytes) : fs * handle :=
  match lookup f (h_at h) with
  | Some (File old) =>
      match h_off h with
      | None => (set f (h_at h) (File (old ++ data)), h)
      | Some off => (set f (h_at h) (File (overwrite old off data)), mkH (h_at h) (Some (off + len data)))
      end
  | _ => (f, h)
  end.

(* how the miss path opens the file.  The code: RAppend.  The other two are the realistic wrong
   versions (`.write(true)`: seeded changes C12-m2 / C16-m3; `.write(true).truncate(true)`). *)
Inductive reopen := RAppend | RWrite | RTruncate.

(* OpenOptions::new()<mode>.open(path): no O_CREAT — the path must resolve (following symbolic
   links, last component included) to an existing regular file *)
Definition pool_open (m : reopen) (f : fs) (p : path) : option (fs * handle) :=
  match canonicalize f p with
  | Some q =>
      match lookup f q with
      | Some (File old) =>
          match m with
          | RAppend => Some (f, mkH q None)
          | RWrite => Some (f, mkH q (Some 0))
          | RTruncate => Some (set f q (File []), mkH q (Some 0))
          end
      | _ => None          (* EISDIR *)
      end
  | None => None           (* ENOENT / ENOTDIR / ELOOP *)
  end.

(* ------------------------------------------------------------------ *)
(** * the LRU pool *)

(* most recently used first; keys are literal paths (PathBuf equality = component-wise here:
   every key is an `extracted_path` built by get_extracted_path from the canonical output_dir) *)
Definition pool := list (path * handle).

(* FILE_WRITER_POOL_SIZE (Tie A: SrcTie.pool_capacity_src) *)
Definition POOL_CAP : nat := N.to_nat 1000.

Fixpoint pool_find (pl : pool) (p : path) : option handle :=
  match pl with
  | [] => None
  | (k, h) :: pl' => if path_eqb k p then Some h else pool_find pl' p
  end.

Fixpoint pool_remove (pl : pool) (p : path) : pool :=
  match pl with
  | [] => []
  | (k, h) :: pl' => if path_eqb k p then pool_remove pl' p else (k, h) :: pool_remove pl' p
  end.

(* LruCache::put of an absent key: when len == cap the least recently used entry (the last of
   the list) is dropped — its File is closed — before the new one is inserted *)
Definition pool_evict (cap : nat) (pl : pool) : pool :=
  if (length pl <? cap)%nat then pl else removelast pl.

(* FileWriter::write(buf).  None = the io error of the re-open (`?`): nothing was written *)
Definition pool_write (m : reopen) (cap : nat) (p : path) (data : bytes) (f : fs) (pl : pool)
  : option (fs * pool) :=
  match pool_find pl p with
  | Some h =>                                   (* hit: get_mut promotes *)
      let '(f1, h1) := handle_write f h data in
      Some (f1, (p, h1) :: pool_remove pl p)
  | None =>                                     (* miss: re-open, put (evicting), get_mut *)
      match pool_open m f p with
      | None => None
      | Some (f0, h) =>
          let '(f1, h1) := handle_write f0 h data in
          Some (f1, (p, h1) :: pool_evict cap pl)
      end
  end.

(* a sequence of `write` calls (literal path, buffer), any interleaving; stops at the first error *)
Fixpoint pool_run (m : reopen) (cap : nat) (ws : list (path * bytes)) (f : fs) (pl : pool)
  : fs * pool * bool :=
  match ws with
  | [] => (f, pl, true)
  | (p, d) :: ws' =>
      match pool_write m cap p d f pl with
      | Some (f1, pl1) => pool_run m cap ws' f1 pl1
      | None => (f, pl, false)
      end
  end.

(* the same calls with NO pool: every write re-opens the literal path in append mode
   (Path.append_path) *)
Fixpoint direct_run (ws : list (path * bytes)) (f : fs) : fs * bool :=
  match ws with
  | [] => (f, true)
  | (p, d) :: ws' =>
      match append_path f p d with
      | Some (f1, _) => direct_run ws' f1
      | None => (f, false)
      end
  end.

(* per-file concatenation: the buffers written to the literal paths that resolve to q, in order *)
Definition written_to (f : fs) (q : path) (ws : list (path * bytes)) : bytes :=
  concat (map snd (filter (fun w => match canonicalize f (fst w) with
                                    | Some q' => path_eqb q' q
                                    | None => false
                                    end) ws)).

(* ------------------------------------------------------------------ *)
(** * phase 2 of the linear form through the pool *)

(* `cut d` = the buffers io::copy hands to `write` for a block with data d: any cutting
   (8 KiB reads, shorter at the edges of the BufReader) — the theorems quantify over every cut
   with concat (cut d) = d; an empty block is cut into nothing (no `write` call) *)
Fixpoint append_blocks_pool (m : reopen) (cap : nat) (cut : bytes -> list bytes)
    (ex : list (bytes * path)) (blocks : list (bytes * bytes)) (f : fs) (pl : pool)
  : fs * pool * bool :=
  match blocks with
  | [] => (f, pl, true)
  | (n, data) :: blocks' =>
      match find_export ex n with
      | None => append_blocks_pool m cap cut ex blocks' f pl     (* io::copy into io::sink() *)
      | Some lit =>
          match pool_run m cap (map (fun c => (lit, c)) (cut data)) f pl with
          | (f1, pl1, true) => append_blocks_pool m cap cut ex blocks' f1 pl1
          | (f1, pl1, false) => (f1, pl1, false)
          end
      end
  end.

(* the whole-archive form as the code runs it: pre-pass (create_file for EVERY name, also those
   that never receive a byte), then the blocks through a pool that starts empty *)
Definition extract_linear_pool (m : reopen) (cap : nat) (cut : bytes -> list bytes)
    (out : path) (names : list bytes) (blocks : list (bytes * bytes)) (f : fs) : fs * bool :=
  match create_all out names f with
  | (f1, ex, true) =>
      match append_blocks_pool m cap cut ex blocks f1 [] with
      | (f2, _, b) => (f2, b)
      end
  | (f1, _, false) => (f1, false)
  end.

(* the cut io::copy makes when every read is full: pieces of at most k bytes, none empty *)
Fixpoint chunks_fuel (fuel k : nat) (d : bytes) : list bytes :=
  match fuel with
  | O => []
  | S fuel' =>
      match d with
      | [] => []
      | _ => firstn k d :: chunks_fuel fuel' k (skipn k d)
      end
  end.
Definition COPY_BUF : nat := N.to_nat 8192.   (* std::io::DEFAULT_BUF_SIZE *)
Definition copy_cut (d : bytes) : list bytes := chunks_fuel (length d) COPY_BUF d.

(* the trivial cut: one `write` per non-empty block *)
Definition whole_cut (d : bytes) : list bytes := match d with [] => [] | _ => [d] end.

(* the greatest number of handles open at any moment of a run *)
Fixpoint pool_peak (m : reopen) (cap : nat) (ws : list (path * bytes)) (f : fs) (pl : pool) : nat :=
  match ws with
  | [] => length pl
  | (p, d) :: ws' =>
      match pool_write m cap p d f pl with
      | Some (f1, pl1) => Nat.max (length pl) (pool_peak m cap ws' f1 pl1)
      | None => length pl
      end
  end.
