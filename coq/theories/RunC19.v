(* RunC19.v — Tie B entry points for C19 (tools/keys/c19_job.py): byte strings in (as hex
   literals), one printable string out. *)
From MLA Require Import Base Keys Derive.
From MLA.Concrete Require Import HexS Sha512 Hkdf ChaCha20 X25519.
From Coq Require Import String.
Open Scope N_scope.

Definition show_site (s : N) : string :=
  if s =? SITE_MAIN_867 then "crash:867" else if s =? SITE_MAIN_873 then "crash:873"
  else if s =? SITE_MAIN_880 then "crash:880" else if s =? SITE_MAIN_884 then "crash:884"
  else if s =? SITE_MAIN_816 then "crash:816" else "crash:other".

Definition show_files (r : res (bytes * bytes)) : string :=
  match r with
  | Ok (priv, pub) => "ok:" ++ to_hex priv ++ ":" ++ to_hex pub
  | Err _ => "err"
  | Crash s => show_site s
  end.

(* `mlar keygen --seed S out`: hex of S's UTF-8 octets -> private file, public file *)
Definition run_keygen (seed_hex : string) : string :=
  show_files (keygen_seed_files_c (hex_bytes seed_hex)).

(* `mlar keyderive IN out --path=P1 ...`: hex of the input file, hex of each path *)
Definition run_keyderive (input_hex : string) (paths_hex : list string) : string :=
  show_files (keyderive_files_c (hex_bytes input_hex) (map hex_bytes paths_hex)).

(* the README algorithm on the stored octets of the parent: the resulting (clamped) private key *)
Definition run_derive_doc (stored_hex : string) (paths_hex : list string) : string :=
  to_hex (derive_doc_c 32 (hex_bytes stored_hex) (map hex_bytes paths_hex)).
Definition run_keygen_doc (seed_hex : string) : string :=
  to_hex (keygen_doc_c (hex_bytes seed_hex)).
