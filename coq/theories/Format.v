(* Format.v — MLA file format v1 AS /repo/FORMAT.md DESCRIBES IT: an executable decoder and a
   canonical encoder, written from the document alone.  It imports neither Writer.v nor
   EncLayer.v / Reader.v (the hand-written models of the Rust code); from Blocks.v it uses only
   [utf8_valid] (RFC 3629, "UTF-8 encoded filename") and the abbreviations le64 / le32.

   Sections of FORMAT.md and where they are here:
     "MLA Header"                  parse_header / ser_header   (bincode fixint: u8 bitfield, u8
                                   Option tag, raw arrays, LE64 Vec length)
     "Encryption layer"            unwrap (ECIES: D-H, HKDF, AES-GCM "ECIES NONCE0"),
                                   dec_chunks (DataBlock = 128 KiB ciphertext + 16-byte tag,
                                   nonce = nonce . u32 big endian(i), i from 0)
     "Compression"                 decompress (SizesInfo footer; brotli itself is an oracle)
     "Actual archive files data"   parse_footer, scan (typed blocks, EndOfArchiveData, index)
   The order in which [decode] peels the layers is FORMAT.md's list "1. Encryption layer
   2. Compression layer 3. Actual archive files data": [layer_order]. *)
From MLA Require Import Base.
From MLA Require Blocks.
From MLA.Concrete Require Import HexS.
Open Scope N_scope.

(* ---------- constants of the document ---------- *)
Definition MAGIC : bytes := bytes_of_string "MLA".
Definition VERSION : N := 1.
Definition L_ENCRYPT : N := 1.                       (* 0b0000_0001 *)
Definition L_COMPRESS : N := 2.                      (* 0b0000_0010 *)
Definition KDF_INFO : bytes := bytes_of_string "KEY DERIVATION".
Definition WRAP_NONCE : bytes := bytes_of_string "ECIES NONCE0".
Definition TAGLEN : N := 16.                         (* tag: [u8; 16] *)
Definition KEYLEN : N := 32.                         (* key: [u8; 32] *)
Definition NONCELEN : N := 8.                        (* nonce: [u8; 8] *)
Definition CHUNK_v1 : N := 128 * 1024.              (* encrypted_content: [u8; 128 * 1024] *)
Definition BLOCK_v1 : N := 4 * 1024 * 1024.          (* uncompressed data size of a block *)
Definition BT_START : N := 0.                        (* FileStart = 0x00 *)
Definition BT_CONTENT : N := 1.                      (* FileContent = 0x01 *)
Definition BT_END : N := 254.                        (* EndOfArchiveData = 0xFE *)
Definition BT_EOF : N := 255.                        (* EndOfFile = 0xFF *)
(* outermost first *)
Definition layer_order : list N := [L_ENCRYPT; L_COMPRESS].

Definition le64 := Blocks.le64.
Definition le32 := Blocks.le32.
Definition has_bit (layers bit : N) : bool := negb (N.land layers bit =? 0).

(* ---------- reading fixed-size fields ---------- *)
Definition take (n : N) (b : bytes) : option (bytes * bytes) :=
  if len b <? n then None else Some (takeN n b, dropN n b).
Definition take_le (w : N) (b : bytes) : option (N * bytes) :=
  match take w b with Some (x, r) => Some (le_val x, r) | None => None end.
(* the last [w] bytes as a little-endian number, and what precedes them *)
Definition take_last_le (w : N) (b : bytes) : option (bytes * N) :=
  if len b <? w then None else Some (takeN (len b - w) b, le_val (dropN (len b - w) b)).

Fixpoint take_items {A} (n : nat) (item : bytes -> option (A * bytes)) (b : bytes) : option (list A * bytes) :=
  match n with
  | O => Some ([], b)
  | S n' =>
    match item b with
    | Some (x, r) => match take_items n' item r with Some (xs, r') => Some (x :: xs, r') | None => None end
    | None => None
    end
  end.

(* ---------- MLA header ---------- *)
Record enc_header := mkEH { eh_public : bytes; eh_keys : list (bytes * bytes); eh_nonce : bytes }.
Record header := mkH { h_layers : N; h_enc : option enc_header }.

Definition take_key_and_tag (b : bytes) : option ((bytes * bytes) * bytes) :=
  match take KEYLEN b with
  | Some (k, r) => match take TAGLEN r with Some (t, r') => Some ((k, t), r') | None => None end
  | None => None
  end.

Definition parse_enc_header (b : bytes) : option (enc_header * bytes) :=
  match take 32 b with
  | Some (public, r1) =>
    match take_le 8 r1 with
    | Some (n, r2) =>
      if len r2 <? 48 * n then None else
      match take_items (N.to_nat n) take_key_and_tag r2 with
      | Some (keys, r3) =>
        match take NONCELEN r3 with
        | Some (nonce, r4) => Some (mkEH public keys nonce, r4)
        | None => None
        end
      | None => None
      end
    | None => None
    end
  | None => None
  end.

(* header and the [data] field *)
Definition parse_header (a : bytes) : res (header * bytes) :=
  match take 3 a with
  | Some (m, r0) =>
    if negb (bytes_eqb m MAGIC) then Err EMagic else
    match take_le 4 r0 with
    | Some (v, r1) =>
      if negb (v =? VERSION) then Err EVersion else
      match r1 with
      | layers :: opt :: r2 =>
        if 3 <? layers then Err EDeser else
        if opt =? 0 then
          if has_bit layers L_ENCRYPT then Err EDeser else Ok (mkH layers None, r2)
        else if opt =? 1 then
          match parse_enc_header r2 with
          | Some (eh, r3) => Ok (mkH layers (Some eh), r3)
          | None => Err EDeser
          end
        else Err EDeser
      | _ => Err EDeser
      end
    | None => Err EDeser
    end
  | None => Err EMagic
  end.

Definition ser_enc_header (eh : enc_header) : bytes :=
  eh_public eh ++ le64 (len (eh_keys eh)) ++ concat (map (fun kt => fst kt ++ snd kt) (eh_keys eh)) ++ eh_nonce eh.
Definition ser_header (h : header) : bytes :=
  MAGIC ++ le32 VERSION ++ [h_layers h] ++
  match h_enc h with None => [0] | Some eh => 1 :: ser_enc_header eh end.

(* ---------- archive footer (file index) ---------- *)
Record finfo := mkFI { fi_offsets : list N; fi_size : N; fi_eof : N }.

Definition take_entry (b : bytes) : option ((bytes * finfo) * bytes) :=
  match take_le 8 b with
  | Some (nl, r1) =>
    match take nl r1 with
    | Some (name, r2) =>
      if negb (Blocks.utf8_valid name) then None else
      match take_le 8 r2 with
      | Some (no, r3) =>
        if len r3 <? 8 * no then None else
        match take_items (N.to_nat no) (take_le 8) r3 with
        | Some (offs, r4) =>
          match take_le 8 r4 with
          | Some (size, r5) =>
            match take_le 8 r5 with
            | Some (eof, r6) => Some ((name, mkFI offs size eof), r6)
            | None => None
            end
          | None => None
          end
        | None => None
        end
      | None => None
      end
    | None => None
    end
  | None => None
  end.

(* the serialized ArchiveFooter must be exactly archive_footer_length bytes *)
Definition parse_footer (b : bytes) : option (list (bytes * finfo)) :=
  match take_le 8 b with
  | Some (n, r) =>
    if len r <? 32 * n then None else
    match take_items (N.to_nat n) take_entry r with
    | Some (es, []) => Some es
    | _ => None
    end
  | None => None
  end.

Definition ser_finfo (f : finfo) : bytes :=
  le64 (len (fi_offsets f)) ++ concat (map le64 (fi_offsets f)) ++ le64 (fi_size f) ++ le64 (fi_eof f).
Definition ser_entry (e : bytes * finfo) : bytes := le64 (len (fst e)) ++ fst e ++ ser_finfo (snd e).
Definition ser_footer (m : list (bytes * finfo)) : bytes :=
  let b := le64 (len m) ++ concat (map ser_entry m) in b ++ le32 (len b).

Fixpoint lookup_name (m : list (bytes * finfo)) (name : bytes) : option finfo :=
  match m with
  | [] => None
  | (k, v) :: r => if bytes_eqb k name then Some v else lookup_name r name
  end.

(* ---------- the block stream ---------- *)
Record fstate := mkF {
  f_id : N; f_name : bytes; f_content : bytes; f_hash : option bytes;
  f_runs : list N;        (* offsets of the continuous chunks of blocks of this file *)
  f_eof : N               (* offset of its EndOfFile block *)
}.

Fixpoint has_id (fs : list fstate) (id : N) : bool :=
  match fs with [] => false | f :: r => (f_id f =? id) || has_id r id end.
Fixpoint upd (fs : list fstate) (id : N) (g : fstate -> res fstate) : res (list fstate) :=
  match fs with
  | [] => Err EState
  | f :: r => if f_id f =? id then do f' <- g f; Ok (f' :: r) else do r' <- upd r id g; Ok (f :: r')
  end.
Definition mark (pos : N) (last : option N) (id : N) (f : fstate) : fstate :=
  match last with
  | Some l => if l =? id then f else mkF (f_id f) (f_name f) (f_content f) (f_hash f) (f_runs f ++ [pos]) (f_eof f)
  | None => mkF (f_id f) (f_name f) (f_content f) (f_hash f) (f_runs f ++ [pos]) (f_eof f)
  end.

(* read the blocks of [rest], which starts at offset [pos] of file_data; stops at
   EndOfArchiveData, which must be the last byte of file_data *)
Fixpoint scan (fuel : nat) (pos : N) (rest : bytes) (last : option N) (fs : list fstate)
  : res (list fstate) :=
  match fuel with
  | O => Err EFuel
  | S fuel' =>
    match rest with
    | [] => Err EEos                                  (* no EndOfArchiveData *)
    | t :: r0 =>
      if t =? BT_END then (match r0 with [] => Ok fs | _ => Err EDeser end)
      else
        match take_le 8 r0 with
        | None => Err EUnexpectedEof
        | Some (id, r1) =>
          if t =? BT_START then
            match take_le 8 r1 with
            | Some (l, r2) =>
              match take l r2 with
              | Some (name, r3) =>
                if negb (Blocks.utf8_valid name) then Err EUtf8 else
                if has_id fs id then Err EState else
                scan fuel' (pos + 17 + l) r3 (Some id) (fs ++ [mkF id name [] None [pos] 0])
              | None => Err EUnexpectedEof
              end
            | None => Err EUnexpectedEof
            end
          else if t =? BT_CONTENT then
            match take_le 8 r1 with
            | Some (l, r2) =>
              match take l r2 with
              | Some (data, r3) =>
                do fs' <- upd fs id (fun f =>
                  match f_hash f with
                  | Some _ => Err EState
                  | None => let f1 := mark pos last id f in
                            Ok (mkF (f_id f1) (f_name f1) (f_content f1 ++ data) None (f_runs f1) (f_eof f1))
                  end);
                scan fuel' (pos + 17 + l) r3 (Some id) fs'
              | None => Err EUnexpectedEof
              end
            | None => Err EUnexpectedEof
            end
          else if t =? BT_EOF then
            match take 32 r1 with
            | Some (h, r2) =>
              do fs' <- upd fs id (fun f =>
                match f_hash f with
                | Some _ => Err EState
                | None => let f1 := mark pos last id f in
                          Ok (mkF (f_id f1) (f_name f1) (f_content f1) (Some h) (f_runs f1) pos)
                end);
              scan fuel' (pos + 41) r2 (Some id) fs'
            | None => Err EUnexpectedEof
            end
          else Err EBlockType
        end
    end
  end.

Definition list_eqbN (a b : list N) : bool := bytes_eqb a b.

Section Fmt.
  Variables CHUNK BLOCK : N.
  Variable H : bytes -> bytes.                           (* SHA-256 *)
  (* dhkey = HKDF(SHA-256, D-H(cpriv, apub), "KEY DERIVATION"), from a candidate and apub *)
  Variable dhkey_of : bytes -> bytes -> bytes.
  (* AES-256-GCM with associated_data = "": key, 12-byte nonce *)
  Variable aopen : bytes -> bytes -> bytes -> bytes -> option bytes.     (* ct, tag *)
  Variable aseal : bytes -> bytes -> bytes -> bytes * bytes.
  Variable unbr : bytes -> option bytes.                 (* brotli decompression of one block *)

  (* a finished file of the block stream against its footer entry *)
  Definition check_file (m : list (bytes * finfo)) (f : fstate) : res (bytes * bytes * bytes) :=
    match f_hash f with
    | None => Err EState                                  (* no EndOfFile *)
    | Some h =>
      if negb (bytes_eqb (H (f_content f)) h) then Err EInval else
      match lookup_name m (f_name f) with
      | None => Err EMissingMeta
      | Some fi =>
        if (fi_size fi =? len (f_content f)) && (fi_eof fi =? f_eof f) && list_eqbN (fi_offsets fi) (f_runs f)
        then Ok (f_name f, f_content f, h) else Err EMissingMeta
      end
    end.
  Fixpoint check_files (m : list (bytes * finfo)) (fs : list fstate) : res (list (bytes * bytes * bytes)) :=
    match fs with
    | [] => Ok []
    | f :: r => do x <- check_file m f; do xs <- check_files m r; Ok (x :: xs)
    end.

  (* "Actual archive files data" *)
  Definition decode_content (data : bytes) : res (list (bytes * bytes * bytes)) :=
    match take_last_le 4 data with
    | None => Err EDeser
    | Some (d1, fl) =>
      if len d1 <? fl then Err EDeser else
      let file_data := takeN (len d1 - fl) d1 in
      match parse_footer (dropN (len d1 - fl) d1) with
      | None => Err EDeser
      | Some m =>
        do fs <- scan (S (length file_data)) 0 file_data None [];
        if negb (len fs =? len m) then Err EMissingMeta else check_files m fs
      end
    end.

  (* ---------- "Compression" ---------- *)
  Definition parse_sizes (b : bytes) : option (list N * N) :=
    match take_le 8 b with
    | Some (n, r) =>
      if len r <? 4 * n then None else
      match take_items (N.to_nat n) (take_le 4) r with
      | Some (sizes, r') =>
        match take_le 4 r' with Some (last, []) => Some (sizes, last) | _ => None end
      | None => None
      end
    | None => None
    end.
  (* compressed_block_i of size compressed_sizes[i], each decompressing to BLOCK bytes except
     the last (last_block_size) *)
  Fixpoint dec_blocks (sizes : list N) (last : N) (cdata : bytes) : res bytes :=
    match sizes with
    | [] => match cdata with [] => Ok [] | _ => Err EDeser end
    | s :: rest =>
      match take s cdata with
      | None => Err EDeser
      | Some (blk, r) =>
        match unbr blk with
        | None => Err EIo
        | Some plain =>
          let want := match rest with [] => last | _ => BLOCK end in
          if negb (len plain =? want) then Err EDeser else
          do more <- dec_blocks rest last r; Ok (plain ++ more)
        end
      end
    end.
  Definition decompress (data : bytes) : res bytes :=
    match take_last_le 4 data with
    | None => Err EDeser
    | Some (d1, l) =>
      if len d1 <? l then Err EDeser else
      match parse_sizes (dropN (len d1 - l) d1) with
      | None => Err EDeser
      | Some (sizes, last) => dec_blocks sizes last (takeN (len d1 - l) d1)
      end
    end.

  (* ---------- "Encryption layer" ---------- *)
  Fixpoint first_some {A B} (f : A -> option B) (l : list A) : option B :=
    match l with [] => None | x :: r => match f x with Some y => Some y | None => first_some f r end end.
  (* for each possible recipient: decrypt key_i, compare the tag with tag_i *)
  Definition unwrap_with (dhkey : bytes) (keys : list (bytes * bytes)) : option bytes :=
    first_some (fun kt => aopen dhkey WRAP_NONCE (fst kt) (snd kt)) keys.
  Definition unwrap (cands : list bytes) (eh : enc_header) : option bytes :=
    first_some (fun c => unwrap_with (dhkey_of c (eh_public eh)) (eh_keys eh)) cands.

  Definition data_nonce (nonce8 : bytes) (i : N) : bytes := nonce8 ++ be_bytes 4 i.

  (* data is a contiguous list of DataBlocks of CHUNK + 16 bytes, the last one possibly shorter *)
  Fixpoint split_blocks (n : nat) (sz : N) (data : bytes) : list bytes :=
    match n with O => [] | S n' => takeN sz data :: split_blocks n' sz (dropN sz data) end.
  Definition data_blocks (data : bytes) : list bytes :=
    split_blocks (N.to_nat ((len data + (CHUNK + TAGLEN) - 1) / (CHUNK + TAGLEN))) (CHUNK + TAGLEN) data.
  Fixpoint dec_chunks (kd nonce8 : bytes) (i : N) (blks : list bytes) : res bytes :=
    match blks with
    | [] => Ok []
    | blk :: rest =>
      if len blk <? TAGLEN then Err EWrongTag else
      if 2 ^ 32 <=? i then Err EInval else
      match aopen kd (data_nonce nonce8 i) (takeN (len blk - TAGLEN) blk) (dropN (len blk - TAGLEN) blk) with
      | None => Err EWrongTag
      | Some msg => do more <- dec_chunks kd nonce8 (i + 1) rest; Ok (msg ++ more)
      end
    end.
  Definition decrypt (cands : list bytes) (eh : enc_header) (data : bytes) : res bytes :=
    match unwrap cands eh with
    | None => Err EKey
    | Some kd => dec_chunks kd (eh_nonce eh) 0 (data_blocks data)
    end.

  (* ---------- the whole archive ---------- *)
  Definition decode (archive : bytes) (cands : list bytes) : res (list (bytes * bytes * bytes)) :=
    do hd <- parse_header archive;
    let '(h, data) := hd in
    do d1 <- (if has_bit (h_layers h) L_ENCRYPT then
                match h_enc h with Some eh => decrypt cands eh data | None => Err EDeser end
              else Ok data);
    do d2 <- (if has_bit (h_layers h) L_COMPRESS then decompress d1 else Ok d1);
    decode_content d2.

  (* ---------- canonical encoder (no compression) ---------- *)
  (* files one after the other, ids 0, 1, ...: FileStart, one FileContent (when the content is
     not empty), EndOfFile; then EndOfArchiveData and the footer in the order of the files *)
  Definition file_blocks (id : N) (f : bytes * bytes) : bytes :=
    let '(name, content) := f in
    [BT_START] ++ le64 id ++ le64 (len name) ++ name ++
    (match content with [] => [] | _ => [BT_CONTENT] ++ le64 id ++ le64 (len content) ++ content end) ++
    [BT_EOF] ++ le64 id ++ H content.
  Definition eof_rel (f : bytes * bytes) : N :=
    17 + len (fst f) + (match snd f with [] => 0 | _ => 17 + len (snd f) end).
  Fixpoint enc_files (id pos : N) (files : list (bytes * bytes)) : bytes * list (bytes * finfo) :=
    match files with
    | [] => ([], [])
    | f :: r =>
      let b := file_blocks id f in
      let '(bs, m) := enc_files (id + 1) (pos + len b) r in
      (b ++ bs, (fst f, mkFI [pos] (len (snd f)) (pos + eof_rel f)) :: m)
    end.
  Definition encode_content (files : list (bytes * bytes)) : bytes :=
    let '(bs, m) := enc_files 0 0 files in bs ++ [BT_END] ++ ser_footer m.

  Fixpoint enc_chunks (n : nat) (kd nonce8 : bytes) (i : N) (plain : bytes) : bytes :=
    match n with
    | O => []
    | S n' =>
      let '(ct, tag) := aseal kd (data_nonce nonce8 i) (takeN CHUNK plain) in
      ct ++ tag ++ enc_chunks n' kd nonce8 (i + 1) (dropN CHUNK plain)
    end.
  Definition encrypt (kd nonce8 plain : bytes) : bytes :=
    enc_chunks (N.to_nat ((len plain + CHUNK - 1) / CHUNK)) kd nonce8 0 plain.

  (* recipients are given by their dhkey (= dhkey_of applied on the sender's side) *)
  Definition wrap (kd : bytes) (dhkeys : list bytes) : list (bytes * bytes) :=
    map (fun dk => aseal dk WRAP_NONCE kd) dhkeys.

  Definition encode_plain (files : list (bytes * bytes)) : bytes :=
    ser_header (mkH 0 None) ++ encode_content files.
  Definition encode_enc (files : list (bytes * bytes)) (apub : bytes) (dhkeys : list bytes) (kd nonce8 : bytes) : bytes :=
    ser_header (mkH L_ENCRYPT (Some (mkEH apub (wrap kd dhkeys) nonce8)))
    ++ encrypt kd nonce8 (encode_content files).
End Fmt.

(* ---------- the concrete primitives ---------- *)
From MLA.Concrete Require Aes Ghash GcmSpec Sha256 Hmac Hkdf X25519.

Definition hkdf_info (shared : bytes) : bytes := Hkdf.hkdf_sha256 None shared KDF_INFO KEYLEN.
Definition dhkey_x25519 (cpriv apub : bytes) : bytes := hkdf_info (X25519.x25519 cpriv apub).
(* oracle mode for X25519: the candidate IS the shared secret D-H(cpriv, apub) *)
Definition dhkey_shared (shared _apub : bytes) : bytes := hkdf_info shared.
Definition aopen_gcm (key nonce ct tag : bytes) : option bytes := GcmSpec.gcm_decrypt key nonce [] ct tag.
Definition aseal_gcm (key nonce pt : bytes) : bytes * bytes := GcmSpec.gcm_encrypt key nonce [] pt.

Definition decode_v1 (CHUNK BLOCK : N) (unbr : bytes -> option bytes) (archive : bytes) (privs : list bytes) :=
  decode CHUNK BLOCK Sha256.sha256 dhkey_x25519 aopen_gcm unbr archive privs.
Definition decode_v1_dh (CHUNK BLOCK : N) (unbr : bytes -> option bytes) (archive : bytes) (shared : list bytes) :=
  decode CHUNK BLOCK Sha256.sha256 dhkey_shared aopen_gcm unbr archive shared.

(* encoder with the concrete primitives: ephemeral scalar, recipients' public keys *)
Definition encode_v1 (CHUNK : N) (files : list (bytes * bytes)) (encrypted : bool)
           (eph : bytes) (recipients : list bytes) (kd nonce8 : bytes) : bytes :=
  if encrypted then
    encode_enc CHUNK Sha256.sha256 aseal_gcm files (X25519.x25519_base eph)
               (map (fun rpub => dhkey_x25519 eph rpub) recipients) kd nonce8
  else encode_plain Sha256.sha256 files.
