(* InstGcm.v — the encryption layer's cipher parameters instantiated with the concrete
   AES-256-GCM of Concrete/ (SP 800-38D written directly): per-chunk nonce = archive nonce
   (8 bytes) followed by the big-endian 32-bit chunk counter (FORMAT.md; encrypt.rs:36-42). *)
From MLA Require Import Base.
From MLA.Concrete Require Import Aes Ghash GcmSpec.
Open Scope N_scope.

Definition chunk_nonce (nonce8 : bytes) (i : N) : bytes := nonce8 ++ be_bytes 4 i.

(* keystream of chunks 0..n-1, each CHUNK bytes, computed once per archive *)
Definition gcm_tab (rk : list bytes) (nonce8 : bytes) (CHUNK : N) (n : nat) : list bytes :=
  map (fun i => keystream_rk rk (chunk_nonce nonce8 (N.of_nat i)) CHUNK) (seq 0 n).
Definition gcm_ks (tab : list bytes) (i off : N) : N :=
  nth (N.to_nat off) (nth (N.to_nat i) tab []) 0.
Definition gcm_tagc (rk : list bytes) (nonce8 : bytes) (i : N) (ct : bytes) : bytes :=
  gcm_tag_rk rk (chunk_nonce nonce8 i) [] ct.
