(* ReaderAuthRun.v — C03 at the archive level, end to end: the original block stream is what a
   run of successful ArchiveWriter calls (then finalize) produced (as in RoundTrip.v: every
   FNMAX, distinct tags, any 32-byte H, any footer iteration order); the reader runs over ANY
   stream that agrees on it (AgreesOn), e.g. the encryption reader over ARBITRARY inner bytes.

   With HE : len (w_out sf) <= E (the end claimed by the stream is not before the true end):
     auth_open      ropen Ok r        -> r holds the ORIGINAL footer
     auth_list      list_files r      =  exactly the started names, each once
     auth_get_file  get_file Ok       -> the announced size is the original one, and every read
                                         delivers the NEXT original bytes (maybe fewer, maybe none);
                                         read_all returns a PREFIX of the original content
     auth_get_hash  get_hash Ok h     -> h = H (original content)
     auth_absent    names never started are absent
   Without HE (known finding D17): auth_names_sub_partial — every listed name is a substring of
   the original plaintext, and so is every byte string a file read delivers. *)
From MLA Require Import Limit.
From MLA Require Import Base Stream Blocks Writer Reader EncLayer EncAuth EncAuthStream ReaderAuthSim ReaderAuth
  RoundTripBlocks RoundTripFooter RoundTripReader RoundTripWriter RoundTripRun RoundTripGlue RoundTrip.
From Coq Require Import ZifyBool ZifyNat ZifyN Permutation.
Open Scope N_scope.

Section AuthRun.
  Context {LIM : Limit}.
  Variable FNMAX : N.
  Variables T_START T_CONTENT T_EOA T_EOF : N.
  Variable H : bytes -> bytes.
  Variable order : footer -> footer.
  Hypothesis Htags : tags_distinct T_START T_CONTENT T_EOA T_EOF.
  Hypothesis HHlen : forall x, len (H x) = 32.
  Hypothesis Horder : forall f, Permutation (order f) f.

  Notation ser_blocks := (ser_blocks T_START T_CONTENT T_EOA T_EOF).
  Notation wrun := (wrun FNMAX T_START T_CONTENT T_EOA T_EOF H order).
  Notation WInv := (WInv FNMAX T_START T_CONTENT T_EOA T_EOF H).

  Variable ops : list wop.
  Variable sf : wstate.
  Variable rs : list (res N).
  Hypothesis Hrun : wrun w_init (ops ++ [OFinalize]) = (sf, rs).
  Hypothesis Hok : Forall (fun r => is_ok r = true) rs.
  Hypothesis Hutf : forallb op_utf8 ops = true.
  Hypothesis Hlen64 : len (w_out sf) < 2 ^ 64.
  Hypothesis Hfoot32 : len (ser_footer_map (order (w_footer sf))) < 2 ^ 32.

  (* the possibly altered archive, as the archive reader sees it *)
  Variable S : Stream.
  Variable I : st S -> N -> Prop.
  Variable E : N.
  Hypothesis HA : AgreesOn S I (w_out sf) E.

  Notation ropen := (ropen S).
  Notation list_files := (list_files S).
  Notation get_file := (get_file FNMAX T_START T_CONTENT T_EOA T_EOF S).
  Notation get_hash := (get_hash FNMAX T_START T_CONTENT T_EOA T_EOF S).
  Notation bread := (bread FNMAX T_START T_CONTENT T_EOA T_EOF S).
  Notation read_all := (read_all FNMAX T_START T_CONTENT T_EOA T_EOF S).

  (* a reader holding the ORIGINAL footer over a live stream (RoundTrip.RS with I for R) *)
  Definition RSA (r : rstate S) : Prop := RS order sf S I r.

  Lemma setup : exists s bl,
    WInv s bl /\ w_open s = [] /\
    w_out sf = ser_blocks bl ++ [T_EOA] ++ ser_footer (order (w_footer sf)) /\
    w_footer sf = w_footer s /\ names_of bl = started 0 ops /\
    (forall id, concat (datas id bl) = pieces 0 id ops) /\ len (ser_blocks bl) < 2 ^ 64 /\
    Forall (wfb FNMAX) bl /\ ~ In BEnd bl /\ wf_footer (order (w_footer sf)).
  Proof.
    destruct (rt_setup FNMAX _ _ _ _ H order HHlen ops sf rs Hrun Hok Hutf Hlen64 Hfoot32)
      as (s & bl & HI & Ho & Hout & Hf & Hn & Hd & Hl).
    destruct (blocks_wfb _ _ _ _ _ _ _ _ HI Hl) as [Hwf Hne].
    assert (Hwfm : wf_footer (order (w_footer sf))).
    { apply (final_footer_wf _ _ _ _ _ _ _ _ HI Hl Ho). rewrite Hf. apply Horder. }
    exists s, bl. exact (conj HI (conj Ho (conj Hout (conj Hf (conj Hn (conj Hd (conj Hl (conj Hwf (conj Hne Hwfm))))))))).
  Qed.

  (* 1. if the reader opens, it holds the original footer *)
  Theorem auth_open s0 p0 r : len (w_out sf) <= E -> I s0 p0 -> ropen s0 = Ok r -> RSA r /\ I (r_src r) 0.
  Proof.
    intros HE HI0 Hop.
    destruct setup as (s & bl & HI & Ho & Hout & Hf & Hn & Hd & Hl & Hwf & Hne & Hwfm).
    destruct (ropen_orig _ _ _ _ S I (w_out sf) E HA bl _ Hout Hwfm Hfoot32 s0 p0 r HE HI0 Hop) as [Hm H0].
    split; [|exact H0]. split; [exact Hm | exists 0; exact H0].
  Qed.

  (* 2. exactly the started names *)
  Theorem auth_list r : RSA r ->
    Permutation (list_files r) (map fst (started 0 ops)) /\ NoDup (list_files r).
  Proof.
    exact (rt_list FNMAX _ _ _ _ H order HHlen Horder ops sf rs Hrun Hok Hutf Hlen64 Hfoot32 S I r).
  Qed.

  (* 3. content: announced size, every read, read_all *)
  Theorem auth_get_file r name id r' bs sz : RSA r -> In (name, id) (started 0 ops) ->
    get_file r name = (r', Ok (Some (bs, sz))) ->
    RSA r' /\ sz = len (pieces 0 id ops) /\
    exists Inv : bstate S -> bytes -> Prop, Inv bs (pieces 0 id ops) /\
      (forall zf b todo n b' d, Inv b todo -> bread zf b n = (b', Ok d) ->
         exists todo', todo = d ++ todo' /\ Inv b' todo') /\
      (forall sizes zf fuel b todo i acc b' out, Inv b todo ->
         read_all zf fuel b sizes i acc = (b', Ok out) -> exists d, out = acc ++ d /\ prefix d todo).
  Proof.
    intros HRS Hin Hgf.
    destruct setup as (s & bl & HI & Ho & Hout & Hf & Hn & Hd & Hl & Hwf & Hne & Hwfm).
    rewrite <- (started_files FNMAX _ _ _ _ H ops s bl HI Hn) in Hin.
    destruct (rt_lookup FNMAX _ _ _ _ H order Horder sf s bl name id HI Ho Hf Hl Hin)
      as (fi & nm & Hlk & Hoff & Hsz & Hproj & _).
    destruct (get_file_orig FNMAX _ _ _ _ Htags S I (w_out sf) E HA bl _ Hout Hwf Hne Hfoot32 id r name fi nm _ _ r' bs sz
                HRS Hlk Hoff Hproj Hgf) as (HRS' & -> & HRI).
    split; [exact HRS'|]. split; [rewrite Hsz, Hd; reflexivity|].
    exists (RI T_START T_CONTENT T_EOA T_EOF S bl I id). rewrite Hd in HRI. split; [exact HRI|]. split.
    - intros zf b todo n b' d Hb Hbr.
      exact (bread_step_orig FNMAX _ _ _ _ Htags S I (w_out sf) E HA bl _ Hout Hwf Hne Hfoot32 id zf b todo n b' d Hb Hbr).
    - intros sizes zf fuel b todo i acc b' out Hb Hra.
      exact (read_all_prefix FNMAX _ _ _ _ Htags S I (w_out sf) E HA bl _ Hout Hwf Hne Hfoot32 id sizes zf fuel b todo i acc b' out Hb Hra).
  Qed.

  (* in particular: reading a freshly obtained file to the end returns a prefix of what was written *)
  Corollary auth_read_all r name id r' bs sz sizes zf fuel bs' out :
    RSA r -> In (name, id) (started 0 ops) ->
    get_file r name = (r', Ok (Some (bs, sz))) ->
    read_all zf fuel bs sizes 0%nat [] = (bs', Ok out) -> prefix out (pieces 0 id ops).
  Proof.
    intros HRS Hin Hgf Hra.
    destruct (auth_get_file r name id r' bs sz HRS Hin Hgf) as (_ & _ & Inv & H0 & _ & Hall).
    destruct (Hall sizes zf fuel bs _ 0%nat [] bs' out H0 Hra) as (d & -> & Hp). exact Hp.
  Qed.

  (* 4. the stored hash *)
  Theorem auth_get_hash r name id r' h : RSA r -> In (name, id) (started 0 ops) ->
    get_hash r name = (r', Ok (Some h)) -> h = H (pieces 0 id ops) /\ RSA r'.
  Proof.
    intros HRS Hin Hgh.
    destruct setup as (s & bl & HI & Ho & Hout & Hf & Hn & Hd & Hl & Hwf & Hne & Hwfm).
    rewrite <- (started_files FNMAX _ _ _ _ H ops s bl HI Hn) in Hin.
    destruct (rt_lookup FNMAX _ _ _ _ H order Horder sf s bl name id HI Ho Hf Hl Hin)
      as (fi & nm & Hlk & _ & _ & _ & pre & post & Hbl & Heof).
    rewrite Hd in Hbl.
    exact (get_hash_orig FNMAX _ _ _ _ Htags S I (w_out sf) E HA bl _ Hout Hwf Hne Hfoot32 r name fi pre id _ post r' h
             HRS Hlk Hbl Heof Hgh).
  Qed.

  (* 5. names never started are absent; the reader stays usable after any call *)
  Theorem auth_absent r name : RSA r -> ~ In name (map fst (started 0 ops)) ->
    get_file r name = (r, Ok None) /\ get_hash r name = (r, Ok None).
  Proof.
    exact (rt_absent FNMAX _ _ _ _ H order HHlen Horder ops sf rs Hrun Hok Hutf Hlen64 Hfoot32 S I r name).
  Qed.
  Theorem auth_keeps r name : RSA r -> RSA (fst (get_file r name)) /\ RSA (fst (get_hash r name)).
  Proof.
    intros HRS. split.
    - exact (get_file_keeps FNMAX _ _ _ _ S I (w_out sf) E HA _ r name HRS).
    - exact (get_hash_keeps FNMAX _ _ _ _ S I (w_out sf) E HA _ r name HRS).
  Qed.

  (* ---------- WITHOUT the hypothesis on the claimed end (known finding D17) ----------
     PARTIAL with respect to C03: a listed name need not be an original NAME; what is proved
     is that it is a substring of the original plaintext (of the block stream, file contents
     included — "content that looks like a footer"), and likewise every byte string delivered
     by a file read of such a reader.  The full statement is false: ReaderAuthEx.D17_witness. *)
  Theorem auth_names_sub_partial s0 p0 r : I s0 p0 -> ropen s0 = Ok r ->
    (forall x, In x (list_files r) -> Sub x (w_out sf)) /\
    forall name, let '(r', x) := get_file r name in
      forall bs sz, x = Ok (Some (bs, sz)) ->
      forall zf n, let '(bs', y) := bread zf bs n in forall d, y = Ok d -> Sub d (w_out sf).
  Proof.
    intros HI0 Hop. destruct (ropen_sim S I (w_out sf) E HA s0 p0 r HI0 Hop) as [HF H0].
    split.
    - intros x Hx. eapply list_files_sub; eassumption.
    - intros name.
      destruct (get_file_sim S I (w_out sf) E HA FNMAX T_START T_CONTENT T_EOA T_EOF r name (live_of S I _ _ H0))
        as (r' & x & -> & HL & _ & Hx).
      intros bs sz Hxe. destruct (Hx bs sz Hxe) as (fi & o0 & offs & i & nm & p' & _ & _ & _ & _ & -> & HI').
      intros zf n.
      destruct (bread_sub S I (w_out sf) E HA FNMAX T_START T_CONTENT T_EOA T_EOF zf
                  (mkB (r_src r') BReady i 0 (fi_offsets fi)) n (live_of S I _ _ HI')) as (b' & y & -> & _ & Hy).
      exact Hy.
  Qed.
End AuthRun.

(* ---------- the encryption reader instance ---------- *)
Section AuthEnc.
  Context {LIM : Limit}.
  Variable FNMAX : N.
  Variables T_START T_CONTENT T_EOA T_EOF : N.
  Variable H : bytes -> bytes.
  Variable order : footer -> footer.
  Hypothesis Htags : tags_distinct T_START T_CONTENT T_EOA T_EOF.
  Hypothesis HHlen : forall x, len (H x) = 32.
  Hypothesis Horder : forall f, Permutation (order f) f.
  Variable ops : list wop.
  Variable sf : wstate.
  Variable rs : list (res N).
  Hypothesis Hrun : wrun FNMAX T_START T_CONTENT T_EOA T_EOF H order w_init (ops ++ [OFinalize]) = (sf, rs).
  Hypothesis Hok : Forall (fun r => is_ok r = true) rs.
  Hypothesis Hutf : forallb op_utf8 ops = true.
  Hypothesis Hlen64 : len (w_out sf) < 2 ^ 64.
  Hypothesis Hfoot32 : len (ser_footer_map (order (w_footer sf))) < 2 ^ 32.

  Variables CHUNK TAG : N.
  Hypothesis HCHUNK : 0 < CHUNK.
  Variable ks : N -> N -> N.
  Variable tagc : N -> bytes -> bytes.
  Variable Sin : Stream.                   (* the inner layer *)
  Variable w : bytes.                      (* the inner bytes after alteration: ARBITRARY *)
  Variable Rin : st Sin -> N -> Prop.
  Hypothesis HS : Seekable Sin w Rin.
  Hypothesis HNF : ~ Forgery CHUNK TAG ks tagc w (w_out sf).

  Notation Enc := (EncReader CHUNK TAG ks tagc Sin).
  Notation EI := (EncI CHUNK TAG ks tagc Sin w Rin).
  Notation Eend := (enc_end CHUNK TAG w).

  (* C03, archive level, encryption layer over arbitrary altered inner bytes: opening (layer
     initialisation, then footer), listing, and everything read afterwards *)
  Theorem enc_archive_authentic i0 pin s0 q r :
    Rin i0 pin -> len (w_out sf) <= Eend ->
    enc_open CHUNK TAG ks tagc Sin i0 = (s0, Ok q) -> ropen Enc s0 = Ok r ->
    RSA order sf Enc EI r /\
    (Permutation (list_files Enc r) (map fst (started 0 ops)) /\ NoDup (list_files Enc r)).
  Proof.
    intros HR HE Hop Hro.
    pose proof (enc_agrees CHUNK TAG HCHUNK ks tagc Sin w Rin HS (w_out sf) HNF) as HA.
    destruct (enc_open_agrees CHUNK TAG HCHUNK ks tagc Sin w Rin HS i0 pin HR) as (s1 & r1 & He & _ & H1).
    rewrite Hop in He. injection He as <- <-. destruct (H1 q eq_refl) as [_ HI0].
    destruct (auth_open FNMAX _ _ _ _ H order HHlen Horder ops sf rs Hrun Hok Hutf Hlen64 Hfoot32
                Enc EI Eend HA s0 0 r HE HI0 Hro) as [HRS _].
    split; [exact HRS|].
    exact (auth_list FNMAX _ _ _ _ H order HHlen Horder ops sf rs Hrun Hok Hutf Hlen64 Hfoot32 Enc EI r HRS).
  Qed.
End AuthEnc.
