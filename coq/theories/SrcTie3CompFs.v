(* SrcTie3CompFs.v — Tie A, level 1, for the FAIL-SAFE DECOMPRESSOR (work package compT).
   gen/Src3c.v, module Fs (tools/src2v3_comp.py) holds CompressionLayerFailSafeReader::{new, read, read_pass}
   translated statement by statement from /repo/mla/src/layers/compress.rs: the `cache: Vec<u8>` of
   FAIL_SAFE_BUFFER_SIZE bytes with its two offsets as the Rust code has them, the inner read into
   `&mut cache[cache_filled_offset..]`, the four BrotliResult arms, the final match on `ret`.
   This file proves a SIMULATION with CompFailSafe.v (which keeps only cache[..cache_filled_offset]):
   read_pass = fs_pass, read = fs_read, on related states, for every fuel, buffer size and inner stream whose
   reads deliver at most what was asked (std::io::Read's contract; the model's Crash 1024 is the other case).

   Trusted primitive: `dstep` stands for brotli::BrotliDecompressStream on a BrotliState (the translator checks
   that it is called with available_in = the length of the input slice and input_offset = output_offset = 0). *)
From MLA Require Import Limit.
From MLA Require Import Base Stream CompFailSafe.
From MLAGen Require Src3c.
From Coq Require Import ZifyBool ZifyNat ZifyN.
Open Scope N_scope.

Section Tie.
  Context {LIM : Limit}.
  Variables BLOCK FSBUF : N.
  Variable dstate : Type.
  Variable dinit : dstate.
  Variable dstep : dstate -> bytes -> N -> dresult * N * bytes * dstate.
  Variable S : Stream.
  Variables site_index site_panic : N.      (* unreachable sites: any label *)
  Variable pass_fuel : nat.
  Hypothesis Hrd : forall s n s' d, rd S s n = (s', Ok d) -> len d <= n.

  Notation FSR := (Src3c.Fs.CompressionLayerFailSafeReader dstate S).
  Notation FST := (Src3c.Fs.CompressionLayerFailSafeReaderState dstate S).
  Notation g_pass := (Src3c.Fs.read_pass BLOCK FSBUF dstate dinit dstep S 1004 site_index 1053).
  Notation g_read := (Src3c.Fs.fs_read BLOCK FSBUF dstate dinit dstep S 1004 site_index 1053 (Datatypes.S (Datatypes.S pass_fuel))).
  Notation m_pass := (fs_pass BLOCK FSBUF dstate dinit dstep S).
  Notation m_indata := (pass_indata BLOCK FSBUF dstate dinit dstep S).

  Inductive Rfs : FST -> fstate dstate S -> Prop :=
  | RReady i : Rfs (Src3c.Fs.Ready dstate S i) (FReady i)
  | RInData cache cfo ro ds ur i : len cache = FSBUF -> cfo <= FSBUF ->
      Rfs (Src3c.Fs.InData dstate S cache cfo ro ds ur i) (FInData (mkFs (takeN cfo cache) ro ds ur i))
  | REmpty : Rfs (Src3c.Fs.Empty dstate S) FEmpty.
  Definition R (x : FSR) (f : fstate dstate S) : Prop := Rfs (Src3c.Fs.fsr_state dstate S x) f.

  Theorem fs_new_src i :
    exists x, Src3c.Fs.CompressionLayerFailSafeReader_new dstate S i = Ok x /\ R x (fs_new dstate S i).
  Proof. eexists; split; [reflexivity|constructor]. Qed.

  (* ---------- the cache as a vector ---------- *)
  Lemma len_vec_zeros n : len (Src3c.Fs.vec_zeros n) = n.
  Proof. unfold Src3c.Fs.vec_zeros, len. rewrite repeat_length. lia. Qed.
  Lemma slice_write_take (cache : bytes) at_ data : at_ <= len cache ->
    takeN (at_ + len data) (Src3c.Fs.slice_write cache at_ data) = takeN at_ cache ++ data.
  Proof.
    intros H. unfold Src3c.Fs.slice_write. rewrite app_assoc.
    rewrite takeN_app_le by (rewrite len_app, len_takeN; lia).
    apply takeN_all. rewrite len_app, len_takeN. lia.
  Qed.
  Lemma slice_write_len (cache : bytes) at_ data : at_ + len data <= len cache ->
    len (Src3c.Fs.slice_write cache at_ data) = len cache.
  Proof. intros H. unfold Src3c.Fs.slice_write. rewrite !len_app, len_takeN, len_dropN. lia. Qed.
  Lemma slice_as_drop (c : bytes) ro hi : ro <= hi -> sliceN ro (hi - ro) c = dropN ro (takeN hi c).
  Proof. intros H. unfold sliceN. rewrite takeN_dropN_comm. f_equal. f_equal. lia. Qed.

  Ltac fsimpl := cbn [Src3c.Fs.fsr_state Src3c.Fs.set_fsr_state fs_cache fs_ro fs_ds fs_ur fs_in].

  (* the tail of the InData arm, from the call of the decoder on: common to the two outcomes of the inner read *)
  Notation self2 := (Src3c.Fs.mkFSR dstate S (Src3c.Fs.Empty dstate S)).
  Lemma tail_sim cache cfo ro ds ur i n (eof : bool) :
    len cache = FSBUF -> cfo <= FSBUF -> ro <= cfo -> ur <= BLOCK ->
    let room := N.min n (BLOCK - ur) in
    let '(x', r) :=
      let '(r24, consumed25, out26, ds27) := dstep ds (sliceN ro (cfo - ro) cache) room in
      match r24 with
      | DSuccess =>
        let self29 := Src3c.Fs.set_fsr_state dstate S self2 (Src3c.Fs.InData dstate S cache cfo (ro + consumed25) dinit 0 i) in
        if (len out26 =? 0) && eof then if 0 <? 0 then (self29, Err EUnexpectedEof) else (self29, Ok (Some []))
        else if (len out26 =? 0) && (true && negb (n =? 0)) then (self29, Ok None) else (self29, Ok (Some out26))
      | DNeedsMoreInput =>
        if 2 ^ 32 <=? len out26 then (self2, Err EInval) else
        if 2 ^ 32 <=? ur + len out26 then (self2, Crash 1053) else
        let self32 := Src3c.Fs.set_fsr_state dstate S self2 (Src3c.Fs.InData dstate S cache cfo (ro + consumed25) ds27 (ur + len out26) i) in
        if (len out26 =? 0) && eof then if 0 <? ur + len out26 then (self32, Err EUnexpectedEof) else (self32, Ok (Some []))
        else if (len out26 =? 0) && (true && negb (n =? 0)) then (self32, Ok None) else (self32, Ok (Some out26))
      | DNeedsMoreOutput =>
        if 2 ^ 32 <=? len out26 then (self2, Err EInval) else
        if 2 ^ 32 <=? ur + len out26 then (self2, Crash 1053) else
        let self35 := Src3c.Fs.set_fsr_state dstate S self2 (Src3c.Fs.InData dstate S cache cfo (ro + consumed25) ds27 (ur + len out26) i) in
        if (len out26 =? 0) && eof then if 0 <? ur + len out26 then (self35, Err EUnexpectedEof) else (self35, Ok (Some []))
        else if (len out26 =? 0) && (false && negb (n =? 0)) then (self35, Ok None) else (self35, Ok (Some out26))
      | DFailure =>
        (Src3c.Fs.set_fsr_state dstate S self2 (Src3c.Fs.InData dstate S cache cfo ro ds27 ur i), Err EInval)
      end in
    let '(f', r') :=
      match dstep ds (dropN ro (takeN cfo cache)) room with
      | (DSuccess, k, out, _) => finish dstate S eof n true (mkFs (takeN cfo cache) (ro + k) dinit 0 i) out
      | (DNeedsMoreInput, k, out, ds') =>
        match add_ur ur out with
        | Ok ur' => finish dstate S eof n true (mkFs (takeN cfo cache) (ro + k) ds' ur' i) out
        | Err e => (FEmpty, Err e) | Crash c => (FEmpty, Crash c)
        end
      | (DNeedsMoreOutput, k, out, ds') =>
        match add_ur ur out with
        | Ok ur' => finish dstate S eof n false (mkFs (takeN cfo cache) (ro + k) ds' ur' i) out
        | Err e => (FEmpty, Err e) | Crash c => (FEmpty, Crash c)
        end
      | (DFailure, _, _, ds') => (FInData (mkFs (takeN cfo cache) ro ds' ur i), Err EInval)
      end in
    r = r' /\ R x' f'.
  Proof.
    intros Hlen Hcfo Hro Hur. cbv zeta.
    rewrite (slice_as_drop cache ro cfo Hro).
    destruct (dstep ds (dropN ro (takeN cfo cache)) (N.min n (BLOCK - ur))) as [[[rr k] out] ds'].
    fsimpl.
    unfold finish, add_ur; fsimpl.
    destruct rr.
    - destruct (len out =? 0), eof, (n =? 0); cbn [andb negb N.ltb N.compare]; (split; [reflexivity|constructor; assumption]).
    - destruct (2 ^ 32 <=? len out); [split; [reflexivity|constructor]|].
      destruct (2 ^ 32 <=? ur + len out); [split; [reflexivity|constructor]|]. fsimpl.
      destruct (len out =? 0), eof, (n =? 0), (0 <? ur + len out); cbn [andb negb]; (split; [reflexivity|constructor; assumption]).
    - destruct (2 ^ 32 <=? len out); [split; [reflexivity|constructor]|].
      destruct (2 ^ 32 <=? ur + len out); [split; [reflexivity|constructor]|]. fsimpl.
      destruct (len out =? 0), eof, (n =? 0), (0 <? ur + len out); cbn [andb negb]; (split; [reflexivity|constructor; assumption]).
    - split; [reflexivity|constructor; assumption].
  Qed.

  (* ---------- read_pass on an InData state = pass_indata ---------- *)
  Lemma pass_indata_sim fuel cache cfo ro ds ur i n :
    len cache = FSBUF -> cfo <= FSBUF ->
    let '(x', r) := g_pass (Datatypes.S fuel) (Src3c.Fs.mkFSR dstate S (Src3c.Fs.InData dstate S cache cfo ro ds ur i)) n in
    let '(f', r') := m_indata (mkFs (takeN cfo cache) ro ds ur i) n in
    r = r' /\ R x' f'.
  Proof.
    intros Hlen Hcfo.
    cbn [Src3c.Fs.read_pass]. cbv zeta. fsimpl.
    unfold pass_indata. fsimpl.
    destruct (N.ltb_spec BLOCK ur) as [Hc|Hur]; [split; [reflexivity|constructor]|].
    (* the cache after the possible reset *)
    set (c := (ro =? cfo) && (cfo =? FSBUF)).
    set (cache1 := if c then Src3c.Fs.vec_zeros (len cache) else cache).
    set (cfo1 := if c then 0 else cfo).
    set (ro1 := if c then 0 else ro).
    assert (Hl1 : len cache1 = FSBUF) by (unfold cache1; destruct c; [rewrite len_vec_zeros|]; assumption).
    assert (Hc1 : cfo1 <= FSBUF) by (unfold cfo1; destruct c; lia).
    assert (Hm : reset_cache FSBUF (takeN cfo cache) ro = (takeN cfo1 cache1, ro1)).
    { unfold reset_cache. rewrite len_takeN. replace (N.min cfo (len cache)) with cfo by lia. fold c.
      unfold cache1, cfo1, ro1. destruct c; [rewrite takeN_0|]; reflexivity. }
    unfold refill. rewrite Hm. clear Hm.
    unfold Src3c.Fs.set_fsr_state. cbv beta iota zeta.
    rewrite len_takeN. replace (N.min cfo1 (len cache1)) with cfo1 by lia.
    destruct (N.ltb_spec FSBUF cfo1) as [Hc|_]; [lia|].
    destruct (N.ltb_spec (len cache1) cfo1) as [Hc|_]; [lia|].
    rewrite Hl1.
    destruct (rd S i (FSBUF - cfo1)) as [i' [data|e|cr]] eqn:Erd; [| |split; [reflexivity|constructor]].
    - (* the inner read delivered `data` *)
      pose proof (Hrd _ _ _ _ Erd) as Hd.
      assert (Ht : takeN (cfo1 + len data) (Src3c.Fs.slice_write cache1 cfo1 data) = takeN cfo1 cache1 ++ data)
        by (apply slice_write_take; lia).
      assert (Hl2 : len (Src3c.Fs.slice_write cache1 cfo1 data) = FSBUF) by (rewrite slice_write_len; lia).
      rewrite len_app, len_takeN. replace (N.min cfo1 (len cache1)) with cfo1 by lia.
      destruct (N.ltb_spec (cfo1 + len data) ro1) as [Hc|Hro]; [split; [reflexivity|constructor]|].
      destruct (N.ltb_spec BLOCK ur) as [Hc|_]; [lia|].
      destruct (N.ltb_spec FSBUF (cfo1 + len data)) as [Hc|_]; [lia|].
      rewrite Hl2. destruct (N.ltb_spec FSBUF (cfo1 + len data)) as [Hc|_]; [lia|].
      rewrite <- Ht.
      replace (if (len data =? 0) && (ro1 =? cfo1) then true else false) with ((len data =? 0) && (ro1 =? cfo1))
        by (destruct ((len data =? 0) && (ro1 =? cfo1)); reflexivity).
      exact (tail_sim _ (cfo1 + len data) ro1 ds ur i' n
                      ((len data =? 0) && (ro1 =? cfo1)) Hl2 ltac:(lia) Hro Hur).
    - (* the inner read failed *)
      destruct (ro1 =? cfo1) eqn:Eq; [split; [reflexivity|constructor]|].
      destruct (N.ltb_spec cfo1 ro1) as [Hc|Hro].
      + rewrite len_takeN. replace (N.min cfo1 (len cache1)) with cfo1 by lia.
        destruct (N.ltb_spec cfo1 ro1) as [_|Hc']; [|lia]. split; [reflexivity|constructor].
      + rewrite len_takeN. replace (N.min cfo1 (len cache1)) with cfo1 by lia.
        destruct (N.ltb_spec cfo1 ro1) as [Hc'|_]; [lia|].
        destruct (N.ltb_spec FSBUF cfo1) as [Hc|_]; [lia|].
        exact (tail_sim cache1 cfo1 ro1 ds ur i' n false Hl1 Hc1 Hro Hur).
  Qed.

  (* ---------- read_pass = fs_pass (the Ready arm calls itself once: fuel 2 suffices) ---------- *)
  Theorem fs_pass_sim fuel x f n : R x f ->
    let '(x', r) := g_pass (Datatypes.S (Datatypes.S fuel)) x n in
    let '(f', r') := m_pass f n in
    r = r' /\ R x' f'.
  Proof.
    intros HR. destruct x as [st]. unfold R in HR. cbn in HR.
    inversion HR as [i|cache cfo ro ds ur i Hl Hc|]; subst.
    - (* Ready: the state becomes InData with an empty cache, then the pass *)
      change (g_pass (Datatypes.S (Datatypes.S fuel)) (Src3c.Fs.mkFSR dstate S (Src3c.Fs.Ready dstate S i)) n)
        with (g_pass (Datatypes.S fuel) (Src3c.Fs.mkFSR dstate S (Src3c.Fs.InData dstate S (Src3c.Fs.vec_zeros FSBUF) 0 0 dinit 0 i)) n).
      pose proof (pass_indata_sim fuel (Src3c.Fs.vec_zeros FSBUF) 0 0 dinit 0 i n (len_vec_zeros FSBUF) ltac:(lia)) as H.
      rewrite takeN_0 in H. exact H.
    - exact (pass_indata_sim (Datatypes.S fuel) cache cfo ro ds ur i n Hl Hc).
    - split; [reflexivity|constructor].
  Qed.

  (* ---------- Read::read = fs_read, for every fuel of the loop ---------- *)
  Theorem fs_comp_read_sim fuel : forall x f n, R x f ->
    let '(x', r) := g_read fuel x n in
    let '(f', r') := fs_read BLOCK FSBUF dstate dinit dstep S fuel f n in
    r = r' /\ R x' f'.
  Proof.
    induction fuel as [|fuel IH]; intros x f n HR; [split; [reflexivity|exact HR]|].
    cbn [Src3c.Fs.fs_read fs_read].
    pose proof (fs_pass_sim pass_fuel x f n HR) as H.
    destruct (g_pass (Datatypes.S (Datatypes.S pass_fuel)) x n) as [x1 r1].
    destruct (m_pass f n) as [f1 r1']. destruct H as [<- HR1].
    destruct r1 as [[d|]|e|c]; try (split; [reflexivity|exact HR1]).
    exact (IH x1 f1 n HR1).
  Qed.
End Tie.
