(* EncWriter.v — specification-level definitions for the encryption-layer WRITER proofs
   (EncWriterProofs.v) and for the flush-durability statements (C14): the wire bytes of a
   writer that has absorbed p but not finalized, the writer invariant, a sequence of
   write_all calls, and "read the fail-safe reader until it reports the end".
   Definitions only. *)
From MLA Require Import Base Stream EncLayer.
Open Scope N_scope.

Section EncWriterDefs.
  Variables CHUNK TAG CIPHERBUF : N.
  Variable ks : N -> N -> N.
  Variable tagc : N -> bytes -> bytes.

  (* the wire bytes of n completed-and-renewed chunks (ciphertext ++ tag each) followed by the
     ciphertext of the current chunk WITHOUT tag *)
  Fixpoint wire_open (n : nat) (i : N) (p : bytes) : bytes :=
    match n with
    | O => xor_from ks i 0 p
    | S n' => chunk_enc ks tagc i (takeN CHUNK p) ++ wire_open n' (i + 1) (dropN CHUNK p)
    end.

  (* "s has absorbed the plaintext p": ew_ctr chunks are complete and their tags written; the
     current chunk holds ew_off <= CHUNK bytes and has no tag yet — also when it is full
     (ew_off = CHUNK): the tag is written lazily by the NEXT write, or by finalize *)
  Definition EwInv (s : ewstate) (p : bytes) : Prop :=
    ew_off s <= CHUNK /\
    len p = ew_ctr s * CHUNK + ew_off s /\
    ew_cur s = xor_from ks (ew_ctr s) 0 (dropN (ew_ctr s * CHUNK) p) /\
    ew_out s = wire_open (N.to_nat (ew_ctr s)) 0 p.

  (* states reached through write_all (which never calls write with an empty buffer): an
     empty current chunk only at the very beginning *)
  Definition EwCanon (s : ewstate) : Prop := ew_off s = 0 -> ew_ctr s = 0.

  (* a sequence of write_all calls *)
  Fixpoint ew_write_pieces (fuel : nat) (s : ewstate) (pieces : list bytes) : res ewstate :=
    match pieces with
    | [] => Ok s
    | b :: r => do s1 <- ew_write_all CHUNK CIPHERBUF ks tagc fuel s b; ew_write_pieces fuel s1 r
    end.
  Definition ew_archive (fuel : nat) (pieces : list bytes) : res ewstate :=
    do s <- ew_write_pieces fuel ew_init pieces; ew_finalize tagc s.

  (* ---------- reading a fail-safe encryption reader to its end ---------- *)
  Variable S : Stream.

  (* Read::read with an n-byte buffer until it returns Ok(0) *)
  Fixpoint fs_drain (unauth : bool) (fuel : nat) (s : estate S) (n : N) (acc : bytes) : res bytes :=
    match fuel with
    | O => Err EFuel
    | Datatypes.S fuel' =>
      match fs_read CHUNK TAG ks tagc S unauth s n with
      | (s', Ok d) => if len d =? 0 then Ok acc else fs_drain unauth fuel' s' n (acc ++ d)
      | (_, Err e) => Err e
      | (_, Crash c) => Crash c
      end
    end.

  (* EncryptionLayerFailSafeReader::new (its result is ignored by the constructor unless it
     is an error), then read to the end *)
  Definition fs_read_all (unauth : bool) (fuel : nat) (i0 : st S) (n : N) : res bytes :=
    match fs_open CHUNK TAG ks S i0 with
    | (s, Ok _) => fs_drain unauth fuel s n []
    | (_, Err e) => Err e
    | (_, Crash c) => Crash c
    end.
End EncWriterDefs.
