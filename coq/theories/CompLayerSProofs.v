(* CompLayerSProofs.v — the streaming decompressor (CompLayerS.sd_read) under the decoder laws,
   over ANY inner stream: ERROR TIMING.

   Setting: the decompressor is `live` on a complete compressed stream c: its decoder state is
   reachable having consumed cin and emitted cout, the bytes pulled from the inner layer so
   far are X = cin ++ pending (pending = input_buffer[input_offset..input_len]) and X is a
   prefix of c.  For a read with a non-empty buffer:

     sd_read_pending   if D X is longer than cout (something decodable from input ALREADY
                       pulled has not been delivered) the read succeeds, returns a non-empty
                       run of the next bytes of D X, and does not touch the inner stream —
                       whatever that stream would answer (no hypothesis on S at all);
     sd_read_starved   if D X = cout and X is not yet the whole of c, the decoder asks for
                       input, the buffer is rearranged (copy_to_front) and ONE inner read of
                       min(refill_want, Take limit) bytes is issued; the outcome of the call
                       is that read's: an inner Err is returned as it is;
     sd_read_starved_err  the corollary used for the timing statement.

   So the call that fails is exactly the first one that needs bytes beyond the refills
   already done, and the refill unit is sd_bsz - |kept bytes| (CompLayerS.v head). *)
From MLA Require Import Limit.
From MLA Require Import Base Stream CompLayer CompFailSafe CompFailSafeProofs CompFailSafeStep CompLayerS.
From Coq Require Import ZifyBool ZifyNat ZifyN.
Open Scope N_scope.

Lemma prefix_antisym_len {A} (a b : list A) : prefix a b -> len b <= len a -> a = b.
Proof. apply prefix_len_eq. Qed.

Section Dec.
  Context {LIM : Limit}.
  Variable dstate : Type.
  Variable dinit : dstate.
  Variable dstep : dstate -> bytes -> N -> dresult * N * bytes * dstate.
  Variable D : bytes -> bytes.
  Variable fin : bytes -> bool.
  Hypothesis L : DecoderLaws dinit dstep D fin.
  Variable S : Stream.

  Notation sdecomp := (sdecomp dstate S).
  Notation sd_read := (sd_read dstate dstep S).
  Notation copy_to_front := (copy_to_front dstate S).
  Let Dm := D_mono_prefix _ dinit dstep D fin L.

  Definition pending (d : sdecomp) : bytes := dropN (sd_off d) (sd_buf d).

  (* the buffer indices are sane *)
  Definition buf_ok (d : sdecomp) : Prop :=
    sd_off d <= len (sd_buf d) /\ len (sd_buf d) <= sd_bsz d /\ 0 < sd_bsz d.

  (* copy_to_front never fails on a sane buffer, keeps the unconsumed bytes and everything else *)
  Lemma copy_to_front_spec d : buf_ok d ->
    exists d2, copy_to_front d = Ok d2 /\ buf_ok d2 /\ pending d2 = pending d /\
      sd_in d2 = sd_in d /\ sd_lim d2 = sd_lim d /\ sd_bsz d2 = sd_bsz d /\ sd_ds d2 = sd_ds d /\
      sd_done d2 = sd_done d /\ sd_eiid d2 = sd_eiid d.
  Proof.
    intros (H1 & H2 & H3). unfold CompLayerS.copy_to_front, pending.
    destruct (N.ltb_spec (len (sd_buf d)) (sd_off d)) as [?|_]; [lia|].
    destruct (N.eqb_spec (sd_off d) (sd_bsz d)) as [He|Hne].
    - eexists. split; [reflexivity|]. cbn [sd_in sd_lim sd_bsz sd_buf sd_off sd_ds sd_done sd_eiid].
      unfold buf_ok. cbn [sd_buf sd_off sd_bsz]. change (len (@nil N)) with 0.
      repeat split; try lia.
      rewrite dropN_nil. symmetry. apply dropN_all. lia.
    - destruct ((sd_bsz d <? sd_off d + 256) && (len (sd_buf d) - sd_off d <? sd_off d)) eqn:Ec.
      + destruct (N.ltb_spec (sd_bsz d) (sd_off d)) as [?|_]; [lia|].
        eexists. split; [reflexivity|]. cbn [sd_in sd_lim sd_bsz sd_buf sd_off sd_ds sd_done sd_eiid].
        unfold buf_ok. cbn [sd_buf sd_off sd_bsz]. rewrite len_dropN.
        repeat split; try lia.
      + exists d. repeat split; try assumption; try reflexivity.
  Qed.

  (* live on the complete stream c *)
  Definition live (d : sdecomp) (c cin cout : bytes) : Prop :=
    dreach dinit dstep (sd_ds d) cin cout /\ buf_ok d /\
    prefix (cin ++ pending d) c /\ fin c = true.

  Lemma live_okin d c cin cout : live d c cin cout -> okin fin (cin ++ pending d).
  Proof. intros (_ & _ & Hp & Hf). exists c. auto. Qed.

  (* a complete stream inside a prefix of the complete stream c is c *)
  Lemma fin_prefix_eq c x : fin c = true -> fin x = true -> prefix x c -> x = c.
  Proof.
    intros Hc Hx [r ->]. pose proof (dl_fin_pfree _ _ _ _ _ L x r Hx Hc) as ->. symmetry; apply app_nil_r.
  Qed.

  Lemma takeN_prefix_app (cin inp : bytes) k : prefix (cin ++ takeN k inp) (cin ++ inp).
  Proof. apply prefix_app_app, prefix_takeN. Qed.

  (* the state after a call that consumed k bytes and is not finished *)
  Lemma live_step d c cin cout n r k out ds' :
    live d c cin cout -> dstep (sd_ds d) (pending d) n = (r, k, out, ds') ->
    r = DNeedsMoreInput \/ r = DNeedsMoreOutput ->
    let d1 := mkSD (sd_in d) (sd_lim d) (sd_bsz d) (sd_buf d) (sd_off d + k) ds' (sd_done d) (sd_eiid d) in
    live d1 c (cin ++ takeN k (pending d)) (cout ++ out) /\
    (cin ++ takeN k (pending d)) ++ pending d1 = cin ++ pending d /\ k <= len (pending d).
  Proof.
    intros (Hr & (H1 & H2 & H3) & Hp & Hf) Hs Hres d1.
    destruct (dl_bounds _ _ _ _ _ L _ _ _ _ _ _ _ _ _ Hr Hs) as [Hk Hout].
    assert (Hpd : pending d1 = dropN k (pending d)).
    { unfold pending, d1. cbn [sd_off sd_buf]. now rewrite dropN_dropN. }
    assert (Hcat : (cin ++ takeN k (pending d)) ++ pending d1 = cin ++ pending d).
    { rewrite Hpd, <- app_assoc, takeN_dropN. reflexivity. }
    split; [|split; [exact Hcat | exact Hk]].
    split; [eapply dreach_step; eauto|].
    split.
    - unfold buf_ok, d1. cbn [sd_off sd_buf sd_bsz]. unfold pending in Hk. rewrite len_dropN in Hk. lia.
    - split; [rewrite Hcat; exact Hp | exact Hf].
  Qed.

  (* outcome of a successful, productive read *)
  Inductive after_read (d : sdecomp) (c cin cout : bytes) (d' : sdecomp) (out : bytes) : Prop :=
  | ar_live cin' : live d' c cin' (cout ++ out) -> cin' ++ pending d' = cin ++ pending d ->
      after_read d c cin cout d' out
  | ar_done : cout ++ out = D c -> cin ++ pending d = c -> after_read d c cin cout d' out.

  (* (a) something decodable from input already pulled: no inner read, the call succeeds *)
  Theorem sd_read_pending fuel d c cin cout n :
    live d c cin cout -> 0 < n -> len cout < len (D (cin ++ pending d)) ->
    exists d' out, sd_read (Datatypes.S fuel) d n = (d', Ok out) /\ out <> [] /\ len out <= n /\
      prefix (cout ++ out) (D (cin ++ pending d)) /\
      sd_in d' = sd_in d /\ sd_lim d' = sd_lim d /\ sd_bsz d' = sd_bsz d /\ buf_ok d' /\
      after_read d c cin cout d' out.
  Proof.
    intros HL Hn Hpend. pose proof HL as (Hr & (H1 & H2 & H3) & Hp & Hf).
    cbn [CompLayerS.sd_read].
    destruct (N.ltb_spec (len (sd_buf d)) (sd_off d)) as [?|_]; [lia|].
    fold (pending d).
    destruct (dstep (sd_ds d) (pending d) n) as [[[r k] out] ds'] eqn:Hs.
    destruct (dl_bounds _ _ _ _ _ L _ _ _ _ _ _ _ _ _ Hr Hs) as [Hk Hout].
    assert (Hsound : r <> DFailure -> prefix (cout ++ out) (D (cin ++ pending d))).
    { intros Hnf. eapply prefix_trans; [exact (dl_sound _ _ _ _ _ L _ _ _ _ _ _ _ _ _ Hr Hs Hnf)|].
      apply Dm, takeN_prefix_app. }
    destruct r.
    - (* Success: the whole stream has been consumed; all of D c is out *)
      destruct (dl_success _ _ _ _ _ L _ _ _ _ _ _ _ _ Hr Hs) as [Hfin Hall].
      assert (Hx : cin ++ takeN k (pending d) = c).
      { apply fin_prefix_eq; [exact Hf | exact Hfin|].
        eapply prefix_trans; [apply takeN_prefix_app | exact Hp]. }
      assert (HX : cin ++ pending d = c).
      { symmetry. apply prefix_antisym_len; [|apply prefix_len in Hp; exact Hp].
        rewrite <- Hx. apply takeN_prefix_app. }
      assert (Hne : out <> []).
      { intros ->. rewrite app_nil_r in Hall. rewrite Hall, Hx, <- HX in Hpend. lia. }
      destruct (N.eqb_spec (len out) 0) as [Hz|_]; [apply len_0_nil in Hz; contradiction|].
      eexists _, out. split; [reflexivity|]. cbn [sd_in sd_lim sd_bsz].
      split; [exact Hne|]. split; [exact Hout|]. split; [apply Hsound; discriminate|].
      do 3 (split; [reflexivity|]).
      split.
      { unfold buf_ok. cbn [sd_off sd_buf sd_bsz]. unfold pending in Hk. rewrite len_dropN in Hk. lia. }
      apply ar_done; [rewrite Hall, Hx; reflexivity | exact HX].
    - (* NeedsMoreInput: with room left everything pending is out; so out is not empty *)
      destruct (dl_nmi _ _ _ _ _ L _ _ _ _ _ _ _ _ Hr Hs) as [Hkk Hor].
      assert (Hne : out <> []).
      { intros ->. rewrite app_nil_r in Hor. change (len (@nil N)) with 0 in Hor.
        destruct Hor as [?|Hall]; [lia|]. rewrite Hall in Hpend. lia. }
      destruct (live_step d c cin cout n _ k out ds' HL Hs (or_introl eq_refl)) as (HL1 & Hcat & _).
      set (d1 := mkSD (sd_in d) (sd_lim d) (sd_bsz d) (sd_buf d) (sd_off d + k) ds' (sd_done d) (sd_eiid d)) in *.
      destruct (copy_to_front_spec d1 (proj1 (proj2 HL1)))
        as (d2 & -> & Hb2 & Hp2 & Hi2 & Hl2 & Hz2 & Hds2 & _ & _).
      destruct (N.eqb_spec (len out) 0) as [Hz|_]; [apply len_0_nil in Hz; contradiction|]. cbn [negb].
      exists d2, out. split; [reflexivity|]. split; [exact Hne|]. split; [exact Hout|].
      split; [apply Hsound; discriminate|].
      split; [rewrite Hi2; reflexivity|]. split; [rewrite Hl2; reflexivity|]. split; [rewrite Hz2; reflexivity|].
      split; [exact Hb2|].
      apply ar_live with (cin' := cin ++ takeN k (pending d)).
      + destruct HL1 as (Hr1 & _ & Hp1 & _). split; [rewrite Hds2; exact Hr1|].
        split; [exact Hb2|]. split; [rewrite Hp2; exact Hp1 | exact Hf].
      + rewrite Hp2. exact Hcat.
    - (* NeedsMoreOutput: the room is exhausted, and it is not empty *)
      destruct (dl_nmo _ _ _ _ _ L _ _ _ _ _ _ _ _ Hr Hs) as [Hroom _].
      destruct (live_step d c cin cout n _ k out ds' HL Hs (or_intror eq_refl)) as (HL1 & Hcat & _).
      eexists _, out. split; [reflexivity|]. cbn [sd_in sd_lim sd_bsz].
      split; [apply len_pos_nonnil; lia|]. split; [lia|]. split; [apply Hsound; discriminate|].
      do 3 (split; [reflexivity|]). split; [exact (proj1 (proj2 HL1))|].
      apply ar_live with (cin' := cin ++ takeN k (pending d)); assumption.
    - (* Failure: impossible on bytes consistent with a complete stream *)
      exfalso. exact (dl_nofail _ _ _ _ _ L _ _ _ _ _ _ _ _ Hr Hs (live_okin d c cin cout HL)).
  Qed.

  (* how many bytes the refill asks for after a call that consumed everything: the whole
     buffer when it was full (reset) or when the consumed bytes are moved out (input_offset +
     256 > buffer length), otherwise the free tail *)
  Definition refill_want (d : sdecomp) : N :=
    if (len (sd_buf d) =? sd_bsz d) || ((sd_bsz d <? len (sd_buf d) + 256) && (0 <? len (sd_buf d)))
    then sd_bsz d else sd_bsz d - len (sd_buf d).

  Lemma refill_want_pos d : buf_ok d -> 0 < refill_want d /\ refill_want d <= sd_bsz d.
  Proof.
    intros (H1 & H2 & H3). unfold refill_want.
    destruct (N.eqb_spec (len (sd_buf d)) (sd_bsz d)); cbn [orb]; [lia|].
    destruct ((sd_bsz d <? len (sd_buf d) + 256) && (0 <? len (sd_buf d))); lia.
  Qed.

  (* copy_to_front after a call that consumed everything on offer *)
  Lemma copy_to_front_all d : buf_ok d -> sd_off d = len (sd_buf d) ->
    exists d2, copy_to_front d = Ok d2 /\ buf_ok d2 /\ pending d2 = [] /\
      sd_in d2 = sd_in d /\ sd_lim d2 = sd_lim d /\ sd_bsz d2 = sd_bsz d /\ sd_ds d2 = sd_ds d /\
      sd_done d2 = sd_done d /\ sd_eiid d2 = sd_eiid d /\
      sd_bsz d2 - len (sd_buf d2) = refill_want d.
  Proof.
    intros (H1 & H2 & H3) Hall. unfold CompLayerS.copy_to_front, refill_want, pending. rewrite Hall.
    destruct (N.ltb_spec (len (sd_buf d)) (len (sd_buf d))) as [?|_]; [lia|].
    destruct (N.eqb_spec (len (sd_buf d)) (sd_bsz d)) as [He|Hne]; cbn [orb].
    - eexists. split; [reflexivity|]. cbn [sd_in sd_lim sd_bsz sd_buf sd_off sd_ds sd_done sd_eiid].
      unfold buf_ok. cbn [sd_buf sd_off sd_bsz]. change (len (@nil N)) with 0. repeat split; try lia.
    - replace (len (sd_buf d) - len (sd_buf d)) with 0 by lia.
      destruct ((sd_bsz d <? len (sd_buf d) + 256) && (0 <? len (sd_buf d))) eqn:Ec.
      + destruct (N.ltb_spec (sd_bsz d) (len (sd_buf d))) as [?|_]; [lia|].
        eexists. split; [reflexivity|]. cbn [sd_in sd_lim sd_bsz sd_buf sd_off sd_ds sd_done sd_eiid].
        unfold buf_ok. cbn [sd_buf sd_off sd_bsz]. rewrite len_dropN. repeat split; try lia.
        rewrite dropN_0. apply dropN_all. lia.
      + exists d. rewrite Hall. repeat split; try assumption; try reflexivity; try lia.
        apply dropN_all. lia.
  Qed.

  (* a decoder call that asks for input without output: copy_to_front, then ONE inner read of
     min(refill_want, limit) bytes decides.  d2 is the decompressor as it stands when the
     inner reader is called. *)
  Lemma sd_read_nmi fuel d c cin cout n k ds' :
    live d c cin cout -> dstep (sd_ds d) (pending d) n = (DNeedsMoreInput, k, [], ds') ->
    exists d2,
      buf_ok d2 /\ sd_in d2 = sd_in d /\ sd_lim d2 = sd_lim d /\ sd_bsz d2 = sd_bsz d /\
      sd_eiid d2 = sd_eiid d /\ sd_done d2 = sd_done d /\
      pending d2 = [] /\ sd_bsz d2 - len (sd_buf d2) = refill_want d /\
      dreach dinit dstep (sd_ds d2) (cin ++ pending d) cout /\
      sd_read (Datatypes.S fuel) d n =
        match take_read S (sd_in d) (sd_lim d) (refill_want d) with
        | (i', lim', Ok data) =>
          if len data =? 0 then
            invalid_data dstate S (mkSD i' lim' (sd_bsz d2) (sd_buf d2) (sd_off d2) (sd_ds d2) (sd_done d2) (sd_eiid d2))
          else
            sd_read fuel (mkSD i' lim' (sd_bsz d2) (sd_buf d2 ++ data) (sd_off d2) (sd_ds d2) (sd_done d2) (sd_eiid d2)) n
        | (i', lim', Err e) =>
          (mkSD i' lim' (sd_bsz d2) (sd_buf d2) (sd_off d2) (sd_ds d2) (sd_done d2) (sd_eiid d2), Err e)
        | (i', lim', Crash x) =>
          (mkSD i' lim' (sd_bsz d2) (sd_buf d2) (sd_off d2) (sd_ds d2) (sd_done d2) (sd_eiid d2), Crash x)
        end.
  Proof.
    intros HL Hs. pose proof HL as (Hr & (H1 & H2 & H3) & Hp & Hf).
    cbn [CompLayerS.sd_read].
    destruct (N.ltb_spec (len (sd_buf d)) (sd_off d)) as [?|_]; [lia|].
    fold (pending d). rewrite Hs.
    destruct (dl_nmi _ _ _ _ _ L _ _ _ _ _ _ _ _ Hr Hs) as [Hkk _].
    destruct (live_step d c cin cout n _ k [] ds' HL Hs (or_introl eq_refl)) as (HL1 & Hcat & _).
    set (d1 := mkSD (sd_in d) (sd_lim d) (sd_bsz d) (sd_buf d) (sd_off d + k) ds' (sd_done d) (sd_eiid d)) in *.
    assert (Hall1 : sd_off d1 = len (sd_buf d1)).
    { unfold d1. cbn [sd_off sd_buf]. unfold pending in Hkk. rewrite len_dropN in Hkk. lia. }
    destruct (copy_to_front_all d1 (proj1 (proj2 HL1)) Hall1)
      as (d2 & -> & Hb2 & Hp2 & Hi2 & Hl2 & Hz2 & Hds2 & Hdn2 & He2 & Hw2).
    change (len (@nil N) =? 0) with true. cbn [negb].
    assert (Hw : refill_want d1 = refill_want d) by reflexivity.
    destruct Hb2 as (Hb21 & Hb22 & Hb23).
    destruct (N.ltb_spec (sd_bsz d2) (len (sd_buf d2))) as [?|_]; [lia|].
    exists d2. split; [repeat split; assumption|].
    split; [rewrite Hi2; reflexivity|]. split; [rewrite Hl2; reflexivity|]. split; [rewrite Hz2; reflexivity|].
    split; [rewrite He2; reflexivity|]. split; [rewrite Hdn2; reflexivity|].
    split; [exact Hp2|]. split; [rewrite Hw2; exact Hw|].
    split.
    { rewrite Hds2. unfold d1. cbn [sd_ds].
      destruct HL1 as (Hr1 & _). rewrite app_nil_r in Hr1.
      assert (Ht : takeN k (pending d) = pending d) by (apply takeN_all; lia).
      rewrite Ht in Hr1. exact Hr1. }
    rewrite Hw2, Hw, Hi2, Hl2. unfold d1. cbn [sd_in sd_lim]. reflexivity.
  Qed.

  (* (b) everything decodable from the input pulled so far has been delivered and the stream
     is not complete: the decoder can only ask for input (sd_read_nmi applies) *)
  Theorem sd_read_starved fuel d c cin cout n :
    live d c cin cout -> 0 < n -> D (cin ++ pending d) = cout -> len (cin ++ pending d) < len c ->
    exists d2,
      buf_ok d2 /\ sd_in d2 = sd_in d /\ sd_lim d2 = sd_lim d /\ sd_bsz d2 = sd_bsz d /\
      sd_eiid d2 = sd_eiid d /\ sd_done d2 = sd_done d /\
      pending d2 = [] /\ sd_bsz d2 - len (sd_buf d2) = refill_want d /\
      dreach dinit dstep (sd_ds d2) (cin ++ pending d) cout /\
      sd_read (Datatypes.S fuel) d n =
        match take_read S (sd_in d) (sd_lim d) (refill_want d) with
        | (i', lim', Ok data) =>
          if len data =? 0 then
            invalid_data dstate S (mkSD i' lim' (sd_bsz d2) (sd_buf d2) (sd_off d2) (sd_ds d2) (sd_done d2) (sd_eiid d2))
          else
            sd_read fuel (mkSD i' lim' (sd_bsz d2) (sd_buf d2 ++ data) (sd_off d2) (sd_ds d2) (sd_done d2) (sd_eiid d2)) n
        | (i', lim', Err e) =>
          (mkSD i' lim' (sd_bsz d2) (sd_buf d2) (sd_off d2) (sd_ds d2) (sd_done d2) (sd_eiid d2), Err e)
        | (i', lim', Crash x) =>
          (mkSD i' lim' (sd_bsz d2) (sd_buf d2) (sd_off d2) (sd_ds d2) (sd_done d2) (sd_eiid d2), Crash x)
        end.
  Proof.
    intros HL Hn HD Hlt. pose proof HL as (Hr & (H1 & H2 & H3) & Hp & Hf).
    destruct (dstep (sd_ds d) (pending d) n) as [[[r k] out] ds'] eqn:Hs.
    destruct (dl_bounds _ _ _ _ _ L _ _ _ _ _ _ _ _ _ Hr Hs) as [Hk Hout].
    assert (Hout0 : r <> DFailure -> out = []).
    { intros Hnf. pose proof (dl_sound _ _ _ _ _ L _ _ _ _ _ _ _ _ _ Hr Hs Hnf) as Hsd.
      assert (Hpp : prefix (cout ++ out) cout).
      { eapply prefix_trans; [exact Hsd|]. rewrite <- HD. apply Dm, takeN_prefix_app. }
      apply prefix_len in Hpp. rewrite len_app in Hpp. apply len_0_nil. lia. }
    destruct r.
    - exfalso. destruct (dl_success _ _ _ _ _ L _ _ _ _ _ _ _ _ Hr Hs) as [Hfin _].
      assert (Hx : cin ++ takeN k (pending d) = c).
      { apply fin_prefix_eq; [exact Hf | exact Hfin|].
        eapply prefix_trans; [apply takeN_prefix_app | exact Hp]. }
      pose proof (prefix_len _ _ (takeN_prefix_app cin (pending d) k)) as Hle. rewrite Hx in Hle. lia.
    - rewrite (Hout0 ltac:(discriminate)) in Hs. exact (sd_read_nmi fuel d c cin cout n k ds' HL Hs).
    - exfalso. destruct (dl_nmo _ _ _ _ _ L _ _ _ _ _ _ _ _ Hr Hs) as [Hroom _].
      rewrite (Hout0 ltac:(discriminate)) in Hroom. change (len (@nil N)) with 0 in Hroom. lia.
    - exfalso. exact (dl_nofail _ _ _ _ _ L _ _ _ _ _ _ _ _ Hr Hs (live_okin d c cin cout HL)).
  Qed.

  (* the timing corollary: an inner read error at that refill is the error of the call *)
  Corollary sd_read_starved_err fuel d c cin cout n i' e :
    live d c cin cout -> 0 < n -> D (cin ++ pending d) = cout -> len (cin ++ pending d) < len c ->
    0 < sd_lim d ->
    rd S (sd_in d) (N.min (refill_want d) (sd_lim d)) = (i', Err e) ->
    exists d', sd_read (Datatypes.S fuel) d n = (d', Err e) /\ sd_in d' = i'.
  Proof.
    intros HL Hn HD Hlt Hlim Hrd.
    destruct (sd_read_starved fuel d c cin cout n HL Hn HD Hlt) as (d2 & _ & _ & _ & _ & _ & _ & _ & _ & _ & ->).
    unfold take_read. destruct (N.eqb_spec (sd_lim d) 0) as [?|_]; [lia|]. rewrite Hrd.
    eexists. split; reflexivity.
  Qed.
End Dec.
