(* EncAuthStream.v — C03, the layer theorem of EncAuth.v packaged as a STREAM-level relation.

   AgreesOn S I plain E ("whatever S returns is original data at the position it claims"):
   through the invariant I (I s p: state s claims logical position p)
     - a read that returns Ok d returns d = plain[p .. p + |d|) and moves to p + |d|
       (d may be SHORT or EMPTY even before the end of plain); a read that fails (Err or Crash)
       does not move;
     - a seek that returns Ok q stands at q, and q is what the whence denotes: Start(q0) -> q0,
       Current(d) -> p + d, End(d) -> E + d, where E is the end the stream CLAIMS.  E is not
       tied to |plain|: for the encryption reader it is computed from the length of the
       (altered) inner stream, which no tag covers (known finding D17);
     - a failing seek leaves the stream at some position (which one is not said).
   Nothing is promised about progress or about errors: every read may fail.

   The encryption reader over ARBITRARY inner bytes w agrees on the original plaintext, unless
   w contains a forgery (a ciphertext accepted under counter i that the writer did not produce
   for chunk i of plain). *)
From MLA Require Import Base Stream EncLayer EncLayerProofs EncAuth.
From Coq Require Import ZifyBool ZifyNat ZifyN.
Open Scope N_scope.

(* what a successful seek returns *)
Definition seek_claim (E p : N) (w : whence) (q : N) : Prop :=
  match w with
  | FromStart q0 => q = q0
  | FromCur d => Z.of_N q = (Z.of_N p + d)%Z
  | FromEnd d => Z.of_N q = (Z.of_N E + d)%Z
  end.

Record AgreesOn (S : Stream) (I : st S -> N -> Prop) (plain : bytes) (E : N) : Prop := {
  ag_rd : forall s p n, I s p -> exists s' r, rd S s n = (s', r) /\
    match r with
    | Ok d => d = sliceN p (len d) plain /\ I s' (p + len d)
    | _ => I s' p
    end;
  ag_sk : forall s p w, I s p -> exists s' r, sk S s w = (s', r) /\
    match r with
    | Ok q => I s' q /\ seek_claim E p w q
    | _ => exists p', I s' p'
    end;
}.

(* a cursor over plain agrees on plain, with the true end *)
Lemma cursor_agrees plain : AgreesOn (Cursor plain) (fun s p => s = p) plain (len plain).
Proof.
  constructor.
  - intros s p n ->. cbn [Cursor rd st]. rewrite cursor_rd_skb.
    eexists _, _. split; [reflexivity|]. cbn beta iota.
    rewrite len_sliceN. replace (N.min (N.min n (len plain - p)) (len plain - p)) with (N.min n (len plain - p)) by lia.
    auto.
  - intros s p w ->. cbn [Cursor sk st]. destruct w as [q|d|d]; cbn [cursor_sk]; unfold seek_target.
    + eexists _, _. split; [reflexivity|]. cbn. auto.
    + destruct (Z.of_N p + d <? 0)%Z eqn:E.
      * eexists _, _. split; [reflexivity|]. cbn beta iota. eauto.
      * eexists _, _. split; [reflexivity|]. cbn beta iota. split; [reflexivity|]. cbn [seek_claim]. lia.
    + destruct (Z.of_N (len plain) + d <? 0)%Z eqn:E.
      * eexists _, _. split; [reflexivity|]. cbn beta iota. eauto.
      * eexists _, _. split; [reflexivity|]. cbn beta iota. split; [reflexivity|]. cbn [seek_claim]. lia.
Qed.

Section EncAgrees.
  Variables CHUNK TAG : N.
  Hypothesis HCHUNK : 0 < CHUNK.
  Variable ks : N -> N -> N.
  Variable tagc : N -> bytes -> bytes.
  Variable S : Stream.
  Variable w : bytes.                       (* the inner bytes: ARBITRARY *)
  Variable R : st S -> N -> Prop.
  Hypothesis HS : Seekable S w R.
  Variable plain : bytes.                   (* the original plaintext *)

  Notation InvA := (InvA CHUNK TAG ks tagc S w R).
  Notation epos := (epos CHUNK S).
  Notation Forgery := (Forgery CHUNK TAG ks tagc w plain).
  Notation Enc := (EncReader CHUNK TAG ks tagc S).

  (* the logical position claimed by a reader state *)
  Definition EncI (s : estate S) (p : N) : Prop := InvA s /\ epos s = p.

  (* the end the encryption reader computes: from the LENGTH of the inner bytes only *)
  Definition enc_end : N :=
    match end_pos_of_inner CHUNK TAG (len w) with Ok e => e | _ => 0 end.

  Hypothesis HNF : ~ Forgery.

  Lemma enc_rd_agrees s p n : EncI s p ->
    exists s' r, eread CHUNK TAG ks tagc S s n = (s', r) /\
      match r with
      | Ok d => d = sliceN p (len d) plain /\ EncI s' (p + len d)
      | _ => EncI s' p
      end.
  Proof.
    intros [HI <-].
    destruct (eread_inv CHUNK TAG HCHUNK ks tagc S w R HS s n HI) as (s' & r & He & HI' & Hp).
    exists s', r. split; [exact He|]. destruct r as [d|e|c]; cbn [read_post] in Hp.
    - destruct Hp as (Hpos & Hd). split; [|split; [exact HI' | exact Hpos]].
      destruct Hd as [->|(ct & Ha & Hd)]; [rewrite sliceN_0; reflexivity|].
      destruct (accepted_original_or_forgery CHUNK TAG ks tagc w plain _ ct Ha) as [Hx|Hf]; [|contradiction].
      rewrite Hx in Hd.
      destruct (dm_spec (epos s) CHUNK HCHUNK) as [Hqd Hr].
      rewrite sliceN_sliceN in Hd by lia.
      rewrite <- Hqd in Hd.
      assert (Hl : len d <= CHUNK - epos s mod CHUNK).
      { rewrite Hd at 1. rewrite len_sliceN. lia. }
      replace (N.min (len d) (CHUNK - epos s mod CHUNK)) with (len d) in Hd by lia.
      exact Hd.
    - destruct Hp as (Hpos & _). split; [exact HI' | exact Hpos].
    - destruct Hp as (-> & _). split; [exact HI | reflexivity].
  Qed.

  Lemma enc_seek_start_agrees s q : InvA s ->
    exists s' r, eseek_start CHUNK TAG ks tagc S s q = (s', r) /\
      match r with
      | Ok q' => EncI s' q' /\ q' = q
      | _ => exists p', EncI s' p'
      end.
  Proof.
    intros HI.
    destruct (eseek_start_inv CHUNK TAG HCHUNK ks tagc S w R HS s q HI) as (s' & r & He & HI' & Hr & Hp).
    exists s', r. split; [exact He|].
    destruct Hr as [->|[e ->]].
    - cbn [seek_post] in Hp. split; [split; assumption | reflexivity].
    - exists (epos s'). split; [exact HI' | reflexivity].
  Qed.

  Lemma enc_sk_agrees s p wh : EncI s p ->
    exists s' r, eseek CHUNK TAG ks tagc S s wh = (s', r) /\
      match r with
      | Ok q => EncI s' q /\ seek_claim enc_end p wh q
      | _ => exists p', EncI s' p'
      end.
  Proof.
    intros [HI <-]. pose proof HI as (Hin & Hcp & Hc).
    assert (Hself : forall s0, InvA s0 -> exists p', EncI s0 p')
      by (intros s0 H0; exists (epos s0); split; [exact H0 | reflexivity]).
    unfold EncLayer.eseek. destruct wh as [q|d|d].
    - destruct (enc_seek_start_agrees s q HI) as (s' & r & He & Hr).
      exists s', r. split; [exact He|]. destruct r as [q'|e|c]; [|exact Hr..].
      destruct Hr as [Hr ->]. split; [exact Hr | reflexivity].
    - destruct (Z.eqb_spec d 0) as [->|Hd].
      + eexists _, _. split; [reflexivity|]. cbn beta iota. split; [split; [exact HI | reflexivity]|].
        cbn [seek_claim]. unfold EncAuth.epos. lia.
      + destruct (2 ^ 63 <=? e_chunk s * CHUNK + e_cpos s).
        { eexists _, _. split; [reflexivity|]. cbn beta iota. apply Hself. exact HI. }
        unfold seek_target. destruct (Z.of_N (e_chunk s * CHUNK + e_cpos s) + d <? 0)%Z eqn:Et.
        * eexists _, _. split; [reflexivity|]. cbn beta iota. apply Hself. exact HI.
        * destruct (enc_seek_start_agrees s (Z.to_N (Z.of_N (e_chunk s * CHUNK + e_cpos s) + d)) HI) as (s' & r & He & Hr).
          exists s', r. split; [exact He|]. destruct r as [q'|e|c]; [|exact Hr..].
          destruct Hr as [Hr ->]. split; [exact Hr|]. cbn [seek_claim]. unfold EncAuth.epos. lia.
    - destruct (0 <? d)%Z eqn:Ed.
      + eexists _, _. split; [reflexivity|]. cbn beta iota. apply Hself. exact HI.
      + destruct Hin as [pin HR].
        destruct (skb_end _ _ _ HS (e_in s) pin HR) as (i' & Hsk & HR'). rewrite Hsk.
        assert (HI1 : InvA (mkE i' (e_cache s) (e_cpos s) (e_chunk s))).
        { split; [eexists; exact HR'|]. split; assumption. }
        unfold enc_end.
        destruct (end_pos_of_inner CHUNK TAG (len w)) as [ep|e|c] eqn:Eep.
        * destruct (2 ^ 63 <=? ep).
          { eexists _, _. split; [reflexivity|]. cbn beta iota. apply Hself. exact HI1. }
          destruct (negb (i64_fits (Z.of_N ep + d))).
          { eexists _, _. split; [reflexivity|]. cbn beta iota. apply Hself. exact HI1. }
          unfold seek_target. destruct (Z.of_N ep + d <? 0)%Z eqn:Et.
          -- eexists _, _. split; [reflexivity|]. cbn beta iota. apply Hself. exact HI1.
          -- destruct (enc_seek_start_agrees _ (Z.to_N (Z.of_N ep + d)) HI1) as (s' & r & He & Hr).
             exists s', r. split; [exact He|]. destruct r as [q'|e|c]; [|exact Hr..].
             destruct Hr as [Hr ->]. split; [exact Hr|]. cbn [seek_claim]. lia.
        * eexists _, _. split; [reflexivity|]. cbn beta iota. apply Hself. exact HI1.
        * eexists _, _. split; [reflexivity|]. cbn beta iota. apply Hself. exact HI1.
  Qed.

  (* THE packaging: the encryption reader over arbitrary inner bytes agrees on the original
     plaintext, with the end it computes from the inner length *)
  Theorem enc_agrees : AgreesOn Enc EncI plain enc_end.
  Proof.
    constructor.
    - intros s p n HI. exact (enc_rd_agrees s p n HI).
    - intros s p wh HI. exact (enc_sk_agrees s p wh HI).
  Qed.

  (* opening: whatever enc_open returns, the state it leaves is in the invariant; on success
     it stands at 0 *)
  Theorem enc_open_agrees i0 pin : R i0 pin ->
    exists s r, enc_open CHUNK TAG ks tagc S i0 = (s, r) /\ (exists p, EncI s p) /\
      (forall q, r = Ok q -> q = 0 /\ EncI s 0).
  Proof.
    intros HR. unfold EncLayer.enc_open.
    assert (HI0 : InvA (mkE i0 [] 0 0)).
    { split; [eexists; exact HR|]. split; [cbn; lia | left; reflexivity]. }
    destruct (enc_seek_start_agrees _ 0 HI0) as (s & r & He & Hr).
    exists s, r. split; [exact He|]. destruct r as [q|e|c].
    - destruct Hr as [Hr ->]. split; [eexists; exact Hr|]. intros q [= <-]. auto.
    - split; [exact Hr | discriminate].
    - split; [exact Hr | discriminate].
  Qed.

  (* states reachable in the sense of EncAuth.reach are in the invariant *)
  Lemma reach_EncI i0 pin s : R i0 pin -> reach CHUNK TAG ks tagc S i0 s -> EncI s (epos s).
  Proof.
    intros HR Hre. split; [|reflexivity].
    exact (reach_inv CHUNK TAG HCHUNK ks tagc S w R HS i0 pin s HR Hre).
  Qed.
End EncAgrees.

(* the end claimed over an UNALTERED wire — and over any altered wire of the same length — is
   the true end, for every plaintext *)
Lemma enc_end_same_length CHUNK TAG : 0 < CHUNK -> 0 < TAG ->
  forall ks tagc, (forall i c, len (tagc i c) = TAG) ->
  forall plain w, len w = len (enc_format CHUNK ks tagc plain) -> enc_end CHUNK TAG w = len plain.
Proof.
  intros HC HT ks tagc Htag plain w Hl. unfold enc_end.
  rewrite Hl, (len_enc_format CHUNK TAG HC HT ks tagc Htag plain), (end_pos_of_wire_len CHUNK TAG HC HT).
  reflexivity.
Qed.
