(* SrcTie3Fresh.v — Tie A for the randomness machine (Fresh.v) and for "nothing in clear" (Masked.v):
   facts computed on gen/Src3.v (tools/src2v3_fresh.py, regenerated from /repo on every run) and on the
   event lists of gen/Src2.v.  An edit of the source that changes one of them breaks `make`.

   model item                                   source fact
   Fresh.enc_default: ONE from_os_rng, key      enc_default_draw_order
     then nonce from that generator
   Fresh.from_config: to_persistent seeds its   to_persistent_fresh_generator, ephemeral_from_that_generator
     own generator per call; eph = fill_bytes
   Fresh.cfg_new / cfg_default                  cfg_ctors_call_enc_default
   Fresh.b_* (builders keep key, nonce)         builders_single_assignment (+ SrcTie2b.cfg_builders_src)
   Fresh.b_add_keys extends                     SrcTie2Events.recipients_facts, add_public_keys_shape
   Fresh.step CCreate consumes the handle;      config_single_use
     no second archive from one configuration
   Fresh.from_config: check before the draw     from_config_order
   Fresh.step CWriterNew                        aw_new_shape
   no generator outlives its call               generators_are_local
   Masked.ew_flush                              enc_flush_only_forwards
   EncLayer.ew_out = cipher outputs only        enc_inner_writes_are_cipher_outputs *)
From MLA Require Import Base SrcTie2Events.
From MLAGen Require Src2 Src3.
From Coq Require Import String List.
Import ListNotations.
Open Scope string_scope.

(* EncryptionConfig::default: exactly one generator, made by from_os_rng() inside the call; the key is drawn
   first, the nonce second, both from it; nothing else is drawn; the struct is built from these two *)
Lemma enc_default_draw_order :
  Src3.EV_enc_cfg_default =
    ["let mut csprng = ChaChaRng::from_os_rng();";
     "let key = csprng.random::<Key>();";
     "let nonce = csprng.random::<[u8;NONCE_SIZE]>();";
     "=> Self { ecc_keys: Vec::new(), key: key, nonce: nonce }"] /\
  before "ChaChaRng::from_os_rng()" "csprng.random::<Key>()" Src3.EV_enc_cfg_default = true /\
  before "csprng.random::<Key>()" "csprng.random::<[u8;NONCE_SIZE]>()" Src3.EV_enc_cfg_default = true /\
  count "from_os_rng" Src3.EV_enc_cfg_default = 1%nat /\ count "random" Src3.EV_enc_cfg_default = 2%nat /\
  absent "clone" Src3.EV_enc_cfg_default = true /\ absent "self" Src3.EV_enc_cfg_default = true.
Proof. vm_compute. repeat split. Qed.

(* to_persistent(&self): a generator per call (not a field, not an argument), handed to the key wrapping *)
Lemma to_persistent_fresh_generator :
  Src3.EV_enc_to_persistent =
    ["fn to_persistent(&self) -> Result<EncryptionPersistentConfig, ConfigError>";
     "let mut rng = ChaChaRng::from_os_rng();";
     "=> store_key_for_multi_recipients(&self.ecc_keys, &self.key, &mut rng).map_or(Err(ConfigError::ECIESComputationError), |multi_recipient| { Ok(EncryptionPersistentConfig { multi_recipient: multi_recipient, nonce: self.nonce }) })"] /\
  count "from_os_rng" Src3.EV_enc_to_persistent = 1%nat /\ absent "self.rng" Src3.EV_enc_to_persistent = true.
Proof. vm_compute. repeat split. Qed.

(* store_key_for_multi_recipients: the scalar is the first thing drawn from the generator it is given, by
   one fill_bytes of a 32-byte array; the public key is derived from it; nothing else is drawn *)
Lemma ephemeral_from_that_generator :
  firstn 4 Src3.EV_store_key =
    ["let mut bytes = [0; 32];"; "csprng.fill_bytes(&mut bytes);"; "let ephemeral = StaticSecret::from(bytes);";
     "let public = PublicKey::from(&ephemeral);"] /\
  count "csprng" Src3.EV_store_key = 1%nat /\
  count "public: *public.as_bytes()" Src3.EV_store_key = 1%nat.
Proof. vm_compute. repeat split. Qed.

(* ArchiveWriterConfig::new / default: the encryption part is EncryptionConfig::default(), nothing else *)
Lemma cfg_ctors_call_enc_default :
  Src3.EV_cfg_new = ["=> Self { layers_enabled: Layers::EMPTY, compress: CompressionConfig::default(), encrypt: EncryptionConfig::default() }"] /\
  Src3.EV_cfg_default = ["=> Self { layers_enabled: Layers::default(), compress: CompressionConfig::default(), encrypt: EncryptionConfig::default() }"].
Proof. split; reflexivity. Qed.

(* the builders: tools/src2v2b.py accepts enable_layer / disable_layer / set_layers only as ONE assignment to
   self.layers_enabled followed by `self` (otherwise config_untranslatable and SrcTie2b.cfg_builders_src
   breaks); with_compression_level assigns compress.compression_level only; add_public_keys only extends *)
Lemma builders_single_assignment :
  Src3.EV_cfg_with_compression_level =
    ["=> if compression_level > 11 {"; "=> Err(ConfigError::CompressionLevelOutOfRange)"; "} else {";
     "self.compress.compression_level = compression_level;"; "=> Ok(self)"; "}"] /\
  Src2.EV_add_public_keys = ["self.encrypt.ecc_keys.extend_from_slice(keys);"; "=> self"].
Proof. split; reflexivity. Qed.
Definition add_public_keys_shape := proj2 builders_single_assignment.

(* one configuration, at most one archive: neither configuration type can be cloned or copied, and
   from_config takes it by value *)
Lemma config_single_use :
  Src3.FRESH_config_not_clonable = 1%N /\ Src3.FRESH_from_config_consumes = 1%N /\
  hd "" Src3.EV_aw_from_config = "fn from_config(dest: W, config: ArchiveWriterConfig) -> Result<Self, Error>".
Proof. repeat split. Qed.

(* from_config: check() first (an enabled encryption without recipient is refused before any draw), then
   to_persistent exactly once, then the encryption layer from &config.encrypt (the same key and nonce) *)
Lemma from_config_order :
  before "config.check()?;" "config.to_persistent()?" Src3.EV_aw_from_config = true /\
  count "to_persistent" Src3.EV_aw_from_config = 1%nat /\
  before "config.to_persistent()?" "EncryptionLayerWriter::new(dest, &config.encrypt)?" Src3.EV_aw_from_config = true /\
  before "if config.is_layers_enabled(Layers::ENCRYPT) {" "EncryptionLayerWriter::new(dest, &config.encrypt)?" Src3.EV_aw_from_config = true.
Proof. vm_compute. repeat split. Qed.

(* the layer takes key and nonce from the configuration, and nothing random of its own *)
Lemma enc_writer_new_uses_config :
  Src3.EV_enc_writer_new =
    ["=> Ok(Self { inner: inner, key: config.key, nonce_prefix: config.nonce, cipher: AesGcm256::new(&config.key, &build_nonce(config.nonce, 0), b"""")?, current_chunk_offset: 0, current_ctr: 0 })"].
Proof. reflexivity. Qed.

Lemma aw_new_shape :
  Src3.EV_aw_new = ["let mut config = ArchiveWriterConfig::default();"; "config.add_public_keys(public_keys);";
                    "=> Self::from_config(dest, config)"].
Proof. reflexivity. Qed.

(* no generator is stored in a struct / static of encrypt.rs, config.rs, ecc.rs; from_os_rng() occurs exactly
   twice outside the tests (default, to_persistent); no other generator constructor occurs *)
Lemma generators_are_local :
  Src3.FRESH_no_stored_generator = 1%N /\ Src3.FRESH_rng_sites = 2%N /\ Src3.FRESH_other_rng_ctor = 0%N.
Proof. repeat split. Qed.

(* EncryptionLayerWriter::flush only forwards; ArchiveWriter::flush is dest.flush() *)
Lemma enc_flush_only_forwards :
  Src3.EV_enc_flush = ["fn flush(&mut self) -> io::Result<()>"; "=> self.inner.flush()"] /\
  Src3.EV_aw_flush = ["=> self.dest.flush()"].
Proof. split; reflexivity. Qed.

(* every byte the layer hands to its inner writer is a cipher output:
   - the impl blocks of EncryptionLayerWriter contain exactly three inner write calls: write_all(&tag) in
     write, write_all(&buf_tmp) in write, write_all(&tag) in finalize; no other way of handing bytes down;
   - each `tag` is bound by `let tag = self.renew_cipher()?;` just before, and renew_cipher returns
     old_cipher.into_tag();
   - `buf_tmp` is filled from buf by io::copy, then `self.cipher.encrypt(&mut buf_tmp);` is the statement
     IMMEDIATELY before `self.inner.write_all(&buf_tmp)?;`; `buf` itself never reaches inner *)
Fixpoint adjacent (a b : string) (l : list string) : bool :=
  match l with
  | x :: ((y :: _) as r) => (String.eqb x a && String.eqb y b) || adjacent a b r
  | _ => false
  end.
Lemma enc_inner_writes_are_cipher_outputs :
  Src3.FRESH_inner_write_args = ["write_all(&tag)"; "write_all(&buf_tmp)"; "write_all(&tag)"] /\
  adjacent "self.cipher.encrypt(&mut buf_tmp);" "self.inner.write_all(&buf_tmp)?;" Src2.EV_enc_write = true /\
  adjacent "let tag = self.renew_cipher()?;" "self.inner.write_all(&tag)?;" Src2.EV_enc_write = true /\
  adjacent "let tag = self.renew_cipher()?;" "self.inner.write_all(&tag)?;" Src2.EV_enc_finalize = true /\
  count "self.inner" Src2.EV_enc_write = 2%nat /\ count "buf_tmp =" Src2.EV_enc_write = 1%nat /\
  absent "inner.write_all(buf" Src2.EV_enc_write = true /\ absent "inner.write(buf" Src2.EV_enc_write = true /\
  last Src3.EV_enc_renew_cipher "" = "=> Ok(old_cipher.into_tag())" /\
  absent "inner" Src3.EV_enc_renew_cipher = true.
Proof. vm_compute. repeat split. Qed.
