(* CompLayerProofs.v — theorems about the compression layer model.
   1. list helpers (Vec::get, partial sums, bincode u32 sequences)
   2. the reader refines a cursor over the plaintext, over ANY inner stream that refines a
      cursor over the wire form  [compressed blocks][SizesInfo][len]  of ANY list of compressed
      blocks whose j-th element decompresses to the j-th BLOCK-slice of the plaintext
      (all three whences, every target in [0, |plain|], reads of any size; |plain| = 0,
      |plain| a multiple of BLOCK, an empty trailing block)
   3. new + initialize establish the invariant (the footer is parsed back)
   4. instance: the canonical format comp_format of a compressor with dec (comp x) = x *)
From MLA Require Import Limit.
From MLA Require Import Base Stream CompLayer.
From Coq Require Import ZifyBool ZifyNat ZifyN.
Open Scope N_scope.

(* ---------- 1. list helpers ---------- *)

Lemma nthN_nth_error {A} (l : list A) : forall n, nthN l n = nth_error l (N.to_nat n).
Proof.
  induction l as [|x r IH]; intros n; cbn [nthN].
  - destruct (N.to_nat n); reflexivity.
  - destruct (N.eqb_spec n 0) as [->|Hn]; [reflexivity|].
    rewrite IH. replace (N.to_nat n) with (Datatypes.S (N.to_nat (n - 1))) by lia. reflexivity.
Qed.

Lemma nthN_Some_lt {A} (l : list A) n x : nthN l n = Some x -> n < len l.
Proof.
  rewrite nthN_nth_error. intros H.
  assert (nth_error l (N.to_nat n) <> None) as H1 by congruence.
  apply nth_error_Some in H1. unfold len. lia.
Qed.

Lemma nthN_lt_Some {A} (l : list A) n : n < len l -> exists x, nthN l n = Some x.
Proof.
  intros H. rewrite nthN_nth_error.
  destruct (nth_error l (N.to_nat n)) eqn:E; [eexists; reflexivity|].
  apply nth_error_None in E. unfold len in H. lia.
Qed.

Lemma nthN_map {A B} (f : A -> B) (l : list A) n : nthN (map f l) n = option_map f (nthN l n).
Proof. rewrite !nthN_nth_error. apply nth_error_map. Qed.

Lemma nth_error_split_firstn {A} (l : list A) : forall k x, nth_error l k = Some x ->
  l = firstn k l ++ x :: skipn (Datatypes.S k) l.
Proof.
  induction l as [|y r IH]; intros [|k] x H; cbn in H; try discriminate.
  - injection H as ->. reflexivity.
  - cbn [firstn skipn app]. f_equal. apply IH. exact H.
Qed.

Lemma nthN_split {A} (l : list A) n x : nthN l n = Some x ->
  l = takeN n l ++ x :: dropN (n + 1) l.
Proof.
  rewrite nthN_nth_error. intros H. unfold takeN, dropN.
  replace (N.to_nat (n + 1)) with (Datatypes.S (N.to_nat n)) by lia.
  apply nth_error_split_firstn. exact H.
Qed.

Lemma sum_firstN_spec (cbs : list bytes) : forall j,
  sum_firstN (map (@len N) cbs) j = len (concat (takeN j cbs)).
Proof.
  induction cbs as [|x r IH]; intros j; cbn [map sum_firstN].
  - rewrite takeN_nil. reflexivity.
  - destruct (N.eqb_spec j 0) as [->|Hj]; [reflexivity|].
    unfold takeN. replace (N.to_nat j) with (Datatypes.S (N.to_nat (j - 1))) by lia.
    cbn [firstn concat]. rewrite len_app, IH. reflexivity.
Qed.

Lemma len_map {A B} (f : A -> B) (l : list A) : len (map f l) = len l.
Proof. unfold len. now rewrite map_length. Qed.

Lemma len_flat_le4 (l : list N) : len (flat_map (le_bytes 4) l) = 4 * len l.
Proof.
  induction l as [|x r IH]; cbn [flat_map]; [reflexivity|].
  rewrite len_app, IH, len_le_bytes, len_cons. lia.
Qed.

Lemma parse_u32s_flat (l : list N) (rest : bytes) : Forall (fun x => x < 2 ^ 32) l ->
  parse_u32s (length l) (flat_map (le_bytes 4) l ++ rest) = l.
Proof.
  induction 1 as [|x r Hx Hr IH]; cbn [length parse_u32s flat_map]; [reflexivity|].
  rewrite <- app_assoc.
  replace 4 with (len (le_bytes 4 x)) at 1 2 by apply len_le_bytes.
  rewrite takeN_len_app, dropN_len_app, IH.
  rewrite le_val_le_bytes by exact Hx. reflexivity.
Qed.

Lemma sliceN_app_mid {A} (pre x post : list A) : sliceN (len pre) (len x) (pre ++ x ++ post) = x.
Proof. unfold sliceN. rewrite dropN_len_app, takeN_len_app. reflexivity. Qed.

Lemma target_start l p x : x <= l -> target l p (FromStart x) = Some x.
Proof.
  intros H. unfold target.
  destruct ((0 <=? Z.of_N x) && (Z.of_N x <=? Z.of_N l))%Z eqn:E; [|lia].
  rewrite N2Z.id. reflexivity.
Qed.

Lemma divmod_mul b q r : 0 < b -> r < b -> (q * b + r) / b = q /\ (q * b + r) mod b = r.
Proof.
  intros Hb Hr. split.
  - symmetry. apply (N.div_unique _ _ q r); lia.
  - symmetry. apply (N.mod_unique _ _ q r); lia.
Qed.

(* ---------- 2. the reader ---------- *)

Section CompProofs.
  Variables BLOCK LIMIT : N.
  Local Hint Extern 0 Limit => exact LIMIT : typeclass_instances.
  Hypothesis HB : 0 < BLOCK.
  Hypothesis HB32 : BLOCK < 2 ^ 32.            (* UNCOMPRESSED_DATA_SIZE is a u32 *)
  Variable dec : bytes -> bytes.
  Variable S : Stream.
  Variable plain : bytes.
  Variable cbs : list (list N).                (* the compressed blocks on the wire *)

  Notation L := (len plain).
  Notation nb := (len cbs).
  Notation lastsz := (len plain - (len cbs - 1) * BLOCK).
  Notation block_at := (block_at BLOCK).

  (* all blocks but the last are full; an empty stream has no block or one empty block; a
     stream ending on a block boundary may be followed by one empty block *)
  Hypothesis Hnb : (nb - 1) * BLOCK <= L /\ L <= nb * BLOCK.
  Hypothesis Hdec : forall j cb, nthN cbs j = Some cb -> dec cb = block_at plain j.
  Hypothesis Hcs : Forall (fun cb : list N => len cb < 2 ^ 32) cbs.   (* compressed_sizes: Vec<u32> *)
  Hypothesis Hlim : 12 + 4 * nb <= LIMIT /\ 12 + 4 * nb < 2 ^ 32.    (* bincode limit; footer length is a u32 *)
  Hypothesis HL : L < 2 ^ 63.                                       (* seek offsets are i64 *)

  Notation wire := (comp_wire cbs lastsz).
  Notation si0 := (mkSI (map (@len N) cbs) lastsz).
  Variable Rin : st S -> N -> Prop.
  Hypothesis Hin : Refines S wire Rin.

  Notation creader := (creader S).
  Notation cread := (cread BLOCK dec S).
  Notation cread_aux := (cread_aux BLOCK dec S).
  Notation cseek := (cseek BLOCK dec S).
  Notation cseek_start := (cseek_start BLOCK dec S).
  Notation sync_inner := (sync_inner BLOCK S).
  Notation new_decompressor_at := (new_decompressor_at BLOCK dec S).
  Notation ubs_at := (ubs_at BLOCK).
  Notation CompReader := (CompReader BLOCK dec S).

  Definition usable (i : st S) : Prop := exists pin, Rin i pin.

  Definition Rcomp (c : creader) (p : N) : Prop :=
    c_si c = Some si0 /\ c_pos c = p /\ p <= L /\
    match c_state c with
    | CReady i => usable i /\ (p mod BLOCK = 0 \/ p = L)
    | CInData r u d =>
      exists j, j < nb /\ p = j * BLOCK + r /\ r <= u /\ u = len (block_at plain j) /\
                d_plain d = block_at plain j /\ d_off d = r /\ usable (d_in d)
    | CEmpty => False
    end.

  Lemma si_max0 : si_max BLOCK si0 = L.
  Proof. unfold si_max. cbn [si_sizes si_last]. rewrite len_map. destruct Hnb as [H1 _]. revert H1. generalize ((nb - 1) * BLOCK). intros x H1. lia. Qed.

  Lemma len_block j : len (block_at plain j) = N.min BLOCK (L - j * BLOCK).
  Proof. unfold CompLayer.block_at. apply len_sliceN. Qed.

  Lemma si_ubs0 j : j < nb -> si_ubs BLOCK si0 j = len (block_at plain j).
  Proof.
    intros Hj. unfold si_ubs. cbn [si_sizes si_last]. rewrite len_map, len_block.
    destruct (N.ltb_spec (j + 1) nb) as [H|H]; nia.
  Qed.

  Lemma len_wire : len wire = len (concat cbs) + (12 + 4 * nb) + 4.
  Proof.
    unfold comp_wire, footer_of. rewrite !len_app, !len_le_bytes, len_flat_le4, !len_map.
    cbn [N.of_nat]. lia.
  Qed.

  (* going to the start of block j: sync, new decompressor, block size *)
  Lemma enter_block i j : usable i -> j * BLOCK < L ->
    exists i1 d, sync_inner (Some si0) i (j * BLOCK) = (i1, Ok tt) /\
      new_decompressor_at (Some si0) i1 (j * BLOCK) = Ok d /\
      d_plain d = block_at plain j /\ d_off d = 0 /\ usable (d_in d) /\
      ubs_at (Some si0) (j * BLOCK) = Ok (len (block_at plain j)) /\ j < nb.
  Proof.
    intros [pin HR] Hj.
    assert (Hjn : j < nb) by nia.
    destruct (divmod_mul BLOCK j 0 HB HB) as [Hdiv Hmod]. rewrite N.add_0_r in Hdiv, Hmod.
    assert (Hchk : block_start_check BLOCK (Some si0) (j * BLOCK) = Ok tt).
    { unfold block_start_check, pos_in_stream. rewrite Hmod, si_max0. cbn [N.eqb negb].
      change (0 =? 0) with true. cbn [negb].
      destruct (N.ltb_spec (j * BLOCK) L); [reflexivity | lia]. }
    destruct (nthN_lt_Some cbs j Hjn) as [cb Hcb].
    pose proof (nthN_split cbs j cb Hcb) as Hsplit.
    set (pre := concat (takeN j cbs)).
    assert (Hwire : wire = pre ++ cb ++ (concat (dropN (j + 1) cbs) ++
              footer_of (map (@len N) cbs) lastsz ++ le_bytes 4 (len (footer_of (map (@len N) cbs) lastsz)))).
    { unfold comp_wire. rewrite Hsplit at 1. rewrite concat_app. cbn [concat].
      unfold pre. rewrite <- !app_assoc. reflexivity. }
    assert (Hoff : sum_firstN (map (@len N) cbs) j = len pre) by apply sum_firstN_spec.
    assert (Hle : len pre + len cb <= len wire).
    { rewrite Hwire at 1. rewrite !len_app. lia. }
    unfold CompLayer.sync_inner. rewrite Hchk, Hdiv. cbn [si_sizes]. rewrite Hoff.
    destruct (ref_sk _ _ _ Hin i pin (FromStart (len pre)) (len pre) HR) as (i1 & Hsk & HR1).
    { apply target_start. lia. }
    rewrite Hsk. exists i1.
    unfold CompLayer.new_decompressor_at, CompLayer.ubs_at. rewrite Hchk. cbn [bind].
    unfold si_cbs. rewrite Hdiv. cbn [si_sizes]. rewrite nthN_map, Hcb. cbn [option_map].
    destruct (read_full_spec S wire Rin Hin (dec_fuel (len cb)) i1 (len pre) (len cb) HR1)
      as (i2 & Hrd & HR2).
    { unfold dec_fuel. lia. }
    assert (Hsl : sliceN (len pre) (len cb) wire = cb).
    { rewrite Hwire at 1. apply sliceN_app_mid. }
    cbn [bind]. rewrite Hrd, Hsl.
    eexists. split; [reflexivity|]. split; [reflexivity|]. cbn [d_plain d_off d_in].
    split; [apply Hdec; exact Hcb|]. split; [reflexivity|].
    split; [eexists; exact HR2|]. split; [|exact Hjn].
    f_equal. apply si_ubs0. exact Hjn.
  Qed.

  (* a read inside a block *)
  Lemma cread_indata fuel r u d p n j :
    j < nb -> p = j * BLOCK + r -> r < u -> u = len (block_at plain j) ->
    d_plain d = block_at plain j -> d_off d = r -> usable (d_in d) ->
    exists c' k, cread_aux (Datatypes.S fuel) (mkC (CInData r u d) (Some si0) p) n
                 = (c', Ok (sliceN p k plain)) /\
       k <= n /\ p + k <= L /\ (k = 0 -> n = 0 \/ p = L) /\ Rcomp c' (p + k).
  Proof.
    intros Hj Hp Hru Hu Hpl Hoff Hus.
    pose proof (len_block j) as Hlb.
    assert (HpL : p < L) by lia.
    cbn [CompLayer.cread_aux c_si c_pos c_state pos_in_stream]. rewrite si_max0.
    destruct (N.ltb_spec p L) as [_|?]; [|lia]. cbn [negb].
    destruct (N.ltb_spec u r) as [?|_]; [lia|].
    destruct (N.eqb_spec r u) as [?|_]; [lia|].
    unfold dec_read. rewrite Hpl, Hoff. cbn [d_in d_plain].
    set (m := N.min (u - r) n).
    assert (Hdata : sliceN r m (block_at plain j) = sliceN p m plain).
    { unfold CompLayer.block_at. rewrite sliceN_sliceN by lia.
      rewrite <- Hp. f_equal. lia. }
    rewrite Hdata.
    assert (Hlen : len (sliceN p m plain) = m) by (rewrite len_sliceN; lia).
    rewrite Hlen.
    eexists _, m. split; [reflexivity|].
    split; [lia|]. split; [lia|]. split; [lia|].
    unfold Rcomp. cbn [c_si c_pos c_state]. repeat split; try lia.
    exists j. cbn [d_plain d_off d_in]. repeat split; try assumption; lia.
  Qed.

  (* a read at the start of block j, reader in the Ready state *)
  Lemma cread_ready fuel i p n j :
    usable i -> p = j * BLOCK -> p < L ->
    exists c' k, cread_aux (Datatypes.S (Datatypes.S fuel)) (mkC (CReady i) (Some si0) p) n
                 = (c', Ok (sliceN p k plain)) /\
       k <= n /\ p + k <= L /\ (k = 0 -> n = 0 \/ p = L) /\ Rcomp c' (p + k).
  Proof.
    intros Hus Hp HpL. subst p.
    destruct (enter_block i j Hus HpL) as (i1 & d & Hsync & Hnew & Hpl & Hoff & Hus' & Hubs & Hj).
    cbn [CompLayer.cread_aux c_si c_pos c_state pos_in_stream]. rewrite si_max0.
    destruct (N.ltb_spec (j * BLOCK) L) as [_|?]; [|lia]. cbn [negb].
    rewrite Hsync, Hnew, Hubs. unfold set_state. cbn [c_si c_pos].
    pose proof (len_block j) as Hlb.
    apply (cread_indata fuel 0 _ d (j * BLOCK) n j); try assumption; lia.
  Qed.

  Lemma cread_spec c p n : Rcomp c p ->
    exists c' k, cread c n = (c', Ok (sliceN p k plain)) /\ k <= n /\ p + k <= L /\
                 (k = 0 -> n = 0 \/ p = L) /\ Rcomp c' (p + k).
  Proof.
    intros HR. pose proof HR as (Hsi & Hpos & HpL & Hst).
    destruct c as [cs csi cpos]. cbn [c_si c_pos c_state] in *. subst csi cpos.
    change (cread (mkC cs (Some si0) p) n) with (cread_aux 4 (mkC cs (Some si0) p) n).
    destruct (N.eq_dec p L) as [HeqL|Hne].
    - (* at the end: Ok(0), state unchanged *)
      exists (mkC cs (Some si0) p), 0.
      cbn [CompLayer.cread_aux c_si c_pos pos_in_stream]. rewrite si_max0.
      destruct (N.ltb_spec p L) as [?|_]; [lia|]. cbn [negb]. rewrite sliceN_0, N.add_0_r.
      split; [reflexivity|]. split; [lia|]. split; [lia|]. split; [auto|]. exact HR.
    - assert (HpL' : p < L) by lia.
      destruct cs as [i|r u d|].
      + destruct Hst as [Hus [Hmod|?]]; [|lia].
        apply (cread_ready _ i p n (p / BLOCK)); try assumption.
        pose proof (N.div_mod p BLOCK). lia.
      + destruct Hst as (j & Hj & Hp & Hru & Hu & Hpl & Hoff & Hus).
        destruct (N.eq_dec r u) as [Heq|Hlt].
        * (* end of the block: back to Ready, next block *)
          pose proof (len_block j) as Hlb.
          assert (HuB : u = BLOCK) by lia.
          remember 3%nat as f3 eqn:Hf3.
          cbn [CompLayer.cread_aux c_si c_pos c_state pos_in_stream]. rewrite si_max0.
          destruct (N.ltb_spec p L) as [_|?]; [|lia]. cbn [negb].
          destruct (N.ltb_spec u r) as [?|_]; [lia|].
          destruct (N.eqb_spec r u) as [_|?]; [|lia].
          unfold set_state. cbn [c_si c_pos]. subst f3.
          apply (cread_ready _ (d_in d) p n (j + 1)); try assumption. lia.
        * apply (cread_indata _ r u d p n j); try assumption. lia.
      + destruct Hst.
  Qed.

  Lemma Rcomp_inner c p : Rcomp c p ->
    exists i, into_inner S (c_state c) = Ok i /\ usable i /\ c_state c <> CEmpty.
  Proof.
    intros (_ & _ & _ & Hst). destruct (c_state c) as [i|r u d|].
    - exists i. destruct Hst as [Hus _]. repeat split; [assumption | discriminate].
    - destruct Hst as (j & _ & _ & _ & _ & _ & _ & Hus). exists (d_in d).
      repeat split; [assumption | discriminate].
    - destruct Hst.
  Qed.

  Notation cseek_start_go := (cseek_start_go BLOCK dec S).

  Lemma cseek_go_spec c i q : c_si c = Some si0 -> into_inner S (c_state c) = Ok i -> usable i ->
    q <= L -> exists c', cseek_start_go c si0 q = (c', Ok q) /\ Rcomp c' q.
  Proof.
    intros Hsi Hinto Hus Hq. unfold CompLayer.cseek_start_go.
    rewrite Hsi, Hinto. unfold pos_in_stream. rewrite si_max0.
    pose proof (N.div_mod q BLOCK ltac:(lia)) as Hdm.
    pose proof (N.mod_lt q BLOCK ltac:(lia)) as Hml.
    set (j := q / BLOCK) in *. set (ins := q mod BLOCK) in *.
    assert (Hrounded : q - ins = j * BLOCK) by lia. rewrite Hrounded.
    destruct (N.ltb_spec (j * BLOCK) L) as [Hlt|Hge]; cbn [negb].
    - destruct (enter_block i j Hus Hlt) as (i1 & d & Hsync & Hnew & Hpl & Hoff & Hus' & Hubs & Hj).
      rewrite Hsync, Hnew, Hubs. unfold dec_read. rewrite Hpl, Hoff.
      destruct (N.leb_spec (2 ^ 32) ins) as [?|_]; [lia|].
      eexists. split; [reflexivity|].
      pose proof (len_block j) as Hlb.
      unfold Rcomp. cbn [c_si c_pos c_state]. repeat split; try assumption.
      exists j. cbn [d_plain d_off d_in]. rewrite len_sliceN.
      repeat split; try assumption; lia.
    - assert (HqL : q = L) by lia.
      destruct (N.eqb_spec q L) as [_|?]; [|lia]. cbn [negb].
      eexists. split; [reflexivity|].
      unfold Rcomp. cbn [c_si c_pos c_state]. repeat split; try assumption. right. exact HqL.
  Qed.

  Lemma cseek_start_spec c p q : Rcomp c p -> q <= L ->
    exists c', cseek_start c q = (c', Ok q) /\ Rcomp c' q.
  Proof.
    intros HR Hq. destruct (Rcomp_inner c p HR) as (i & Hinto & Hus & Hne).
    pose proof HR as (Hsi & _).
    unfold CompLayer.cseek_start. rewrite Hsi.
    destruct (c_state c) eqn:Hstc; try congruence;
      apply (cseek_go_spec c i q Hsi); try assumption; rewrite Hstc; exact Hinto.
  Qed.

  Lemma cseek_spec c p w q : Rcomp c p -> target L p w = Some q ->
    exists c', cseek c w = (c', Ok q) /\ Rcomp c' q.
  Proof.
    intros HR Ht. pose proof HR as (Hsi & Hpos & HpL & _).
    unfold target in Ht. unfold CompLayer.cseek. rewrite Hsi.
    destruct w as [q0|d|d].
    - destruct ((0 <=? Z.of_N q0) && (Z.of_N q0 <=? Z.of_N L))%Z eqn:E; [|discriminate].
      injection Ht as <-. rewrite N2Z.id. apply (cseek_start_spec c p); [exact HR | lia].
    - destruct ((0 <=? Z.of_N p + d) && (Z.of_N p + d <=? Z.of_N L))%Z eqn:E; [|discriminate].
      injection Ht as <-. rewrite Hpos.
      destruct (Z.eqb_spec d 0) as [->|Hd].
      + exists c. rewrite Z.add_0_r, N2Z.id. split; [reflexivity | exact HR].
      + destruct (N.ltb_spec p (2 ^ 63)) as [_|?]; [|lia].
        destruct (Z.leb_spec (2 ^ 63) (d + Z.of_N p)) as [?|_]; [lia|].
        destruct (Z.leb_spec 0 (d + Z.of_N p)) as [_|?]; [|lia].
        replace (d + Z.of_N p)%Z with (Z.of_N p + d)%Z by lia.
        apply (cseek_start_spec c p); [exact HR | lia].
    - destruct ((0 <=? Z.of_N L + d) && (Z.of_N L + d <=? Z.of_N L))%Z eqn:E; [|discriminate].
      injection Ht as <-. rewrite si_max0.
      destruct (Z.ltb_spec 0 d) as [?|_]; [lia|].
      destruct (Z.eqb_spec d (- 2 ^ 63)) as [?|_]; [lia|].
      unfold end_target. destruct (N.leb_spec (Z.to_N (- d)) L) as [_|?]; [|lia].
      replace (L - Z.to_N (- d)) with (Z.to_N (Z.of_N L + d)) by lia.
      apply (cseek_start_spec c p); [exact HR | lia].
  Qed.

  (* the compression-layer reader behaves as a cursor over the plaintext *)
  Theorem comp_reader_refines_gen : Refines CompReader plain Rcomp.
  Proof.
    constructor.
    - intros s p (_ & _ & Hp & _). exact Hp.
    - intros s p n HRs. cbn [CompLayer.CompReader rd st].
      destruct (cread_spec s p n HRs) as (s' & kk & H1 & H2 & H3 & H4 & H5).
      exists s', kk. auto.
    - intros s p w q HRs Ht. cbn [CompLayer.CompReader sk st]. apply (cseek_spec s p w q HRs Ht).
  Qed.

  (* seek(End(0)) returns |plain|, whatever the length *)
  Corollary comp_seek_end c p : Rcomp c p -> exists c', cseek c (FromEnd 0) = (c', Ok L) /\ Rcomp c' L.
  Proof.
    intros HR. apply (cseek_spec c p); [exact HR|]. unfold target. rewrite Z.add_0_r.
    destruct ((0 <=? Z.of_N L) && (Z.of_N L <=? Z.of_N L))%Z eqn:E; [|lia].
    rewrite N2Z.id. reflexivity.
  Qed.

  (* ---------- 3. new + initialize ---------- *)

  Variable inner_init : st S -> st S * res unit.     (* the inner layer's initialize *)

  Notation footer := (footer_of (map (@len N) cbs) lastsz).

  Lemma len_footer : len footer = 12 + 4 * nb.
  Proof.
    unfold footer_of. rewrite !len_app, !len_le_bytes, len_flat_le4, len_map. cbn [N.of_nat]. lia.
  Qed.

  Lemma pow256_4 : 256 ^ N.of_nat 4 = 2 ^ 32. Proof. reflexivity. Qed.
  Lemma pow256_8 : 256 ^ N.of_nat 8 = 2 ^ 64. Proof. reflexivity. Qed.

  Lemma read_at i p n pre x post : Rin i p -> wire = pre ++ x ++ post -> p = len pre -> n = len x ->
    forall fuel, (N.to_nat n < fuel)%nat ->
    exists i', read_exact S fuel i n = (i', Ok x) /\ usable i'.
  Proof.
    intros HR Hw Hp Hn fuel Hf.
    destruct (read_exact_spec S wire Rin Hin fuel i p n HR) as (i' & HR' & Hrd); [lia|].
    exists i'. split; [|eexists; exact HR'].
    rewrite Hrd.
    assert (Hle : p + n <= len wire) by (rewrite Hw at 1; rewrite !len_app; lia).
    destruct (N.leb_spec (p + n) (len wire)) as [_|?]; [|lia].
    do 2 f_equal. subst p n. rewrite Hw at 1. apply sliceN_app_mid.
  Qed.

  Lemma read_sizes_info_spec i i0 : inner_init i = (i0, Ok tt) -> usable i0 ->
    exists i', read_sizes_info LIMIT S inner_init i = (i', Ok si0) /\ usable i'.
  Proof.
    intros Hini [pin0 HR0]. unfold read_sizes_info. rewrite Hini. cbn [sbind].
    pose proof len_footer as Hlf. pose proof len_wire as Hlw.
    set (body := concat cbs) in *.
    (* seek(End(-4)) *)
    destruct (ref_sk _ _ _ Hin i0 pin0 (FromEnd (-4)) (len wire - 4) HR0) as (i1 & Hsk1 & HR1).
    { unfold target.
      destruct ((0 <=? Z.of_N (len wire) + -4) && (Z.of_N (len wire) + -4 <=? Z.of_N (len wire)))%Z eqn:E; [|lia].
      f_equal. lia. }
    rewrite Hsk1. cbn [sbind].
    (* read_u32: the footer length *)
    destruct (read_at i1 (len wire - 4) 4 (body ++ footer) (le_bytes 4 (len footer)) [] HR1)
      with (fuel := 5%nat) as (i2 & Hrd2 & [pin2 HR2]).
    { unfold comp_wire. fold body. rewrite app_nil_r, app_assoc. reflexivity. }
    { rewrite len_app. fold body in Hlw. lia. }
    { rewrite len_le_bytes. reflexivity. }
    { lia. }
    rewrite Hrd2. cbn [sbind].
    rewrite le_val_le_bytes by (rewrite pow256_4; lia).
    destruct (N.ltb_spec (len wire - 4) (len footer)) as [?|_]; [lia|].
    (* seek to the start of the footer *)
    destruct (ref_sk _ _ _ Hin i2 pin2 (FromStart (len wire - 4 - len footer))
                (len wire - 4 - len footer) HR2) as (i3 & Hsk3 & HR3).
    { apply target_start. lia. }
    rewrite Hsk3. cbn [sbind].
    destruct (N.ltb_spec (len footer) 8) as [?|_]; [lia|].
    (* the u64 count *)
    destruct (read_at i3 (len wire - 4 - len footer) 8 body (le_bytes 8 nb)
                (flat_map (le_bytes 4) (map (@len N) cbs) ++ le_bytes 4 lastsz ++ le_bytes 4 (len footer)) HR3)
      with (fuel := 9%nat) as (i4 & Hrd4 & [pin4 HR4]).
    { unfold comp_wire, footer_of. fold body. rewrite len_map, <- !app_assoc. reflexivity. }
    { lia. }
    { rewrite len_le_bytes. reflexivity. }
    { lia. }
    rewrite Hrd4. cbn [as_deser sbind].
    rewrite le_val_le_bytes by (rewrite pow256_8; lia).
    destruct (N.ltb_spec LIMIT (8 + (4 * nb + 4))) as [?|_]; [lia|].
    destruct (N.ltb_spec (len footer - 8) (4 * nb + 4)) as [?|_]; [lia|]. cbn [orb].
    (* the sizes and last_block_size *)
    pose proof (read_full_spec S wire Rin Hin) as _.
    assert (HR4' : exists pin, Rin i4 pin /\ pin = len body + 8).
    { destruct (read_exact_spec S wire Rin Hin 9 i3 (len wire - 4 - len footer) 8 HR3) as (i4' & HR4' & Hrd4'); [lia|].
      rewrite Hrd4 in Hrd4'. injection Hrd4' as <- _. eexists. split; [exact HR4'|]. lia. }
    destruct HR4' as (pin4' & HR4' & Hpin4).
    destruct (read_at i4 pin4' (4 * nb + 4) (body ++ le_bytes 8 nb)
                (flat_map (le_bytes 4) (map (@len N) cbs) ++ le_bytes 4 lastsz)
                (le_bytes 4 (len footer)) HR4')
      with (fuel := Datatypes.S (N.to_nat (4 * nb + 4))) as (i5 & Hrd5 & Hus5).
    { unfold comp_wire, footer_of. fold body. rewrite len_map, <- !app_assoc. reflexivity. }
    { rewrite len_app, len_le_bytes. cbn [N.of_nat]. lia. }
    { rewrite len_app, len_flat_le4, len_map, len_le_bytes. cbn [N.of_nat]. lia. }
    { lia. }
    rewrite Hrd5. cbn [as_deser sbind].
    exists i5. split; [|exact Hus5]. do 2 f_equal.
    assert (Hlast : lastsz < 2 ^ 32).
    { destruct Hnb as [Hn1 Hn2]. destruct (N.eq_dec nb 0) as [Hz|Hnz].
      - rewrite Hz in *. lia.
      - replace (nb * BLOCK) with ((nb - 1) * BLOCK + BLOCK) in Hn2 by nia.
        revert Hn1 Hn2. generalize ((nb - 1) * BLOCK). intros x Hn1 Hn2. lia. }
    f_equal.
    - replace (N.to_nat nb) with (length (map (@len N) cbs)) by (rewrite map_length; unfold len; lia).
      apply parse_u32s_flat. apply Forall_map. exact Hcs.
    - replace (4 * nb) with (len (flat_map (le_bytes 4) (map (@len N) cbs)))
        by (rewrite len_flat_le4, len_map; reflexivity).
      rewrite dropN_len_app. apply le_val_le_bytes. rewrite pow256_4. exact Hlast.
  Qed.

  (* new + initialize: the inner layer reports position 0 (before its own initialize), its
     initialize succeeds and leaves it usable *)
  Theorem comp_open_spec_gen i0 i1 i2 :
    sk S i0 (FromCur 0) = (i1, Ok 0) -> inner_init i1 = (i2, Ok tt) -> usable i2 ->
    exists c, comp_open LIMIT S inner_init i0 = (c, Ok tt) /\ Rcomp c 0.
  Proof.
    intros Hsk Hini Hus. unfold comp_open, comp_new.
    rewrite Hsk. unfold comp_initialize. cbn [c_state c_si c_pos].
    destruct (read_sizes_info_spec i1 i2 Hini Hus) as (i3 & Hrs & Hus3).
    rewrite Hrs. eexists. split; [reflexivity|].
    unfold Rcomp. cbn [c_state c_si c_pos]. repeat split; try lia; try assumption.
  Qed.

  (* special case: the inner layer already behaves as a cursor standing at 0 and its
     initialize keeps it usable (raw layer; an initialized encryption layer) *)
  Corollary comp_open_spec_usable i0 :
    (forall i, usable i -> exists i', inner_init i = (i', Ok tt) /\ usable i') -> Rin i0 0 ->
    exists c, comp_open LIMIT S inner_init i0 = (c, Ok tt) /\ Rcomp c 0.
  Proof.
    intros Hinit HR0.
    destruct (ref_sk _ _ _ Hin i0 0 (FromCur 0) 0 HR0) as (i1 & Hsk & HR1).
    { unfold target. destruct ((0 <=? Z.of_N 0 + 0) && (Z.of_N 0 + 0 <=? Z.of_N (len wire)))%Z eqn:E; [reflexivity|lia]. }
    destruct (Hinit i1 (ex_intro _ 0 HR1)) as (i2 & Hini & Hus).
    apply (comp_open_spec_gen i0 i1 i2 Hsk Hini Hus).
  Qed.

End CompProofs.

(* ---------- 4. the canonical format of a compressor with dec (comp x) = x ---------- *)

Section Canonical.
  Variables BLOCK LIMIT : N.
  Local Hint Extern 0 Limit => exact LIMIT : typeclass_instances.
  Hypothesis HB : 0 < BLOCK.
  Hypothesis HB32 : BLOCK < 2 ^ 32.
  Variables comp dec : bytes -> bytes.
  Hypothesis Hcomp : forall x, dec (comp x) = x.
  Variable S : Stream.
  Variable plain : bytes.
  Variable nb : N.
  Notation L := (len plain).
  Hypothesis Hnb : (nb - 1) * BLOCK <= L /\ L <= nb * BLOCK.
  Hypothesis Hcs : forall j, j < nb -> len (comp (block_at BLOCK plain j)) < 2 ^ 32.
  Hypothesis Hlim : 12 + 4 * nb <= LIMIT /\ 12 + 4 * nb < 2 ^ 32.
  Hypothesis HL : L < 2 ^ 63.

  Definition cblocks : list (list N) := map comp (blocks_n BLOCK (N.to_nat nb) plain).

  Lemma len_cblocks : len cblocks = nb.
  Proof using. clear. unfold cblocks, blocks_n, len. rewrite !map_length, seq_length. lia. Qed.

  Lemma nthN_cblocks j cb : nthN cblocks j = Some cb -> j < nb /\ cb = comp (block_at BLOCK plain j).
  Proof using.
    clear. intros H. pose proof (nthN_Some_lt _ _ _ H) as Hj. rewrite len_cblocks in Hj.
    split; [exact Hj|].
    unfold cblocks, blocks_n in H. rewrite !nthN_map, nthN_nth_error in H.
    rewrite (nth_error_nth' _ 0%nat) in H by (rewrite seq_length; lia).
    rewrite seq_nth in H by lia. cbn [option_map Nat.add] in H.
    injection H as <-. rewrite N2Nat.id. reflexivity.
  Qed.

  Lemma cblocks_dec j cb : nthN cblocks j = Some cb -> dec cb = block_at BLOCK plain j.
  Proof using Hcomp. clear - Hcomp. intros H. destruct (nthN_cblocks j cb H) as [_ ->]. apply Hcomp. Qed.

  Lemma cblocks_small : Forall (fun cb : list N => len cb < 2 ^ 32) cblocks.
  Proof using Hcs.
    clear - Hcs. apply Forall_forall. intros cb Hin.
    apply In_nth_error in Hin. destruct Hin as [k Hk].
    assert (Hk' : nthN cblocks (N.of_nat k) = Some cb) by (rewrite nthN_nth_error, Nat2N.id; exact Hk).
    destruct (nthN_cblocks _ _ Hk') as [Hj ->]. apply Hcs. exact Hj.
  Qed.

  Lemma format_n_wire :
    comp_format_n BLOCK comp nb plain = comp_wire cblocks (L - (len cblocks - 1) * BLOCK).
  Proof using. clear. rewrite len_cblocks. reflexivity. Qed.

  Variable Rin : st S -> N -> Prop.
  Hypothesis Hin : Refines S (comp_format_n BLOCK comp nb plain) Rin.

  Definition Rcompn := Rcomp BLOCK S plain cblocks Rin.

  Theorem comp_reader_refines_n : Refines (CompReader BLOCK dec S) plain Rcompn.
  Proof.
    rewrite format_n_wire in Hin.
    apply (comp_reader_refines_gen BLOCK LIMIT HB HB32 dec S plain cblocks); try assumption;
      rewrite ?len_cblocks; try assumption.
    exact cblocks_dec.
  Qed.

  Theorem comp_open_spec_n (inner_init : st S -> st S * res unit) i0 i1 i2 :
    sk S i0 (FromCur 0) = (i1, Ok 0) -> inner_init i1 = (i2, Ok tt) -> (exists pin, Rin i2 pin) ->
    exists c, comp_open LIMIT S inner_init i0 = (c, Ok tt) /\ Rcompn c 0.
  Proof.
    intros Hsk Hini Hus. rewrite format_n_wire in Hin.
    apply (comp_open_spec_gen BLOCK LIMIT HB HB32 dec S plain cblocks) with (i1 := i1) (i2 := i2);
      try assumption; rewrite ?len_cblocks; try assumption.
    - exact cblocks_dec.
    - exact cblocks_small.
  Qed.
End Canonical.

(* the number of blocks of the canonical writer satisfies the block-count condition *)
Lemma nblocks_ok BLOCK L : 0 < BLOCK ->
  (nblocks BLOCK L - 1) * BLOCK <= L /\ L <= nblocks BLOCK L * BLOCK.
Proof.
  intros HB. unfold nblocks. destruct (N.eqb_spec L 0) as [->|HL]; [rewrite N.sub_0_l; lia|].
  pose proof (N.div_mod (L - 1) BLOCK ltac:(lia)) as H1.
  pose proof (N.mod_lt (L - 1) BLOCK ltac:(lia)) as H2.
  set (q := (L - 1) / BLOCK) in *. replace (q + 1 - 1) with q by lia. nia.
Qed.

(* the canonical writer's format (nblocks |plain| blocks) *)
Section CanonicalFormat.
  Variables BLOCK LIMIT : N.
  Local Hint Extern 0 Limit => exact LIMIT : typeclass_instances.
  Hypothesis HB : 0 < BLOCK.
  Hypothesis HB32 : BLOCK < 2 ^ 32.
  Variables comp dec : bytes -> bytes.
  Hypothesis Hcomp : forall x, dec (comp x) = x.
  Variable S : Stream.
  Variable plain : bytes.
  Notation nb := (nblocks BLOCK (len plain)).
  Hypothesis Hcs : forall j, j < nb -> len (comp (block_at BLOCK plain j)) < 2 ^ 32.
  Hypothesis Hlim : 12 + 4 * nb <= LIMIT /\ 12 + 4 * nb < 2 ^ 32.
  Hypothesis HL : len plain < 2 ^ 63.
  Variable Rin : st S -> N -> Prop.
  Hypothesis Hin : Refines S (comp_format BLOCK comp plain) Rin.

  Theorem comp_reader_refines :
    Refines (CompReader BLOCK dec S) plain (Rcompn BLOCK comp S plain nb Rin).
  Proof.
    apply (comp_reader_refines_n BLOCK LIMIT HB HB32 comp dec Hcomp S plain nb); try assumption.
    apply nblocks_ok; exact HB.
  Qed.

  Theorem comp_open_spec (inner_init : st S -> st S * res unit) i0 i1 i2 :
    sk S i0 (FromCur 0) = (i1, Ok 0) -> inner_init i1 = (i2, Ok tt) -> (exists pin, Rin i2 pin) ->
    exists c, comp_open LIMIT S inner_init i0 = (c, Ok tt) /\ Rcompn BLOCK comp S plain nb Rin c 0.
  Proof.
    apply (comp_open_spec_n BLOCK LIMIT HB HB32 comp dec Hcomp S plain nb); try assumption.
    apply nblocks_ok; exact HB.
  Qed.

  (* "the end of the stream is found correctly whatever its length" *)
  Theorem comp_seek_end_canonical c p : Rcompn BLOCK comp S plain nb Rin c p ->
    exists c', cseek BLOCK dec S c (FromEnd 0) = (c', Ok (len plain)) /\
               Rcompn BLOCK comp S plain nb Rin c' (len plain).
  Proof.
    intros HR. pose proof (nblocks_ok BLOCK (len plain) HB) as Hnb.
    unfold Rcompn in *.
    assert (Hf := format_n_wire BLOCK comp plain nb).
    unfold comp_format in Hin. rewrite Hf in Hin.
    apply (comp_seek_end BLOCK LIMIT HB HB32 dec S plain (cblocks BLOCK comp plain nb)) with (p := p);
      rewrite ?len_cblocks; try assumption.
    - exact (cblocks_dec BLOCK comp dec Hcomp plain nb).
    - rewrite len_cblocks in Hin. exact Hin.
  Qed.
End CanonicalFormat.

Lemma toy_dec_comp x : toy_dec (toy_comp x) = x.
Proof. unfold toy_dec, toy_comp. cbn [tl]. apply rev_involutive. Qed.
