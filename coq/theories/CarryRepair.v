(* CarryRepair.v — work package `carry`, part 3: the repair theorems (C02, C05) restated and proved
   about the GENERATED `ArchiveFailSafeReader::convert_to_archive` (gen/Src3r.v, over the generated
   ArchiveWriter of gen/Src2.v).  Composition of `convert_to_archive_sim` (SrcTie3RepairLoop.v) with
   the model theorems of RepairProofs6.v; the fuel premise is discharged as there (n + 1 suffices).
   Premise on the source: `RdBounded` (a read delivers at most what was asked, in EVERY state) — proved
   here for `Cursor` and for `Throttled` sources with any schedule.
   For an abstract `Refines S b R` source the premise is NOT derivable: Refines constrains reads only
   from states related by R, RdBounded quantifies over all states of S; `convert_to_archive_sim` would
   have to be re-proved with the bound restricted to an invariant closed under the reads and seeks of
   the run (its content / buf_fill lemmas use the bound at every read).  Missing, said in the report.
   ArchiveFileBlock::from is the translated gen/Src3b.v function (SrcTie3RepairLoop.block_from,
   = Blocks.parse_block by SrcTie3Block.block_from_src): no trusted link is left (work package blockT). *)
From MLA Require Import Limit.
From MLA Require Import Base Stream Blocks Writer Repair RepairSpec RepairPure
  RepairProofs2 RepairProofs5 RepairProofs6 SrcTie2 SrcTie3Repair SrcTie3RepairLoop.
From MLAGen Require Src2 Src3r.
From Coq Require Import ZifyBool ZifyNat ZifyN.
Open Scope N_scope.

Lemma RdBounded_throttled b : RdBounded (Throttled b).
Proof.
  intros [pos sched] n s' d. cbn [Throttled rd]. unfold throttled_rd.
  destruct (match sched with [] => (n, []) | [k] => (N.max 1 k, [k]) | k :: (_ :: _) as r => (N.max 1 k, r) end) as [k sched'].
  unfold cursor_rd. intros [= _ <-]. rewrite len_sliceN. lia.
Qed.

Section CarryRepair.
  Context {LIM : Limit}.
  Variable FNMAX CACHE : N.
  Hypothesis HFN : FNMAX < 2 ^ 64.
  Hypothesis HCACHE : 0 < CACHE.
  Variables T_START T_CONTENT T_EOA T_EOF : N.
  Hypothesis Htags : T_START <> T_CONTENT /\ T_START <> T_EOA /\ T_START <> T_EOF /\
                     T_CONTENT <> T_EOA /\ T_CONTENT <> T_EOF /\ T_EOA <> T_EOF.
  Variable H : bytes -> bytes.
  Hypothesis H_len : forall x, len (H x) = 32.

  Notation body := (body T_START T_CONTENT T_EOA T_EOF).
  Notation repair := (repair FNMAX CACHE T_START T_CONTENT T_EOA T_EOF H).
  Notation wf_blocks := (wf_blocks FNMAX H).
  Notation good_output := (good_output FNMAX T_START T_CONTENT T_EOA T_EOF H).
  (* the TRANSLATED function: output footer in insertion order, layers below accept everything,
     blocks parsed by the translated ArchiveFileBlock::from (gen/Src3b.v) *)
  Notation g_conv S := (Src3r.convert_to_archive FNMAX CACHE T_START T_CONTENT T_EOA T_EOF H
                          (footer_ser (fun f => f)) (fun _ => Ok tt) S
                          (block_from FNMAX T_START T_CONTENT T_EOA T_EOF S)).

  (* whatever the model's repair returns Ok, the translated function returns: same status and
     unfinished list (read off the returned FailSafeReadError), same output writer *)
  Lemma conv_of_repair S fuel s0 status unf out : RdBounded S ->
    repair S fuel s0 w_init = Ok (status, unf, out) ->
    exists l e, g_conv S fuel s0 aw_init = (l, Ok e) /\ status_of e = (status, unf) /\
                absW (Src3r.l_output S l) = out /\ RInv (Src3r.l_output S l).
  Proof.
    intros HB Hr. destruct RInv_init as (HI & HA). fold aw_init in HI, HA.
    pose proof (convert_to_archive_sim FNMAX CACHE T_START T_CONTENT T_EOA T_EOF H S HCACHE HB fuel s0 aw_init HI) as Hs.
    rewrite HA, Hr in Hs. exact Hs.
  Qed.

  (* SerializationError (EDeser: the footer of the repaired archive exceeds
     BINCODE_MAX_DESERIALIZE or the u32 length field; returned by finalize AFTER the end marker is
     written): when the translated function does not return it, neither does the model *)
  Lemma repair_ser_of_conv S fuel s0 : RdBounded S ->
    snd (g_conv S fuel s0 aw_init) <> Err EDeser -> repair S fuel s0 w_init <> Err EDeser.
  Proof.
    intros HB Hne Hr. destruct RInv_init as (HI & HA). fold aw_init in HI, HA.
    pose proof (convert_to_archive_sim FNMAX CACHE T_START T_CONTENT T_EOA T_EOF H S HCACHE HB fuel s0 aw_init HI) as Hs.
    rewrite HA, Hr in Hs. destruct Hs as (l & Eg). apply Hne. rewrite Eg. reflexivity.
  Qed.

  Section OneRun.
    Variable S : Stream.
    Hypothesis HB : RdBounded S.
    Variable w : bytes.
    Variable R : st S -> N -> Prop.
    Hypothesis HR : Refines S w R.
    Variable bl : list block.
    Variable trailer : bytes.
    Hypothesis Hwf : wf_blocks bl.
    Hypothesis Htr : In BEnd bl \/ trailer = [].
    Hypothesis Hpre : prefix w (body bl ++ trailer).
    Variable s0 : st S.
    Hypothesis Hs0 : R s0 0.
    Variable fuel : nat.
    Hypothesis Hfuel : (N.to_nat (len w) < fuel)%nat.
    (* the translated function did not fail with SerializationError (footer within the bincode limit) *)
    Hypothesis Hser : snd (g_conv S fuel s0 aw_init) <> Err EDeser.
    Let Hser_m : repair S fuel s0 w_init <> Err EDeser := repair_ser_of_conv S fuel s0 HB Hser.

    (* C02, exact: status, unfinished names and recovered records are those of the pure `cutb` *)
    Theorem repair_exact_src :
      exists l e obl,
        g_conv S fuel s0 aw_init = (l, Ok e) /\
        status_of e = (if snd (cutb bl (len w)) then FEndOfData else FEofNextBlock,
                       unfinished_of (recovered bl (len w))) /\
        RInv (Src3r.l_output S l) /\
        good_output (absW (Src3r.l_output S l)) obl /\ Forall2 same (recovered bl (len w)) (files_of obl).
    Proof.
      destruct (repair_exact FNMAX CACHE HFN HCACHE _ _ _ _ Htags H H_len S w R HR bl trailer Hwf Htr Hpre s0 Hs0 fuel Hfuel Hser_m)
        as (out & obl & Hr & Hgo & Hsame).
      destruct (conv_of_repair S fuel s0 _ _ _ HB Hr) as (l & e & Hg & Hst & Ho & HI).
      exists l, e, obl. rewrite Ho. auto.
    Qed.

    (* C02, sound for any delivered prefix *)
    Theorem repair_sound_any_prefix_src :
      exists l e status unfinished obl,
        g_conv S fuel s0 aw_init = (l, Ok e) /\ status_of e = (status, unfinished) /\
        good_output (absW (Src3r.l_output S l)) obl /\
        (forall g, In g (files_of obl) ->
           exists f, In f (files_of bl) /\ f_name f = f_name g /\ prefix (f_data g) (f_data f)) /\
        (forall name, prefix (content_of (files_of obl) name) (content_of (files_of bl) name)) /\
        (forall g, In g (files_of obl) -> ~ In (f_name g) unfinished ->
           exists f, In f (files_of bl) /\ f_name f = f_name g /\ f_data f = f_data g /\ f_ended f = true) /\
        (status = FEndOfData ->
           unfinished = [] /\ Forall2 same (files_of bl) (files_of obl) /\
           (forall f, In f (files_of bl) -> f_ended f = true)) /\
        (status = FEndOfData \/ status = FEofNextBlock).
    Proof.
      destruct (repair_sound_any_prefix FNMAX CACHE HFN HCACHE _ _ _ _ Htags H H_len S w R HR bl trailer Hwf Htr Hpre s0 Hs0 fuel Hfuel Hser_m)
        as (status & unf & out & obl & Hr & Hrest).
      destruct (conv_of_repair S fuel s0 _ _ _ HB Hr) as (l & e & Hg & Hst & Ho & HI).
      exists l, e, status, unf, obl. rewrite Ho. auto.
    Qed.

    (* C05: exactly the content bytes that lie in the delivered prefix are recovered *)
    Theorem repair_max_any_prefix_src :
      exists l e obl,
        g_conv S fuel s0 aw_init = (l, Ok e) /\
        good_output (absW (Src3r.l_output S l)) obl /\
        (forall f, In f (files_of bl) ->
           content_of (files_of obl) (f_name f) = present (f_id f) bl (len w)).
    Proof.
      destruct (repair_max_any_prefix FNMAX CACHE HFN HCACHE _ _ _ _ Htags H H_len S w R HR bl trailer Hwf Htr Hpre s0 Hs0 fuel Hfuel Hser_m)
        as (status & unf & out & obl & Hr & Hrest).
      destruct (conv_of_repair S fuel s0 _ _ _ HB Hr) as (l & e & Hg & Hst & Ho & HI).
      exists l, e, obl. rewrite Ho. auto.
    Qed.
  End OneRun.

  Section Cuts.
    Variable bl : list block.
    Variable trailer : bytes.
    Hypothesis Hwf : wf_blocks bl.
    Hypothesis Htr : In BEnd bl \/ trailer = [].
    Let stream := body bl ++ trailer.

    (* C02: every cut point n of the archive body (+ trailer); fuel n + 1 suffices; the translated
       function returns Ok — never Err, never a panic *)
    Theorem repair_cut_sound_src n S R s0 fuel :
      RdBounded S -> Refines S (takeN n stream) R -> R s0 0 -> (N.to_nat n < fuel)%nat ->
      snd (g_conv S fuel s0 aw_init) <> Err EDeser ->
      exists l e status unfinished obl,
        g_conv S fuel s0 aw_init = (l, Ok e) /\ status_of e = (status, unfinished) /\
        good_output (absW (Src3r.l_output S l)) obl /\
        (forall g, In g (files_of obl) ->
           exists f, In f (files_of bl) /\ f_name f = f_name g /\ prefix (f_data g) (f_data f)) /\
        (forall name, prefix (content_of (files_of obl) name) (content_of (files_of bl) name)) /\
        (forall g, In g (files_of obl) -> ~ In (f_name g) unfinished ->
           exists f, In f (files_of bl) /\ f_name f = f_name g /\ f_data f = f_data g /\ f_ended f = true) /\
        (status = FEndOfData ->
           unfinished = [] /\ Forall2 same (files_of bl) (files_of obl) /\
           (forall f, In f (files_of bl) -> f_ended f = true)) /\
        (status = FEndOfData \/ status = FEofNextBlock).
    Proof.
      intros HB HR Hs0 Hfuel Hser.
      apply (repair_sound_any_prefix_src S HB (takeN n stream) R HR bl trailer Hwf Htr (prefix_takeN _ _) s0 Hs0);
        [rewrite len_takeN; lia | exact Hser].
    Qed.

    (* the status / unfinished list / records of the pure spec `cutb` at every cut *)
    Theorem repair_cut_exact_src n S R s0 fuel :
      RdBounded S -> Refines S (takeN n stream) R -> R s0 0 -> (N.to_nat n < fuel)%nat ->
      snd (g_conv S fuel s0 aw_init) <> Err EDeser ->
      exists l e obl,
        g_conv S fuel s0 aw_init = (l, Ok e) /\
        status_of e = (if snd (cutb bl (N.min n (len stream))) then FEndOfData else FEofNextBlock,
                       unfinished_of (recovered bl (N.min n (len stream)))) /\
        RInv (Src3r.l_output S l) /\
        good_output (absW (Src3r.l_output S l)) obl /\
        Forall2 same (recovered bl (N.min n (len stream))) (files_of obl).
    Proof.
      intros HB HR Hs0 Hfuel Hser. rewrite <- len_takeN.
      apply (repair_exact_src S HB (takeN n stream) R HR bl trailer Hwf Htr (prefix_takeN _ _) s0 Hs0);
        [rewrite len_takeN; lia | exact Hser].
    Qed.

    (* C05: the whole archive: the returned value reads as EndOfOriginalArchiveData with nothing
       unfinished (status_of: the stopping status and the list of an UnfinishedFiles wrapper, [] without
       one), every file complete *)
    Theorem repair_intact_complete_src S R s0 fuel :
      RdBounded S -> In BEnd bl -> Refines S stream R -> R s0 0 -> (N.to_nat (len stream) < fuel)%nat ->
      snd (g_conv S fuel s0 aw_init) <> Err EDeser ->
      exists l e obl,
        g_conv S fuel s0 aw_init = (l, Ok e) /\ status_of e = (FEndOfData, []) /\
        good_output (absW (Src3r.l_output S l)) obl /\ Forall2 same (files_of bl) (files_of obl) /\
        (forall f, In f (files_of bl) -> f_ended f = true).
    Proof.
      intros HB Hend HR Hs0 Hfuel Hser.
      destruct (repair_intact_complete FNMAX CACHE HFN HCACHE _ _ _ _ Htags H H_len bl trailer Hwf Htr S R s0 fuel Hend HR Hs0 Hfuel
                  (repair_ser_of_conv S fuel s0 HB Hser))
        as (out & obl & Hr & Hgo & Hsame & Hall).
      destruct (conv_of_repair S fuel s0 _ _ _ HB Hr) as (l & e & Hg & Hst & Ho & HI).
      exists l, e, obl. rewrite Ho. auto.
    Qed.

    (* C05: nothing present before the cut is lost *)
    Theorem repair_max_src n S R s0 fuel :
      RdBounded S -> Refines S (takeN n stream) R -> R s0 0 -> (N.to_nat n < fuel)%nat ->
      snd (g_conv S fuel s0 aw_init) <> Err EDeser ->
      exists l e obl,
        g_conv S fuel s0 aw_init = (l, Ok e) /\
        good_output (absW (Src3r.l_output S l)) obl /\
        (forall f, In f (files_of bl) ->
           content_of (files_of obl) (f_name f) = present (f_id f) bl (N.min n (len stream))).
    Proof.
      intros HB HR Hs0 Hfuel Hser. rewrite <- len_takeN.
      apply (repair_max_any_prefix_src S HB (takeN n stream) R HR bl trailer Hwf Htr (prefix_takeN _ _) s0 Hs0);
        [rewrite len_takeN; lia | exact Hser].
    Qed.

    (* ---------- the two concrete source families: RdBounded discharged ---------- *)
    Definition CutConclusion (S : Stream) (fuel : nat) (s0 : st S) : Prop :=
      exists l e status unfinished obl,
        g_conv S fuel s0 aw_init = (l, Ok e) /\ status_of e = (status, unfinished) /\
        good_output (absW (Src3r.l_output S l)) obl /\
        (forall g, In g (files_of obl) ->
           exists f, In f (files_of bl) /\ f_name f = f_name g /\ prefix (f_data g) (f_data f)) /\
        (forall name, prefix (content_of (files_of obl) name) (content_of (files_of bl) name)) /\
        (forall g, In g (files_of obl) -> ~ In (f_name g) unfinished ->
           exists f, In f (files_of bl) /\ f_name f = f_name g /\ f_data f = f_data g /\ f_ended f = true) /\
        (status = FEndOfData ->
           unfinished = [] /\ Forall2 same (files_of bl) (files_of obl) /\
           (forall f, In f (files_of bl) -> f_ended f = true)) /\
        (status = FEndOfData \/ status = FEofNextBlock).

    Theorem repair_cut_sound_cursor_src n fuel : (N.to_nat n < fuel)%nat ->
      snd (g_conv (Cursor (takeN n stream)) fuel 0 aw_init) <> Err EDeser ->
      CutConclusion (Cursor (takeN n stream)) fuel 0.
    Proof.
      intros Hfuel Hser. apply (repair_cut_sound_src n (Cursor (takeN n stream)) _ 0 fuel (RdBounded_cursor _) (cursor_refines _));
        [split; [reflexivity | apply N.le_0_l] | exact Hfuel | exact Hser].
    Qed.
    (* a source delivering short reads after ANY schedule *)
    Theorem repair_cut_sound_throttled_src n sched fuel : (N.to_nat n < fuel)%nat ->
      snd (g_conv (Throttled (takeN n stream)) fuel (0, sched) aw_init) <> Err EDeser ->
      CutConclusion (Throttled (takeN n stream)) fuel (0, sched).
    Proof.
      intros Hfuel Hser. apply (repair_cut_sound_src n (Throttled (takeN n stream)) _ (0, sched) fuel (RdBounded_throttled _) (throttled_refines _));
        [split; [reflexivity | apply N.le_0_l] | exact Hfuel | exact Hser].
    Qed.
    Theorem repair_intact_complete_throttled_src sched fuel :
      In BEnd bl -> (N.to_nat (len stream) < fuel)%nat ->
      snd (g_conv (Throttled stream) fuel (0, sched) aw_init) <> Err EDeser ->
      exists l e obl,
        g_conv (Throttled stream) fuel (0, sched) aw_init = (l, Ok e) /\ status_of e = (FEndOfData, []) /\
        good_output (absW (Src3r.l_output _ l)) obl /\ Forall2 same (files_of bl) (files_of obl) /\
        (forall f, In f (files_of bl) -> f_ended f = true).
    Proof.
      intros Hend Hfuel Hser.
      apply (repair_intact_complete_src (Throttled stream) _ (0, sched) fuel (RdBounded_throttled _) Hend (throttled_refines _));
        [split; [reflexivity | apply N.le_0_l] | exact Hfuel | exact Hser].
    Qed.
  End Cuts.
End CarryRepair.
