(* RepairProofs3.v — the association lists of the repair loop, the correspondence between
   the records of the input and of the output, and the 'content loop writing into the
   represented writer. *)
From MLA Require Import Limit.
From MLA Require Import Base Stream Blocks Writer Repair RepairSpec RepairPure RepairProofs1 RepairProofs2.
From Coq Require Import ZifyBool ZifyNat ZifyN.
Open Scope N_scope.

(* ---------- assoc / assoc_set / assoc_del / mem ---------- *)
Lemma assoc_cons {A} k' (v : A) r k : assoc ((k', v) :: r) k = if k' =? k then Some v else assoc r k.
Proof. reflexivity. Qed.
Lemma assoc_nil {A} k : @assoc A [] k = None.
Proof. reflexivity. Qed.

Lemma existsb_assoc {A} (l : list (N * A)) k :
  existsb (fun e => fst e =? k) l = match assoc l k with Some _ => true | None => false end.
Proof.
  induction l as [|[a b] r IH]; [reflexivity|]. cbn [existsb fst]. rewrite assoc_cons.
  destruct (a =? k); [reflexivity | exact IH].
Qed.
Lemma assoc_map_set {A} (l : list (N * A)) k v k' :
  assoc (map (fun e => if fst e =? k then (k, v) else e) l) k' =
  if k =? k' then match assoc l k with Some _ => Some v | None => None end else assoc l k'.
Proof.
  induction l as [|[a b] r IH]; cbn [map fst].
  - rewrite !assoc_nil. now destruct (k =? k').
  - destruct (N.eqb_spec a k) as [->|Hak]; rewrite !assoc_cons.
    + rewrite N.eqb_refl. destruct (N.eqb_spec k k') as [Ek|Hk]; [reflexivity|].
      rewrite IH. destruct (N.eqb_spec k k'); [contradiction | reflexivity].
    + rewrite IH. destruct (N.eqb_spec k k') as [Ek|Hk].
      * subst k'. destruct (N.eqb_spec a k); [contradiction | reflexivity].
      * reflexivity.
Qed.
Lemma assoc_snoc {A} (l : list (N * A)) k v k' :
  assoc (l ++ [(k, v)]) k' =
  match assoc l k' with Some x => Some x | None => if k =? k' then Some v else None end.
Proof.
  induction l as [|[a b] r IH]; cbn [app]; rewrite ?assoc_cons, ?assoc_nil; [reflexivity|].
  destruct (a =? k'); [reflexivity | exact IH].
Qed.
Lemma assoc_set_spec {A} (l : list (N * A)) k v k' :
  assoc (assoc_set l k v) k' = if k =? k' then Some v else assoc l k'.
Proof.
  unfold assoc_set. rewrite existsb_assoc. destruct (assoc l k) eqn:E.
  - rewrite assoc_map_set, E. reflexivity.
  - rewrite assoc_snoc. destruct (N.eqb_spec k k') as [Ek|Hk]; [subst k'; now rewrite E|].
    now destruct (assoc l k').
Qed.
Lemma assoc_del_spec {A} (l : list (N * A)) k k' :
  assoc (assoc_del l k) k' = if k =? k' then None else assoc l k'.
Proof.
  unfold assoc_del. induction l as [|[a b] r IH]; cbn [filter fst].
  - rewrite assoc_nil. now destruct (k =? k').
  - destruct (N.eqb_spec a k) as [->|Hak]; cbn [negb]; rewrite ?assoc_cons, IH.
    + destruct (N.eqb_spec k k'); reflexivity.
    + destruct (N.eqb_spec k k') as [Ek|Hk]; [subst k'|reflexivity].
      destruct (N.eqb_spec a k); [contradiction | reflexivity].
Qed.
Lemma mem_snoc l x id : mem (l ++ [x]) id = mem l id || (id =? x).
Proof. unfold mem. rewrite existsb_app. cbn [existsb]. now rewrite orb_false_r. Qed.

(* ---------- input records / output records ---------- *)
Definition sim (f g : frec) : Prop :=
  f_name f = f_name g /\ f_data f = f_data g /\ f_ended f = f_ended g.
Definition pairs (fs ofs : list frec) : list (N * N) := combine (map f_id fs) (map f_id ofs).

Lemma sim_find_name_none fs ofs name : Forall2 sim fs ofs ->
  find_name fs name = None -> find_name ofs name = None.
Proof.
  induction 1 as [|x y r r' Hxy Hr IH]; [auto|]. rewrite !find_name_cons.
  destruct Hxy as (<- & _). destruct (bytes_eqb (f_name x) name); [discriminate | exact IH].
Qed.
Lemma pairs_none fs ofs id : Forall2 sim fs ofs -> find_id fs id = None -> assoc (pairs fs ofs) id = None.
Proof.
  unfold pairs. induction 1 as [|x y r r' Hxy Hr IH]; [reflexivity|].
  rewrite find_id_cons. cbn [map combine]. rewrite assoc_cons.
  destruct (f_id x =? id); [discriminate | exact IH].
Qed.
Lemma pairs_snoc fs ofs x y : Forall2 sim fs ofs ->
  pairs (fs ++ [x]) (ofs ++ [y]) = pairs fs ofs ++ [(f_id x, f_id y)].
Proof.
  unfold pairs. induction 1 as [|a b r r' Hab Hr IH]; [reflexivity|].
  cbn [app map combine]. now rewrite IH.
Qed.

(* the record of input id `id` and its partner on the output side, with the lists around *)
Lemma split_pair fs ofs id f : Forall2 sim fs ofs -> ids_nodup fs -> ids_nodup ofs ->
  find_id fs id = Some f ->
  exists fs1 fs2 g ofs1 ofs2,
    fs = fs1 ++ f :: fs2 /\ ofs = ofs1 ++ g :: ofs2 /\
    Forall2 sim fs1 ofs1 /\ sim f g /\ Forall2 sim fs2 ofs2 /\
    ~ In id (map f_id fs1) /\ ~ In id (map f_id fs2) /\
    ~ In (f_id g) (map f_id ofs1) /\ ~ In (f_id g) (map f_id ofs2) /\
    f_id f = id /\ assoc (pairs fs ofs) id = Some (f_id g) /\ find_id ofs (f_id g) = Some g.
Proof.
  unfold ids_nodup, pairs.
  induction 1 as [|x y r r' Hxy Hr IH]; [discriminate|].
  cbn [map]. intros Hn Hn' Hf. inversion Hn as [|? ? Hx Hnr]; inversion Hn' as [|? ? Hy Hnr']; subst.
  rewrite find_id_cons in Hf. destruct (N.eqb_spec (f_id x) id) as [E|E].
  - injection Hf as <-. exists [], r, y, [], r'. cbn [app map combine In].
    rewrite assoc_cons, find_id_cons, E, !N.eqb_refl. subst id. repeat split; auto; apply Hxy.
  - destruct (IH Hnr Hnr' Hf) as (fs1 & fs2 & g & ofs1 & ofs2 & -> & -> & S1 & Sg & S2 & N1 & N2 & M1 & M2 & Ef & Ea & Eg).
    exists (x :: fs1), fs2, g, (y :: ofs1), ofs2. cbn [app map combine In].
    rewrite assoc_cons, find_id_cons.
    destruct (N.eqb_spec (f_id x) id); [contradiction|].
    assert (Hyg : f_id y <> f_id g).
    { intros Hyg. apply Hy. rewrite Hyg, map_app. cbn [map]. apply in_or_app. right. now left. }
    destruct (N.eqb_spec (f_id y) (f_id g)); [contradiction|].
    assert (S1' : Forall2 sim (x :: fs1) (y :: ofs1)) by (constructor; assumption).
    repeat split; auto; try apply Sg; intuition.
Qed.

Lemma map_upd_split (u : frec -> frec) id fs1 f fs2 :
  (forall x, f_id x <> id -> u x = x) ->
  ~ In id (map f_id fs1) -> ~ In id (map f_id fs2) ->
  map u (fs1 ++ f :: fs2) = fs1 ++ u f :: fs2.
Proof.
  intros Hu N1 N2.
  assert (Hid : forall l, ~ In id (map f_id l) -> map u l = l).
  { induction l as [|x l IH]; cbn [map In]; [reflexivity|]. intros Hn.
    rewrite Hu, IH; [reflexivity | |]; intuition. }
  rewrite map_app. cbn [map]. now rewrite (Hid _ N1), (Hid _ N2).
Qed.

Lemma upd_data_nil i f : upd_data i [] f = f.
Proof. unfold upd_data. destruct (f_id f =? i); [|reflexivity]. destruct f; cbn. now rewrite app_nil_r. Qed.
Lemma upd_data_twice i d1 d2 f : upd_data i d2 (upd_data i d1 f) = upd_data i (d1 ++ d2) f.
Proof.
  unfold upd_data. destruct (f_id f =? i) eqn:E; cbn [f_id f_name f_data f_ended]; rewrite E; [|reflexivity].
  now rewrite app_assoc.
Qed.
Lemma takeN_min_len {A} n (l : list A) : takeN (N.min n (len l)) l = takeN n l.
Proof.
  destruct (N.le_gt_cases n (len l)); [f_equal; lia|].
  rewrite !takeN_all by lia. reflexivity.
Qed.

Ltac split5 := split; [|split; [|split; [|split]]].

Section Content.
  Context {LIM : Limit}.
  Variable S : Stream.
  Variable w : bytes.
  Variable R : st S -> N -> Prop.
  Hypothesis HR : Refines S w R.
  Variable FNMAX CACHE : N.
  Hypothesis HCACHE : 0 < CACHE.
  Variables T_START T_CONTENT T_EOA T_EOF : N.
  Variable H : bytes -> bytes.
  Notation At := (At S w R).
  Notation Wrep := (Wrep FNMAX T_START T_CONTENT T_EOA T_EOF H).
  Notation content_loop := (content_loop CACHE T_CONTENT S).

  (* one FileContent block of the source: the next min(l, what is to come) bytes go to the
     output file (in pieces of CACHE bytes) and into the hash; no error *)
  Lemma content_loop_spec oid fuel : forall s a out obl l got f,
    At s a -> Wrep out obl -> find_id (files_of obl) oid = Some f -> f_ended f = false ->
    (N.to_nat (len a) < fuel)%nat ->
    exists s' out' obl',
      content_loop fuel s out oid l got = (s', out', got ++ takeN l a, None, None) /\
      At s' (dropN l a) /\ Wrep out' obl' /\
      files_of obl' = fstep (files_of obl) (BContent oid (takeN l a)) /\
      w_next out' = w_next out.
  Proof.
    induction fuel as [|fuel IH]; intros s a out obl l got f HA W Hf He Hfuel; [lia|].
    cbn [Repair.content_loop].
    destruct (buf_fill_spec S w R HR CACHE (Datatypes.S fuel) s a l [] (N.min (N.min l (len a)) CACHE) HA Hfuel)
      as (s1 & -> & HA1).
    { rewrite len_nil, N.sub_0_r. reflexivity. }
    set (k := N.min (N.min l (len a)) CACHE) in *. cbn [app].
    assert (Hlk : len (takeN k a) = k) by (rewrite len_takeN; lia).
    rewrite Hlk.
    destruct (N.eqb_spec k 0) as [Hk0|Hk0].
    - (* nothing to read *)
      assert (Ht : takeN l a = []).
      { apply len_0_nil. rewrite len_takeN. lia. }
      rewrite Hk0, takeN_0. rewrite (Wrep_append_0 FNMAX T_START T_CONTENT T_EOA T_EOF H out obl oid f W Hf He).
      cbn [len length]. change (N.of_nat 0) with 0.
      destruct (N.ltb_spec 0 CACHE); [|lia].
      exists s1, out, obl. rewrite Ht, !app_nil_r.
      rewrite Hk0, dropN_0 in HA1.
      assert (Hd : dropN l a = a).
      { destruct (N.eq_dec l 0) as [->|Hl]; [apply dropN_0|].
        assert (a = []) by (apply len_0_nil; lia). subst a. apply dropN_nil. }
      rewrite Hd. split5; auto.
      cbn [fstep]. symmetry. erewrite map_ext; [apply map_id|]. intros x. apply upd_data_nil.
    - assert (Hne : takeN k a <> []).
      { intros Hz. rewrite Hz, len_nil in Hlk. lia. }
      destruct (Wrep_append FNMAX T_START T_CONTENT T_EOA T_EOF H out obl oid f (takeN k a) W Hf He Hne) as (out1 & Hw & W1 & Hn1).
      rewrite Hlk in Hw. rewrite Hw.
      destruct (N.ltb_spec k CACHE) as [Hlt|Hge].
      + (* last piece *)
        assert (Hk : k = N.min l (len a)) by lia.
        exists s1, out1, (obl ++ [BContent oid (takeN k a)]).
        rewrite Hk, takeN_min_len in *.
        assert (Hd : dropN (N.min l (len a)) a = dropN l a).
        { destruct (N.le_gt_cases l (len a)); [f_equal; lia|]. rewrite !dropN_all by lia. reflexivity. }
        rewrite Hd in HA1. split5; auto. apply files_of_snoc.
      + (* a full cache: again *)
        assert (Hk : k = CACHE) by lia.
        assert (Hf1 : find_id (files_of (obl ++ [BContent oid (takeN k a)])) oid = Some (upd_data oid (takeN k a) f)).
        { rewrite files_of_snoc. cbn [fstep]. rewrite find_id_map_upd_data, Hf. reflexivity. }
        assert (He1 : f_ended (upd_data oid (takeN k a) f) = false).
        { unfold upd_data. destruct (f_id f =? oid); exact He. }
        destruct (IH s1 (dropN k a) out1 _ (l - k) (got ++ takeN k a) _ HA1 W1 Hf1 He1)
          as (s2 & out2 & obl2 & Heq & HA2 & W2 & Hfo & Hn2).
        { rewrite len_dropN. lia. }
        exists s2, out2, obl2. rewrite Heq.
        assert (Hl : l = k + (l - k)) by lia.
        split5; auto.
        * rewrite <- app_assoc. do 5 f_equal. rewrite Hl at 2. now rewrite takeN_add.
        * rewrite dropN_dropN in HA2. now replace (k + (l - k)) with l in HA2 by lia.
        * rewrite Hfo, files_of_snoc. cbn [fstep]. rewrite map_map.
          apply map_ext. intros x. rewrite upd_data_twice. do 2 f_equal.
          rewrite Hl at 2. now rewrite takeN_add.
        * lia.
  Qed.
End Content.
