(* FooterSize.v — what bincode charges for the footer map: len (ser_footer_map m).  It does
   not depend on the iteration order of the HashMap, and, for the writer's footer, only on the
   names and on the NUMBER of offsets of each file (used by Mem.wstep_dims: the limit arm of
   finalize is decided by the dimensions of the tables). *)
From MLA Require Import Base Stream Blocks Writer RoundTripBlocks RoundTripFooter.
From Coq Require Import ZifyBool ZifyNat ZifyN Permutation.
Open Scope N_scope.

Lemma len_ser_entry e : len (ser_entry e) = 32 + len (fst e) + 8 * len (fi_offsets (snd e)).
Proof.
  unfold ser_entry, ser_finfo. rewrite !len_app, !len_le64, len_concat_le64. lia.
Qed.

Fixpoint entries_size (m : footer) : N :=
  match m with [] => 0 | e :: r => len (ser_entry e) + entries_size r end.
Lemma len_concat_entries m : len (concat (map ser_entry m)) = entries_size m.
Proof. induction m as [|e m IH]; [reflexivity|]. cbn [map concat entries_size]. rewrite len_app, IH. reflexivity. Qed.
Lemma len_ser_footer_map m : len (ser_footer_map m) = 8 + entries_size m.
Proof. unfold ser_footer_map. rewrite len_app, len_le64, len_concat_entries. reflexivity. Qed.

Lemma entries_size_perm m m' : Permutation m m' -> entries_size m = entries_size m'.
Proof. induction 1 as [|x l l' HP IH|x y l|l l' l'' H1 IH1 H2 IH2]; cbn [entries_size] in *; [reflexivity|rewrite IH; reflexivity|lia|congruence]. Qed.
Lemma len_ser_footer_map_perm m m' : Permutation m m' -> len (ser_footer_map m) = len (ser_footer_map m').
Proof. intros HP. rewrite !len_ser_footer_map, (entries_size_perm _ _ HP). reflexivity. Qed.
Lemma entries_size_app a b : entries_size (a ++ b) = entries_size a + entries_size b.
Proof. induction a as [|e a IH]; cbn [app entries_size] in *; lia. Qed.

(* the writer's footer: same names, same number of offsets per id => same size *)
Lemma alookup_same_dims (l1 l2 : list (N * finfo)) id :
  map (fun e => (fst e, length (fi_offsets (snd e)))) l1 = map (fun e => (fst e, length (fi_offsets (snd e)))) l2 ->
  match alookup l1 id, alookup l2 id with
  | Some a, Some b => length (fi_offsets a) = length (fi_offsets b)
  | None, None => True
  | _, _ => False
  end.
Proof.
  revert l2; induction l1 as [|[k v] l1 IH]; intros [|[k2 v2] l2] E; cbn in E; try discriminate; [exact I|].
  injection E as -> Hl E. cbn [alookup]. destruct (k2 =? id); [exact Hl | apply IH; exact E].
Qed.
Lemma w_footer_size_dims (s1 s2 : wstate) :
  w_files s1 = w_files s2 ->
  map (fun e => (fst e, length (fi_offsets (snd e)))) (w_ids s1) = map (fun e => (fst e, length (fi_offsets (snd e)))) (w_ids s2) ->
  len (ser_footer_map (w_footer s1)) = len (ser_footer_map (w_footer s2)).
Proof.
  intros Ef Ei. rewrite !len_ser_footer_map.
  assert (E : entries_size (w_footer s1) = entries_size (w_footer s2)); [|rewrite E; reflexivity].
  unfold w_footer. rewrite Ef. clear Ef.
  induction (w_files s2) as [|[n i] r IH]; [reflexivity|]. cbn [flat_map fst snd].
  rewrite !entries_size_app, IH.
  pose proof (alookup_same_dims (w_ids s1) (w_ids s2) i Ei) as Hl.
  destruct (alookup (w_ids s1) i) as [a|], (alookup (w_ids s2) i) as [b|]; try contradiction; [|reflexivity].
  cbn [entries_size]. rewrite !len_ser_entry. cbn [fst snd].
  assert (E2 : len (fi_offsets a) = len (fi_offsets b)) by (unfold len; rewrite Hl; reflexivity).
  rewrite E2. reflexivity.
Qed.
