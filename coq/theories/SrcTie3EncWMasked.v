(* SrcTie3EncWMasked.v — C07 "nothing in clear", the layer part, carried onto the TRANSLATED encryption writer
   (work package encW): ANY list of write_all and flush calls of the translated code (gen/Src3w.v over gen/Src3g.v),
   then finalize, leaves `base ++ enc_format (concatenation of the buffers)` in the inner writer; one translated
   `write` hands the inner writer at most the tag of the chunk just filled and then the accepted prefix of the buffer
   XORed with the GCM key stream of the current chunk at the current offset — never the buffer itself; the translated
   `flush` only forwards. *)
From MLA Require Import Limit.
From MLA Require Import Base Stream EncLayer EncWriter EncWriterProofs Masked MaskedProofs Gcm GcmProofs SrcTie3Gcm SrcTie3EncW SrcTie3EncWCarry.
From MLAGen Require Import Src3g Src3w.
From Coq Require Import ZifyBool ZifyNat ZifyN.
Open Scope N_scope.

Section M.
  Variable E : bytes -> bytes -> bytes.
  Hypothesis HE : forall k b, length b = 16%nat -> length (E k b) = 16%nat.
  Variables key prefix : bytes.
  Hypothesis Hkey : len key = 32.
  Hypothesis Hprefix : len prefix = 8.
  Variables si sl : N.
  Variable gmul : N -> N -> N.
  Variables CHUNK CIPHERBUF : N.
  Hypothesis HCHUNK : 0 < CHUNK.
  Variable is_interrupted : err -> bool.
  Hypothesis Hnot_interrupted : is_interrupted EState = false.
  Variable ss : N.
  Variable base : bytes.

  Notation ELW := (EncryptionLayerWriter bytes).
  Notation ks := (ks_gcm E key prefix).
  Notation tagc := (tagc_gcm E key prefix gmul).
  Notation g_new := (EncryptionLayerWriter_new E gmul bytes si sl).
  Notation g_write := (elw_write CHUNK CIPHERBUF E gmul bytes bw_write_all ss si sl 228).
  Notation g_write_all := (elw_write_all CHUNK CIPHERBUF E gmul bytes bw_write_all is_interrupted ss si sl 228).
  Notation g_finalize := (elw_finalize E gmul bytes bw_write_all bw_ok si sl 228).
  Notation g_flush := (elw_flush bytes bw_ok).
  Notation Rw := (Rw E key prefix gmul base).
  Notation src_pieces := (src_write_pieces E si sl gmul CHUNK CIPHERBUF is_interrupted ss).
  Notation src_run := (src_archive E key prefix si sl gmul CHUNK CIPHERBUF is_interrupted ss base).

  (* any write_all / flush calls of the translated code *)
  Fixpoint src_calls (fuel : nat) (x : ELW) (cs : list ecall) : ELW * res unit :=
    match cs with
    | [] => (x, Ok tt)
    | EWriteAll b :: r =>
      match g_write_all fuel x b with
      | (x1, Ok _) => src_calls fuel x1 r
      | (x1, Err e) => (x1, Err e)
      | (x1, Crash c) => (x1, Crash c)
      end
    | EFlush :: r =>
      match g_flush x with
      | (x1, Ok _) => src_calls fuel x1 r
      | (x1, Err e) => (x1, Err e)
      | (x1, Crash c) => (x1, Crash c)
      end
    end.
  Definition src_archive_calls (fuel : nat) (cs : list ecall) : res ELW :=
    match g_new base key prefix with
    | Ok x0 =>
      match src_calls fuel x0 cs with
      | (x1, Ok _) => match g_finalize x1 with (x2, Ok _) => Ok x2 | (_, Err e) => Err e | (_, Crash c) => Crash c end
      | (_, Err e) => Err e
      | (_, Crash c) => Crash c
      end
    | Err e => Err e
    | Crash c => Crash c
    end.

  (* the translated flush changes nothing of the struct (the vector's flush is a no-op) *)
  Theorem flush_emits_nothing_src (x : ELW) : g_flush x = (x, Ok tt).
  Proof. destruct x. reflexivity. Qed.

  Lemma src_calls_pieces fuel cs : forall x, src_calls fuel x cs = src_pieces fuel x (writes_of cs).
  Proof.
    induction cs as [|c cs IH]; intros x; [reflexivity|].
    destruct c as [b|]; cbn [src_calls writes_of flat_map app src_write_pieces].
    - destruct (g_write_all fuel x b) as [x1 [u|e|c]]; [apply IH|reflexivity|reflexivity].
    - rewrite flush_emits_nothing_src. apply IH.
  Qed.

  Lemma src_archive_calls_pieces fuel cs : src_archive_calls fuel cs = src_run fuel (writes_of cs).
  Proof. unfold src_archive_calls, src_archive. destruct (g_new base key prefix); try reflexivity. now rewrite src_calls_pieces. Qed.

  (* C07_body_is_keystream_masked_layer on the translated code *)
  Theorem body_is_keystream_masked_layer_src fuel cs x :
    src_archive_calls fuel cs = Ok x ->
    elw_inner bytes x = base ++ enc_format CHUNK ks tagc (concat (writes_of cs)).
  Proof.
    rewrite src_archive_calls_pieces.
    exact (enc_writer_canonical_src E HE key prefix Hkey Hprefix si sl gmul CHUNK CIPHERBUF HCHUNK is_interrupted Hnot_interrupted
             ss base fuel (writes_of cs) x).
  Qed.

  (* C07_write_emits_cipher_only on the translated code *)
  Theorem write_emits_cipher_only_src x s buf x' n : Rw x s -> g_write x buf = (x', Ok n) ->
    exists tagpart,
      elw_inner bytes x' = elw_inner bytes x ++ tagpart ++
        xor_from ks (elw_current_ctr bytes x') (elw_current_chunk_offset bytes x' - n) (takeN n buf) /\
      (tagpart = [] \/ exists ct, tagpart = tagc (elw_current_ctr bytes x) ct) /\
      n <= len buf.
  Proof.
    intros HR Hw.
    pose proof (elw_write_sim E HE key prefix Hkey Hprefix si sl gmul CHUNK CIPHERBUF is_interrupted Hnot_interrupted ss base x s buf HR) as Hs.
    rewrite Hw in Hs. unfold sim_gen in Hs.
    destruct (ew_write CHUNK CIPHERBUF ks tagc s buf) as [[s' n']| |] eqn:Hm; try contradiction.
    destruct Hs as [<- HR'].
    destruct (write_emits_cipher_only CHUNK CIPHERBUF HCHUNK ks tagc s buf s' n Hm) as (tp & Ho & Ht & Hn).
    destruct HR as (H1 & _ & _ & _ & H5 & _). destruct HR' as (H1' & _ & _ & H4' & H5' & _).
    exists tp. rewrite H1', H1, H4', H5', H5, Ho, <- app_assoc. split; [reflexivity|]. split; [|exact Hn].
    destruct Ht as [->| ->]; [now left|right; eexists; reflexivity].
  Qed.
End M.

(* non-vacuity through the generated code (concrete AES-256 / GHASH, scaled constants): write_all, flush, write_all, flush,
   finalize: the same bytes as without the flushes — three GCM chunks under prefix || 0, 1, 2 — and one translated `write`
   at a chunk boundary hands down the 16-byte tag and then 24 masked bytes *)
From MLA Require SrcTie3CryptoEx SrcTie3EncWEx.
From MLA.Concrete Require Ghash GcmSpec.
Example src_calls_example :
  let run cs := match src_archive_calls SrcTie3CryptoEx.E_key GcmSpec.tc_key SrcTie3EncWEx.ex_prefix 2 3 Ghash.gf_mul
                        CHUNK_SIZE_verif CIPHER_BUF_SIZE_verif (fun _ => false) 1 SrcTie3EncWEx.ex_base 300 cs with
                | Ok x => elw_inner bytes x | _ => [] end in
  let d := SrcTie3EncWEx.ex_data in
  run [EWriteAll (takeN 70 d); EFlush; EFlush; EWriteAll (dropN 70 d); EFlush]
  = SrcTie3EncWEx.ex_base ++ SrcTie3EncWEx.ex_chunk 0 (takeN 64 d) ++ SrcTie3EncWEx.ex_chunk 1 (sliceN 64 64 d)
    ++ SrcTie3EncWEx.ex_chunk 2 (dropN 128 d).
Proof. vm_compute. reflexivity. Qed.
