From MLA Require Import Limit.
From MLA Require Import Base Stream Blocks Writer Repair RepairSize.
Open Scope N_scope.
(* non-vacuity: a 26-byte stream (FileStart 7 "a", then a cut EndOfFile) under a limit of 100:
   8 + 3 * 26 = 86 <= 100; the footer map of the repaired archive takes 8 + 41 = 49 bytes *)
Definition ex_w : bytes := [0; 7;0;0;0;0;0;0;0; 1;0;0;0;0;0;0;0; 97; 255; 7;0;0;0;0;0;0].
Example repair_no_ser_example :
  repair (LIM := 100) 48 4 0 1 254 255 (fun _ => []) (Cursor ex_w) 30 0 w_init <> Err EDeser.
Proof.
  apply (repair_no_ser_refines (LIM := 100) 48 4 0 1 254 255 (fun _ => []) (Cursor ex_w) ex_w _ 30 0 (cursor_refines _)).
  - split; [reflexivity | apply N.le_0_l].
  - vm_compute. discriminate.
Qed.
Example repair_footer_example :
  match repair (LIM := 100) 48 4 0 1 254 255 (fun _ => []) (Cursor ex_w) 30 0 w_init with
  | Ok (st, unf, out) => st = FEofNextBlock /\ unf = [[97]] /\ len (ser_footer_map (w_footer out)) = 49
  | _ => False
  end.
Proof. vm_compute. repeat split; reflexivity. Qed.
