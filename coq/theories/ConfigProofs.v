(* ConfigProofs.v — Config.v against the existing models (work package cfgT).

     archive_write_is_stack     Archive.archive_write = Config.writer_stack, then the calls, then
                                Config.run_wstack on the stack that was built: for every configuration whose
                                layers byte names known layers only (< 4), every recipient list, cut and call
                                list.  The hypothesis is needed: Archive.wconfig keeps two booleans, so a writer
                                configured with an unknown bit (set_layers(Layers::from_bits_retain(5))) writes
                                the byte 5 in the header while Archive.to_persistent writes 1
                                ([to_persistent_unknown_bit_differs]).
     writer_stack_layers        which layers the stack holds, in which order, over which header bytes
     failsafe_repair_is_open    ArchiveSrc.failsafe_repair = Config.failsafe_open, then Repair.repair over the
                                stream that was opened *)
From Coq Require Import ZifyBool ZifyNat ZifyN Lia.
From MLA Require Import Limit.
From MLA Require Import Base Stream EncLayer CompLayer RawLayer CompWriterProofs LayerStack Blocks Writer Reader
  Repair EncWriter Format Ecies Archive HeaderStream Run ArchiveSrc Config.
Open Scope N_scope.

Lemma has_bit_cases l : l < 4 ->
  (l = 0 /\ has_bit l L_ENCRYPT = false /\ has_bit l L_COMPRESS = false) \/
  (l = 1 /\ has_bit l L_ENCRYPT = true /\ has_bit l L_COMPRESS = false) \/
  (l = 2 /\ has_bit l L_ENCRYPT = false /\ has_bit l L_COMPRESS = true) \/
  (l = 3 /\ has_bit l L_ENCRYPT = true /\ has_bit l L_COMPRESS = true).
Proof.
  intros Hl. assert (Hc : l = 0 \/ l = 1 \/ l = 2 \/ l = 3) by lia.
  destruct Hc as [-> | [-> | [-> | ->]]]; [left | right; left | right; right; left | right; right; right];
    repeat split; reflexivity.
Qed.

Section ConfigProofs.
  Variables CHUNK TAG CIPHERBUF BLOCK LIMIT FNMAX CACHE : N.
  Local Hint Extern 0 Limit => exact LIMIT : typeclass_instances.
  Variables TS TC TA TE : N.
  Variable H : bytes -> bytes.
  Variable order : footer -> footer.
  Variable pubk : bytes -> bytes.
  Variable dh : bytes -> bytes -> bytes.
  Variable kdf : bytes -> bytes.
  Variables wenc wdec wtag : bytes -> bytes -> bytes.
  Variable ksf : bytes -> bytes -> N -> N -> N.
  Variable tagf : bytes -> bytes -> N -> bytes -> bytes.
  Variable dec : bytes -> bytes.
  Variable compf : N -> bytes -> bytes.

  Notation wconfig_of := (wconfig_of compf).
  Notation writer_stack := (writer_stack LIMIT pubk dh kdf wenc wtag).
  Notation run_wstack := (run_wstack CHUNK CIPHERBUF BLOCK LIMIT ksf tagf compf).
  Notation to_persistent_full := (to_persistent_full pubk dh kdf wenc wtag).

  Lemma to_persistent_known c eph : wl_layers c < 4 ->
    to_persistent pubk dh kdf wenc wtag (wconfig_of c eph) = to_persistent_full c eph.
  Proof.
    intros Hl. unfold to_persistent, to_persistent_full, layers_of, wconfig_of.
    cbn [wc_encrypt wc_compress wc_recipients wc_key wc_eph wc_nonce].
    destruct (has_bit_cases _ Hl) as [(-> & -> & ->) | [(-> & -> & ->) | [(-> & -> & ->) | (-> & -> & ->)]]]; reflexivity.
  Qed.

  Theorem archive_write_is_stack c eph cut_top cut_mid ops : wl_layers c < 4 ->
    archive_write CHUNK CIPHERBUF BLOCK LIMIT FNMAX TS TC TA TE H order pubk dh kdf wenc wtag ksf tagf
                  (wconfig_of c eph) cut_top cut_mid ops =
    do p <- writer_stack c eph;
    let '(sf, rs) := wrun FNMAX TS TC TA TE H order w_init (ops ++ [OFinalize]) in
    do _ <- first_bad rs;
    run_wstack (p_inner p) (cut_pieces cut_top (w_out sf)) [cut_mid].
  Proof.
    intros Hl. unfold archive_write, Config.writer_stack. rewrite (to_persistent_known c eph Hl).
    unfold Config.wconfig_of at 1 2. cbn [wc_encrypt wc_recipients].
    destruct (has_bit (wl_layers c) L_ENCRYPT && match wl_recipients c with [] => true | _ :: _ => false end);
      [reflexivity|].
    destruct (dump_header LIMIT (to_persistent_full c eph)) as [hdr|e|x]; cbn [bind]; try reflexivity.
    destruct (wrun FNMAX TS TC TA TE H order w_init (ops ++ [OFinalize])) as [sf rs].
    destruct (first_bad rs) as [[]|e|x]; cbn [bind]; try reflexivity.
    unfold lower_write, Config.wconfig_of. cbn [wc_encrypt wc_compress wc_comp wc_key wc_nonce p_inner].
    destruct (has_bit (wl_layers c) L_ENCRYPT), (has_bit (wl_layers c) L_COMPRESS); cbn [Config.run_wstack hd tl].
    - destruct (cw_write_pieces BLOCK (compf (wl_level c)) cw_init (cut_pieces cut_top (w_out sf))) as [w1 [[]|e|x]];
        cbn [bind]; try reflexivity.
      destruct (cw_finalize (compf (wl_level c)) w1) as [w2 [[]|e|x]]; cbn [bind]; try reflexivity.
      destruct (ew_archive CHUNK CIPHERBUF (ksf (wl_key c) (wl_nonce c)) (tagf (wl_key c) (wl_nonce c)) _ _) as [s|e|x];
        cbn [bind concat]; try reflexivity.
      rewrite app_nil_r. reflexivity.
    - cbn [bind].
      destruct (ew_archive CHUNK CIPHERBUF (ksf (wl_key c) (wl_nonce c)) (tagf (wl_key c) (wl_nonce c)) _ _) as [s|e|x];
        cbn [bind concat]; try reflexivity.
      rewrite app_nil_r. reflexivity.
    - destruct (cw_write_pieces BLOCK (compf (wl_level c)) cw_init (cut_pieces cut_top (w_out sf))) as [w1 [[]|e|x]];
        cbn [bind]; try reflexivity.
      destruct (cw_finalize (compf (wl_level c)) w1) as [w2 [[]|e|x]]; cbn [bind]; reflexivity.
    - reflexivity.
  Qed.

  (* the decisions, read off the stack: the layers stacked (top first), the bytes below them, the position *)
  Theorem writer_stack_layers c eph p : writer_stack c eph = Ok p ->
    wstack_layers (p_inner p) =
      (if has_bit (wl_layers c) L_COMPRESS then [L_COMPRESS] else []) ++
      (if has_bit (wl_layers c) L_ENCRYPT then [L_ENCRYPT] else []) /\
    dump_header LIMIT (to_persistent_full c eph) = Ok (wstack_base (p_inner p)) /\
    p_pos p = 0 /\
    (has_bit (wl_layers c) L_ENCRYPT = true -> wl_recipients c <> []).
  Proof.
    unfold Config.writer_stack.
    destruct (has_bit (wl_layers c) L_ENCRYPT) eqn:He; cbn [andb].
    - destruct (wl_recipients c) as [|r0 rs] eqn:Hr; [discriminate|].
      destruct (dump_header LIMIT (to_persistent_full c eph)) as [hdr|e|x]; cbn [bind]; try discriminate.
      intros [= <-]. cbn [p_inner p_pos].
      destruct (has_bit (wl_layers c) L_COMPRESS); cbn [wstack_layers wstack_base app]; repeat split; try reflexivity;
        intros _; discriminate.
    - destruct (dump_header LIMIT (to_persistent_full c eph)) as [hdr|e|x]; cbn [bind]; try discriminate.
      intros [= <-]. cbn [p_inner p_pos].
      destruct (has_bit (wl_layers c) L_COMPRESS); cbn [wstack_layers wstack_base app]; repeat split; try reflexivity;
        intros; discriminate.
  Qed.

  (* the imprecision of Archive.wconfig: an unknown bit in the writer's layers *)
  Example to_persistent_unknown_bit_differs :
    let c := mkWConf 5 5 [[1]] [2] [3] in
    h_layers (to_persistent_full c [4]) = 5 /\
    h_layers (to_persistent pubk dh kdf wenc wtag (wconfig_of c [4])) = 1.
  Proof. split; reflexivity. Qed.

  (* ---------- fail-safe ---------- *)
  Section Src.
    Variable S0 : Stream.
    Variable FsCompOver : Stream -> Stream.
    Variable fscomp_open : forall I : Stream, st I -> res (st (FsCompOver I)).

    Theorem failsafe_repair_is_open (s0 : st S0) privs unauth fuel :
      failsafe_repair CHUNK TAG LIMIT FNMAX CACHE TS TC TA TE H dh kdf wdec wtag ksf tagf S0 FsCompOver fscomp_open
                      s0 privs unauth fuel =
      do l <- failsafe_open CHUNK TAG LIMIT dh kdf wdec wtag ksf tagf S0 FsCompOver fscomp_open s0 privs unauth;
      repair FNMAX CACHE TS TC TA TE H (projT1 l) fuel (projT2 l) w_init.
    Proof.
      unfold failsafe_repair, failsafe_open.
      destruct (read_header_s S0 LIMIT s0) as [s1 [h|e|x]]; try reflexivity.
      destruct (load_config dh kdf wdec wtag h privs) as [[[[e c] k] n]|e|x]; cbn [bind]; try reflexivity.
      destruct e; cbn [bind].
      - unfold dynf_enc_new, dynf_raw. cbn [projT1 projT2].
        destruct (fs_open CHUNK TAG (ksf k n) S0 s1) as [es [b|e|x]]; cbn [bind]; try reflexivity.
        destruct c; [|reflexivity].
        unfold dynf_comp_new. cbn [projT1 projT2].
        destruct (fscomp_open (FsEnc CHUNK TAG (ksf k n) (tagf k n) unauth S0) es) as [cs|e|x]; reflexivity.
      - destruct c; [|reflexivity].
        unfold dynf_comp_new, dynf_raw. cbn [projT1 projT2].
        destruct (fscomp_open S0 s1) as [cs|e|x]; reflexivity.
    Qed.
  End Src.
End ConfigProofs.
