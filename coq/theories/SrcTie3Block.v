(* SrcTie3Block.v — Tie A, level 1, for the BLOCK PARSER (work package blockT).
   gen/Src3b.v (tools/src2v3_block.py) holds `ArchiveFileBlockType::try_from` and
   `ArchiveFileBlock::from` translated statement by statement from /repo/mla/src/lib.rs over an
   abstract Stream.  This file proves the translated `from` EQUAL to the hand-written
   Blocks.parse_block for EVERY stream, state, FILENAME_MAX_SIZE and discriminants: same value, same
   stream state, same errors.  Until this work package that equation was "the one trusted link" of
   every level-1 translation (reader, repair loop, linear_extract), frozen only by the L3 shape
   SrcTie2Events.EV_block_from_shape.  An edit of a guard (`>` into `>=`), of the order of two reads,
   of the place of the FILENAME_MAX_SIZE test, of the way the name is read (read_exact into
   take(n).read_to_end), of an arm, changes the generated definition and `block_from_src` stops
   compiling. *)
From MLA Require Import Base Stream Blocks.
From MLAGen Require Src3b.
From Coq Require Import ZifyBool ZifyNat ZifyN.
Open Scope N_scope.

(* ---------- read_exact delivers exactly what was asked when it succeeds ---------- *)
Lemma read_full_aux_len S fuel : forall s n acc s' d,
  read_full_aux S fuel s n acc = (s', Ok d) -> len d <= len acc + n.
Proof.
  induction fuel as [|fuel IH]; intros s n acc s' d; cbn [read_full_aux].
  - destruct (n =? 0); [|discriminate]. intros [= _ <-]. lia.
  - destruct (n =? 0); [intros [= _ <-]; lia|].
    destruct (rd S s n) as [s1 [d1|e|x]]; [|discriminate|discriminate].
    destruct (len d1 =? 0); [intros [= _ <-]; lia|].
    destruct (N.ltb_spec n (len d1)); [discriminate|].
    intros Hr. apply IH in Hr. rewrite len_app in Hr. lia.
Qed.

Lemma rexact_ok_len S s n s' d : rexact S s n = (s', Ok d) -> len d = n.
Proof.
  unfold rexact, read_exact, read_full.
  destruct (read_full_aux S _ s n []) as [s1 [d1|e|x]] eqn:E; [|discriminate|discriminate].
  apply read_full_aux_len in E. cbn [len length N.of_nat] in E.
  destruct (N.ltb_spec (len d1) n); [discriminate|]. intros [= _ <-].
  change (len (@nil N)) with 0 in E. lia.
Qed.

Section Tie.
  Variable S : Stream.
  Variables FNMAX T_START T_CONTENT T_EOA T_EOF : N.

  Notation pb := (parse_block FNMAX T_START T_CONTENT T_EOA T_EOF S).
  (* 636: the model's label of the arm "read_exact(1) holds another number of bytes" *)
  Notation g_from := (Src3b.ArchiveFileBlock_from S FNMAX T_START T_CONTENT T_EOA T_EOF 636).
  Notation g_try := (Src3b.ArchiveFileBlockType_try_from T_START T_CONTENT T_EOA T_EOF).

  (* ---------- byteorder's read_u64::<LittleEndian> as translated = Blocks.read_u64 ---------- *)
  Lemma read_u64_src {A} (s : st S) (k : st S -> N -> st S * res A) :
    match rexact S s 8 with
    | (s1, Ok d) => k s1 (le_val d)
    | (s1, Err e) => (s1, Err e)
    | (s1, Crash x) => (s1, Crash x)
    end =
    match read_u64 S s with
    | (s1, Ok v) => k s1 v
    | (s1, Err e) => (s1, Err e)
    | (s1, Crash x) => (s1, Crash x)
    end.
  Proof. unfold read_u64. destruct (rexact S s 8) as [s1 [d|e|x]]; reflexivity. Qed.

  (* ---------- TryFrom<u8>: the chain of tests is the model's chain, in the same order ---------- *)
  Lemma try_from_src (t : N) :
    g_try t =
    if t =? T_START then Ok Src3b.FileStart
    else if t =? T_CONTENT then Ok Src3b.FileContent
    else if t =? T_EOF then Ok Src3b.EndOfFile
    else if t =? T_EOA then Ok Src3b.EndOfArchiveData
    else Err EBlockType.
  Proof. reflexivity. Qed.

  (* ---------- ArchiveFileBlock::from = Blocks.parse_block ---------- *)
  Theorem block_from_src (s : st S) : g_from s = pb s.
  Proof.
    unfold Src3b.ArchiveFileBlock_from, Src3b.read_u8, parse_block.
    destruct (rexact S s 1) as [s1 [d|e|x]]; [|reflexivity|reflexivity].
    destruct d as [|t [|t2 r]]; [reflexivity| |reflexivity].
    rewrite try_from_src.
    destruct (t =? T_START).
    { unfold read_u64.
      destruct (rexact S s1 8) as [s2 [d2|e2|x2]]; [|reflexivity|reflexivity].
      destruct (rexact S s2 8) as [s3 [d3|e3|x3]]; [|reflexivity|reflexivity].
      cbv zeta. destruct (FNMAX <? le_val d3); [reflexivity|].
      destruct (rexact S s3 (le_val d3)) as [s4 [d4|e4|x4]]; reflexivity. }
    destruct (t =? T_CONTENT).
    { unfold read_u64.
      destruct (rexact S s1 8) as [s2 [d2|e2|x2]]; [|reflexivity|reflexivity].
      destruct (rexact S s2 8) as [s3 [d3|e3|x3]]; reflexivity. }
    destruct (t =? T_EOF).
    { unfold read_u64.
      destruct (rexact S s1 8) as [s2 [d2|e2|x2]]; [|reflexivity|reflexivity].
      destruct (rexact S s2 32) as [s3 [d3|e3|x3]]; reflexivity. }
    destruct (t =? T_EOA); reflexivity.
  Qed.

  (* the label of the impossible arm plays no role: for every label the translated function is the
     model's up to that label, and the arm is never taken (next lemma) *)
  Lemma block_from_site_irrelevant (site : N) (s : st S) :
    Src3b.ArchiveFileBlock_from S FNMAX T_START T_CONTENT T_EOA T_EOF site s = g_from s.
  Proof.
    unfold Src3b.ArchiveFileBlock_from, Src3b.read_u8.
    destruct (rexact S s 1) as [s1 [d|e|x]] eqn:E; [|reflexivity|reflexivity].
    apply rexact_ok_len in E.
    destruct d as [|t [|t2 r]]; [exfalso; unfold len in E; cbn [length] in E; lia|reflexivity|].
    exfalso. unfold len in E. cbn [length] in E. lia.
  Qed.

  (* ---------- `Crash` never: the translated function has no panic of its own ---------- *)
  (* a panic can only be one the SOURCE STREAM raised inside a read (Stream models a `Read` that panics as
     `Crash`; std's read_exact passes it on); over a stream whose reads do not panic — and deliver at most
     what was asked, or Stream.read_full reports `Crash 900` — `from` never panics *)
  Definition rd_no_crash : Prop := forall s n s' c, rexact S s n <> (s', Crash c).

  Theorem block_from_never_crashes : rd_no_crash -> forall site s s' c,
    Src3b.ArchiveFileBlock_from S FNMAX T_START T_CONTENT T_EOA T_EOF site s <> (s', Crash c).
  Proof.
    intros Hn site s s' c. rewrite block_from_site_irrelevant.
    unfold Src3b.ArchiveFileBlock_from, Src3b.read_u8.
    destruct (rexact S s 1) as [s1 [d|e|x]] eqn:E; [|discriminate|destruct (Hn _ _ _ _ E)].
    pose proof (rexact_ok_len _ _ _ _ _ E) as Hl.
    destruct d as [|t [|t2 r]]; [exfalso; unfold len in Hl; cbn [length] in Hl; lia| |exfalso; unfold len in Hl; cbn [length] in Hl; lia].
    destruct (g_try t) as [ty|e|x] eqn:Et; [|discriminate|].
    2:{ rewrite try_from_src in Et.
        destruct (t =? T_START); [discriminate|]. destruct (t =? T_CONTENT); [discriminate|].
        destruct (t =? T_EOF); [discriminate|]. destruct (t =? T_EOA); discriminate. }
    destruct ty.
    - destruct (rexact S s1 8) as [s2 [d2|e2|x2]] eqn:E2; [|discriminate|destruct (Hn _ _ _ _ E2)].
      destruct (rexact S s2 8) as [s3 [d3|e3|x3]] eqn:E3; [|discriminate|destruct (Hn _ _ _ _ E3)].
      cbv zeta. destruct (FNMAX <? le_val d3); [discriminate|].
      destruct (rexact S s3 (le_val d3)) as [s4 [d4|e4|x4]] eqn:E4; [|discriminate|destruct (Hn _ _ _ _ E4)].
      destruct (utf8_valid d4); discriminate.
    - destruct (rexact S s1 8) as [s2 [d2|e2|x2]] eqn:E2; [|discriminate|destruct (Hn _ _ _ _ E2)].
      destruct (rexact S s2 8) as [s3 [d3|e3|x3]] eqn:E3; [discriminate|discriminate|destruct (Hn _ _ _ _ E3)].
    - discriminate.
    - destruct (rexact S s1 8) as [s2 [d2|e2|x2]] eqn:E2; [|discriminate|destruct (Hn _ _ _ _ E2)].
      destruct (rexact S s2 32) as [s3 [d3|e3|x3]] eqn:E3; [discriminate|discriminate|destruct (Hn _ _ _ _ E3)].
  Qed.

  (* the name is checked against FILENAME_MAX_SIZE BEFORE it is read: a refused length leaves the stream
     just after the two u64 (nothing of the announced name is consumed or allocated) *)
  Theorem block_from_name_check_before_read (s s1 s2 s3 : st S) (d2 d3 : bytes) :
    rexact S s 1 = (s1, Ok [T_START]) -> rexact S s1 8 = (s2, Ok d2) -> rexact S s2 8 = (s3, Ok d3) ->
    FNMAX < le_val d3 -> g_from s = (s3, Err ENameTooLong).
  Proof.
    intros E1 E2 E3 Hl. unfold Src3b.ArchiveFileBlock_from, Src3b.read_u8. rewrite E1, try_from_src, N.eqb_refl, E2, E3.
    cbv zeta. destruct (N.ltb_spec FNMAX (le_val d3)); [reflexivity|lia].
  Qed.
End Tie.

(* ---------- the constants the translator read next to the function ---------- *)
Lemma block_consts_src :
  Src3b.BT_FileStart_src = 0 /\ Src3b.BT_FileContent_src = 1 /\ Src3b.BT_EndOfArchiveData_src = 254 /\
  Src3b.BT_EndOfFile_src = 255 /\ Src3b.SHA256_HASH_LEN_src = 32 /\
  Src3b.FILENAME_MAX_SIZE_prod_src = 65536 /\ Src3b.FILENAME_MAX_SIZE_verif_src = 48.
Proof. repeat split; reflexivity. Qed.

(* ---------- non-vacuity: the translated function runs (through the generated text) ---------- *)
(* FileStart id=7 name="ab" on a cursor, production constants *)
Example block_from_runs_start :
  Src3b.ArchiveFileBlock_from (Cursor ([0] ++ le64 7 ++ le64 2 ++ [97; 98])) 65536 0 1 254 255 636 0
  = (19, Ok (PStart 7 [97; 98])).
Proof. vm_compute. reflexivity. Qed.
(* a cut inside the name (C02-m3's input): UnexpectedEof, not a shorter name *)
Example block_from_cut_in_name :
  snd (Src3b.ArchiveFileBlock_from (Cursor ([0] ++ le64 7 ++ le64 5 ++ [97; 98])) 65536 0 1 254 255 636 0)
  = Err EUnexpectedEof.
Proof. vm_compute. reflexivity. Qed.
(* a name of exactly FILENAME_MAX_SIZE bytes is accepted, one more is refused before it is read *)
Example block_from_name_limit :
  snd (Src3b.ArchiveFileBlock_from (Throttled ([0] ++ le64 1 ++ le64 3 ++ [97; 98; 99])) 3 0 1 254 255 636 (0, [1])) = Ok (PStart 1 [97; 98; 99]) /\
  Src3b.ArchiveFileBlock_from (Cursor ([0] ++ le64 1 ++ le64 4 ++ [97; 98; 99; 100])) 3 0 1 254 255 636 0 = (17, Err ENameTooLong).
Proof. split; vm_compute; reflexivity. Qed.
Example block_from_errors :
  snd (Src3b.ArchiveFileBlock_from (Cursor [7]) 48 0 1 254 255 636 0) = Err EBlockType /\
  snd (Src3b.ArchiveFileBlock_from (Cursor ([0] ++ le64 1 ++ le64 1 ++ [200])) 48 0 1 254 255 636 0) = Err EUtf8 /\
  snd (Src3b.ArchiveFileBlock_from (Cursor []) 48 0 1 254 255 636 0) = Err EUnexpectedEof /\
  snd (Src3b.ArchiveFileBlock_from (Cursor ([1] ++ le64 3 ++ le64 1000)) 48 0 1 254 255 636 0) = Ok (PContent 3 1000) /\
  snd (Src3b.ArchiveFileBlock_from (Cursor [254]) 48 0 1 254 255 636 0) = Ok PEnd.
Proof. repeat split; vm_compute; reflexivity. Qed.
