(* HeaderStream.v — `ArchiveHeader::from` (mla/src/lib.rs:415-440) as the code performs it: a
   sequence of `read_exact` calls on the SOURCE (any `Stream`: a file, a throttled pipe, ...),
   not a parse of in-memory bytes.

     let mut buf = vec![0; MLA_MAGIC.len()]; src.read_exact(buf)?      read_exact 3   (io error -> IOError)
     if buf != MLA_MAGIC { return Err(WrongMagic) }
     src.read_u32::<LittleEndian>()?                                    read_exact 4   (byteorder)
     if v != MLA_FORMAT_VERSION { return Err(UnsupportedVersion) }
     bincode::options().with_limit(BINCODE_MAX_DESERIALIZE).with_fixint_encoding()
        .deserialize_from(src)   -- EVERY failure -> DeserializationError

   bincode 1.3.3 over an `IoReader` (de/mod.rs): every primitive first charges its size against
   the limit (`read_literal_type` -> `Bounded::add`: SizeLimit when the remainder is smaller) and
   then calls `read_exact` on the source; u8 (`deserialize_byte`) = charge 1 + read_exact 1;
   u64 / sequence length (`deserialize_literal_u64`) = charge 8 + read_exact 8.  serde reads
   `[u8; N]` as a tuple of N u8 (N single-byte reads), `Option` as a u8 tag (0 / 1, other ->
   InvalidTagEncoding), `Vec<T>` as u64 length then `len` elements (`Access { len }`:
   next_element deserializes one element while len > 0), a struct as its fields in order.
   `Layers` (bitflags, not human readable) = its `u8` bits.  So the reads are, in this order:
     3, 4, 1 (layers), 1 (Option tag), [32 x 1 (public), 8 (count), count x (32 x 1 + 16 x 1), 8 x 1 (nonce)].

   The model threads (source state, remainder of the limit).  The loop over the wrapped keys has
   `count` iterations (count is an attacker-chosen u64); it is fuelled, and `keys_fuel` suffices
   because every iteration charges 48 bytes against the limit (HeaderStreamProofs.bc_keys_spec):
   [EFuel] is never returned.

   Allocation (not a separate component of the state): `Vec::<KeyAndTag>::with_capacity(
   size_hint::cautious(count))` = min(count, 1 MiB / 48) elements ([keys_prealloc] <= 1 MiB),
   then one 48-byte element per iteration; every element held was read from the source after
   its 48 bytes were charged, so the vector never holds more than the limit
   (C08_header_total: consumed <= 7 + LIMIT, 48 * keys <= LIMIT). *)
From MLA Require Import Base Stream Format.
Open Scope N_scope.

Section HeaderStream.
  Variable S : Stream.

  (* std's read_exact of n bytes: at most n + 1 `read` calls (each delivers >= 1 byte or ends) *)
  Definition rx (s : st S) (n : N) : st S * res bytes :=
    read_exact S (Datatypes.S (N.to_nat n)) s n.

  (* ---------- bincode's deserializer over the source: state = (source, limit left) ---------- *)
  Definition M (A : Type) : Type := st S -> N -> st S * N * res A.
  Definition mret {A} (a : A) : M A := fun s lim => (s, lim, Ok a).
  Definition mfail {A} (e : err) : M A := fun s lim => (s, lim, Err e).
  Definition mbind {A B} (m : M A) (f : A -> M B) : M B := fun s lim =>
    match m s lim with
    | (s', lim', Ok a) => f a s' lim'
    | (s', lim', Err e) => (s', lim', Err e)
    | (s', lim', Crash c) => (s', lim', Crash c)
    end.

  (* one primitive of n bytes: charge n (SizeLimit), then read_exact n (Io) *)
  Definition bc_rx (n : N) : M bytes := fun s lim =>
    if lim <? n then (s, lim, Err EDeser) else
    match rx s n with
    | (s', Ok d) => (s', lim - n, Ok d)
    | (s', Err EFuel) => (s', lim - n, Err EFuel)     (* the model's own fuel: excluded by the theorems *)
    | (s', Err _) => (s', lim - n, Err EDeser)
    | (s', Crash c) => (s', lim - n, Crash c)
    end.

  (* [u8; k]: k single-byte primitives *)
  Fixpoint bc_bytes (k : nat) : M bytes :=
    match k with
    | O => mret []
    | Datatypes.S k' => mbind (bc_rx 1) (fun d => mbind (bc_bytes k') (fun ds => mret (d ++ ds)))
    end.

  (* KeyAndTag { key: [u8; 32], tag: [u8; 16] } *)
  Definition bc_key_and_tag : M (bytes * bytes) :=
    mbind (bc_bytes 32) (fun k => mbind (bc_bytes 16) (fun t => mret (k, t))).

  (* the elements of Vec<KeyAndTag>: n iterations *)
  Fixpoint bc_keys (fuel : nat) (n : N) : M (list (bytes * bytes)) :=
    if n =? 0 then mret [] else
    match fuel with
    | O => mfail EFuel
    | Datatypes.S fuel' =>
      mbind bc_key_and_tag (fun kt => mbind (bc_keys fuel' (n - 1)) (fun ks => mret (kt :: ks)))
    end.
  (* iterations that can succeed with `lim` left, plus the failing one, plus the final test *)
  Definition keys_fuel (n lim : N) : nat := Datatypes.S (N.to_nat (N.min n (lim / 48 + 1))).

  (* EncryptionPersistentConfig { multi_recipient: { public, encrypted_keys }, nonce } *)
  Definition bc_enc_header : M enc_header :=
    mbind (bc_bytes 32) (fun public =>
    mbind (bc_rx 8) (fun nb =>
    mbind (fun s lim => bc_keys (keys_fuel (le_val nb) lim) (le_val nb) s lim) (fun keys =>
    mbind (bc_bytes 8) (fun nonce =>
    mret (mkEH public keys nonce))))).

  (* ArchivePersistentConfig { layers_enabled: Layers, encrypt: Option<..> } *)
  Definition bc_config : M header :=
    mbind (bc_rx 1) (fun l =>
    mbind (bc_rx 1) (fun o =>
    if le_val o =? 0 then mret (mkH (le_val l) None)
    else if le_val o =? 1 then mbind bc_enc_header (fun eh => mret (mkH (le_val l) (Some eh)))
    else mfail EDeser)).

  (* ---------- ArchiveHeader::from ---------- *)
  Definition read_header_s (LIMIT : N) (s : st S) : st S * res header :=
    match rx s 3 with
    | (s1, Ok m) =>
      if negb (bytes_eqb m MAGIC) then (s1, Err EMagic) else
      match rx s1 4 with
      | (s2, Ok v) =>
        if negb (le_val v =? VERSION) then (s2, Err EVersion) else
        match bc_config s2 LIMIT with
        | (s3, _, Ok h) => (s3, Ok h)
        | (s3, _, Err EFuel) => (s3, Err EFuel)
        | (s3, _, Err _) => (s3, Err EDeser)
        | (s3, _, Crash c) => (s3, Crash c)
        end
      | (s2, Err e) => (s2, Err e)
      | (s2, Crash c) => (s2, Crash c)
      end
    | (s1, Err e) => (s1, Err e)
    | (s1, Crash c) => (s1, Crash c)
    end.
End HeaderStream.

(* serde::de::size_hint::cautious::<KeyAndTag>(Some(count)) elements of 48 bytes *)
Definition keys_prealloc (count : N) : N := 48 * N.min count (1048576 / 48).

(* ---------- the pure counterpart: parsers that return the value and the bytes consumed ---------- *)
Definition PP (A : Type) : Type := bytes -> option (A * N).
Definition pret {A} (a : A) : PP A := fun _ => Some (a, 0).
Definition pfail {A} : PP A := fun _ => None.
Definition pbind {A B} (pm : PP A) (pf : A -> PP B) : PP B := fun r =>
  match pm r with
  | Some (v, k) => match pf v (dropN k r) with Some (w, k2) => Some (w, k + k2) | None => None end
  | None => None
  end.
Definition ptake (n : N) : PP bytes := fun r => if n <=? len r then Some (takeN n r, n) else None.
Fixpoint pbytes (k : nat) : PP bytes :=
  match k with
  | O => pret []
  | Datatypes.S k' => pbind (ptake 1) (fun d => pbind (pbytes k') (fun ds => pret (d ++ ds)))
  end.
Definition pkey_and_tag : PP (bytes * bytes) :=
  pbind (pbytes 32) (fun k => pbind (pbytes 16) (fun t => pret (k, t))).
Fixpoint pkeys (cnt : nat) : PP (list (bytes * bytes)) :=
  match cnt with
  | O => pret []
  | Datatypes.S c => pbind pkey_and_tag (fun kt => pbind (pkeys c) (fun ks => pret (kt :: ks)))
  end.
Definition penc_header : PP enc_header :=
  pbind (pbytes 32) (fun public =>
  pbind (ptake 8) (fun nb =>
  pbind (pkeys (N.to_nat (le_val nb))) (fun keys =>
  pbind (pbytes 8) (fun nonce =>
  pret (mkEH public keys nonce))))).
Definition pconfig : PP header :=
  pbind (ptake 1) (fun l =>
  pbind (ptake 1) (fun o =>
  if le_val o =? 0 then pret (mkH (le_val l) None)
  else if le_val o =? 1 then pbind penc_header (fun eh => pret (mkH (le_val l) (Some eh)))
  else pfail)).
