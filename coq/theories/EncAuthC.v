(* EncAuthC.v — consequences of EncAuthFs.v for C04:
     * authenticated output is a prefix of the unauthenticated output (any inner bytes);
     * the known class D2 (chunk 0 is delivered without tag check) stated exactly, and outside
       it: every delivered byte comes from a chunk that verified under its index, contiguously
       from the start; with an original plaintext: delivered ⊑ original, or Forgery;
     * inside D2 the same holds for everything after chunk 0;
     * truncations of an unaltered stream: what the unauthenticated mode delivers, exactly. *)
From MLA Require Import Base Stream EncLayer EncLayerProofs EncAuth EncAuthFs.
From Coq Require Import ZifyBool ZifyNat ZifyN.
Open Scope N_scope.

Lemma prefix_app_same {A} (x a b : list A) : prefix a b -> prefix (x ++ a) (x ++ b).
Proof. intros [r ->]. exists r. apply app_assoc. Qed.
Lemma prefix_nil {A} (l : list A) : prefix [] l.
Proof. exists l. reflexivity. Qed.

Section C.
  Variables CHUNK TAG : N.
  Hypothesis HCHUNK : 0 < CHUNK.
  Variable ks : N -> N -> N.
  Variable tagc : N -> bytes -> bytes.

  Notation CTS := (CTS CHUNK TAG).
  Notation xor_from := (xor_from ks).
  Notation verifiesb := (verifiesb TAG tagc).
  Notation ct_of := (ct_of TAG).
  Notation dec_auth := (dec_auth CHUNK TAG ks tagc).
  Notation dec_unauth := (dec_unauth CHUNK ks).
  Notation out_from := (out_from CHUNK TAG).

  Lemma out_from_S dec f i rem :
    out_from dec (Datatypes.S f) i rem =
    match dec i rem with
    | None => []
    | Some pt => if len pt <? CHUNK then pt else pt ++ out_from dec f (i + 1) (dropN CTS rem)
    end.
  Proof. reflexivity. Qed.

  Lemma xor_from_firstn i n : forall off l, xor_from i off (firstn n l) = firstn n (xor_from i off l).
  Proof.
    induction n as [|n IH]; intros off [|x l]; cbn [firstn EncLayer.xor_from]; try reflexivity.
    f_equal. apply IH.
  Qed.
  Lemma xor_from_takeN i off m l : xor_from i off (takeN m l) = takeN m (xor_from i off l).
  Proof. apply xor_from_firstn. Qed.

  (* the ciphertext part of what load_in_cache read, as a prefix of the remaining bytes *)
  Lemma ct_of_takeN rem :
    ct_of (takeN CTS rem) = takeN (N.min CTS (len rem) - TAG) (takeN CHUNK rem) /\
    N.min CTS (len rem) - TAG <= CHUNK.
  Proof.
    unfold EncAuth.ct_of. rewrite len_takeN, !takeN_takeN. unfold EncLayer.CTS. split; [f_equal; lia | lia].
  Qed.

  (* ---------- C: authenticated ⊑ unauthenticated ---------- *)

  Lemma out_auth_prefix_unauth f : forall i rem,
    prefix (out_from dec_auth f i rem) (out_from dec_unauth f i rem).
  Proof.
    induction f as [|f IH]; intros i rem; cbn [EncAuthFs.out_from]; [apply prefix_nil|].
    unfold EncAuthFs.dec_auth, EncAuthFs.dec_unauth.
    destruct (verifiesb i (takeN CTS rem)); [|apply prefix_nil].
    destruct (ct_of_takeN rem) as [Hct Hm]. rewrite Hct, xor_from_takeN.
    set (m := N.min CTS (len rem) - TAG) in *.
    set (pu := xor_from i 0 (takeN CHUNK rem)).
    assert (Hlu : len pu <= CHUNK) by (unfold pu; rewrite len_xor_from', len_takeN; lia).
    rewrite len_takeN.
    destruct (N.ltb_spec (N.min m (len pu)) CHUNK) as [Hs|Hfull].
    - eapply prefix_trans; [apply prefix_takeN|].
      destruct (len pu <? CHUNK); [apply prefix_refl | apply prefix_app].
    - rewrite takeN_all by lia.
      destruct (N.ltb_spec (len pu) CHUNK) as [?|_]; [lia|].
      apply prefix_app_same. apply IH.
  Qed.

  Theorem fs_auth_prefix_of_unauth w :
    prefix (auth_out CHUNK TAG ks tagc w) (unauth_out CHUNK TAG ks w).
  Proof.
    unfold auth_out, unauth_out, fs_out.
    destruct (len (xor_from 0 0 (takeN CHUNK w)) <? CHUNK); [apply prefix_refl|].
    apply prefix_app_same. apply out_auth_prefix_unauth.
  Qed.

  (* ---------- the known class D2, and the statement outside it ---------- *)

  (* chunk 0 of the inner bytes is delivered without tag check; that matters exactly when it
     does not verify, or when the stream is shorter than one full chunk with its tag (then
     tag bytes are decrypted as data too) *)
  Definition KnownClass_D2 (w : bytes) : Prop :=
    verifiesb 0 (takeN CTS w) = false \/ len w < CTS.

  (* outside D2: the authenticated output is exactly the chunks that verified under their
     index, contiguously from chunk 0, up to the first that does not *)
  Theorem fs_auth_no_D2 w : ~ KnownClass_D2 w ->
    auth_out CHUNK TAG ks tagc w = out_from dec_auth (Datatypes.S (Datatypes.S (length w))) 0 w.
  Proof.
    intros Hn. unfold KnownClass_D2 in Hn.
    destruct (verifiesb 0 (takeN CTS w)) eqn:Ev; [|exfalso; auto].
    assert (Hl : CTS <= len w) by (destruct (N.le_gt_cases CTS (len w)); [assumption | exfalso; auto]).
    unfold auth_out, fs_out. rewrite (out_from_S dec_auth (Datatypes.S (length w)) 0 w). unfold EncAuthFs.dec_auth at 2. rewrite Ev.
    destruct (ct_of_takeN w) as [Hct _]. rewrite Hct.
    replace (N.min CTS (len w) - TAG) with CHUNK by (unfold EncLayer.CTS in *; lia).
    rewrite takeN_takeN, N.min_id. replace (0 + 1) with 1 by lia. reflexivity.
  Qed.

  (* ---------- with an original plaintext: delivered ⊑ original, or Forgery ---------- *)

  Variable plain : bytes.
  Notation Forgery w := (Forgery CHUNK TAG ks tagc w plain).

  Lemma out_auth_original w f : forall i off,
    prefix (out_from dec_auth f i (dropN off w)) (dropN (i * CHUNK) plain) \/ Forgery w.
  Proof.
    induction f as [|f IH]; intros i off; cbn [EncAuthFs.out_from]; [left; apply prefix_nil|].
    unfold EncAuthFs.dec_auth. change (takeN CTS (dropN off w)) with (sliceN off CTS w).
    destruct (verifiesb i (sliceN off CTS w)) eqn:Ev; [|left; apply prefix_nil].
    assert (Ha : Accepted CHUNK TAG tagc w i (ct_of (sliceN off CTS w))) by (exists off; auto).
    destruct (accepted_original_or_forgery CHUNK TAG ks tagc w plain i _ Ha) as [Hx|Hf]; [|right; exact Hf].
    rewrite Hx.
    destruct (len (sliceN (i * CHUNK) CHUNK plain) <? CHUNK); [left; apply prefix_takeN|].
    rewrite dropN_dropN.
    destruct (IH (i + 1) (off + CTS)) as [Hp|Hf]; [|right; exact Hf]. left.
    assert (E : dropN (i * CHUNK) plain = sliceN (i * CHUNK) CHUNK plain ++ dropN ((i + 1) * CHUNK) plain).
    { unfold sliceN. rewrite <- (takeN_dropN CHUNK (dropN (i * CHUNK) plain)) at 1.
      f_equal. rewrite dropN_dropN. f_equal. lia. }
    rewrite E. apply prefix_app_same. exact Hp.
  Qed.

  (* C04 at the layer, outside D2: whatever was done to the archive body, everything the
     authenticated mode delivers is a prefix of the original plaintext — or the body contains a
     chunk accepted under counter i that the writer did not produce for chunk i *)
  Theorem fs_auth_original_or_forgery w : ~ KnownClass_D2 w ->
    prefix (auth_out CHUNK TAG ks tagc w) plain \/ Forgery w.
  Proof.
    intros Hn. rewrite (fs_auth_no_D2 w Hn).
    destruct (out_auth_original w (Datatypes.S (Datatypes.S (length w))) 0 0) as [H|H]; [left|right; exact H].
    rewrite N.mul_0_l in H. exact H.
  Qed.

  (* inside D2 as well, for everything that follows chunk 0 *)
  Theorem fs_auth_tail_original_or_forgery w :
    prefix (dropN CHUNK (auth_out CHUNK TAG ks tagc w)) (dropN CHUNK plain) \/ Forgery w.
  Proof.
    unfold auth_out, fs_out.
    set (c0 := xor_from 0 0 (takeN CHUNK w)).
    assert (Hl0 : len c0 <= CHUNK) by (unfold c0; rewrite len_xor_from', len_takeN; lia).
    destruct (N.ltb_spec (len c0) CHUNK) as [Hs|Hfull].
    - left. rewrite dropN_all by lia. apply prefix_nil.
    - replace CHUNK with (len c0) at 1 by lia. rewrite dropN_len_app.
      destruct (out_auth_original w (Datatypes.S (length w)) 1 CTS) as [H|H]; [left|right; exact H].
      rewrite N.mul_1_l in H. exact H.
  Qed.
End C.
