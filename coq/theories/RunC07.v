(* RunC07.v — Tie B entry points of work package c07rng (job c07-model, scaled build):

     c07_body      the bytes after the header of a real ENCRYPT-only archive (any writer calls, flushes at
                   random positions)  ==  EncLayer.enc_format, under the concrete AES-256-GCM, of the Writer
                   model's block stream — the right-hand side of MaskedProofs.archive_body_masked
     c07_layer     the real EncryptionLayerWriter driven by write_all / flush calls then finalize  ==
                   Masked.ew_archive_calls (the left-hand side of body_is_keystream_masked_layer)
     c07_draw      ChaChaRng::from_seed(seed): random::<[u8; 32]>(), random::<[u8; 8]>() from ONE generator,
                   fill_bytes(32) from a fresh one  ==  Fresh.key_of / nonce_of / eph_of under the concrete
                   ChaCha20 (the generator machine of Fresh.v, byte for byte)
     c07_builders  a builder sequence applied to a real ArchiveWriterConfig (layer bits, encryption_key(),
                   encryption_nonce(), check())  ==  the builders of Fresh.v folded over the same sequence
   Definitions only. *)
From MLA Require Import Limit.
From MLAGen Require Src.
(* executable entry points: the production value of BINCODE_MAX_DESERIALIZE (the same in both flavours), file-local *)
#[local] Instance RUN_LIMIT : Limit := MLAGen.Src.BINCODE_MAX_DESERIALIZE_prod.
From MLA Require Import Base Stream Inst EncLayer EncWriter InstGcm Masked Builders Fresh ArchiveInst RunWRows.
From MLA Require Import Blocks Writer Archive.
From MLA.Concrete Require Aes Sha256 ChaCha20.
From MLAGen Require Src.
Open Scope N_scope.

(* rows: [status]; the body *)
Definition c07_body (k : consts) (key nonce8 : bytes) (ntab : N) (names : list bytes) (calls : list (list N))
  : list (list N) :=
  let '(sf, rs) := wrun (cFNMAX k) Src.BT_FileStart Src.BT_FileContent Src.BT_EndOfArchiveData Src.BT_EndOfFile
                        Sha256.sha256 (aw_order names) w_init (map aw_call calls ++ [OFinalize]) in
  match first_bad rs with
  | Ok _ => [[0]; enc_format (cCHUNK k) (ksf_gcm (cCHUNK k) (N.to_nat ntab) key nonce8) (tagf_gcm key nonce8) (w_out sf)]
  | Err _ => [[1]]
  | Crash _ => [[2]]
  end.

(* calls: 1 :: buf = write_all(buf); anything else = flush *)
Definition c07_ecall (c : list N) : ecall := match c with 1 :: buf => EWriteAll buf | _ => EFlush end.
Definition c07_layer (k : consts) (key nonce8 : bytes) (ntab : N) (calls : list (list N)) : list (list N) :=
  match ew_archive_calls (cCHUNK k) (cCIPHERBUF k) (ksf_gcm (cCHUNK k) (N.to_nat ntab) key nonce8) (tagf_gcm key nonce8)
                         (ops_fuel calls) (map c07_ecall calls) with
  | Ok s => [[0]; ew_out s]
  | Err _ => [[1]]
  | Crash _ => [[2]]
  end.

Definition c07_draw (_ : consts) (seed : bytes) : list (list N) :=
  [key_of ChaCha20.chacha20_rng_bytes seed; nonce_of ChaCha20.chacha20_rng_bytes seed;
   eph_of ChaCha20.chacha20_rng_bytes seed].

(* seq: [0; l] enable_layer, [1; l] disable_layer, [2; l] set_layers, [3; n] add_public_keys of n keys,
        [4; lvl] with_compression_level.  start: 0 = new(), 1 = default() *)
Definition c07_bcall (c : list N) : call :=
  match c with
  | [0; l] => CEnable l | [1; l] => CDisable l | [2; l] => CSetLayers l
  | [3; n] => CAddKeys (repeat [] (N.to_nat n))
  | [4; lvl] => CLevel lvl
  | _ => CToPersistent
  end.
Definition c07_L_DEFAULT : N := N.lor Src.LAYER_ENCRYPT Src.LAYER_COMPRESS.
Definition c07_builders (_ : consts) (start : N) (key nonce : bytes) (seq : list (list N)) : list (list N) :=
  let c0 := mkCfg (if start =? 0 then 0 else c07_L_DEFAULT) Src.DEFAULT_COMPRESSION_LEVEL_prod key nonce [] O in
  let c := fold_left (fun c cl => match builder_of cl with Some f => f c | None => c end) (map c07_bcall seq) c0 in
  let enc := is_layers_enabled (c_layers c) Src.LAYER_ENCRYPT in
  [[if enc then 1 else 0; if is_layers_enabled (c_layers c) Src.LAYER_COMPRESS then 1 else 0];
   c_key c; c_nonce c;
   [match config_check enc (len (c_recips c)) with Ok _ => 0 | Err _ => 1 | Crash _ => 2 end]].
