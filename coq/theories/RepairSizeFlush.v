(* RepairSizeFlush.v — `repair ... <> Err EDeser` from the size of the flushed block stream, for
   the fail-safe decryptor (both modes) over the wire an encryption writer has FLUSHED (not
   finalized): it delivers at most len (w_out s) bytes (ComposeFlush.unauth_output_is; the
   authenticated output is a prefix of the unauthenticated one). *)
From MLA Require Import Limit.
From MLA Require Import Base Stream Blocks Writer Repair EncLayer EncAuth EncAuthFs EncAuthC EncWriter Inst Run
  ComposeRdOnly ComposeRepair ComposeFlush RepairMask RepairSize RepairSizeWrap.
From Coq Require Import ZifyBool ZifyNat ZifyN.
Open Scope N_scope.

Section FlushEnc.
  Context {LIM : Limit}.
  Variables FNMAX CACHE : N.
  Hypothesis HFN : FNMAX < 2 ^ 64.
  Hypothesis HCACHE : 0 < CACHE.
  Variables T_START T_CONTENT T_EOA T_EOF : N.
  Hypothesis Htags : T_START <> T_CONTENT /\ T_START <> T_EOA /\ T_START <> T_EOF /\
                     T_CONTENT <> T_EOA /\ T_CONTENT <> T_EOF /\ T_EOA <> T_EOF.
  Variable H : bytes -> bytes.
  Hypothesis H_len : forall x, len (H x) = 32.
  Variable s : wstate.
  Hypothesis Hnext : w_next s < 2 ^ 64.
  Variables CHUNK TAG CIPHERBUF : N.
  Hypothesis HCHUNK : 0 < CHUNK.
  Hypothesis HTAG : 0 < TAG.
  Variable ks : N -> N -> N.
  Variable tagc : N -> bytes -> bytes.
  Hypothesis Htagc : forall i c, len (tagc i c) = TAG.
  Variables (pieces : list bytes) (fuelw : nat) (es : ewstate).
  Hypothesis Hpieces : concat pieces = w_out s.
  Hypothesis Hew : ew_write_pieces CHUNK CIPHERBUF ks tagc fuelw ew_init pieces = Ok es.
  Hypothesis Hbigp : len (w_out s) / CHUNK < 2 ^ 32.
  Hypothesis Hbig : len (ew_out es) / (CHUNK + TAG) + 2 <= 2 ^ 32.

  Lemma flush_enc_no_ser unauth fuel e0 b :
    fits_limit (len (w_out s)) ->
    fs_open CHUNK TAG ks (Cursor (ew_out es)) 0 = (e0, Ok b) ->
    repair FNMAX CACHE T_START T_CONTENT T_EOA T_EOF H (FsEnc CHUNK TAG ks tagc unauth (Cursor (ew_out es))) fuel e0 w_init
      <> Err EDeser.
  Proof.
    intros Hf Ho.
    apply (fsenc_no_ser FNMAX CACHE T_START T_CONTENT T_EOA T_EOF H CHUNK TAG HCHUNK ks tagc unauth _ fuel e0 b Hbig Ho).
    apply (fits_limit_mono _ (len (w_out s))); [|exact Hf].
    pose proof (unauth_output_is FNMAX CACHE HFN HCACHE T_START T_CONTENT T_EOA T_EOF Htags H H_len s Hnext
                  CHUNK TAG CIPHERBUF HCHUNK HTAG ks tagc Htagc pieces fuelw es Hpieces Hew Hbigp Hbig) as Hu.
    destruct unauth; [rewrite Hu; lia|].
    rewrite <- Hu. apply prefix_len. cbn [fs_output]. apply (fs_auth_prefix_of_unauth CHUNK TAG HCHUNK).
  Qed.
End FlushEnc.
