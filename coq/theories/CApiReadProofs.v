(* CApiReadProofs.v — proofs about CApiRead.v, part 1: the callback adapter is a cursor
   (Refines) when the callbacks are; sorting; the file-callback loop; delivery into the
   callback writers; what a failing / NULL callback does. *)
From MLA Require Import Limit.
From MLA Require Import Base Stream Blocks Reader LinearRoundTripDefs CApi CApiProofs CApiRead.
From Coq Require Import ZifyBool ZifyNat ZifyN Permutation Sorted.
Open Scope N_scope.

(* ------------------------------------------------------------------ the adapter *)
Lemma len_sliceN_in (a : bytes) p k : p + k <= len a -> len (sliceN p k a) = k.
Proof. intros H. unfold sliceN. rewrite len_takeN, len_dropN. lia. Qed.

Lemma takeN_app_exact {A} (l r : list A) n : len l = n -> takeN n (l ++ r) = l.
Proof.
  intros H. unfold takeN, len in *. replace (N.to_nat n) with (length l + 0)%nat by lia.
  rewrite firstn_app_2. cbn [firstn]. apply app_nil_r.
Qed.

(* callbacks that implement a cursor over a (any read sizes): the adapter with a seek
   callback refines the cursor over a *)
Theorem cbin_refines (C : cbsrc) (a : bytes) R :
  CbCursor C a R -> len a < 2 ^ 63 -> Refines (CbIn C true) a R.
Proof.
  intros HC HL. constructor.
  - exact (cc_range _ _ _ HC).
  - intros s p n HR. cbn [CbIn rd st]. unfold cbin_rd.
    destruct (cc_read _ _ _ HC s p (clamp_u32 n) HR) as (s' & k & Hrd & Hk & Hb & Hz & HR').
    rewrite Hrd. cbn [N.eqb].
    exists s', k. rewrite takeN_app_exact by (apply len_sliceN_in; exact Hb).
    pose proof (clamp_le n) as Hc.
    split; [reflexivity|]. split; [lia|]. split; [exact Hb|]. split; [|exact HR'].
    intros Hk0. destruct (Hz Hk0) as [H0|H0]; [left|right; exact H0].
    unfold clamp_u32 in H0. destruct (n <? 4294967296) eqn:E; lia.
  - intros s p w q HR Ht. cbn [CbIn sk st]. unfold cbin_sk, cbin_call.
    pose proof (cc_range _ _ _ HC s p HR) as Hp.
    destruct w as [p0|d|d].
    + assert (Hq : q = p0 /\ p0 <= len a).
      { unfold target in Ht. destruct ((0 <=? Z.of_N p0) && (Z.of_N p0 <=? Z.of_N (len a)))%Z eqn:E; [|discriminate].
        injection Ht as <-. rewrite N2Z.id. split; [reflexivity|lia]. }
      destruct Hq as [-> Hle].
      destruct (N.ltb_spec p0 (2 ^ 63)) as [_|Hbig]; [|lia].
      destruct (cc_set _ _ _ HC s p p0 HR Hle) as (s' & Hsk & HR'). rewrite Hsk. cbn [N.eqb].
      exists s'. split; [reflexivity|exact HR'].
    + destruct (cc_cur _ _ _ HC s p d q HR Ht) as (s' & Hsk & HR'). rewrite Hsk. cbn [N.eqb].
      exists s'. split; [reflexivity|exact HR'].
    + destruct (cc_end _ _ _ HC s p d q HR Ht) as (s' & Hsk & HR'). rewrite Hsk. cbn [N.eqb].
      exists s'. split; [reflexivity|exact HR'].
Qed.

Ltac red_seek :=
  unfold cur_seek; change (negb (0 =? 0)) with false; cbn [andb];
  change (W_SET =? W_SET) with true; change (W_CUR =? W_SET) with false; change (W_CUR =? W_CUR) with true;
  change (W_END =? W_SET) with false; change (W_END =? W_CUR) with false; change (W_END =? W_END) with true;
  cbv iota.

(* the harness family with no failure injected implements a cursor, for every read-size limit *)
Theorem curcb_cursor (a : bytes) (rmode : N) :
  CbCursor (CurCb a rmode 0 0) a (fun s p => cu_pos s = p /\ p <= len a).
Proof.
  constructor.
  - intros s p [_ H]; exact H.
  - intros s p l [Hs Hp]. cbn [CurCb cb_read]. unfold cur_read. change (negb (0 =? 0)) with false. cbn [andb].
    rewrite Hs. replace (N.min p (len a)) with p by lia.
    set (want := if rmode =? 0 then l else N.min l rmode).
    assert (Hw : want <= l /\ (want = 0 -> l = 0)).
    { subst want. destruct (N.eqb_spec rmode 0); lia. }
    assert (Hl : len (sliceN p want a) = N.min want (len a - p)).
    { unfold sliceN. rewrite len_takeN, len_dropN. reflexivity. }
    assert (Hs2 : sliceN p want a = sliceN p (N.min want (len a - p)) a).
    { unfold sliceN. destruct (N.le_gt_cases want (len a - p)).
      - f_equal; lia.
      - rewrite !takeN_all by (rewrite len_dropN; lia). reflexivity. }
    rewrite Hs2. rewrite (len_sliceN_in a p (N.min want (len a - p))) by lia. clear Hl.
    eexists _, (N.min want (len a - p)). split; [reflexivity|].
    cbn [cu_pos]. destruct Hw as [Hw1 Hw2].
      split; [lia|]. split; [lia|]. split; [|split; lia].
      intros H0. destruct (N.eq_dec want 0) as [Hz|Hz]; [left; auto|right; lia].
  - intros s p q [Hs Hp] Hq. cbn [CurCb cb_seek]. red_seek.
    change (Z.of_N 0 + Z.of_N q)%Z with (Z.of_N q). destruct (Z.ltb_spec (Z.of_N q) 0) as [?|_]; [lia|].
    rewrite N2Z.id. eexists. split; [reflexivity|]. cbn [cu_pos]. auto.
  - intros s p d q [Hs Hp] Ht. cbn [CurCb cb_seek]. red_seek.
    unfold target in Ht. rewrite Hs.
    destruct ((0 <=? Z.of_N p + d) && (Z.of_N p + d <=? Z.of_N (len a)))%Z eqn:E; [|discriminate].
    injection Ht as <-. destruct (Z.ltb_spec (Z.of_N p + d) 0) as [?|_]; [lia|].
    eexists. split; [reflexivity|]. cbn [cu_pos]. split; [reflexivity|lia].
  - intros s p d q [Hs Hp] Ht. cbn [CurCb cb_seek]. red_seek.
    unfold target in Ht.
    destruct ((0 <=? Z.of_N (len a) + d) && (Z.of_N (len a) + d <=? Z.of_N (len a)))%Z eqn:E; [|discriminate].
    injection Ht as <-. destruct (Z.ltb_spec (Z.of_N (len a) + d) 0) as [?|_]; [lia|].
    eexists. split; [reflexivity|]. cbn [cu_pos]. split; [reflexivity|lia].
Qed.

(* a callback that reports failure: the adapter returns an error, never Ok, never Crash *)
Lemma cbin_rd_failure C s n s' st lr d :
  cb_read C s (clamp_u32 n) = (s', (st, lr, d)) -> st <> 0 -> cbin_rd C s n = (s', Err EIo).
Proof. intros H Hst. unfold cbin_rd. rewrite H. destruct (N.eqb_spec st 0); [contradiction|reflexivity]. Qed.
Lemma cbin_sk_failure C s off wh s' st np :
  cb_seek C s off wh = (s', (st, np)) -> st <> 0 -> cbin_call C true s off wh = (s', Err EIo).
Proof. intros H Hst. unfold cbin_call. rewrite H. destruct (N.eqb_spec st 0); [contradiction|reflexivity]. Qed.
(* the adapter itself never crashes when it has a seek callback *)
Lemma cbin_sk_no_crash C s w : is_crash (snd (cbin_sk C true s w)) = false.
Proof.
  unfold cbin_sk, cbin_call. destruct w as [n|d|d].
  - destruct (n <? 2 ^ 63); [|reflexivity]. destruct (cb_seek C s (Z.of_N n) W_SET) as [s' [st np]]. cbn [snd]. destruct (st =? 0); reflexivity.
  - destruct (cb_seek C s d W_CUR) as [s' [st np]]. cbn [snd]. destruct (st =? 0); reflexivity.
  - destruct (cb_seek C s d W_END) as [s' [st np]]. cbn [snd]. destruct (st =? 0); reflexivity.
Qed.
Lemma cbin_rd_no_crash C s n : is_crash (snd (cbin_rd C s n)) = false.
Proof. unfold cbin_rd. destruct (cb_read C s (clamp_u32 n)) as [s' [[st lr] d]]. destruct (st =? 0); reflexivity. Qed.
(* SeekFrom::Start beyond i64: InvalidInput, the callback is not called *)
Lemma cbin_sk_start_big C hs s n : 2 ^ 63 <= n -> cbin_sk C hs s (FromStart n) = (s, Err EInval).
Proof. intros H. unfold cbin_sk. destruct (N.ltb_spec n (2 ^ 63)); [lia|reflexivity]. Qed.
(* without seek callback (the info path) every seek that gets as far as the callback panics *)
Lemma cbin_sk_none C s d : cbin_sk C false s (FromCur d) = (s, Crash UnwrapNone).
Proof. reflexivity. Qed.
(* an over-reporting read callback: the adapter hands a slice longer than the request upward *)
Lemma cbin_rd_overreport C s n s' lr d :
  cb_read C s (clamp_u32 n) = (s', (0, lr, d)) -> len d <= lr ->
  exists x, cbin_rd C s n = (s', Ok x) /\ len x = lr.
Proof.
  intros H Hd. unfold cbin_rd. rewrite H. cbn [N.eqb]. eexists. split; [reflexivity|].
  rewrite len_takeN, len_app.
  assert (Hr : len (repeat 0 (N.to_nat (lr - len d))) = lr - len d) by (unfold len; rewrite repeat_length; lia).
  rewrite Hr. lia.
Qed.

(* ------------------------------------------------------------------ sorting *)
Lemma bytes_leb_total a : forall b, bytes_leb a b = false -> bytes_leb b a = true.
Proof.
  induction a as [|x a IH]; intros [|y b]; cbn [bytes_leb]; try discriminate; try reflexivity.
  destruct (N.ltb_spec x y); [discriminate|]. destruct (N.ltb_spec y x); [reflexivity|]. apply IH.
Qed.
Definition bytes_le (a b : bytes) : Prop := bytes_leb a b = true.

Lemma ins_bytes_perm x l : Permutation (ins_bytes x l) (x :: l).
Proof.
  induction l as [|h t IH]; cbn [ins_bytes]; [reflexivity|].
  destruct (bytes_leb x h); [reflexivity|]. rewrite IH. apply perm_swap.
Qed.
Lemma sort_bytes_perm l : Permutation (sort_bytes l) l.
Proof.
  induction l as [|x l IH]; [reflexivity|]. unfold sort_bytes in *. cbn [fold_right].
  rewrite ins_bytes_perm. now constructor.
Qed.
Lemma ins_bytes_sorted x l : LocallySorted bytes_le l -> LocallySorted bytes_le (ins_bytes x l).
Proof.
  induction 1 as [|h|h1 h2 t Hs IH Hle]; cbn [ins_bytes].
  - constructor.
  - destruct (bytes_leb x h) eqn:E; constructor; try constructor; try exact E. now apply bytes_leb_total.
  - destruct (bytes_leb x h1) eqn:E1.
    + constructor; [constructor; assumption | exact E1].
    + cbn [ins_bytes] in IH. destruct (bytes_leb x h2) eqn:E2.
      * constructor; [exact IH | now apply bytes_leb_total].
      * constructor; [exact IH | exact Hle].
Qed.
Lemma sort_bytes_sorted l : LocallySorted bytes_le (sort_bytes l).
Proof.
  induction l as [|x l IH]; [constructor|]. unfold sort_bytes in *. cbn [fold_right]. now apply ins_bytes_sorted.
Qed.

(* ------------------------------------------------------------------ the file-callback loop *)
Definition accepts (decide : nat -> bytes -> fdecision) (i : nat) (nm : bytes) : bool :=
  match decide i nm with FAccept _ _ _ => true | FDecline => false end.
Definition null_inside (decide : nat -> bytes -> fdecision) (i : nat) (nm : bytes) : bool :=
  match decide i nm with FAccept w f _ => negb (w && f) | FDecline => false end.
Definition sched_at (decide : nat -> bytes -> fdecision) (i : nat) (nm : bytes) : list cbev :=
  match decide i nm with FAccept _ _ s => s | FDecline => [] end.

(* names with their index in the order asked *)
Fixpoint indexed (i : nat) (names : list bytes) : list (nat * bytes) :=
  match names with [] => [] | nm :: r => (i, nm) :: indexed (S i) r end.

(* no NULL callback anywhere: every name is asked exactly once, in the order given, and the
   export map holds exactly the accepted ones with their writers *)
Lemma ask_all decide : forall names i asked exp,
  (forall j nm, In (j, nm) (indexed i names) -> null_inside decide j nm = false) ->
  ask decide i names asked exp =
    (asked ++ names,
     Some (exp ++ map (fun p => (snd p, sched_at decide (fst p) (snd p)))
                      (filter (fun p => accepts decide (fst p) (snd p)) (indexed i names)))).
Proof.
  induction names as [|nm r IH]; intros i asked exp Hn; cbn [ask indexed filter map].
  - now rewrite !app_nil_r.
  - pose proof (Hn i nm (or_introl eq_refl)) as H0. cbn [fst snd].
    assert (IH' : forall asked exp, ask decide (S i) r asked exp =
       (asked ++ r, Some (exp ++ map (fun p => (snd p, sched_at decide (fst p) (snd p)))
                      (filter (fun p => accepts decide (fst p) (snd p)) (indexed (S i) r))))).
    { intros a0 e0. apply IH. intros j n' Hin. apply Hn. right. exact Hin. }
    unfold null_inside in H0. unfold accepts at 1.
    destruct (decide i nm) as [|w f sched] eqn:Ed.
    + rewrite IH'. rewrite <- app_assoc. reflexivity.
    + destruct (w && f); [|discriminate].
      rewrite IH'. cbn [map fst snd].
      replace (sched_at decide i nm) with sched by (unfold sched_at; now rewrite Ed).
      rewrite <- !app_assoc. reflexivity.
Qed.

(* a NULL write or flush callback in the FileWriter of an accepted name: BadAPIArgument, after
   the names before it (and itself) were asked *)
Lemma ask_null decide : forall names i asked exp pre nm post,
  names = pre ++ nm :: post ->
  (forall j n', In (j, n') (indexed i pre) -> null_inside decide j n' = false) ->
  null_inside decide (i + length pre) nm = true ->
  ask decide i names asked exp = (asked ++ pre ++ [nm], None).
Proof.
  induction names as [|n0 r IH]; intros i asked exp pre nm post Hs Hpre Hnull.
  - destruct pre; discriminate.
  - destruct pre as [|p0 pre]; cbn [app] in Hs; injection Hs as -> ->.
    + cbn [ask app length]. unfold null_inside in Hnull. rewrite Nat.add_0_r in Hnull.
      destruct (decide i nm) as [|w f sched]; [discriminate|].
      destruct (w && f); [discriminate|reflexivity].
    + cbn [ask]. pose proof (Hpre i p0 (or_introl eq_refl)) as H0. unfold null_inside in H0.
      cbn [length] in Hnull. rewrite <- Nat.add_succ_comm in Hnull.
      destruct (decide i p0) as [|w f sched].
      * rewrite (IH (S i) _ _ pre nm post eq_refl) by (try exact Hnull; intros j n' Hin; apply Hpre; right; exact Hin).
        rewrite <- app_assoc. reflexivity.
      * destruct (w && f); [|discriminate].
        rewrite (IH (S i) _ _ pre nm post eq_refl) by (try exact Hnull; intros j n' Hin; apply Hpre; right; exact Hin).
        rewrite <- app_assoc. reflexivity.
Qed.

(* ------------------------------------------------------------------ delivery *)
Lemma delivered_cons nm n d r :
  delivered nm ((n, d) :: r) = if bytes_eqb n nm then d ++ delivered nm r else delivered nm r.
Proof. unfold delivered, pieces_to. cbn [filter fst]. destruct (bytes_eqb n nm); reflexivity. Qed.

Lemma benign_suffix used rest : forallb benign (used ++ rest) = true -> forallb benign rest = true.
Proof. rewrite forallb_app. intros H. apply andb_prop in H. exact (proj2 H). Qed.

(* writers whose every invocation accepts a non-empty part (or reports EINTR): the extraction's
   writes all succeed and each writer holds, behind what it held, exactly the pieces of its name *)
Lemma deliver_benign out : forall m,
  (forall nm s g, m nm = Some (s, g) -> forallb benign s = true) ->
  exists m', deliver out m = (m', Ok tt) /\
    (forall nm, m nm = None -> m' nm = None) /\
    (forall nm s g, m nm = Some (s, g) ->
       exists s', m' nm = Some (s', g ++ delivered nm out) /\ forallb benign s' = true).
Proof.
  induction out as [|[n d] r IH]; intros m Hb.
  - exists m. cbn [deliver]. split; [reflexivity|]. split; [auto|].
    intros nm s g H. exists s. unfold delivered, pieces_to. cbn [filter map concat]. rewrite app_nil_r. split; [exact H|exact (Hb _ _ _ H)].
  - cbn [deliver]. destruct (m n) as [[sched got]|] eqn:Em.
    + pose proof (Hb _ _ _ Em) as Hs.
      destruct (write_all_sched_delivers sched d got Hs) as (sched' & Hw). rewrite Hw.
      destruct (write_all_ok_inv _ _ _ _ _ _ Hw) as (used & Hu & _ & _).
      assert (Hs' : forallb benign sched' = true) by (rewrite Hu in Hs; exact (benign_suffix _ _ Hs)).
      destruct (IH (supd m n (sched', got ++ d))) as (m' & Hd & Hnone & Hsome).
      { intros nm s g. unfold supd. destruct (bytes_eqb nm n); [intros E; injection E as <- <-; exact Hs' | apply Hb]. }
      exists m'. split; [exact Hd|]. split.
      * intros nm Hn. apply Hnone. unfold supd. destruct (bytes_eqb nm n) eqn:E; [|exact Hn].
        apply bytes_eqb_eq in E. subst nm. congruence.
      * intros nm s g Hm. rewrite delivered_cons.
        destruct (bytes_eqb n nm) eqn:E.
        -- apply bytes_eqb_eq in E. subst nm. rewrite Em in Hm. injection Hm as <- <-.
           destruct (Hsome n sched' (got ++ d)) as (s' & H1 & H2).
           { unfold supd. now rewrite bytes_eqb_refl. }
           exists s'. rewrite app_assoc. auto.
        -- apply (Hsome nm s g). unfold supd. destruct (bytes_eqb nm n) eqn:E2; [|exact Hm].
           apply bytes_eqb_eq in E2. subst nm. rewrite bytes_eqb_refl in E. discriminate.
    + destruct (IH m Hb) as (m' & Hd & Hnone & Hsome). exists m'. split; [exact Hd|]. split; [exact Hnone|].
      intros nm s g Hm. rewrite delivered_cons. destruct (bytes_eqb n nm) eqn:E; [|exact (Hsome _ _ _ Hm)].
      apply bytes_eqb_eq in E. subst nm. congruence.
Qed.

(* the converse direction, for failures: if the extraction's writes all succeeded, every
   invocation any write callback went through was benign — so an invocation that reported a
   failure (other than the retried code 4: K20-EINTR) makes the call fail *)
Lemma deliver_ok_inv out : forall m m',
  deliver out m = (m', Ok tt) ->
  forall nm s g, m nm = Some (s, g) ->
    exists used s' g', m' nm = Some (s', g') /\ s = used ++ s' /\ forallb benign used = true.
Proof.
  induction out as [|[n d] r IH]; intros m m' Hd nm s g Hm; cbn [deliver] in Hd.
  - injection Hd as <-. exists [], s, g. auto.
  - destruct (m n) as [[sched got]|] eqn:Em; [|exact (IH _ _ Hd _ _ _ Hm)].
    destruct (write_all (write_all_fuel sched d) sched d got) as [[sched' got'] [[]|e|c]] eqn:Hw;
      try (injection Hd as _ Hx; discriminate).
    destruct (write_all_ok_inv _ _ _ _ _ _ Hw) as (used & Hu & Hben & _).
    destruct (bytes_eqb nm n) eqn:E.
    + apply bytes_eqb_eq in E. subst nm. rewrite Em in Hm. injection Hm as <- <-.
      destruct (IH _ _ Hd n sched' got') as (u2 & s2 & g2 & H1 & H2 & H3).
      { unfold supd. now rewrite bytes_eqb_refl. }
      exists (used ++ u2), s2, g2. split; [exact H1|]. split; [rewrite Hu, H2; now rewrite app_assoc|].
      rewrite forallb_app, Hben, H3. reflexivity.
    + apply (IH _ _ Hd nm s g). unfold supd. rewrite E. exact Hm.
Qed.

(* and delivery never reaches a crash site *)
Lemma write_all_no_crash fuel : forall sched buf got, is_crash (snd (write_all fuel sched buf got)) = false.
Proof.
  induction fuel as [|f IH]; intros sched buf got; destruct buf as [|b0 buf]; try reflexivity.
  rewrite write_all_S.
  destruct (cb_write (fst (next_ev sched (b0 :: buf))) (b0 :: buf)) as [[n| |] acc]; try reflexivity; try apply IH.
  destruct (n =? 0); [reflexivity|apply IH].
Qed.
Lemma deliver_no_crash out : forall m, is_crash (snd (deliver out m)) = false.
Proof.
  induction out as [|[n d] r IH]; intros m; cbn [deliver]; [reflexivity|].
  destruct (m n) as [[sched got]|]; [|apply IH].
  pose proof (write_all_no_crash (write_all_fuel sched d) sched d got) as H.
  destruct (write_all (write_all_fuel sched d) sched d got) as [[sched' got'] [[]|e|c]]; cbn [snd] in *; try reflexivity; [apply IH|discriminate].
Qed.
