(* Masked.v — "nothing in clear" (C07), definitions: the encryption-layer writer driven by ANY list of
   write_all and flush calls, and byte access.

   encrypt.rs:297   fn flush(&mut self) -> io::Result<()> { self.inner.flush() }
   The layer holds no plaintext buffer: `write` encrypts a temporary copy of (a prefix of) `buf` in place
   and hands THAT to `inner.write_all`; `flush` only forwards.  In the model `ew_out` is everything
   handed to the inner writer through write_all, so a flush leaves the whole state as it is
   (Tie A: SrcTie3Fresh.enc_flush_only_forwards, enc_inner_writes_are_cipher_outputs).
   Proofs in MaskedProofs.v. *)
From MLA Require Import Base Stream EncLayer EncWriter.
Open Scope N_scope.

Inductive ecall := EWriteAll (b : bytes) | EFlush.

Section Masked.
  Variables CHUNK CIPHERBUF : N.
  Variable ks : N -> N -> N.
  Variable tagc : N -> bytes -> bytes.

  (* Write::flush of EncryptionLayerWriter: self.inner.flush() *)
  Definition ew_flush (s : ewstate) : res ewstate := Ok s.

  Fixpoint ew_calls (fuel : nat) (s : ewstate) (cs : list ecall) : res ewstate :=
    match cs with
    | [] => Ok s
    | EWriteAll b :: r => do s1 <- ew_write_all CHUNK CIPHERBUF ks tagc fuel s b; ew_calls fuel s1 r
    | EFlush :: r => do s1 <- ew_flush s; ew_calls fuel s1 r
    end.

  (* the buffers written, in order *)
  Definition writes_of (cs : list ecall) : list bytes :=
    flat_map (fun c => match c with EWriteAll b => [b] | EFlush => [] end) cs.

  (* any calls, then LayerWriter::finalize *)
  Definition ew_archive_calls (fuel : nat) (cs : list ecall) : res ewstate :=
    do s <- ew_calls fuel ew_init cs; ew_finalize tagc s.
End Masked.

(* byte i of a string (0 beyond its end) *)
Definition byteN (i : N) (l : bytes) : N := nth (N.to_nat i) l 0.
